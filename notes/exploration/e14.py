import os
os.environ['TF_CPP_MIN_LOG_LEVEL']='3'
import numpy as np, tensorflow as tf
from fractions import Fraction
import math
print("== nearest resize index formula")
bad=0; amb=0; tot=0
for g in range(1,9):
    for H in range(g,25):
        m=tf.reshape(tf.range(g,dtype=tf.float32),(1,g,1,1))
        up=tf.image.resize(m,(H,1),method="nearest").numpy()[0,:,0,0].astype(int)
        for i in range(H):
            v=Fraction(2*i+1,2)*Fraction(g,H); fl=math.floor(v); exp=min(fl,g-1); tot+=1
            if v.denominator==1: amb+=1
            if up[i]!=exp: bad+=1; print("nn mismatch g",g,"H",H,"i",i,up[i],exp,"ambiguous" if v.denominator==1 else "")
print("nearest: total",tot,"mismatch",bad,"integer-boundary positions",amb)
print("== bilinear resize formula (half pixel, clamp)")
rs=np.random.RandomState(0); bad=0; worst=0
for g in range(1,7):
    for H in range(g,20):
        a=rs.randint(0,2,size=g).astype('float32')
        up=tf.image.resize(a.reshape(1,g,1,1),(H,1)).numpy()[0,:,0,0]
        for i in range(H):
            src=Fraction(2*i+1,2)*Fraction(g,H)-Fraction(1,2)
            lo=math.floor(src); fr=src-lo
            l=min(max(lo,0),g-1); h=min(max(lo+1,0),g-1)
            exp=float((1-fr)*Fraction(int(a[l]))+fr*Fraction(int(a[h])))
            worst=max(worst,abs(exp-up[i]))
print("bilinear worst dev",worst)
print("== np.linspace int32 keys vs floor(jM/S)")
bad=0; tot=0
for M in range(1,200):
    for S in range(1,120):
        k=np.linspace(0,M,S+1,dtype=np.int32)
        e=np.array([ (j*M)//S for j in range(S+1)])
        tot+=1
        if not np.array_equal(k,e): bad+=1; 
        if not np.array_equal(k,e) and bad<=5: print("M",M,"S",S,"first diff at", np.where(k!=e)[0][:3], k[np.where(k!=e)[0][:3]], e[np.where(k!=e)[0][:3]])
print("linspace: total",tot,"mismatch",bad)
print("== keras relu threshold strictness")
r=tf.keras.layers.ReLU(max_value=3.0,threshold=1.0); print(r(tf.constant([0.5,1.0,1.5,3.0,4.0])).numpy())
print("== argsort ties")
print(tf.argsort(tf.constant([1.,0.,1.,0.,1.])).numpy(), tf.argsort(tf.constant([1.,0.,1.,0.,1.]),direction='DESCENDING').numpy(), np.argsort(np.array([1.,0.,1.,0.,1.]))[::-1])
print("== tf.linspace exact?")
for s in (2,3,5,7,9,11):
    a=tf.linspace(0.0,1.0,s).numpy(); print(s,[Fraction(float(v))==Fraction(j,s-1) for j,v in enumerate(a)])
