import os, sys, gc, itertools, traceback, warnings
os.environ['TF_CPP_MIN_LOG_LEVEL']='3'
warnings.filterwarnings("ignore")
import numpy as np, tensorflow as tf, torch
rs = np.random.RandomState(12)
from xplique.example_based import SimilarExamples, ProtoGreedy, MMDCritic, ProtoDash, Cole
from xplique.example_based.projections import Projection
def section(name): print("\n=====", name)
def flat(idx, bs): return idx[...,0]*bs+idx[...,1]
N,d=9,3
X = rs.randint(-3,4,size=(N,d)).astype('float32'); L=(np.arange(N)*10).astype('float32'); T=np.eye(3)[rs.randint(0,3,N)].astype('float32')
Q = rs.randint(-3,4,size=(3,d)).astype('float32')
def brute(Xp,Qp,k):
    D=np.sqrt(((Qp[:,None]-Xp[None])**2).sum(-1)); return np.sort(D,1)[:,:k], D
section("containers / columns")
conts={
 "np":lambda bs:(dict(cases_dataset=X,labels_dataset=L,batch_size=bs)),
 "tf":lambda bs:(dict(cases_dataset=tf.constant(X),labels_dataset=tf.constant(L),batch_size=bs)),
 "torch":lambda bs:(dict(cases_dataset=torch.tensor(X),labels_dataset=torch.tensor(L),batch_size=bs)),
 "ds1 batched":lambda bs:(dict(cases_dataset=tf.data.Dataset.from_tensor_slices(X).batch(bs),labels_dataset=tf.data.Dataset.from_tensor_slices(L).batch(bs))),
 "ds2 batched":lambda bs:(dict(cases_dataset=tf.data.Dataset.from_tensor_slices((X,L)).batch(bs))),
 "ds3 batched":lambda bs:(dict(cases_dataset=tf.data.Dataset.from_tensor_slices((X,L,T)).batch(bs))),
 "ds2 unbatched":lambda bs:(dict(cases_dataset=tf.data.Dataset.from_tensor_slices((X,L)),batch_size=bs)),
}
for cn,mkc in conts.items():
    bad=0
    for bs in (1,2,4,9,10):
        for k in (1,3,9):
            try:
                m=SimilarExamples(k=k,case_returns="all",**mkc(bs)); out=m(Q)
                exp,D=brute(X,Q,k)
                ok=np.allclose(out["distances"].numpy(),exp,atol=1e-5) and out["examples"].shape==(3,k+1,d) and np.array_equal(out["examples"][:,0].numpy(),Q)
                ex=out["examples"][:,1:].numpy(); lab=out["labels"].numpy()
                for i in range(3):
                    for j in range(k):
                        idx=np.where((X==ex[i,j]).all(1))[0]
                        if not (len(idx) and any(np.isclose(D[i,t],out["distances"][i,j].numpy(),atol=1e-5) and L[t]==lab[i,j] for t in idx)): ok=False
                if not ok: bad+=1; print(cn,bs,k,"MISMATCH")
            except Exception as ex: bad+=1; print(cn,bs,k,"ERR",type(ex).__name__,str(ex)[:120].replace("\n"," "))
    print(cn,"bad",bad)
section("projections: weights + space")
A=rs.randint(-2,3,size=(d,4)).astype('float32'); w=np.array([1.,2.,0.,3.],'float32')
proj=Projection(get_weights=w, space_projection=lambda z: tf.matmul(z,A))
for bs in (2,9):
    m=SimilarExamples(X,labels_dataset=L,k=4,projection=proj,batch_size=bs,case_returns=["examples","distances","labels"])
    out=m(Q); exp,D=brute((X@A)*w,(Q@A)*w,4); print("proj bs",bs,np.allclose(out["distances"].numpy(),exp,atol=1e-4))
section("prototypes edges")
for cls in (MMDCritic,ProtoGreedy,ProtoDash):
    for bs in (2,4,9):
        try:
            p=cls(X,labels_dataset=L,nb_global_prototypes=N,nb_local_prototypes=N,batch_size=bs,case_returns=["indices","distances","labels"])
            g=p.get_global_prototypes(); fi=flat(g["prototypes_indices"].numpy(),p.batch_size); w_=g["prototypes_weights"].numpy()
            out=p(Q); fo=flat(out["indices"].numpy(),p.batch_size)
            print(cls.__name__,bs,"all selected:",sorted(fi.tolist())==list(range(N)),"w>=0",(w_>=0).all(),"sum",round(float(w_.sum()),5),"local idx subset", set(fo.flatten())<=set(fi), "labels ok", np.array_equal(out["labels"].numpy(), L[fo]))
        except Exception as ex: print(cls.__name__,bs,"ERR",type(ex).__name__,str(ex)[:200].replace("\n"," "))
# custom kernel
kern=lambda a,b: 1.0/(1.0+tf.reduce_sum((a[:,None]-b[None])**2,-1))
for bs in (2,4,9):
    p=MMDCritic(X,nb_global_prototypes=4,batch_size=bs,kernel_fn=kern); print("custom kernel sel", flat(p.get_global_prototypes()["prototypes_indices"].numpy(),p.batch_size))
