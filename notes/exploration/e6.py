import os, sys, gc, itertools, traceback, warnings
os.environ['TF_CPP_MIN_LOG_LEVEL']='3'
warnings.filterwarnings("ignore")
import numpy as np, tensorflow as tf
rs = np.random.RandomState(4)
from xplique.example_based import SimilarExamples, NaiveCounterFactuals, LabelAwareCounterFactuals, KLEORSimMiss, KLEORGlobalSim, ProtoGreedy, MMDCritic, ProtoDash
def section(name): print("\n=====", name)
def flat(idx, bs): return idx[...,0]*bs+idx[...,1]
dists = {"euclidean": lambda a,b: np.sqrt(((a-b)**2).sum(-1)), "manhattan": lambda a,b: np.abs(a-b).sum(-1), "chebyshev": lambda a,b: np.abs(a-b).max(-1), 3: lambda a,b: (np.abs(a-b)**3).sum(-1)**(1/3)}
section("SimilarExamples vs brute force")
N,d=11,3
X = rs.randint(-3,4,size=(N,d)).astype('float32'); L = np.arange(N).astype('float32')
Q = rs.randint(-3,4,size=(4,d)).astype('float32')
bad=0
for dn,df in dists.items():
  for bs in (1,2,3,5,11,12,None):
    for k in (1,2,5,11):
        try:
            m=SimilarExamples(X, labels_dataset=L, k=k, batch_size=bs, distance=dn, case_returns=["examples","distances","labels","indices"])
            out=m(Q)
            D=np.array([[df(q,c) for c in X] for q in Q])
            ebs = m.batch_size
            fi=flat(out["indices"].numpy(), ebs)
            for i in range(len(Q)):
                srt=np.sort(D[i])[:k]
                ok = np.allclose(out["distances"][i].numpy(), srt, atol=1e-5) and np.allclose(D[i][fi[i]], out["distances"][i].numpy(), atol=1e-5) and np.array_equal(out["examples"][i].numpy(), X[fi[i]]) and np.array_equal(out["labels"][i].numpy(), L[fi[i]])
                if not ok: bad+=1; print("KNN MISMATCH", dn,bs,k,i)
        except Exception as ex: bad+=1; print("ERR",dn,bs,k,repr(ex)[:200])
print("knn bad:",bad)

section("Counterfactuals / KLEOR vs brute force")
N=12
X = rs.randint(-4,5,size=(N,2)).astype('float32')
cls = rs.randint(0,3,size=N); T=np.eye(3)[cls].astype('float32')
Q = rs.randint(-4,5,size=(5,2)).astype('float32'); qc = rs.randint(0,3,size=5); QT=np.eye(3)[qc].astype('float32')
bad=0
for bs in (1,2,5,12,13):
  for k in (1,2,4,8):
    D=np.array([[dists["euclidean"](q,c) for c in X] for q in Q])
    # naive
    out=NaiveCounterFactuals(X, targets_dataset=T, k=k, batch_size=bs, case_returns=["examples","distances","indices"])(Q,QT)
    fi=flat(out["indices"].numpy(), min(bs,N))
    for i in range(5):
        adm = cls!=qc[i]; dd=np.sort(D[i][adm]); exp=np.concatenate([dd, np.full(max(0,k-len(dd)), np.inf)])[:k]
        got=out["distances"][i].numpy()
        fin=np.isfinite(got)
        if not (np.allclose(got[fin],exp[fin],atol=1e-5) and np.array_equal(np.isfinite(exp),fin) and all(adm[fi[i][fin]])): bad+=1; print("NAIVE CF MISMATCH",bs,k,i,got,exp)
    # label aware
    cf = np.eye(3)[(qc+1)%3].astype('float32')
    out=LabelAwareCounterFactuals(X, targets_dataset=T, k=k, batch_size=bs, case_returns=["examples","distances","indices"])(Q,QT,cf)
    fi=flat(out["indices"].numpy(), min(bs,N))
    for i in range(5):
        adm = cls==(qc[i]+1)%3; dd=np.sort(D[i][adm]); exp=np.concatenate([dd, np.full(max(0,k-len(dd)), np.inf)])[:k]
        got=out["distances"][i].numpy(); fin=np.isfinite(got)
        if not (np.allclose(got[fin],exp[fin],atol=1e-5) and np.array_equal(np.isfinite(exp),fin) and all(adm[fi[i][fin]])): bad+=1; print("LA CF MISMATCH",bs,k,i,got,exp)
    for clsK,glob in ((KLEORSimMiss,False),(KLEORGlobalSim,True)):
        out=clsK(X, targets_dataset=T, k=k, batch_size=bs, case_returns=["examples","distances","indices","nuns","dist_to_nuns","nuns_indices"])(Q,QT)
        fi=flat(out["indices"].numpy(), min(bs,N))
        for i in range(5):
            unl = cls!=qc[i]
            nd = np.where(unl, D[i], np.inf); j=np.argmin(nd); dn=nd[j]
            nun=X[j]
            okn = np.isclose(np.linalg.norm(out["nuns"][i,0].numpy()-Q[i]), dn, atol=1e-5)
            same = cls==qc[i]
            if glob: same = same & (D[i] < dn)
            d2n = np.array([dists["euclidean"](out["nuns"][i,0].numpy(),c) for c in X])
            order = np.sort(d2n[same]); exp=np.concatenate([order, np.full(max(0,k-len(order)), np.inf)])[:k]
            got=out["dist_to_nuns"][i].numpy(); fin=np.isfinite(got)
            ok = okn and np.allclose(got[fin],exp[fin],atol=1e-5) and np.array_equal(np.isfinite(exp),fin) and all(same[fi[i][fin]]) and np.allclose(out["distances"][i].numpy()[fin], D[i][fi[i][fin]],atol=1e-5)
            if not ok: bad+=1; print(clsK.__name__,"MISMATCH",bs,k,i,got,exp,okn)
print("contrastive bad:",bad)

section("Prototypes batching independence + dense reference")
N,d=14,2
X = np.concatenate([rs.randn(5,d)+[3,3], rs.randn(5,d)+[-3,0], rs.randn(4,d)+[0,-4]]).astype('float32')
L = np.arange(N).astype('int64')
def dense_ref(X, npro, gamma, kind):
    K=np.exp(-gamma*((X[:,None]-X[None])**2).sum(-1)).astype('float64'); mu=K.mean(0); sel=[]
    for _ in range(npro):
        best=-np.inf; bi=None
        for c in range(len(X)):
            if c in sel: continue
            S=sel+[c]
            if kind=="mmd": obj=2*mu[c]-(K[c,c]+2*K[c,sel].sum())/len(S)
            elif kind=="greedy":
                Ks=K[np.ix_(S,S)]; w=np.maximum(np.linalg.inv(Ks+1e-6*np.eye(len(S)))@mu[S],0); obj=w@mu[S]-0.5*w@Ks@w
            if obj>best+1e-12: best=obj; bi=c
        sel.append(bi)
    return sel
for clsP,kind in ((MMDCritic,"mmd"),(ProtoGreedy,"greedy"),(ProtoDash,"dash")):
    ref=None
    for bs in (1,2,3,4,7,14,15,None):
        try:
            p=clsP(X, labels_dataset=L, nb_global_prototypes=5, nb_local_prototypes=2, batch_size=bs, gamma=0.1, case_returns=["examples","distances","labels","indices"])
            g=p.get_global_prototypes()
            ebs=p.batch_size
            fi=flat(g["prototypes_indices"].numpy(), ebs); wts=g["prototypes_weights"].numpy()
            if ref is None: ref=(fi,wts); print(clsP.__name__,"sel",fi,"w",np.round(wts,4),"sum",wts.sum(), "labels ok", np.array_equal(g["prototypes_labels"].numpy(), L[fi]), "protos ok", np.array_equal(g["prototypes"].numpy(), X[fi]))
            elif not (np.array_equal(ref[0],fi) and np.allclose(ref[1],wts,atol=1e-4)): print(clsP.__name__,"BATCH DEP", bs, fi, np.round(wts,4))
            out=p(X[:3]+0.1)
            fo=flat(out["indices"].numpy(), ebs)
            Dq=np.array([[np.linalg.norm(q-X[j]) for j in fi] for q in X[:3]+0.1])
        except Exception as ex: print(clsP.__name__,"ERR",bs,repr(ex)[:300]); traceback.print_exc()
    if kind!="dash": print("  dense ref:", dense_ref(X,5,0.1,kind))
    else: 
        K=np.exp(-0.1*((X[:,None]-X[None])**2).sum(-1)); print("  first should be", np.argmax(K.mean(0)))
