import ast, sys
def src(path): return ast.parse(open('/repo/xplique/'+path).read())
def find_func(tree, name, cls=None):
    for node in ast.walk(tree):
        if isinstance(node, ast.ClassDef) and (cls is None or node.name==cls):
            for f in node.body:
                if isinstance(f,(ast.FunctionDef,)) and f.name==name: return f
        if cls is None and isinstance(node, ast.FunctionDef) and node.name==name: return node
def calls(fn, fname):
    return [n for n in ast.walk(fn) if isinstance(n, ast.Call) and ((isinstance(n.func, ast.Name) and n.func.id==fname) or (isinstance(n.func, ast.Attribute) and n.func.attr==fname))]
def lean(e, env):
    """translate a scalar python expr to Lean Int expr; env maps source sub-expressions (unparsed) to Lean variable names"""
    u = ast.unparse(e)
    if u in env: return env[u]
    if isinstance(e, ast.Constant) and isinstance(e.value,int): return f"({e.value} : Int)"
    if isinstance(e, ast.BinOp):
        a,b = lean(e.left,env), lean(e.right,env)
        if isinstance(e.op, ast.Add): return f"({a} + {b})"
        if isinstance(e.op, ast.Sub): return f"({a} - {b})"
        if isinstance(e.op, ast.Mult): return f"({a} * {b})"
        if isinstance(e.op, ast.FloorDiv): return f"(Int.fdiv {a} {b})"
        if isinstance(e.op, ast.Div): return f"(TRUEDIV {a} {b})"
    if isinstance(e, ast.Call) and isinstance(e.func, ast.Name):
        if e.func.id in ("min","max") and len(e.args)==2: return f"({e.func.id} {lean(e.args[0],env)} {lean(e.args[1],env)})"
        if e.func.id=="ceil" and isinstance(e.args[0], ast.BinOp) and isinstance(e.args[0].op, ast.Div):
            a,b=lean(e.args[0].left,env), lean(e.args[0].right,env); return f"(-(Int.fdiv (-{a}) {b}))"
    raise ValueError("untranslatable: "+u)
# occlusion anchors
t=src('attributions/occlusion.py'); f=find_func(t,'_get_masks','Occlusion')
for c in calls(f,'ceil'):
    print("occl:", ast.unparse(c), "=>", lean(c, {"input_shape[0]":"dim","input_shape[1]":"dim","patch_size":"p","patch_size[0]":"p","patch_size[1]":"p","patch_stride":"s","patch_stride[0]":"s","patch_stride[1]":"s"}))
t=src('attributions/integrated_gradients.py'); f=find_func(t,'explain','IntegratedGradients')
for c in calls(f,'max'): print("ig:", ast.unparse(c), "=>", lean(c, {"batch_size":"bs","self.steps":"steps"}))
for path,cls,fn in [('attributions/gradient_statistics/gradient_statistic.py','GradientStatistic','explain'),('metrics/fidelity.py','MuFidelity','__init__'),('metrics/fidelity.py','MuFidelity','evaluate')]:
    t=src(path); f=find_func(t,fn,cls)
    env={"batch_size":"bs","self.batch_size":"bs","self.nb_samples":"nb","perturbation_batch_size":"pbs","self.perturbation_batch_size":"pbs","total_perturbed_samples":"tot"}
    for c in calls(f,'min')+calls(f,'max'):
        try: print(cls,fn,":", ast.unparse(c), "=>", lean(c, env))
        except ValueError as e: print(cls,fn,"skip", e)
