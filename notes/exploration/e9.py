import os, sys, gc, itertools, traceback, warnings
os.environ['TF_CPP_MIN_LOG_LEVEL']='3'
warnings.filterwarnings("ignore")
import numpy as np, tensorflow as tf
import torch, torch.nn as nn
rs = np.random.RandomState(7)
def section(name): print("\n=====", name)
section("HSIC raw scores")
from xplique.attributions.global_sensitivity_analysis import *
for Est in (BinaryEstimator, RbfEstimator, SobolevEstimator):
    g,n=3,16
    binary = Est is BinaryEstimator
    masks=TFSobolSequence(binary=binary)(g*g,n).reshape(-1,g,g,1)
    mn=1e9
    for t in range(20):
        outs=rs.randn(n).astype('float32')
        s=Est()(masks,outs,n); mn=min(mn,s.min())
    print(Est.__name__, "min raw score over 20 random outputs:", mn, s.shape)

section("C11 torch wrapper non-square conv")
from xplique.wrappers import TorchWrapper
from xplique.attributions import Saliency, GradientInput, IntegratedGradients, Occlusion
torch.manual_seed(0)
class Net(nn.Module):
    def __init__(s):
        super().__init__(); s.c=nn.Conv2d(3,4,(2,3)); s.f=nn.Linear(4*5*8,3)
    def forward(s,x): return s.f(torch.relu(s.c(x)).flatten(1))
net=Net().eval()
wr=TorchWrapper(net,'cpu')
x=rs.randn(3,6,10,3).astype('float32'); y=np.eye(3)[[0,1,2]].astype('float32')
xt=torch.tensor(np.moveaxis(x,3,1).copy(),requires_grad=True)
o=net(xt); (o*torch.tensor(y)).sum().backward(); g=np.moveaxis(xt.grad.numpy(),1,3)
print("forward dev", np.abs(wr(x).numpy()-o.detach().numpy()).max())
e=Saliency(wr,reducer=None)(x,y).numpy(); print("saliency dev", np.abs(e-np.abs(g)).max(), e.shape)
e=GradientInput(wr,reducer="sum")(x,y).numpy(); print("gradinput dev", np.abs(e[...,0]-(g*x).sum(-1)).max())
mlp=nn.Sequential(nn.Linear(5,4),nn.Tanh(),nn.Linear(4,1)).eval()
wm=TorchWrapper(mlp,'cpu'); xm=rs.randn(4,5).astype('float32'); ym=np.ones((4,1),'float32')
xt=torch.tensor(xm,requires_grad=True); mlp(xt).sum().backward()
print("mlp saliency dev", np.abs(Saliency(wm)(xm,ym).numpy()-np.abs(xt.grad.numpy())).max())
# black-box same function via different wrappings
fnp=lambda z: mlp(torch.tensor(np.array(z))).detach().numpy()
class PP:
    def predict_proba(self,z): return fnp(z)
class M(tf.Module):
    def __call__(self,z): return tf.constant(fnp(z.numpy()))
a=Occlusion(fnp,patch_size=2,patch_stride=1)(xm,ym).numpy(); b=Occlusion(PP(),patch_size=2,patch_stride=1)(xm,ym).numpy(); c=Occlusion(wm,patch_size=2,patch_stride=1)(xm,ym).numpy()
print("occlusion wrappings equal", np.allclose(a,b,atol=1e-6), np.allclose(a,c,atol=1e-6))
f1d=lambda z: fnp(z)[:,0]
d=Occlusion(f1d,patch_size=2,patch_stride=1,batch_size=3)(xm,ym).numpy(); print("1-D pred equal", np.allclose(a,d,atol=1e-6))

section("C20 CRAFT torch")
from xplique.concepts import CraftTorch
class Ext(nn.Module):
    def __init__(s): super().__init__(); s.c=nn.Conv2d(3,6,3,padding=1)
    def forward(s,x): return torch.relu(s.c(x))
class Head(nn.Module):
    def __init__(s): super().__init__(); s.l=nn.Linear(6,4)
    def forward(s,a): return s.l(a.mean((2,3)))
ext,head=Ext().eval(),Head().eval()
imgs=torch.rand(6,3,16,24)
for bs in (2,64):
    cr=CraftTorch(ext,head,number_of_concepts=3,batch_size=bs,patch_size=8,device='cpu')
    crops,u,w=cr.fit(imgs,class_id=1)
    t=cr.transform(imgs); imp=cr.estimate_importance(nb_design=8)
    print("bs",bs,"crops",crops.shape,"u",u.shape,u.min(),"w",w.shape,w.min(),"transform",t.shape,t.min(),"imp",imp)

section("C19 compile numeric + param range")
from xplique.features_visualizations.objectives import Objective
from xplique.features_visualizations.preconditioning import to_valid_rgb,to_valid_grayscale,fft_image,get_fft_scale,fft_to_rgb,maco_image_parametrization
inp = tf.keras.Input((4,)); a = tf.keras.layers.Dense(3, name='a')(inp); b = tf.keras.layers.Dense(2, name='b')(a); mm = tf.keras.Model(inp, b)
def terms(): return Objective.neuron(mm,'a',[0,1]), Objective.neuron(mm,'b',[0]), Objective.layer(mm,'b')
o1,o2,o3=terms(); e=o1*2.0+o2*3.0+o3*5.0
_,f,names,shape=e.compile()
outs=[tf.constant(rs.randn(2,3).astype('float32')), tf.constant(rs.randn(2,2).astype('float32')), tf.constant(rs.randn(2,2).astype('float32'))]
o1,o2,o3=terms()
l=[o.compile()[1]([out]).numpy() for o,out in zip((o1,o2,o3),outs)]
print("compiled", f(outs).numpy(), "expected", 2*l[0]+3*l[1]+5*l[2], "horner", ((l[0]*2+l[1])*3+l[2])*5)
for size in (7,8):
    shp=(2,size,size,3); buf=fft_image(shp); sc=get_fft_scale(size,size,0.85)
    img=fft_to_rgb(shp,buf,sc); print("fft_to_rgb", img.shape)
    for norm in ('sigmoid','clip'):
        v=to_valid_rgb(img*50,norm,(-1.,3.)); print(" rgb",norm,v.shape,float(tf.reduce_min(v)),float(tf.reduce_max(v)))
    v=to_valid_grayscale(img[...,:1]*50,'sigmoid',(2.,5.)); print(" gray",float(tf.reduce_min(v)),float(tf.reduce_max(v)))
