import os, sys, gc
os.environ['TF_CPP_MIN_LOG_LEVEL']='3'
import numpy as np, tensorflow as tf
from fractions import Fraction
import xplique
from xplique.commons import operators_operations as oo
from xplique.commons.operators_operations import Tasks, get_operator
print("== A operators")
for name in ["classification","regression","semantic segmentation","object detection","object detection box position","object detection box proba","object detection box class"]:
    op = get_operator(name)
    print(name, type(op), callable(op))
print([t for t in Tasks])
print(type(Tasks.OBJECT_DETECTION_BOX_POSITION))
print("get_operator(Tasks.CLASSIFICATION):", type(get_operator(Tasks.CLASSIFICATION)))

print("== G model.input identity")
def mk(seed):
    tf.keras.utils.set_random_seed(seed)
    inp = tf.keras.Input((4,))
    h = tf.keras.layers.Dense(3)(inp)
    return tf.keras.Model(inp, h)
m = mk(0)
print("input is input:", m.input is m.input, "output is output:", m.output is m.output)
print(id(m.input), id(m.input))

print("== B cache collisions")
from xplique.attributions import Saliency, Occlusion
from xplique.attributions.base import BlackBoxExplainer
x = np.random.RandomState(0).randn(3,4).astype('float32'); y = np.eye(3)[[0,1,2]].astype('float32')
coll = 0
for i in range(30):
    mi = mk(i)
    ex = Saliency(mi)
    same = ex.model is mi
    if not same: coll += 1
    del mi, ex
    gc.collect()
print("collisions:", coll, "cache size", len(BlackBoxExplainer._cache_models))
