import os, sys, gc, itertools, traceback
os.environ['TF_CPP_MIN_LOG_LEVEL']='3'
import numpy as np, tensorflow as tf
rs = np.random.RandomState(3)
from xplique.metrics import Deletion, Insertion, MuFidelity, AverageStability
def section(name): print("\n=====", name)
class Rec:
    def __init__(self, f): self.f=f; self.q=[]
    def __call__(self, x):
        x=np.array(x); self.q.append(x.copy()); return self.f(x)

section("Deletion/Insertion vs numpy reference")
def ref_causal(f, x, y, e, mode, steps, maxp, base):
    N=x.shape[0]; has_c = x.ndim>3
    nf = int(np.prod(x.shape[1:-1] if has_c else x.shape[1:]))
    M = int(np.floor(nf*maxp)); 
    if steps==-1: steps=M
    if e.ndim==4: e=e.mean(-1)
    ef=e.reshape(N,-1); order=np.argsort(ef,axis=-1)[:,::-1]
    xf = x.reshape(N,nf,-1); bf=np.full_like(xf, base)
    st, en = (xf,bf) if mode=="deletion" else (bf,xf)
    ks=[int(np.floor(k*M/steps)) for k in range(steps+1)]
    out={}
    for k in ks:
        b=st.copy()
        for i in range(N): b[i,order[i,:k]]=en[i,order[i,:k]]
        out[k]=float(np.mean((f(b.reshape(x.shape))*y).sum(-1)))
    return out
for shape in []:
    D=int(np.prod(shape[1:])); Wm=rs.randint(-2,3,size=(D,2)).astype('float64')
    f=lambda z: (z.reshape(len(z),-1)**2)@Wm
    x=rs.randint(1,5,size=shape).astype('float32'); y=rs.randint(-1,2,size=(shape[0],2)).astype('float32')
    for eshape in ("full","nochan"):
        es = shape if eshape=="full" else (shape[:-1] if len(shape)==4 else shape)
        e=rs.randn(*es).astype('float32')
        for steps in (1,3,10,-1,50):
          for maxp in (1.0,0.5):
            for cls,mode in ((Deletion,"deletion"),(Insertion,"insertion")):
              for bs in (2,64):
                try:
                    m=cls(f, x, y, batch_size=bs, steps=steps, max_percentage_perturbed=maxp, baseline_mode=-1.0)
                    d=m.detailed_evaluate(e); sc=m(e)
                    r=ref_causal(f,x,y,e,mode,steps,maxp,-1.0)
                    ok = list(d.keys())==list(r.keys()) and np.allclose(list(d.values()), list(r.values()), rtol=1e-5, atol=1e-5)
                    rv=np.array(list(r.values())); auc=np.mean(rv[:-1]+rv[1:])*0.5 if len(rv)>1 else float('nan')
                    if not ok or not np.isclose(sc,auc,rtol=1e-5, atol=1e-5): print("MISMATCH", shape,eshape,steps,maxp,mode,bs,list(d.keys()),list(r.keys()), sc, auc)
                except Exception as ex: print("ERR", shape,eshape,steps,maxp,mode,bs, repr(ex)[:200])
print("causal done")

section("MuFidelity recomputed from recorded queries")
from scipy.stats import spearmanr
for shape,grid in [((3,8),None),((2,6,4),3),((2,6,9,2),3),((2,6,9,1),None)]:
    D=int(np.prod(shape[1:])); wv=rs.randint(1,4,size=D).astype('float64')
    f=lambda z: (z.reshape(len(z),-1)@wv)[:,None]
    x=rs.randint(1,5,size=shape).astype('float32'); y=np.ones((shape[0],1),'float32')
    exact = (x.reshape(shape[0],-1)*wv).reshape(shape).astype("float32")
    if len(shape)==4: exact=exact.sum(-1,keepdims=True)
    for bs in (3,7,64,None):
        rec=Rec(f)
        try:
            mf=MuFidelity(rec, x, y, batch_size=bs, grid_size=grid, nb_samples=12, subset_percent=0.4)
            nq0=sum(len(q) for q in rec.q)
            s=mf(exact); s2=mf(-exact); s3=mf(3.0*exact)
            nq=sum(len(q) for q in rec.q)-nq0
            print(shape,grid,bs,"score exact",s,"neg",s2,"scaled",s3,"queries per eval", nq/3, "expected", shape[0]*12)
        except Exception as ex: print("ERR",shape,grid,bs,repr(ex)[:300])
f0=lambda z: np.ones((len(z),1))
print("constant model:", MuFidelity(f0, x, y, nb_samples=8, grid_size=None)(rs.randn(*x.shape[:-1],1).astype("float32")))

section("AverageStability")
f=lambda z: (z.reshape(len(z),-1)).sum(1,keepdims=True)
x=rs.randn(3,5).astype('float32'); y=np.ones((3,1),'float32')
calls=[]
def const_expl(inp, lab): calls.append(len(inp)); return np.ones_like(np.array(inp))
for d in ('l1','l2'):
    print(d, AverageStability(f,x,y,nb_samples=7,distance=d,batch_size=2)(const_expl), calls); calls.clear()
def id_expl(inp, lab): return np.array(inp)
print("identity explainer l1:", AverageStability(f,x,y,nb_samples=7,distance='l1',radius=0.5)(id_expl))
