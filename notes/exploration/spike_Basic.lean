namespace Xp

/-- chunk sizes produced by the `while total < nb` loop of GradientStatistic / MuFidelity -/
def chunkSizes (pbs nb : Nat) : List Nat :=
  if h : pbs = 0 ∨ nb = 0 then [] else
    let c := min pbs nb
    c :: chunkSizes pbs (nb - c)
termination_by nb
decreasing_by omega

def sumQ : List Rat → Rat
  | [] => 0
  | x :: xs => x + sumQ xs

/-- online statistic state -/
structure Online where
  cnt : Nat := 0
  s : Rat := 0
  s2 : Rat := 0

def Online.update (o : Online) (chunk : List Rat) : Online :=
  { cnt := o.cnt + chunk.length, s := o.s + sumQ chunk, s2 := o.s2 + sumQ (chunk.map fun g => g * g) }

def Online.mean (o : Online) : Rat := o.s / o.cnt
def Online.var (o : Online) : Rat :=
  (o.cnt : Rat) / ((o.cnt : Rat) - 1) * (o.s2 / o.cnt - (o.s / o.cnt) * (o.s / o.cnt))

#eval chunkSizes 3 10
#eval (Online.update (Online.update {} [1, 2, (3:Rat)/2]) [5]).var

end Xp
