import os
os.environ['TF_CPP_MIN_LOG_LEVEL']='3'
import numpy as np, tensorflow as tf
from xplique.attributions import Saliency, GradientInput
inp = tf.keras.Input((4,))
h = tf.keras.layers.Dense(3, name='logits')(inp)
out = tf.keras.layers.Softmax(name='sm')(h)
m = tf.keras.Model(inp, out)
x = np.random.randn(2,4).astype('float32'); y = np.eye(3)[[0,1]].astype('float32')
e_full = Saliency(m)(x,y).numpy()
e_l = Saliency(m, output_layer='logits')(x,y).numpy()
e_l2 = Saliency(m, output_layer=-2)(x,y).numpy()
mt = tf.keras.Model(m.input, m.get_layer('logits').output)
e_t = Saliency(mt)(x,y).numpy()
print(e_full, e_l, e_l2, e_t, sep='\n')
