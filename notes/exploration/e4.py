import os, sys, gc, itertools, traceback
os.environ['TF_CPP_MIN_LOG_LEVEL']='3'
import numpy as np, tensorflow as tf
rs = np.random.RandomState(2)
from xplique.attributions import (Rise, Lime, KernelShap, SobolAttributionMethod, HsicAttributionMethod)
def section(name): print("\n=====", name)

class Rec:
    def __init__(self, f): self.f=f; self.q=[]
    def __call__(self, x):
        x=np.array(x); self.q.append(x.copy()); return self.f(x)

section("RISE formula via recorded queries (images H!=W, tabular, ts)")
for shape, grid in [((2,6,9,3),(2,3)), ((2,6,9,1),3), ((3,5),None), ((2,6,4),3), ((2,6,4),(2,4))]:
    x = rs.randint(1,5,size=shape).astype('float32'); y = np.ones((shape[0],1),'float32')
    f = lambda z: (z.reshape(len(z),-1)**2).sum(1, keepdims=True)/100.
    mv = -1.0
    for bs in (4, 7, None):
        rec = Rec(f)
        kw = dict(grid_size=grid) if grid is not None else {}
        try:
            e = Rise(rec, batch_size=bs, nb_samples=10, mask_value=mv, preservation_probability=0.5, **kw)(x,y).numpy()
        except Exception as ex:
            print(shape, grid, bs, "ERR", repr(ex)[:300]); continue
        q = np.concatenate(rec.q, 0)
        ok = (len(q)==10*shape[0])
        maxdev=0
        for n in range(shape[0]):
            qs = q[n*10:(n+1)*10]; s = f(qs)[:,0]
            m = (qs-mv)/(x[n][None]-mv)   # recover masks
            if m.ndim==4: 
                assert np.allclose(m, m[...,:1], atol=1e-5); m=m[...,:1]
            assert m.min()>=-1e-6 and m.max()<=1+1e-6, (m.min(), m.max())
            sb = s.reshape((-1,)+(1,)*(m.ndim-1))
            ref = (sb*m).sum(0)/(m.sum(0)+1e-4)
            maxdev=max(maxdev, np.abs(ref-e[n]).max())
        print(shape, grid, bs, "queries ok", ok, "out shape", e.shape, "maxdev", maxdev)

section("Lime surrogate on own queries / KernelShap exactness")
from sklearn import linear_model
F=5
w = rs.randint(-3,4,size=F).astype('float64'); 
fadd = lambda z: (z@w)[:,None] + 2.0
x = rs.randint(1,5,size=(3,F)).astype('float32'); y=np.ones((3,1),'float32')
for bs in (3, 64):
    rec=Rec(fadd)
    e = KernelShap(rec, batch_size=bs, nb_samples=40)(x,y).numpy()
    print("kshap dev from exact shapley:", np.abs(e - w*x).max(), "efficiency gap", np.abs(e.sum(1) - (fadd(x)[:,0]-fadd(np.zeros_like(x))[:,0])).max())
    q = np.concatenate(rec.q,0); sizes = ((q!=0).sum(1))
    print("  coalition sizes min/max:", sizes.min(), sizes.max(), "nqueries", len(q))
ref = np.array([1.,-1.,2.,0.5,3.],'float32')
rec=Rec(fadd)
e = KernelShap(rec, batch_size=7, nb_samples=40, ref_value=np.array([2.0]))(x,y).numpy()
print("kshap custom scalar ref dev:", np.abs(e - w*(x-2.0)).max())
# Lime on nonlinear model, recompute WLS
fn = lambda z: ((z**2)@w)[:,None]
for mode in ("euclidean","cosine"):
    rec=Rec(fn)
    lm = Lime(rec, batch_size=6, nb_samples=30, distance_mode=mode, kernel_width=3.0, interpretable_model=linear_model.Ridge(alpha=2))
    e = lm(x,y).numpy()
    q = np.concatenate(rec.q,0)
    devs=[]
    for n in range(3):
        qs=q[n*30:(n+1)*30]; Z=(qs!=0).astype(float)  # ref=0 and x>0 so mask recoverable
        s=fn(qs)[:,0]
        if mode=="euclidean": D=np.linalg.norm(qs-x[n],axis=1)
        else: D=1-(qs@x[n])/(np.linalg.norm(qs,axis=1)*np.linalg.norm(x[n])+1e-12)
        wt=np.exp(-D**2/9.0)
        r=linear_model.Ridge(alpha=2).fit(Z,s,sample_weight=wt)
        devs.append(np.abs(r.coef_-e[n]).max())
    print("lime", mode, "dev from independent WLS:", max(devs))

section("Sobol / HSIC alignment on non-square image, region model")
H,W=12,20
for g in (3,4):
  for (r0,r1,c0,c1) in [(0,4,0,5),(8,12,15,20),(0,4,15,20),(8,12,0,5)]:
    def freg(z, r0=r0,r1=r1,c0=c0,c1=c1): return z[:,r0:r1,c0:c1,:].sum(axis=(1,2,3))[:,None]
    x = np.ones((1,H,W,1),'float32'); y=np.ones((1,1),'float32')
    for name, cls, kw in [("sobol", SobolAttributionMethod, dict(nb_design=16)), ("hsic", HsicAttributionMethod, dict(nb_design=64))]:
        try:
            e = cls(freg, grid_size=g, batch_size=32, **kw)(x,y).numpy()[0,...,0]
            am = np.unravel_index(np.argmax(e), e.shape)
            inside = (r0<=am[0]<r1) and (c0<=am[1]<c1)
            print(name, "g",g,"region",(r0,r1,c0,c1),"argmax",am,"inside",inside, "shape", e.shape)
        except Exception as ex: print(name, "ERR", repr(ex)[:300])
