import os, sys, gc, itertools, traceback
os.environ['TF_CPP_MIN_LOG_LEVEL']='3'
import numpy as np, tensorflow as tf
rs = np.random.RandomState(1)
from xplique.attributions import (Saliency, GradientInput, IntegratedGradients, SmoothGrad, SquareGrad, VarGrad, Occlusion, Rise, Lime, KernelShap, SobolAttributionMethod, HsicAttributionMethod, GradCAM, GradCAMPP, DeconvNet, GuidedBackprop)
def section(name):
    print("\n=====", name)
op = lambda f, x, y: tf.reduce_sum(f(x) * y, axis=-1)

section("IG quadratic completeness, batch sizes, non-zero baseline")
# model: f(x)_c = sum_i A[c,i] x_i^2 + B[c,i] x_i  (quadratic, additive) + cross term x0*x1
A = rs.randint(-2,3,size=(3,5)).astype('float32'); B = rs.randint(-2,3,size=(3,5)).astype('float32')
def fq(x):
    return tf.matmul(x**2, A.T) + tf.matmul(x, B.T) + (x[:,0:1]*x[:,1:2])*tf.constant([[1.,-1.,2.]])
x = rs.randint(-3,4,size=(7,5)).astype('float32'); y = rs.randint(-2,3,size=(7,3)).astype('float32')
for base in (0.0, 1.0, -2.0):
  for steps in (2,3,5,9):
    ref=None
    for bs in (1,2,3,5,8,13,64,None):
        e = IntegratedGradients(fq, operator=op, batch_size=bs, steps=steps, baseline_value=base)(x,y).numpy()
        if ref is None: ref=e
        elif not np.allclose(ref,e,atol=1e-4): print("BATCH MISMATCH", base, steps, bs, np.abs(ref-e).max())
    gap = e.sum(1) - (op(fq, tf.constant(x), y).numpy() - op(fq, tf.constant(np.full_like(x, base)), y).numpy())
    print(base, steps, "max completeness gap", np.abs(gap).max())

section("Occlusion vs brute force (H!=W, overlap, gaps)")
def brute_occ(f, x, y, ps, st, val):
    N = x.shape[0]; sp = x.shape[1:3] if x.ndim>=3 else x.shape[1:2]
    out = np.zeros((N,)+tuple(sp), 'float64')
    base = op(f, tf.constant(x), y).numpy()
    if x.ndim==2:
        for n in range(N):
            a=0
            while a+ps<=sp[0]:
                xo = x[n:n+1].copy(); xo[0,a:a+ps]=val
                d = base[n]-op(f, tf.constant(xo), y[n:n+1]).numpy()[0]
                out[n,a:a+ps]+=d; a+=st
    else:
        for n in range(N):
            a=0
            while a+ps[0]<=sp[0]:
                b=0
                while b+ps[1]<=sp[1]:
                    xo = x[n:n+1].copy(); xo[0,a:a+ps[0],b:b+ps[1]]=val
                    d = base[n]-op(f, tf.constant(xo), y[n:n+1]).numpy()[0]
                    out[n,a:a+ps[0],b:b+ps[1]]+=d; b+=st[1]
                a+=st[0]
    return out
H,W,C=5,7,2
Wt = rs.randint(-2,3,size=(H*W*C,3)).astype('float32')
def fimg(x):
    z = tf.reshape(x,(x.shape[0],-1)); return tf.matmul(z**2, Wt) + tf.matmul(z, Wt[::-1])
xi = rs.randint(-3,4,size=(3,H,W,C)).astype('float32'); yi = rs.randint(-1,2,size=(3,3)).astype('float32')
bad=0
for ps in [(1,1),(2,3),(3,2),(5,7),(2,2)]:
  for st in [(1,1),(2,3),(3,1),(4,5)]:
    for bs in (1,3,64):
      e = Occlusion(fimg, operator=op, batch_size=bs, patch_size=ps, patch_stride=st, occlusion_value=1.0)(xi,yi).numpy()
      r = brute_occ(fimg, xi, yi, ps, st, 1.0)
      if e.shape!=(3,H,W,1) or not np.allclose(e[...,0], r, atol=1e-3): bad+=1; print("OCC MISMATCH", ps, st, bs, e.shape)
print("occlusion image mismatches:", bad)
Wtab = rs.randint(-2,3,size=(6,3)).astype('float32')
ftab = lambda x: tf.matmul(x**2, Wtab)
xt = rs.randint(-3,4,size=(4,6)).astype('float32'); yt = rs.randint(-1,2,size=(4,3)).astype('float32')
bad=0
for ps in (1,2,3,6):
  for st in (1,2,4):
    e = Occlusion(ftab, operator=op, batch_size=2, patch_size=ps, patch_stride=st, occlusion_value=-1.0)(xt,yt).numpy()
    r = brute_occ(ftab, xt, yt, ps, st, -1.0)
    if not np.allclose(e, r, atol=1e-3): bad+=1; print("OCC TAB MISMATCH", ps, st)
print("occlusion tab mismatches:", bad)
# time series
T,Wd=4,3
Wts = rs.randint(-2,3,size=(T*Wd,3)).astype('float32')
fts = lambda x: tf.matmul(tf.reshape(x,(x.shape[0],-1))**2, Wts)
xs = rs.randint(-3,4,size=(2,T,Wd)).astype('float32'); ys = rs.randint(-1,2,size=(2,3)).astype('float32')
try:
    e = Occlusion(fts, operator=op, batch_size=4, patch_size=(2,1), patch_stride=(1,2))(xs,ys).numpy()
    r = brute_occ(fts, xs, ys, (2,1),(1,2),0.0)
    print("ts occlusion ok:", e.shape, np.allclose(e, r, atol=1e-3))
    e = Occlusion(fts, operator=op, batch_size=4, patch_size=2, patch_stride=1)(xs,ys).numpy()
    r = brute_occ(fts, xs, ys, (2,2),(1,1),0.0)
    print("ts occlusion scalar ok:", e.shape, np.allclose(e, r, atol=1e-3))
except Exception: traceback.print_exc()

section("SmoothGrad family noise=0 and batch sizes")
for cls in (SmoothGrad, SquareGrad, VarGrad):
    ref=None
    for bs in (1,2,3,4,5,7,64,None):
        e = cls(fq, operator=op, batch_size=bs, nb_samples=5, noise=0.0)(x,y).numpy()
        if ref is None: ref=e
        elif not np.allclose(ref,e,atol=1e-3): print(cls.__name__,"BATCH MISMATCH", bs, np.abs(ref-e).max())
    with tf.GradientTape() as t:
        xx=tf.constant(x); t.watch(xx); s=op(fq,xx,y)
    g=t.gradient(s,xx).numpy()
    tgt = {SmoothGrad:g, SquareGrad:g**2, VarGrad:np.zeros_like(g)}[cls]
    print(cls.__name__, "max dev from expected:", np.abs(ref-tgt).max())
