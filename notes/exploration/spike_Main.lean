import XpSpike.Basic
open Xp

def parseRat (s : String) : Option Rat :=
  match s.splitOn "/" with
  | [n] => n.toInt?.map (fun i => (i : Rat))
  | [n, d] => do
      let i ← n.toInt?
      let j ← d.toNat?
      if j = 0 then none else some ((i : Rat) / (j : Rat))
  | _ => none

def showRat (r : Rat) : String := if r.den = 1 then toString r.num else s!"{r.num}/{r.den}"

def step (line : String) : String :=
  match (line.trimAscii.toString.splitOn " ") with
  | "var" :: rest =>
      match rest.mapM parseRat with
      | some xs => showRat ((Online.update {} xs).var)
      | none => "bad-op"
  | _ => "bad-op"

partial def loop (h : IO.FS.Stream) : IO Unit := do
  let line ← h.getLine
  if line.isEmpty then return ()
  IO.println (step line)
  loop h

def main : IO Unit := do loop (← IO.getStdin)
