import Mathlib.Data.List.Basic
import Mathlib.Tactic.Ring
import Mathlib.Tactic.Linarith
import Mathlib.Algebra.Order.Field.Rat
import Mathlib.Algebra.BigOperators.Group.List.Basic

namespace Xp
variable {α β : Type}

/-- `dataset.batch(b)`: chunks of size b, the last one possibly shorter -/
def batches (b : Nat) (xs : List α) : List (List α) :=
  if h : b = 0 ∨ xs = [] then [] else
    xs.take b :: batches b (xs.drop b)
termination_by xs.length
decreasing_by
  have : xs ≠ [] := fun e => h (Or.inr e)
  have := List.length_pos_iff.mpr this
  simp only [List.length_drop]; omega

theorem flatten_batches (b : Nat) (hb : 0 < b) (xs : List α) : (batches b xs).flatten = xs := by
  generalize hn : xs.length = n
  induction n using Nat.strong_induction_on generalizing xs with
  | _ n ih =>
    unfold batches
    split
    · rename_i h; rcases h with h | h
      · omega
      · simp [h]
    · rename_i h
      have hne : xs ≠ [] := fun e => h (Or.inr e)
      have hpos := List.length_pos_iff.mpr hne
      simp only [List.flatten_cons]
      rw [ih (xs.drop b).length (by simp only [List.length_drop]; omega) _ rfl, List.take_append_drop]

/-- operator_batching: apply `op` per batch and concatenate -/
def batched (op : List α → List β) (bs : Option Nat) (xs : List α) : List β :=
  match bs with
  | none => op xs
  | some b => ((batches b xs).map op).flatten

theorem map_flatten' (f : α → β) (l : List (List α)) : (l.map (List.map f)).flatten = l.flatten.map f := by
  induction l with
  | nil => rfl
  | cons a l ih => simp only [List.map_cons, List.flatten_cons, List.map_append, ih]

theorem batched_eq_map (op : List α → List β) (f : α → β) (hop : ∀ xs, op xs = xs.map f)
    (b : Nat) (hb : 0 < b) (xs : List α) : batched op (some b) xs = xs.map f := by
  have hop' : op = List.map f := funext hop
  subst hop'
  show ((batches b xs).map (List.map f)).flatten = xs.map f
  rw [map_flatten', flatten_batches b hb]

theorem batch_len_le (b : Nat) (xs : List α) : ∀ c ∈ batches b xs, c.length ≤ b ∧ 0 < c.length := by
  generalize hn : xs.length = n
  induction n using Nat.strong_induction_on generalizing xs with
  | _ n ih =>
    unfold batches
    split
    · simp
    · rename_i h
      have hne : xs ≠ [] := fun e => h (Or.inr e)
      have hpos := List.length_pos_iff.mpr hne
      have hb : b ≠ 0 := fun e => h (Or.inl e)
      intro c hc
      rcases List.mem_cons.mp hc with rfl | hc
      · simp only [List.length_take]; omega
      · exact ih (xs.drop b).length (by simp only [List.length_drop]; omega) _ rfl c hc

end Xp
