import Mathlib.Algebra.BigOperators.Intervals
import Mathlib.Algebra.BigOperators.Field
import Mathlib.Algebra.Order.Field.Rat
import Mathlib.Tactic.Ring
import Mathlib.Tactic.FieldSimp
import Mathlib.Tactic.Linarith
import Mathlib.Tactic.Positivity
import Mathlib.Algebra.Order.BigOperators.Ring.Finset

open Finset BigOperators

namespace Xp

/-- trapezoid average of `d` at the `m+1` equally spaced points `j/m` (IG `_average_gradients`) -/
def trapz (m : ℕ) (d : ℚ → ℚ) : ℚ :=
  (∑ j ∈ range m, (d (j / m) + d ((j + 1 : ℕ) / m))) / m * (1/2)

theorem sum_odd (m : ℕ) : ∑ j ∈ range m, ((2 * j + 1 : ℕ) : ℚ) = (m : ℚ) ^ 2 := by
  induction m with
  | zero => simp
  | succ n ih => rw [sum_range_succ, ih]; push_cast; ring

/-- completeness for scores that are quadratic along the path: φ' (t) = 2 a t + c -/
theorem ig_complete_quadratic (m : ℕ) (hm : 0 < m) (a c : ℚ) :
    trapz m (fun t => 2 * a * t + c) = a + c := by
  unfold trapz
  have hm' : (m : ℚ) ≠ 0 := by exact_mod_cast hm.ne'
  have : ∀ j ∈ range m, (2 * a * ((j:ℚ) / m) + c + (2 * a * (((j + 1 : ℕ) : ℚ) / m) + c))
      = (2 * a / m) * ((2 * j + 1 : ℕ) : ℚ) + 2 * c := by
    intro j _; push_cast; field_simp; ring
  rw [sum_congr rfl this, sum_add_distrib, ← mul_sum, sum_odd, sum_const, card_range]
  simp only [nsmul_eq_mul]
  field_simp

/-- Jansen total-order estimator for one dimension, as in the code -/
def jansen (n : ℕ) (ya yc : Fin n → ℚ) : ℚ :=
  let mu := (∑ i, ya i) / n
  let var := (∑ i, (ya i - mu) ^ 2) / ((n : ℚ) - 1)
  (∑ i, (ya i - yc i) ^ 2) / (2 * n * var)

theorem jansen_affine (n : ℕ) (hn : 2 ≤ n) (ya yc : Fin n → ℚ) (α β : ℚ) (hα : α ≠ 0) :
    jansen n (fun i => α * ya i + β) (fun i => α * yc i + β) = jansen n ya yc := by
  unfold jansen
  have hn' : (n : ℚ) ≠ 0 := by exact_mod_cast (by omega : n ≠ 0)
  have hmu : (∑ i, (α * ya i + β)) / n = α * ((∑ i, ya i) / n) + β := by
    rw [sum_add_distrib, ← mul_sum, sum_const, card_univ, Fintype.card_fin]
    simp only [nsmul_eq_mul]; field_simp
  simp only [hmu]
  have h1 : ∀ i, (α * ya i + β - (α * ((∑ i, ya i) / n) + β)) ^ 2
      = α ^ 2 * (ya i - (∑ i, ya i) / n) ^ 2 := by intro i; ring
  have h2 : ∀ i, (α * ya i + β - (α * yc i + β)) ^ 2 = α ^ 2 * (ya i - yc i) ^ 2 := by
    intro i; ring
  simp only [h1, h2, ← mul_sum]
  have hα2 : α ^ 2 ≠ 0 := pow_ne_zero 2 hα
  have h1n : (n:ℚ) - 1 ≠ 0 := by
    have : (2:ℚ) ≤ n := by exact_mod_cast hn
    linarith
  generalize (∑ i, (ya i - yc i) ^ 2) = S
  generalize (∑ i, (ya i - (∑ i, ya i) / ↑n) ^ 2) = V
  by_cases hV : V = 0
  · subst hV; simp
  · field_simp

theorem jansen_zero_inert (n : ℕ) (ya : Fin n → ℚ) : jansen n ya ya = 0 := by
  simp [jansen]

theorem jansen_nonneg (n : ℕ) (hn : 2 ≤ n) (ya yc : Fin n → ℚ) : 0 ≤ jansen n ya yc := by
  unfold jansen
  have h1 : (0:ℚ) < (n:ℚ) - 1 := by
    have : (2:ℚ) ≤ n := by exact_mod_cast hn
    linarith
  have : (0:ℚ) ≤ n := by positivity
  apply div_nonneg (sum_nonneg fun i _ => sq_nonneg _)
  apply mul_nonneg (by positivity)
  exact div_nonneg (sum_nonneg fun i _ => sq_nonneg _) h1.le

/-- HSIC: all-axes transpose then reshape puts mask cell (r,c) of a g×g grid at dimension c*g+r;
    post_process reshapes to (g,g) and transposes. -/
def hsicDim (g r c : ℕ) : ℕ := c * g + r
def hsicPost (g : ℕ) (score : ℕ → ℚ) (r c : ℕ) : ℚ :=
  -- reshape (g,g): entry (a,b) = score (a*g+b); transpose (1,0): result (r,c) = entry (c,r)
  score (c * g + r)

theorem hsic_cell_alignment (g : ℕ) (score : ℕ → ℚ) (r c : ℕ) :
    hsicPost g score r c = score (hsicDim g r c) := rfl

theorem hsicDim_unflatten (g r c : ℕ) (hr : r < g) :
    (hsicDim g r c) / g = c ∧ (hsicDim g r c) % g = r := by
  unfold hsicDim
  constructor
  · rw [Nat.mul_comm, Nat.mul_add_div (by omega), Nat.div_eq_of_lt hr, Nat.add_zero]
  · rw [Nat.mul_comm, Nat.mul_add_mod, Nat.mod_eq_of_lt hr]

end Xp
