import Lean.Data.Json
import XpSpike.Basic
open Lean Xp

def ratsOf (j : Json) (den : Nat) : Except String (List Rat) := do
  let arr ← j.getArr?
  arr.toList.mapM fun v => do
    let i ← v.getInt?
    pure ((i : Rat) / (den : Rat))

def showRat (r : Rat) : Json := Json.arr #[Json.num r.num, Json.num (r.den : Int)]

def step (line : String) : String :=
  match Json.parse line with
  | .error _ => "{\"err\":\"bad-json\"}"
  | .ok j =>
    match (do
      let op ← j.getObjValAs? String "op"
      let den ← j.getObjValAs? Nat "den"
      let xs ← ratsOf (← j.getObjVal? "xs") den
      if op == "var" then pure (showRat ((Online.update {} xs).var)) else throw "bad-op" : Except String Json) with
    | .ok r => (Json.mkObj [("ok", r)]).compress
    | .error e => (Json.mkObj [("err", e)]).compress

partial def loop (h : IO.FS.Stream) : IO Unit := do
  let line ← h.getLine
  if line.isEmpty then return ()
  IO.println (step line)
  loop h

def main : IO Unit := do loop (← IO.getStdin)
