import os, sys, gc, itertools, traceback, warnings
os.environ['TF_CPP_MIN_LOG_LEVEL']='3'
warnings.filterwarnings("ignore")
import numpy as np, tensorflow as tf
rs = np.random.RandomState(8)
from xplique.attributions import *
def mk(shape, conv=False):
    inp=tf.keras.Input(shape)
    h=inp
    if conv:
        h=tf.keras.layers.Conv2D(3,(2,2),activation='relu',padding='same')(h)
    h=tf.keras.layers.Flatten()(h)
    h=tf.keras.layers.Dense(6)(h); h=tf.keras.layers.ReLU()(h)
    o=tf.keras.layers.Dense(3)(h)
    return tf.keras.Model(inp,o)
kinds={"tab":(5,),"tab1":(1,),"ts":(4,3),"ts1":(1,3),"img1":(5,7,1),"img3":(7,5,3),"img2":(4,6,2)}
methods={
 "Saliency":lambda m:Saliency(m),"GradientInput":lambda m:GradientInput(m),"IG":lambda m:IntegratedGradients(m,steps=3),
 "SmoothGrad":lambda m:SmoothGrad(m,nb_samples=3),"SquareGrad":lambda m:SquareGrad(m,nb_samples=3),"VarGrad":lambda m:VarGrad(m,nb_samples=3),
 "DeconvNet":lambda m:DeconvNet(m),"GuidedBackprop":lambda m:GuidedBackprop(m),
 "GradCAM":lambda m:GradCAM(m),"GradCAMPP":lambda m:GradCAMPP(m),
 "Occlusion":lambda m:Occlusion(m,patch_size=1,patch_stride=1),"Rise":lambda m:Rise(m,nb_samples=6,grid_size=2),
 "Lime":lambda m:Lime(m,nb_samples=12),"KernelShap":lambda m:KernelShap(m,nb_samples=12),
 "Sobol":lambda m:SobolAttributionMethod(m,grid_size=2,nb_design=4),"Hsic":lambda m:HsicAttributionMethod(m,grid_size=2,nb_design=8)}
for kn,shape in kinds.items():
    img=len(shape)==3
    m=mk(shape,conv=img)
    for N in (1,3):
        x=rs.rand(N,*shape).astype('float32'); y=np.eye(3)[rs.randint(0,3,N)].astype('float32')
        exp_shape=(N,*shape[:-1],1) if img else (N,*shape)
        for mn,mf in methods.items():
            if mn in ("GradCAM","GradCAMPP","Sobol","Hsic") and not img: continue
            if mn=="Rise" and kn.startswith("ts"): ex=Rise(m,nb_samples=6,grid_size=2)
            try:
                e=mf(m)(x,y)
                ok = tuple(e.shape)==exp_shape and e.dtype==tf.float32 and bool(np.all(np.isfinite(e.numpy())))
                if not ok: print(kn,N,mn,"BAD shape",tuple(e.shape),"exp",exp_shape,e.dtype,"finite",bool(np.all(np.isfinite(e.numpy()))))
            except Exception as ex: print(kn,N,mn,"ERR",type(ex).__name__,str(ex)[:150].replace("\n"," "))
print("sweep done")
