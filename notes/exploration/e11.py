import os, sys, gc, itertools, traceback, warnings
os.environ['TF_CPP_MIN_LOG_LEVEL']='3'
warnings.filterwarnings("ignore")
import numpy as np, tensorflow as tf
rs = np.random.RandomState(11)
from xplique.attributions import *
def section(name): print("\n=====", name)

section("C02 GradCAM honours operator?")
inp = tf.keras.Input((6,8,2))
c1 = tf.keras.layers.Conv2D(3,(3,3),activation='relu',name='c1')(inp)
f = tf.keras.layers.Flatten()(c1)
o = tf.keras.layers.Dense(3,name='o')(f)
cm = tf.keras.Model(inp,o)
x = rs.randn(2,6,8,2).astype('float32'); y=np.eye(3)[[0,2]].astype('float32')
op_sq = lambda f_, x_, y_: tf.reduce_sum(f_(x_)**2 * y_, axis=-1)
a=GradCAM(cm)(x,y).numpy(); b=GradCAM(cm, operator=op_sq)(x,y).numpy()
print("GradCAM default vs custom operator identical:", np.array_equal(a,b))
a=Saliency(cm)(x,y).numpy(); b=Saliency(cm, operator=op_sq)(x,y).numpy()
print("Saliency default vs custom operator identical:", np.array_equal(a,b))
for cls in (DeconvNet, GuidedBackprop, IntegratedGradients, SmoothGrad):
    a=cls(cm)(x,y).numpy(); b=cls(cm, operator=op_sq)(x,y).numpy(); print(cls.__name__,"identical:",np.array_equal(a,b))
# string operator 'regression' etc on GradCAM
print("GradCAM with 'regression' runs:", GradCAM(cm, operator='regression')(x,y).shape)

section("C01 reducers on keras image model")
with tf.GradientTape() as t:
    xx=tf.constant(x); t.watch(xx); s=tf.reduce_sum(cm(xx)*y,-1)
g=t.gradient(s,xx).numpy()
for r,fn in {"min":np.min,"max":np.max,"mean":np.mean,"sum":np.sum}.items():
    e=Saliency(cm,reducer=r)(x,y).numpy(); print(r, e.shape, np.abs(e[...,0]-fn(np.abs(g),-1)).max())
    e=GradientInput(cm,reducer=r)(x,y).numpy(); print(" gi",r, np.abs(e[...,0]-fn(g*x,-1)).max())
e=Saliency(cm,reducer=None)(x,y).numpy(); print("None", e.shape, np.abs(e-np.abs(g)).max())
try: Saliency(cm,reducer="prod")
except Exception as ex: print("reducer prod ->", type(ex).__name__)
try: Saliency(cm,reducer="median")
except Exception as ex: print("reducer median ->", type(ex).__name__, ex)

section("C03 GradCAM / Deconv / Lime / KernelShap batch sizes")
for cls in (GradCAM, GradCAMPP, DeconvNet, GuidedBackprop):
    ref=None
    for bs in (1,2,3,64,None):
        e=cls(cm,batch_size=bs)(np.concatenate([x,x[::-1],x[:1]]),np.concatenate([y,y[::-1],y[:1]])).numpy()
        if ref is None: ref=e
        elif not np.allclose(ref,e,atol=1e-5): print(cls.__name__,"BS MISMATCH",bs,np.abs(ref-e).max())
    print(cls.__name__,"ok")
fnp=lambda z: (np.array(z).reshape(len(z),-1)**2).sum(1,keepdims=True)
xt=rs.randint(1,5,size=(3,6)).astype('float32'); yt=np.ones((3,1),'float32')
for cls in (Lime,KernelShap):
    ref=None
    for bs in (1,4,7,30,64,None):
        tf.random.set_seed(5); tf.keras.utils.set_random_seed(5)
        e=cls(fnp,batch_size=bs,nb_samples=30)(xt,yt).numpy()
        if ref is None: ref=e
        elif not np.allclose(ref,e,atol=1e-4): print(cls.__name__,"BS MISMATCH",bs,np.abs(ref-e).max())
    print(cls.__name__,"ok")

section("C14 callable baselines, activation")
from xplique.metrics import Deletion, Insertion
W=rs.randint(-2,3,size=(6,2)).astype('float64'); fm=lambda z:(np.array(z)**2)@W
yy=np.eye(2)[[0,1,0]].astype('float32'); e=rs.randn(3,6).astype('float32')
for bm in (0.5, lambda z: z*0.0+0.5, lambda z: np.mean(z,axis=-1,keepdims=True)*np.ones_like(z)):
    print(Deletion(fm,xt,yy,baseline_mode=bm,steps=3)(e), Insertion(fm,xt,yy,baseline_mode=bm,steps=3)(e))
import functools
class CB:
    def __call__(self,z): return z*0+0.5
try: print("callable object baseline:", Deletion(fm,xt,yy,baseline_mode=CB(),steps=3)(e))
except Exception as ex: print("callable object baseline ERR", type(ex).__name__, str(ex)[:100])
for act in ("sigmoid","softmax"):
    print(act, Deletion(fm,xt,yy,activation=act,steps=3)(e))
