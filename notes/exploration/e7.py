import os, sys, gc, itertools, traceback, warnings
os.environ['TF_CPP_MIN_LOG_LEVEL']='3'
warnings.filterwarnings("ignore")
import numpy as np, tensorflow as tf
rs = np.random.RandomState(5)
from xplique.attributions import (Saliency, GradientInput, IntegratedGradients, SmoothGrad, VarGrad, SquareGrad, Occlusion, Rise, Lime, KernelShap, SobolAttributionMethod, HsicAttributionMethod, GradCAM, GradCAMPP, DeconvNet, GuidedBackprop)
def section(name): print("\n=====", name)

section("C10 manual modified backprop on dense net")
inp = tf.keras.Input((4,))
h = tf.keras.layers.Dense(5, activation='relu', name='d1')(inp)
h = tf.keras.layers.Dense(5, name='d2')(h)
h = tf.keras.layers.ReLU(name='r1')(h)
h = tf.keras.layers.Dense(4, name='d3')(h)
h = tf.keras.layers.ReLU(max_value=3.0, threshold=1.0, name='r2')(h)
out = tf.keras.layers.Dense(2, name='d4')(h)
m = tf.keras.Model(inp, out)
m.set_weights([rs.randint(-2,3,size=w.shape).astype('float32') for w in m.get_weights()])
x = rs.randint(-2,3,size=(6,4)).astype('float32'); y=rs.randint(-1,2,size=(6,2)).astype('float32')
Ws=[w.astype('float64') for w in m.get_weights()]
def manual(x,y,rule):
    W1,b1,W2,b2,W3,b3,W4,b4=Ws
    z1=x@W1+b1; a1=np.maximum(z1,0)
    z2=a1@W2+b2; a2=np.maximum(z2,0)
    z3=a2@W3+b3; a3=np.where(z3>=1.0, np.minimum(z3,3.0), 0.0)
    o=a3@W4+b4
    g=y@W4.T
    def back(g,z,a,std=True):
        if rule=="deconv": return np.maximum(g,0)
        if rule=="guided": return np.maximum(g,0)*(z>0)
    g=back(g,z3,a3); g=g@W3.T
    g=back(g,z2,a2); g=g@W2.T
    g=back(g,z1,a1); g=g@W1.T
    return g, o
for cls,rule in ((DeconvNet,"deconv"),(GuidedBackprop,"guided")):
    e=cls(m)(x,y).numpy(); r,o=manual(x.astype('float64'),y.astype('float64'),rule)
    print(cls.__name__,"max dev vs manual:", np.abs(e-r).max(), "forward dev", np.abs(m(x).numpy()-o).max())

section("GradCAM non-square")
inp = tf.keras.Input((6,10,2))
c1 = tf.keras.layers.Conv2D(3,(3,3),strides=(1,2),activation='relu',name='c1')(inp)
c2 = tf.keras.layers.Conv2D(4,(2,2),name='c2')(c1)
f = tf.keras.layers.Flatten()(c2)
o = tf.keras.layers.Dense(3,name='o')(f)
cm = tf.keras.Model(inp,o)
x = rs.randn(2,6,10,2).astype('float32'); y=np.eye(3)[[0,2]].astype('float32')
for cls in (GradCAM,GradCAMPP):
  for layer in (None,'c1'):
    try:
        e=cls(cm, conv_layer=layer)(x,y).numpy()
        L=cm.get_layer(layer or 'c2')
        mm=tf.keras.Model(cm.input,[L.output,cm.output])
        with tf.GradientTape() as t:
            A,P=mm(x); s=tf.reduce_sum(P*y,-1)
        G=t.gradient(s,A).numpy(); A=A.numpy()
        if cls is GradCAM: w=G.mean((1,2),keepdims=True)
        else:
            den=2*G**2+G**3*A.mean((1,2),keepdims=True); den=den+(den==0)*1e-4
            w=(G**2/den*np.maximum(G,0)).mean((1,2),keepdims=True)
        cam=np.maximum((A*w).sum(-1),0)[...,None]
        ref=tf.image.resize(cam,(6,10),method='bicubic').numpy()
        print(cls.__name__,layer,e.shape,"dev",np.abs(ref-e).max())
    except Exception as ex: print(cls.__name__,layer,"ERR",repr(ex)[:300])

section("C12 containers and dtypes")
op = lambda f, x, y: tf.reduce_sum(f(x) * y, axis=-1)
Wt=rs.randint(-2,3,size=(5,3)).astype('float32')
ft=lambda z: tf.matmul(z**2, Wt)
x=rs.randint(-3,4,size=(5,5)); y=rs.randint(-1,2,size=(5,3))
ex=Saliency(ft, operator=op)
ref=ex(x.astype('float32'), y.astype('float32')).numpy()
for name,(a,b) in {"np int":(x,y),"np f64":(x.astype('float64'),y.astype('float64')),"tf int32":(tf.constant(x,tf.int32),tf.constant(y,tf.int32)),"tf f64":(tf.constant(x,tf.float64),tf.constant(y,tf.float64))}.items():
    try: print(name, np.array_equal(ex(a,b).numpy(),ref))
    except Exception as e: print(name,"ERR",repr(e)[:200])
xf,yf=x.astype('float32'),y.astype('float32')
ds=tf.data.Dataset.from_tensor_slices((xf,yf))
for name,d in {"unbatched":ds,"batch2":ds.batch(2),"batch5":ds.batch(5),"batch2.prefetch":ds.batch(2).prefetch(1),"batch3.map":ds.batch(3).map(lambda a,b:(a,b)), "batch5.prefetch": ds.batch(5).prefetch(1)}.items():
    try:
        e=ex(d,None).numpy(); print(name, e.shape, e.shape==ref.shape and np.array_equal(e,ref))
    except Exception as e: print(name,"ERR",repr(e)[:200])
print("explain==call", np.array_equal(ex.explain(xf,yf).numpy(), ex(xf,yf).numpy()))

section("C13 histories")
# Occlusion: image call then same explainer reused on images with other N; tabular after image (other kind - excluded)
H,W,C=4,6,2
Wi=rs.randint(-2,3,size=(H*W*C,3)).astype('float32')
fi=lambda z: tf.matmul(tf.reshape(z,(z.shape[0],-1))**2, Wi)
xi=rs.randint(-3,4,size=(3,H,W,C)).astype('float32'); yi=rs.randint(-1,2,size=(3,3)).astype('float32')
oc=Occlusion(fi, operator=op, patch_size=2, patch_stride=1)
a=oc(xi,yi).numpy(); b=oc(xi[:1],yi[:1]).numpy(); c=oc(xi,yi).numpy()
print("occlusion idempotent", np.array_equal(a,c), np.array_equal(a[:1],b), "patch now", oc.patch_size)
# SmoothGrad noise 0 reuse with different N
sg=VarGrad(fi, operator=op, nb_samples=4, noise=0.0, batch_size=3)
a=sg(xi,yi).numpy(); b=sg(xi[:2],yi[:2]).numpy(); c=sg(xi,yi).numpy()
print("vargrad reuse", np.array_equal(a,c), np.array_equal(a[:2],b))
# Lime default ref: first call on C=3 images then... same kind only. Check ref_value state with custom ref np array reused
lm=Lime(lambda z: (np.array(z).reshape(len(z),-1)**2).sum(1,keepdims=True), nb_samples=20, ref_value=np.array([1.0,2.0]), map_to_interpret_space=lambda inp: tf.cast(tf.reshape(tf.range(H*W),(H,W))//4, tf.int32))
tf.random.set_seed(0); a=lm(xi,np.ones((3,1),'float32')).numpy()
tf.random.set_seed(0); c=lm(xi,np.ones((3,1),'float32')).numpy()
lm2=Lime(lambda z: (np.array(z).reshape(len(z),-1)**2).sum(1,keepdims=True), nb_samples=20, ref_value=np.array([1.0,2.0]), map_to_interpret_space=lambda inp: tf.cast(tf.reshape(tf.range(H*W),(H,W))//4, tf.int32))
tf.random.set_seed(0); d=lm2(xi,np.ones((3,1),'float32')).numpy()
print("lime reuse same seed equal:", np.allclose(a,c,atol=1e-5), "fresh equal:", np.allclose(a,d,atol=1e-5))
# inputs not modified
x0=xi.copy(); _=oc(xi,yi); _=Rise(lambda z: np.array(z).reshape(len(z),-1).sum(1,keepdims=True), nb_samples=8, grid_size=2)(xi,np.ones((3,1),'float32')); print("inputs untouched", np.array_equal(x0,xi))
