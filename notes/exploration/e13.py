import os, sys, gc, itertools, traceback, warnings
os.environ['TF_CPP_MIN_LOG_LEVEL']='3'
warnings.filterwarnings("ignore")
import numpy as np, tensorflow as tf, torch, torch.nn as nn
rs = np.random.RandomState(13)
def section(name): print("\n=====", name)
section("C02 segmentation operator")
from xplique.commons.operators_operations import get_operator
op=get_operator("semantic segmentation")
P=rs.rand(2,4,5,3).astype('float32'); Tg=np.zeros((2,4,5,3),'float32'); Tg[0,1:3,2:4,1]=1; Tg[1,:,0,2]=1
print(op(lambda z: tf.constant(P), tf.zeros((2,4,5,1)), tf.constant(Tg)).numpy(), [P[0,1:3,2:4,1].mean(), P[1,:,0,2].mean()])
section("C11 metrics through wrapper")
from xplique.wrappers import TorchWrapper
from xplique.metrics import Deletion, MuFidelity
torch.manual_seed(0)
mlp=nn.Sequential(nn.Linear(6,4),nn.Tanh(),nn.Linear(4,2)).eval(); wm=TorchWrapper(mlp,'cpu')
fnp=lambda z: mlp(torch.tensor(np.array(z,dtype='float32'))).detach().numpy()
x=rs.randn(4,6).astype('float32'); y=np.eye(2)[[0,1,1,0]].astype('float32'); e=rs.randn(4,6).astype('float32')
print("deletion wrapper vs callable", Deletion(wm,x,y,steps=3)(e), Deletion(fnp,x,y,steps=3)(e))
section("C20 craft 2-D activations")
from xplique.concepts import CraftTorch
class Ext(nn.Module):
    def __init__(s): super().__init__(); s.c=nn.Conv2d(3,5,3,padding=1)
    def forward(s,x): return torch.relu(s.c(x)).mean((2,3))
head=nn.Linear(5,3).eval(); ext=Ext().eval()
imgs=torch.rand(5,3,12,18)
cr=CraftTorch(ext,head,number_of_concepts=3,batch_size=2,patch_size=6,device='cpu')
crops,u,w=cr.fit(imgs,class_id=2); t=cr.transform(imgs); imp=cr.estimate_importance(nb_design=8)
print("crops",crops.shape,"u",u.shape,"w",w.shape,"t",t.shape,t.min(),"imp",imp)
# affine invariance of importances
class H2(nn.Module):
    def __init__(s,h): super().__init__(); s.h=h
    def forward(s,a): return 3.0*s.h(a)+7.0
cr.latent_to_logit_model=H2(head).eval(); imp2=cr.estimate_importance(nb_design=8); print("affine inv dev", np.abs(imp-imp2).max())
section("C19 direction / layer / channel compile & names")
from xplique.features_visualizations.objectives import Objective
inp=tf.keras.Input((5,5,2)); c=tf.keras.layers.Conv2D(3,2,name='c')(inp); fl=tf.keras.layers.Flatten()(c); dd=tf.keras.layers.Dense(5,name='d')(fl); m=tf.keras.Model(inp,dd)
o=Objective.channel(m,'c',[0,2]) + Objective.neuron(m,'d',[1,2,3]) + Objective.direction(m,'d',[tf.ones(5),tf.constant([1.,0,0,0,0])])
mr,f,names,shape=o.compile(); print(len(names),shape,names[:3])
section("C16 Cole with torch model (hadamard)")
from xplique.example_based import Cole
net=nn.Sequential(nn.Linear(6,5),nn.ReLU(),nn.Linear(5,3)).eval()
X=rs.randn(10,6).astype('float32'); T=np.eye(3)[rs.randint(0,3,10)].astype('float32')
try:
    co=Cole(X,net,targets_dataset=T,k=3,batch_size=4,latent_layer=None,case_returns=["distances","indices"],device='cpu')
    out=co(X[:2],T[:2]); print("cole no split ok",out["distances"].numpy())
except Exception as ex: print("cole ERR",type(ex).__name__,str(ex)[:200])
