import os, sys, gc
os.environ['TF_CPP_MIN_LOG_LEVEL']='3'
import numpy as np, tensorflow as tf
from fractions import Fraction
print("== C relu override")
from xplique.commons.model_override import override_relu_gradient, guided_relu_policy, deconv_relu_policy
inp = tf.keras.Input((4,))
h = tf.keras.layers.Dense(5, activation='relu', name='d1')(inp)
h = tf.keras.layers.Dense(5, name='d2')(h)
h = tf.keras.layers.ReLU(max_value=2.0, threshold=0.5, name='r1')(h)
h = tf.keras.layers.Dense(3, name='d3')(h)
h = tf.keras.layers.ReLU(name='r2')(h)
out = tf.keras.layers.Dense(2, name='d4')(h)
m = tf.keras.Model(inp, out)
rs = np.random.RandomState(0)
m.set_weights([rs.randint(-2,3,size=w.shape).astype('float32') for w in m.get_weights()])
x = tf.constant(rs.randint(-2,3,size=(6,4)).astype('float32'))
w_before = [w.copy() for w in m.get_weights()]
y0 = m(x).numpy()
for pol in (guided_relu_policy, deconv_relu_policy):
    mo = override_relu_gradient(m, pol)
    y1 = mo(x).numpy()
    print(pol.__name__, "forward equal:", np.array_equal(y0,y1), "user model same out:", np.array_equal(m(x).numpy(), y0))
    with tf.GradientTape() as t:
        t.watch(x); s = tf.reduce_sum(mo(x)[:,0])
    g_over = t.gradient(s,x).numpy()
    with tf.GradientTape() as t:
        t.watch(x); s = tf.reduce_sum(m(x)[:,0])
    g_true = t.gradient(s,x).numpy()
    print(" grads differ from true:", not np.array_equal(g_over,g_true))
    for l in mo.layers:
        print("  ", l.name, type(l).__name__, getattr(l,'activation',None), 'call' in l.__dict__)
print("weights unchanged", all(np.array_equal(a,b) for a,b in zip(w_before, m.get_weights())))

print("== D lime cosine")
from xplique.attributions.lime import Lime
k = Lime._get_exp_kernel_func("cosine", 1.0)
orig = tf.constant([1.,2.,3.])
pert = tf.constant([[1.,2.,3.],[1.,0.,0.],[-1.,-2.,-3.]])
print("cosine kernel sims:", k(orig, tf.zeros((3,3),tf.int32), pert).numpy(), " expected exp(-(1-cos)^2): ", np.exp(-(1-np.array([1, 1/np.sqrt(14), -1]))**2))

print("== E objectives")
from xplique.features_visualizations.objectives import Objective
inp = tf.keras.Input((4,))
a = tf.keras.layers.Dense(3, name='a')(inp)
b = tf.keras.layers.Dense(2, name='b')(a)
mm = tf.keras.Model(inp, b)
o1 = Objective.neuron(mm, 'a', [0,1]); o2 = Objective.neuron(mm, 'b', [0]); o3 = Objective.layer(mm,'b')
print("mult before", o1.multipliers, o2.multipliers)
e = 2.0*o1 - 3.0*o2
print("mult after ", o1.multipliers, o2.multipliers, e.multipliers)
e2 = o1 + o2 + o3
e2 = Objective(mm, e2.layers, e2.masks, e2.funcs, [2.0, 3.0, 5.0], e2.names)
model_r, f, names, shape = e2.compile()
outs = [tf.constant(rs.randn(2,3).astype('float32')), tf.constant(rs.randn(2,2).astype('float32')), tf.constant(rs.randn(2,2).astype('float32'))]
# individual
def single(o, out):
    _, ff, _, _ = o.compile(); return ff([out]).numpy()
print("names", names, "shape", shape)
print("compiled:", f(outs).numpy())

print("== F sobol on Fractions")
from xplique.attributions.global_sensitivity_analysis import JansenEstimator, HommaEstimator, JanonEstimator, GlenEstimator, SaltelliEstimator
class J(JansenEstimator):
    @staticmethod
    def post_process(stis, masks): return stis
n,d=4,3
masks = np.zeros((n*(d+2), d))
outs = np.array([Fraction(int(v),7) for v in rs.randint(-20,20,size=n*(d+2))], dtype=object)
print(J()(masks, outs, n))
for E in (HommaEstimator, JanonEstimator, SaltelliEstimator, GlenEstimator):
    class X(E):
        @staticmethod
        def post_process(stis, masks): return stis
    try: print(E.__name__, X()(masks, outs, n))
    except Exception as ex: print(E.__name__, "ERR", repr(ex)[:200])
