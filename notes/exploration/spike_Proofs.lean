import XpSpike.Basic
import Mathlib.Tactic.Ring
import Mathlib.Tactic.FieldSimp
import Mathlib.Tactic.Linarith
import Mathlib.Algebra.Order.Field.Rat

namespace Xp

theorem chunkSizes_sum (pbs nb : Nat) (h : 0 < pbs) : (chunkSizes pbs nb).sum = nb := by
  induction nb using Nat.strong_induction_on with
  | _ nb ih =>
    unfold chunkSizes
    split
    · rename_i h'; rcases h' with h' | h' <;> simp_all <;> omega
    · rename_i h'
      simp only [List.sum_cons]
      have : nb - min pbs nb < nb := by omega
      rw [ih _ this]; omega

theorem sumQ_append (a b : List Rat) : sumQ (a ++ b) = sumQ a + sumQ b := by
  induction a with
  | nil => simp [sumQ]
  | cons x xs ih => simp [sumQ, ih]; ring

example (a b : Rat) (n : Nat) (hn : 2 ≤ n) (h : (n:Rat) ≠ 0) :
   (n:Rat)/((n:Rat)-1) * (a / n - (b/n)*(b/n)) = (a - b*b/n) / ((n:Rat) - 1) := by
  have h1 : (n:Rat) - 1 ≠ 0 := by
    have : (2:Rat) ≤ n := by exact_mod_cast hn
    linarith
  field_simp

end Xp
