import os, sys, gc, itertools, traceback, warnings
os.environ['TF_CPP_MIN_LOG_LEVEL']='3'
warnings.filterwarnings("ignore")
import numpy as np, tensorflow as tf
rs = np.random.RandomState(6)
from xplique.attributions import (Saliency, GradientInput, IntegratedGradients, Occlusion, Rise, Lime, KernelShap, SobolAttributionMethod, HsicAttributionMethod)
from xplique.attributions.global_sensitivity_analysis import *
def section(name): print("\n=====", name)
op = lambda f, x, y: tf.reduce_sum(f(x) * y, axis=-1)

section("C08 replicated design structure")
for S in (TFSobolSequenceRS, ScipySobolSequenceRS, HaltonSequenceRS, LatinHypercubeRS):
    d,n=5,8
    M=S()(d,n); A=M[:n];B=M[n:2*n]; ok=M.shape==(n*(d+2),d) and M.min()>=0 and M.max()<=1
    for i in range(d):
        Ci=M[2*n+i*n:2*n+(i+1)*n]; exp=A.copy(); exp[:,i]=B[:,i]; ok&=np.array_equal(Ci,exp)
    print(S.__name__, ok)
section("C03 Sobol/HSIC batch sizes + estimator batch")
H,W=8,12
f=lambda z: (np.array(z)[:,:4,:6,:]**2).sum((1,2,3))[:,None]
x=rs.rand(2,H,W,1).astype('float32')+0.5; y=np.ones((2,1),'float32')
ref=None
for bs in (1,5,7,64,1000):
    e=SobolAttributionMethod(f,grid_size=3,nb_design=8,batch_size=bs)(x,y).numpy()
    if ref is None: ref=e
    else: print("sobol bs",bs,np.abs(e-ref).max())
ref=None
for bs,ebs in ((5,None),(64,None),(64,1),(64,2),(64,4),(7,9),(64,100)):
    e=HsicAttributionMethod(f,grid_size=3,nb_design=16,batch_size=bs,estimator_batch_size=ebs)(x,y).numpy()
    if ref is None: ref=e
    else: print("hsic bs",bs,ebs,np.abs(e-ref).max(), "min", e.min())
for pf in ("inpainting","blurring","amplitude"):
    for Est in (JansenEstimator,HommaEstimator,JanonEstimator,GlenEstimator,SaltelliEstimator):
        try:
            e=SobolAttributionMethod(f,grid_size=2,nb_design=4,perturbation_function=pf,estimator=Est())(x,y).numpy(); 
        except Exception as ex: print(pf,Est.__name__,"ERR",repr(ex)[:200])
print("pf x estimators ran")

section("C05 Lime/KernelShap alignment on image with custom map, H!=W")
H,W,C=6,10,3
seg = (np.arange(H)[:,None]//3)*5 + (np.arange(W)[None,:]//2)   # 2x5 = 10 segments
mapf=lambda inp: tf.constant(seg, tf.int32)
wseg = rs.randint(1,4,size=10).astype('float64')
def fseg(z):
    z=np.array(z); out=np.zeros((len(z),1))
    for s in range(10): out[:,0]+=wseg[s]*z[:,seg==s,:].sum((1,2))
    return out
x=rs.randint(1,4,size=(2,H,W,C)).astype('float32'); y=np.ones((2,1),'float32')
e=KernelShap(fseg, nb_samples=60, map_to_interpret_space=mapf, ref_value=np.zeros(3))(x,y).numpy()
exp=np.zeros((2,H,W))
for n in range(2):
    for s in range(10): exp[n][seg==s]=wseg[s]*x[n][seg==s,:].sum()
print("kshap image seg dev", np.abs(e[...,0]-exp).max(), e.shape)

section("permutation equivariance")
Wt=rs.randint(-2,3,size=(5,3)).astype('float32'); ft=lambda z: tf.matmul(z**2, Wt)
x=rs.randint(-3,4,size=(6,5)).astype('float32'); y=rs.randint(-1,2,size=(6,3)).astype('float32')
p=rs.permutation(6)
for cls,kw in ((Saliency,{}),(GradientInput,{}),(IntegratedGradients,dict(steps=4)),(Occlusion,dict(patch_size=2,patch_stride=1))):
    ex=cls(ft,operator=op,batch_size=4,**kw); a=ex(x,y).numpy(); b=ex(x[p],y[p]).numpy(); c=ex(x[[0,0,3]],y[[0,0,3]]).numpy()
    print(cls.__name__, np.array_equal(a[p],b), np.array_equal(a[[0,0,3]],c))

section("C02 object detection operator numeric")
from xplique.commons.operators import object_detection_operator, semantic_segmentation_operator
from xplique.commons.operators_operations import get_operator
def iou(a,b):
    l=max(a[0],b[0]);bo=max(a[1],b[1]);r=min(a[2],b[2]);t=min(a[3],b[3])
    inter=max(r-l,0)*max(t-bo,0); ua=(a[2]-a[0])*(a[3]-a[1])+(b[2]-b[0])*(b[3]-b[1])-inter
    return inter/(ua+1e-4)
nb,nc=4,3
pred=np.zeros((2,nb,5+nc),'float32')
for n in range(2):
    for b in range(nb):
        x0,y0=rs.randint(0,5,2); pred[n,b,:4]=[x0,y0,x0+rs.randint(1,5),y0+rs.randint(1,5)]; pred[n,b,4]=rs.rand(); pred[n,b,5:]=rs.rand(nc)
model=lambda z: tf.constant(pred)
tg=np.zeros((2,2,5+nc),'float32')
for n in range(2):
    for b in range(2):
        x0,y0=rs.randint(0,5,2); tg[n,b,:4]=[x0,y0,x0+rs.randint(1,5),y0+rs.randint(1,5)]; tg[n,b,4]=1; tg[n,b,5+rs.randint(nc)]=1
def ref_od(pred,tg,prob=True,cl=True):
    out=[]
    for n in range(len(pred)):
        T=tg[n] if tg[n].ndim==2 else tg[n][None]
        sc=[]
        for t in T:
            best=-1e9
            for p in pred[n]:
                s=iou(t[:4],p[:4])
                if prob: s*=p[4]
                if cl: s*= (t[5:]@p[5:])/(np.linalg.norm(p[5:])*np.linalg.norm(t[5:])+1e-4)
                best=max(best,s)
            sc.append(best)
        out.append(np.mean(sc))
    return np.array(out)
xin=tf.zeros((2,3,3,1))
for name,(pr,cl) in {"object detection":(True,True),"object detection box position":(False,False),"object detection box proba":(True,False),"object detection box class":(False,True)}.items():
    o=get_operator(name)
    print(name, np.abs(o(model,xin,tf.constant(tg)).numpy()-ref_od(pred,tg,pr,cl)).max(), np.abs(o(model,xin,tf.constant(tg[:,0])).numpy()-ref_od(pred,tg[:,0],pr,cl)).max())
