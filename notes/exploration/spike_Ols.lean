import Mathlib.Algebra.BigOperators.Field
import Mathlib.Algebra.Order.BigOperators.Ring.Finset
import Mathlib.Algebra.Order.Field.Rat
import Mathlib.Tactic.Ring
import Mathlib.Tactic.Linarith
import Mathlib.Tactic.Positivity

open Finset BigOperators
namespace Xp

variable {n F : ℕ}

/-- weighted squared loss of the linear surrogate (coefficients β, intercept c) -/
def wloss (w : Fin n → ℚ) (Z : Fin n → Fin F → ℚ) (y : Fin n → ℚ) (β : Fin F → ℚ) (c : ℚ) : ℚ :=
  ∑ s, w s * (y s - (∑ j, β j * Z s j) - c) ^ 2

/-- full column rank of (Z | 1) -/
def FullRank (Z : Fin n → Fin F → ℚ) : Prop :=
  ∀ (v : Fin F → ℚ) (d : ℚ), (∀ s, (∑ j, v j * Z s j) + d = 0) → (∀ j, v j = 0) ∧ d = 0

/-- KernelShap exactness core: on exactly linear data, any minimiser of the weighted
least-squares loss with positive weights is the generating (β, c). -/
theorem ols_exact (w : Fin n → ℚ) (hw : ∀ s, 0 < w s) (Z : Fin n → Fin F → ℚ)
    (β : Fin F → ℚ) (c : ℚ) (y : Fin n → ℚ) (hy : ∀ s, y s = (∑ j, β j * Z s j) + c)
    (hr : FullRank Z) (β' : Fin F → ℚ) (c' : ℚ)
    (hmin : ∀ β'' c'', wloss w Z y β' c' ≤ wloss w Z y β'' c'') :
    (∀ j, β' j = β j) ∧ c' = c := by
  have h0 : wloss w Z y β c = 0 := by
    unfold wloss
    apply sum_eq_zero; intro s _; rw [hy s]; ring
  have hle : wloss w Z y β' c' ≤ 0 := h0 ▸ hmin β c
  have hnn : ∀ s ∈ univ, 0 ≤ w s * (y s - (∑ j, β' j * Z s j) - c') ^ 2 :=
    fun s _ => mul_nonneg (hw s).le (sq_nonneg _)
  have hz : wloss w Z y β' c' = 0 := le_antisymm hle (sum_nonneg hnn)
  have hres : ∀ s, y s - (∑ j, β' j * Z s j) - c' = 0 := by
    intro s
    have := (sum_eq_zero_iff_of_nonneg hnn).mp hz s (mem_univ s)
    rcases mul_eq_zero.mp this with h | h
    · exact absurd h (hw s).ne'
    · exact pow_eq_zero_iff (two_ne_zero) |>.mp h
  have hlin : ∀ s, (∑ j, (β' j - β j) * Z s j) + (c' - c) = 0 := by
    intro s
    have h1 := hres s
    rw [hy s] at h1
    have : (∑ j, (β' j - β j) * Z s j) = (∑ j, β' j * Z s j) - (∑ j, β j * Z s j) := by
      rw [← sum_sub_distrib]; apply sum_congr rfl; intro j _; ring
    rw [this]; linarith
  obtain ⟨hv, hd⟩ := hr (fun j => β' j - β j) (c' - c) hlin
  exact ⟨fun j => by linarith [hv j], by linarith⟩

end Xp
