import Mathlib.Data.List.Sort
import Mathlib.Order.Basic

namespace Xp
variable {α : Type}

theorem take_merge_take (le : α → α → Bool) :
    ∀ (k j : Nat) (s t : List α), k ≤ j →
      (List.merge (s.take j) t le).take k = (List.merge s t le).take k := by
  intro k
  induction k with
  | zero => intros; simp
  | succ k ih =>
    intro j s t hkj
    obtain ⟨j, rfl⟩ : ∃ j', j = j' + 1 := ⟨j - 1, by omega⟩
    induction t generalizing s j with
    | nil =>
      simp only [List.merge_right, List.take_take]
      congr 1; omega
    | cons y t iht =>
      cases s with
      | nil => simp
      | cons x s =>
        simp only [List.take_succ_cons, List.cons_merge_cons]
        split
        · simp only [List.take_succ_cons]
          congr 1
          exact ih j s (y :: t) (by omega)
        · simp only [List.take_succ_cons]
          congr 1
          have := ih (j+1) (x :: s) t (by omega)
          simpa using this

end Xp

namespace Xp
open List
variable {κ : Type} [LinearOrder κ]

abbrev srt (l : List κ) : List κ := l.mergeSort (· ≤ ·)

theorem srt_pairwise (l : List κ) : (srt l).Pairwise (· ≤ ·) := pairwise_mergeSort' (· ≤ ·) l

theorem srt_append (a b : List κ) : srt (a ++ b) = List.merge (srt a) (srt b) (· ≤ ·) := by
  apply Perm.eq_of_pairwise' (r := (· ≤ ·)) (srt_pairwise _)
  · exact Pairwise.merge (srt_pairwise a) (srt_pairwise b)
  · exact (mergeSort_perm _ _).trans
      (((mergeSort_perm a _).append (mergeSort_perm b _)).symm.trans (Perm.symm (merge_perm_append _)))

theorem srt_take_srt (k : Nat) (a : List κ) : srt ((srt a).take k) = (srt a).take k :=
  mergeSort_eq_self (· ≤ ·) ((srt_pairwise a).sublist (take_sublist k _))

/-- one step of the running top-k of `KNN.kneighbors` on keys -/
def mergeStep (k : Nat) (best batch : List κ) : List κ := (srt (best ++ batch)).take k

theorem mergeStep_absorb (k : Nat) (a b : List κ) :
    mergeStep k ((srt a).take k) b = (srt (a ++ b)).take k := by
  unfold mergeStep
  rw [srt_append, srt_take_srt, srt_append, take_merge_take _ k k _ _ (le_refl k)]

theorem knn_keys (k : Nat) (init : List κ) (batches : List (List κ)) :
    batches.foldl (mergeStep k) ((srt init).take k) = (srt (init ++ batches.flatten)).take k := by
  induction batches generalizing init with
  | nil => simp
  | cons b bs ih =>
    simp only [foldl_cons, flatten_cons]
    rw [mergeStep_absorb, ih, append_assoc]

end Xp
