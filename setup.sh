#!/bin/bash
# Build the framework offline from files on disk: regenerate the translator lane from /repo,
# build model, driver executable and all proofs.
set -e
cd "$(dirname "$0")"
python3 harness/gen_arith.py
cd lean
lake build XpModel XpDriver xpdriver
lake build XpProofs
echo "setup ok"
