/-
  Helper lemmas for C09 / C05 (RISE): sums, the (numerator, denominator) fold, bilinear weights.
-/
import XpModel.Rise
import XpProofs.Lemmas.Batching
import XpProofs.Lemmas.Vec
import Mathlib.Tactic.FieldSimp
import Mathlib.Tactic.Positivity

namespace Xp

theorem sumQ_map_mul_left {μ : Type} (c : Rat) (l : List μ) (g : μ → Rat) :
    sumQ (l.map fun a => c * g a) = c * sumQ (l.map g) := by
  induction l with
  | nil => simp
  | cons a l ih => simp only [List.map_cons, sumQ_cons, ih]; ring

theorem sumQ_map_le {μ : Type} (l : List μ) (g h : μ → Rat) (hle : ∀ a ∈ l, g a ≤ h a) :
    sumQ (l.map g) ≤ sumQ (l.map h) := by
  induction l with
  | nil => simp
  | cons a l ih =>
    simp only [List.map_cons, sumQ_cons]
    have h1 := hle a (List.mem_cons_self ..)
    have h2 := ih (fun b hb => hle b (List.mem_cons_of_mem _ hb))
    linarith

theorem sumQ_map_nonneg {μ : Type} (l : List μ) (g : μ → Rat) (h0 : ∀ a ∈ l, 0 ≤ g a) :
    0 ≤ sumQ (l.map g) := by
  have := sumQ_map_le l (fun _ => 0) g h0
  have hz : sumQ (l.map fun _ => (0 : Rat)) = 0 := by
    induction l with
    | nil => simp
    | cons a l ih => simp only [List.map_cons, sumQ_cons, zero_add]; exact ih (fun b hb => h0 b (List.mem_cons_of_mem _ hb)) (by
        exact sumQ_map_le l (fun _ => 0) g (fun b hb => h0 b (List.mem_cons_of_mem _ hb)))
  linarith

theorem zipWith_map_range {β γ δ : Type} (n : Nat) (f : β → γ → δ) (g : Nat → β) (h : Nat → γ) :
    List.zipWith f ((List.range n).map g) ((List.range n).map h) = (List.range n).map fun p => f (g p) (h p) := by
  rw [List.zipWith_map]
  simp [List.zipWith_self]

namespace Rise

theorem foldl_accStep (nfeat : Nat) (L : List (List (List Rat × Rat))) (st : List Rat × List Rat) :
    L.foldl (accStep nfeat) st =
      (L.foldl (fun a ch => vadd a (chunkNum nfeat ch)) st.1,
       L.foldl (fun a ch => vadd a (chunkDen nfeat ch)) st.2) := by
  induction L generalizing st with
  | nil => rfl
  | cons ch L ih => simp only [List.foldl_cons]; rw [ih]; rfl

/-- accumulating numerator and denominator chunk by chunk, for ANY chunking, then dividing,
    gives the reference definition over all the (mask, score) pairs of the chunks -/
theorem finish_foldl_chunks (nfeat : Nat) (eps : Rat) (L : List (List (List Rat × Rat))) :
    finish eps (L.foldl (accStep nfeat) (vzero nfeat, vzero nfeat)) = specPairs nfeat eps L.flatten := by
  rw [foldl_accStep]
  have hn := foldl_vadd_chunks nfeat (fun p (ms : List Rat × Rat) => ms.2 * ms.1.getD p 0) L (vzero nfeat)
    (vzero_length _)
  have hd := foldl_vadd_chunks nfeat (fun p (ms : List Rat × Rat) => ms.1.getD p 0) L (vzero nfeat)
    (vzero_length _)
  simp only [chunkNum, chunkDen] at *
  rw [hn, hd]
  unfold finish specPairs
  simp only
  rw [zipWith_map_range]
  apply List.map_congr_left; intro p _
  simp only [vzero_getD, zero_add]

/-! bilinear weights -/

theorem frac_nonneg (out inn i : Nat) : 0 ≤ frac out inn i := by
  unfold frac
  by_cases h : out = 0
  · subst h; simp
  · apply div_nonneg
    · have : (0 : Int) ≤ srcNum out inn i % ((2 * out : Nat) : Int) :=
        Int.emod_nonneg _ (by exact_mod_cast (by omega : 2 * out ≠ 0))
      exact_mod_cast this
    · positivity

theorem frac_le_one (out inn i : Nat) : frac out inn i ≤ 1 := by
  unfold frac
  by_cases h : out = 0
  · subst h; simp
  · have hpos : (0 : Rat) < ((2 * out : Nat) : Rat) := by exact_mod_cast (by omega : 0 < 2 * out)
    rw [div_le_one hpos]
    have : srcNum out inn i % ((2 * out : Nat) : Int) < ((2 * out : Nat) : Int) :=
      Int.emod_lt_of_pos _ (by exact_mod_cast (by omega : 0 < 2 * out))
    have h2 : ((srcNum out inn i % ((2 * out : Nat) : Int) : Int) : Rat) < (((2 * out : Nat) : Int) : Rat) := by
      exact_mod_cast this
    have h3 : (((2 * out : Nat) : Int) : Rat) = ((2 * out : Nat) : Rat) := by push_cast; ring
    linarith

theorem lerp_convex (t a b : Rat) : lerp t a b = (1 - t) * a + t * b := by unfold lerp; ring

theorem lerp_ge (t a b lo : Rat) (h0 : 0 ≤ t) (h1 : t ≤ 1) (ha : lo ≤ a) (hb : lo ≤ b) : lo ≤ lerp t a b := by
  rw [lerp_convex]; nlinarith

theorem lerp_le (t a b hi : Rat) (h0 : 0 ≤ t) (h1 : t ≤ 1) (ha : a ≤ hi) (hb : b ≤ hi) : lerp t a b ≤ hi := by
  rw [lerp_convex]; nlinarith

end Rise
end Xp
