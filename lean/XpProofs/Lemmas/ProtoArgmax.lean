import XpModel.ProtoSel
import Mathlib.Data.List.Basic
import Mathlib.Data.List.Induction
import Mathlib.Tactic.Linarith
import Mathlib.Algebra.Order.Field.Rat

namespace Xp.ProtoSel
variable {α β : Type}

theorem firstArgmax_nil (f : α → Rat) : firstArgmax f [] = none := rfl

theorem firstArgmax_append_singleton (f : α → Rat) (l : List α) (y : α) :
    firstArgmax f (l ++ [y]) = pickBetter f (firstArgmax f l) y := by
  simp [firstArgmax, List.foldl_append]

theorem pickBetter_absorb (f : α → Rat) (acc r : Option α) (y : α) :
    pickBetter f (absorb f acc r) y = absorb f acc (pickBetter f r y) := by
  cases r with
  | none => simp [absorb, pickBetter]
  | some x =>
    cases acc with
    | none =>
      simp only [absorb, pickBetter]
      split <;> simp
    | some a =>
      simp only [absorb, pickBetter]
      by_cases h1 : f a < f x <;> by_cases h2 : f x < f y <;> by_cases h3 : f a < f y <;>
        simp [h1, h2, h3] <;> linarith

/-- folding `pickBetter` from any accumulator = combining the accumulator with the list's winner -/
theorem foldl_pickBetter (f : α → Rat) (l : List α) (acc : Option α) :
    l.foldl (pickBetter f) acc = absorb f acc (firstArgmax f l) := by
  induction l using List.reverseRecOn with
  | nil => simp [absorb, firstArgmax]
  | append_singleton l y ih =>
    rw [List.foldl_append, List.foldl_cons, List.foldl_nil, ih, firstArgmax_append_singleton,
      pickBetter_absorb]

/-- per-batch arg-max followed by the strict `>` across batches = arg-max of the concatenation -/
theorem foldl_batches_argmax (f : α → Rat) (bs : List (List α)) (acc : Option α) :
    bs.foldl (fun best b => absorb f best (firstArgmax f b)) acc = bs.flatten.foldl (pickBetter f) acc := by
  induction bs generalizing acc with
  | nil => rfl
  | cons b bs ih =>
    rw [List.foldl_cons, List.flatten_cons, List.foldl_append, ih, foldl_pickBetter f b acc]

theorem firstArgmax_eq_none (f : α → Rat) (l : List α) : firstArgmax f l = none ↔ l = [] := by
  induction l using List.reverseRecOn with
  | nil => simp [firstArgmax]
  | append_singleton l y ih =>
    rw [firstArgmax_append_singleton]
    cases h : firstArgmax f l with
    | none => simp [pickBetter]
    | some x =>
      simp only [pickBetter]
      split <;> simp

/-- **specification of `tf.argmax` / the strict comparison**: the winner is the FIRST element
    carrying the maximal value -/
theorem firstArgmax_spec (f : α → Rat) (l : List α) (x : α) (h : firstArgmax f l = some x) :
    ∃ l1 l2, l = l1 ++ x :: l2 ∧ (∀ y ∈ l1, f y < f x) ∧ (∀ y ∈ l2, f y ≤ f x) := by
  induction l using List.reverseRecOn generalizing x with
  | nil => simp [firstArgmax] at h
  | append_singleton l y ih =>
    rw [firstArgmax_append_singleton] at h
    cases hr : firstArgmax f l with
    | none =>
      have hl := (firstArgmax_eq_none f l).mp hr
      subst hl
      rw [hr] at h
      simp only [pickBetter, Option.some.injEq] at h
      subst h
      exact ⟨[], [], by simp, by simp, by simp⟩
    | some z =>
      rw [hr] at h
      obtain ⟨l1, l2, hl, h1, h2⟩ := ih z hr
      simp only [pickBetter] at h
      by_cases hzy : f z < f y
      · rw [if_pos hzy] at h
        simp only [Option.some.injEq] at h
        subst h
        refine ⟨l, [], by simp, ?_, by simp⟩
        intro w hw
        rw [hl] at hw
        rcases List.mem_append.mp hw with hw | hw
        · exact lt_trans (h1 w hw) hzy
        · rcases List.mem_cons.mp hw with rfl | hw
          · exact hzy
          · exact lt_of_le_of_lt (h2 w hw) hzy
      · rw [if_neg hzy] at h
        simp only [Option.some.injEq] at h
        subst h
        refine ⟨l1, l2 ++ [y], by simp [hl], h1, ?_⟩
        intro w hw
        rcases List.mem_append.mp hw with hw | hw
        · exact h2 w hw
        · simp only [List.mem_singleton] at hw
          subst hw
          exact not_lt.mp hzy

theorem firstArgmax_mem (f : α → Rat) (l : List α) (x : α) (h : firstArgmax f l = some x) : x ∈ l := by
  obtain ⟨l1, l2, hl, _, _⟩ := firstArgmax_spec f l x h
  simp [hl]

theorem firstArgmax_max (f : α → Rat) (l : List α) (x : α) (h : firstArgmax f l = some x) :
    ∀ y ∈ l, f y ≤ f x := by
  obtain ⟨l1, l2, hl, h1, h2⟩ := firstArgmax_spec f l x h
  intro y hy
  rw [hl] at hy
  rcases List.mem_append.mp hy with hy | hy
  · exact le_of_lt (h1 y hy)
  · rcases List.mem_cons.mp hy with rfl | hy
    · exact le_refl _
    · exact h2 y hy

theorem pickBetter_map (f : β → Rat) (g : α → β) (o : Option α) (y : α) :
    pickBetter f (o.map g) (g y) = (pickBetter (fun a => f (g a)) o y).map g := by
  cases o with
  | none => rfl
  | some a =>
    simp only [pickBetter, Option.map_some]
    split <;> rfl

/-- arg-max of a mapped list -/
theorem firstArgmax_map (f : β → Rat) (g : α → β) (l : List α) :
    firstArgmax f (l.map g) = (firstArgmax (fun a => f (g a)) l).map g := by
  induction l using List.reverseRecOn with
  | nil => rfl
  | append_singleton l y ih =>
    rw [List.map_append, List.map_cons, List.map_nil, firstArgmax_append_singleton,
      firstArgmax_append_singleton, ih, pickBetter_map]

theorem firstArgmax_congr (f f' : α → Rat) (l : List α) (h : ∀ x ∈ l, f x = f' x) :
    firstArgmax f l = firstArgmax f' l := by
  induction l using List.reverseRecOn with
  | nil => rfl
  | append_singleton l y ih =>
    rw [firstArgmax_append_singleton, firstArgmax_append_singleton,
      ih (fun x hx => h x (List.mem_append_left _ hx))]
    cases hr : firstArgmax f' l with
    | none => rfl
    | some z =>
      have hz : z ∈ l := firstArgmax_mem f' l z hr
      simp only [pickBetter]
      rw [h z (List.mem_append_left _ hz), h y (by simp)]

end Xp.ProtoSel
