/-
  Generic theory of the batched running top-k (`TopK.step` / `TopK.run`):
  for ANY sort (permutation + sortedness; the order of ties is unspecified) and any total preorder,
  the loop returns a sorted selection of the `k` smallest elements of everything it has seen.
-/
import XpModel.TopK
import XpProofs.Lemmas.Batching
import Mathlib.Data.List.Sort
import Mathlib.Data.List.Perm.Basic
import Mathlib.Data.List.Nodup
import Mathlib.Tactic.Linarith

namespace Xp.TopK
open scoped List
variable {α κ : Type}

/-- `le` is a total preorder (as a Boolean comparison) -/
structure TotalPre (le : α → α → Bool) : Prop where
  total : ∀ a b, le a b = true ∨ le b a = true
  trans : ∀ a b c, le a b = true → le b c = true → le a c = true

theorem TotalPre.refl {le : α → α → Bool} (h : TotalPre le) (a : α) : le a a = true := by
  rcases h.total a a with h | h <;> exact h

/-- `sort` returns a permutation of its argument, sorted for `le`; nothing is assumed about ties -/
def IsSort (le : α → α → Bool) (sort : List α → List α) : Prop :=
  ∀ l, (sort l).Perm l ∧ (sort l).Pairwise (fun a b => le a b = true)

/-- `R` is a sorted selection of the `k` smallest elements of the multiset `M`:
    sorted, of length `min k |M|`, and everything left over is at least as large as everything
    selected. -/
structure IsTopK (le : α → α → Bool) (k : Nat) (M R : List α) : Prop where
  sorted : R.Pairwise (fun a b => le a b = true)
  length_eq : R.length = min k M.length
  rest : ∃ D, (R ++ D).Perm M ∧ ∀ r ∈ R, ∀ d ∈ D, le r d = true

theorem isTopK_init {le : α → α → Bool} {k : Nat} {init : List α}
    (hs : init.Pairwise (fun a b => le a b = true)) (hl : init.length ≤ k) :
    IsTopK le k init init :=
  ⟨hs, by omega, [], by simp, by simp⟩

/-- one loop iteration keeps the invariant -/
theorem step_isTopK {le : α → α → Bool} (hle : TotalPre le) {sort : List α → List α}
    (hsort : IsSort le sort) {k : Nat} {M R : List α} (h : IsTopK le k M R) (new : List α) :
    IsTopK le k (M ++ new) (step sort k R new) := by
  obtain ⟨hperm, hsorted⟩ := hsort (R ++ new)
  obtain ⟨D, hD, hRD⟩ := h.rest
  have hlenS : (sort (R ++ new)).length = R.length + new.length := by
    rw [hperm.length_eq, List.length_append]
  have hsplit := List.take_append_drop k (sort (R ++ new))
  have hsorted' := hsorted
  rw [← hsplit, List.pairwise_append] at hsorted'
  obtain ⟨hsT, _, hTU⟩ := hsorted'
  have hlenM : R.length + D.length = M.length := by
    rw [← List.length_append, hD.length_eq]
  refine ⟨hsT, ?_, (sort (R ++ new)).drop k ++ D, ?_, ?_⟩
  · unfold step
    rw [List.length_take, hlenS, h.length_eq, List.length_append]; omega
  · unfold step
    rw [← List.append_assoc, hsplit]
    calc sort (R ++ new) ++ D ~ (R ++ new) ++ D := hperm.append_right D
      _ ~ (R ++ D) ++ new := by
          rw [List.append_assoc, List.append_assoc]
          exact List.Perm.append_left R List.perm_append_comm
      _ ~ M ++ new := hD.append_right new
  · intro r' hr' d hd
    unfold step at hr'
    rcases List.mem_append.mp hd with hdU | hdD
    · exact hTU r' hr' d hdU
    · -- counting argument
      by_contra hcon
      have hcon : le r' d = false := by simpa using hcon
      let p : α → Bool := fun x => !(le r' x)
      have hpR : ∀ r ∈ R, p r = true := by
        intro r hr
        have h1 := hRD r hr d hdD
        by_contra hp
        have hp : le r' r = true := by simpa [p] using hp
        have := hle.trans r' r d hp h1
        rw [hcon] at this; exact absurd this (by simp)
      have hpU : ∀ u ∈ (sort (R ++ new)).drop k, p u = false := by
        intro u hu; simp [p, hTU r' hr' u hu]
      have hcS : List.countP p (sort (R ++ new)) = List.countP p (List.take k (sort (R ++ new))) := by
        conv_lhs => rw [← hsplit]
        rw [List.countP_append]
        have : List.countP p (List.drop k (sort (R ++ new))) = 0 := by
          rw [List.countP_eq_zero]; intro u hu; simp [hpU u hu]
        omega
      have hcR : R.length ≤ List.countP p (sort (R ++ new)) := by
        rw [hperm.countP_eq, List.countP_append, List.countP_eq_length.mpr hpR]; omega
      have hcT : List.countP p (List.take k (sort (R ++ new))) < (List.take k (sort (R ++ new))).length := by
        apply lt_of_le_of_ne List.countP_le_length
        intro heq
        have := List.countP_eq_length.mp heq r' hr'
        simp [p, hle.refl r'] at this
      have hTk : (List.take k (sort (R ++ new))).length ≤ k := by
        rw [List.length_take]; omega
      have hRk : R.length < k := by omega
      have hRM : R.length = M.length := by have := h.length_eq; omega
      have hD0 : D.length = 0 := by omega
      have : D = [] := List.length_eq_zero_iff.mp hD0
      rw [this] at hdD; simp at hdD

/-- **running top-k** — after any list of batches the table holds a sorted selection of the `k`
    smallest elements of `init ++ batches.flatten` -/
theorem run_isTopK {le : α → α → Bool} (hle : TotalPre le) {sort : List α → List α}
    (hsort : IsSort le sort) {k : Nat} (bs : List (List α)) :
    ∀ {M R : List α}, IsTopK le k M R → IsTopK le k (M ++ bs.flatten) (run sort k R bs) := by
  induction bs with
  | nil => intro M R h; simpa [run] using h
  | cons b bs ih =>
    intro M R h
    have := ih (step_isTopK hle hsort h b)
    simpa [run, List.append_assoc] using this

theorem IsTopK.mem {le : α → α → Bool} {k : Nat} {M R : List α} (h : IsTopK le k M R) {r : α}
    (hr : r ∈ R) : r ∈ M := by
  obtain ⟨D, hD, _⟩ := h.rest
  exact hD.subset (List.mem_append_left D hr)

/-- an element of `M` that is not selected is at least as large as every selected element -/
theorem IsTopK.nearest {le : α → α → Bool} {k : Nat} {M R : List α} (h : IsTopK le k M R) {x : α}
    (hx : x ∈ M) (hnot : x ∉ R) : ∀ r ∈ R, le r x = true := by
  obtain ⟨D, hD, hRD⟩ := h.rest
  intro r hr
  have : x ∈ R ++ D := hD.symm.subset hx
  rcases List.mem_append.mp this with h1 | h1
  · exact absurd h1 hnot
  · exact hRD r hr x h1

/-- the selected elements form a sub-multiset of `M`: a property that holds for all of `M`'s
    elements satisfying `p` without repetition transfers to `R` -/
theorem IsTopK.nodup_filterMap {β : Type} {le : α → α → Bool} {k : Nat} {M R : List α}
    (h : IsTopK le k M R) (f : α → Option β) (hM : (M.filterMap f).Nodup) : (R.filterMap f).Nodup := by
  obtain ⟨D, hD, _⟩ := h.rest
  have := (hD.filterMap f).nodup_iff.mpr hM
  rw [List.filterMap_append] at this
  exact (List.nodup_append.mp this).1

/-- the key list of a top-k selection is determined by the multiset of keys: it is the first `k`
    elements of the sorted key list. (Hence: independent of the batching and of the tie order.) -/
theorem IsTopK.keys_eq {le : α → α → Bool} {k : Nat} {M R : List α} (h : IsTopK le k M R)
    (key : α → κ) (kle : κ → κ → Bool) (hk : TotalPre kle)
    (hanti : ∀ a b, kle a b = true → kle b a = true → a = b)
    (hkey : ∀ a b, le a b = kle (key a) (key b)) :
    R.map key = ((M.map key).mergeSort kle).take k := by
  obtain ⟨D, hD, hRD⟩ := h.rest
  have hle : TotalPre le := ⟨fun a b => by simpa [hkey] using hk.total (key a) (key b),
    fun a b c => by simpa [hkey] using hk.trans (key a) (key b) (key c)⟩
  let D' := D.mergeSort le
  have hD'p : D'.Perm D := List.mergeSort_perm D le
  have hD's : D'.Pairwise (fun a b => le a b = true) :=
    List.pairwise_mergeSort hle.trans (fun a b => by simpa using hle.total a b) D
  have hL : ((R ++ D').map key).Pairwise (fun a b => kle a b = true) := by
    rw [List.pairwise_map, List.pairwise_append]
    refine ⟨?_, ?_, ?_⟩
    · exact h.sorted.imp (fun {a b} hab => by rw [← hkey]; exact hab)
    · exact hD's.imp (fun {a b} hab => by rw [← hkey]; exact hab)
    · intro a ha b hb
      rw [← hkey]; exact hRD a ha b (hD'p.subset hb)
  have hperm : ((R ++ D').map key).Perm ((M.map key).mergeSort kle) :=
    (((List.Perm.append_left R hD'p).trans hD).map key).trans (List.mergeSort_perm _ kle).symm
  have hsortedM : ((M.map key).mergeSort kle).Pairwise (fun a b => kle a b = true) :=
    List.pairwise_mergeSort hk.trans (fun a b => by simpa using hk.total a b) _
  have heq := List.Perm.eq_of_pairwise (fun a b _ _ => hanti a b) hL hsortedM hperm
  rw [← heq, List.map_append]
  have hlenM : R.length + D.length = M.length := by rw [← List.length_append, hD.length_eq]
  by_cases hRk : R.length = k
  · rw [List.take_append_of_le_length (by simp [hRk])]
    rw [List.take_of_length_le (by simp [hRk])]
  · have hRM : R.length = M.length := by have := h.length_eq; omega
    have hD0 : D = [] := List.length_eq_zero_iff.mp (by omega)
    have hD'0 : D' = [] := by
      apply List.length_eq_zero_iff.mp; rw [hD'p.length_eq, hD0]; rfl
    rw [hD'0]; simp only [List.map_nil, List.append_nil]
    rw [List.take_of_length_le]
    have := h.length_eq; simp only [List.length_map]; omega

/-- counting: for a downward-closed predicate `p` (e.g. "the key is finite"), the number of selected
    elements satisfying `p` is `min k (number of elements of M satisfying p)` -/
theorem IsTopK.countP_eq {le : α → α → Bool} {k : Nat} {M R : List α} (h : IsTopK le k M R)
    (p : α → Bool) (hp : ∀ a b, le a b = true → p b = true → p a = true) :
    List.countP p R = min k (List.countP p M) := by
  obtain ⟨D, hD, hRD⟩ := h.rest
  have hlenM : R.length + D.length = M.length := by rw [← List.length_append, hD.length_eq]
  have hcM : List.countP p M = List.countP p R + List.countP p D := by
    rw [← hD.countP_eq, List.countP_append]
  have hlen := h.length_eq
  by_cases hall : ∀ r ∈ R, p r = true
  · have hcR : List.countP p R = R.length := List.countP_eq_length.mpr hall
    by_cases hRk : R.length = k
    · omega
    · have hD0 : D = [] := List.length_eq_zero_iff.mp (by omega)
      rw [hD0] at hcM; simp at hcM; omega
  · push Not at hall
    obtain ⟨r, hr, hpr⟩ := hall
    have hcD : List.countP p D = 0 := by
      rw [List.countP_eq_zero]
      intro d hd hpd
      exact hpr (hp r d (hRD r hr d hd) hpd)
    have : List.countP p R ≤ R.length := List.countP_le_length
    omega

end Xp.TopK
