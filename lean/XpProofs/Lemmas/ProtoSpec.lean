import XpModel.ProtoSel
import XpProofs.Lemmas.Vec
import XpProofs.Lemmas.Batching
import XpProofs.Lemmas.ProtoArgmax
import Mathlib.Data.List.Basic
import Mathlib.Data.List.Nodup
import Mathlib.Data.List.Sort
import Mathlib.Data.List.Perm.Subperm
import Mathlib.Tactic.Ring
import Mathlib.Tactic.Linarith
import Mathlib.Tactic.FieldSimp
import Mathlib.Algebra.Order.Field.Rat

namespace Xp.ProtoSel
variable {α : Type}

/-! ### batches of consecutive rows -/

theorem batches_getD (b : Nat) (hb : 0 < b) (xs : List α) (i : Nat) :
    (batches b xs).getD i [] = (xs.drop (i * b)).take b := by
  induction i generalizing xs with
  | zero =>
    unfold batches
    split
    · rename_i h
      rcases h with h | h
      · omega
      · simp [h]
    · simp
  | succ i ih =>
    unfold batches
    split
    · rename_i h
      rcases h with h | h
      · omega
      · simp [h]
    · rw [List.getD_cons_succ, ih, List.drop_drop]
      congr 2
      ring

theorem batches_length_le (b : Nat) (hb : 0 < b) (xs : List α) (i : Nat) (hi : i < (batches b xs).length) :
    i * b < xs.length := by
  by_contra hn
  have h1 : (batches b xs).getD i [] = [] := by
    rw [batches_getD b hb]
    simp [List.drop_eq_nil_of_le (not_lt.mp hn)]
  have hmem : (batches b xs).getD i [] ∈ batches b xs := by
    simp only [List.getD_eq_getElem?_getD, List.getElem?_eq_getElem hi, Option.getD_some]
    exact List.getElem_mem hi
  have := (batch_len_le b xs _ hmem).2
  rw [h1] at this
  simp at this

/-- position `(bi, p)` of the batched dataset holds row `bi * b + p` -/
theorem batches_range_pos (n b : Nat) (hb : 0 < b) (bi p : Nat)
    (hp : p < ((batches b (List.range n)).getD bi []).length) :
    ((batches b (List.range n)).getD bi []).getD p 0 = bi * b + p ∧ p < b ∧ bi * b + p < n := by
  rw [batches_getD b hb] at hp ⊢
  simp only [List.length_take, List.length_drop, List.length_range] at hp
  refine ⟨?_, by omega, by omega⟩
  simp only [List.getD_eq_getElem?_getD, List.getElem?_take, List.getElem?_drop]
  rw [if_pos (by omega), List.getElem?_range (by omega)]
  rfl

/-! ### the reference greedy selection -/

theorem greedySpec_succ (obj : List Nat → Nat → Rat) (U : List Nat) (m : Nat) :
    greedySpec obj U (m + 1) =
      match firstArgmax (obj (greedySpec obj U m))
          (U.filter fun c => !((greedySpec obj U m).contains c)) with
      | none => greedySpec obj U m
      | some c => greedySpec obj U m ++ [c] := rfl

theorem greedySpec_prefix (obj : List Nat → Nat → Rat) (U : List Nat) (k m : Nat) (h : k ≤ m) :
    greedySpec obj U k <+: greedySpec obj U m := by
  induction m with
  | zero =>
    have : k = 0 := by omega
    subst this
    exact List.prefix_refl _
  | succ m ih =>
    by_cases hk : k = m + 1
    · subst hk; exact List.prefix_refl _
    · have := ih (by omega)
      rw [greedySpec_succ]
      split
      · exact this
      · exact this.trans (List.prefix_append _ _)

theorem greedySpec_facts (obj : List Nat → Nat → Rat) (U : List Nat) (hU : U.Nodup) (m : Nat)
    (hm : m ≤ U.length) :
    (greedySpec obj U m).Nodup ∧ (greedySpec obj U m).length = m ∧ ∀ c ∈ greedySpec obj U m, c ∈ U := by
  induction m with
  | zero => simp [greedySpec]
  | succ m ih =>
    obtain ⟨hnd, hlen, hsub⟩ := ih (by omega)
    rw [greedySpec_succ]
    cases hr : firstArgmax (obj (greedySpec obj U m))
        (U.filter fun c => !((greedySpec obj U m).contains c)) with
    | none =>
      exfalso
      have hnil := (firstArgmax_eq_none _ _).mp hr
      -- every case of the dataset would be selected already: impossible with fewer selections than cases
      have hsubU : U ⊆ greedySpec obj U m := by
        intro x hx
        by_contra hnot
        have : x ∈ U.filter fun c => !((greedySpec obj U m).contains c) := by
          simp [List.mem_filter, hx, hnot]
        rw [hnil] at this
        cases this
      have := (List.subperm_of_subset hU hsubU).length_le
      omega
    | some c =>
      have hmem := firstArgmax_mem _ _ _ hr
      simp only [List.mem_filter, Bool.not_eq_true', List.contains_eq_mem, decide_eq_false_iff_not] at hmem
      refine ⟨?_, by simp [hlen], ?_⟩
      · rw [List.nodup_append]
        refine ⟨hnd, by simp, ?_⟩
        intro a ha b hb
        simp only [List.mem_singleton] at hb
        subst hb
        intro hab
        subst hab
        exact hmem.2 ha
      · intro x hx
        rcases List.mem_append.mp hx with h | h
        · exact hsub x h
        · simp only [List.mem_singleton] at h
          subst h
          exact hmem.1

/-- **greedy arg-max**: while fewer than `n` cases are selected, the next selected case is the FIRST
    maximiser, in dataset order, of the objective over the cases not selected yet -/
theorem greedySpec_argmax (obj : List Nat → Nat → Rat) (n m : Nat) (hm : m < n) :
    ∃ c, greedySpec obj (List.range n) (m + 1) = greedySpec obj (List.range n) m ++ [c] ∧
      c < n ∧ c ∉ greedySpec obj (List.range n) m ∧
      (∀ y, y < n → y ∉ greedySpec obj (List.range n) m →
        obj (greedySpec obj (List.range n) m) y ≤ obj (greedySpec obj (List.range n) m) c) ∧
      (∀ y, y < c → y ∉ greedySpec obj (List.range n) m →
        obj (greedySpec obj (List.range n) m) y < obj (greedySpec obj (List.range n) m) c) := by
  obtain ⟨hnd, hlen, hsub⟩ := greedySpec_facts obj (List.range n) List.nodup_range m (by simp; omega)
  have hfacts := greedySpec_facts obj (List.range n) List.nodup_range (m + 1) (by simp; omega)
  rw [greedySpec_succ] at hfacts ⊢
  cases hr : firstArgmax (obj (greedySpec obj (List.range n) m))
      ((List.range n).filter fun c => !((greedySpec obj (List.range n) m).contains c)) with
  | none =>
    rw [hr] at hfacts
    simp only at hfacts
    omega
  | some c =>
    refine ⟨c, rfl, ?_⟩
    have hmem := firstArgmax_mem _ _ _ hr
    simp only [List.mem_filter, List.mem_range, Bool.not_eq_true', List.contains_eq_mem,
      decide_eq_false_iff_not] at hmem
    refine ⟨hmem.1, hmem.2, ?_, ?_⟩
    · intro y hy hys
      apply firstArgmax_max _ _ _ hr
      simp [List.mem_filter, hy, hys]
    · intro y hy hys
      obtain ⟨l1, l2, hl, h1, _⟩ := firstArgmax_spec _ _ _ hr
      have hsorted : ((List.range n).filter fun c => !((greedySpec obj (List.range n) m).contains c)).Pairwise (· < ·) :=
        List.Pairwise.filter _ List.pairwise_lt_range
      rw [hl] at hsorted
      have hyin : y ∈ l1 ++ c :: l2 := by
        rw [← hl]
        simp only [List.mem_filter, List.mem_range, Bool.not_eq_true', List.contains_eq_mem,
          decide_eq_false_iff_not]
        exact ⟨by omega, hys⟩
      rcases List.mem_append.mp hyin with h | h
      · exact h1 y h
      · exfalso
        rw [List.pairwise_append] at hsorted
        obtain ⟨_, hcl2, _⟩ := hsorted
        rcases List.mem_cons.mp h with h | h
        · omega
        · have := (List.pairwise_cons.mp hcl2).1 y h
          omega

theorem specRunFrom_fst (meth : Method) (inv : List (List Rat) → List (List Rat)) (eps : Rat) (K : Kern)
    (U : List Nat) (w0 : List Rat) (k : Nat) :
    (specRunFrom meth inv eps K U ([], w0) k).1 = greedySpec (objSpec meth inv eps K U) U k := by
  induction k with
  | zero => rfl
  | succ k ih =>
    show (specStep meth inv eps K U (specRunFrom meth inv eps K U ([], w0) k)).1 = _
    rw [greedySpec_succ, ← ih]
    unfold specStep
    cases firstArgmax (objSpec meth inv eps K U (specRunFrom meth inv eps K U ([], w0) k).1)
      (List.filter (fun c => !(specRunFrom meth inv eps K U ([], w0) k).1.contains c) U) <;> rfl

/-! ### weights -/

theorem relu_nonneg (a : Rat) : 0 ≤ relu a := by
  unfold relu; split <;> linarith

theorem pgWeightsOf_nonneg (inv : List (List Rat) → List (List Rat)) (eps : Rat) (km : List (List Rat))
    (mu : List Rat) : ∀ v ∈ pgWeightsOf inv eps km mu, 0 ≤ v := by
  intro v hv
  unfold pgWeightsOf at hv
  rw [List.mem_map] at hv
  obtain ⟨a, _, rfl⟩ := hv
  exact relu_nonneg a

theorem weightsStep_nonneg (meth : Method) (inv : List (List Rat) → List (List Rat)) (eps : Rat) (K : Kern)
    (U S : List Nat) (x : Nat) (w : List Rat) (hw : ∀ v ∈ w, 0 ≤ v) :
    ∀ v ∈ weightsStep meth inv eps K U S x w, 0 ≤ v := by
  intro v hv
  unfold weightsStep at hv
  cases meth with
  | mmd =>
    simp only at hv
    rcases List.mem_append.mp hv with h | h
    · rw [List.mem_replicate] at h; rw [h.2]; norm_num
    · exact hw v (List.mem_of_mem_drop h)
  | greedy =>
    simp only at hv
    rcases List.mem_append.mp hv with h | h
    · exact pgWeightsOf_nonneg _ _ _ _ v h
    · exact hw v (List.mem_of_mem_drop h)
  | dash =>
    simp only at hv
    unfold dashUpdate at hv
    simp only at hv
    split at hv
    · rcases List.mem_or_eq_of_mem_set hv with h | h
      · exact hw v h
      · rw [h]
    · rcases List.mem_append.mp hv with h | h
      · exact pgWeightsOf_nonneg _ _ _ _ v h
      · exact hw v (List.mem_of_mem_drop h)

theorem specRunFrom_nonneg (meth : Method) (inv : List (List Rat) → List (List Rat)) (eps : Rat) (K : Kern)
    (U : List Nat) (st : List Nat × List Rat) (hw : ∀ v ∈ st.2, 0 ≤ v) (k : Nat) :
    ∀ v ∈ (specRunFrom meth inv eps K U st k).2, 0 ≤ v := by
  induction k with
  | zero => exact hw
  | succ k ih =>
    show ∀ v ∈ (specStep meth inv eps K U (specRunFrom meth inv eps K U st k)).2, 0 ≤ v
    unfold specStep
    split
    · exact ih
    · exact weightsStep_nonneg _ _ _ _ _ _ _ _ ih

theorem sumQ_nonneg (w : List Rat) (hw : ∀ v ∈ w, 0 ≤ v) : 0 ≤ sumQ w := by
  induction w with
  | nil => simp
  | cons a w ih =>
    rw [sumQ_cons]
    have := hw a (by simp)
    have := ih (fun v hv => hw v (by simp [hv]))
    linarith

theorem sumQ_map_div (w : List Rat) (s : Rat) : sumQ (w.map fun v => v / s) = sumQ w / s := by
  induction w with
  | nil => simp
  | cons a w ih => simp [ih]; ring

/-- normalised non-negative weights lie on the simplex (when the normalisation is defined) -/
theorem normalize_simplex (w w' : List Rat) (hw : ∀ v ∈ w, 0 ≤ v) (h : normalize w = some w') :
    (∀ v ∈ w', 0 ≤ v) ∧ sumQ w' = 1 ∧ w'.length = w.length := by
  unfold normalize at h
  simp only at h
  split at h
  · cases h
  · rename_i hs
    simp only [Option.some.injEq] at h
    subst h
    have hpos : 0 < sumQ w := lt_of_le_of_ne (sumQ_nonneg w hw) (Ne.symm hs)
    refine ⟨?_, ?_, by simp⟩
    · intro v hv
      rw [List.mem_map] at hv
      obtain ⟨a, ha, rfl⟩ := hv
      exact div_nonneg (hw a ha) (le_of_lt hpos)
    · rw [sumQ_map_div, div_self hs]

/-! ### local explanations -/

theorem insertBy_perm (x : Rat × Nat) (l : List (Rat × Nat)) : (insertBy x l).Perm (x :: l) := by
  induction l with
  | nil => exact List.Perm.refl _
  | cons y ys ih =>
    unfold insertBy
    split
    · exact List.Perm.refl _
    · exact (List.Perm.cons y ih).trans (List.Perm.swap x y ys)

theorem insertBy_sorted (x : Rat × Nat) (l : List (Rat × Nat)) (h : l.Pairwise (fun a b => a.1 ≤ b.1)) :
    (insertBy x l).Pairwise (fun a b => a.1 ≤ b.1) := by
  induction l with
  | nil => simp [insertBy]
  | cons y ys ih =>
    unfold insertBy
    rw [List.pairwise_cons] at h
    split
    · rename_i hxy
      rw [List.pairwise_cons]
      refine ⟨?_, List.pairwise_cons.mpr h⟩
      intro z hz
      rcases List.mem_cons.mp hz with rfl | hz
      · exact le_of_lt hxy
      · exact le_trans (le_of_lt hxy) (h.1 z hz)
    · rename_i hxy
      rw [List.pairwise_cons]
      refine ⟨?_, ih h.2⟩
      intro z hz
      have := (insertBy_perm x ys).mem_iff.mp hz
      rcases List.mem_cons.mp this with rfl | hz'
      · exact not_lt.mp hxy
      · exact h.1 z hz'

theorem foldl_insertBy (l acc : List (Rat × Nat)) (hacc : acc.Pairwise (fun a b => a.1 ≤ b.1)) :
    (l.foldl (fun acc x => insertBy x acc) acc).Pairwise (fun a b => a.1 ≤ b.1) ∧
    (l.foldl (fun acc x => insertBy x acc) acc).Perm (l ++ acc) := by
  induction l generalizing acc with
  | nil => exact ⟨hacc, List.Perm.refl _⟩
  | cons x l ih =>
    obtain ⟨h1, h2⟩ := ih (insertBy x acc) (insertBy_sorted x acc hacc)
    refine ⟨h1, h2.trans ?_⟩
    have := (insertBy_perm x acc)
    exact ((List.Perm.append_left l this).trans (List.perm_middle)).trans (List.Perm.refl _)

/-- the `k` nearest: `kNearest` is the length-`k` prefix of a list that is sorted by distance and is a
    permutation of all `(distance, prototype position)` pairs -/
theorem kNearest_spec (dist : List Rat) (k : Nat) :
    ∃ full : List (Rat × Nat), full.Perm dist.zipIdx ∧ full.Pairwise (fun a b => a.1 ≤ b.1) ∧
      kNearest dist k = full.take k := by
  obtain ⟨h1, h2⟩ := foldl_insertBy dist.zipIdx [] List.Pairwise.nil
  exact ⟨_, by simpa using h2, h1, rfl⟩

/-! ### documented weights of MMD-critic and ProtoGreedy -/

theorem specRunFrom_len (meth : Method) (inv : List (List Rat) → List (List Rat)) (eps : Rat) (K : Kern)
    (n : Nat) (w0 : List Rat) (k : Nat) (hk : k ≤ n) :
    (specRunFrom meth inv eps K (List.range n) ([], w0) k).1.length = k := by
  rw [specRunFrom_fst]
  exact (greedySpec_facts _ _ List.nodup_range k (by simpa using hk)).2.1

/-- one successful reference step, exposed -/
theorem specRunFrom_succ (meth : Method) (inv : List (List Rat) → List (List Rat)) (eps : Rat) (K : Kern)
    (n : Nat) (w0 : List Rat) (k : Nat) (hk : k + 1 ≤ n) :
    ∃ x, specRunFrom meth inv eps K (List.range n) ([], w0) (k + 1)
      = ((specRunFrom meth inv eps K (List.range n) ([], w0) k).1 ++ [x],
         weightsStep meth inv eps K (List.range n) (specRunFrom meth inv eps K (List.range n) ([], w0) k).1 x
           (specRunFrom meth inv eps K (List.range n) ([], w0) k).2) := by
  have h0 := specRunFrom_len meth inv eps K n w0 k (by omega)
  have h1 := specRunFrom_len meth inv eps K n w0 (k + 1) hk
  have hstep : specRunFrom meth inv eps K (List.range n) ([], w0) (k + 1)
      = specStep meth inv eps K (List.range n) (specRunFrom meth inv eps K (List.range n) ([], w0) k) := rfl
  rw [hstep] at h1 ⊢
  unfold specStep at h1 ⊢
  cases hr : firstArgmax (objSpec meth inv eps K (List.range n) (specRunFrom meth inv eps K (List.range n) ([], w0) k).1)
      (List.filter (fun c => !(specRunFrom meth inv eps K (List.range n) ([], w0) k).1.contains c) (List.range n)) with
  | none =>
    rw [hr] at h1
    simp only at h1
    omega
  | some x => exact ⟨x, rfl⟩

theorem drop_succ_replicate_append (k j : Nat) (a b : Rat) :
    List.drop (k + 1) (List.replicate k a ++ List.replicate j b) = List.replicate (j - 1) b := by
  rw [List.drop_append, List.drop_eq_nil_of_le (by simp), List.nil_append, List.length_replicate,
    List.drop_replicate]
  congr 1
  omega

theorem mmd_weights_run (inv : List (List Rat) → List (List Rat)) (eps : Rat) (K : Kern) (n m k : Nat)
    (hk : k ≤ m) (hm : m ≤ n) :
    (specRunFrom .mmd inv eps K (List.range n) ([], List.replicate m 0) k).2
      = List.replicate k 1 ++ List.replicate (m - k) 0 := by
  induction k with
  | zero => simp [specRunFrom]
  | succ k ih =>
    obtain ⟨x, hx⟩ := specRunFrom_succ .mmd inv eps K n (List.replicate m 0) k (by omega)
    have hS := specRunFrom_len .mmd inv eps K n (List.replicate m 0) k (by omega)
    rw [hx]
    simp only [weightsStep]
    rw [List.length_append, hS, ih (by omega)]
    simp only [List.length_cons, List.length_nil, zero_add]
    rw [drop_succ_replicate_append]
    congr 2

theorem addEps_length (eps : Rat) (M : List (List Rat)) : (addEps eps M).length = M.length := by
  simp [addEps]

theorem pg_weights_run (inv : List (List Rat) → List (List Rat)) (hinv : ∀ M, (inv M).length = M.length)
    (eps : Rat) (K : Kern) (n m k : Nat) (hk : k ≤ m) (hm : m ≤ n) :
    (specRunFrom .greedy inv eps K (List.range n) ([], List.replicate m 0) k).2.length = m ∧
    (0 < k → (specRunFrom .greedy inv eps K (List.range n) ([], List.replicate m 0) k).2
      = pgSpecWeights inv eps K (List.range n) (specRunFrom .greedy inv eps K (List.range n) ([], List.replicate m 0) k).1
        ++ List.replicate (m - k) 0) := by
  have hlenW : ∀ T : List Nat, (pgSpecWeights inv eps K (List.range n) T).length = T.length := by
    intro T
    simp [pgSpecWeights, pgWeightsOf, matVec, hinv, addEps_length, subMat]
  induction k with
  | zero => simp [specRunFrom]
  | succ k ih =>
    obtain ⟨ih1, ih2⟩ := ih (by omega)
    obtain ⟨x, hx⟩ := specRunFrom_succ .greedy inv eps K n (List.replicate m 0) k (by omega)
    have hS := specRunFrom_len .greedy inv eps K n (List.replicate m 0) k (by omega)
    rw [hx]
    simp only [weightsStep]
    have hdrop : List.drop ((specRunFrom .greedy inv eps K (List.range n) ([], List.replicate m 0) k).1 ++ [x]).length
        (specRunFrom .greedy inv eps K (List.range n) ([], List.replicate m 0) k).2 = List.replicate (m - (k + 1)) 0 := by
      simp only [List.length_append, hS, List.length_cons, List.length_nil, zero_add]
      by_cases hk0 : k = 0
      · subst hk0
        simp [specRunFrom, List.drop_replicate]
      · rw [ih2 (by omega), List.drop_append, List.drop_eq_nil_of_le (by rw [hlenW, hS]; omega),
          List.nil_append, hlenW, hS, List.drop_replicate]
        congr 1
        omega
    rw [hdrop]
    refine ⟨?_, fun _ => rfl⟩
    rw [List.length_append, hlenW, List.length_append, hS, List.length_replicate]
    simp only [List.length_cons, List.length_nil]
    omega

end Xp.ProtoSel
