import XpModel.ReluNet
import XpProofs.Lemmas.Batching
import Mathlib.Data.List.Basic
import Mathlib.Tactic.Ring
import Mathlib.Tactic.Linarith
import Mathlib.Algebra.Order.Field.Rat

namespace Xp.Net

/-- the layer carries a ReLU that the override replaces -/
def IsReluUnit (l : Layer) : Prop := hasReluActivation l = true ∨ isRelu l = true

theorem relu_eq_ratMax (g : Rat) : relu g = ratMax g 0 := by
  unfold relu ratMax
  by_cases h : 0 ≤ g
  · by_cases h' : g ≤ 0
    · have : g = 0 := le_antisymm h' h
      simp [this]
    · simp [h, h']
  · have : g ≤ 0 := le_of_lt (not_le.mp h)
    simp [h, this]

theorem ruleVJP_eq_published (r : Rule) (z g : Rat) : ruleVJP r z g = published r z g := by
  cases r with
  | deconv => exact relu_eq_ratMax g
  | guided =>
    unfold ruleVJP published relu
    by_cases hz : 0 < z
    · by_cases hg : 0 < g
      · simp [hz, hg, le_of_lt hg]
      · have hg' : g ≤ 0 := not_lt.mp hg
        by_cases h0 : 0 ≤ g
        · have : g = 0 := le_antisymm hg' h0
          simp [this]
        · simp [hz, hg, h0]
    · simp [hz]
  | openRelu => rfl

theorem kerasRelu_slope_zero (maxv : Option Rat) (thr z : Rat) :
    kerasRelu maxv thr 0 z =
      (match maxv with
       | none => (if thr < z then z else 0)
       | some m => ratMin (ratMax (if thr < z then z else 0) 0) m) := by
  unfold kerasRelu
  cases maxv <;> simp

/-- the override does not change what a layer computes in the forward pass -/
theorem layerFwd_override (r : Rule) (l : Layer) (x : Vec) :
    layerFwd (overrideLayer r l) x = layerFwd l x := by
  cases l with
  | dense W b a => cases a <;> rfl
  | activation a => cases a <;> rfl
  | reluLayer m t s => rfl
  | policyLayer r' m t s => rfl

theorem layerVJP_override (r : Rule) (l : Layer) (x g : Vec) :
    layerVJP (overrideLayer r l) x g = specLayerVJP r l x g := by
  have hfun : (fun z gg => ruleVJP r z gg) = published r := by
    funext z gg; exact ruleVJP_eq_published r z gg
  cases l with
  | dense W b a =>
    cases a with
    | relu => simp only [overrideLayer, layerVJP, specLayerVJP, actVJP, hfun]
    | linear => rfl
    | policy r' => rfl
    | other f f' => rfl
  | activation a =>
    cases a with
    | relu => simp only [overrideLayer, layerVJP, specLayerVJP, actVJP, hfun]
    | linear => rfl
    | policy r' => rfl
    | other f f' => rfl
  | reluLayer m t s => simp only [overrideLayer, layerVJP, specLayerVJP, hfun]
  | policyLayer r' m t s => rfl

theorem forward_cons (l : Layer) (ls : List Layer) (x : Vec) :
    forward (l :: ls) x = forward ls (layerFwd l x) := rfl

theorem specBackward_cons (r : Rule) (l : Layer) (ls : List Layer) (x up : Vec) :
    specBackward r (l :: ls) x up = specLayerVJP r l x (specBackward r ls (layerFwd l x) up) := rfl

end Xp.Net
