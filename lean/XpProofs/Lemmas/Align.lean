/-
  Helper lemmas for C05: row-major index arithmetic, discrete intermediate values, sums.
-/
import XpModel.Align
import XpProofs.Lemmas.Vec
import Mathlib.Tactic.Ring
import Mathlib.Tactic.Linarith
import Mathlib.Order.Monotone.Basic

namespace Xp

theorem rm_divmod (i j wd : Nat) (hj : j < wd) : (i * wd + j) / wd = i ∧ (i * wd + j) % wd = j := by
  have hw : 0 < wd := by omega
  constructor
  · rw [Nat.add_comm, Nat.add_mul_div_right _ _ hw, Nat.div_eq_of_lt hj, Nat.zero_add]
  · rw [Nat.add_comm, Nat.add_mul_mod_self_right, Nat.mod_eq_of_lt hj]

theorem rm_lt (i j h wd : Nat) (hi : i < h) (hj : j < wd) : i * wd + j < h * wd := by
  have : (i + 1) * wd ≤ h * wd := Nat.mul_le_mul_right _ hi
  rw [Nat.add_mul] at this
  omega

theorem getD_range_map_ge (n : Nat) (g : Nat → Rat) (k : Nat) (hk : n ≤ k) :
    ((List.range n).map g).getD k 0 = 0 := by
  rw [List.getD_eq_getElem?_getD, List.getElem?_eq_none (by simp; omega)]; rfl

theorem getD_ge (x : List Rat) (k : Nat) (hk : x.length ≤ k) : x.getD k 0 = 0 := by
  rw [List.getD_eq_getElem?_getD, List.getElem?_eq_none hk]; rfl

/-- discrete intermediate value: a sequence of naturals that never jumps by more than one takes
    every value between its first and its `n`-th term -/
theorem nat_ivt (F : Nat → Nat) (hstep : ∀ i, F (i + 1) ≤ F i + 1) (n r : Nat) (h0 : F 0 ≤ r) (hn : r ≤ F n) :
    ∃ i, i ≤ n ∧ F i = r := by
  induction n with
  | zero => exact ⟨0, le_refl _, by omega⟩
  | succ n ih =>
    by_cases h : r ≤ F n
    · obtain ⟨i, hi, e⟩ := ih h; exact ⟨i, by omega, e⟩
    · exact ⟨n + 1, le_refl _, by have := hstep n; omega⟩

theorem sumQ_map_eq_zero {μ : Type} (l : List μ) (g : μ → Rat) (h : ∀ a ∈ l, g a = 0) : sumQ (l.map g) = 0 := by
  induction l with
  | nil => rfl
  | cons a l ih =>
    simp only [List.map_cons, sumQ_cons, h a (List.mem_cons_self ..), zero_add]
    exact ih fun b hb => h b (List.mem_cons_of_mem _ hb)

/-- with non-negative terms, if every term selected by `p` is zero or also selected by `p'`,
    the `p`-sum is at most the `p'`-sum -/
theorem sumQ_filter_le {μ : Type} (l : List μ) (p p' : μ → Bool) (d : μ → Rat)
    (h0 : ∀ m ∈ l, 0 ≤ d m) (himp : ∀ m ∈ l, p m = true → d m = 0 ∨ p' m = true) :
    sumQ ((l.filter p).map d) ≤ sumQ ((l.filter p').map d) := by
  induction l with
  | nil => simp
  | cons m l ih =>
    have ih' := ih (fun a ha => h0 a (List.mem_cons_of_mem _ ha)) (fun a ha => himp a (List.mem_cons_of_mem _ ha))
    have hm0 := h0 m (List.mem_cons_self ..)
    have hmi := himp m (List.mem_cons_self ..)
    by_cases hp : p m = true <;> by_cases hp' : p' m = true
    · simp only [List.filter_cons, hp, hp', if_true, List.map_cons, sumQ_cons]; linarith
    · rcases hmi hp with h | h
      · have hp2 : p' m = false := by simpa using hp'
        simp only [List.filter_cons, hp, hp2, if_true, List.map_cons, sumQ_cons, h, zero_add]
        simpa using ih'
      · exact absurd h hp'
    · have hp2 : p m = false := by simpa using hp
      simp only [List.filter_cons, hp2, hp', if_true, List.map_cons, sumQ_cons]
      have : sumQ (List.map d (List.filter p l)) ≤ sumQ (List.map d (List.filter p' l)) := ih'
      simp; linarith
    · have hp2 : p m = false := by simpa using hp
      have hp3 : p' m = false := by simpa using hp'
      simp only [List.filter_cons, hp2, hp3]; simpa using ih'

end Xp
