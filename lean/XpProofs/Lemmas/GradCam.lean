import XpModel.GradCam
import XpProofs.Lemmas.Batching
import XpProofs.Lemmas.Vec
import XpProofs.Lemmas.ReluNet
import Mathlib.Data.List.Basic
import Mathlib.Tactic.Ring
import Mathlib.Tactic.Linarith
import Mathlib.Tactic.FieldSimp
import Mathlib.Algebra.Order.Field.Rat

namespace Xp.GradCam
open Xp

theorem range_succ_map (n : Nat) (f : Nat → Rat) :
    (List.range (n + 1)).map f = f 0 :: (List.range n).map (fun k => f (k + 1)) := by
  rw [List.range_succ_eq_map, List.map_cons, List.map_map]
  rfl

/-- `Σ zipWith (*) a w` as an indexed sum over the positions of `w` (missing entries of `a` count as 0) -/
theorem sumQ_zipWith_getD (a w : List Rat) :
    sumQ (List.zipWith (· * ·) a w) = sumQ ((List.range w.length).map fun k => w.getD k 0 * a.getD k 0) := by
  induction w generalizing a with
  | nil => simp
  | cons y w ih =>
    cases a with
    | nil =>
      simp only [List.zipWith_nil_left, sumQ_nil, List.length_cons]
      have : ((List.range (w.length + 1)).map fun k => (y :: w).getD k 0 * ([] : List Rat).getD k 0)
           = (List.range (w.length + 1)).map fun _ => (0 : Rat) := by
        apply List.map_congr_left; intro k _; simp
      rw [this]
      generalize (List.range (w.length + 1)) = l
      induction l with
      | nil => rfl
      | cons _ _ ihl => rw [List.map_cons, sumQ_cons, ← ihl, add_zero]
    | cons x a =>
      simp only [List.zipWith_cons_cons, sumQ_cons, List.length_cons]
      rw [range_succ_map, sumQ_cons, ih a]
      simp only [List.getD_cons_zero, List.getD_cons_succ]
      ring

theorem meanQ_chan (M : Maps) (k : Nat) (h : Rat → Rat) :
    meanQ ((chan M k).map h) = sumQ (M.map fun row => h (row.getD k 0)) / (M.length : Rat) := by
  unfold meanQ chan
  simp [List.map_map, Function.comp_def]

theorem meanQ_chan' (M : Maps) (k : Nat) :
    meanQ (chan M k) = sumQ (M.map fun row => row.getD k 0) / (M.length : Rat) := by
  have := meanQ_chan M k id
  simpa using this

theorem ppDen_eq (eps avg g : Rat) :
    (g * g) / ppDen eps avg g = specAlpha eps avg g := by
  unfold ppDen specAlpha
  have e : 2 * (g * g) + g * g * g * avg = 2 * g ^ 2 + g ^ 3 * avg := by ring
  simp only [e]
  by_cases h : 2 * g ^ 2 + g ^ 3 * avg = 0
  · simp [h]; ring_nf
  · simp [h]; ring_nf

theorem ratMax_zero_comm (a : Rat) : ratMax a 0 = ratMax 0 a := by
  unfold ratMax
  by_cases h : a ≤ 0
  · by_cases h' : (0 : Rat) ≤ a
    · have : a = 0 := le_antisymm h h'
      simp [this]
    · simp [h, h']
  · have : (0 : Rat) ≤ a := le_of_lt (not_le.mp h)
    simp [h, this]

theorem sumQ_nonneg (l : List Rat) (h : ∀ v ∈ l, 0 ≤ v) : 0 ≤ sumQ l := by
  induction l with
  | nil => exact le_refl _
  | cons x xs ih =>
    rw [sumQ_cons]
    exact add_nonneg (h x List.mem_cons_self) (ih fun v hv => h v (List.mem_cons_of_mem _ hv))

/-- scanning the indices `n-1, …, 0` and taking the first hit yields the LAST index satisfying `p` -/
theorem find_range_reverse (n : Nat) (p : Nat → Bool) :
    (∀ i, (List.range n).reverse.find? p = some i ↔
        (i < n ∧ p i = true ∧ ∀ j, i < j → j < n → p j = false)) ∧
    ((List.range n).reverse.find? p = none ↔ ∀ j, j < n → p j = false) := by
  induction n with
  | zero => simp
  | succ n ih =>
    rw [List.range_succ, List.reverse_append, List.reverse_singleton, List.singleton_append,
      List.find?_cons]
    by_cases hp : p n = true
    · simp only [hp]
      constructor
      · intro i
        constructor
        · intro h
          have : n = i := by simpa using h
          subst this
          exact ⟨Nat.lt_succ_self _, hp, fun j h1 h2 => by omega⟩
        · rintro ⟨hi, _, hlast⟩
          by_cases hin : i = n
          · simp [hin]
          · have := hlast n (by omega) (Nat.lt_succ_self _)
            rw [hp] at this; cases this
      · constructor
        · intro h; cases h
        · intro h
          have := h n (Nat.lt_succ_self _)
          rw [hp] at this; cases this
    · have hp' : p n = false := by simpa using hp
      simp only [hp']
      constructor
      · intro i
        rw [ih.1 i]
        constructor
        · rintro ⟨hi, hpi, hlast⟩
          refine ⟨by omega, hpi, fun j h1 h2 => ?_⟩
          by_cases hjn : j = n
          · rw [hjn]; exact hp'
          · exact hlast j h1 (by omega)
        · rintro ⟨hi, hpi, hlast⟩
          have hin : i ≠ n := fun e => by rw [e, hp'] at hpi; cases hpi
          exact ⟨by omega, hpi, fun j h1 h2 => hlast j h1 (by omega)⟩
      · rw [ih.2]
        constructor
        · intro h j hj
          by_cases hjn : j = n
          · rw [hjn]; exact hp'
          · exact h j (by omega)
        · intro h j hj
          exact h j (by omega)

end Xp.GradCam
