import XpModel.Lime
import XpProofs.Lemmas.Batching
import XpProofs.Lemmas.Vec
import Mathlib.Data.List.Basic
import Mathlib.Tactic.Ring
import Mathlib.Tactic.Linarith
import Mathlib.Algebra.Order.Field.Rat

namespace Xp.Lime

theorem getD_mem_or_default (s : List Rat) (j : Nat) : s.getD j 0 ∈ s ∨ s.getD j 0 = 0 := by
  by_cases h : j < s.length
  · left
    rw [List.getD_eq_getElem?_getD, List.getElem?_eq_getElem h]
    exact List.getElem_mem h
  · right
    rw [List.getD_eq_getElem?_getD, List.getElem?_eq_none (by omega)]
    rfl

theorem binary_getD (s : List Rat) (hs : Binary s) (j : Nat) : s.getD j 0 = 0 ∨ s.getD j 0 = 1 := by
  rcases getD_mem_or_default s j with h | h
  · exact hs _ h
  · exact Or.inl h

theorem getMask_getD (mapping : List Nat) (s : List Rat) (k : Nat) (hk : k < mapping.length) :
    (getMask mapping s).getD k 0 = s.getD (mapping.getD k 0) 0 := by
  unfold getMask
  simp [List.getD_eq_getElem?_getD, List.getElem?_map, List.getElem?_eq_getElem hk]

/-- `x·m + (1−m)·ref` with the gathered mask of a BINARY sample is the masked input of the Spec -/
theorem applyMask_eq_spec (cfg : Cfg) (x s : List Rat)
    (hshape : x.length = cfg.mapping.length * cfg.c) (hs : Binary s) :
    applyMask cfg x (getMask cfg.mapping s) = maskedSpec cfg x s := by
  unfold applyMask maskedSpec
  apply List.map_congr_left
  intro i hi
  have hi' : i < cfg.mapping.length * cfg.c := hshape ▸ List.mem_range.mp hi
  have hk : i / cfg.c < cfg.mapping.length := Nat.div_lt_of_lt_mul (by rw [Nat.mul_comm]; exact hi')
  rw [getMask_getD _ _ _ hk]
  rcases binary_getD s hs (cfg.mapping.getD (i / cfg.c) 0) with h | h
  · rw [h]; simp
  · rw [h]; simp

/-- the chunk loop, for any chunk size `b ≥ 1` and a per-sample score: targets, weights and the
    concatenated queries are per-sample maps over the drawn samples, in order -/
theorem fitData_eq_map (cfg : Cfg) (f : List Rat → Rat) (score : List (List Rat) → List Rat)
    (hscore : ∀ zs, score zs = zs.map f) (κ : Rat → Rat) (width : Rat)
    (d2 : List Rat → List Rat → Rat) (b : Nat) (hb : 0 < b) (x : List Rat) (samples : List (List Rat)) :
    let g := fun s => applyMask cfg x (getMask cfg.mapping s)
    let d := fitData cfg score (expKernel κ width d2) b x samples
    d.design = samples ∧ d.targets = samples.map (fun s => f (g s)) ∧
      d.weights = samples.map (fun s => weightOf κ width (d2 x (g s))) ∧
      d.queries.flatten = samples.map g := by
  intro g d
  have hscore' : score = List.map f := funext hscore
  subst hscore'
  refine ⟨rfl, ?_, ?_, ?_⟩
  · show (((batches b samples).map (evalChunk cfg (List.map f) (expKernel κ width d2) x)).map
        fun r => r.2.1).flatten = _
    rw [List.map_map]
    have : ((fun r : List (List Rat) × List Rat × List Rat => r.2.1) ∘
        evalChunk cfg (List.map f) (expKernel κ width d2) x) = List.map (fun s => f (g s)) := by
      funext ch; simp [evalChunk, g, List.map_map, Function.comp_def]
    rw [this, map_flatten', flatten_batches b hb]
  · show (((batches b samples).map (evalChunk cfg (List.map f) (expKernel κ width d2) x)).map
        fun r => r.2.2).flatten = _
    rw [List.map_map]
    have : ((fun r : List (List Rat) × List Rat × List Rat => r.2.2) ∘
        evalChunk cfg (List.map f) (expKernel κ width d2) x)
        = List.map (fun s => weightOf κ width (d2 x (g s))) := by
      funext ch; simp [evalChunk, expKernel, g, List.map_map, Function.comp_def]
    rw [this, map_flatten', flatten_batches b hb]
  · show (((batches b samples).map (evalChunk cfg (List.map f) (expKernel κ width d2) x)).map
        fun r => r.1).flatten = _
    rw [List.map_map]
    have : ((fun r : List (List Rat) × List Rat × List Rat => r.1) ∘
        evalChunk cfg (List.map f) (expKernel κ width d2) x) = List.map g := by
      funext ch; simp [evalChunk, g, List.map_map, Function.comp_def]
    rw [this, map_flatten', flatten_batches b hb]

end Xp.Lime
