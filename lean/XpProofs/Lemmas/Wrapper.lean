import XpModel.Wrapper
import XpProofs.Lemmas.Batching
import XpProofs.Lemmas.Vec
import Mathlib.Algebra.BigOperators.Group.Finset.Sigma
import Mathlib.Algebra.Order.Field.Rat
import Mathlib.Tactic.Ring
import Mathlib.Tactic.Linarith

namespace Xp.Wrap
open Xp

open Finset in
/-- inner product of two 4-D tensors over the box `d0 × d1 × d2 × d3` -/
def inner4 (d0 d1 d2 d3 : Nat) (s t : MIdx → Rat) : Rat :=
  ∑ i ∈ range d0, ∑ j ∈ range d1, ∑ k ∈ range d2, ∑ l ∈ range d3, s [i, j, k, l] * t [i, j, k, l]

/-- the `for … break` loop of `_has_conv_layers` finds a Conv2d iff there is one -/
theorem hasConvLayers_iff (kinds : List Bool) : hasConvLayers kinds = true ↔ ∃ m ∈ kinds, m = true := by
  induction kinds with
  | nil => simp [hasConvLayers]
  | cons m ms ih =>
    unfold hasConvLayers
    by_cases hm : m = true
    · simp [hm]
    · simp [hm, ih]

theorem rowScore_eq_dot (row y : List Rat) (h : row.length = y.length) : rowScore row y = dot row y := by
  unfold rowScore dot
  match row, y, h with
  | [], [], _ => rfl
  | [p], [t], _ => simp
  | p :: q :: r, t :: u :: v, _ => rfl

theorem scoresOf_eq_zipWith (rows ys : List (List Rat)) (h : rows.length = ys.length) :
    scoresOf rows ys = List.zipWith rowScore rows ys := by
  match rows, ys, h with
  | [], [], _ => rfl
  | [r], [y], _ => rfl
  | r :: r' :: rs, y :: ys, _ => rfl

/-- pairwise equal lengths -/
def Aligned (rows ys : List (List Rat)) : Prop :=
  rows.length = ys.length ∧ ∀ p ∈ List.zip rows ys, p.1.length = p.2.length

theorem zipWith_rowScore_eq_dot (rows ys : List (List Rat)) (h : Aligned rows ys) :
    List.zipWith rowScore rows ys = List.zipWith dot rows ys := by
  induction rows generalizing ys with
  | nil => simp
  | cons r rs ih =>
    cases ys with
    | nil => simp
    | cons y ys =>
      obtain ⟨h1, h2⟩ := h
      simp only [List.zipWith_cons_cons]
      have hry : r.length = y.length := h2 (r, y) (by simp)
      have hrest : Aligned rs ys :=
        ⟨by simpa using h1, fun p hp => h2 p (by simp only [List.zip_cons_cons, List.mem_cons]; exact Or.inr hp)⟩
      rw [rowScore_eq_dot r y hry, ih ys hrest]

/-- a per-sample operator on the elements satisfying `P` gives the same result for every batch size -/
theorem batched_eq_map_of_forall {α β : Type} (P : α → Prop) (op : List α → List β) (f : α → β)
    (hop : ∀ xs, (∀ x ∈ xs, P x) → op xs = xs.map f) (bs : Option Nat) (hb : ∀ b, bs = some b → 0 < b)
    (xs : List α) (hP : ∀ x ∈ xs, P x) : batched op bs xs = xs.map f := by
  cases bs with
  | none => exact hop xs hP
  | some b =>
    have hb' := hb b rfl
    show ((batches b xs).map op).flatten = xs.map f
    have hsub : ∀ c ∈ batches b xs, ∀ x ∈ c, P x := by
      intro c hc x hx
      apply hP
      rw [← flatten_batches b hb' xs]
      exact List.mem_flatten.mpr ⟨c, hc, hx⟩
    have : (batches b xs).map op = (batches b xs).map (List.map f) :=
      List.map_congr_left (fun c hc => hop c (hsub c hc))
    rw [this, map_flatten', flatten_batches b hb']

theorem zipWith_map_pairs {γ : Type} (g : List Rat → γ) (h : γ → List Rat → Rat)
    (chunk : List (List Rat × List Rat)) :
    List.zipWith h ((chunk.map (·.1)).map g) (chunk.map (·.2)) = chunk.map fun xy => h (g xy.1) xy.2 := by
  induction chunk with
  | nil => rfl
  | cons c cs ih => simp only [List.map_cons, List.zipWith_cons_cons, ih]


/-- a multi-index lies inside a shape -/
def Valid : List Nat → MIdx → Prop
  | [], [] => True
  | d :: ds, i :: is => i < d ∧ Valid ds is
  | _, _ => False

theorem length_allIdx (shape : List Nat) : (allIdx shape).length = size shape := by
  induction shape with
  | nil => rfl
  | cons d ds ih =>
    simp only [allIdx, size, List.length_flatMap, List.length_map, ih]
    simp

/-- block `i` of a `flatMap` over `range d` with blocks of equal length `m` starts at offset `i·m` -/
theorem flatMap_range_get {α : Type} (d m : Nat) (g : Nat → List α) (hg : ∀ i, (g i).length = m)
    (i j : Nat) (hi : i < d) (hj : j < m) :
    ((List.range d).flatMap g)[i * m + j]? = (g i)[j]? := by
  induction d with
  | zero => omega
  | succ d ih =>
    rw [List.range_succ, List.flatMap_append]
    have hlen : ((List.range d).flatMap g).length = d * m := by
      clear ih hi
      induction d with
      | zero => simp
      | succ d ihd => rw [List.range_succ, List.flatMap_append, List.length_append, ihd]; simp [hg]; ring
    by_cases hid : i < d
    · have : i * m + j < d * m := by
        have : (i + 1) * m ≤ d * m := Nat.mul_le_mul_right m hid
        nlinarith
      rw [List.getElem?_append_left (by rw [hlen]; exact this)]
      exact ih hid
    · have hid' : i = d := by omega
      subst hid'
      rw [List.getElem?_append_right (by rw [hlen]; omega), hlen]
      simp

/-- `allIdx` enumerates the multi-indices in row-major order -/
theorem allIdx_ravel (shape : List Nat) (idx : MIdx) (h : Valid shape idx) :
    (allIdx shape)[ravel shape idx]? = some idx ∧ ravel shape idx < size shape := by
  induction shape generalizing idx with
  | nil =>
    cases idx with
    | nil => exact ⟨rfl, by simp [ravel, size]⟩
    | cons _ _ => exact absurd h (by simp [Valid])
  | cons d ds ih =>
    cases idx with
    | nil => exact absurd h (by simp [Valid])
    | cons i is =>
      obtain ⟨hi, hrest⟩ := h
      obtain ⟨ih1, ih2⟩ := ih is hrest
      constructor
      · show ((List.range d).flatMap fun i => (allIdx ds).map (i :: ·))[i * size ds + ravel ds is]? = _
        rw [flatMap_range_get d (size ds) _ (by intro k; simp [length_allIdx]) i _ hi ih2]
        simp [ih1]
      · show i * size ds + ravel ds is < d * size ds
        have : (i + 1) * size ds ≤ d * size ds := Nat.mul_le_mul_right _ hi
        nlinarith


end Xp.Wrap
