/-
  Helper lemmas for C08 / C20: replicated design, slices, sums over zipped lists, Option-valued
  divisions of the Sobol' estimators.
-/
import XpModel.Sobol
import XpProofs.Lemmas.Vec
import XpProofs.Lemmas.Batching
import Mathlib.Data.List.Basic
import Mathlib.Tactic.Ring
import Mathlib.Tactic.FieldSimp
import Mathlib.Tactic.Linarith
import Mathlib.Tactic.Positivity
import Mathlib.Algebra.Order.Field.Rat

namespace Xp.Sobol
variable {α β : Type}

/-! ### replicated design -/

theorem replC_fold (A B : List (List Rat)) (d k : Nat) (hk : k ≤ d) :
    (List.range k).foldl (fun C i => C.modify i fun M => assignCol M i (colOf B i)) (List.replicate d A)
      = (List.range d).map (fun i => if i < k then assignCol A i (colOf B i) else A) := by
  induction k with
  | zero =>
    apply List.ext_getElem (by simp)
    intro i h1 h2; simp
  | succ k ih =>
    rw [List.range_succ, List.foldl_append, ih (by omega)]
    simp only [List.foldl_cons, List.foldl_nil]
    apply List.ext_getElem (by simp)
    intro i h1 h2
    rw [List.getElem_modify]
    simp only [List.getElem_map, List.getElem_range]
    by_cases hik : k = i
    · subst hik; simp
    · have h3 : (i < k + 1) = (i < k) := by apply propext; omega
      simp [hik, h3]

theorem assignCol_eq_specBlock (A B : List (List Rat)) (i : Nat) :
    assignCol A i (colOf B i) = specBlock A B i := by
  unfold assignCol colOf specBlock
  rw [List.zipWith_map_right]

theorem replC_eq (A B : List (List Rat)) (d : Nat) :
    replC A B d = (List.range d).map (specBlock A B) := by
  unfold replC
  rw [replC_fold A B d d (le_refl d)]
  apply List.map_congr_left
  intro i hi
  simp [List.mem_range.mp hi, assignCol_eq_specBlock]

theorem specBlock_length (A B : List (List Rat)) (i : Nat) (h : A.length = B.length) :
    (specBlock A B i).length = A.length := by
  simp [specBlock, h]

/-- element `i·n + a` of the concatenation of blocks of length `n` -/
theorem getElem?_flatten_uniform (L : List (List β)) (n : Nat) (hL : ∀ l ∈ L, l.length = n)
    (i a : Nat) (ha : a < n) : L.flatten[i * n + a]? = (L[i]?).bind (·[a]?) := by
  induction L generalizing i with
  | nil => simp
  | cons l L ih =>
    have hl : l.length = n := hL l (List.mem_cons_self ..)
    cases i with
    | zero =>
      simp only [List.flatten_cons, Nat.zero_mul, Nat.zero_add, List.getElem?_cons_zero, Option.bind_some]
      rw [List.getElem?_append_left (by omega)]
    | succ i =>
      simp only [List.flatten_cons, List.getElem?_cons_succ]
      rw [List.getElem?_append_right (by rw [hl, Nat.succ_mul]; omega)]
      have : (i + 1) * n + a - l.length = i * n + a := by rw [hl, Nat.succ_mul]; omega
      rw [this]
      exact ih (fun l' h' => hL l' (List.mem_cons_of_mem _ h')) i

/-- block `i` of the concatenation of blocks of length `n` -/
theorem drop_take_flatten_uniform (L : List (List β)) (n : Nat) (hL : ∀ l ∈ L, l.length = n)
    (i : Nat) (hi : i < L.length) :
    (L.flatten.take (n * i + n)).drop (n * i) = L[i] := by
  induction L generalizing i with
  | nil => simp at hi
  | cons l L ih =>
    have hl : l.length = n := hL l (List.mem_cons_self ..)
    cases i with
    | zero =>
      simp only [List.flatten_cons, Nat.mul_zero, Nat.zero_add, List.drop_zero, List.getElem_cons_zero]
      rw [List.take_append_of_le_length (by omega), List.take_of_length_le (by omega)]
    | succ i =>
      simp only [List.flatten_cons, List.getElem_cons_succ]
      have h1 : n * (i + 1) + n = l.length + (n * i + n) := by rw [hl]; ring
      have h2 : n * (i + 1) = l.length + n * i := by rw [hl]; ring
      rw [h1, h2, List.take_length_add_append, List.drop_length_add_append]
      exact ih (fun l' h' => hL l' (List.mem_cons_of_mem _ h')) i (by simpa using hi)

/-! ### Python slices with non-negative bounds -/

theorem pyIdx_nat (len k : Nat) : pyIdx len (k : Int) = min k len := by
  unfold pyIdx
  have : ¬ ((k : Int) < 0) := by omega
  simp [this]

theorem slice_nat (xs : List α) (lo hi : Nat) :
    slice xs (lo : Int) (hi : Int) = (xs.take hi).drop lo := by
  unfold slice
  rw [pyIdx_nat, pyIdx_nat]
  have h1 : xs.take (min hi xs.length) = xs.take hi := by
    by_cases h : hi ≤ xs.length
    · rw [Nat.min_eq_left h]
    · rw [Nat.min_eq_right (by omega), List.take_of_length_le (le_refl _), List.take_of_length_le (by omega)]
  rw [h1]
  by_cases h : lo ≤ xs.length
  · rw [Nat.min_eq_left h]
  · rw [Nat.min_eq_right (by omega)]
    rw [List.drop_of_length_le (by simp), List.drop_of_length_le (by simp; omega)]

/-! ### sums over zipped lists -/

theorem sumQ_zipWith_mul_left (k : Rat) (g : Rat → Rat → Rat) (a b : List Rat) :
    sumQ (List.zipWith (fun x y => k * g x y) a b) = k * sumQ (List.zipWith g a b) := by
  induction a generalizing b with
  | nil => simp
  | cons x a ih =>
    cases b with
    | nil => simp
    | cons y b => simp only [List.zipWith_cons_cons, sumQ_cons, ih]; ring

theorem sumQ_map_mul_left (k : Rat) (g : Rat → Rat) (a : List Rat) :
    sumQ (a.map fun x => k * g x) = k * sumQ (a.map g) := by
  induction a with
  | nil => simp
  | cons x a ih => simp only [List.map_cons, sumQ_cons, ih]; ring

theorem sumQ_map_add_const (k c : Rat) (a : List Rat) :
    sumQ (a.map fun x => k * x + c) = k * sumQ a + (a.length : Rat) * c := by
  induction a with
  | nil => simp
  | cons x a ih => simp only [List.map_cons, sumQ_cons, ih, List.length_cons]; push_cast; ring

theorem sumQ_zipWith_add_fun (f g : Rat → Rat) (a b : List Rat) (h : a.length = b.length) :
    sumQ (List.zipWith (fun x y => f x + g y) a b) = sumQ (a.map f) + sumQ (b.map g) := by
  induction a generalizing b with
  | nil => cases b with
    | nil => simp
    | cons y b => simp at h
  | cons x a ih =>
    cases b with
    | nil => simp at h
    | cons y b =>
      simp only [List.zipWith_cons_cons, sumQ_cons, List.map_cons, ih b (by simpa using h)]; ring

theorem sumQ_nonneg (a : List Rat) (h : ∀ x ∈ a, 0 ≤ x) : 0 ≤ sumQ a := by
  induction a with
  | nil => simp
  | cons x a ih =>
    simp only [sumQ_cons]
    have := h x (List.mem_cons_self ..)
    have := ih (fun y hy => h y (List.mem_cons_of_mem _ hy))
    linarith

theorem sq_nonneg' (x : Rat) : 0 ≤ sq x := by unfold sq; exact mul_self_nonneg x

theorem sumSqDiff_nonneg (a c : List Rat) : 0 ≤ sumSqDiff a c := by
  unfold sumSqDiff
  apply sumQ_nonneg
  intro x hx
  induction a generalizing c with
  | nil => simp at hx
  | cons y a ih =>
    cases c with
    | nil => simp at hx
    | cons z c =>
      simp only [List.zipWith_cons_cons, List.mem_cons] at hx
      rcases hx with rfl | hx
      · exact sq_nonneg' _
      · exact ih c hx

theorem sumSqDiff_self (a : List Rat) : sumSqDiff a a = 0 := by
  unfold sumSqDiff
  induction a with
  | nil => simp
  | cons x a ih => simp only [List.zipWith_cons_cons, sumQ_cons, ih]; simp [sq]

/-! ### Option-valued division -/

theorem qdiv_ne (a b : Rat) (h : b ≠ 0) : qdiv a b = some (a / b) := by simp [qdiv, h]
theorem qdiv_zero (a : Rat) : qdiv a 0 = none := by simp [qdiv]

theorem qdiv_some {a b r : Rat} (h : qdiv a b = some r) : b ≠ 0 ∧ r = a / b := by
  unfold qdiv at h
  by_cases hb : b = 0
  · simp [hb] at h
  · simp only [hb, if_false, Option.some.injEq] at h; exact ⟨hb, h.symm⟩

theorem qdiv_scale (k a b : Rat) (hk : k ≠ 0) : qdiv (k * a) (k * b) = qdiv a b := by
  unfold qdiv
  by_cases hb : b = 0
  · simp [hb]
  · have : k * b ≠ 0 := mul_ne_zero hk hb
    simp only [hb, this, if_false, Option.some.injEq]
    field_simp

theorem meanO_eq (xs : List Rat) (h : xs ≠ []) : meanO xs = some (meanQ xs) := by
  unfold meanO meanQ
  apply qdiv_ne
  have := List.length_pos_iff.mpr h
  exact_mod_cast (by omega : xs.length ≠ 0)

theorem meanO_nil : meanO [] = none := by simp [meanO, qdiv]

theorem sampleVar_eq (ya : List Rat) (h : 2 ≤ ya.length) : sampleVar ya = some (varQ ya) := by
  have hne : ya ≠ [] := by intro e; subst e; simp at h
  unfold sampleVar varQ
  rw [meanO_eq ya hne]
  simp only [Option.bind_eq_bind, Option.bind_some]
  apply qdiv_ne
  have : (2 : Rat) ≤ (ya.length : Rat) := by exact_mod_cast h
  linarith

/-- `sampleVar` is defined only for at least two outputs, and then it is the non-negative `varQ` -/
theorem sampleVar_some {ya : List Rat} {v : Rat} (h : sampleVar ya = some v) :
    2 ≤ ya.length ∧ v = varQ ya ∧ 0 ≤ v := by
  by_cases h2 : 2 ≤ ya.length
  · rw [sampleVar_eq ya h2] at h
    have hv : v = varQ ya := by simpa using h.symm
    refine ⟨h2, hv, ?_⟩
    rw [hv]; unfold varQ
    apply div_nonneg
    · apply sumQ_nonneg; intro x hx
      obtain ⟨y, _, rfl⟩ := List.mem_map.mp hx
      exact sq_nonneg' _
    · have : (2 : Rat) ≤ (ya.length : Rat) := by exact_mod_cast h2
      linarith
  · exfalso
    have : ya.length = 0 ∨ ya.length = 1 := by omega
    rcases this with h0 | h1
    · have : ya = [] := List.length_eq_zero_iff.mp h0
      subst this
      simp [sampleVar, meanO_nil] at h
    · unfold sampleVar at h
      have hne : ya ≠ [] := by intro e; subst e; simp at h1
      rw [meanO_eq ya hne] at h
      simp only [Option.bind_eq_bind, Option.bind_some, h1] at h
      simp [qdiv] at h

end Xp.Sobol
