import XpModel.Basic
import Mathlib.Data.List.Basic
import Mathlib.Tactic.Ring
import Mathlib.Tactic.Linarith
import Mathlib.Algebra.Order.Field.Rat

namespace Xp
variable {α β : Type}

theorem flatten_batches (b : Nat) (hb : 0 < b) (xs : List α) : (batches b xs).flatten = xs := by
  generalize hn : xs.length = n
  induction n using Nat.strong_induction_on generalizing xs with
  | _ n ih =>
    unfold batches
    split
    · rename_i h; rcases h with h | h
      · omega
      · simp [h]
    · rename_i h
      have hne : xs ≠ [] := fun e => h (Or.inr e)
      have hpos := List.length_pos_iff.mpr hne
      simp only [List.flatten_cons]
      rw [ih (xs.drop b).length (by simp only [List.length_drop]; omega) _ rfl, List.take_append_drop]

theorem map_flatten' (f : α → β) (l : List (List α)) : (l.map (List.map f)).flatten = l.flatten.map f := by
  induction l with
  | nil => rfl
  | cons a l ih => simp only [List.map_cons, List.flatten_cons, List.map_append, ih]

/-- a per-sample operator gives the same result for every batch size -/
theorem batched_eq_map (op : List α → List β) (f : α → β) (hop : ∀ xs, op xs = xs.map f)
    (bs : Option Nat) (hb : ∀ b, bs = some b → 0 < b) (xs : List α) : batched op bs xs = xs.map f := by
  have hop' : op = List.map f := funext hop
  subst hop'
  cases bs with
  | none => rfl
  | some b =>
    show ((batches b xs).map (List.map f)).flatten = xs.map f
    rw [map_flatten', flatten_batches b (hb b rfl)]

/-- every chunk handed on has between 1 and `b` elements -/
theorem batch_len_le (b : Nat) (xs : List α) : ∀ c ∈ batches b xs, c.length ≤ b ∧ 0 < c.length := by
  generalize hn : xs.length = n
  induction n using Nat.strong_induction_on generalizing xs with
  | _ n ih =>
    unfold batches
    split
    · simp
    · rename_i h
      have hne : xs ≠ [] := fun e => h (Or.inr e)
      have hpos := List.length_pos_iff.mpr hne
      have hb : b ≠ 0 := fun e => h (Or.inl e)
      intro c hc
      rcases List.mem_cons.mp hc with rfl | hc
      · simp only [List.length_take]; omega
      · exact ih (xs.drop b).length (by simp only [List.length_drop]; omega) _ rfl c hc

theorem chunkSizes_sum (pbs nb : Nat) (h : 0 < pbs) : (chunkSizes pbs nb).sum = nb := by
  induction nb using Nat.strong_induction_on with
  | _ nb ih =>
    unfold chunkSizes
    split
    · rename_i h'; rcases h' with h' | h' <;> simp_all <;> omega
    · rename_i h'
      simp only [List.sum_cons]
      have : nb - min pbs nb < nb := by omega
      rw [ih _ this]; omega

theorem chunkSizes_le (pbs nb : Nat) : ∀ c ∈ chunkSizes pbs nb, 0 < c ∧ c ≤ pbs := by
  induction nb using Nat.strong_induction_on with
  | _ nb ih =>
    unfold chunkSizes
    split
    · simp
    · rename_i h'
      intro c hc
      rcases List.mem_cons.mp hc with rfl | hc
      · omega
      · exact ih (nb - min pbs nb) (by omega) c hc

end Xp
