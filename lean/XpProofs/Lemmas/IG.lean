/-
  Lemmas for C04: trapezoid pairs, reduction of one input batch of IntegratedGradients.explain to
  a per-input computation, sums over the trapezoid nodes (completeness).
-/
import XpModel.IG
import XpProofs.Lemmas.GradCommon
import Mathlib.Algebra.BigOperators.Intervals
import Mathlib.Algebra.BigOperators.Field
import Mathlib.Tactic.FieldSimp

namespace Xp.IG

/-- `gradients[:, :-1]` zipped with `gradients[:, 1:]`: the `steps − 1` consecutive pairs -/
theorem trapz_pairs (steps : Nat) (G : Nat → Vec) :
    ((List.range steps).map G).dropLast.zip ((List.range steps).map G).tail
      = (List.range (steps - 1)).map fun j => (G j, G (j + 1)) := by
  cases steps with
  | zero => simp
  | succ m =>
    have h1 : ((List.range (m + 1)).map G).dropLast = (List.range m).map G := by
      rw [List.range_succ, List.map_append, List.map_singleton, List.dropLast_concat]
    have h2 : ((List.range (m + 1)).map G).tail = (List.range m).map fun j => G (j + 1) := by
      rw [List.range_succ_eq_map, List.map_cons, List.tail_cons, List.map_map]; rfl
    rw [h1, h2, Nat.add_sub_cancel, List.zip_map']

theorem trapzVec_range (D steps : Nat) (G : Nat → Vec) :
    trapzVec D ((List.range steps).map G) = (List.range D).map fun d =>
      sumQ ((List.range (steps - 1)).map fun j => (G j).getD d 0 + (G (j + 1)).getD d 0)
        / ((steps - 1 : Nat) : Rat) * (1 / 2) := by
  unfold trapzVec
  simp only [trapz_pairs, List.map_map, List.length_map, List.length_range]
  rfl

/-- one input batch = per-input computation -/
theorem batchRun_eq (op : GradOp) (g : Vec → Vec → Vec) (hop : PerSample op g) (steps : Nat) (b : Rat)
    (bsz : Nat) (hb : 0 < bsz) (hs : 0 < steps) (batch : List (Vec × Vec)) :
    batchRun op steps b bsz batch = batch.map fun xy =>
      vmul (xy.1.map (· - b))
        (trapzVec xy.1.length ((List.range steps).map fun j => g (interp steps b xy.1 j) xy.2)) := by
  unfold batchRun
  simp only
  rw [batched_eq_map op (fun py => g py.1 py.2) (fun l => hop l) (some bsz)
      (by intro b' h; cases h; exact hb)]
  unfold pathPoints
  rw [List.flatMap_map]
  rw [zip_flatMap_repeatEach steps (fun xy : Vec × Vec => (List.range steps).map (interp steps b xy.1))
      (fun xy => xy.2) batch (by intro a _; simp)]
  rw [List.map_flatMap]
  unfold regroup
  rw [batches_flatMap_len steps hs _ batch (by intro a _; simp)]
  rw [zipWith_map_right_self]
  apply List.map_congr_left; intro xy _
  simp only [List.map_map]
  rfl

/-! ### finite sums -/

open Finset in
theorem sumQ_range (n : Nat) (f : Nat → Rat) : sumQ ((List.range n).map f) = ∑ i ∈ Finset.range n, f i := by
  induction n with
  | zero => simp
  | succ n ih =>
    rw [List.range_succ, List.map_append, sumQ_append, ih, Finset.sum_range_succ]
    simp

open Finset in
theorem sum_odd (m : ℕ) : ∑ j ∈ range m, ((2 * j + 1 : ℕ) : ℚ) = (m : ℚ) ^ 2 := by
  induction m with
  | zero => simp
  | succ n ih => rw [sum_range_succ, ih]; push_cast; ring

open Finset in
/-- `Σ_{j<m} (j² + (j+1)²) = m (2m² + 1) / 3` -/
theorem sum_sq_pairs (m : ℕ) :
    ∑ j ∈ range m, (((j : ℚ)) ^ 2 + ((j : ℚ) + 1) ^ 2) = (m : ℚ) * (2 * (m : ℚ) ^ 2 + 1) / 3 := by
  induction m with
  | zero => simp
  | succ n ih => rw [sum_range_succ, ih]; push_cast; ring

end Xp.IG

namespace Xp.IG

/-- the spec with the node gradients written out -/
theorem specOne_flat (g : Vec → Vec → Vec) (steps : Nat) (b : Rat) (x y : Vec) :
    specOne g steps b x y = (List.range x.length).map fun d =>
      (x.getD d 0 - b) *
        (sumQ ((List.range (steps - 1)).map fun j =>
            (g (interp steps b x j) y).getD d 0 + (g (interp steps b x (j + 1)) y).getD d 0)
          / ((steps : Rat) - 1) / 2) := by
  unfold specOne
  apply List.map_congr_left; intro d _
  congr 3
  apply congrArg sumQ
  apply List.map_congr_left; intro j hj
  have hj' : j < steps - 1 := List.mem_range.mp hj
  have h1 : ((List.range steps).map fun j => g (interp steps b x j) y).getD j [] = g (interp steps b x j) y := by
    simp [List.getD_eq_getElem?_getD, (by omega : j < steps)]
  have h2 : ((List.range steps).map fun j => g (interp steps b x j) y).getD (j + 1) []
      = g (interp steps b x (j + 1)) y := by
    simp [List.getD_eq_getElem?_getD, (by omega : j + 1 < steps)]
  rw [h1, h2]

/-- directional derivative of the score along the path at node `j`: `⟨x − b, g(point_j)⟩`
    (= `φ'(α_j)` for `φ(t) = score(b + t (x − b))`, by the chain rule) -/
def dirDeriv (g : Vec → Vec → Vec) (steps : Nat) (b : Rat) (x y : Vec) (j : Nat) : Rat :=
  sumQ ((List.range x.length).map fun d => (x.getD d 0 - b) * (g (interp steps b x j) y).getD d 0)

end Xp.IG
