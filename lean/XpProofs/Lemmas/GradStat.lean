/-
  Lemmas for C01: the generated chunk arithmetic of GradientStatistic.explain, reduction of one
  input batch to a per-input computation, the online statistics.
-/
import XpModel.GradStat
import XpProofs.Lemmas.GradCommon
import Mathlib.Tactic.FieldSimp

namespace Xp.GS

/-! ### the while loop (generated `min(pbs, nb - tot)`) -/

theorem gsChunk_nat (pbs nb tot : Nat) :
    (Gen.gsChunk (pbs : Int) (nb : Int) (tot : Int)).toNat = min pbs (nb - tot) := by
  unfold Gen.gsChunk; omega

theorem chunksAux_flat (pbs nb : Nat) (hp : 0 < pbs) : ∀ fuel tot, nb - tot ≤ fuel →
    (chunksAux pbs nb fuel tot).flatMap (fun tc => (List.range tc.2).map (tc.1 + ·))
      = (List.range (nb - tot)).map (tot + ·) := by
  intro fuel
  induction fuel with
  | zero => intro tot h; have : nb - tot = 0 := by omega
            simp [chunksAux, this]
  | succ fuel ih =>
    intro tot h
    unfold chunksAux
    by_cases ht : tot < nb
    · simp only [ht, if_true, List.flatMap_cons, gsChunk_nat]
      have hc : 0 < min pbs (nb - tot) := by omega
      rw [ih (tot + min pbs (nb - tot)) (by omega)]
      have hsplit : nb - tot = min pbs (nb - tot) + (nb - (tot + min pbs (nb - tot))) := by omega
      conv_rhs => rw [hsplit, List.range_add, List.map_append, List.map_map]
      congr 1
      apply List.map_congr_left; intro k _; simp [Nat.add_assoc]
    · have : nb - tot = 0 := by omega
      simp [ht, this]

theorem chunks_flat (pbs nb : Nat) (hp : 0 < pbs) :
    (chunks pbs nb).flatMap (fun tc => (List.range tc.2).map (tc.1 + ·)) = List.range nb := by
  unfold chunks
  rw [chunksAux_flat pbs nb hp nb 0 (by omega)]
  simp

theorem chunksAux_pos (pbs nb : Nat) (hp : 0 < pbs) : ∀ fuel tot,
    ∀ tc ∈ chunksAux pbs nb fuel tot, 0 < tc.2 ∧ tc.2 ≤ pbs := by
  intro fuel
  induction fuel with
  | zero => intro tot tc h; simp [chunksAux] at h
  | succ fuel ih =>
    intro tot tc h
    unfold chunksAux at h
    by_cases ht : tot < nb
    · simp only [ht, if_true, List.mem_cons, gsChunk_nat] at h
      rcases h with rfl | h
      · simp only; omega
      · exact ih _ tc h
    · simp [ht] at h

theorem chunksAux_sizes (pbs nb : Nat) (hp : 0 < pbs) : ∀ fuel tot, nb - tot ≤ fuel →
    (chunksAux pbs nb fuel tot).map (·.2) = chunkSizes pbs (nb - tot) := by
  intro fuel
  induction fuel with
  | zero => intro tot h; have : nb - tot = 0 := by omega
            rw [this]; unfold chunkSizes; simp [chunksAux]
  | succ fuel ih =>
    intro tot h
    unfold chunksAux
    by_cases ht : tot < nb
    · simp only [ht, if_true, List.map_cons, gsChunk_nat]
      rw [ih _ (by omega)]
      conv_rhs => unfold chunkSizes
      have : ¬ (pbs = 0 ∨ nb - tot = 0) := by omega
      rw [dif_neg this]
      congr 2
      omega
    · have : nb - tot = 0 := by omega
      rw [this]; unfold chunkSizes; simp [ht]

/-! ### one loop iteration -/

/-- the groups of gradients seen by `_update_online_statistic` in the iteration `(tot, c)` -/
def groupsOf (g : Vec → Vec → Vec) (batch : List Item) (tc : Nat × Nat) : List (List Vec) :=
  batch.map fun it => (List.range tc.2).map fun k => g (it.pt (tc.1 + k)) it.y

theorem step_eq (op : GradOp) (g : Vec → Vec → Vec) (hop : PerSample op g) (D bsz : Nat) (hb : 0 < bsz)
    (batch : List Item) (st : St) (tc : Nat × Nat) (hc : 0 < tc.2) :
    step op D bsz batch st tc = st.update D tc.2 (groupsOf g batch tc) := by
  unfold step groupsOf
  simp only
  rw [batched_eq_map op (fun py => g py.1 py.2) (fun l => hop l) (some bsz)
      (by intro b h; cases h; exact hb)]
  unfold pertPoints
  rw [zip_flatMap_repeatEach tc.2 (fun it : Item => (List.range tc.2).map fun k => it.pt (tc.1 + k))
      (fun it => it.y) batch (by intro a _; simp)]
  rw [List.map_flatMap]
  unfold regroup
  rw [batches_flatMap_len tc.2 hc _ batch (by intro a _; simp)]
  congr 1
  apply List.map_congr_left; intro it _
  simp [List.map_map, Function.comp]

/-! ### fold over the chunks: batch state = per-input states -/

theorem update_maps (D : Nat) (batch : List Item) (Gt : Item → List Vec) (c0 c : Nat) (a a2 : Item → Vec) :
    St.update D ⟨c0, batch.map a, batch.map a2⟩ c (batch.map Gt)
      = ⟨c0 + c, batch.map (fun it => vadd (a it) (colSum D (Gt it))),
         batch.map (fun it => vadd (a2 it) (colSqSum D (Gt it)))⟩ := by
  unfold St.update
  simp only [List.map_map]
  rw [zipWith_map_map_self, zipWith_map_map_self]
  rfl

theorem fold_update (D : Nat) (batch : List Item) (G : Item → (Nat × Nat) → List Vec)
    (L : List (Nat × Nat)) (c0 : Nat) (a a2 : Item → Vec) :
    L.foldl (fun st tc => St.update D st tc.2 (batch.map fun it => G it tc)) ⟨c0, batch.map a, batch.map a2⟩
      = ⟨c0 + (L.map (·.2)).sum,
         batch.map fun it => L.foldl (fun acc tc => vadd acc (colSum D (G it tc))) (a it),
         batch.map fun it => L.foldl (fun acc tc => vadd acc (colSqSum D (G it tc))) (a2 it)⟩ := by
  induction L generalizing c0 a a2 with
  | nil => simp
  | cons tc L ih =>
    simp only [List.foldl_cons, List.map_cons, List.sum_cons]
    rw [update_maps, ih]
    simp [Nat.add_assoc]

/-- per input: accumulating the column sums chunk by chunk = column sums over all `nb` draws -/
theorem item_fold (D pbs nb : Nat) (hp : 0 < pbs) (h : Nat → Nat → Rat) (Gt : (Nat × Nat) → List Vec)
    (col : Nat → List Vec → Vec)
    (hcol : ∀ tc, col D (Gt tc) = (List.range D).map fun d => sumQ (((List.range tc.2).map (tc.1 + ·)).map (h d))) :
    (chunks pbs nb).foldl (fun acc tc => vadd acc (col D (Gt tc))) (vzero D)
      = (List.range D).map fun d => sumQ ((List.range nb).map (h d)) := by
  have := foldl_vadd_chunks D h ((chunks pbs nb).map fun tc => (List.range tc.2).map (tc.1 + ·)) (vzero D)
    (vzero_length D)
  rw [List.foldl_map] at this
  simp only [hcol]
  rw [this]
  apply List.map_congr_left; intro d _
  rw [vzero_getD, zero_add, ← List.flatMap_def, chunks_flat pbs nb hp]

/-! ### the statistics -/

theorem sumQ_map_add (l : List Rat) (f g : Rat → Rat) :
    sumQ (l.map fun a => f a + g a) = sumQ (l.map f) + sumQ (l.map g) := by
  induction l with
  | nil => simp
  | cons a l ih => simp [ih]; ring

theorem sumQ_map_mul_left (l : List Rat) (c : Rat) (f : Rat → Rat) :
    sumQ (l.map fun a => c * f a) = c * sumQ (l.map f) := by
  induction l with
  | nil => simp
  | cons a l ih => simp [ih]; ring

theorem sumQ_map_const (l : List Rat) (c : Rat) : sumQ (l.map fun _ => c) = (l.length : Rat) * c := by
  induction l with
  | nil => simp
  | cons a l ih => simp only [List.map_cons, sumQ_cons, List.length_cons, ih]; push_cast; ring

/-- `Σ (a − m)² = Σ a² − 2 m Σ a + n m²` -/
theorem sumQ_sq_dev (l : List Rat) (m : Rat) :
    sumQ (l.map fun a => (a - m) * (a - m))
      = sumQ (l.map fun a => a * a) - 2 * m * sumQ l + (l.length : Rat) * (m * m) := by
  induction l with
  | nil => simp
  | cons a l ih => simp [ih]; ring

/-- the VarGrad identity: `n/(n−1) · (Σa²/n − (Σa/n)²) = Σ (a − ā)² / (n − 1)` -/
theorem var_identity (l : List Rat) (n : Nat) (hn : 2 ≤ n) (hl : l.length = n) :
    ((n : Rat) / ((n : Rat) - 1)) * (sumQ (l.map fun a => a * a) / (n : Rat) - (sumQ l / (n : Rat)) * (sumQ l / (n : Rat)))
      = sumQ (l.map fun a => (a - meanQ l) * (a - meanQ l)) / ((n : Rat) - 1) := by
  have h2 : (2 : Rat) ≤ (n : Rat) := by exact_mod_cast hn
  have hn0 : (n : Rat) ≠ 0 := by linarith
  have hn1 : (n : Rat) - 1 ≠ 0 := by linarith
  rw [sumQ_sq_dev, meanQ, hl]
  field_simp
  ring

/-- the spec with the gradients written out per coordinate -/
theorem specOne_flat (g : Vec → Vec → Vec) (k : Kind) (D nb : Nat) (it : Item) :
    specOne g k D nb it = (List.range D).map fun d =>
      let col := (List.range nb).map fun j => (g (it.pt j) it.y).getD d 0
      match k with
      | .smooth => meanQ col
      | .square => meanQ (col.map fun a => a * a)
      | .var => sumQ (col.map fun a => (a - meanQ col) * (a - meanQ col)) / ((nb : Rat) - 1) := by
  unfold specOne
  apply List.map_congr_left; intro d _
  have hcol : ((List.range nb).map fun j => g (it.pt j) it.y).map (fun v => v.getD d 0)
      = (List.range nb).map fun j => (g (it.pt j) it.y).getD d 0 := by
    rw [List.map_map]; rfl
  cases k <;> simp only [hcol]

end Xp.GS
