import XpModel.LinReg
import XpProofs.Lemmas.Vec
import Mathlib.Algebra.BigOperators.Field
import Mathlib.Algebra.Order.BigOperators.Ring.Finset
import Mathlib.Algebra.Order.Field.Rat
import Mathlib.Tactic.Ring
import Mathlib.Tactic.Linarith
import Mathlib.Tactic.Positivity

open Finset BigOperators
namespace Xp.LinReg

/-- residual of sample `s` for the coefficient vector `b` over `m` columns -/
def res (m : ℕ) (X : ℕ → ℕ → ℚ) (y : ℕ → ℚ) (b : ℕ → ℚ) (s : ℕ) : ℚ :=
  y s - ∑ j ∈ range m, b j * X s j

/-- penalised weighted least squares: `n` samples, `m` columns, diagonal penalty `p`
    (ridge with unpenalised intercept: last column constant 1, `p = α` except `p_last = 0`) -/
def ploss (n m : ℕ) (w : ℕ → ℚ) (X : ℕ → ℕ → ℚ) (y : ℕ → ℚ) (p : ℕ → ℚ) (b : ℕ → ℚ) : ℚ :=
  ∑ s ∈ range n, w s * res m X y b s ^ 2 + ∑ j ∈ range m, p j * b j ^ 2

/-- gradient form of the normal equations `(XᵀWX + diag p) b = XᵀW y` -/
def NormalEq (n m : ℕ) (w : ℕ → ℚ) (X : ℕ → ℕ → ℚ) (y : ℕ → ℚ) (p : ℕ → ℚ) (b : ℕ → ℚ) : Prop :=
  ∀ k ∈ range m, ∑ s ∈ range n, w s * res m X y b s * X s k = p k * b k

theorem ploss_decomp (n m : ℕ) (w : ℕ → ℚ) (X : ℕ → ℕ → ℚ) (y p b : ℕ → ℚ)
    (hne : NormalEq n m w X y p b) (b' : ℕ → ℚ) :
    ploss n m w X y p b' = ploss n m w X y p b
      + (∑ s ∈ range n, w s * (∑ j ∈ range m, (b' j - b j) * X s j) ^ 2
         + ∑ j ∈ range m, p j * (b' j - b j) ^ 2) := by
  have hres : ∀ s, res m X y b' s = res m X y b s - ∑ j ∈ range m, (b' j - b j) * X s j := by
    intro s
    unfold res
    have : ∑ j ∈ range m, b' j * X s j
        = ∑ j ∈ range m, b j * X s j + ∑ j ∈ range m, (b' j - b j) * X s j := by
      rw [← sum_add_distrib]; apply sum_congr rfl; intro j _; ring
    rw [this]; ring
  have hcross : ∑ s ∈ range n, w s * res m X y b s * (∑ j ∈ range m, (b' j - b j) * X s j)
      = ∑ j ∈ range m, (b' j - b j) * (p j * b j) := by
    calc ∑ s ∈ range n, w s * res m X y b s * (∑ j ∈ range m, (b' j - b j) * X s j)
        = ∑ s ∈ range n, ∑ j ∈ range m, (b' j - b j) * (w s * res m X y b s * X s j) := by
          apply sum_congr rfl; intro s _; rw [mul_sum]; apply sum_congr rfl; intro j _; ring
      _ = ∑ j ∈ range m, ∑ s ∈ range n, (b' j - b j) * (w s * res m X y b s * X s j) := sum_comm
      _ = ∑ j ∈ range m, (b' j - b j) * (p j * b j) := by
          apply sum_congr rfl; intro j hj; rw [← mul_sum, hne j hj]
  have h1 : ∑ s ∈ range n, w s * res m X y b' s ^ 2
      = ∑ s ∈ range n, w s * res m X y b s ^ 2
        - 2 * ∑ s ∈ range n, w s * res m X y b s * (∑ j ∈ range m, (b' j - b j) * X s j)
        + ∑ s ∈ range n, w s * (∑ j ∈ range m, (b' j - b j) * X s j) ^ 2 := by
    rw [mul_sum, ← sum_sub_distrib, ← sum_add_distrib]
    apply sum_congr rfl; intro s _; rw [hres s]; ring
  have h2 : ∑ j ∈ range m, p j * b' j ^ 2
      = ∑ j ∈ range m, p j * b j ^ 2 + 2 * ∑ j ∈ range m, (b' j - b j) * (p j * b j)
        + ∑ j ∈ range m, p j * (b' j - b j) ^ 2 := by
    rw [mul_sum, ← sum_add_distrib, ← sum_add_distrib]
    apply sum_congr rfl; intro j _; ring
  unfold ploss
  rw [h1, h2, hcross]; ring

/-- a solution of the normal equations minimises the penalised weighted loss -/
theorem ploss_minimiser (n m : ℕ) (w : ℕ → ℚ) (X : ℕ → ℕ → ℚ) (y p b : ℕ → ℚ)
    (hw : ∀ s, 0 ≤ w s) (hp : ∀ j, 0 ≤ p j) (hne : NormalEq n m w X y p b) (b' : ℕ → ℚ) :
    ploss n m w X y p b ≤ ploss n m w X y p b' := by
  rw [ploss_decomp n m w X y p b hne b']
  have h1 : 0 ≤ ∑ s ∈ range n, w s * (∑ j ∈ range m, (b' j - b j) * X s j) ^ 2 :=
    sum_nonneg fun s _ => mul_nonneg (hw s) (sq_nonneg _)
  have h2 : 0 ≤ ∑ j ∈ range m, p j * (b' j - b j) ^ 2 :=
    sum_nonneg fun j _ => mul_nonneg (hp j) (sq_nonneg _)
  linarith

/-- matrix form `(XᵀWX + diag p) b = XᵀW y`, row by row, gives the gradient form -/
theorem normalEq_of_matrix (n m : ℕ) (w : ℕ → ℚ) (X : ℕ → ℕ → ℚ) (y p b : ℕ → ℚ)
    (h : ∀ k ∈ range m,
      ∑ j ∈ range m, ((∑ s ∈ range n, w s * X s k * X s j) + (if k = j then p k else 0)) * b j
        = ∑ s ∈ range n, w s * X s k * y s) :
    NormalEq n m w X y p b := by
  intro k hk
  have hk' := h k hk
  have hdiag : ∑ j ∈ range m, (if k = j then p k else 0) * b j = p k * b k := by
    rw [sum_eq_single k]
    · simp
    · intro j _ hjk; simp [Ne.symm hjk]
    · intro hnk; exact absurd hk hnk
  have hsplit : ∑ j ∈ range m, ((∑ s ∈ range n, w s * X s k * X s j) + (if k = j then p k else 0)) * b j
      = ∑ j ∈ range m, (∑ s ∈ range n, w s * X s k * X s j) * b j + p k * b k := by
    rw [← hdiag, ← sum_add_distrib]; apply sum_congr rfl; intro j _; ring
  have hsw : ∑ j ∈ range m, (∑ s ∈ range n, w s * X s k * X s j) * b j
      = ∑ s ∈ range n, w s * X s k * ∑ j ∈ range m, b j * X s j := by
    calc ∑ j ∈ range m, (∑ s ∈ range n, w s * X s k * X s j) * b j
        = ∑ j ∈ range m, ∑ s ∈ range n, w s * X s k * (b j * X s j) := by
          apply sum_congr rfl; intro j _; rw [sum_mul]; apply sum_congr rfl; intro s _; ring
      _ = ∑ s ∈ range n, ∑ j ∈ range m, w s * X s k * (b j * X s j) := sum_comm
      _ = _ := by apply sum_congr rfl; intro s _; rw [mul_sum]
  have : ∑ s ∈ range n, w s * res m X y b s * X s k
      = ∑ s ∈ range n, w s * X s k * y s - ∑ s ∈ range n, w s * X s k * ∑ j ∈ range m, b j * X s j := by
    rw [← sum_sub_distrib]; apply sum_congr rfl; intro s _; unfold res; ring
  rw [this, ← hsw]
  linarith [hsplit, hk']

/-- full column rank of the `n × m` design -/
def FullRank (n m : ℕ) (X : ℕ → ℕ → ℚ) : Prop :=
  ∀ v : ℕ → ℚ, (∀ s ∈ range n, ∑ j ∈ range m, v j * X s j = 0) → ∀ j ∈ range m, v j = 0

/-- exactness: on exactly linear data, any minimiser of the (unpenalised) weighted loss with
    positive weights is the generating coefficient vector -/
theorem ols_exact_range (n m : ℕ) (w : ℕ → ℚ) (hw : ∀ s ∈ range n, 0 < w s) (X : ℕ → ℕ → ℚ)
    (β y : ℕ → ℚ) (hy : ∀ s ∈ range n, y s = ∑ j ∈ range m, β j * X s j)
    (hr : FullRank n m X) (b : ℕ → ℚ)
    (hmin : ∀ b', ploss n m w X y (fun _ => 0) b ≤ ploss n m w X y (fun _ => 0) b') :
    ∀ j ∈ range m, b j = β j := by
  have h0 : ploss n m w X y (fun _ => 0) β = 0 := by
    unfold ploss
    have : ∑ s ∈ range n, w s * res m X y β s ^ 2 = 0 := by
      apply sum_eq_zero; intro s hs; unfold res; rw [hy s hs]; ring
    rw [this]; simp
  have hnn : ∀ s ∈ range n, 0 ≤ w s * res m X y b s ^ 2 :=
    fun s hs => mul_nonneg (hw s hs).le (sq_nonneg _)
  have hz : ∑ s ∈ range n, w s * res m X y b s ^ 2 = 0 := by
    have hle := h0 ▸ hmin β
    unfold ploss at hle
    simp only [zero_mul, sum_const_zero, add_zero] at hle
    exact le_antisymm hle (sum_nonneg hnn)
  have hres : ∀ s ∈ range n, res m X y b s = 0 := by
    intro s hs
    have := (sum_eq_zero_iff_of_nonneg hnn).mp hz s hs
    rcases mul_eq_zero.mp this with h | h
    · exact absurd h (hw s hs).ne'
    · exact pow_eq_zero_iff two_ne_zero |>.mp h
  have hlin : ∀ s ∈ range n, ∑ j ∈ range m, (b j - β j) * X s j = 0 := by
    intro s hs
    have h1 := hres s hs
    unfold res at h1
    rw [hy s hs] at h1
    have : ∑ j ∈ range m, (b j - β j) * X s j
        = ∑ j ∈ range m, b j * X s j - ∑ j ∈ range m, β j * X s j := by
      rw [← sum_sub_distrib]; apply sum_congr rfl; intro j _; ring
    rw [this]; linarith
  intro j hj
  have := hr (fun j => b j - β j) hlin j hj
  linarith

theorem ploss_congr (n m : ℕ) (w : ℕ → ℚ) (X : ℕ → ℕ → ℚ) (y p b b' : ℕ → ℚ)
    (h : ∀ j ∈ range m, b j = b' j) : ploss n m w X y p b = ploss n m w X y p b' := by
  unfold ploss res
  congr 1
  · apply sum_congr rfl; intro s _
    congr 3
    apply sum_congr rfl; intro j hj; rw [h j hj]
  · apply sum_congr rfl; intro j hj; rw [h j hj]

/-! ### bridge to the executable list model -/

theorem sumQ_range_map (n : ℕ) (g : ℕ → ℚ) :
    sumQ ((List.range n).map g) = ∑ i ∈ range n, g i := by
  induction n with
  | zero => simp
  | succ n ih =>
    rw [List.range_succ, List.map_append, sumQ_append, ih, sum_range_succ]
    simp

theorem dot_eq_sum (r v : List ℚ) :
    dot r v = ∑ j ∈ range r.length, r.getD j 0 * v.getD j 0 := by
  unfold dot
  induction r generalizing v with
  | nil => simp
  | cons a r ih =>
    cases v with
    | nil =>
      simp only [List.zipWith_nil_right, sumQ_nil]
      symm; apply sum_eq_zero; intro j _; simp
    | cons c v =>
      simp only [List.zipWith_cons_cons, sumQ_cons, List.length_cons]
      rw [sum_range_succ', ih v]
      simp only [List.getD_cons_succ, List.getD_cons_zero]
      ring

/-- the index-function view of the list data handed to `wlsFit` -/
def Xf (F : ℕ) (Z : List (List ℚ)) (s j : ℕ) : ℚ := aug F (Z.getD s []) j
def vf (v : List ℚ) (s : ℕ) : ℚ := v.getD s 0
def pf (alpha : ℚ) (F : ℕ) (j : ℕ) : ℚ := if j < F then alpha else 0

theorem solveChecked_sound (A : List (List ℚ)) (b v : List ℚ) (h : solveChecked A b = some v) :
    matVec A v = b := by
  unfold solveChecked at h
  split at h
  · exact absurd h (by simp)
  · split at h
    · rename_i hv; cases h; exact hv
    · exact absurd h (by simp)

theorem getD_map_range (m : ℕ) (g : ℕ → ℚ) (k : ℕ) (hk : k < m) :
    ((List.range m).map g).getD k 0 = g k := by
  simp [List.getD_eq_getElem?_getD, hk]

/-- what `wlsFit` returns satisfies the normal equations of the documented objective -/
theorem wlsFit_normalEq (alpha : ℚ) (F : ℕ) (Z : List (List ℚ)) (y w bc : List ℚ)
    (h : wlsFit alpha F Z y w = some bc) :
    NormalEq Z.length (F + 1) (vf w) (Xf F Z) (vf y) (pf alpha F) (vf bc) := by
  have hmv := solveChecked_sound _ _ _ h
  apply normalEq_of_matrix
  intro k hk
  have hk' : k < F + 1 := mem_range.mp hk
  have hrow : (matVec (normalMatrix alpha F Z w) bc).getD k 0 = (normalRhs F Z w y).getD k 0 := by
    rw [hmv]
  unfold matVec normalMatrix at hrow
  rw [List.map_map] at hrow
  unfold normalRhs at hrow
  rw [getD_map_range _ _ k hk', getD_map_range _ _ k hk'] at hrow
  simp only [Function.comp] at hrow
  rw [dot_eq_sum, List.length_map, List.length_range, sumQ_range_map] at hrow
  simp only [vf, Xf, pf]
  rw [← hrow]
  apply sum_congr rfl
  intro j hj
  rw [getD_map_range _ _ j (mem_range.mp hj), sumQ_range_map]
  congr 1
  congr 1
  by_cases hkj : k = j
  · simp [hkj]
  · simp [hkj]

theorem loss_eq_ploss (alpha : ℚ) (F : ℕ) (Z : List (List ℚ)) (y w bc : List ℚ) :
    loss alpha F Z y w bc
      = ploss Z.length (F + 1) (vf w) (Xf F Z) (vf y) (pf alpha F) (vf bc) := by
  unfold loss ploss
  rw [sumQ_range_map, sumQ_range_map, sum_range_succ]
  have h1 : ∑ j ∈ range F, pf alpha F j * vf bc j ^ 2 = alpha * ∑ j ∈ range F, bc.getD j 0 * bc.getD j 0 := by
    rw [mul_sum]; apply sum_congr rfl; intro j hj
    unfold pf vf; rw [if_pos (mem_range.mp hj)]; ring
  have h2 : pf alpha F F * vf bc F ^ 2 = 0 := by unfold pf; simp
  rw [h1, h2, add_zero]
  congr 1
  apply sum_congr rfl; intro s _
  unfold res vf Xf
  rw [sumQ_range_map]; ring

/-- **the exact solver returns a minimiser**: whatever `wlsFit` returns (the driver's answer)
    minimises `Σ w_s (y_s − ⟪β,z_s⟫ − c)² + alpha ‖β‖²` over all `(β, c)` -/
theorem wlsFit_is_minimiser (alpha : ℚ) (halpha : 0 ≤ alpha) (F : ℕ) (Z : List (List ℚ))
    (y w bc : List ℚ) (hw : ∀ v ∈ w, 0 ≤ v) (h : wlsFit alpha F Z y w = some bc) (bc' : List ℚ) :
    loss alpha F Z y w bc ≤ loss alpha F Z y w bc' := by
  rw [loss_eq_ploss, loss_eq_ploss]
  apply ploss_minimiser _ _ _ _ _ _ _ _ _ (wlsFit_normalEq alpha F Z y w bc h)
  · intro s
    unfold vf
    by_cases hs : s < w.length
    · rw [List.getD_eq_getElem?_getD, List.getElem?_eq_getElem hs]; exact hw _ (List.getElem_mem hs)
    · rw [List.getD_eq_getElem?_getD, List.getElem?_eq_none (by omega)]; exact le_refl _
  · intro j; unfold pf; split <;> [exact halpha; exact le_refl _]

end Xp.LinReg
