/-
  Lemmas for the filtered searches: masked keys behave like padding, every case of the dataset is
  reachable by `dataset_gather`.
-/
import XpModel.FilterKnn
import XpProofs.Lemmas.TopK
import XpProofs.Lemmas.KnnIndex

namespace Xp.TopK
variable {α γ β : Type}

theorem take_append_replicate (x : α) : ∀ (A : List α) (k m : Nat),
    (A ++ List.replicate (m + k) x).take k = (A ++ List.replicate k x).take k := by
  intro A
  induction A with
  | nil =>
    intro k m
    simp only [List.nil_append, List.take_replicate]
    congr 1; omega
  | cons a A ih =>
    intro k m
    cases k with
    | zero => simp
    | succ k =>
      simp only [List.cons_append, List.take_succ_cons]
      congr 1
      have h1 : m + (k + 1) = (m + 1) + k := by omega
      rw [h1, ih k (m + 1)]
      have := ih k 1
      rw [Nat.add_comm 1 k] at this
      exact this.symm

private theorem sorted_mergeSort_dle (l : List Dist) :
    (l.mergeSort dle).Pairwise (fun a b => dle a b = true) :=
  List.pairwise_mergeSort dle_totalPre.trans (fun a b => by simpa using dle_totalPre.total a b) l

/-- `+inf` keys sort to the end -/
theorem mergeSort_append_none (F : List Dist) (j : Nat) :
    (F ++ List.replicate j none).mergeSort dle = F.mergeSort dle ++ List.replicate j none := by
  apply List.Perm.eq_of_pairwise (fun a b _ _ => dle_antisymm a b) (sorted_mergeSort_dle _)
  · rw [List.pairwise_append]
    refine ⟨sorted_mergeSort_dle F, ?_, ?_⟩
    · rw [List.pairwise_replicate]; right; rfl
    · intro a _ b hb
      rw [List.eq_of_mem_replicate hb]; exact dle_top a
  · exact (List.mergeSort_perm _ dle).trans ((List.mergeSort_perm F dle).symm.append_right _)

/-- `+inf` keys in the input are indistinguishable from the padding -/
theorem smallestKeys_filter (k : Nat) (l : List Dist) :
    smallestKeys k l = smallestKeys k (l.filter (·.isSome)) := by
  unfold smallestKeys
  have hnone : l.filter (fun x => !x.isSome) = List.replicate (l.filter (fun x => !x.isSome)).length none := by
    rw [List.eq_replicate_iff]
    refine ⟨rfl, ?_⟩
    intro b hb
    have := (List.mem_filter.mp hb).2
    cases b with
    | none => rfl
    | some x => simp at this
  have hperm : (l ++ List.replicate k none).Perm
      (l.filter (fun x : Dist => x.isSome) ++
        List.replicate ((l.filter (fun x : Dist => !x.isSome)).length + k) none) := by
    rw [← List.replicate_append_replicate, ← hnone, ← List.append_assoc]
    exact ((List.filter_append_perm (fun x : Dist => x.isSome) l).symm).append_right _
  rw [mergeSort_congr_perm hperm, mergeSort_append_none, mergeSort_append_none,
    take_append_replicate]

theorem maskKey_true (d : Dist) : maskKey true d = d := rfl
theorem maskKey_false (d : Dist) : maskKey false d = none := rfl

/-- masking a key with `+inf` is the same as removing the case -/
theorem smallestKeys_masked (k : Nat) (key : γ → Dist) (adm : γ → Bool) (cases : List γ) :
    smallestKeys k (cases.map fun c => maskKey (adm c) (key c))
      = smallestKeys k ((cases.filter adm).map key) := by
  rw [smallestKeys_filter, smallestKeys_filter k ((cases.filter adm).map key)]
  congr 1
  induction cases with
  | nil => rfl
  | cons c cs ih =>
    simp only [List.map_cons, List.filter_cons]
    by_cases ha : adm c = true
    · simp only [ha, maskKey_true, if_true, List.map_cons, List.filter_cons]
      by_cases hk : (key c).isSome = true
      · simp only [hk, if_true]; rw [ih]
      · simp only [hk]; exact ih
    · have ha' : adm c = false := by simpa using ha
      simp only [ha', maskKey_false, Bool.false_eq_true, if_false, Option.isSome_none]
      exact ih

/-- every case of the dataset sits at some `(batch, position)` -/
theorem exists_gather (b : Nat) (hb : 0 < b) (xs : List γ) (c : γ) (hc : c ∈ xs) :
    ∃ bi p, gather (batches b xs) (some (bi, p)) = some c := by
  obtain ⟨i, hi, rfl⟩ := List.mem_iff_getElem.mp hc
  refine ⟨i / b, i % b, ?_⟩
  rw [gather_batches b hb xs _ _ (Nat.mod_lt i hb)]
  have : i / b * b + i % b = i := by rw [Nat.mul_comm]; exact Nat.div_add_mod i b
  rw [this]; exact List.getElem?_eq_getElem hi

/-- conversely, a gathered element is a case of the dataset -/
theorem mem_of_gather (b : Nat) (hb : 0 < b) (xs : List γ) (bi p : Nat) (c : γ)
    (h : gather (batches b xs) (some (bi, p)) = some c) : c ∈ xs := by
  rw [gather_batches b hb xs bi p (gather_pos_lt b hb xs bi p c h)] at h
  exact List.mem_of_getElem? h

theorem maskKey_isSome (m : Bool) (d : Dist) : (maskKey m d).isSome = (m && d.isSome) := by
  cases m <;> simp [maskKey]

theorem maskKey_ne_none {m : Bool} {d : Dist} (h : maskKey m d ≠ none) : m = true ∧ maskKey m d = d := by
  cases m
  · simp [maskKey] at h
  · exact ⟨rfl, rfl⟩

end Xp.TopK
