/-
  Occlusion: the chunked accumulation is independent of the chunk size for ANY list of masks
  (this part does not depend on the anchor arithmetic generated from the source).
-/
import XpModel.Occlusion
import XpProofs.Lemmas.Batching
import XpProofs.Lemmas.Vec

namespace Xp.Occl

theorem applyMask_eq_occlude' (g : Geom) (x : List Rat) (m : List Bool) (v : Rat) :
    applyMask g x m v = occlude g x m v := by
  unfold applyMask occlude
  apply List.map_congr_left; intro k _
  by_cases h : m.getD (k / g.chan) false <;> simp [h]

/-- accumulating chunk by chunk (any chunk size `b ≥ 1`) gives, for every feature cell, the sum
    over ALL masks of `(score(x) − score(x occluded by m)) · [m covers the cell]` -/
theorem explainOne_eq_sum (g : Geom) (f : List Rat → Rat) (v : Rat) (b : Nat) (hb : 0 < b) (x : List Rat) :
    explainOne g f v b x = (List.range g.nfeat).map fun k =>
      sumQ ((masks g).map fun m => (f x - f (occlude g x m v)) * (if m.getD k false then 1 else 0)) := by
  unfold explainOne
  have hfold : (fun (acc : List Rat) (chunk : List (List Bool)) =>
        vadd acc (sensChunk g.nfeat (f x) (chunk.map fun m => (m, f (applyMask g x m v)))))
      = (fun acc chunk => vadd acc ((List.range g.nfeat).map fun k =>
          sumQ (chunk.map ((fun k m => (f x - f (occlude g x m v)) * (if m.getD k false then 1 else 0)) k)))) := by
    funext acc chunk
    simp only [sensChunk, List.map_map, applyMask_eq_occlude']
    rfl
  simp only [hfold]
  rw [foldl_vadd_chunks g.nfeat _ _ _ (vzero_length _), flatten_batches b hb]
  apply List.map_congr_left; intro k _
  rw [vzero_getD, zero_add]

/-- hence two chunk sizes give the same map -/
theorem explainOne_bs_indep (g : Geom) (f : List Rat → Rat) (v : Rat) (b b' : Nat) (hb : 0 < b) (hb' : 0 < b')
    (x : List Rat) : explainOne g f v b x = explainOne g f v b' x := by
  rw [explainOne_eq_sum g f v b hb, explainOne_eq_sum g f v b' hb']

end Xp.Occl
