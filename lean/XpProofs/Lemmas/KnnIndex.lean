/-
  Lemmas on the distance order, on `batches` with `(batch, position)` indices, on `dataset_gather`
  and on the table entries enumerated by the search loops.
-/
import XpModel.TopK
import XpProofs.Lemmas.Batching
import XpProofs.Lemmas.TopK
import Mathlib.Data.List.Sort
import Mathlib.Data.List.Nodup
import Mathlib.Algebra.Order.Field.Rat

namespace Xp.TopK
variable {γ β δ : Type}

-- ---------------------------------------------------------------------------------------------
-- the order on distances
-- ---------------------------------------------------------------------------------------------
theorem dle_top (a : Dist) : dle a none = true := by cases a <;> rfl

theorem dle_top_left {a : Dist} (h : dle none a = true) : a = none := by
  cases a with
  | none => rfl
  | some x => simp [dle] at h

theorem dle_totalPre : TotalPre dle where
  total := by
    intro a b
    cases a <;> cases b <;> simp [dle]
    exact le_total _ _
  trans := by
    intro a b c
    cases a <;> cases b <;> cases c <;> simp [dle]
    exact le_trans

theorem dle_antisymm (a b : Dist) (h1 : dle a b = true) (h2 : dle b a = true) : a = b := by
  cases a <;> cases b <;> simp [dle] at h1 h2 ⊢
  exact le_antisymm h1 h2

theorem entryLe_totalPre : TotalPre (entryLe (β := β)) where
  total := fun a b => dle_totalPre.total a.key b.key
  trans := fun a b c => dle_totalPre.trans a.key b.key c.key

theorem insertBy_perm {α : Type} (le : α → α → Bool) (x : α) (l : List α) :
    (insertBy le x l).Perm (x :: l) := by
  induction l with
  | nil => exact List.Perm.refl _
  | cons y ys ih =>
    unfold insertBy
    split
    · exact List.Perm.refl _
    · exact (List.Perm.cons y ih).trans (List.Perm.swap x y ys)

theorem insertBy_sorted {α : Type} {le : α → α → Bool} (hle : TotalPre le) (x : α) (l : List α)
    (hl : l.Pairwise (fun a b => le a b = true)) :
    (insertBy le x l).Pairwise (fun a b => le a b = true) := by
  induction l with
  | nil => simp [insertBy]
  | cons y ys ih =>
    rw [List.pairwise_cons] at hl
    unfold insertBy
    split
    · rename_i hxy
      rw [List.pairwise_cons]
      refine ⟨?_, List.pairwise_cons.mpr hl⟩
      intro z hz
      rcases List.mem_cons.mp hz with rfl | hz
      · exact hxy
      · exact hle.trans _ _ _ hxy (hl.1 z hz)
    · rename_i hxy
      have hyx : le y x = true := by
        rcases hle.total x y with h | h
        · exact absurd h hxy
        · exact h
      rw [List.pairwise_cons]
      refine ⟨?_, ih hl.2⟩
      intro z hz
      rcases List.mem_cons.mp ((insertBy_perm le x ys).subset hz) with rfl | hz
      · exact hyx
      · exact hl.1 z hz

theorem insSort_isSort {α : Type} {le : α → α → Bool} (hle : TotalPre le) : IsSort le (insSort le) := by
  intro l
  induction l with
  | nil => exact ⟨List.Perm.refl _, List.Pairwise.nil⟩
  | cons x xs ih =>
    exact ⟨(insertBy_perm le x _).trans (List.Perm.cons x ih.1), insertBy_sorted hle x _ ih.2⟩

/-- a sorted list is left unchanged by the stable sort -/
theorem insSort_of_sorted {α : Type} (le : α → α → Bool) (l : List α)
    (hl : l.Pairwise (fun a b => le a b = true)) : insSort le l = l := by
  induction l with
  | nil => rfl
  | cons x xs ih =>
    rw [List.pairwise_cons] at hl
    show insertBy le x (insSort le xs) = x :: xs
    rw [ih hl.2]
    cases xs with
    | nil => rfl
    | cons y ys => simp [insertBy, hl.1 y (List.mem_cons_self)]

/-- the model's stable sort is a sort in the sense of `IsSort` -/
theorem sortE_isSort : IsSort (entryLe (β := β)) sortE := insSort_isSort entryLe_totalPre

/-- sorting is insensitive to the order of its input when the order is antisymmetric -/
theorem mergeSort_congr_perm {l₁ l₂ : List Dist} (h : l₁.Perm l₂) :
    l₁.mergeSort dle = l₂.mergeSort dle := by
  have hs : ∀ l : List Dist, (l.mergeSort dle).Pairwise (fun a b => dle a b = true) := fun l =>
    List.pairwise_mergeSort dle_totalPre.trans (fun a b => by simpa using dle_totalPre.total a b) l
  exact List.Perm.eq_of_pairwise (fun a b _ _ => dle_antisymm a b) (hs _) (hs _)
    (((List.mergeSort_perm l₁ dle).trans h).trans (List.mergeSort_perm l₂ dle).symm)

-- ---------------------------------------------------------------------------------------------
-- batches: element access, number of batches
-- ---------------------------------------------------------------------------------------------
theorem batches_cons (b : Nat) (hb : 0 < b) (xs : List γ) (hx : xs ≠ []) :
    batches b xs = xs.take b :: batches b (xs.drop b) := by
  rw [batches]
  have : ¬ (b = 0 ∨ xs = []) := by rintro (h | h); omega; exact hx h
  simp [this]

theorem batches_nil (b : Nat) : batches b ([] : List γ) = [] := by
  rw [batches]; simp

/-- batch number `i` of `dataset.batch(b)` is `xs[i*b : i*b + b]`, and it exists iff `i*b < N` -/
theorem getElem?_batches (b : Nat) (hb : 0 < b) : ∀ (i : Nat) (xs : List γ),
    (batches b xs)[i]? = if i * b < xs.length then some ((xs.drop (i * b)).take b) else none := by
  intro i
  induction i with
  | zero =>
    intro xs
    by_cases hx : xs = []
    · subst hx; simp [batches_nil]
    · rw [batches_cons b hb xs hx]
      have := List.length_pos_iff.mpr hx
      simp [this]
  | succ i ih =>
    intro xs
    by_cases hx : xs = []
    · subst hx; simp [batches_nil]
    · rw [batches_cons b hb xs hx, List.getElem?_cons_succ, ih, List.length_drop, List.drop_drop]
      have h1 : (i + 1) * b = b + i * b := by rw [Nat.succ_mul]; omega
      rw [h1]
      by_cases hc : i * b < xs.length - b
      · have : b + i * b < xs.length := by omega
        simp [hc, this]
      · have : ¬ b + i * b < xs.length := by omega
        simp [hc, this]

theorem lt_length_batches (b : Nat) (hb : 0 < b) (i : Nat) (xs : List γ) :
    i < (batches b xs).length ↔ i * b < xs.length := by
  have h := getElem?_batches b hb i xs
  constructor
  · intro hi
    by_contra hc
    rw [if_neg hc] at h
    have := List.getElem?_eq_none_iff.mp h
    omega
  · intro hi
    rw [if_pos hi] at h
    by_contra hc
    have := List.getElem?_eq_none (l := batches b xs) (i := i) (by omega)
    rw [this] at h; cases h

/-- **dataset_gather by (batch, position) = the flat row** — for every position `p` inside the
    batch width, gathering at `(bi, p)` from the batched dataset returns row `bi*b + p` of the
    unbatched data (and nothing when that row does not exist). -/
theorem gather_batches (b : Nat) (hb : 0 < b) (xs : List γ) (bi p : Nat) (hp : p < b) :
    gather (batches b xs) (some (bi, p)) = xs[bi * b + p]? := by
  simp only [gather]
  rw [getElem?_batches b hb]
  by_cases hc : bi * b < xs.length
  · simp only [if_pos hc, Option.bind_some]
    rw [List.getElem?_take_of_lt hp, List.getElem?_drop]
  · simp only [if_neg hc, Option.bind_none]
    exact (List.getElem?_eq_none (by omega)).symm

/-- a gathered element sits at a position inside the batch width -/
theorem gather_pos_lt (b : Nat) (hb : 0 < b) (xs : List γ) (bi p : Nat) (c : γ)
    (h : gather (batches b xs) (some (bi, p)) = some c) : p < b := by
  simp only [gather] at h
  rw [getElem?_batches b hb] at h
  by_cases hc : bi * b < xs.length
  · simp only [if_pos hc, Option.bind_some] at h
    by_contra hp
    rw [List.getElem?_take, if_neg hp] at h; cases h
  · simp [if_neg hc] at h

-- ---------------------------------------------------------------------------------------------
-- the entries enumerated by the loop
-- ---------------------------------------------------------------------------------------------
/-- every table column the loop ever sees for the cases (all batches, in order) -/
def allE (mk : γ → Nat → Nat → Entry β) (bsz : Nat) (cases : List γ) : List (Entry β) :=
  (allBatchEntries mk bsz cases).flatten

/-- a per-case quantity of the entries is the same quantity mapped over the unbatched dataset -/
theorem map_allE (mk : γ → Nat → Nat → Entry β) (f : Entry β → δ) (g : γ → δ)
    (hfg : ∀ c bi p, f (mk c bi p) = g c) (bsz : Nat) (hb : 0 < bsz) (cases : List γ) :
    (allE mk bsz cases).map f = cases.map g := by
  unfold allE allBatchEntries batchEntries
  rw [List.map_flatten, List.map_map]
  have h1 : ((List.map f) ∘ fun (bb : List γ × Nat) =>
        List.map (fun cp => mk cp.1 bb.2 cp.2) bb.1.zipIdx) = (fun bb => bb.1.map g) := by
    funext bb
    simp only [Function.comp, List.map_map]
    have : (f ∘ fun (cp : γ × Nat) => mk cp.1 bb.2 cp.2) = g ∘ Prod.fst := by
      funext cp; simp [hfg]
    rw [this, ← List.map_map, List.zipIdx_map_fst]
  rw [h1]
  have h2 : (fun (bb : List γ × Nat) => bb.1.map g) = (List.map g) ∘ Prod.fst := rfl
  rw [h2, ← List.map_map, List.zipIdx_map_fst, ← List.map_flatten, flatten_batches bsz hb]

theorem mem_allE (mk : γ → Nat → Nat → Entry β) (bsz : Nat) (cases : List γ) (e : Entry β) :
    e ∈ allE mk bsz cases ↔
      ∃ bi p c, gather (batches bsz cases) (some (bi, p)) = some c ∧ e = mk c bi p := by
  unfold allE allBatchEntries batchEntries
  simp only [List.mem_flatten, List.mem_map]
  constructor
  · rintro ⟨l, ⟨⟨batch, bi⟩, hbb, rfl⟩, hel⟩
    simp only [List.mem_map] at hel
    obtain ⟨⟨c, p⟩, hcp, rfl⟩ := hel
    have h1 := List.mem_zipIdx_iff_getElem?.mp hbb
    have h2 := List.mem_zipIdx_iff_getElem?.mp hcp
    simp only at h1 h2
    exact ⟨bi, p, c, by simp [gather, h1, h2], rfl⟩
  · rintro ⟨bi, p, c, hg, rfl⟩
    simp only [gather] at hg
    cases hb : (batches bsz cases)[bi]? with
    | none => simp [hb] at hg
    | some batch =>
      simp only [hb, Option.bind_some] at hg
      refine ⟨_, ⟨(batch, bi), List.mem_zipIdx_iff_getElem?.mpr hb, rfl⟩, ?_⟩
      simp only [List.mem_map]
      exact ⟨(c, p), List.mem_zipIdx_iff_getElem?.mpr hg, rfl⟩

/-- no `(batch, position)` index is enumerated twice -/
theorem allE_idx_nodup (mk : γ → Nat → Nat → Entry β) (idx : Entry β → Nat × Nat)
    (hidx : ∀ c bi p, idx (mk c bi p) = (bi, p)) (bsz : Nat) (cases : List γ) :
    ((allE mk bsz cases).map idx).Nodup := by
  unfold allE allBatchEntries batchEntries
  rw [List.map_flatten, List.map_map, List.nodup_flatten]
  constructor
  · intro l hl
    simp only [List.mem_map, Function.comp] at hl
    obtain ⟨⟨batch, bi⟩, _, rfl⟩ := hl
    simp only [List.map_map]
    have : (idx ∘ fun (cp : γ × Nat) => mk cp.1 bi cp.2) = (Prod.mk bi) ∘ Prod.snd := by
      funext cp; simp [hidx]
    rw [this, ← List.map_map, List.zipIdx_map_snd]
    exact List.Nodup.map (fun a b h => by simpa using h) (List.nodup_range' 1)
  · rw [List.pairwise_map]
    have hn : ((batches bsz cases).zipIdx.map Prod.snd).Nodup := by
      rw [List.zipIdx_map_snd]; exact List.nodup_range' 1
    unfold List.Nodup at hn
    rw [List.pairwise_map] at hn
    refine hn.imp ?_
    intro a b hab
    simp only [Function.comp, List.map_map]
    intro x hx1 hx2
    simp only [List.mem_map, Function.comp] at hx1 hx2
    obtain ⟨cp1, _, rfl⟩ := hx1
    obtain ⟨cp2, _, h2⟩ := hx2
    rw [hidx, hidx] at h2
    exact hab (by simpa using (congrArg Prod.fst h2).symm)

end Xp.TopK
