import XpModel.Lime
import XpProofs.Lemmas.LinReg
import XpProofs.Lemmas.Lime
import Mathlib.Data.List.Sort
import Mathlib.Data.Nat.Choose.Basic
import Mathlib.Tactic.FieldSimp
import Mathlib.Tactic.Ring
import Mathlib.Tactic.Linarith

open Finset BigOperators
namespace Xp.Lime

/-! ### top-k thresholding -/

theorem range_map_getD (vals : List ℚ) : (List.range vals.length).map (fun i => vals.getD i 0) = vals := by
  apply List.ext_getElem
  · simp
  · intro i h1 h2
    simp [List.getD_eq_getElem?_getD, List.getElem?_eq_getElem h2]

/-- in a strictly decreasing list exactly `k` entries are greater than the entry of rank `k` -/
theorem filter_gt_rank (L : List ℚ) (h : L.Pairwise (· > ·)) (k : ℕ) (hk : k < L.length) :
    (L.filter fun v => decide (L[k] < v)).length = k := by
  induction L generalizing k with
  | nil => simp at hk
  | cons a L ih =>
    rw [List.pairwise_cons] at h
    cases k with
    | zero =>
      simp only [List.getElem_cons_zero]
      rw [List.length_eq_zero_iff, List.filter_eq_nil_iff]
      intro b hb
      rcases List.mem_cons.mp hb with rfl | hb
      · simp
      · have := h.1 b hb
        simp only [decide_eq_true_eq, not_lt]; exact le_of_lt this
    | succ k =>
      have hk' : k < L.length := by simpa using hk
      simp only [List.getElem_cons_succ]
      have hgt : L[k] < a := h.1 _ (List.getElem_mem hk')
      rw [List.filter_cons_of_pos (by simpa using hgt), List.length_cons, ih h.2 k hk']

theorem countOnes_threshold (vals : List ℚ) (thr : ℚ) :
    countOnes (vals.map fun v => if thr < v then (1 : ℚ) else 0)
      = (vals.filter fun v => decide (thr < v)).length := by
  unfold countOnes
  induction vals with
  | nil => rfl
  | cons a l ih =>
    by_cases h : thr < a
    · simp only [List.map_cons, h, if_true, List.filter_cons_of_pos, decide_true,
        List.length_cons] at ih ⊢
      rw [ih]
    · have h10 : ¬ ((0 : ℚ) = 1) := by norm_num
      simp only [List.map_cons, h, if_false, decide_false, Bool.false_eq_true, not_false_eq_true,
        List.filter_cons_of_neg, h10] at ih ⊢
      rw [ih]

private theorem le_trans' (vals : List ℚ) (a b c : ℕ)
    (h1 : decide (vals.getD b 0 ≤ vals.getD a 0) = true) (h2 : decide (vals.getD c 0 ≤ vals.getD b 0) = true) :
    decide (vals.getD c 0 ≤ vals.getD a 0) = true := by
  simp only [decide_eq_true_eq] at *
  exact le_trans h2 h1

private theorem le_total' (vals : List ℚ) (a b : ℕ) :
    (decide (vals.getD b 0 ≤ vals.getD a 0) || decide (vals.getD a 0 ≤ vals.getD b 0)) = true := by
  simp only [Bool.or_eq_true, decide_eq_true_eq]
  exact le_total _ _

/-- the values read through `argsortDesc` are a permutation of the values, sorted decreasingly -/
theorem argsort_perm (vals : List ℚ) :
    ((argsortDesc vals).map fun i => vals.getD i 0).Perm vals := by
  have h := (List.mergeSort_perm (List.range vals.length)
    (fun i j => decide (vals.getD j 0 ≤ vals.getD i 0))).map (fun i => vals.getD i 0)
  rw [range_map_getD] at h
  exact h

theorem argsort_sorted (vals : List ℚ) :
    ((argsortDesc vals).map fun i => vals.getD i 0).Pairwise (· ≥ ·) := by
  rw [List.pairwise_map]
  have := List.pairwise_mergeSort (le := fun i j => decide (vals.getD j 0 ≤ vals.getD i 0))
    (le_trans' vals) (le_total' vals) (List.range vals.length)
  exact this.imp (by intro a b h; simpa using h)

theorem thr_eq (vals : List ℚ) (k : ℕ) (hk : k < (argsortDesc vals).length) :
    vals.getD ((argsortDesc vals).getD k 0) 0
      = ((argsortDesc vals).map fun i => vals.getD i 0)[k]'(by simpa using hk) := by
  simp [List.getD_eq_getElem?_getD, List.getElem?_eq_getElem hk]

/-- **exactly k active features**: with distinct draws and `k < F`, the thresholded sample has
    exactly `k` ones -/
theorem kshapSample_count (vals : List ℚ) (hnd : vals.Nodup) (k : ℕ) (hk : k < vals.length) :
    countOnes (kshapSample vals k) = k := by
  unfold kshapSample
  simp only []
  rw [countOnes_threshold]
  have hperm := argsort_perm vals
  have hlen := hperm.length_eq
  have hidx : (argsortDesc vals).length = vals.length := by rw [← hlen, List.length_map]
  rw [thr_eq vals k (by omega)]
  have hstrict : ((argsortDesc vals).map fun i => vals.getD i 0).Pairwise (· > ·) := by
    have hs := argsort_sorted vals
    have hndL := hperm.nodup_iff.mpr hnd
    exact (hs.and hndL).imp (by intro a b h; exact lt_of_le_of_ne h.1 (Ne.symm h.2))
  have h1 := (hperm.filter fun v =>
    decide (((argsortDesc vals).map fun i => vals.getD i 0)[k]'(by omega) < v)).length_eq
  rw [← h1]
  exact filter_gt_rank _ hstrict k (by omega)

/-! ### coalition-size distribution -/

/-- the Shapley kernel `(F−1) / (C(F,k) · k · (F−k))` -/
def shapleyKernel (F k : ℕ) : ℚ := ((F : ℚ) - 1) / ((Nat.choose F k : ℚ) * (k : ℚ) * ((F : ℚ) - (k : ℚ)))

theorem probSpec_eq_kernel_mul_choose (F k : ℕ) (hk : 1 ≤ k) (hkF : k < F) :
    probSpec F k = shapleyKernel F k * (Nat.choose F k : ℚ) := by
  unfold probSpec shapleyKernel
  have hc : (Nat.choose F k : ℚ) ≠ 0 := by
    exact_mod_cast (Nat.choose_pos (le_of_lt hkF)).ne'
  have hk0 : (k : ℚ) ≠ 0 := by exact_mod_cast (by omega : k ≠ 0)
  have hFk : (F : ℚ) - (k : ℚ) ≠ 0 := by
    have : (k : ℚ) < (F : ℚ) := by exact_mod_cast hkF
    linarith
  rw [if_neg (by omega)]
  field_simp

/-- the generated numerator / denominator give exactly `[0] ++ [(F−1)/(k(F−k))]_{k=1..F−1}` -/
theorem kshapProbs_eq_spec (F : ℕ) (hF : 1 ≤ F) : kshapProbs F = (List.range F).map (probSpec F) := by
  obtain ⟨n, rfl⟩ : ∃ n, F = n + 1 := ⟨F - 1, by omega⟩
  unfold kshapProbs
  rw [List.range_succ_eq_map, List.map_cons, List.map_map]
  congr 1
  simp only [Nat.add_sub_cancel]
  apply List.map_congr_left
  intro i _
  simp only [Function.comp, probSpec, Gen.kshapProbNum, Gen.kshapProbDen]
  rw [if_neg (by omega)]
  simp only [Int.ofNat_eq_natCast]
  push_cast
  ring_nf

/-! ### additive scores are linear in the coalition -/

/-- Shapley value of segment `j` for the additive score `Σ wt_i z_i + c0` -/
def segValue (P : ℕ) (seg : ℕ → ℕ) (wt x ref : ℕ → ℚ) (j : ℕ) : ℚ :=
  ∑ i ∈ range P, if seg i = j then wt i * (x i - ref i) else 0

/-- coefficient vector `(Shapley values | score(ref))` over the augmented design `(S | 1)` -/
def addCoef (P F : ℕ) (seg : ℕ → ℕ) (wt x ref : ℕ → ℚ) (c0 : ℚ) (j : ℕ) : ℚ :=
  if j < F then segValue P seg wt x ref j else (∑ i ∈ range P, wt i * ref i) + c0

theorem additive_linear (P F : ℕ) (seg : ℕ → ℕ) (hseg : ∀ i ∈ range P, seg i < F)
    (wt x ref : ℕ → ℚ) (c0 : ℚ) (S : ℕ → ℚ) :
    (∑ i ∈ range P, wt i * (x i * S (seg i) + (1 - S (seg i)) * ref i)) + c0
      = ∑ j ∈ range (F + 1), addCoef P F seg wt x ref c0 j * (if j < F then S j else 1) := by
  rw [sum_range_succ]
  have hlast : addCoef P F seg wt x ref c0 F * (if F < F then S F else 1)
      = (∑ i ∈ range P, wt i * ref i) + c0 := by
    unfold addCoef; simp
  have hmain : ∑ j ∈ range F, addCoef P F seg wt x ref c0 j * (if j < F then S j else 1)
      = ∑ i ∈ range P, wt i * (x i - ref i) * S (seg i) := by
    calc ∑ j ∈ range F, addCoef P F seg wt x ref c0 j * (if j < F then S j else 1)
        = ∑ j ∈ range F, ∑ i ∈ range P, (if seg i = j then wt i * (x i - ref i) * S j else 0) := by
          apply sum_congr rfl; intro j hj
          unfold addCoef segValue
          rw [if_pos (mem_range.mp hj), if_pos (mem_range.mp hj), sum_mul]
          apply sum_congr rfl; intro i _
          split <;> simp
      _ = ∑ i ∈ range P, ∑ j ∈ range F, (if seg i = j then wt i * (x i - ref i) * S j else 0) := sum_comm
      _ = _ := by
          apply sum_congr rfl; intro i hi
          rw [sum_ite_eq (range F) (seg i) (fun j => wt i * (x i - ref i) * S j)]
          rw [if_pos (mem_range.mpr (hseg i hi))]
  rw [hlast, hmain, ← add_assoc, ← sum_add_distrib]
  congr 1
  apply sum_congr rfl; intro i _; ring

/-- efficiency: the Shapley values of the segments sum to `score(x) − score(ref)` -/
theorem segValue_sum (P F : ℕ) (seg : ℕ → ℕ) (hseg : ∀ i ∈ range P, seg i < F) (wt x ref : ℕ → ℚ) :
    ∑ j ∈ range F, segValue P seg wt x ref j
      = (∑ i ∈ range P, wt i * x i) - (∑ i ∈ range P, wt i * ref i) := by
  unfold segValue
  rw [sum_comm, ← sum_sub_distrib]
  apply sum_congr rfl; intro i hi
  rw [sum_ite_eq (range F) (seg i) (fun _ => wt i * (x i - ref i)), if_pos (mem_range.mpr (hseg i hi))]
  ring

/-! ### end to end on the executable model -/

theorem applyMask_getD (cfg : Cfg) (x m : List ℚ) (i : ℕ) (hi : i < x.length) :
    (applyMask cfg x m).getD i 0
      = x.getD i 0 * m.getD (i / cfg.c) 0 + (1 - m.getD (i / cfg.c) 0) * cfg.ref.getD (i % cfg.c) 0 := by
  unfold applyMask
  rw [LinReg.getD_map_range _ _ i hi]

theorem additive_masked (cfg : Cfg) (wt x s : List ℚ) (c0 : ℚ)
    (hshape : x.length = cfg.mapping.length * cfg.c) (hwt : wt.length = x.length) :
    dot wt (applyMask cfg x (getMask cfg.mapping s)) + c0
      = (∑ i ∈ range x.length, wt.getD i 0 *
          (x.getD i 0 * s.getD (cfg.mapping.getD (i / cfg.c) 0) 0
            + (1 - s.getD (cfg.mapping.getD (i / cfg.c) 0) 0) * cfg.ref.getD (i % cfg.c) 0)) + c0 := by
  rw [LinReg.dot_eq_sum, hwt]
  congr 1
  apply sum_congr rfl
  intro i hi
  have hi' := mem_range.mp hi
  have hk : i / cfg.c < cfg.mapping.length :=
    Nat.div_lt_of_lt_mul (by rw [Nat.mul_comm, ← hshape]; exact hi')
  rw [applyMask_getD _ _ _ _ hi', getMask_getD _ _ _ hk]

theorem getD_map_lt {α : Type} (l : List α) (g : α → ℚ) (s : ℕ) (hs : s < l.length) :
    (l.map g).getD s 0 = g l[s] := by
  simp [List.getD_eq_getElem?_getD, List.getElem?_map, List.getElem?_eq_getElem hs]

/-- **KernelShap on the executable model**: additive score, positive kernel, an interpretable model
    that returns A minimiser of the unpenalised weighted least-squares objective, drawn samples
    whose design `(Z|1)` has full column rank: for every batch size the explanation is the Shapley
    value of each cell's segment, `Σ_{i ∈ segment} wt_i (x_i − ref_i)`. -/
theorem kshap_model_exact_core (cfg : Cfg) (wt : List ℚ) (c0 : ℚ)
    (score : List (List ℚ) → List ℚ) (hscore : ∀ zs, score zs = zs.map fun z => dot wt z + c0)
    (κ : ℚ → ℚ) (hκ : ∀ t, 0 < κ t) (width : ℚ) (d2 : List ℚ → List ℚ → ℚ)
    (fit : List (List ℚ) → List ℚ → List ℚ → List ℚ) (F : ℕ)
    (hfit : ∀ Z y w, (∀ v ∈ w, 0 ≤ v) → ∀ bc', LinReg.loss 0 F Z y w (fit Z y w) ≤ LinReg.loss 0 F Z y w bc')
    (b : ℕ) (hb : 0 < b) (x : List ℚ)
    (hshape : x.length = cfg.mapping.length * cfg.c) (hwt : wt.length = x.length)
    (samples : List (List ℚ)) (hmap : ∀ j ∈ cfg.mapping, j < F)
    (hrank : LinReg.FullRank samples.length (F + 1) (LinReg.Xf F samples)) :
    let d := fitData cfg score (expKernel κ width d2) b x samples
    broadcast cfg.mapping (fit d.design d.targets d.weights)
      = broadcast cfg.mapping (shapleySeg cfg wt x F) := by
  intro d
  obtain ⟨h1, h2, h3, _⟩ :=
    fitData_eq_map cfg (fun z => dot wt z + c0) score hscore κ width d2 b hb x samples
  rw [h1, h2, h3]
  set T := samples.map (fun s => (fun z => dot wt z + c0) (applyMask cfg x (getMask cfg.mapping s))) with hT
  set W := samples.map (fun s => weightOf κ width (d2 x (applyMask cfg x (getMask cfg.mapping s)))) with hW
  set bc := fit samples T W with hbc
  have hWnn : ∀ v ∈ W, 0 ≤ v := by
    intro v hv
    rw [hW, List.mem_map] at hv
    obtain ⟨s, _, rfl⟩ := hv
    exact (hκ _).le
  have hpf : LinReg.pf 0 F = fun _ => 0 := by funext j; simp [LinReg.pf]
  have hmin : ∀ b' : ℕ → ℚ,
      LinReg.ploss samples.length (F + 1) (LinReg.vf W) (LinReg.Xf F samples) (LinReg.vf T) (fun _ => 0) (LinReg.vf bc)
        ≤ LinReg.ploss samples.length (F + 1) (LinReg.vf W) (LinReg.Xf F samples) (LinReg.vf T) (fun _ => 0) b' := by
    intro b'
    have h := hfit samples T W hWnn ((List.range (F + 1)).map b')
    rw [LinReg.loss_eq_ploss, LinReg.loss_eq_ploss, hpf] at h
    rw [LinReg.ploss_congr _ _ _ _ _ _ (LinReg.vf ((List.range (F + 1)).map b')) b' (by
      intro j hj; unfold LinReg.vf; exact LinReg.getD_map_range _ _ j (mem_range.mp hj))] at h
    exact h
  have hw : ∀ s ∈ range samples.length, 0 < LinReg.vf W s := by
    intro s hs
    unfold LinReg.vf
    rw [hW, getD_map_lt _ _ s (mem_range.mp hs)]
    exact hκ _
  have hseg : ∀ i ∈ range x.length, cfg.mapping.getD (i / cfg.c) 0 < F := by
    intro i hi
    have hk : i / cfg.c < cfg.mapping.length :=
      Nat.div_lt_of_lt_mul (by rw [Nat.mul_comm, ← hshape]; exact mem_range.mp hi)
    apply hmap
    rw [List.getD_eq_getElem?_getD, List.getElem?_eq_getElem hk]
    exact List.getElem_mem hk
  have hy : ∀ s ∈ range samples.length, LinReg.vf T s = ∑ j ∈ range (F + 1),
      addCoef x.length F (fun i => cfg.mapping.getD (i / cfg.c) 0) (fun i => wt.getD i 0)
        (fun i => x.getD i 0) (fun i => cfg.ref.getD (i % cfg.c) 0) c0 j * LinReg.Xf F samples s j := by
    intro s hs
    have hs' := mem_range.mp hs
    unfold LinReg.vf
    rw [hT, getD_map_lt _ _ s hs']
    simp only []
    rw [additive_masked cfg wt x _ c0 hshape hwt]
    rw [additive_linear x.length F (fun i => cfg.mapping.getD (i / cfg.c) 0) hseg (fun i => wt.getD i 0)
      (fun i => x.getD i 0) (fun i => cfg.ref.getD (i % cfg.c) 0) c0 (fun j => samples[s].getD j 0)]
    apply sum_congr rfl
    intro j _
    have hget : samples.getD s [] = samples[s] := by
      rw [List.getD_eq_getElem?_getD, List.getElem?_eq_getElem hs']; rfl
    unfold LinReg.Xf LinReg.aug
    rw [hget]
  have hsol := LinReg.ols_exact_range samples.length (F + 1) (LinReg.vf W) hw (LinReg.Xf F samples) _
    (LinReg.vf T) hy hrank (LinReg.vf bc) hmin
  unfold broadcast
  apply List.map_congr_left
  intro j hj
  have hjF := hmap j hj
  have := hsol j (mem_range.mpr (by omega))
  unfold LinReg.vf at this
  rw [this]
  unfold addCoef segValue shapleySeg
  rw [if_pos hjF, LinReg.getD_map_range _ _ j hjF, LinReg.sumQ_range_map]

end Xp.Lime
