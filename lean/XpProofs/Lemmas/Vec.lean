import XpModel.Basic
import Mathlib.Data.List.Basic
import Mathlib.Tactic.Ring
import Mathlib.Tactic.Linarith
import Mathlib.Algebra.Order.Field.Rat

namespace Xp

@[simp] theorem sumQ_nil : sumQ [] = 0 := rfl
@[simp] theorem sumQ_cons (x : Rat) (xs : List Rat) : sumQ (x :: xs) = x + sumQ xs := rfl

theorem sumQ_append (a b : List Rat) : sumQ (a ++ b) = sumQ a + sumQ b := by
  induction a with
  | nil => simp
  | cons x xs ih => simp [ih]; ring

theorem sumQ_eq_sum (a : List Rat) : sumQ a = a.sum := by
  induction a with
  | nil => rfl
  | cons x xs ih => simp [ih]

theorem vadd_length (a b : List Rat) (h : a.length = b.length) : (vadd a b).length = a.length := by
  simp [vadd, h]

theorem vzero_length (n : Nat) : (vzero n).length = n := by simp [vzero]

theorem vadd_getD (a b : List Rat) (h : a.length = b.length) (k : Nat) :
    (vadd a b).getD k 0 = a.getD k 0 + b.getD k 0 := by
  unfold vadd
  by_cases hk : k < a.length
  · have hkb : k < b.length := h ▸ hk
    simp [List.getD_eq_getElem?_getD, List.getElem?_zipWith, List.getElem?_eq_getElem hk,
      List.getElem?_eq_getElem hkb]
  · have hkb : ¬ k < b.length := h ▸ hk
    have h1 : a[k]? = none := List.getElem?_eq_none (by omega)
    have h2 : b[k]? = none := List.getElem?_eq_none (by omega)
    simp [List.getD_eq_getElem?_getD, List.getElem?_zipWith, h1, h2]

/-- a list of length `n` is determined by its `getD` values -/
theorem ext_getD {a b : List Rat} (h : a.length = b.length)
    (hk : ∀ k, k < a.length → a.getD k 0 = b.getD k 0) : a = b := by
  apply List.ext_getElem h
  intro k h1 h2
  have := hk k h1
  simpa [List.getD_eq_getElem?_getD, List.getElem?_eq_getElem h1, List.getElem?_eq_getElem h2] using this

theorem getD_range_map (n : Nat) (g : Nat → Rat) (k : Nat) (hk : k < n) :
    ((List.range n).map g).getD k 0 = g k := by
  simp [List.getD_eq_getElem?_getD, hk]

/-- accumulating per-chunk column sums over any chunking = column sums over the whole list -/
theorem foldl_vadd_chunks {μ : Type} (n : Nat) (h : Nat → μ → Rat) (L : List (List μ)) (acc : List Rat)
    (hacc : acc.length = n) :
    L.foldl (fun a ch => vadd a ((List.range n).map fun k => sumQ (ch.map (h k)))) acc
      = (List.range n).map fun k => acc.getD k 0 + sumQ (L.flatten.map (h k)) := by
  induction L generalizing acc with
  | nil =>
    simp only [List.foldl_nil, List.flatten_nil, List.map_nil, sumQ_nil, add_zero]
    apply ext_getD (by simp [hacc])
    intro k hk
    rw [getD_range_map n _ k (by omega)]
  | cons ch L ih =>
    simp only [List.foldl_cons, List.flatten_cons, List.map_append]
    rw [ih]
    · apply List.map_congr_left
      intro k hk
      have hk' : k < n := List.mem_range.mp hk
      rw [vadd_getD _ _ (by simp [hacc]), getD_range_map n _ k hk', sumQ_append]; ring
    · rw [vadd_length _ _ (by simp [hacc])]; exact hacc

theorem vzero_getD (n k : Nat) : (vzero n).getD k 0 = 0 := by
  unfold vzero
  by_cases hk : k < n
  · simp [List.getD_eq_getElem?_getD, hk]
  · simp [List.getD_eq_getElem?_getD, List.getElem?_eq_none (by simp; omega : (List.replicate n (0:Rat)).length ≤ k)]

/-- indicator-weighted sum = sum over the filtered list -/
theorem sumQ_indicator {μ : Type} (ms : List μ) (p : μ → Bool) (d : μ → Rat) :
    sumQ (ms.map fun m => d m * (if p m then 1 else 0)) = sumQ ((ms.filter p).map d) := by
  induction ms with
  | nil => simp
  | cons m ms ih =>
    rw [List.map_cons, sumQ_cons, ih]
    by_cases hp : p m
    · simp [hp]
    · simp [hp]

end Xp
