/-
  Helper lemmas for the HSIC part of C08: the list / table model is tied to `Matrix (Fin n) (Fin n) ℚ`
  and the non-negativity of `tr(H K H · H L H)` is proved for `K` a non-negative combination of
  outer products and `L` positive semi-definite.
-/
import XpModel.Hsic
import XpProofs.Lemmas.Vec
import XpProofs.Lemmas.Sobol
import Mathlib.LinearAlgebra.Matrix.Trace
import Mathlib.Data.Matrix.Mul
import Mathlib.Algebra.Order.Field.Rat
import Mathlib.Algebra.Order.BigOperators.Ring.Finset
import Mathlib.Tactic.Ring
import Mathlib.Tactic.Linarith

namespace Xp.Hsic
open Matrix

theorem sumQ_range (n : Nat) (f : Nat → Rat) : sumQ ((List.range n).map f) = ∑ i : Fin n, f i := by
  induction n with
  | zero => simp
  | succ n ih =>
    rw [List.range_succ, List.map_append, sumQ_append, ih, Fin.sum_univ_castSucc]; simp

theorem sumQ_map_congr {μ : Type} (l : List μ) (f g : μ → Rat) (h : ∀ x ∈ l, f x = g x) :
    sumQ (l.map f) = sumQ (l.map g) := by rw [List.map_congr_left h]

/-! ### tables -/

theorem rd_tab (n : Nat) (f : Nat → Nat → Rat) (j k : Nat) (hj : j < n) (hk : k < n) :
    rd (tab n f) j k = f j k := by
  simp [rd, tab, List.getD_eq_getElem?_getD, hj, hk]

theorem mmF_congr (n : Nat) (A A' B B' : Nat → Nat → Rat)
    (hA : ∀ j k, j < n → k < n → A j k = A' j k) (hB : ∀ j k, j < n → k < n → B j k = B' j k)
    (j l : Nat) (hj : j < n) (hl : l < n) : mmF n A B j l = mmF n A' B' j l := by
  unfold mmF
  apply sumQ_map_congr
  intro k hk
  have hk' := List.mem_range.mp hk
  rw [hA j k hj hk', hB k l hk' hl]

theorem rd_mm (n : Nat) (A B : List (List Rat)) (j l : Nat) (hj : j < n) (hl : l < n) :
    rd (mm n A B) j l = mmF n (rd A) (rd B) j l := by
  unfold mm; rw [rd_tab n _ j l hj hl]; rfl

theorem rd_centering (n j k : Nat) (hj : j < n) (hk : k < n) : rd (centering n) j k = Hf n j k := by
  unfold centering; rw [rd_tab n _ j k hj hk]; rfl

/-- the table computation (`einsum` order of the code) equals the entry-function formula -/
theorem scoreImpl_eq_scoreFn (n : Nat) (K L : List (List Rat)) :
    scoreImpl n K L = scoreFn n (rd K) (rd L) := by
  unfold scoreImpl scoreFn
  simp only []
  congr 1
  apply sumQ_map_congr; intro j hj
  apply sumQ_map_congr; intro k hk
  have hj' := List.mem_range.mp hj
  have hk' := List.mem_range.mp hk
  have e : ∀ (M : List (List Rat)) a b, a < n → b < n →
      rd (mm n (mm n (centering n) M) (centering n)) a b = mmF n (mmF n (Hf n) (rd M)) (Hf n) a b := by
    intro M a b ha hb
    rw [rd_mm n _ _ a b ha hb]
    apply mmF_congr n _ _ _ _ _ _ a b ha hb
    · intro a' b' ha' hb'
      rw [rd_mm n _ _ a' b' ha' hb']
      apply mmF_congr n _ _ _ _ _ _ a' b' ha' hb'
      · intro x y hx hy; exact rd_centering n x y hx hy
      · intro x y _ _; rfl
    · intro x y hx hy; exact rd_centering n x y hx hy
  rw [e K j k hj' hk', e L k j hk' hj']

/-! ### matrices -/

def toM (n : Nat) (F : Nat → Nat → Rat) : Matrix (Fin n) (Fin n) ℚ := fun i j => F i j

theorem toM_mmF (n : Nat) (A B : Nat → Nat → Rat) : toM n (mmF n A B) = toM n A * toM n B := by
  ext i j
  simp [mmF, sumQ_range, Matrix.mul_apply, toM]

theorem toM_Hf_transpose (n : Nat) : (toM n (Hf n))ᵀ = toM n (Hf n) := by
  ext i j
  simp only [toM, Hf, Matrix.transpose_apply]
  by_cases h : (i : Nat) = j
  · simp [h]
  · have h' : ¬ (j : Nat) = i := fun e => h e.symm
    simp [h, h']

theorem scoreFn_eq_trace (n : Nat) (K L : Nat → Nat → Rat) :
    scoreFn n K L =
      ((toM n (Hf n) * toM n K * toM n (Hf n)) * (toM n (Hf n) * toM n L * toM n (Hf n))).trace / (n : Rat) := by
  unfold scoreFn
  simp only []
  congr 1
  simp only [sumQ_range]
  rw [← toM_mmF, ← toM_mmF, ← toM_mmF, ← toM_mmF]
  simp [Matrix.trace, Matrix.mul_apply, toM]

/-- `tr(H u uᵀ H · H L H) = (H u)ᵀ (H L H) (H u) ≥ 0` for symmetric `H` and PSD `L` -/
theorem trace_outer_nonneg {n : Nat} (H Lm : Matrix (Fin n) (Fin n) ℚ) (hH : Hᵀ = H)
    (hL : ∀ v : Fin n → ℚ, 0 ≤ v ⬝ᵥ Lm *ᵥ v) (u : Fin n → ℚ) :
    0 ≤ ((H * vecMulVec u u * H) * (H * Lm * H)).trace := by
  have hu : u ᵥ* H = H *ᵥ u := by
    conv_lhs => rw [← hH]
    exact vecMul_transpose H u
  rw [mul_vecMulVec, vecMulVec_mul, hu, vecMulVec_mul, trace_vecMulVec, dotProduct_comm,
    ← dotProduct_mulVec]
  set w := H *ᵥ u
  have hw : w ᵥ* H = H *ᵥ w := by
    conv_lhs => rw [← hH]
    exact vecMul_transpose H w
  rw [← mulVec_mulVec, ← mulVec_mulVec, dotProduct_mulVec, hw]
  exact hL _

/-- non-negative combinations of outer products -/
theorem trace_outer_sum_nonneg {n m : Nat} (H Lm : Matrix (Fin n) (Fin n) ℚ) (hH : Hᵀ = H)
    (hL : ∀ v : Fin n → ℚ, 0 ≤ v ⬝ᵥ Lm *ᵥ v) (c : Fin m → ℚ) (u : Fin m → Fin n → ℚ)
    (hc : ∀ w, 0 ≤ c w) :
    0 ≤ ((H * (∑ w, c w • vecMulVec (u w) (u w)) * H) * (H * Lm * H)).trace := by
  rw [Finset.mul_sum, Finset.sum_mul, Finset.sum_mul, trace_sum]
  apply Finset.sum_nonneg
  intro w _
  rw [Matrix.mul_smul, Matrix.smul_mul, Matrix.smul_mul, trace_smul]
  exact mul_nonneg (hc w) (trace_outer_nonneg H Lm hH hL (u w))

/-- `K` restricted to `n × n` is a non-negative combination of `m` outer products -/
def OuterSum (n : Nat) (K : Nat → Nat → Rat) : Prop :=
  ∃ (m : Nat) (c : Nat → Rat) (u : Nat → Nat → Rat), (∀ w, 0 ≤ c w) ∧
    ∀ j k, j < n → k < n → K j k = sumQ ((List.range m).map fun w => c w * u w j * u w k)

/-- positive semi-definiteness of the `n × n` matrix with entries `L j k` (quadratic form) -/
def PSD (n : Nat) (L : Nat → Nat → Rat) : Prop :=
  ∀ v : Nat → Rat, 0 ≤ sumQ ((List.range n).map fun j => sumQ ((List.range n).map fun k => v j * L j k * v k))

theorem PSD_toM (n : Nat) (L : Nat → Nat → Rat) (h : PSD n L) (v : Fin n → ℚ) :
    0 ≤ v ⬝ᵥ toM n L *ᵥ v := by
  have := h (fun i => if hi : i < n then v ⟨i, hi⟩ else 0)
  simp only [sumQ_range] at this
  simp only [dotProduct, mulVec, toM, Finset.mul_sum]
  convert this using 3 with j _ k _
  simp [mul_assoc]

/-- **core**: `0 ≤ tr(H K H · H L H) / n` -/
theorem scoreFn_nonneg (n : Nat) (K L : Nat → Nat → Rat) (hK : OuterSum n K) (hL : PSD n L) :
    0 ≤ scoreFn n K L := by
  rw [scoreFn_eq_trace]
  apply div_nonneg _ (by positivity)
  obtain ⟨m, c, u, hc, hK⟩ := hK
  have : toM n K = ∑ w : Fin m, (c w) • vecMulVec (fun i : Fin n => u w i) (fun i : Fin n => u w i) := by
    ext i j
    simp only [toM, hK i j i.2 j.2, sumQ_range, Matrix.sum_apply, Matrix.smul_apply, vecMulVec_apply,
      smul_eq_mul, mul_assoc]
  rw [this]
  exact trace_outer_sum_nonneg _ _ (toM_Hf_transpose n) (PSD_toM n L hL) _ _ (fun w => hc w)

theorem scoreFn_congr (n : Nat) (K K' L : Nat → Nat → Rat)
    (hK : ∀ j k, j < n → k < n → K j k = K' j k) : scoreFn n K L = scoreFn n K' L := by
  unfold scoreFn
  simp only []
  congr 1
  apply sumQ_map_congr; intro j hj
  apply sumQ_map_congr; intro k hk
  have hj' := List.mem_range.mp hj
  have hk' := List.mem_range.mp hk
  congr 1
  apply mmF_congr n _ _ _ _ _ _ j k hj' hk'
  · intro a b ha hb
    apply mmF_congr n _ _ _ _ _ _ a b ha hb
    · intro _ _ _ _; rfl
    · exact hK
  · intro _ _ _ _; rfl

theorem getD_map_row (ms : List (List Rat)) (p a : Nat) :
    (ms.map fun row => row.getD p 0).getD a 0 = (ms.getD a []).getD p 0 := by
  by_cases h : a < ms.length
  · simp [List.getD_eq_getElem?_getD, h]
  · simp [List.getD_eq_getElem?_getD, List.getElem?_eq_none (by omega : ms.length ≤ a)]

/-- index bookkeeping of `transpose → reshape → … → reshape → transpose`: cell `p` comes back to `p` -/
theorem cell_roundtrip (g p : Nat) (hp : p < g * g) :
    let k := (p % g) * g + p / g
    k < g * g ∧ (k % g) * g + k / g = p := by
  have hg : 0 < g := by
    rcases Nat.eq_zero_or_pos g with h | h
    · subst h; simp at hp
    · exact h
  have h1 : p / g < g := Nat.div_lt_of_lt_mul hp
  have h2 : p % g < g := Nat.mod_lt _ hg
  have hk1 : ((p % g) * g + p / g) % g = p / g := by
    rw [Nat.add_comm, Nat.add_mul_mod_self_right, Nat.mod_eq_of_lt h1]
  have hk2 : ((p % g) * g + p / g) / g = p % g := by
    rw [Nat.add_comm, Nat.add_mul_div_right _ _ hg, Nat.div_eq_of_lt h1, Nat.zero_add]
  refine ⟨?_, ?_⟩
  · calc (p % g) * g + p / g < (p % g) * g + g := by omega
      _ = (p % g + 1) * g := by ring
      _ ≤ g * g := Nat.mul_le_mul_right g h2
  · simp only [hk1, hk2]
    rw [Nat.mul_comm]; exact Nat.div_add_mod p g

end Xp.Hsic
