/-
  Helper lemmas for C15 (MuFidelity / AverageStability): chunk loop, reshapes, ranks,
  Cauchy–Schwarz, additive scores.
-/
import XpModel.MuFidelity
import XpProofs.Lemmas.Batching
import XpProofs.Lemmas.Vec
import XpProofs.Lemmas.Causal
import Mathlib.Algebra.Order.BigOperators.Ring.Finset
import Mathlib.Algebra.BigOperators.Intervals
import Mathlib.Tactic.Positivity

namespace Xp.MuFid
open List

/-! ### the `while total < nb_samples` loop -/

theorem chunkLoop_eq (pbs nb : Nat) (hp : 0 < pbs) : ∀ (fuel tot : Nat), tot ≤ nb → nb - tot ≤ fuel →
    (chunkLoop (pbs : Int) (nb : Int) fuel (tot : Int)).map Int.toNat = chunkSizes pbs (nb - tot)
  | 0, tot, h1, h2 => by
    have : nb - tot = 0 := by omega
    rw [this]; unfold chunkSizes; simp [chunkLoop]
  | fuel + 1, tot, h1, h2 => by
    unfold chunkLoop
    by_cases hlt : (tot : Int) < (nb : Int)
    · have hlt' : tot < nb := by exact_mod_cast hlt
      have hc : Gen.mufChunk (pbs : Int) (nb : Int) (tot : Int) = ((min pbs (nb - tot) : Nat) : Int) := by
        unfold Gen.mufChunk; omega
      simp only [hlt, if_true, hc, List.map_cons, Int.toNat_natCast]
      have hsum : (tot : Int) + ((min pbs (nb - tot) : Nat) : Int) = ((tot + min pbs (nb - tot) : Nat) : Int) := by
        push_cast; rfl
      rw [hsum, chunkLoop_eq pbs nb hp fuel (tot + min pbs (nb - tot)) (by omega) (by omega)]
      conv_rhs => unfold chunkSizes
      have hne : ¬ (pbs = 0 ∨ nb - tot = 0) := by omega
      simp only [hne, dite_false]
      congr 2
      omega
    · have : nb - tot = 0 := by
        have : ¬ tot < nb := by exact_mod_cast hlt
        omega
      rw [this]; unfold chunkSizes; simp [hlt]

/-! ### reshapes -/

theorem batches_append_uniform {α : Type} (c : Nat) (hc : 0 < c) (l rest : List α) (hl : l.length = c) :
    batches c (l ++ rest) = l :: batches c rest := by
  conv_lhs => unfold batches
  have hne : ¬ (c = 0 ∨ l ++ rest = []) := by
    intro h; rcases h with h | h
    · omega
    · have : l = [] := (List.append_eq_nil_iff.mp h).1
      rw [this] at hl; simp at hl; omega
  simp only [hne, dite_false]
  rw [List.take_left' hl, List.drop_left' hl]

/-- `reshape (n, c)` of a sample-major list of `n` rows of `c` values gives the rows back -/
theorem regroup_flatMap {α β : Type} (c : Nat) (hc : 0 < c) (xs : List α) (f : α → List β)
    (hf : ∀ x ∈ xs, (f x).length = c) : regroup c (xs.flatMap f) = xs.map f := by
  unfold regroup
  induction xs with
  | nil => unfold batches; simp
  | cons x xs ih =>
    rw [List.flatMap_cons, batches_append_uniform c hc _ _ (hf x (List.mem_cons_self ..)),
      ih (fun y hy => hf y (List.mem_cons_of_mem _ hy)), List.map_cons]

theorem batches_map {α β : Type} (b : Nat) (F : α → β) (xs : List α) :
    batches b (xs.map F) = (batches b xs).map (List.map F) := by
  generalize hn : xs.length = n
  induction n using Nat.strong_induction_on generalizing xs with
  | _ n ih =>
    by_cases h : b = 0 ∨ xs = []
    · have h' : b = 0 ∨ xs.map F = [] := by
        rcases h with h | h
        · exact Or.inl h
        · exact Or.inr (by simp [h])
      unfold batches; simp [h, h']
    · have h' : ¬ (b = 0 ∨ xs.map F = []) := by
        intro hh; apply h
        rcases hh with hh | hh
        · exact Or.inl hh
        · exact Or.inr (by simpa using hh)
      have hne : xs ≠ [] := fun e => h (Or.inr e)
      have hpos := List.length_pos_iff.mpr hne
      conv_lhs => unfold batches
      conv_rhs => unfold batches
      simp only [h, h', dite_false, List.map_cons, ← List.map_take, ← List.map_drop]
      rw [ih (xs.drop b).length (by simp only [List.length_drop]; omega) _ rfl]

theorem zipWith_map_right_self {α β γ : Type} (F : α → β → γ) (G : α → β) (l : List α) :
    List.zipWith F l (l.map G) = l.map fun a => F a (G a) := by
  induction l with
  | nil => rfl
  | cons a l ih => simp [ih]

theorem zipWith_map_left_self {α β γ : Type} (F : β → α → γ) (G : α → β) (l : List α) :
    List.zipWith F (l.map G) l = l.map fun a => F (G a) a := by
  induction l with
  | nil => rfl
  | cons a l ih => simp [ih]

/-- accumulating per-chunk rows by `concat(axis=1)` = rows over the concatenated chunks -/
theorem foldl_concat_rows {σ μ ρ : Type} (batch : List σ) (P : σ → μ → ρ) (chunks : List (List μ))
    (A : σ → List ρ) :
    chunks.foldl (fun acc ms => List.zipWith (· ++ ·) acc (batch.map fun b => ms.map (P b))) (batch.map A)
      = batch.map fun b => A b ++ chunks.flatten.map (P b) := by
  induction chunks generalizing A with
  | nil => simp
  | cons ms chunks ih =>
    simp only [List.foldl_cons, List.flatten_cons, List.map_append]
    have : List.zipWith (· ++ ·) (batch.map A) (batch.map fun b => ms.map (P b))
        = batch.map fun b => A b ++ ms.map (P b) := by
      rw [List.zipWith_map, List.zipWith_self]
    rw [this, ih]
    apply List.map_congr_left; intro b _; simp

/-! ### sums and means -/

theorem sum_eq_range (l : List Rat) : l.sum = ∑ i ∈ Finset.range l.length, l.getD i 0 := by
  induction l with
  | nil => simp
  | cons a l ih =>
    rw [List.length_cons, Finset.sum_range_succ', List.sum_cons, ih]
    simp [add_comm]

/-- Cauchy–Schwarz for two lists of equal length -/
theorem cauchy_schwarz_lists (a b : List Rat) (h : a.length = b.length) :
    (sumQ (List.zipWith (· * ·) a b)) ^ 2 ≤ sumQ (a.map fun u => u * u) * sumQ (b.map fun v => v * v) := by
  rw [sumQ_eq_sum, sumQ_eq_sum, sumQ_eq_sum, sum_eq_range, sum_eq_range, sum_eq_range]
  simp only [List.length_zipWith, List.length_map, ← h, Nat.min_self]
  have e1 : ∀ i ∈ Finset.range a.length, (List.zipWith (· * ·) a b).getD i 0 = a.getD i 0 * b.getD i 0 := by
    intro i hi
    have hi' : i < a.length := Finset.mem_range.mp hi
    have hib : i < b.length := h ▸ hi'
    simp [List.getD_eq_getElem?_getD, List.getElem?_zipWith, List.getElem?_eq_getElem hi',
      List.getElem?_eq_getElem hib]
  have e2 : ∀ (l : List Rat), ∀ i ∈ Finset.range l.length, (l.map fun u => u * u).getD i 0 = l.getD i 0 ^ 2 := by
    intro l i hi
    have hi' : i < l.length := Finset.mem_range.mp hi
    simp [List.getD_eq_getElem?_getD, List.getElem?_eq_getElem hi', pow_two]
  rw [Finset.sum_congr rfl e1, Finset.sum_congr rfl (e2 a), h, Finset.sum_congr rfl (e2 b), ← h]
  exact Finset.sum_mul_sq_le_sq_mul_sq _ _ _

theorem sumQ_nonneg (l : List Rat) (h : ∀ v ∈ l, 0 ≤ v) : 0 ≤ sumQ l := by
  induction l with
  | nil => simp
  | cons a l ih =>
    rw [sumQ_cons]
    have := h a (List.mem_cons_self ..)
    have := ih (fun v hv => h v (List.mem_cons_of_mem _ hv))
    linarith

theorem meanQ_nonneg (l : List Rat) (h : ∀ v ∈ l, 0 ≤ v) : 0 ≤ meanQ l := by
  unfold meanQ
  exact div_nonneg (sumQ_nonneg l h) (by positivity)

theorem sumQ_map_const {α : Type} (l : List α) (c : Rat) : sumQ (l.map fun _ => c) = (l.length : Rat) * c := by
  induction l with
  | nil => simp
  | cons a l ih => simp only [List.map_cons, sumQ_cons, ih, List.length_cons]; push_cast; ring

theorem meanQ_map_const {α : Type} (l : List α) (hl : l ≠ []) (c : Rat) : meanQ (l.map fun _ => c) = c := by
  unfold meanQ
  rw [sumQ_map_const, List.length_map]
  have : (l.length : Rat) ≠ 0 := by simpa using hl
  field_simp

theorem sumQ_map_mul {α : Type} (l : List α) (c : Rat) (u : α → Rat) :
    sumQ (l.map fun i => c * u i) = c * sumQ (l.map u) := by
  induction l with
  | nil => simp
  | cons a l ih => simp only [List.map_cons, sumQ_cons, ih]; ring

/-! ### average ranks -/

/-- ranks depend on the values only through comparisons -/
theorem avgRanks_map (φ : Rat → Rat) (hφ : StrictMono φ) (xs : List Rat) :
    avgRanks (xs.map φ) = avgRanks xs := by
  unfold avgRanks
  rw [List.map_map]
  apply List.map_congr_left
  intro x _
  simp only [Function.comp, List.countP_map]
  have h1 : ((fun z => decide (z < φ x)) ∘ φ) = fun z => decide (z < x) := by
    funext z; simp [hφ.lt_iff_lt]
  have h2 : ((fun z => decide (z = φ x)) ∘ φ) = fun z => decide (z = x) := by
    funext z; simp [hφ.injective.eq_iff]
  rw [h1, h2]

theorem count_partition (xs : List Rat) (x : Rat) :
    xs.countP (fun z => decide (z < x)) + xs.countP (fun z => decide (z = x))
      + xs.countP (fun z => decide (x < z)) = xs.length := by
  induction xs with
  | nil => simp
  | cons a l ih =>
    simp only [List.countP_cons, List.length_cons]
    rcases lt_trichotomy a x with h | h | h
    · have h2 : ¬ a = x := ne_of_lt h
      have h3 : ¬ x < a := not_lt.mpr h.le
      simp [h, h2, h3]; omega
    · subst h; simp; omega
    · have h2 : ¬ a = x := ne_of_gt h
      have h3 : ¬ a < x := not_lt.mpr h.le
      simp [h, h2, h3]; omega

/-- negating the values mirrors the ranks: `rank' = n + 1 − rank` -/
theorem avgRanks_neg (xs : List Rat) :
    avgRanks (xs.map fun v => -v) = (avgRanks xs).map fun r => (xs.length : Rat) + 1 - r := by
  unfold avgRanks
  rw [List.map_map, List.map_map]
  apply List.map_congr_left
  intro x _
  simp only [Function.comp, List.countP_map]
  have h1 : ((fun z => decide (z < -x)) ∘ fun v => -v) = fun z => decide (x < z) := by
    funext z; simp
  have h2 : ((fun z => decide (z = -x)) ∘ fun v => -v) = fun z => decide (z = x) := by
    funext z; simp
  rw [h1, h2]
  have := count_partition xs x
  have hc : (xs.length : Rat) = (xs.countP (fun z => decide (z < x)) : Rat) + (xs.countP (fun z => decide (z = x)) : Rat)
      + (xs.countP (fun z => decide (x < z)) : Rat) := by exact_mod_cast this.symm
  rw [hc]; ring

theorem avgRanks_length (xs : List Rat) : (avgRanks xs).length = xs.length := by simp [avgRanks]

/-- all values equal: all ranks equal -/
theorem avgRanks_const (xs : List Rat) (v : Rat) (h : ∀ x ∈ xs, x = v) :
    avgRanks xs = xs.map fun _ => ((xs.length : Rat) + 1) / 2 := by
  unfold avgRanks
  apply List.map_congr_left
  intro x hx
  have hxv := h x hx
  subst hxv
  have h1 : xs.countP (fun z => decide (z < x)) = 0 := by
    rw [List.countP_eq_zero]; intro z hz; simp [h z hz]
  have h2 : xs.countP (fun z => decide (z = x)) = xs.length := by
    rw [List.countP_eq_length]; intro z hz; simp [h z hz]
  rw [h1, h2]; simp

/-! ### centred moments -/

theorem covTriple_self (r : List Rat) :
    covTriple r r = ((covTriple r r).2.1, (covTriple r r).2.1, (covTriple r r).2.1) := by
  unfold covTriple
  simp only [List.zipWith_self]

theorem meanQ_affine (r : List Rat) (hr : r ≠ []) (c : Rat) :
    meanQ (r.map fun v => c - v) = c - meanQ r := by
  unfold meanQ
  rw [Causal.sumQ_map_sub r (fun _ => c) (fun v => v), sumQ_map_const, List.map_id', List.length_map]
  have : (r.length : Rat) ≠ 0 := by simpa using hr
  field_simp

/-- mirrored second sequence: covariance changes sign, variances are kept -/
theorem covTriple_mirror (r : List Rat) (c : Rat) :
    covTriple r (r.map fun v => c - v)
      = (-(covTriple r r).2.1, (covTriple r r).2.1, (covTriple r r).2.1) := by
  by_cases hr : r = []
  · subst hr; simp [covTriple]
  · unfold covTriple
    simp only [meanQ_affine r hr c, List.zipWith_map_right, List.zipWith_self, List.map_map, Function.comp]
    refine Prod.ext ?_ (Prod.ext rfl ?_)
    · simp only
      rw [← neg_one_mul, ← sumQ_map_mul]
      congr 1; apply List.map_congr_left; intro v _; ring
    · simp only
      congr 1; apply List.map_congr_left; intro v _; simp only [Function.comp]; ring

/-- first sequence constant: its variance vanishes -/
theorem covTriple_const_left (a b : List Rat) (c : Rat) (h : ∀ u ∈ a, u = c) : (covTriple a b).2.1 = 0 := by
  unfold covTriple
  simp only
  by_cases ha : a = []
  · subst ha; simp
  · have hm : meanQ a = c := by
      have : a = a.map fun _ => c := by
        conv_lhs => rw [← List.map_id a]
        apply List.map_congr_left; intro u hu; simpa using h u hu
      rw [this]; exact meanQ_map_const a ha c
    rw [hm]
    have : (a.map fun u => (u - c) * (u - c)) = a.map fun _ => (0 : Rat) := by
      apply List.map_congr_left; intro u hu; rw [h u hu]; ring
    rw [this, sumQ_map_const]; ring

/-! ### additive scores: prediction drop = summed attributions -/

theorem attrOf_scale (cp : Nat) (c : Rat) (phi m : List Rat) :
    attrOf cp (phi.map fun v => c * v) m = c * attrOf cp phi m := by
  unfold attrOf
  rw [List.length_map, ← sumQ_map_mul]
  congr 1
  apply List.map_congr_left
  intro k hk
  have hk' : k < phi.length := List.mem_range.mp hk
  simp [List.getD_eq_getElem?_getD, List.getElem?_eq_getElem hk']
  ring

theorem attrOf_neg (cp : Nat) (phi m : List Rat) :
    attrOf cp (phi.map fun v => -v) m = - attrOf cp phi m := by
  have := attrOf_scale cp (-1) phi m
  simpa using this

/-- score additive over the flat input positions -/
def ElemAdditive (D : Nat) (f : List Rat → Rat) (c0 : Rat) (h : Nat → Rat → Rat) : Prop :=
  ∀ z : List Rat, z.length = D → f z = c0 + sumQ ((List.range D).map fun k => h k (z.getD k 0))

theorem degrade_length (c : Nat) (x base m : List Rat) : (degrade c x base m).length = x.length := by
  simp [degrade]

/-- for an additive score, binary masks and the exact attributions `φ_k = h_k(x_k) − h_k(base_k)`,
    the prediction drop equals the summed attributions of the masked-out subset -/
theorem additive_pred_eq_attr (D c : Nat) (f : List Rat → Rat) (c0 : Rat) (h : Nat → Rat → Rat)
    (hadd : ElemAdditive D f c0 h) (x base m : List Rat) (hx : x.length = D)
    (hbin : ∀ k, k < D → m.getD (k / c) 0 = 0 ∨ m.getD (k / c) 0 = 1) :
    f x - f (degrade c x base m)
      = attrOf c ((List.range D).map fun k => h k (x.getD k 0) - h k (base.getD k 0)) m := by
  rw [hadd x hx, hadd _ ((degrade_length c x base m).trans hx)]
  unfold attrOf
  rw [List.length_map, List.length_range]
  have : ∀ a b : Rat, c0 + a - (c0 + b) = a - b := fun a b => by ring
  rw [this, ← Causal.sumQ_map_sub]
  congr 1
  apply List.map_congr_left
  intro k hk
  have hk' : k < D := List.mem_range.mp hk
  have hkx : k < x.length := hx ▸ hk'
  have hd : (degrade c x base m).getD k 0
      = x.getD k 0 * m.getD (k / c) 0 + (1 - m.getD (k / c) 0) * base.getD k 0 := by
    simp [degrade, List.getD_eq_getElem?_getD, hkx]
  have hg : ((List.range D).map fun k => h k (x.getD k 0) - h k (base.getD k 0)).getD k 0
      = h k (x.getD k 0) - h k (base.getD k 0) := by
    simp [List.getD_eq_getElem?_getD, hk']
  rw [hd, hg]
  rcases hbin k hk' with h0 | h1
  · rw [h0]; simp
  · rw [h1]; simp

/-! ### channel-summed attributions -/

theorem sumQ_range_mul (F C : Nat) (u : Nat → Rat) :
    sumQ ((List.range (F * C)).map u)
      = sumQ ((List.range F).map fun i => sumQ ((List.range C).map fun ch => u (i * C + ch))) := by
  induction F with
  | zero => simp
  | succ F ih =>
    have : (F + 1) * C = F * C + C := by ring
    rw [this, List.range_add, List.map_append, sumQ_append, ih, List.range_succ, List.map_append, sumQ_append]
    simp [List.map_map, Function.comp_def]

theorem attrOf_cellSum (F C : Nat) (hC : 0 < C) (phi m : List Rat) (hlen : phi.length = F * C) :
    attrOf 1 (cellSum F C phi) m = attrOf C phi m := by
  unfold attrOf
  rw [hlen, sumQ_range_mul]
  simp only [cellSum, List.length_map, List.length_range, Nat.div_one]
  congr 1
  apply List.map_congr_left
  intro i hi
  have hi' : i < F := List.mem_range.mp hi
  rw [getD_range_map F _ i hi', mul_comm, ← sumQ_map_mul]
  congr 1
  apply List.map_congr_left
  intro ch hch
  have hch' : ch < C := List.mem_range.mp hch
  have : (i * C + ch) / C = i := by
    rw [Nat.mul_comm, Nat.mul_add_div hC, Nat.div_eq_of_lt hch', Nat.add_zero]
  rw [this]; ring

end Xp.MuFid
