import XpModel.ProtoSel
import XpProofs.Lemmas.Vec
import Mathlib.Data.List.Basic
import Mathlib.Tactic.Ring
import Mathlib.Tactic.Linarith
import Mathlib.Algebra.Order.Field.Rat

namespace Xp.ProtoSel
variable {α σ : Type}

/-- invariant rule for `for r, x in enumerate(l)` loops -/
theorem foldl_zipIdx_inv (P : Nat → σ → Prop) (f : σ → α × Nat → σ) (l : List α)
    (hstep : ∀ r (hr : r < l.length) s, P r s → P (r + 1) (f s (l[r], r)))
    (s0 : σ) (h0 : P 0 s0) : P l.length (l.zipIdx.foldl f s0) := by
  suffices h : ∀ (suf pre : List α) (s : σ), l = pre ++ suf → P pre.length s →
      P l.length ((suf.zipIdx pre.length).foldl f s) by
    simpa using h l [] s0 (by simp) (by simpa using h0)
  intro suf
  induction suf with
  | nil =>
    intro pre s hl hP
    simp only [List.append_nil] at hl
    subst hl
    simpa using hP
  | cons a suf ih =>
    intro pre s hl hP
    rw [List.zipIdx_cons, List.foldl_cons]
    have hlen : pre.length < l.length := by rw [hl]; simp
    have ha : l[pre.length] = a := by
      subst hl
      simp
    have := ih (pre ++ [a]) (f s (a, pre.length)) (by simp [hl]) (by
      have h := hstep pre.length hlen s hP
      rw [ha] at h
      simpa using h)
    simpa using this

/-! ### vectors of the form `cols.map g` -/

theorem vadd_map (l : List α) (f g : α → Rat) :
    vadd (l.map f) (l.map g) = l.map fun x => f x + g x := by
  induction l with
  | nil => rfl
  | cons a l ih =>
    simp only [vadd] at ih
    simp [vadd, ih]

theorem vzero_eq_map (l : List α) : vzero l.length = l.map fun _ => (0 : Rat) := by
  unfold vzero
  exact List.map_const'.symm

theorem sumQ_map_append (f : α → Rat) (a b : List α) :
    sumQ ((a ++ b).map f) = sumQ (a.map f) + sumQ (b.map f) := by
  rw [List.map_append, sumQ_append]

/-! ### the traversal -/

section tri
variable (K : Kern) (bt : List (List Nat))

/-- sum of the kernel column of case `j` over the rows of a list of batches -/
def colPart (rows : List Nat) (j : Nat) : Rat := sumQ (rows.map fun i => K i j)
/-- sum of the kernel row of case `i` over a list of columns -/
def rowPart (cols : List Nat) (i : Nat) : Rat := sumQ (cols.map fun j => K i j)

theorem colSumBlock_eq (rows cols : List Nat) : colSumBlock K rows cols = cols.map (colPart K rows) := rfl
theorem rowSumBlock_eq (rows cols : List Nat) : rowSumBlock K rows cols = rows.map (rowPart K cols) := rfl

theorem colPart_append (r1 r2 : List Nat) (j : Nat) :
    colPart K (r1 ++ r2) j = colPart K r1 j + colPart K r2 j := sumQ_map_append _ _ _
theorem rowPart_append (c1 c2 : List Nat) (i : Nat) :
    rowPart K (c1 ++ c2) i = rowPart K c1 i + rowPart K c2 i := sumQ_map_append _ _ _
theorem colPart_nil (j : Nat) : colPart K [] j = 0 := rfl
theorem rowPart_nil (i : Nat) : rowPart K [] i = 0 := rfl

theorem rowPart_symm (hsym : ∀ i j, K i j = K j i) (cols : List Nat) (i : Nat) :
    rowPart K cols i = colPart K cols i := by
  unfold rowPart colPart
  congr 1
  apply List.map_congr_left
  intro j _
  exact hsym i j

def B (r : Nat) : List Nat := bt.getD r []

theorem B_eq (r : Nat) (hr : r < bt.length) : bt[r] = B bt r := by
  simp [B, List.getD_eq_getElem?_getD, List.getElem?_eq_getElem hr]

/-- stored row sums of batch `ri` after `c` column batches -/
def RS (c ri : Nat) : List Rat := (B bt ri).map (rowPart K (bt.take (min c ri)).flatten)

theorem take_succ_flatten (c : Nat) (hc : c < bt.length) :
    (bt.take (c + 1)).flatten = (bt.take c).flatten ++ B bt c := by
  rw [← B_eq bt c hc, List.take_add_one, List.getElem?_eq_getElem hc]
  simp only [Option.toList_some, List.flatten_append, List.flatten_cons, List.flatten_nil,
    List.append_nil]

/-- the part of the inner-loop state that concerns `row_sums` -/
def RsInv (c r : Nat) (colB : List Nat) (rs0 rs : List (List Rat)) : Prop :=
  if c = 0 then
    rs.length = max r 1 ∧ rs.getD 0 [] = rs0.getD 0 [] ∧
      ∀ ri, 1 ≤ ri → ri < r → rs.getD ri [] = (B bt ri).map (rowPart K colB)
  else
    rs.length = rs0.length ∧ ∀ ri, rs.getD ri [] =
      if c < ri ∧ ri < r then vadd (rs0.getD ri []) ((B bt ri).map (rowPart K colB)) else rs0.getD ri []

/-- invariant of the inner loop (column batch `c`, `r` row batches processed) -/
def InnerInv (c : Nat) (h : Nat → Rat) (rs0 dg0 : List (List Rat)) (r : Nat) (st : Inner) : Prop :=
  st.cs = (B bt c).map (fun j => colPart K ((bt.take r).drop c).flatten j + (if c < r then h j else 0)) ∧
  st.dg = dg0 ++ (if c < r then [diagBlock K (B bt c) (B bt c)] else []) ∧
  RsInv K bt c r (B bt c) rs0 st.rs

theorem getD_set_list (l : List (List Rat)) (i j : Nat) (v : List Rat) :
    (l.set i v).getD j [] = if i = j ∧ i < l.length then v else l.getD j [] := by
  simp only [List.getD_eq_getElem?_getD, List.getElem?_set]
  by_cases hij : i = j
  · subst hij
    by_cases hi : i < l.length
    · simp [hi]
    · simp [hi, List.getElem?_eq_none (not_lt.mp hi)]
  · simp [hij]

theorem inner_step (c : Nat) (hc : c < bt.length) (h : Nat → Rat) (rs0 dg0 : List (List Rat))
    (hrs0 : rs0.getD c [] = (B bt c).map h) (hlen0 : if c = 0 then rs0.length = 1 else rs0.length = bt.length)
    (r : Nat) (hr : r < bt.length) (st : Inner)
    (hinv : InnerInv K bt c h rs0 dg0 r st) :
    InnerInv K bt c h rs0 dg0 (r + 1) (innerStep K c (B bt c) st (bt[r], r)) := by
  obtain ⟨hcs, hdg, hrs⟩ := hinv
  have hBr : bt[r] = B bt r := B_eq bt r hr
  unfold innerStep
  simp only
  by_cases h1 : c > r
  · -- above the diagonal: nothing happens
    rw [if_pos h1]
    refine ⟨?_, ?_, ?_⟩
    · rw [hcs]
      apply List.map_congr_left
      intro j _
      have e1 : (bt.take r).drop c = [] := by
        apply List.drop_eq_nil_of_le; simp only [List.length_take]; omega
      have e2 : (bt.take (r + 1)).drop c = [] := by
        apply List.drop_eq_nil_of_le; simp only [List.length_take]; omega
      have n1 : ¬ c < r := by omega
      have n2 : ¬ c < r + 1 := by omega
      simp [e1, e2, n1, n2]
    · rw [hdg]
      have n1 : ¬ c < r := by omega
      have n2 : ¬ c < r + 1 := by omega
      simp [n1, n2]
    · unfold RsInv at hrs ⊢
      by_cases hc0 : c = 0
      · omega
      · rw [if_neg hc0] at hrs ⊢
        refine ⟨hrs.1, ?_⟩
        intro ri
        rw [hrs.2 ri]
        have : ¬ (c < ri ∧ ri < r) := by omega
        have : ¬ (c < ri ∧ ri < r + 1) := by omega
        simp [*]
  · rw [if_neg h1]
    have hdrop : (bt.take (r + 1)).drop c = (bt.take r).drop c ++ [B bt r] := by
      rw [List.take_add_one, List.drop_append_of_le_length (by simp only [List.length_take]; omega),
        List.getElem?_eq_getElem hr, hBr]
      simp
    by_cases h2 : c = r
    · -- diagonal block
      subst h2
      rw [if_pos rfl]
      have hrs_c : st.rs.getD c [] = rs0.getD c [] := by
        unfold RsInv at hrs
        by_cases hc0 : c = 0
        · rw [if_pos hc0] at hrs; subst hc0; exact hrs.2.1
        · rw [if_neg hc0] at hrs
          rw [hrs.2 c]
          simp
      refine ⟨?_, ?_, ?_⟩
      · simp only [hBr, hrs_c, hrs0, hcs, colSumBlock_eq, vadd_map]
        apply List.map_congr_left
        intro j _
        rw [hdrop, List.flatten_append, colPart_append]
        simp
      · rw [hdg, hBr]; simp
      · unfold RsInv at hrs ⊢
        by_cases hc0 : c = 0
        · rw [if_pos hc0] at hrs ⊢
          subst hc0
          refine ⟨by rw [hrs.1]; simp, hrs.2.1, ?_⟩
          intro ri h1 h2; omega
        · rw [if_neg hc0] at hrs ⊢
          refine ⟨hrs.1, ?_⟩
          intro ri
          rw [hrs.2 ri]
          have : ¬ (c < ri ∧ ri < c) := by omega
          have : ¬ (c < ri ∧ ri < c + 1) := by omega
          simp [*]
    · -- strictly below the diagonal
      rw [if_neg h2]
      have hcr : c < r := by omega
      refine ⟨?_, ?_, ?_⟩
      · simp only [hBr, hcs, colSumBlock_eq, vadd_map]
        apply List.map_congr_left
        intro j _
        rw [hdrop, List.flatten_append, colPart_append]
        have : c < r + 1 := by omega
        simp [hcr, this]
        ring
      · rw [hdg]
        have : c < r + 1 := by omega
        simp [hcr, this]
      · unfold RsInv at hrs ⊢
        by_cases hc0 : c = 0
        · rw [if_pos hc0] at hrs ⊢
          subst hc0
          rw [if_pos rfl]
          obtain ⟨hl, h0, hrest⟩ := hrs
          have hlr : st.rs.length = r := by rw [hl]; omega
          refine ⟨by simp [hl]; omega, ?_, ?_⟩
          · rw [← h0]
            simp only [List.getD_eq_getElem?_getD]
            rw [List.getElem?_append_left (by omega)]
          · intro ri h1 h2
            by_cases hri : ri < r
            · rw [← hrest ri h1 hri]
              simp only [List.getD_eq_getElem?_getD]
              rw [List.getElem?_append_left (by omega)]
            · have : ri = r := by omega
              subst this
              simp only [List.getD_eq_getElem?_getD]
              rw [List.getElem?_append_right (by omega)]
              simp [hlr, hBr, rowSumBlock_eq]
        · rw [if_neg hc0] at hrs ⊢
          rw [if_neg hc0]
          obtain ⟨hl, hget⟩ := hrs
          refine ⟨by simp [hl], ?_⟩
          intro ri
          rw [getD_set_list]
          have hlen0' : rs0.length = bt.length := by simpa [hc0] using hlen0
          by_cases hri : r = ri
          · subst hri
            have : r < st.rs.length := by rw [hl, hlen0']; exact hr
            rw [if_pos ⟨rfl, this⟩, hget r]
            have n1 : ¬ (c < r ∧ r < r) := by omega
            have n2 : (c < r ∧ r < r + 1) := by omega
            simp [n1, n2, hBr, rowSumBlock_eq]
          · have : ¬ (r = ri ∧ r < st.rs.length) := by omega
            rw [if_neg this, hget ri]
            by_cases hx : c < ri ∧ ri < r
            · have : c < ri ∧ ri < r + 1 := by omega
              simp [hx, this]
            · have : ¬ (c < ri ∧ ri < r + 1) := by omega
              simp [hx, this]

/-- result of the whole inner loop for column batch `c` -/
theorem inner_loop (c : Nat) (hc : c < bt.length) (h : Nat → Rat) (rs0 dg0 : List (List Rat))
    (hrs0 : rs0.getD c [] = (B bt c).map h) (hlen0 : if c = 0 then rs0.length = 1 else rs0.length = bt.length) :
    InnerInv K bt c h rs0 dg0 bt.length
      (bt.zipIdx.foldl (innerStep K c (B bt c)) { cs := vzero (B bt c).length, rs := rs0, dg := dg0 }) := by
  apply foldl_zipIdx_inv (InnerInv K bt c h rs0 dg0) (innerStep K c (B bt c)) bt
  · intro r hr st hinv
    exact inner_step K bt c hc h rs0 dg0 hrs0 hlen0 r hr st hinv
  · refine ⟨?_, ?_, ?_⟩
    · simp only [vzero_eq_map]
      apply List.map_congr_left
      intro j _
      simp [colPart_nil]
    · simp
    · unfold RsInv
      by_cases hc0 : c = 0
      · rw [if_pos hc0]
        rw [if_pos hc0] at hlen0
        simp [hlen0]
      · rw [if_neg hc0]
        simp

/-- invariant of the outer loop -/
def OuterInv (c : Nat) (st : Outer) : Prop :=
  st.colSums = (bt.take c).map (fun colB => colB.map (colPart K bt.flatten)) ∧
  st.diag = (bt.take c).map (fun colB => diagBlock K colB colB) ∧
  st.nb = (bt.take c).flatten.length ∧
  (if c = 0 then st.rs = [vzero (bt.headD []).length]
   else st.rs.length = bt.length ∧ ∀ ri, ri < bt.length → st.rs.getD ri [] = RS K bt c ri)

theorem headD_eq_B0 : bt.headD [] = B bt 0 := by
  cases bt <;> simp [B]

theorem outer_step (hsym : ∀ i j, K i j = K j i) (c : Nat) (hc : c < bt.length) (st : Outer)
    (hinv : OuterInv K bt c st) : OuterInv K bt (c + 1) (outerStep K bt st (bt[c], c)) := by
  obtain ⟨hcs, hdg, hnb, hrs⟩ := hinv
  have hBc : bt[c] = B bt c := B_eq bt c hc
  unfold outerStep
  simp only [hBc]
  -- the stored row sums of this batch are a function of its cases
  have hrs0 : st.rs.getD c [] = (B bt c).map (rowPart K (bt.take c).flatten) := by
    by_cases hc0 : c = 0
    · subst hc0
      rw [if_pos rfl] at hrs
      rw [hrs]
      show vzero (bt.headD []).length = _
      rw [headD_eq_B0, vzero_eq_map]
      apply List.map_congr_left
      intro i _
      simp [rowPart_nil]
    · rw [if_neg hc0] at hrs
      rw [hrs.2 c hc]
      simp [RS]
  have hlen0 : if c = 0 then st.rs.length = 1 else st.rs.length = bt.length := by
    by_cases hc0 : c = 0
    · rw [if_pos hc0] at hrs ⊢; rw [hrs]; rfl
    · rw [if_neg hc0] at hrs ⊢; exact hrs.1
  obtain ⟨h1, h2, h3⟩ := inner_loop K bt c hc (rowPart K (bt.take c).flatten) st.rs st.diag hrs0 hlen0
  refine ⟨?_, ?_, ?_, ?_⟩
  · rw [hcs, List.take_add_one, h1, List.getElem?_eq_getElem hc, hBc]
    simp only [Option.toList_some, List.map_append, List.map_cons, List.map_nil]
    congr 2
    apply List.map_congr_left
    intro j _
    have e : (bt.take bt.length).drop c = bt.drop c := by simp
    rw [e, if_pos hc, rowPart_symm K hsym]
    have : bt.flatten = (bt.take c).flatten ++ (bt.drop c).flatten := by
      rw [← List.flatten_append, List.take_append_drop]
    rw [this, colPart_append]
    ring
  · rw [h2, hdg, List.take_add_one, if_pos hc, List.getElem?_eq_getElem hc, hBc]
    simp
  · simp only [hnb, take_succ_flatten bt c hc, List.length_append]
  · rw [if_neg (by omega)]
    unfold RsInv at h3
    by_cases hc0 : c = 0
    · subst hc0
      rw [if_pos rfl] at h3
      obtain ⟨hl, hz, hrest⟩ := h3
      refine ⟨by rw [hl]; omega, ?_⟩
      intro ri hri
      by_cases h0 : ri = 0
      · subst h0
        rw [hz, hrs0]
        simp [RS]
      · rw [hrest ri (by omega) hri]
        have : min 1 ri = 1 := by omega
        simp only [RS, zero_add, this]
        congr 2
        rw [List.take_one]
        cases bt with
        | nil => simp at hc
        | cons a t => simp [B]
    · rw [if_neg hc0] at h3 hrs
      obtain ⟨hl, hget⟩ := h3
      refine ⟨by rw [hl]; exact hrs.1, ?_⟩
      intro ri hri
      rw [hget ri, hrs.2 ri hri]
      by_cases hx : c < ri
      · rw [if_pos ⟨hx, hri⟩]
        have e1 : min c ri = c := by omega
        have e2 : min (c + 1) ri = c + 1 := by omega
        simp only [RS, e1, e2, vadd_map, take_succ_flatten bt c hc]
        apply List.map_congr_left
        intro x _
        rw [rowPart_append]
      · have : ¬ (c < ri ∧ ri < bt.length) := by omega
        rw [if_neg this]
        have e1 : min c ri = ri := by omega
        have e2 : min (c + 1) ri = ri := by omega
        simp only [RS, e1, e2]

/-- **the triangular traversal computes the full column sums** (any partition into batches,
    symmetric kernel), the diagonal and the number of samples -/
theorem triangular_spec (hsym : ∀ i j, K i j = K j i) :
    (triangular K bt).colSums = bt.map (fun colB => colB.map (colPart K bt.flatten)) ∧
    (triangular K bt).diag = bt.map (fun colB => diagBlock K colB colB) ∧
    (triangular K bt).nb = bt.flatten.length := by
  have := foldl_zipIdx_inv (OuterInv K bt) (outerStep K bt) bt
    (fun c hc st hinv => outer_step K bt hsym c hc st hinv)
    { colSums := [], diag := [], rs := [vzero (bt.headD []).length], nb := 0 }
    (by refine ⟨by simp, by simp, by simp, by simp⟩)
  obtain ⟨h1, h2, h3, _⟩ := this
  simp only [List.take_length] at h1 h2 h3
  exact ⟨h1, h2, h3⟩

end tri
end Xp.ProtoSel
