/-
  Helper lemmas for C14 (Deletion / Insertion): row flips, dict semantics, trapezoid,
  step spacing, comparison sorts, top-k sums.
-/
import XpModel.Causal
import XpProofs.Lemmas.Batching
import XpProofs.Lemmas.Vec
import Mathlib.Data.List.Sort
import Mathlib.Data.List.Perm.Subperm
import Mathlib.Tactic.Ring
import Mathlib.Tactic.Linarith
import Mathlib.Tactic.FieldSimp
import Mathlib.Algebra.Order.Field.Rat
import Mathlib.Algebra.BigOperators.Group.List.Basic

namespace Xp.Causal
open List

/-! ### flips -/

theorem foldl_set_length (e : List (List Rat)) (ids : List Nat) (acc : List (List Rat)) :
    (ids.foldl (fun acc i => acc.set i (e.getD i [])) acc).length = acc.length := by
  induction ids generalizing acc with
  | nil => rfl
  | cons a ids ih => simp only [foldl_cons]; rw [ih]; simp

theorem foldl_set_eq (e : List (List Rat)) (ids : List Nat) (acc : List (List Rat)) :
    ids.foldl (fun acc i => acc.set i (e.getD i [])) acc
      = (List.range acc.length).map fun i => if ids.contains i then e.getD i [] else acc.getD i [] := by
  induction ids generalizing acc with
  | nil =>
    apply List.ext_getElem (by simp)
    intro k h1 h2
    have hk : k < acc.length := by simpa using h2
    simp [List.getD_eq_getElem?_getD, List.getElem?_eq_getElem hk]
  | cons a ids ih =>
    simp only [foldl_cons]
    rw [ih, length_set]
    apply List.map_congr_left
    intro i hi
    have hi' : i < acc.length := List.mem_range.mp hi
    by_cases hc : i ∈ ids
    · simp [hc]
    · by_cases hia : i = a
      · subst hia
        simp [hc, List.getD_eq_getElem?_getD, List.getElem?_set, hi']
      · simp [hc, hia, List.getD_eq_getElem?_getD, List.getElem?_set, Ne.symm hia]

/-- the row-by-row assignment of the code is the pointwise "selected rows come from `end_`" -/
theorem flipImpl_eq_flipSpec (s e : List (List Rat)) (ids : List Nat) :
    flipImpl s e ids = flipSpec s e ids := by
  unfold flipImpl flipSpec
  exact foldl_set_eq e ids s

theorem flipSpec_length (s e : List (List Rat)) (ids : List Nat) : (flipSpec s e ids).length = s.length := by
  simp [flipSpec]

theorem flipSpec_getD (s e : List (List Rat)) (ids : List Nat) (i : Nat) (hi : i < s.length) :
    (flipSpec s e ids).getD i [] = if ids.contains i then e.getD i [] else s.getD i [] := by
  simp [flipSpec, List.getD_eq_getElem?_getD, hi]

theorem flipSpec_nil (s e : List (List Rat)) : flipSpec s e [] = s := by
  unfold flipSpec
  apply List.ext_getElem (by simp)
  intro k h1 h2
  simp [List.getD_eq_getElem?_getD, List.getElem?_eq_getElem h2]

/-- selecting every feature yields the end state -/
theorem flipSpec_all (s e : List (List Rat)) (ids : List Nat) (hlen : s.length = e.length)
    (hall : ∀ i, i < s.length → i ∈ ids) : flipSpec s e ids = e := by
  unfold flipSpec
  apply List.ext_getElem (by simp [hlen])
  intro k h1 h2
  have hk : k < s.length := by simpa using h1
  have : k ∈ ids := hall k hk
  simp [this, List.getD_eq_getElem?_getD, List.getElem?_eq_getElem h2]

/-! ### Python dict built in a loop -/

theorem dictInsert_map (g : Nat → Rat) (L : List Nat) (k : Nat) :
    dictInsert (L.map fun k => (k, g k)) k (g k)
      = (if L.contains k then L else L ++ [k]).map fun k => (k, g k) := by
  unfold dictInsert
  by_cases h : k ∈ L
  · have h1 : ((L.map fun k => (k, g k)).any fun p => p.1 == k) = true := by
      simp only [List.any_map, List.any_eq_true, Function.comp, beq_iff_eq]
      exact ⟨k, h, rfl⟩
    have h2 : L.contains k = true := by simpa using h
    simp only [h1, h2, if_true, List.map_map]
    apply List.map_congr_left
    intro a _
    by_cases hak : a = k
    · subst hak; simp
    · simp [hak]
  · have h1 : ((L.map fun k => (k, g k)).any fun p => p.1 == k) = false := by
      rw [Bool.eq_false_iff]
      simp only [ne_eq, List.any_map, List.any_eq_true, Function.comp, beq_iff_eq, not_exists, not_and]
      intro a ha hak; exact h (hak ▸ ha)
    simp [h1, h]

theorem foldl_keys (steps acc : List Nat) :
    steps.foldl (fun acc k => if acc.contains k then acc else acc ++ [k]) acc
      = acc ++ (dedupKeys steps).filter (fun k => !acc.contains k) := by
  induction steps generalizing acc with
  | nil => simp [dedupKeys]
  | cons k ks ih =>
    simp only [foldl_cons, dedupKeys]
    by_cases h : acc.contains k = true
    · simp only [h, if_true]
      rw [ih, List.filter_cons]
      simp only [h, Bool.not_true, Bool.false_eq_true, if_false, List.filter_filter]
      congr 1
      apply List.filter_congr
      intro a _
      have hk : k ∈ acc := by simpa using h
      by_cases ha : a ∈ acc
      · simp [ha]
      · have : a ≠ k := by
          intro hak; subst hak; exact ha hk
        simp [ha, this]
    · simp only [h, Bool.false_eq_true, if_false]
      rw [ih, List.filter_cons]
      simp only [h, Bool.not_false, if_true, List.filter_filter, List.append_assoc, List.singleton_append]
      congr 2
      apply List.filter_congr
      intro a _
      simp only [List.contains_eq_mem, List.mem_append, List.mem_singleton, bne_iff_ne, ne_eq]
      by_cases ha : a ∈ acc <;> by_cases hak : a = k <;> simp [ha, hak]

theorem foldl_dict (g : Nat → Rat) (steps L : List Nat) :
    steps.foldl (fun d k => dictInsert d k (g k)) (L.map fun k => (k, g k))
      = (steps.foldl (fun acc k => if acc.contains k then acc else acc ++ [k]) L).map fun k => (k, g k) := by
  induction steps generalizing L with
  | nil => rfl
  | cons k ks ih =>
    simp only [foldl_cons]
    rw [dictInsert_map, ih]

/-- a dict filled with `d[k] = g k` over a list of keys holds the first occurrences, in order -/
theorem dict_loop (g : Nat → Rat) (steps : List Nat) :
    steps.foldl (fun d k => dictInsert d k (g k)) [] = (dedupKeys steps).map fun k => (k, g k) := by
  have := foldl_dict g steps []
  simp only [List.map_nil] at this
  rw [this, foldl_keys]
  simp

/-! ### trapezoid -/

theorem pairs_sum : ∀ (a : Rat) (l : List Rat),
    sumQ (List.zipWith (· + ·) (a :: l).dropLast (a :: l).tail)
      = 2 * sumQ (a :: l) - a - (a :: l).getLastD 0
  | a, [] => by simp; ring
  | a, b :: rest => by
    have ih := pairs_sum b rest
    have h1 : (a :: b :: rest).dropLast = a :: (b :: rest).dropLast := rfl
    have h3 : (a :: b :: rest).getLastD 0 = (b :: rest).getLastD 0 := by simp [List.getLastD]
    simp only [h1, List.tail_cons, List.zipWith_cons_cons, sumQ_cons, h3] at ih ⊢
    rw [ih]; ring

theorem pairs_length (l : List Rat) : (List.zipWith (· + ·) l.dropLast l.tail).length = l.length - 1 := by
  simp

/-! ### evenly spaced step counts -/

theorem linspaceFloor_length (M S : Nat) : (linspaceFloor M S).length = S + 1 := by simp [linspaceFloor]

theorem linspaceFloor_getD (M S j d : Nat) (hj : j ≤ S) : (linspaceFloor M S).getD j d = j * M / S := by
  simp [linspaceFloor, List.getD_eq_getElem?_getD, Nat.lt_succ_of_le hj]

/-! ### comparison sorts -/

theorem optLe_total (a b : Option Rat) : (optLe a b || optLe b a) = true := by
  cases a <;> cases b <;> simp [optLe]
  exact le_total _ _

theorem optLe_trans (a b c : Option Rat) : optLe a b = true → optLe b c = true → optLe a c = true := by
  cases a <;> cases b <;> cases c <;> simp [optLe]
  exact fun h1 h2 => le_trans h1 h2

theorem leIdx_total (e : List Rat) (a b : Nat) : (leIdx e a b || leIdx e b a) = true := optLe_total _ _
theorem leIdx_trans (e : List Rat) (a b c : Nat) : leIdx e a b = true → leIdx e b c = true → leIdx e a c = true :=
  optLe_trans _ _ _

theorem leIdx_of_lt (e : List Rat) (i j : Nat) (hi : i < e.length) (hj : j < e.length) :
    leIdx e i j = decide (e[i] ≤ e[j]) := by
  simp [leIdx, List.getElem?_eq_getElem hi, List.getElem?_eq_getElem hj, optLe]

/-- the comparisons seen by the sort are unchanged by a strictly monotone map of the keys -/
theorem leIdx_map (φ : Rat → Rat) (hφ : StrictMono φ) (e : List Rat) : leIdx (e.map φ) = leIdx e := by
  funext i j
  unfold leIdx
  simp only [List.getElem?_map]
  cases e[i]? <;> cases e[j]? <;> simp [optLe, hφ.le_iff_le]

/-- a correct sorting procedure: a sorted permutation whenever the comparison is total and transitive -/
def SortOK (sort : (Nat → Nat → Bool) → List Nat → List Nat) : Prop :=
  ∀ le l, (∀ a b c, le a b = true → le b c = true → le a c = true) →
    (∀ a b, (le a b || le b a) = true) →
    (sort le l).Perm l ∧ (sort le l).Pairwise (fun a b => le a b = true)

theorem mergeSort_ok : SortOK (fun le l => l.mergeSort le) :=
  fun le l ht htot => ⟨mergeSort_perm l le, pairwise_mergeSort ht htot l⟩

theorem argsort_perm (sort : (Nat → Nat → Bool) → List Nat → List Nat) (hs : SortOK sort) (e : List Rat) :
    (argsortDescWith sort e).Perm (List.range e.length) :=
  (List.reverse_perm _).trans (hs _ _ (leIdx_trans e) (leIdx_total e)).1

/-- descending order of the ranking: earlier features have larger-or-equal values -/
theorem argsort_sorted (sort : (Nat → Nat → Bool) → List Nat → List Nat) (hs : SortOK sort) (e : List Rat) :
    (argsortDescWith sort e).Pairwise (fun a b => leIdx e b a = true) :=
  List.pairwise_reverse.mpr (hs _ _ (leIdx_trans e) (leIdx_total e)).2

/-- tie-free explanations: the ranking of `-e` is the reversed ranking of `e` -/
theorem argsort_neg (sort : (Nat → Nat → Bool) → List Nat → List Nat) (hs : SortOK sort) (e : List Rat)
    (hnd : e.Nodup) :
    argsortDescWith sort (e.map fun v => -v) = (argsortDescWith sort e).reverse := by
  unfold argsortDescWith
  rw [List.reverse_reverse, List.length_map]
  set n := e.length with hn
  have hA := hs (leIdx e) (List.range n) (leIdx_trans e) (leIdx_total e)
  have hB := hs (leIdx (e.map fun v => -v)) (List.range n) (leIdx_trans _) (leIdx_total _)
  apply List.Perm.eq_of_pairwise (le := fun a b => leIdx e a b = true)
  · intro a b ha hb h1 h2
    have ha' : a < n := by
      have := (List.reverse_perm _).subset ha
      exact List.mem_range.mp (hB.1.subset this)
    have hb' : b < n := List.mem_range.mp (hA.1.subset hb)
    rw [leIdx_of_lt e a b ha' hb'] at h1
    rw [leIdx_of_lt e b a hb' ha'] at h2
    have heq : e[a] = e[b] := le_antisymm (by simpa using h1) (by simpa using h2)
    exact (hnd.getElem_inj_iff).mp heq
  · rw [List.pairwise_reverse]
    refine List.Pairwise.imp_of_mem ?_ hB.2
    intro a b ha hb h
    have ha' : a < n := List.mem_range.mp (hB.1.subset ha)
    have hb' : b < n := List.mem_range.mp (hB.1.subset hb)
    have ha2 : a < (e.map fun v => -v).length := by simpa using ha'
    have hb2 : b < (e.map fun v => -v).length := by simpa using hb'
    rw [leIdx_of_lt _ a b ha2 hb2] at h
    rw [leIdx_of_lt e b a hb' ha']
    simpa using h
  · exact hA.2
  · exact (List.reverse_perm _).trans (hB.1.trans hA.1.symm)

/-- deleting the `F − c` lowest-ranked features = inserting the `c` highest-ranked ones -/
theorem flip_dual (F c : Nat) (s t : List (List Rat)) (o : List Nat) (hs : s.length = F) (ht : t.length = F)
    (ho : o.Perm (List.range F)) (hc : c ≤ F) :
    flipSpec s t (o.reverse.take (F - c)) = flipSpec t s (o.take c) := by
  have hlen : o.length = F := by rw [ho.length_eq, List.length_range]
  have hnd : o.Nodup := ho.nodup_iff.mpr List.nodup_range
  unfold flipSpec
  rw [hs, ht]
  apply List.map_congr_left
  intro i hi
  have hiF : i < F := List.mem_range.mp hi
  have hio : i ∈ o := ho.mem_iff.mpr hi
  have hrev : o.reverse.take (F - c) = (o.drop c).reverse := by
    rw [List.take_reverse, hlen]; congr 2; omega
  have hsplit : i ∈ o.take c ∨ i ∈ o.drop c := by
    rw [← List.mem_append, List.take_append_drop]; exact hio
  have hdisj : ¬ (i ∈ o.take c ∧ i ∈ o.drop c) := by
    rintro ⟨h1, h2⟩
    have := hnd
    rw [← List.take_append_drop c o] at this
    exact (List.nodup_append.mp this).2.2 i h1 i h2 rfl
  rw [hrev]
  by_cases h1 : i ∈ o.take c
  · have h2 : i ∉ o.drop c := fun h2 => hdisj ⟨h1, h2⟩
    simp [h1, h2]
  · have h2 : i ∈ o.drop c := hsplit.resolve_left h1
    simp [h1, h2]

/-! ### the `k` largest have the largest sum -/

theorem sum_le_take_sorted : ∀ (S T : List Rat) (k : Nat), S.Pairwise (· ≥ ·) → T.Subperm S →
    T.length = k → T.sum ≤ (S.take k).sum
  | [], T, k, _, hsub, _ => by
    have : T = [] := List.eq_nil_of_length_eq_zero (Nat.le_zero.mp (by simpa using hsub.length_le))
    subst this; simp
  | a :: S', T, 0, _, _, hlen => by
    have : T = [] := List.eq_nil_of_length_eq_zero hlen
    subst this; simp
  | a :: S', T, k' + 1, hp, hsub, hlen => by
    have hp' := List.pairwise_cons.mp hp
    by_cases ha : a ∈ T
    · have h1 : (T.erase a).Subperm S' := by simpa using hsub.erase a
      have h2 : (T.erase a).length = k' := by rw [List.length_erase_of_mem ha, hlen]; rfl
      have ih := sum_le_take_sorted S' (T.erase a) k' hp'.2 h1 h2
      have hsum : T.sum = a + (T.erase a).sum := by
        rw [(List.perm_cons_erase ha).sum_eq, List.sum_cons]
      rw [hsum, List.take_succ_cons, List.sum_cons]; linarith
    · have h1 : T.Subperm S' := by
        have := hsub.erase a
        rwa [List.erase_of_not_mem ha, List.erase_cons_head] at this
      cases T with
      | nil => simp at hlen
      | cons b T' =>
        have hb : b ∈ S' := h1.subset (List.mem_cons_self ..)
        have hab : a ≥ b := hp'.1 b hb
        have h2 : T'.Subperm S' := (List.sublist_cons_self b T').subperm.trans h1
        have h3 : T'.length = k' := by simpa using hlen
        have ih := sum_le_take_sorted S' T' k' hp'.2 h2 h3
        rw [List.sum_cons, List.take_succ_cons, List.sum_cons]; linarith

theorem subperm_map {α β : Type} (f : α → β) {l₁ l₂ : List α} (h : l₁.Subperm l₂) :
    (l₁.map f).Subperm (l₂.map f) := by
  obtain ⟨l, hp, hs⟩ := h
  exact ⟨l.map f, hp.map f, hs.map f⟩

/-- among all orderings `σ` of the features, one sorted by decreasing weight maximises the sum of the
    weights of its first `k` features, for every `k` -/
theorem topk_sum_ge (w : Nat → Rat) (F : Nat) (o σ : List Nat) (ho : o.Perm (List.range F))
    (hσ : σ.Perm (List.range F)) (hs : o.Pairwise (fun i j => w i ≥ w j)) (k : Nat) :
    ((σ.take k).map w).sum ≤ ((o.take k).map w).sum := by
  have hlo : o.length = F := by rw [ho.length_eq, List.length_range]
  have hlσ : σ.length = F := by rw [hσ.length_eq, List.length_range]
  by_cases hk : k ≤ F
  · have hS : (o.map w).Pairwise (· ≥ ·) := List.pairwise_map.mpr hs
    have hT : ((σ.take k).map w).Subperm (o.map w) :=
      subperm_map w (((List.take_sublist k σ).subperm).trans (hσ.trans ho.symm).subperm)
    have hlen : ((σ.take k).map w).length = k := by simp [hlσ, hk]
    have := sum_le_take_sorted (o.map w) ((σ.take k).map w) k hS hT hlen
    rwa [← List.map_take] at this
  · rw [List.take_of_length_le (by omega), List.take_of_length_le (by omega)]
    exact le_of_eq ((hσ.trans ho.symm).map w).sum_eq

/-! ### feature-additive scores -/

theorem sumQ_map_sub {α : Type} (l : List α) (u d : α → Rat) :
    sumQ (l.map fun i => u i - d i) = sumQ (l.map u) - sumQ (l.map d) := by
  induction l with
  | nil => simp
  | cons a l ih => simp only [List.map_cons, sumQ_cons, ih]; ring

theorem sum_flip (F : Nat) (u v : Nat → Rat) (ids : List Nat) (hnd : ids.Nodup) (hlt : ∀ i ∈ ids, i < F) :
    sumQ ((List.range F).map fun i => if ids.contains i then v i else u i)
      = sumQ ((List.range F).map u) - (ids.map fun i => u i - v i).sum := by
  have h1 : ((List.range F).map fun i => if ids.contains i then v i else u i)
      = (List.range F).map fun i => u i - (u i - v i) * (if ids.contains i then 1 else 0) := by
    apply List.map_congr_left; intro i _
    by_cases h : i ∈ ids <;> simp [h]
  rw [h1, sumQ_map_sub, sumQ_indicator (List.range F) (fun i => ids.contains i) (fun i => u i - v i)]
  simp only [sumQ_eq_sum]
  congr 1
  apply List.Perm.sum_eq
  apply List.Perm.map
  apply (List.perm_ext_iff_of_nodup (List.nodup_range.filter _) hnd).mpr
  intro a
  simp only [List.mem_filter, List.mem_range, List.contains_eq_mem, decide_eq_true_eq]
  exact ⟨fun h => h.2, fun h => ⟨hlt a h, h⟩⟩

theorem flipSpec_uniform (C : Nat) (s e : List (List Rat)) (ids : List Nat) (hlen : s.length = e.length)
    (hs : ∀ r ∈ s, r.length = C) (he : ∀ r ∈ e, r.length = C) : ∀ r ∈ flipSpec s e ids, r.length = C := by
  intro r hr
  simp only [flipSpec, List.mem_map, List.mem_range] at hr
  obtain ⟨i, hi, rfl⟩ := hr
  have hie : i < e.length := hlen ▸ hi
  split
  · rw [List.getD_eq_getElem?_getD, List.getElem?_eq_getElem hie]; exact he _ (List.getElem_mem hie)
  · rw [List.getD_eq_getElem?_getD, List.getElem?_eq_getElem hi]; exact hs _ (List.getElem_mem hi)

/-- the score decomposes into a constant plus one term per feature row (`F` rows of `C` channels) -/
def FeatAdditive (F C : Nat) (f : List Rat → Rat) (c0 : Rat) (gi : Nat → List Rat → Rat) : Prop :=
  ∀ rows : List (List Rat), rows.length = F → (∀ r ∈ rows, r.length = C) →
    f rows.flatten = c0 + sumQ ((List.range F).map fun i => gi i (rows.getD i []))

theorem score_flip (F C : Nat) (f : List Rat → Rat) (c0 : Rat) (gi : Nat → List Rat → Rat)
    (hadd : FeatAdditive F C f c0 gi) (s t : List (List Rat)) (hs : s.length = F) (ht : t.length = F)
    (hsu : ∀ r ∈ s, r.length = C) (htu : ∀ r ∈ t, r.length = C)
    (ids : List Nat) (hnd : ids.Nodup) (hlt : ∀ i ∈ ids, i < F) :
    f (flipSpec s t ids).flatten
      = f s.flatten - (ids.map fun i => gi i (s.getD i []) - gi i (t.getD i [])).sum := by
  rw [hadd _ ((flipSpec_length s t ids).trans hs) (flipSpec_uniform C s t ids (hs.trans ht.symm) hsu htu),
    hadd s hs hsu]
  have : ((List.range F).map fun i => gi i ((flipSpec s t ids).getD i []))
      = (List.range F).map fun i => if ids.contains i then gi i (t.getD i []) else gi i (s.getD i []) := by
    apply List.map_congr_left; intro i hi
    rw [flipSpec_getD s t ids i (hs ▸ List.mem_range.mp hi)]
    by_cases h : i ∈ ids <;> simp [h]
  rw [this, sum_flip F _ _ ids hnd hlt]; ring

/-! ### channels -/

theorem flatten_getD_uniform (C : Nat) (hC : 0 < C) : ∀ (rows : List (List Rat)),
    (∀ r ∈ rows, r.length = C) → ∀ k, rows.flatten.getD k 0 = (rows.getD (k / C) []).getD (k % C) 0
  | [], _, k => by simp
  | r :: rows, h, k => by
    have hr : r.length = C := h r (List.mem_cons_self ..)
    have ih := flatten_getD_uniform C hC rows (fun r' hr' => h r' (List.mem_cons_of_mem _ hr'))
    by_cases hk : k < C
    · have h0 : k / C = 0 := Nat.div_eq_of_lt hk
      simp [List.getD_eq_getElem?_getD, List.getElem?_append_left (hr ▸ hk), h0, Nat.mod_eq_of_lt hk]
    · obtain ⟨k', rfl⟩ : ∃ k', k = C + k' := ⟨k - C, by omega⟩
      have hd : (C + k') / C = k' / C + 1 := by rw [Nat.add_div_left _ hC]
      have hm : (C + k') % C = k' % C := Nat.add_mod_left _ _
      have := ih k'
      simp only [List.getD_eq_getElem?_getD] at this ⊢
      rw [List.flatten_cons, List.getElem?_append_right (by omega), hr, Nat.add_sub_cancel_left, this, hd, hm]
      simp

theorem chanMean_one (e : List Rat) : chanMean 1 e = e := by
  unfold chanMean
  induction e with
  | nil => unfold batches; simp
  | cons a l ih =>
    unfold batches
    simp only [Nat.one_ne_zero, reduceCtorEq, or_self, ↓reduceDIte, List.take_succ_cons, List.take_zero,
      List.drop_succ_cons, List.drop_zero, List.map_cons, ih]
    simp [meanQ]

end Xp.Causal
