import Mathlib.MeasureTheory.Integral.IntervalIntegral.TrapezoidalRule

open Finset

namespace Xp.IGSmooth

theorem sum_pairs_real (d : ℕ → ℝ) (n : ℕ) :
    ∑ j ∈ range (n + 1), (d j + d (j + 1)) = d 0 + d (n + 1) + 2 * ∑ k ∈ range n, d (k + 1) := by
  induction n with
  | zero => simp
  | succ n ih => rw [sum_range_succ, ih, sum_range_succ]; ring

/-- the trapezoid used by IG, written with node pairs, is Mathlib's `trapezoidal_integral` on [0,1] -/
theorem pairs_eq_trapezoidal (ψ : ℝ → ℝ) (n : ℕ) :
    (∑ j ∈ range (n + 1), (ψ ((j : ℝ) / ((n + 1 : ℕ) : ℝ)) + ψ (((j + 1 : ℕ) : ℝ) / ((n + 1 : ℕ) : ℝ))))
        / ((n + 1 : ℕ) : ℝ) / 2
      = trapezoidal_integral ψ (n + 1) 0 1 := by
  have hne : ((n + 1 : ℕ) : ℝ) ≠ 0 := by positivity
  rw [sum_pairs_real (fun j => ψ ((j : ℝ) / ((n + 1 : ℕ) : ℝ))) n]
  unfold trapezoidal_integral
  simp only [Nat.cast_zero, zero_div, div_self hne, sub_zero, zero_add, mul_one, Nat.add_sub_cancel]
  have : ∑ k ∈ range n, ψ (((k + 1 : ℕ) : ℝ) / ((n + 1 : ℕ) : ℝ))
       = ∑ k ∈ range n, ψ (((k : ℝ) + 1) / ((n + 1 : ℕ) : ℝ)) := by
    apply sum_congr rfl; intro k _; push_cast; rfl
  rw [this]
  field_simp

theorem trapz_gap_real (ψ : ℝ → ℝ) (n : ℕ) (hc : ContDiffOn ℝ 2 ψ (Set.uIcc (0 : ℝ) 1)) (K : ℝ)
    (hK : ∀ x, |iteratedDerivWithin 2 ψ (Set.uIcc (0 : ℝ) 1) x| ≤ K) :
    |(∑ j ∈ range (n + 1), (ψ ((j : ℝ) / ((n + 1 : ℕ) : ℝ)) + ψ (((j + 1 : ℕ) : ℝ) / ((n + 1 : ℕ) : ℝ))))
        / ((n + 1 : ℕ) : ℝ) / 2 - ∫ t in (0 : ℝ)..1, ψ t| ≤ K / (12 * ((n + 1 : ℕ) : ℝ) ^ 2) := by
  rw [pairs_eq_trapezoidal]
  have h := trapezoidal_error_le_of_c2 hc hK (N := n + 1) (Nat.succ_pos n)
  unfold trapezoidal_error at h
  simpa using h

end Xp.IGSmooth
