import XpModel.ProtoSel
import XpProofs.Lemmas.Vec
import XpProofs.Lemmas.Batching
import XpProofs.Lemmas.ProtoArgmax
import XpProofs.Lemmas.ProtoTri
import XpProofs.Lemmas.ProtoGreedy
import Mathlib.Data.List.Basic
import Mathlib.Data.List.Nodup
import Mathlib.Tactic.Ring
import Mathlib.Tactic.Linarith
import Mathlib.Algebra.Order.Field.Rat

namespace Xp.ProtoSel

/-! ### one step and the whole run against the batch-free reference -/

theorem step_spec (c : Cfg) (hc : CfgOK c) (st : Sel) (hinv : Inv c st) :
    ((step c st).cases, (step c st).w)
        = specStep c.meth c.inv c.eps c.K c.bt.flatten (st.cases, st.w) ∧
    Inv c (step c st) := by
  unfold step specStep
  rw [stepBest_eq, firstArgmax_map]
  have hcongr : firstArgmax (fun q => (evalCand c st q.1 (c.bt.getD q.1 []) q.2).obj) (positions c st)
      = firstArgmax (fun q => objSpec c.meth c.inv c.eps c.K c.bt.flatten st.cases (phi c q)) (positions c st) := by
    apply firstArgmax_congr
    intro q hq
    exact evalCand_obj c hc st hinv q (positions_valid c st q hq)
  simp only
  rw [hcongr, ← positions_rows c st hc hinv, firstArgmax_map]
  cases hr : firstArgmax (fun q => objSpec c.meth c.inv c.eps c.K c.bt.flatten st.cases (phi c q)) (positions c st) with
  | none => exact ⟨rfl, hinv⟩
  | some q =>
    have hq : validPos c q := positions_valid c st q (firstArgmax_mem _ _ _ hr)
    obtain ⟨h1, h2, h3⟩ := update_spec c hc st hinv q hq
    simp only [Option.map_some]
    refine ⟨?_, h3⟩
    rw [h1, h2]

theorem initSel_inv (c : Cfg) (m : Nat) : Inv c (initSel c m) := by
  constructor
  · rfl
  · intro q hq; cases hq
  · simp [initSel]
  · intro row hrow
    simp only [initSel, List.mem_replicate] at hrow
    rw [hrow.2]; simp
  · intro bi p
    simp only [initSel, getB, List.not_mem_nil, iff_false, Bool.not_eq_true]
    simp only [List.getD_eq_getElem?_getD, List.getElem?_replicate]
    by_cases h1 : bi < c.bt.length
    · simp only [h1, if_true, Option.getD_some, List.getElem?_replicate]
      by_cases h2 : p < c.b <;> simp [h2]
    · simp [h1]
  · rfl
  · rfl

theorem runFrom_spec (c : Cfg) (hc : CfgOK c) (st : Sel) (hinv : Inv c st) (k : Nat) :
    ((runFrom c st k).cases, (runFrom c st k).w)
        = specRunFrom c.meth c.inv c.eps c.K c.bt.flatten (st.cases, st.w) k ∧
    Inv c (runFrom c st k) := by
  induction k with
  | zero => exact ⟨rfl, hinv⟩
  | succ k ih =>
    obtain ⟨h1, h2⟩ := ih
    obtain ⟨h3, h4⟩ := step_spec c hc (runFrom c st k) h2
    refine ⟨?_, h4⟩
    show ((step c (runFrom c st k)).cases, (step c (runFrom c st k)).w) = _
    rw [h3, h1]
    rfl

theorem run_spec (c : Cfg) (hc : CfgOK c) (m : Nat) :
    ((run c m).cases, (run c m).w) = specRun c.meth c.inv c.eps c.K c.bt.flatten m ∧
    Inv c (run c m) :=
  runFrom_spec c hc (initSel c m) (initSel_inv c m) m

/-! ### tables of the real configuration -/

theorem get2_map_map (t : List (List Rat)) (f : Rat → Rat) (i j : Nat) (hi : i < t.length)
    (hj : j < (t.getD i []).length) :
    get2 (t.map fun row => row.map f) i j = f (get2 t i j) := by
  unfold get2 at *
  simp only [List.getD_eq_getElem?_getD, List.getElem?_map, List.getElem?_eq_getElem hi,
    Option.map_some, Option.getD_some] at hj ⊢
  simp [List.getElem?_eq_getElem hj]

theorem padLast_length (b : Nat) (t : List (List Rat)) : (padLast b t).length = t.length := by
  unfold padLast
  cases h : t.getLast? with
  | none => simp [List.getLast?_eq_none_iff.mp h]
  | some l =>
    have hne : t ≠ [] := by intro e; rw [e] at h; simp at h
    have := List.length_pos_iff.mpr hne
    simp only [List.length_append, List.length_dropLast, List.length_cons, List.length_nil]
    omega

theorem padLast_getD (b : Nat) (t : List (List Rat)) (i : Nat) (hi : i < t.length) :
    (padLast b t).getD i [] = if i = t.length - 1 then padTo b (t.getD i []) else t.getD i [] := by
  have hne : t ≠ [] := by intro h; rw [h] at hi; simp at hi
  unfold padLast
  rw [List.getLast?_eq_some_getLast hne]
  simp only
  by_cases hlast : i = t.length - 1
  · rw [if_pos hlast]
    have e2 : t.getD i [] = t.getLast hne := by
      simp only [List.getD_eq_getElem?_getD, List.getElem?_eq_getElem hi, Option.getD_some]
      rw [List.getLast_eq_getElem]
      congr 1
    rw [e2]
    simp only [List.getD_eq_getElem?_getD]
    rw [List.getElem?_append_right (by simp [hlast])]
    simp [hlast]
  · rw [if_neg hlast]
    simp only [List.getD_eq_getElem?_getD]
    rw [List.getElem?_append_left (by simp; omega)]
    rw [List.getElem?_dropLast, if_pos (by omega)]

theorem padTo_length_ge (b : Nat) (v : List Rat) : v.length ≤ (padTo b v).length := by
  unfold padTo; simp

theorem padLast_row_length_ge (b : Nat) (t : List (List Rat)) (i : Nat) (hi : i < t.length) :
    (t.getD i []).length ≤ ((padLast b t).getD i []).length := by
  rw [padLast_getD b t i hi]
  split
  · exact padTo_length_ge b _
  · exact le_refl _

theorem get2_padLast (b : Nat) (t : List (List Rat)) (i j : Nat) (hi : i < t.length)
    (hj : j < (t.getD i []).length) : get2 (padLast b t) i j = get2 t i j := by
  unfold get2
  rw [padLast_getD b t i hi]
  split
  · unfold padTo
    simp only [List.getD_eq_getElem?_getD]
    rw [List.getElem?_append_left (by simpa [List.getD_eq_getElem?_getD] using hj)]
  · rfl

theorem get2_map_inner (bt : List (List Nat)) (g : List Nat → Nat → Rat) (i j : Nat) (hi : i < bt.length)
    (hj : j < (bt.getD i []).length) :
    get2 (bt.map fun colB => colB.map (g colB)) i j = g (bt.getD i []) ((bt.getD i []).getD j 0) := by
  unfold get2
  simp only [List.getD_eq_getElem?_getD, List.getElem?_map, List.getElem?_eq_getElem hi,
    Option.map_some, Option.getD_some] at hj ⊢
  simp [List.getElem?_eq_getElem hj]

theorem diagBlock_self (K : Kern) (l : List Nat) : diagBlock K l l = l.map fun j => K j j := by
  unfold diagBlock
  have := zipWith_map_same K (fun x : Nat => x) (fun x : Nat => x) l
  simpa using this

/-- the padded tables hold, at every real position, the dense column mean and the kernel diagonal
    of the case stored there — for every partition of the dataset into batches -/
theorem tables_spec (K : Kern) (hsym : ∀ i j, K i j = K j i) (b : Nat) (bt : List (List Nat))
    (i j : Nat) (hi : i < bt.length) (hj : j < (bt.getD i []).length) :
    get2 (colMeansTable K b bt) i j = mu K bt.flatten ((bt.getD i []).getD j 0) ∧
    get2 (diagTable K b bt) i j = K ((bt.getD i []).getD j 0) ((bt.getD i []).getD j 0) := by
  obtain ⟨h1, h2, h3⟩ := triangular_spec K bt hsym
  unfold colMeansTable diagTable
  simp only
  rw [h1, h2, h3]
  have hlen1 : i < (bt.map fun colB => colB.map (colPart K bt.flatten)).length := by simpa using hi
  have hrow1 : j < ((bt.map fun colB => colB.map (colPart K bt.flatten)).getD i []).length := by
    simp only [List.getD_eq_getElem?_getD, List.getElem?_map, List.getElem?_eq_getElem hi,
      Option.map_some, Option.getD_some, List.length_map] at hj ⊢
    exact hj
  constructor
  · rw [get2_map_map _ _ i j (by rw [padLast_length]; exact hlen1)
        (lt_of_lt_of_le hrow1 (padLast_row_length_ge b _ i hlen1)),
      get2_padLast b _ i j hlen1 hrow1,
      get2_map_inner bt (fun _ => colPart K bt.flatten) i j hi hj]
    rfl
  · have hlen2 : i < (bt.map fun colB => diagBlock K colB colB).length := by simpa using hi
    have e : (bt.map fun colB => diagBlock K colB colB) = bt.map fun colB => colB.map ((fun _ j => K j j) colB) := by
      apply List.map_congr_left; intro l _; exact diagBlock_self K l
    rw [e]
    have hrow2 : j < ((bt.map fun colB => colB.map ((fun _ j => K j j) colB)).getD i []).length := by
      simp only [List.getD_eq_getElem?_getD, List.getElem?_map, List.getElem?_eq_getElem hi,
        Option.map_some, Option.getD_some, List.length_map] at hj ⊢
      exact hj
    rw [get2_padLast b _ i j (by simpa using hi) hrow2, get2_map_inner bt (fun _ j => K j j) i j hi hj]

/-- the real configuration satisfies everything the greedy loop relies on -/
theorem cfgOf_ok (K : Kern) (hsym : ∀ i j, K i j = K j i) (n b : Nat) (hb : 0 < b) (meth : Method)
    (inv : List (List Rat) → List (List Rat)) (eps : Rat) : CfgOK (cfgOf K n b meth inv eps) := by
  constructor
  · intro batch hbatch
    exact (batch_len_le b (List.range n) batch hbatch).1
  · show (batches b (List.range n)).flatten.Nodup
    rw [flatten_batches b hb]
    exact List.nodup_range
  · exact hsym
  · intro q hq
    exact (tables_spec K hsym b (batches b (List.range n)) q.1 q.2 hq.1 hq.2).1
  · intro q hq
    exact (tables_spec K hsym b (batches b (List.range n)) q.1 q.2 hq.1 hq.2).2

end Xp.ProtoSel
