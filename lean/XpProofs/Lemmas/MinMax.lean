import XpModel.Basic
import Mathlib.Order.Lattice
import Mathlib.Algebra.Order.Field.Rat
import Mathlib.Tactic.Linarith

namespace Xp

theorem ratMax_eq (a b : Rat) : ratMax a b = max a b := by
  unfold ratMax; rw [max_def]
theorem ratMin_eq (a b : Rat) : ratMin a b = min a b := by
  unfold ratMin; rw [min_def]
theorem relu_eq (a : Rat) : relu a = max a 0 := by
  unfold relu; rw [max_def]; split <;> split <;> first | rfl | linarith
theorem ratAbs_eq (a : Rat) : ratAbs a = |a| := by
  unfold ratAbs; split
  · rw [abs_of_nonneg]; assumption
  · rw [abs_of_neg]; linarith

end Xp
