import XpModel.ProtoSel
import XpProofs.Lemmas.Vec
import XpProofs.Lemmas.ProtoArgmax
import Mathlib.Data.List.Basic
import Mathlib.Data.List.Nodup
import Mathlib.Data.List.Sort
import Mathlib.Tactic.Ring
import Mathlib.Tactic.Linarith
import Mathlib.Algebra.Order.Field.Rat

namespace Xp.ProtoSel

/-- dataset row held at position `(batch, position)` -/
def phi (c : Cfg) (q : Nat × Nat) : Nat := (c.bt.getD q.1 []).getD q.2 0

def validPos (c : Cfg) (q : Nat × Nat) : Prop := q.1 < c.bt.length ∧ q.2 < (c.bt.getD q.1 []).length

/-- what the greedy loop needs to know about the configuration (established for `cfgOf` from the
    triangular-traversal theorem) -/
structure CfgOK (c : Cfg) : Prop where
  hb : ∀ batch ∈ c.bt, batch.length ≤ c.b
  hnodup : c.bt.flatten.Nodup
  hsym : ∀ i j, c.K i j = c.K j i
  hcm : ∀ q, validPos c q → get2 c.cm q.1 q.2 = mu c.K c.bt.flatten (phi c q)
  hdg : ∀ q, validPos c q → get2 c.dg q.1 q.2 = c.K (phi c q) (phi c q)

/-- invariant of the greedy loop -/
structure Inv (c : Cfg) (st : Sel) : Prop where
  cases_eq : st.cases = st.idx.map (phi c)
  valid : ∀ q ∈ st.idx, validPos c q
  mask_len : st.mask.length = c.bt.length
  mask_row : ∀ row ∈ st.mask, row.length = c.b
  mask_iff : ∀ bi p, getB st.mask bi p = true ↔ (bi, p) ∈ st.idx
  means_eq : st.means = st.cases.map (mu c.K c.bt.flatten)
  ss_eq : st.ss = subMat c.K st.cases

/-! ### positions and dataset rows -/

theorem getD_mem_of_lt {l : List (List Nat)} {i : Nat} (h : i < l.length) : l.getD i [] ∈ l := by
  simp only [List.getD_eq_getElem?_getD, List.getElem?_eq_getElem h, Option.getD_some]
  exact List.getElem_mem h

theorem phi_inj (c : Cfg) (hn : c.bt.flatten.Nodup) (q q' : Nat × Nat) (hq : validPos c q)
    (hq' : validPos c q') (h : phi c q = phi c q') : q = q' := by
  obtain ⟨b1, p1⟩ := q
  obtain ⟨b2, p2⟩ := q'
  obtain ⟨hb1, hp1⟩ := hq
  obtain ⟨hb2, hp2⟩ := hq'
  simp only at hb1 hp1 hb2 hp2
  rw [List.nodup_flatten] at hn
  obtain ⟨hnd, hpw⟩ := hn
  unfold phi at h
  simp only [List.getD_eq_getElem?_getD, List.getElem?_eq_getElem hb1, List.getElem?_eq_getElem hb2,
    Option.getD_some] at h hp1 hp2
  rw [List.getElem?_eq_getElem hp1, List.getElem?_eq_getElem hp2] at h
  simp only [Option.getD_some] at h
  by_cases hbb : b1 = b2
  · subst hbb
    have := (List.Nodup.getElem_inj_iff (hnd _ (List.getElem_mem hb1))).mp h
    simp [this]
  · exfalso
    rw [List.pairwise_iff_getElem] at hpw
    rcases Nat.lt_or_gt_of_ne hbb with hlt | hlt
    · have hd := hpw b1 b2 hb1 hb2 hlt
      exact hd (List.getElem_mem hp1) (h ▸ List.getElem_mem hp2)
    · have hd := hpw b2 b1 hb2 hb1 hlt
      exact hd (List.getElem_mem hp2) (h ▸ List.getElem_mem hp1)

theorem filter_lt_range (b len : Nat) (h : len ≤ b) :
    (List.range b).filter (fun p => decide (p < len)) = List.range len := by
  apply List.Pairwise.eq_of_mem_iff (r := (· < ·))
  · exact List.Pairwise.filter _ List.pairwise_lt_range
  · exact List.pairwise_lt_range
  · intro a
    simp only [List.mem_filter, List.mem_range, decide_eq_true_eq]
    omega

theorem candPositions_eq (mask : List (List Bool)) (b bi len : Nat) (h : len ≤ b) :
    candPositions mask b bi len = (List.range len).filter fun p => !(getB mask bi p) := by
  unfold candPositions
  rw [← filter_lt_range b len h, List.filter_filter]

theorem range_map_getD (l : List Nat) : (List.range l.length).map (fun p => l.getD p 0) = l := by
  apply List.ext_getElem (by simp)
  intro i h1 h2
  simp [List.getD_eq_getElem?_getD, List.getElem?_eq_getElem h2]

/-- the candidates of one batch, as dataset rows: the cases of the batch not selected yet -/
theorem cand_rows (c : Cfg) (st : Sel) (hc : CfgOK c) (hinv : Inv c st) (bi : Nat) (hbi : bi < c.bt.length) :
    (candPositions st.mask c.b bi (c.bt.getD bi []).length).map (fun p => phi c (bi, p))
      = (c.bt.getD bi []).filter fun x => !(st.cases.contains x) := by
  rw [candPositions_eq _ _ _ _ (hc.hb _ (getD_mem_of_lt hbi))]
  conv_rhs => rw [← range_map_getD (c.bt.getD bi []), List.filter_map]
  have : (fun p => phi c (bi, p)) = (fun p => (c.bt.getD bi []).getD p 0) := rfl
  rw [this]
  congr 1
  apply List.filter_congr
  intro p hp
  have hp' : p < (c.bt.getD bi []).length := List.mem_range.mp hp
  simp only [Function.comp]
  congr 1
  rw [Bool.eq_iff_iff, hinv.mask_iff, List.contains_iff_mem, hinv.cases_eq, List.mem_map]
  constructor
  · intro h; exact ⟨(bi, p), h, rfl⟩
  · rintro ⟨q, hq, hphi⟩
    have := phi_inj c hc.hnodup q (bi, p) (hinv.valid q hq) ⟨hbi, hp'⟩ hphi
    rw [← this]; exact hq

/-- all candidate positions of a step, in traversal order -/
def positions (c : Cfg) (st : Sel) : List (Nat × Nat) :=
  c.bt.zipIdx.flatMap fun x => (candPositions st.mask c.b x.2 x.1.length).map fun p => (x.2, p)

theorem mem_zipIdx_getD {l : List (List Nat)} {x : List Nat × Nat} (h : x ∈ l.zipIdx) :
    x.2 < l.length ∧ x.1 = l.getD x.2 [] := by
  rw [List.mem_zipIdx_iff_getElem?] at h
  have hlt : x.2 < l.length := by
    by_contra hn
    rw [List.getElem?_eq_none (by omega)] at h
    cases h
  refine ⟨hlt, ?_⟩
  simp [List.getD_eq_getElem?_getD, h]

theorem positions_valid (c : Cfg) (st : Sel) : ∀ q ∈ positions c st, validPos c q := by
  intro q hq
  unfold positions at hq
  rw [List.mem_flatMap] at hq
  obtain ⟨x, hx, hq⟩ := hq
  obtain ⟨hlt, hx1⟩ := mem_zipIdx_getD hx
  rw [List.mem_map] at hq
  obtain ⟨p, hp, rfl⟩ := hq
  unfold candPositions at hp
  simp only [List.mem_filter, List.mem_range, Bool.and_eq_true, decide_eq_true_eq] at hp
  exact ⟨hlt, by rw [← hx1]; exact hp.2.2⟩

/-- the candidates of a step, as dataset rows, in traversal order: the dataset (in dataset order)
    minus the selection — whatever the batching -/
theorem positions_rows (c : Cfg) (st : Sel) (hc : CfgOK c) (hinv : Inv c st) :
    (positions c st).map (phi c) = c.bt.flatten.filter fun x => !(st.cases.contains x) := by
  unfold positions
  rw [List.map_flatMap]
  have h1 : c.bt.zipIdx.flatMap (fun x => ((candPositions st.mask c.b x.2 x.1.length).map fun p => (x.2, p)).map (phi c))
      = c.bt.zipIdx.flatMap (fun x => x.1.filter fun y => !(st.cases.contains y)) := by
    apply List.flatMap_congr
    intro x hx
    obtain ⟨hlt, hx1⟩ := mem_zipIdx_getD hx
    rw [List.map_map, hx1]
    exact cand_rows c st hc hinv x.2 hlt
  rw [h1]
  have h2 : c.bt.zipIdx.flatMap (fun x => x.1.filter fun y => !(st.cases.contains y))
      = (c.bt.zipIdx.map Prod.fst).flatMap (fun b => b.filter fun y => !(st.cases.contains y)) := by
    rw [List.flatMap_map]
  rw [h2, List.zipIdx_map_fst, List.filter_flatten, List.flatMap_def]

/-- the loop over batches with per-batch `tf.argmax` and strict `>` = first arg-max over all
    candidate positions in traversal order -/
theorem stepBest_eq (c : Cfg) (st : Sel) :
    stepBest c st = firstArgmax (·.obj)
      ((positions c st).map fun q => evalCand c st q.1 (c.bt.getD q.1 []) q.2) := by
  unfold stepBest
  have h := foldl_batches_argmax (fun cd : Cand => cd.obj)
    (c.bt.zipIdx.map fun x => (candPositions st.mask c.b x.2 x.1.length).map (evalCand c st x.2 x.1)) none
  rw [List.foldl_map] at h
  unfold batchBest
  rw [h]
  unfold firstArgmax positions
  congr 1
  rw [List.map_flatMap, List.flatMap_def]
  congr 1
  apply List.map_congr_left
  intro x hx
  obtain ⟨_, hx1⟩ := mem_zipIdx_getD hx
  rw [List.map_map]
  apply List.map_congr_left
  intro p _
  simp only [Function.comp]
  rw [← hx1]

/-! ### objectives -/

theorem zipWith_map_same {α β γ δ : Type} (f : β → γ → δ) (a : α → β) (b : α → γ) (l : List α) :
    List.zipWith f (l.map a) (l.map b) = l.map fun s => f (a s) (b s) := by
  induction l with
  | nil => rfl
  | cons x l ih => simp [ih]

theorem dot_map_map (S : List Nat) (f g : Nat → Rat) :
    dot (S.map f) (S.map g) = sumQ (S.map fun s => f s * g s) := by
  unfold dot
  rw [zipWith_map_same]

/-- the `tf.concat` assembly of the kernel matrix of `S ∪ {x}` is the sub-matrix of the full kernel -/
theorem extendKernel_subMat (K : Kern) (hsym : ∀ i j, K i j = K j i) (S : List Nat) (x : Nat) :
    extendKernel (subMat K S) (S.map fun s => K x s) (K x x) = subMat K (S ++ [x]) := by
  unfold extendKernel subMat
  rw [List.zipWith_append (by simp)]
  simp only [List.zipWith_cons_cons, List.zipWith_nil_right, List.map_append, List.map_cons, List.map_nil]
  congr 1
  rw [zipWith_map_same]
  apply List.map_congr_left
  intro s _
  rw [hsym x s]

theorem update_ss (K : Kern) (hsym : ∀ i j, K i j = K j i) (S : List Nat) (x : Nat) :
    (List.zipWith (fun row v => row ++ [v]) (subMat K S) (S.map fun s => K x s)) ++ [(S.map fun s => K x s) ++ [K x x]]
      = subMat K (S ++ [x]) := by
  rw [← extendKernel_subMat K hsym S x]
  unfold extendKernel
  rw [List.zipWith_append (by simp [subMat])]
  simp

/-- **per-candidate objective = documented objective computed from the full kernel matrix**, and the
    weights attached to the candidate -/
theorem batchObjective_spec (c : Cfg) (hc : CfgOK c) (st : Sel) (hinv : Inv c st) (q : Nat × Nat)
    (hq : validPos c q) :
    let r := batchObjective c.meth c.inv c.eps (get2 c.dg q.1 q.2) (get2 c.cm q.1 q.2) st.means
      (if st.cases.length > 0 then some (st.cases.map fun s => c.K (phi c q) s) else none) st.ss
    r.1 = objSpec c.meth c.inv c.eps c.K c.bt.flatten st.cases (phi c q) ∧
    r.2 = match c.meth with
      | .mmd => some (List.replicate (st.cases.length + 1) 1)
      | .greedy => some (pgSpecWeights c.inv c.eps c.K c.bt.flatten (st.cases ++ [phi c q]))
      | .dash => none := by
  intro r
  have hr : r = batchObjective c.meth c.inv c.eps (c.K (phi c q) (phi c q)) (mu c.K c.bt.flatten (phi c q))
      (st.cases.map (mu c.K c.bt.flatten))
      (if st.cases.length > 0 then some (st.cases.map fun s => c.K (phi c q) s) else none) (subMat c.K st.cases) := by
    show batchObjective _ _ _ _ _ _ _ _ = _
    rw [hc.hcm q hq, hc.hdg q hq, hinv.means_eq, hinv.ss_eq]
  rw [hr]
  unfold batchObjective objSpec
  cases hm : c.meth with
  | mmd =>
    simp only
    by_cases hS : st.cases.length > 0
    · rw [if_pos hS]
      simp only [mmdSpec, List.length_map]
      refine ⟨?_, by first | trivial | rfl⟩
      have : (st.cases.map fun s => c.K (phi c q) s) = st.cases.map fun s => c.K s (phi c q) := by
        apply List.map_congr_left; intro s _; exact hc.hsym _ _
      rw [this]
      push_cast
      ring
    · rw [if_neg hS]
      have hnil : st.cases = [] := by
        cases h : st.cases with
        | nil => rfl
        | cons a l => rw [h] at hS; simp at hS
      simp [mmdSpec, hnil]
  | greedy =>
    simp only
    by_cases hS : st.cases.length > 0
    · rw [if_pos hS]
      simp only [pgSpec, pgSpecWeights, extendKernel_subMat c.K hc.hsym, List.map_append, List.map_cons,
        List.map_nil, and_self]
    · rw [if_neg hS]
      have hnil : st.cases = [] := by
        cases h : st.cases with
        | nil => rfl
        | cons a l => rw [h] at hS; simp at hS
      simp [pgSpec, pgSpecWeights, hnil, subMat]
  | dash =>
    simp only
    by_cases hS : st.cases.length > 0
    · rw [if_pos hS]
      simp only [dashSpec, dot_map_map, and_true]
    · rw [if_neg hS]
      have hnil : st.cases = [] := by
        cases h : st.cases with
        | nil => rfl
        | cons a l => rw [h] at hS; simp at hS
      simp [dashSpec, hnil]

theorem evalCand_obj (c : Cfg) (hc : CfgOK c) (st : Sel) (hinv : Inv c st) (q : Nat × Nat)
    (hq : validPos c q) :
    (evalCand c st q.1 (c.bt.getD q.1 []) q.2).obj
      = objSpec c.meth c.inv c.eps c.K c.bt.flatten st.cases (phi c q) :=
  (batchObjective_spec c hc st hinv q hq).1

/-! ### the mask -/

theorem getB_set2 (t : List (List Bool)) (i j i' j' : Nat) (hi : i < t.length)
    (hj : j < (t.getD i []).length) :
    getB (set2 t i j) i' j' = (decide (i = i' ∧ j = j') || getB t i' j') := by
  unfold getB set2
  simp only [List.getD_eq_getElem?_getD, List.getElem?_set]
  by_cases hii : i = i'
  · subst hii
    simp only [hi, if_true, Option.getD_some, true_and]
    by_cases hjj : j = j'
    · subst hjj
      have : j < (t[i]?.getD []).length := by simpa [List.getD_eq_getElem?_getD] using hj
      simp [this]
    · simp [hjj]
  · simp [hii]

/-! ### one selection step -/

theorem update_spec (c : Cfg) (hc : CfgOK c) (st : Sel) (hinv : Inv c st) (q : Nat × Nat)
    (hq : validPos c q) :
    let st' := update c st (evalCand c st q.1 (c.bt.getD q.1 []) q.2)
    st'.cases = st.cases ++ [phi c q] ∧
    st'.w = weightsStep c.meth c.inv c.eps c.K c.bt.flatten st.cases (phi c q) st.w ∧
    Inv c st' := by
  intro st'
  obtain ⟨hobj, hw⟩ := batchObjective_spec c hc st hinv q hq
  have hcases : st'.cases = st.cases ++ [phi c q] := rfl
  refine ⟨hcases, ?_, ?_⟩
  · show (match c.meth with
      | .dash => dashUpdate c.inv c.eps st.w (st.means ++ [get2 c.cm q.1 q.2])
          ((List.zipWith (fun row v => row ++ [v]) st.ss (st.cases.map fun s => c.K (phi c q) s))
            ++ [(st.cases.map fun s => c.K (phi c q) s) ++ [get2 c.dg q.1 q.2]])
          (evalCand c st q.1 (c.bt.getD q.1 []) q.2).obj
      | _ => match (evalCand c st q.1 (c.bt.getD q.1 []) q.2).w with
        | some bw => bw ++ st.w.drop (st.cases.length + 1)
        | none => st.w) = _
    have hw' : (evalCand c st q.1 (c.bt.getD q.1 []) q.2).w = _ := hw
    rw [hw', evalCand_obj c hc st hinv q hq, hc.hcm q hq, hc.hdg q hq, hinv.means_eq, hinv.ss_eq,
      update_ss c.K hc.hsym]
    unfold weightsStep
    cases hm : c.meth with
    | mmd => simp [List.length_append]
    | greedy => simp [List.length_append]
    | dash => simp [objSpec, hm, List.map_append]
  · constructor
    · show st.cases ++ [phi c q] = (st.idx ++ [(q.1, q.2)]).map (phi c)
      rw [List.map_append, hinv.cases_eq]; rfl
    · intro q' hq'
      have : q' ∈ st.idx ++ [(q.1, q.2)] := hq'
      rcases List.mem_append.mp this with h | h
      · exact hinv.valid q' h
      · simp only [List.mem_singleton] at h; rw [h]; exact hq
    · show (set2 st.mask q.1 q.2).length = _
      simp [set2, hinv.mask_len]
    · intro row hrow
      have : row ∈ set2 st.mask q.1 q.2 := hrow
      unfold set2 at this
      rcases List.mem_or_eq_of_mem_set this with h | h
      · exact hinv.mask_row row h
      · rw [h, List.length_set]
        have hlt : q.1 < st.mask.length := by rw [hinv.mask_len]; exact hq.1
        exact hinv.mask_row _ (by
          simp only [List.getD_eq_getElem?_getD, List.getElem?_eq_getElem hlt, Option.getD_some]
          exact List.getElem_mem hlt)
    · intro bi p
      show getB (set2 st.mask q.1 q.2) bi p = true ↔ (bi, p) ∈ st.idx ++ [(q.1, q.2)]
      have hlt : q.1 < st.mask.length := by rw [hinv.mask_len]; exact hq.1
      have hrow : (st.mask.getD q.1 []).length = c.b := hinv.mask_row _ (by
          simp only [List.getD_eq_getElem?_getD, List.getElem?_eq_getElem hlt, Option.getD_some]
          exact List.getElem_mem hlt)
      have hp : q.2 < (st.mask.getD q.1 []).length := by
        rw [hrow]
        exact lt_of_lt_of_le hq.2 (hc.hb _ (getD_mem_of_lt hq.1))
      rw [getB_set2 _ _ _ _ _ hlt hp, Bool.or_eq_true, hinv.mask_iff, List.mem_append]
      simp only [decide_eq_true_eq, List.mem_singleton, Prod.mk.injEq]
      constructor
      · rintro (⟨h1, h2⟩ | h)
        · exact Or.inr ⟨h1.symm, h2.symm⟩
        · exact Or.inl h
      · rintro (h | ⟨h1, h2⟩)
        · exact Or.inr h
        · exact Or.inl ⟨h1.symm, h2.symm⟩
    · show st.means ++ [get2 c.cm q.1 q.2] = (st.cases ++ [phi c q]).map _
      rw [List.map_append, hinv.means_eq, hc.hcm q hq]; rfl
    · show (List.zipWith (fun row v => row ++ [v]) st.ss (st.cases.map fun s => c.K (phi c q) s))
            ++ [(st.cases.map fun s => c.K (phi c q) s) ++ [get2 c.dg q.1 q.2]] = subMat c.K (st.cases ++ [phi c q])
      rw [hinv.ss_eq, hc.hdg q hq, update_ss c.K hc.hsym]

end Xp.ProtoSel
