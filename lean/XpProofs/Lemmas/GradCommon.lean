/-
  List lemmas shared by the C01 (gradient statistics) and C04 (Integrated Gradients) proofs:
  sample-major repetition, regrouping, per-batch → per-sample reduction.
-/
import XpModel.Basic
import XpModel.Reducer
import XpProofs.Lemmas.Batching
import XpProofs.Lemmas.Vec
import Mathlib.Data.List.Basic
import Mathlib.Tactic.Ring
import Mathlib.Tactic.Linarith
import Mathlib.Algebra.Order.Field.Rat

namespace Xp
variable {α β γ : Type}

theorem batches_nil (b : Nat) : batches b ([] : List α) = [] := by
  unfold batches; simp

/-- regrouping a sample-major list whose blocks all have length `c` gives back the blocks -/
theorem batches_flatMap_len (c : Nat) (hc : 0 < c) (f : α → List β) (l : List α)
    (hf : ∀ a ∈ l, (f a).length = c) : batches c (l.flatMap f) = l.map f := by
  induction l with
  | nil => simp [batches_nil]
  | cons a l ih =>
    have ha : (f a).length = c := hf a (by simp)
    have hne : ¬ (c = 0 ∨ f a ++ l.flatMap f = []) := by
      rintro (h | h)
      · omega
      · have h0 : f a = [] := (List.append_eq_nil_iff.mp h).1
        rw [h0] at ha; simp at ha; omega
    rw [List.flatMap_cons, batches, dif_neg hne]
    have h1 : (f a ++ l.flatMap f).take c = f a := by
      rw [List.take_append_of_le_length (by omega), List.take_of_length_le (by omega)]
    have h2 : (f a ++ l.flatMap f).drop c = l.flatMap f := by
      rw [← ha]; exact List.drop_left
    rw [h1, h2, ih (fun x hx => hf x (by simp [hx]))]
    simp

theorem zip_replicate_right (l : List α) (c : Nat) (t : β) (h : l.length = c) :
    l.zip (List.replicate c t) = l.map fun p => (p, t) := by
  subst h
  induction l with
  | nil => simp
  | cons a l ih => simp [List.replicate_succ, ih]

/-- `repeat_labels` is aligned with any sample-major block structure of block length `c` -/
theorem zip_flatMap_repeatEach (c : Nat) (f : α → List β) (t : α → γ) (l : List α)
    (hf : ∀ a ∈ l, (f a).length = c) :
    (l.flatMap f).zip (repeatEach c (l.map t)) = l.flatMap fun a => (f a).map fun p => (p, t a) := by
  induction l with
  | nil => simp [repeatEach]
  | cons a l ih =>
    have ha : (f a).length = c := hf a (by simp)
    simp only [repeatEach, List.map_cons, List.flatMap_cons] at ih ⊢
    rw [List.zip_append (by simp [ha]), zip_replicate_right _ _ _ ha,
      ih (fun x hx => hf x (by simp [hx]))]

theorem allSome_map_some (f : α → β) (l : List α) : allSome (l.map fun a => some (f a)) = some (l.map f) := by
  induction l with
  | nil => rfl
  | cons a l ih => simp [allSome, ih]

theorem zipWith_map_right_self (f : α → β → γ) (h : α → β) (l : List α) :
    List.zipWith f l (l.map h) = l.map fun a => f a (h a) := by
  induction l with
  | nil => rfl
  | cons a l ih => simp [ih]

theorem zipWith_map_map_self {δ : Type} (f : β → γ → δ) (h1 : α → β) (h2 : α → γ) (l : List α) :
    List.zipWith f (l.map h1) (l.map h2) = l.map fun a => f (h1 a) (h2 a) := by
  induction l with
  | nil => rfl
  | cons a l ih => simp [ih]

/-- batches, per-batch map, concatenation = global map -/
theorem flatMap_batches_map (b : Nat) (hb : 0 < b) (F : α → β) (l : List α) :
    (batches b l).flatMap (fun ch => ch.map F) = l.map F := by
  rw [List.flatMap_def, map_flatten', flatten_batches b hb]

theorem map_eq_range_getD (x : Vec) (h : Rat → Rat) :
    x.map h = (List.range x.length).map fun d => h (x.getD d 0) := by
  apply List.ext_getElem (by simp)
  intro i h1 h2
  simp [List.getD_eq_getElem?_getD]
  have : i < x.length := by simpa using h1
  simp [List.getElem?_eq_getElem this]

end Xp
