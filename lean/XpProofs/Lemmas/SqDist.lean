import XpModel.Lime
import Mathlib.Tactic.Ring

/-! squared Euclidean distance: translation invariance and the norm expansion (shared by C07 and C18) -/
namespace Xp.Lime


/-- a common offset of the input and of the masked input changes no squared Euclidean distance, hence no kernel weight -/
theorem sqDist_translation (a b : List Rat) (c : Rat) :
    sqDist (a.map (· + c)) (b.map (· + c)) = sqDist a b := by
  unfold sqDist
  induction a generalizing b with
  | nil => simp
  | cons u a ih =>
    cases b with
    | nil => simp
    | cons v b =>
      simp only [List.map_cons, List.zipWith_cons_cons, sumQ]
      rw [ih b]; ring

/-- over the rationals the expanded form `‖a‖² − 2⟨a,b⟩ + ‖b‖²` IS the squared distance: a float32 implementation that uses it
    differs from the documented kernel by rounding only - which is unbounded relative to `D²` when `a` and `b` share a large
    offset (the reason for the large-offset family of the correspondence check) -/
theorem sqDist_expansion (a b : List Rat) (h : a.length = b.length) :
    sqDist a b = sqNorm a - 2 * dot a b + sqNorm b := by
  unfold sqDist sqNorm dot
  induction a generalizing b with
  | nil => cases b with
    | nil => simp [sumQ]
    | cons v b => simp at h
  | cons u a ih =>
    cases b with
    | nil => simp at h
    | cons v b =>
      simp only [List.zipWith_cons_cons, sumQ]
      rw [ih b (by simpa using h)]; ring

end Xp.Lime
