/-
  Helper lemmas for C20: `_batch_inference` chunking, uniform reshapes, Option-valued means.
-/
import XpModel.Craft
import XpProofs.Lemmas.Sobol
import Mathlib.Data.List.Basic
import Mathlib.Tactic.Ring
import Mathlib.Tactic.Linarith
import Mathlib.Tactic.Positivity
import Mathlib.Algebra.Order.Field.Rat

namespace Xp.Craft
open Xp.Sobol
variable {α β : Type}

/-- `i < ceil(a / s)  ↔  i·s < a` for the translation `-((-a) fdiv s)` of Python's `ceil(a / s)` -/
theorem lt_ceil_iff' (a s i : Int) (hs : 0 < s) : i < -(Int.fdiv (-a) s) ↔ i * s < a := by
  rw [Int.fdiv_eq_ediv_of_nonneg _ (le_of_lt hs)]
  have h1 : i < -((-a) / s) ↔ (-a) / s < -i := by constructor <;> intro h <;> linarith
  rw [h1, Int.ediv_lt_iff_lt_mul hs, neg_mul]
  constructor <;> intro h <;> linarith

theorem chunks_take (ds : List α) (bs k : Nat) :
    (List.range k).flatMap (fun i => (ds.take (i * bs + bs)).drop (i * bs)) = ds.take (k * bs) := by
  induction k with
  | zero => simp
  | succ k ih =>
    rw [List.range_succ, List.flatMap_append, ih]
    simp only [List.flatMap_cons, List.flatMap_nil, List.append_nil]
    rw [List.drop_take, show k * bs + bs - k * bs = bs by omega, show (k + 1) * bs = k * bs + bs by ring,
      List.take_add]

theorem map_slice (f : α → β) (xs : List α) (lo hi : Int) :
    slice (xs.map f) lo hi = (slice xs lo hi).map f := by
  simp [slice, List.map_take, List.map_drop]

theorem flatMap_map_out (f : α → β) (g : Nat → List α) (l : List Nat) :
    l.flatMap (fun i => (g i).map f) = (l.flatMap g).map f := by
  induction l with
  | nil => simp
  | cons x l ih => simp [List.flatMap_cons, ih]

/-- **batching** — `_batch_inference` with a per-sample model and any positive batch size is the
    plain map (about the GENERATED chunk arithmetic) -/
theorem batchInference_eq_map (f : α → β) (bs : Nat) (hb : 0 < bs) (ds : List α) :
    batchInference (fun b => b.map f) bs ds = ds.map f := by
  unfold batchInference
  have hs : ∀ i : Nat, slice ds (Gen.craftBatchLo (Gen.craftStart (i : Int) (bs : Int)) (bs : Int))
      (Gen.craftBatchHi (Gen.craftStart (i : Int) (bs : Int)) (bs : Int))
      = (ds.take (i * bs + bs)).drop (i * bs) := by
    intro i
    have e1 : Gen.craftBatchLo (Gen.craftStart (i : Int) (bs : Int)) (bs : Int) = ((i * bs : Nat) : Int) := by
      simp [Gen.craftBatchLo, Gen.craftStart]
    have e2 : Gen.craftBatchHi (Gen.craftStart (i : Int) (bs : Int)) (bs : Int) = ((i * bs + bs : Nat) : Int) := by
      simp [Gen.craftBatchHi, Gen.craftStart]
    rw [e1, e2, slice_nat]
  simp only [hs]
  rw [flatMap_map_out f (fun i => (ds.take (i * bs + bs)).drop (i * bs)), chunks_take]
  congr 1
  apply List.take_of_length_le
  -- ceil(len / bs) * bs ≥ len
  set k := (Gen.craftNbBatches (ds.length : Int) (bs : Int)).toNat with hk
  by_contra hlt
  have hlt' : ((k : Int)) * (bs : Int) < (ds.length : Int) := by
    have : k * bs < ds.length := by omega
    exact_mod_cast this
  have := (lt_ceil_iff' (ds.length : Int) (bs : Int) (k : Int) (by exact_mod_cast hb)).mpr hlt'
  have h2 : Gen.craftNbBatches (ds.length : Int) (bs : Int) ≤ (k : Int) := by
    rw [hk]; exact Int.self_le_toNat _
  unfold Gen.craftNbBatches at h2
  omega

theorem length_flatMap_const (a b : Nat) (g : Nat → Nat → α) :
    ((List.range a).flatMap fun i => (List.range b).map (g i)).length = a * b := by
  induction a with
  | zero => simp
  | succ a ih =>
    rw [List.range_succ, List.flatMap_append, List.length_append, ih]
    simp [Nat.succ_mul]

theorem length_flatMap_uniform (l : List α) (g : α → List β) (m : Nat) (h : ∀ x ∈ l, (g x).length = m) :
    (l.flatMap g).length = l.length * m := by
  induction l with
  | nil => simp
  | cons x l ih =>
    rw [List.flatMap_cons, List.length_append, h x (List.mem_cons_self ..),
      ih (fun y hy => h y (List.mem_cons_of_mem _ hy)), List.length_cons]
    ring

/-- `reshape(-1, C)` followed by `reshape(N, hw, ·)` is the identity on uniform blocks -/
theorem batches_flatten_uniform (L : List (List α)) (b : Nat) (hb : 0 < b) (hL : ∀ l ∈ L, l.length = b) :
    batches b L.flatten = L := by
  induction L with
  | nil => simp [batches]
  | cons l L ih =>
    have hl : l.length = b := hL l (List.mem_cons_self ..)
    rw [List.flatten_cons]
    unfold batches
    have hne : ¬ (b = 0 ∨ l ++ L.flatten = []) := by
      intro h; rcases h with h | h
      · omega
      · have : l = [] := (List.append_eq_nil_iff.mp h).1
        rw [this] at hl; simp at hl; omega
    rw [dif_neg hne]
    have t1 : (l ++ L.flatten).take b = l := by rw [← hl, List.take_left]
    have t2 : (l ++ L.flatten).drop b = L.flatten := by rw [← hl, List.drop_left]
    rw [t1, t2, ih (fun l' h' => hL l' (List.mem_cons_of_mem _ h'))]

/-! ### undefined-propagating sums -/

theorem sumO_some {l : List (Option Rat)} {s : Rat} (h : sumO l = some s) :
    (∀ x ∈ l, ∃ v, x = some v) ∧
    (∀ P : Rat → Prop, P 0 → (∀ a b, P a → P b → P (a + b)) → (∀ v, some v ∈ l → P v) → P s) := by
  induction l generalizing s with
  | nil =>
    simp only [sumO, Option.some.injEq] at h
    subst h
    exact ⟨by simp, fun P h0 _ _ => h0⟩
  | cons x l ih =>
    cases x with
    | none => simp [sumO] at h
    | some v =>
      cases hs : sumO l with
      | none => simp [sumO, hs] at h
      | some t =>
        simp only [sumO, hs, Option.bind_eq_bind, Option.bind_some, Option.pure_def, Option.some.injEq] at h
        subst h
        obtain ⟨h1, h2⟩ := ih hs
        refine ⟨?_, ?_⟩
        · intro y hy
          rcases List.mem_cons.mp hy with rfl | hy
          · exact ⟨v, rfl⟩
          · exact h1 y hy
        · intro P h0 hadd hP
          apply hadd
          · exact hP v (List.mem_cons_self ..)
          · exact h2 P h0 hadd (fun w hw => hP w (List.mem_cons_of_mem _ hw))

end Xp.Craft
