/-
  C06 — Occlusion equals its reference definition for every geometry.

  `Occl.explain` is the executable model of `Occlusion.explain` (it uses the anchor arithmetic
  GENERATED from the source); `Occl.specOne` is the reference definition of the property.
  Theorems hold for every shape, patch, stride > 0, occlusion value, score function, number of
  inputs and batch size.
-/
import XpModel.Occlusion
import XpProofs.Lemmas.Batching
import XpProofs.Lemmas.Vec
import Mathlib.Data.List.Sort

namespace Xp.Occl

/-- `i < ceil(a / s)  ↔  i·s < a` for the translation `-((-a) fdiv s)` of Python's `ceil(a / s)` -/
theorem lt_ceil_iff (a s i : Int) (hs : 0 < s) : i < -(Int.fdiv (-a) s) ↔ i * s < a := by
  rw [Int.fdiv_eq_ediv_of_nonneg _ (le_of_lt hs)]
  have h1 : i < -((-a) / s) ↔ (-a) / s < -i := by constructor <;> intro h <;> linarith
  rw [h1, Int.ediv_lt_iff_lt_mul hs, neg_mul]
  constructor <;> intro h <;> linarith

private theorem anchors_core (nb : Int → Int → Int → Int) (mul : Int → Int → Int) (dim p s : Nat)
    (hs : 0 < s)
    (hnb : ∀ i : Nat, (i : Int) < nb dim p s ↔ i * s + p ≤ dim)
    (hmul : ∀ i : Nat, mul (Int.ofNat i) (Int.ofNat s) = Int.ofNat (i * s)) :
    anchorsOf nb mul dim p s = (specAnchors dim p s).map Int.ofNat := by
  unfold anchorsOf specAnchors
  have : (List.range (nb dim p s).toNat).map (fun (i : Nat) => mul (Int.ofNat i) (Int.ofNat s))
       = ((List.range (nb dim p s).toNat).map (fun i => i * s)).map Int.ofNat := by
    rw [List.map_map]; apply List.map_congr_left; intro i _; exact hmul i
  rw [this]; congr 1
  apply List.Pairwise.eq_of_mem_iff (r := (· < ·))
  · rw [List.pairwise_map]
    exact List.Pairwise.imp (fun {a b} h => Nat.mul_lt_mul_of_pos_right h hs) List.pairwise_lt_range
  · exact List.Pairwise.filter _ List.pairwise_lt_range
  · intro a
    simp only [List.mem_map, List.mem_range, List.mem_filter, Bool.and_eq_true, decide_eq_true_eq]
    constructor
    · rintro ⟨i, hi, rfl⟩
      have := (hnb i).mp ((Int.lt_toNat).mp hi)
      refine ⟨by omega, Nat.mul_mod_left i s, this⟩
    · rintro ⟨_, hmod, hle⟩
      obtain ⟨i, rfl⟩ : s ∣ a := Nat.dvd_of_mod_eq_zero hmod
      refine ⟨i, (Int.lt_toNat).mpr ((hnb i).mpr (by rw [Nat.mul_comm]; exact hle)), Nat.mul_comm _ _⟩

private theorem nb_spec (dim p s i : Nat) (hs : 0 < s) :
    ((i : Int) < (-(Int.fdiv (-(((dim : Int) - (p : Int)) + (1 : Int))) (s : Int)))) ↔ i * s + p ≤ dim := by
  rw [lt_ceil_iff _ _ _ (by exact_mod_cast hs)]
  constructor
  · intro h; have : ((i * s + p : Nat) : Int) ≤ dim := by push_cast; linarith
    exact_mod_cast this
  · intro h; have : ((i * s + p : Nat) : Int) ≤ dim := by exact_mod_cast h
    push_cast at this; linarith

/-- **Anchors (tabular)** — the anchors produced by the source's `ceil` expression are exactly the
    multiples of the stride whose patch lies fully inside the input. This theorem is about the
    GENERATED defs: it stops compiling if the source arithmetic changes meaning. -/
theorem occl_anchors_spec_tab (dim p s : Nat) (hs : 0 < s) :
    anchorsTab dim p s = (specAnchors dim p s).map Int.ofNat :=
  anchors_core _ _ dim p s hs (fun i => by unfold Gen.occlNbAnchorsTab; exact nb_spec dim p s i hs)
    (fun i => by simp [Gen.occlAnchorTab])

theorem occl_anchors_spec_x (dim p s : Nat) (hs : 0 < s) :
    anchorsX dim p s = (specAnchors dim p s).map Int.ofNat :=
  anchors_core _ _ dim p s hs (fun i => by unfold Gen.occlNbAnchorsX; exact nb_spec dim p s i hs)
    (fun i => by simp [Gen.occlAnchorX])

theorem occl_anchors_spec_y (dim p s : Nat) (hs : 0 < s) :
    anchorsY dim p s = (specAnchors dim p s).map Int.ofNat :=
  anchors_core _ _ dim p s hs (fun i => by unfold Gen.occlNbAnchorsY; exact nb_spec dim p s i hs)
    (fun i => by simp [Gen.occlAnchorY])

/-- membership form: `a` is an anchor iff `stride ∣ a` and `a + patch ≤ dim` -/
theorem occl_anchor_mem (dim p s a : Nat) (hs : 0 < s) :
    (a : Int) ∈ anchorsTab dim p s ↔ s ∣ a ∧ a + p ≤ dim := by
  rw [occl_anchors_spec_tab dim p s hs]
  simp only [specAnchors, List.mem_map, List.mem_filter, List.mem_range, Bool.and_eq_true,
    decide_eq_true_eq]
  constructor
  · rintro ⟨b, ⟨_, hmod, hle⟩, hb⟩
    have : b = a := by simpa using hb
    subst this
    exact ⟨Nat.dvd_of_mod_eq_zero hmod, hle⟩
  · rintro ⟨hd, hle⟩
    exact ⟨a, ⟨by omega, Nat.mod_eq_zero_of_dvd hd, hle⟩, rfl⟩

private theorem inSlice_ofNat (a p i : Nat) : inSlice (Int.ofNat a) p i = (decide (a ≤ i) && decide (i < a + p)) := by
  unfold inSlice
  rw [Bool.eq_iff_iff]
  simp only [Bool.and_eq_true, decide_eq_true_eq, Int.ofNat_eq_natCast]
  constructor <;> rintro ⟨h1, h2⟩ <;> constructor <;> omega

/-- strides of a geometry are positive -/
def Geom.StridePos : Geom → Prop
  | .tab _ _ s => 0 < s
  | .two _ _ _ _ _ sa sb => 0 < sa ∧ 0 < sb

/-- **Masks** — the list of masks built by `_get_masks` (order included) is the reference list. -/
theorem occl_masks_eq_spec (g : Geom) (hs : g.StridePos) : masks g = specMasks g := by
  cases g with
  | tab w p s =>
    simp only [masks, specMasks]
    rw [occl_anchors_spec_tab w p s hs, List.map_map]
    apply List.map_congr_left; intro a _
    apply List.map_congr_left; intro i _
    exact inSlice_ofNat a p i
  | two a b c pa pb sa sb =>
    simp only [masks, specMasks]
    rw [occl_anchors_spec_x a pa sa hs.1, occl_anchors_spec_y b pb sb hs.2]
    simp only [List.flatMap_map, List.map_map]
    apply List.flatMap_congr; intro ax _
    apply List.map_congr_left; intro ay _
    apply List.map_congr_left; intro k _
    simp only [Function.comp, inSlice_ofNat]

theorem applyMask_eq_occlude (g : Geom) (x : List Rat) (m : List Bool) (v : Rat) :
    applyMask g x m v = occlude g x m v := by
  unfold applyMask occlude
  apply List.map_congr_left; intro k _
  by_cases h : m.getD (k / g.chan) false <;> simp [h]

/-- **Refinement, one input** — accumulating the sensitivities chunk by chunk (any chunk size
    `b ≥ 1`) gives, for every feature cell, the sum over the patches covering it of
    `score(x) − score(x occluded)`. -/
theorem occl_one_eq_spec (g : Geom) (hs : g.StridePos) (f : List Rat → Rat) (v : Rat) (b : Nat)
    (hb : 0 < b) (x : List Rat) : explainOne g f v b x = specOne g f v x := by
  unfold explainOne specOne
  have hfold : (fun (acc : List Rat) (chunk : List (List Bool)) =>
        vadd acc (sensChunk g.nfeat (f x) (chunk.map fun m => (m, f (applyMask g x m v)))))
      = (fun acc chunk => vadd acc ((List.range g.nfeat).map fun k =>
          sumQ (chunk.map ((fun k m => (f x - f (occlude g x m v)) * (if m.getD k false then 1 else 0)) k)))) := by
    funext acc chunk
    simp only [sensChunk, List.map_map, applyMask_eq_occlude]
    rfl
  simp only [hfold]
  rw [foldl_vadd_chunks g.nfeat _ _ _ (vzero_length _), flatten_batches b hb, occl_masks_eq_spec g hs]
  apply List.map_congr_left; intro k _
  rw [vzero_getD, zero_add]
  exact sumQ_indicator (specMasks g) (fun m => m.getD k false) (fun m => f x - f (occlude g x m v))

/-- **C06 main theorem** — `Occlusion.explain` (model) equals the reference definition for every
    geometry, occlusion value, score function, inputs, targets and every batch size
    (`none` or any positive integer). -/
theorem occl_impl_eq_spec (g : Geom) (hs : g.StridePos) (f : List Rat → List Rat → Rat) (v : Rat)
    (bs : Option Nat) (hbs : ∀ b, bs = some b → 0 < b) (xs ys : List (List Rat)) :
    explain g f v bs xs ys = List.zipWith (fun x y => specOne g (fun z => f z y) v x) xs ys := by
  unfold explain
  by_cases hx : xs = []
  · subst hx; simp
  · have hb : 0 < effBatch bs xs.length := by
      cases bs with
      | none => exact List.length_pos_iff.mpr hx
      | some b => exact hbs b rfl
    show List.zipWith (fun x y => explainOne g (fun z => f z y) v (effBatch bs xs.length) x) xs ys = _
    congr 1
    funext x y
    exact occl_one_eq_spec g hs _ v _ hb x

/-- the result does not depend on the batch size -/
theorem occl_bs_indep (g : Geom) (hs : g.StridePos) (f : List Rat → List Rat → Rat) (v : Rat)
    (b : Nat) (hb : 0 < b) (xs ys : List (List Rat)) :
    explain g f v (some b) xs ys = explain g f v none xs ys := by
  rw [occl_impl_eq_spec g hs f v (some b) (by intro b' h; cases h; exact hb),
      occl_impl_eq_spec g hs f v none (by intro b' h; cases h)]

/-- output shape: one map per input, one value per feature cell -/
theorem occl_shape (g : Geom) (f : List Rat → Rat) (v : Rat) (x : List Rat) :
    (specOne g f v x).length = g.nfeat := by
  simp [specOne]

/-- no chunk handed to the model exceeds the batch size -/
theorem occl_calls_le_bs (g : Geom) (b : Nat) : ∀ c ∈ batches b (masks g), c.length ≤ b :=
  fun c hc => (batch_len_le b (masks g) c hc).1

-- non-vacuity: concrete geometries satisfy the hypotheses and produce non-trivial maps
example : (Geom.two 3 4 2 2 3 1 2).StridePos := ⟨by decide, by decide⟩
example : specAnchors 7 3 2 = [0, 2, 4] := by decide
example : explainOne (.tab 4 2 1) (fun x => x.getD 1 0 * x.getD 2 0) 0 2 [1, 2, 3, 4] = [6, 12, 12, 6] := by
  decide +kernel

end Xp.Occl
