/-
  C09 — RISE averages the scores of exactly the masked inputs it evaluated.

  `Rise.explain` / `Rise.explainOne` is the executable model of `Rise.explain` of rise.py (binary
  grids in chunks, bilinear upsample to the GENERATED size, one crop offset per chunk, masked
  inputs, accumulated numerator / denominator); `Rise.specPairs` / `Rise.specMasks` is the
  reference definition of the property.  Everything holds for every data kind, shape, grid,
  number of samples, score function, mask value and every batch size.
-/
import XpModel.Rise
import XpProofs.Lemmas.Rise

namespace Xp.Rise

/-- **Refinement (pairs)** — accumulating `Σ score·mask` and `Σ mask` over chunks of ANY size
    `b ≥ 1` (also `b ∤ nb_samples`) and dividing at the end is the reference definition. -/
theorem rise_pairs_impl_eq_spec (nfeat : Nat) (eps : Rat) (b : Nat) (hb : 0 < b)
    (pairs : List (List Rat × Rat)) :
    explainPairs nfeat eps b pairs = specPairs nfeat eps pairs := by
  unfold explainPairs
  rw [finish_foldl_chunks, flatten_batches b hb]

/-- **C09 main theorem, one input** — the model of `Rise.explain` (grids chunked by `b`, each chunk
    upsampled and cropped at its own offset, masked inputs scored by `f`) equals
    `Σ_k f(masked_k)·m_k / (Σ_k m_k + ε)` over exactly the masks it applied, where
    `masked_k = m_k·x + (1−m_k)·v`. No hypothesis on `b`, the offsets or the grids. -/
theorem rise_one_impl_eq_spec (k : Kind) (f : List Rat → Rat) (v eps : Rat) (b : Nat)
    (grids : List (List Rat)) (offs : List (Nat × Nat)) (x : List Rat) :
    explainOne k f v eps b grids offs x
      = specMasks k.nfeat k.chan f v eps x (appliedAll k b grids offs) := by
  unfold explainOne specMasks appliedAll
  rw [← List.foldl_map (f := chunkPairs k f v x) (g := accStep k.nfeat), finish_foldl_chunks]
  congr 1
  rw [← map_flatten', List.map_map]
  congr 1
  apply List.map_congr_left; intro co _
  simp [chunkPairs, Function.comp]

/-- **C09 main theorem** — all inputs, every batch size (`none` = `nb_samples`). -/
theorem rise_impl_eq_spec (k : Kind) (f : List Rat → List Rat → Rat) (v eps : Rat) (bs : Option Nat)
    (grids : List (List Rat)) (xs ys : List (List Rat)) (offss : List (List (Nat × Nat))) :
    explain k f v eps bs grids xs ys offss
      = List.zipWith (fun xy offs => specMasks k.nfeat k.chan (fun z => f z xy.2) v eps xy.1
          (appliedAll k (effBatch bs grids.length) grids offs)) (xs.zip ys) offss := by
  unfold explain
  simp only [rise_one_impl_eq_spec]

/-- given the same applied masks and scores, the map does not depend on the batch size -/
theorem rise_bs_indep (nfeat : Nat) (eps : Rat) (b b' : Nat) (hb : 0 < b) (hb' : 0 < b')
    (pairs : List (List Rat × Rat)) :
    explainPairs nfeat eps b pairs = explainPairs nfeat eps b' pairs := by
  rw [rise_pairs_impl_eq_spec _ _ _ hb, rise_pairs_impl_eq_spec _ _ _ hb']

/-- **Positive denominator** — non-negative masks and `ε > 0` make `Σ_k m_k p + ε > 0`. -/
theorem rise_den_pos (eps : Rat) (heps : 0 < eps) (pairs : List (List Rat × Rat)) (p : Nat)
    (hm : ∀ ms ∈ pairs, 0 ≤ ms.1.getD p 0) :
    0 < sumQ (pairs.map fun ms => ms.1.getD p 0) + eps := by
  have := sumQ_map_nonneg pairs (fun ms => ms.1.getD p 0) hm
  linarith

/-- … hence every cell of the map is a finite number: `num / (den + ε)`. -/
theorem rise_finite (nfeat : Nat) (eps : Rat) (heps : 0 < eps) (pairs : List (List Rat × Rat)) (p : Nat)
    (hp : p < nfeat) (hm : ∀ ms ∈ pairs, 0 ≤ ms.1.getD p 0) :
    (specPairs nfeat eps pairs)[p]? = some (some (mapVal eps pairs p)) := by
  have hd := rise_den_pos eps heps pairs p hm
  unfold specPairs
  rw [List.getElem?_map, List.getElem?_range hp]
  simp only [Option.map_some, divOpt, mapVal]
  rw [if_neg (ne_of_gt hd)]

/-- the shrink factor `den/(den+ε)` lies in `[0, 1)` -/
theorem rise_ratio_range (eps : Rat) (heps : 0 < eps) (pairs : List (List Rat × Rat)) (p : Nat)
    (hm : ∀ ms ∈ pairs, 0 ≤ ms.1.getD p 0) :
    0 ≤ ratio eps pairs p ∧ ratio eps pairs p < 1 := by
  have hd := rise_den_pos eps heps pairs p hm
  have h0 := sumQ_map_nonneg pairs (fun ms => ms.1.getD p 0) hm
  unfold ratio
  constructor
  · exact div_nonneg h0 hd.le
  · rw [div_lt_one hd]; linarith

/-- **Bounds** — with masks `≥ 0` and every evaluated score in `[smin, smax]`, each cell of the map
    lies in `[smin · r, smax · r]`, `r = den / (den + ε)`. -/
theorem rise_bounds (eps : Rat) (heps : 0 < eps) (pairs : List (List Rat × Rat)) (p : Nat)
    (smin smax : Rat) (hm : ∀ ms ∈ pairs, 0 ≤ ms.1.getD p 0)
    (hs : ∀ ms ∈ pairs, smin ≤ ms.2 ∧ ms.2 ≤ smax) :
    smin * ratio eps pairs p ≤ mapVal eps pairs p ∧ mapVal eps pairs p ≤ smax * ratio eps pairs p := by
  have hd := rise_den_pos eps heps pairs p hm
  unfold ratio mapVal
  rw [← mul_div_assoc, ← mul_div_assoc, div_le_div_iff_of_pos_right hd, div_le_div_iff_of_pos_right hd,
    ← sumQ_map_mul_left, ← sumQ_map_mul_left]
  constructor
  · apply sumQ_map_le; intro ms hms
    exact mul_le_mul_of_nonneg_right (hs ms hms).1 (hm ms hms)
  · apply sumQ_map_le; intro ms hms
    exact mul_le_mul_of_nonneg_right (hs ms hms).2 (hm ms hms)

/-- **Constant score** — if every masked input scores `c`, the map is `c · den/(den+ε)` everywhere. -/
theorem rise_constant (eps : Rat) (pairs : List (List Rat × Rat)) (p : Nat) (c : Rat)
    (hc : ∀ ms ∈ pairs, ms.2 = c) :
    mapVal eps pairs p = c * ratio eps pairs p := by
  unfold mapVal ratio
  rw [← mul_div_assoc, ← sumQ_map_mul_left]
  congr 2
  apply List.map_congr_left; intro ms hms; rw [hc ms hms]

/-- **Mask recovery** — where `x ≠ v` the mask value is determined by the masked value; this is the
    observation method of the correspondence harness. -/
theorem rise_mask_recover (x v m : Rat) (h : x ≠ v) : recover x v (m * x + (1 - m) * v) = m := by
  unfold recover
  have : x - v ≠ 0 := sub_ne_zero.mpr h
  field_simp
  ring

/-- the same at list level: cell `j` of the masked input gives back the mask value of its spatial cell -/
theorem rise_mask_recover_list (chan : Nat) (x m : List Rat) (v : Rat) (j : Nat) (hj : j < x.length)
    (h : x.getD j 0 ≠ v) :
    recover (x.getD j 0) v ((maskedInput chan x m v).getD j 0) = m.getD (j / chan) 0 := by
  unfold maskedInput
  rw [getD_range_map _ _ _ hj]
  exact rise_mask_recover _ _ _ h

/-! ### upsampling, crop, mask range -/

/-- **Convexity** — every upsampled value is a convex combination of (at most) four grid cells:
    rows `tapLo/tapHi H' h i`, columns `tapLo/tapHi W' w j`, weights `≥ 0` summing to `1`. -/
theorem rise_upsample_convex (H' W' h w : Nat) (g : Nat → Nat → Rat) (i j : Nat) :
    ∃ w00 w01 w10 w11 : Rat, 0 ≤ w00 ∧ 0 ≤ w01 ∧ 0 ≤ w10 ∧ 0 ≤ w11 ∧ w00 + w01 + w10 + w11 = 1 ∧
      up2 H' W' h w g i j
        = w00 * g (tapLo H' h i) (tapLo W' w j) + w01 * g (tapLo H' h i) (tapHi W' w j)
        + w10 * g (tapHi H' h i) (tapLo W' w j) + w11 * g (tapHi H' h i) (tapHi W' w j) := by
  have hy0 := frac_nonneg H' h i
  have hy1 := frac_le_one H' h i
  have hx0 := frac_nonneg W' w j
  have hx1 := frac_le_one W' w j
  refine ⟨(1 - frac H' h i) * (1 - frac W' w j), (1 - frac H' h i) * frac W' w j,
          frac H' h i * (1 - frac W' w j), frac H' h i * frac W' w j, ?_, ?_, ?_, ?_, ?_, ?_⟩
  · exact mul_nonneg (by linarith) (by linarith)
  · exact mul_nonneg (by linarith) hx0
  · exact mul_nonneg hy0 (by linarith)
  · exact mul_nonneg hy0 hx0
  · ring
  · unfold up2; simp only [lerp_convex]; ring

/-- … hence it stays inside any interval containing the grid values (`[0,1]` for binary grids). -/
theorem rise_upsample_range (H' W' h w : Nat) (g : Nat → Nat → Rat) (lo hi : Rat)
    (hg : ∀ r c, lo ≤ g r c ∧ g r c ≤ hi) (i j : Nat) :
    lo ≤ up2 H' W' h w g i j ∧ up2 H' W' h w g i j ≤ hi := by
  have hy0 := frac_nonneg H' h i
  have hy1 := frac_le_one H' h i
  have hx0 := frac_nonneg W' w j
  have hx1 := frac_le_one W' w j
  unfold up2
  constructor
  · exact lerp_ge _ _ _ _ hy0 hy1 (lerp_ge _ _ _ _ hx0 hx1 (hg _ _).1 (hg _ _).1)
      (lerp_ge _ _ _ _ hx0 hx1 (hg _ _).1 (hg _ _).1)
  · exact lerp_le _ _ _ _ hy0 hy1 (lerp_le _ _ _ _ hx0 hx1 (hg _ _).2 (hg _ _).2)
      (lerp_le _ _ _ _ hx0 hx1 (hg _ _).2 (hg _ _).2)

private theorem getD_unit (grid : List Rat) (hg : ∀ c ∈ grid, 0 ≤ c ∧ c ≤ 1) (n : Nat) :
    0 ≤ grid.getD n 0 ∧ grid.getD n 0 ≤ 1 := by
  rw [List.getD_eq_getElem?_getD]
  by_cases h : n < grid.length
  · rw [List.getElem?_eq_getElem h]; exact hg _ (List.getElem_mem h)
  · rw [List.getElem?_eq_none (by omega)]; simp

/-- **Mask range and shape** — for every data kind, binary (or `[0,1]`-valued) grid and crop offset,
    the applied mask has exactly one value per spatial cell of the input, each in `[0,1]`. -/
theorem rise_mask_range (k : Kind) (grid : List Rat) (off : Nat × Nat)
    (hg : ∀ c ∈ grid, 0 ≤ c ∧ c ≤ 1) :
    (applied k grid off).length = k.nfeat ∧ ∀ m ∈ applied k grid off, 0 ≤ m ∧ m ≤ 1 := by
  cases k with
  | tab W =>
    simp only [applied, Kind.nfeat, List.length_map, List.length_range, true_and, List.mem_map, List.mem_range]
    rintro m ⟨p, _, rfl⟩
    exact getD_unit grid hg p
  | ts T W t =>
    simp only [applied, Kind.nfeat, List.length_map, List.length_range, true_and, List.mem_map, List.mem_range]
    rintro m ⟨p, _, rfl⟩
    exact rise_upsample_range _ _ _ _ _ 0 1 (fun r c => getD_unit grid hg _) _ _
  | img H W C h w =>
    simp only [applied, Kind.nfeat, List.length_map, List.length_range, true_and, List.mem_map, List.mem_range]
    rintro m ⟨p, _, rfl⟩
    exact rise_upsample_range _ _ _ _ _ 0 1 (fun r c => getD_unit grid hg _) _ _

/-- **Upsample size** (about the GENERATED expressions) — `int(H·(1 + 1/h)) = H + ⌊H/h⌋ ≥ H`,
    rows with the grid's rows, columns with the grid's columns. -/
theorem rise_upsample_size (H W h w : Nat) (hh : 0 < h) (hw : 0 < w) :
    (Gen.riseUpImgH H W h w).toNat = H + H / h ∧ (Gen.riseUpImgW H W h w).toNat = W + W / w ∧
    (Gen.riseUpTsT H W h w).toNat = H + H / h ∧ (Gen.riseUpTsW H W h w).toNat = W := by
  have key : ∀ a b : Nat, 0 < b → (Int.fdiv ((a : Int) * ((b : Int) + 1)) (b : Int)).toNat = a + a / b := by
    intro a b hb
    rw [Int.fdiv_eq_ediv_of_nonneg _ (by positivity)]
    have : ((a : Int) * ((b : Int) + 1)) / (b : Int) = ((a + a / b : Nat) : Int) := by
      have h1 : (a : Int) * ((b : Int) + 1) = ((b * a + a : Nat) : Int) := by push_cast; ring
      rw [h1, ← Int.natCast_ediv, Nat.mul_add_div hb]
    rw [this]; rfl
  refine ⟨?_, ?_, ?_, ?_⟩
  · unfold Gen.riseUpImgH; exact key H h hh
  · unfold Gen.riseUpImgW; exact key W w hw
  · unfold Gen.riseUpTsT; exact key H h hh
  · unfold Gen.riseUpTsW; rfl

private theorem divmod_rowmajor (i j wd : Nat) (hj : j < wd) :
    (i * wd + j) / wd = i ∧ (i * wd + j) % wd = j := by
  have hw : 0 < wd := by omega
  constructor
  · rw [Nat.add_comm, Nat.add_mul_div_right _ _ hw, Nat.div_eq_of_lt hj, Nat.zero_add]
  · rw [Nat.add_comm, Nat.add_mul_mod_self_right, Nat.mod_eq_of_lt hj]

private theorem rowmajor_lt (i j h wd : Nat) (hi : i < h) (hj : j < wd) : i * wd + j < h * wd := by
  have : (i + 1) * wd ≤ h * wd := Nat.mul_le_mul_right _ hi
  rw [Nat.add_mul] at this
  omega

/-- the crop is always possible: the upsampled mask is at least as large as the input -/
theorem rise_crop_possible (k : Kind) (hg : 0 < k.gridShape.1 ∧ 0 < k.gridShape.2) :
    k.extent.1 ≤ k.upSize.1 ∧ k.extent.2 ≤ k.upSize.2 := by
  cases k with
  | tab W => simp [Kind.extent, Kind.upSize]
  | ts T W t =>
    simp only [Kind.gridShape] at hg
    obtain ⟨_, _, h3, h4⟩ := rise_upsample_size T W t W hg.1 hg.2
    simp only [Kind.extent, Kind.upSize, h3, h4]
    exact ⟨Nat.le_add_right _ _, Nat.le_refl _⟩
  | img H W C h w =>
    simp only [Kind.gridShape] at hg
    obtain ⟨h1, h2, _, _⟩ := rise_upsample_size H W h w hg.1 hg.2
    simp only [Kind.extent, Kind.upSize, h1, h2]
    exact ⟨Nat.le_add_right _ _, Nat.le_add_right _ _⟩

private theorem window_core (uh uw eh ew gh gw : Nat) (g : Nat → Nat → Rat) (dy dx i j : Nat)
    (hi : i < eh) (hj : j < ew) (hle1 : eh ≤ uh) (hle2 : ew ≤ uw)
    (hdy : dy ≤ uh - eh) (hdx : dx ≤ uw - ew) :
    ((List.range (eh * ew)).map fun p => up2 uh uw gh gw g (p / ew + dy) (p % ew + dx)).getD (i * ew + j) 0
      = ((List.range (uh * uw)).map fun p => up2 uh uw gh gw g (p / uw) (p % uw)).getD
          ((i + dy) * uw + (j + dx)) 0 := by
  rw [getD_range_map _ _ _ (rowmajor_lt i j eh ew hi hj),
      getD_range_map _ _ _ (rowmajor_lt (i + dy) (j + dx) uh uw (by omega) (by omega))]
  obtain ⟨a1, a2⟩ := divmod_rowmajor i j ew hj
  obtain ⟨b1, b2⟩ := divmod_rowmajor (i + dy) (j + dx) uw (by omega)
  rw [a1, a2, b1, b2]

/-- **Crop window** — the applied mask at spatial cell `(i, j)` is the upsampled mask at
    `(i + dy, j + dx)` for every admissible offset: a pure translation, no flip / transposition. -/
theorem rise_crop_is_window (k : Kind) (grid : List Rat) (dy dx i j : Nat)
    (hi : i < k.extent.1) (hj : j < k.extent.2)
    (hle : k.extent.1 ≤ k.upSize.1 ∧ k.extent.2 ≤ k.upSize.2)
    (hdy : dy ≤ k.offLimit.1) (hdx : dx ≤ k.offLimit.2) :
    (applied k grid (dy, dx)).getD (i * k.extent.2 + j) 0
      = (upsampled k grid).getD ((i + dy) * k.upSize.2 + (j + dx)) 0 := by
  cases k with
  | tab W =>
    simp only [Kind.extent, Kind.upSize, Kind.offLimit] at *
    have : i = 0 := by omega
    have : dy = 0 := by omega
    have : dx = 0 := by omega
    subst_vars
    simp [applied, upsampled]
  | ts T W t =>
    simp only [Kind.offLimit] at hdy hdx
    simp only [applied, upsampled, Kind.nfeat, Kind.gridShape]
    exact window_core _ _ _ _ _ _ _ dy dx i j hi hj hle.1 hle.2 hdy hdx
  | img H W C h w =>
    simp only [Kind.offLimit] at hdy hdx
    simp only [applied, upsampled, Kind.nfeat, Kind.gridShape]
    exact window_core _ _ _ _ _ _ _ dy dx i j hi hj hle.1 hle.2 hdy hdx

/-- **Number of masks** — with one crop offset per chunk, exactly `nb_samples` masks are applied
    (one per binary grid), in chunks of at most `b`. -/
theorem rise_nb_masks (k : Kind) (b : Nat) (hb : 0 < b) (grids : List (List Rat)) (offs : List (Nat × Nat))
    (ho : offs.length = (batches b grids).length) :
    (appliedAll k b grids offs).length = grids.length ∧ ∀ c ∈ batches b grids, c.length ≤ b := by
  refine ⟨?_, fun c hc => (batch_len_le b grids c hc).1⟩
  unfold appliedAll
  have h1 : ((((batches b grids).zip offs).map fun co => co.1.map fun g => applied k g co.2).flatten).length
      = ((((batches b grids).zip offs).map fun co => co.1)).flatten.length := by
    simp only [List.length_flatten, List.map_map]
    congr 1
    apply List.map_congr_left; intro co _
    simp
  rw [h1]
  have h2 : ((batches b grids).zip offs).map (fun co => co.1) = batches b grids := by
    have := List.map_fst_zip (l₁ := batches b grids) (l₂ := offs) (by omega)
    simpa using this
  rw [h2, flatten_batches b hb]

/-! ### the deterministic fact behind "(on average) the requested preservation probability" -/

private theorem wsum_affine4 (ws : List Rat) (gs : List (Nat → Nat → Rat)) (a b c d : Rat)
    (r1 c1 r2 c2 r3 c3 r4 c4 : Nat) :
    sumQ (List.zipWith (fun w g => w * (a * g r1 c1 + b * g r2 c2 + c * g r3 c3 + d * g r4 c4)) ws gs)
      = a * sumQ (List.zipWith (fun w g => w * g r1 c1) ws gs)
      + b * sumQ (List.zipWith (fun w g => w * g r2 c2) ws gs)
      + c * sumQ (List.zipWith (fun w g => w * g r3 c3) ws gs)
      + d * sumQ (List.zipWith (fun w g => w * g r4 c4) ws gs) := by
  induction ws generalizing gs with
  | nil => simp
  | cons w ws ih =>
    cases gs with
    | nil => simp
    | cons g gs => simp only [List.zipWith_cons_cons, sumQ_cons, ih]; ring

/-- the bilinear upsample is an affine combination (weights depending on the pixel only, summing
    to one) of four grid cells -/
theorem rise_upsample_affine (H' W' h w : Nat) (i j : Nat) :
    ∃ a b c d : Rat, a + b + c + d = 1 ∧ ∀ g : Nat → Nat → Rat,
      up2 H' W' h w g i j
        = a * g (tapLo H' h i) (tapLo W' w j) + b * g (tapLo H' h i) (tapHi W' w j)
        + c * g (tapHi H' h i) (tapLo W' w j) + d * g (tapHi H' h i) (tapHi W' w j) := by
  refine ⟨(1 - frac H' h i) * (1 - frac W' w j), (1 - frac H' h i) * frac W' w j,
          frac H' h i * (1 - frac W' w j), frac H' h i * frac W' w j, by ring, ?_⟩
  intro g
  unfold up2 lerp
  ring

/-- **mean preservation** — take ANY finite distribution over binary grids (weights `ws`, grids
    `gs`) under which every grid cell is kept with probability `p` (what `uniform < p` gives for
    each cell). Then every pixel of the upsampled mask — hence of every crop window, hence of every
    applied mask — has expectation exactly `p`. This is the deterministic content of "masks have on
    average the requested preservation probability"; that TensorFlow's RNG realises such a
    distribution is not proved. -/
theorem rise_mean_preservation (H' W' h w : Nat) (ws : List Rat) (gs : List (Nat → Nat → Rat)) (p : Rat)
    (hcell : ∀ r c, sumQ (List.zipWith (fun wt g => wt * g r c) ws gs) = p) (i j : Nat) :
    sumQ (List.zipWith (fun wt g => wt * up2 H' W' h w g i j) ws gs) = p := by
  obtain ⟨a, b, c, d, hsum, hup⟩ := rise_upsample_affine H' W' h w i j
  have : (fun (wt : Rat) (g : Nat → Nat → Rat) => wt * up2 H' W' h w g i j)
       = (fun wt g => wt * (a * g (tapLo H' h i) (tapLo W' w j) + b * g (tapLo H' h i) (tapHi W' w j)
          + c * g (tapHi H' h i) (tapLo W' w j) + d * g (tapHi H' h i) (tapHi W' w j))) := by
    funext wt g; rw [hup g]
  rw [this, wsum_affine4, hcell, hcell, hcell, hcell]
  calc a * p + b * p + c * p + d * p = (a + b + c + d) * p := by ring
    _ = p := by rw [hsum, one_mul]

/-- a constant grid is upsampled to the same constant (p = 1 keeps everything, p = 0 nothing) -/
theorem rise_upsample_const (H' W' h w : Nat) (c : Rat) (i j : Nat) :
    up2 H' W' h w (fun _ _ => c) i j = c := by
  unfold up2 lerp; ring

-- non-vacuity: concrete instances
example : (Kind.img 6 10 3 2 3).upSize = (9, 13) := by decide +kernel
-- two equiprobable grids, each cell kept with probability 1/2: the premise of rise_mean_preservation holds
example : ∀ r c : Nat, sumQ (List.zipWith (fun (wt : Rat) (g : Nat → Nat → Rat) => wt * g r c) [1/2, 1/2]
    [fun r c => if (r + c) % 2 = 0 then 1 else 0, fun r c => if (r + c) % 2 = 0 then 0 else 1]) = 1/2 := by
  intro r c; by_cases h : (r + c) % 2 = 0 <;> simp [h, sumQ] <;> norm_num
example : (Kind.ts 7 4 3).upSize = (9, 4) := by decide +kernel
example : up2 4 4 2 2 (fun r c => if r = c then 1 else 0) 1 2 = 3 / 8 := by decide +kernel
example : specPairs 2 (1/10) [([1, 0], 3), ([1/2, 1], -1)] = [some (25/16), some (-10/11)] := by decide +kernel
example : explainPairs 2 (1/10) 1 [([1, 0], 3), ([1/2, 1], -1)] = [some (25/16), some (-10/11)] := by
  decide +kernel

end Xp.Rise
