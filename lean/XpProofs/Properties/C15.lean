/-
  C15 — MuFidelity and AverageStability measure what they document, within their bounds.

  `MuFid.pairsImpl` models `MuFidelity.evaluate` up to the correlation (batch / chunk arithmetic
  GENERATED from the source, subset masks = the observed draws); `pairsOne` / `pairsSpec` are the
  reference; Spearman's ρ is handled as the rank-covariance triple `(cov, var_x, var_y)` of the
  average ranks (ρ = cov / √(var_x·var_y); the square root is never needed for the statements).
  `stabImpl` models `AverageStability.evaluate`.

  Parameters standing for library behaviour: `op` per-sample (`hop`); the masks drawn by
  `_perturb_samples` (`draws`, binary where stated); `scipy.stats.spearmanr` = Pearson correlation
  of average ranks (cross-checked by the harness on every case); the explainer and the distance
  of AverageStability.
-/
import XpModel.MuFidelity
import XpProofs.Lemmas.Batching
import XpProofs.Lemmas.Vec
import XpProofs.Lemmas.MuFidelity

namespace Xp.MuFid
open List

/-! ### batch arithmetic and the perturbation loop (translator lane) -/

/-- the GENERATED `__init__` expressions: `pbs = min(bs, nb)`, `ibs = max(1, bs // pbs)`; one pass of
    the inner loop never holds more than `batch_size` degraded inputs -/
theorem mufid_batch_arith (bsEff nb : Nat) (hb : 0 < bsEff) (hn : 0 < nb) :
    pbsOf bsEff nb = min bsEff nb ∧ ibsOf bsEff nb = max 1 (bsEff / min bsEff nb) ∧
    0 < pbsOf bsEff nb ∧ 0 < ibsOf bsEff nb ∧ ibsOf bsEff nb * pbsOf bsEff nb ≤ bsEff := by
  have h1 : pbsOf bsEff nb = min bsEff nb := by
    unfold pbsOf Gen.mufPbs; omega
  have h2 : ibsOf bsEff nb = max 1 (bsEff / min bsEff nb) := by
    unfold ibsOf Gen.mufIbs Gen.mufPbs
    have hm : (min (bsEff : Int) (nb : Int)) = ((min bsEff nb : Nat) : Int) := by omega
    rw [hm, Int.fdiv_eq_ediv_of_nonneg _ (by positivity)]
    have : ((bsEff : Int) / ((min bsEff nb : Nat) : Int)) = ((bsEff / min bsEff nb : Nat) : Int) := by
      push_cast; rfl
    rw [this]; omega
  refine ⟨h1, h2, by omega, by omega, ?_⟩
  rw [h1, h2]
  have hpos : 0 < min bsEff nb := by omega
  have hge : 1 ≤ bsEff / min bsEff nb := (Nat.one_le_div_iff hpos).mpr (Nat.min_le_left _ _)
  rw [Nat.max_eq_right hge]
  exact Nat.div_mul_le_self _ _

/-- **mufid_nb** — the `while` loop (GENERATED chunk expression) performs, for every batch size,
    chunks of between 1 and `pbs` perturbations whose sizes add up to exactly `nb_samples` -/
theorem mufid_nb (bsEff nb : Nat) (hb : 0 < bsEff) (hn : 0 < nb) :
    chunksOf bsEff nb = chunkSizes (min bsEff nb) nb ∧ (chunksOf bsEff nb).sum = nb ∧
    ∀ c ∈ chunksOf bsEff nb, 0 < c ∧ c ≤ min bsEff nb := by
  have hp : 0 < min bsEff nb := by omega
  have h1 : chunksOf bsEff nb = chunkSizes (min bsEff nb) nb := by
    unfold chunksOf Gen.mufPbs
    have hm : (min (bsEff : Int) (nb : Int)) = ((min bsEff nb : Nat) : Int) := by omega
    rw [hm]
    have := chunkLoop_eq (min bsEff nb) nb hp nb 0 (Nat.zero_le _) (by omega)
    simpa using this
  refine ⟨h1, ?_, ?_⟩
  · rw [h1]; exact chunkSizes_sum _ _ hp
  · rw [h1]; exact chunkSizes_le _ _

/-! ### data flow -/

private theorem zip_map_self {α β : Type} (l : List α) (G : α → β) : l.zip (l.map G) = l.map fun a => (a, G a) := by
  induction l with
  | nil => rfl
  | cons a l ih => simp [ih]

private theorem zipWith_congr_mem {α β γ : Type} (F G : α → β → γ) : ∀ (l1 : List α) (l2 : List β),
    (∀ a ∈ l1, ∀ b ∈ l2, F a b = G a b) → List.zipWith F l1 l2 = List.zipWith G l1 l2
  | [], _, _ => by simp
  | _ :: _, [], _ => by simp
  | a :: l1, b :: l2, h => by
    simp only [List.zipWith_cons_cons]
    rw [h a (List.mem_cons_self ..) b (List.mem_cons_self ..),
      zipWith_congr_mem F G l1 l2 (fun a' ha b' hb => h a' (List.mem_cons_of_mem _ ha) b' (List.mem_cons_of_mem _ hb))]

/-- one pass of the inner loop: the reshape to `(n, nbp)` puts the prediction of sample `i` under
    mask `j` at `[i][j]`, next to the attribution sum of sample `i` over mask `j` -/
theorem chunkStep_spec (g : Geo) (op : List (List Rat × List Rat) → List Rat) (f : List Rat → List Rat → Rat)
    (hop : ∀ b, op b = b.map fun p => f p.1 p.2) (bs : Option Nat) (hbs : ∀ b, bs = some b → 0 < b)
    (batch : List (Sample × Rat)) (masks : List (List Rat)) (hm : masks ≠ []) :
    chunkStep g op bs batch masks
      = batch.map fun sb => masks.map fun m =>
          (sb.2 - f (degrade g.c sb.1.x sb.1.base m) sb.1.y, attrOf g.cp sb.1.phi m) := by
  unfold chunkStep
  simp only
  rw [batched_eq_map op (fun p => f p.1 p.2) hop bs hbs, List.map_flatMap]
  have hlen : 0 < masks.length := List.length_pos_iff.mpr hm
  rw [regroup_flatMap masks.length hlen batch _ (by intro x _; simp)]
  rw [zipWith_map_right_self]
  apply List.map_congr_left
  intro sb _
  obtain ⟨s, bp⟩ := sb
  simp only [List.map_map]
  rw [zipWith_map_left_self]
  rfl

/-- **mufid_dataflow** — for every batch size (also below `nb_samples`, where the perturbations
    of a sample are spread over several chunks) the `(pred, attr)` pairs correlated for a sample are
    exactly those of the masks drawn for its input batch, applied to THAT sample: its own score
    drop against its own attributions summed over the masked-out subset. -/
theorem mufid_dataflow (g : Geo) (op : List (List Rat × List Rat) → List Rat) (f : List Rat → List Rat → Rat)
    (hop : ∀ b, op b = b.map fun p => f p.1 p.2) (bs : Option Nat) (nb : Nat) (ss : List Sample)
    (hE : 0 < effBs bs ss.length nb)
    (draws : List (List (List (List Rat)))) (hd : ∀ chunks ∈ draws, ∀ ms ∈ chunks, ms ≠ []) :
    pairsImpl g op bs nb ss draws = pairsSpec g f (ibsOf (effBs bs ss.length nb) nb) ss draws := by
  unfold pairsImpl pairsSpec
  simp only
  have hbs : ∀ b, some (effBs bs ss.length nb) = some b → 0 < b := by
    intro b h; cases h; exact hE
  rw [batched_eq_map op (fun p => f p.1 p.2) hop _ hbs, List.map_map, zip_map_self, batches_map,
    List.zipWith_map_left]
  congr 1
  apply zipWith_congr_mem
  intro batch _ chunks hc
  have hstep : ∀ (acc : List (List (Rat × Rat))), ∀ ms ∈ chunks,
      List.zipWith (· ++ ·) acc (chunkStep g op (some (effBs bs ss.length nb))
        (batch.map fun s => (s, ((fun p : List Rat × List Rat => f p.1 p.2) ∘ fun s : Sample => (s.x, s.y)) s)) ms)
      = List.zipWith (· ++ ·) acc ((batch.map fun s => (s, f s.x s.y)).map fun sb => ms.map fun m =>
          (sb.2 - f (degrade g.c sb.1.x sb.1.base m) sb.1.y, attrOf g.cp sb.1.phi m)) := by
    intro acc ms hms
    rw [chunkStep_spec g op f hop _ hbs _ ms (hd chunks hc ms hms)]
    rfl
  rw [List.foldl_ext _ _ _ hstep]
  have := foldl_concat_rows (batch.map fun s => (s, f s.x s.y))
    (fun (sb : Sample × Rat) m => (sb.2 - f (degrade g.c sb.1.x sb.1.base m) sb.1.y, attrOf g.cp sb.1.phi m))
    chunks (fun _ => [])
  simp only [List.map_map, Function.comp_def] at this ⊢
  rw [this]
  apply List.map_congr_left
  intro s _
  simp [pairsOne]

/-- when every input batch is given the same masks `ms`, every sample is judged on `ms` -/
theorem pairsSpec_same_masks (g : Geo) (f : List Rat → List Rat → Rat) (ibs : Nat) (hi : 0 < ibs)
    (ss : List Sample) (draws : List (List (List (List Rat)))) (ms : List (List Rat))
    (hlen : draws.length = (batches ibs ss).length) (hsame : ∀ chunks ∈ draws, chunks.flatten = ms) :
    pairsSpec g f ibs ss draws = ss.map fun s => pairsOne g f s ms := by
  unfold pairsSpec
  have : List.zipWith (fun batch (chunks : List (List (List Rat))) => batch.map fun s => pairsOne g f s chunks.flatten)
        (batches ibs ss) draws
      = (batches ibs ss).map (List.map fun s => pairsOne g f s ms) := by
    generalize batches ibs ss = B at hlen
    induction B generalizing draws with
    | nil => simp
    | cons b B ih =>
      cases draws with
      | nil => simp at hlen
      | cons c cs =>
        simp only [List.zipWith_cons_cons, List.map_cons]
        rw [hsame c (List.mem_cons_self ..),
          ih cs (fun ch hch => hsame ch (List.mem_cons_of_mem _ hch)) (by simpa using hlen)]
  rw [this, map_flatten', flatten_batches ibs hi]

/-- **mufid_bs_indep** (exported to C03) — given the same subset masks, the correlated pairs do not
    depend on the batch size: any `batch_size = b` whose draws amount, for every input batch, to the
    masks `ms`, yields what `batch_size = None` yields for the single draw `ms`. -/
theorem mufid_bs_indep (g : Geo) (op : List (List Rat × List Rat) → List Rat) (f : List Rat → List Rat → Rat)
    (hop : ∀ b, op b = b.map fun p => f p.1 p.2) (b nb : Nat) (hb : 0 < b) (hn : 0 < nb)
    (ss : List Sample) (hss : ss ≠ [])
    (draws : List (List (List (List Rat)))) (ms : List (List Rat)) (hms : ms ≠ [])
    (hd : ∀ chunks ∈ draws, ∀ m ∈ chunks, m ≠ [])
    (hlen : draws.length = (batches (ibsOf b nb) ss).length) (hsame : ∀ chunks ∈ draws, chunks.flatten = ms) :
    pairsImpl g op (some b) nb ss draws = pairsImpl g op none nb ss [[ms]] := by
  have hpos : 0 < ss.length := List.length_pos_iff.mpr hss
  have hE : 0 < effBs none ss.length nb := Nat.mul_pos hpos hn
  rw [mufid_dataflow g op f hop (some b) nb ss hb draws hd,
    mufid_dataflow g op f hop none nb ss hE [[ms]] (by
      intro chunks hc m hm
      simp only [List.mem_singleton] at hc; subst hc
      simp only [List.mem_singleton] at hm; subst hm; exact hms)]
  have hi1 := (mufid_batch_arith (effBs (some b) ss.length nb) nb hb hn).2.2.2.1
  have hi2 := (mufid_batch_arith (effBs none ss.length nb) nb hE hn).2.2.2.1
  rw [pairsSpec_same_masks g f _ hi1 ss draws ms hlen hsame]
  have hib : ibsOf (effBs none ss.length nb) nb = ss.length := by
    rw [(mufid_batch_arith (effBs none ss.length nb) nb hE hn).2.1]
    show max 1 (ss.length * nb / min (ss.length * nb) nb) = ss.length
    have : min (ss.length * nb) nb = nb := Nat.min_eq_right (Nat.le_mul_of_pos_left nb hpos)
    rw [this, Nat.mul_div_cancel _ hn]; omega
  have hB : batches ss.length ss = [ss] := by
    unfold batches
    have : ¬ (ss.length = 0 ∨ ss = []) := by
      intro h; rcases h with h | h
      · omega
      · exact hss h
    simp only [this, dite_false, List.take_length, List.drop_length]
    unfold batches; simp
  rw [pairsSpec_same_masks g f _ hi2 ss [[ms]] ms (by rw [hib, hB]; rfl) (by
    intro chunks hc; simp only [List.mem_singleton] at hc; subst hc; simp)]

/-! ### Spearman -/

/-- **spearman_bounds** — Cauchy–Schwarz on the centred average ranks: `cov² ≤ var_x · var_y`,
    hence `ρ = cov / √(var_x var_y) ∈ [-1, 1]` whenever it is defined -/
theorem spearman_bounds (ps : List (Rat × Rat)) :
    (rankTriple ps).1 ^ 2 ≤ (rankTriple ps).2.1 * (rankTriple ps).2.2 := by
  unfold rankTriple covTriple
  simp only
  set rx := avgRanks (ps.map Prod.fst)
  set ry := avgRanks (ps.map Prod.snd)
  have hl : (rx.map fun u => u - meanQ rx).length = (ry.map fun v => v - meanQ ry).length := by
    simp [rx, ry, avgRanks_length]
  have := cauchy_schwarz_lists _ _ hl
  simp only [List.zipWith_map, List.map_map, Function.comp_def] at this
  exact this

/-- the reported squared correlation lies in `[0, 1]` -/
theorem rho_sq_le_one (ps : List (Rat × Rat)) (pos : Bool) (r2 : Rat)
    (h : rhoSq (rankTriple ps) = some (pos, r2)) : 0 ≤ r2 ∧ r2 ≤ 1 := by
  unfold rhoSq at h
  split at h
  · cases h
  · rename_i hne
    simp only [Option.some.injEq, Prod.mk.injEq] at h
    obtain ⟨_, rfl⟩ := h
    have hb := spearman_bounds ps
    have hnn : 0 ≤ (rankTriple ps).2.1 * (rankTriple ps).2.2 := le_trans (sq_nonneg _) hb
    have hpos : 0 < (rankTriple ps).2.1 * (rankTriple ps).2.2 := lt_of_le_of_ne hnn (Ne.symm hne)
    constructor
    · exact div_nonneg (mul_self_nonneg _) hnn
    · rw [div_le_one hpos, ← pow_two]; exact hb

/-- **ranks_monotone** — a strictly monotone transformation of either sequence leaves the average
    ranks, hence the rank-covariance triple and ρ, unchanged -/
theorem ranks_monotone (φ ψ : Rat → Rat) (hφ : StrictMono φ) (hψ : StrictMono ψ) (ps : List (Rat × Rat)) :
    rankTriple (ps.map fun p => (φ p.1, ψ p.2)) = rankTriple ps := by
  unfold rankTriple
  simp only [List.map_map, Function.comp_def]
  have h1 : (ps.map fun p => φ p.1) = (ps.map Prod.fst).map φ := by simp
  have h2 : (ps.map fun p => ψ p.2) = (ps.map Prod.snd).map ψ := by simp
  rw [h1, h2, avgRanks_map φ hφ, avgRanks_map ψ hψ]

/-- MuFidelity is unchanged by a positive rescaling of the explanations -/
theorem mufid_rescale (g : Geo) (f : List Rat → List Rat → Rat) (s : Sample) (masks : List (List Rat))
    (c : Rat) (hc : 0 < c) :
    rankTriple (pairsOne g f { s with phi := s.phi.map fun v => c * v } masks)
      = rankTriple (pairsOne g f s masks) := by
  have : pairsOne g f { s with phi := s.phi.map fun v => c * v } masks
      = (pairsOne g f s masks).map fun p => (id p.1, c * p.2) := by
    unfold pairsOne
    simp only [List.map_map, Function.comp_def, attrOf_scale, id]
  rw [this]
  exact ranks_monotone id (fun v => c * v) strictMono_id (fun a b h => mul_lt_mul_of_pos_left h hc) _

/-- **mufid_additive** — additive score, binary masks, exact attributions: prediction drops and
    attribution sums coincide pointwise, so the triple is `(V, V, V)` and ρ = +1 whenever the
    drops are not all equal (`V ≠ 0`) -/
theorem mufid_additive (D : Nat) (g : Geo) (hg : g.cp = g.c) (F : List Rat → List Rat → Rat) (c0 : Rat)
    (h : Nat → Rat → Rat) (s : Sample) (hadd : ElemAdditive D (fun z => F z s.y) c0 h)
    (hx : s.x.length = D)
    (hphi : s.phi = (List.range D).map fun k => h k (s.x.getD k 0) - h k (s.base.getD k 0))
    (masks : List (List Rat))
    (hbin : ∀ m ∈ masks, ∀ k, k < D → m.getD (k / g.c) 0 = 0 ∨ m.getD (k / g.c) 0 = 1) :
    (∀ p ∈ pairsOne g F s masks, p.1 = p.2) ∧
    (let t := rankTriple (pairsOne g F s masks)
     t = (t.2.1, t.2.1, t.2.1) ∧ (t.2.1 ≠ 0 → rhoSq t = some (true, 1))) := by
  have hpt : ∀ p ∈ pairsOne g F s masks, p.1 = p.2 := by
    intro p hp
    simp only [pairsOne, List.mem_map] at hp
    obtain ⟨m, hm, rfl⟩ := hp
    simp only
    rw [hg, hphi]
    exact additive_pred_eq_attr D g.c (fun z => F z s.y) c0 h hadd s.x s.base m hx (hbin m hm)
  refine ⟨hpt, ?_⟩
  have hfs : (pairsOne g F s masks).map Prod.snd = (pairsOne g F s masks).map Prod.fst := by
    apply List.map_congr_left; intro p hp; exact (hpt p hp).symm
  have ht : rankTriple (pairsOne g F s masks)
      = ((rankTriple (pairsOne g F s masks)).2.1, (rankTriple (pairsOne g F s masks)).2.1,
         (rankTriple (pairsOne g F s masks)).2.1) := by
    unfold rankTriple
    rw [hfs]
    exact covTriple_self _
  refine ⟨ht, ?_⟩
  intro hV
  rw [ht]
  unfold rhoSq
  simp only
  have hVV : (rankTriple (pairsOne g F s masks)).2.1 * (rankTriple (pairsOne g F s masks)).2.1 ≠ 0 :=
    mul_ne_zero hV hV
  rw [if_neg hVV, div_self hVV]
  have hnn : 0 ≤ (rankTriple (pairsOne g F s masks)).2.1 := by
    unfold rankTriple covTriple
    simp only
    exact sumQ_nonneg _ (by
      intro v hv
      simp only [List.mem_map] at hv
      obtain ⟨u, _, rfl⟩ := hv
      exact mul_self_nonneg _)
  simp [hnn]

/-- **mufid_additive (negation)** — with the negated exact attributions the triple is `(-V, V, V)`:
    ρ = −1 whenever the drops are not all equal -/
theorem mufid_additive_neg (ps : List (Rat × Rat)) (hpt : ∀ p ∈ ps, p.1 = p.2) :
    let t := rankTriple ps
    let t' := rankTriple (ps.map fun p => (p.1, -p.2))
    t' = (-t.2.1, t.2.1, t.2.1) ∧ (t.2.1 ≠ 0 → rhoSq t' = some (false, 1)) := by
  have hfs : ps.map Prod.snd = ps.map Prod.fst := by
    apply List.map_congr_left; intro p hp; exact (hpt p hp).symm
  have h1 : (ps.map fun p => (p.1, -p.2)).map Prod.fst = ps.map Prod.fst := by simp
  have h2 : (ps.map fun p => (p.1, -p.2)).map Prod.snd = (ps.map Prod.fst).map fun v => -v := by
    rw [← hfs]; simp
  have ht' : rankTriple (ps.map fun p => (p.1, -p.2))
      = (-(rankTriple ps).2.1, (rankTriple ps).2.1, (rankTriple ps).2.1) := by
    unfold rankTriple
    rw [h1, h2, hfs, avgRanks_neg, covTriple_mirror]
  refine ⟨ht', ?_⟩
  intro hV
  rw [ht']
  unfold rhoSq
  simp only
  have hVV : (rankTriple ps).2.1 * (rankTriple ps).2.1 ≠ 0 := mul_ne_zero hV hV
  have hnn : 0 ≤ (rankTriple ps).2.1 := by
    unfold rankTriple covTriple
    simp only
    exact sumQ_nonneg _ (by
      intro v hv
      simp only [List.mem_map] at hv
      obtain ⟨u, _, rfl⟩ := hv
      exact mul_self_nonneg _)
  have hpos : 0 < (rankTriple ps).2.1 := lt_of_le_of_ne hnn (Ne.symm hV)
  rw [if_neg hVV]
  have : ¬ (0 ≤ -(rankTriple ps).2.1) := by linarith
  simp only [this, decide_false, neg_mul_neg, div_self hVV]

/-- explanations given per pixel (`(H, W)` / `(H, W, 1)`: the channel sum) or per channel
    (`(H, W, C)`) lead to the same pairs, because a mask cell covers all `C` channels of a pixel;
    with `mufid_additive` (stated for per-channel attributions) this covers both layouts -/
theorem mufid_channel_sum (F C : Nat) (hC : 0 < C) (f : List Rat → List Rat → Rat) (s : Sample)
    (hlen : s.phi.length = F * C) (masks : List (List Rat)) :
    pairsOne { c := C, cp := 1 } f { s with phi := cellSum F C s.phi } masks
      = pairsOne { c := C, cp := C } f s masks := by
  unfold pairsOne
  simp only [attrOf_cellSum F C hC s.phi _ hlen]

/-- the negated attributions give the negated attribution sums (link to the model) -/
theorem pairsOne_neg (g : Geo) (f : List Rat → List Rat → Rat) (s : Sample) (masks : List (List Rat)) :
    pairsOne g f { s with phi := s.phi.map fun v => -v } masks
      = (pairsOne g f s masks).map fun p => (p.1, -p.2) := by
  unfold pairsOne
  simp only [List.map_map, Function.comp_def, attrOf_neg]

/-- **mufid_constant** — a score that never varies: every prediction drop is 0, the rank variance
    of the drops vanishes, ρ is undefined (NaN) and the metric reports 0 for the sample -/
theorem mufid_constant (g : Geo) (f : List Rat → List Rat → Rat) (c : Rat) (hf : ∀ z y, f z y = c)
    (s : Sample) (masks : List (List Rat)) :
    (rankTriple (pairsOne g f s masks)).2.1 = 0 ∧ rhoSq (rankTriple (pairsOne g f s masks)) = none := by
  have h0 : ∀ u ∈ (pairsOne g f s masks).map Prod.fst, u = 0 := by
    intro u hu
    simp only [pairsOne, List.map_map, List.mem_map, Function.comp] at hu
    obtain ⟨m, _, rfl⟩ := hu
    rw [hf, hf]; ring
  have hr := avgRanks_const _ 0 h0
  have hv : (rankTriple (pairsOne g f s masks)).2.1 = 0 := by
    unfold rankTriple
    apply covTriple_const_left _ _ ((((pairsOne g f s masks).map Prod.fst).length + 1 : Rat) / 2)
    intro u hu
    rw [hr] at hu
    simp only [List.mem_map] at hu
    obtain ⟨_, _, rfl⟩ := hu
    rfl
  refine ⟨hv, ?_⟩
  unfold rhoSq
  rw [hv]; simp

/-! ### AverageStability -/

/-- **stability_nonneg** — with a non-negative distance the score is non-negative -/
theorem stability_nonneg (expl : List (List Rat) → List (List Rat) → List (List Rat))
    (dist : List Rat → List Rat → Rat) (hd : ∀ a b, 0 ≤ dist a b) (noise : List (List Rat))
    (ss : List (List Rat × List Rat × List Rat)) : 0 ≤ stabImpl expl dist noise ss := by
  unfold stabImpl
  apply meanQ_nonneg
  intro v hv
  simp only [List.mem_map] at hv
  obtain ⟨⟨x, y, phi⟩, _, rfl⟩ := hv
  apply meanQ_nonneg
  intro w hw
  simp only [List.mem_map] at hw
  obtain ⟨pn, _, rfl⟩ := hw
  exact hd _ _

/-- **stability_const** — an explainer that ignores its input (always `e0`) scores exactly 0 for
    any distance with `dist e0 e0 = 0` -/
theorem stability_const (expl : List (List Rat) → List (List Rat) → List (List Rat))
    (dist : List Rat → List Rat → Rat) (e0 : List Rat) (hd : dist e0 e0 = 0)
    (hexpl : ∀ nbrs labs, expl nbrs labs = nbrs.map fun _ => e0) (noise : List (List Rat))
    (ss : List (List Rat × List Rat × List Rat)) (hphi : ∀ s ∈ ss, s.2.2 = e0) :
    stabImpl expl dist noise ss = 0 := by
  unfold stabImpl
  have : (ss.map fun (s : List Rat × List Rat × List Rat) =>
      meanQ ((expl (neighbors s.1 noise) (List.replicate noise.length s.2.1)).map fun pn => dist pn s.2.2))
      = ss.map fun _ => (0 : Rat) := by
    apply List.map_congr_left
    intro s hs
    rw [hexpl, hphi s hs, List.map_map]
    have : ((fun pn => dist pn e0) ∘ fun _ : List Rat => e0) = fun _ => (0 : Rat) := by
      funext _; simp [hd]
    rw [this]
    unfold meanQ
    rw [sumQ_map_const]; simp
  show meanQ (ss.map fun (s : List Rat × List Rat × List Rat) =>
      meanQ ((expl (neighbors s.1 noise) (List.replicate noise.length s.2.1)).map fun pn => dist pn s.2.2)) = 0
  rw [this]
  unfold meanQ
  rw [sumQ_map_const]; simp

/-- **stability_nb** — each sample gets exactly `nb_samples` neighbours (one per fixed noise mask,
    the batch size plays no role in `evaluate`), neighbour `k` being `x + noise_k` elementwise, hence
    within `[0, radius)` of `x` whenever the noise is -/
theorem stability_nb (x : List Rat) (noise : List (List Rat)) (r : Rat)
    (hlen : ∀ m ∈ noise, m.length = x.length) (hr : ∀ m ∈ noise, ∀ v ∈ m, 0 ≤ v ∧ v < r) :
    (neighbors x noise).length = noise.length ∧
    ∀ k, k < noise.length → ∀ i, i < x.length →
      ((neighbors x noise).getD k []).getD i 0 = x.getD i 0 + (noise.getD k []).getD i 0 ∧
      0 ≤ ((neighbors x noise).getD k []).getD i 0 - x.getD i 0 ∧
      ((neighbors x noise).getD k []).getD i 0 - x.getD i 0 < r := by
  refine ⟨by simp [neighbors], ?_⟩
  intro k hk i hi
  have hmem : noise[k] ∈ noise := List.getElem_mem hk
  have hl := hlen _ hmem
  have h1 : (neighbors x noise).getD k [] = vadd x noise[k] := by
    simp [neighbors, List.getD_eq_getElem?_getD, hk]
  have h2 : noise.getD k [] = noise[k] := by simp [List.getD_eq_getElem?_getD, hk]
  rw [h1, h2, vadd_getD x noise[k] hl.symm i]
  have hi' : i < noise[k].length := hl ▸ hi
  have hv : (noise[k]).getD i 0 = noise[k][i] := by simp [List.getD_eq_getElem?_getD, hi']
  have := hr _ hmem noise[k][i] (List.getElem_mem hi')
  rw [hv]
  refine ⟨rfl, by linarith [this.1], by linarith [this.2]⟩

/-! ### non-vacuity -/

example : chunksOf 5 12 = [5, 5, 2] ∧ ibsOf 5 12 = 1 ∧ ibsOf 64 12 = 5 ∧ pbsOf 64 12 = 12 := by decide +kernel
example : avgRanks [3, 1, 3, 2] = [7 / 2, 1, 7 / 2, 2] := by decide +kernel
example : rankTriple [(1, 2), (2, 1), (3, 5), (4, 4)] = (3, 5, 5) := by decide +kernel
example : rhoSq (rankTriple [(1, 1), (2, 2), (5, 5)]) = some (true, 1) := by decide +kernel
example : rhoSq (rankTriple [(0, 1), (0, 2)]) = none := by decide +kernel
example : StrictMono (fun v : Rat => 3 * v) := fun a b h => by simp only; linarith
example : ∀ a b : List Rat, 0 ≤ l1 a b := fun a b => sumQ_nonneg _ (by
  intro v hv; simp only [List.mem_map] at hv; obtain ⟨d, _, rfl⟩ := hv
  unfold ratAbs; split <;> linarith)
example : l1 [1, 2] [1, 2] = 0 ∧ l2sq [1, 2] [1, 2] = 0 ∧ linf [1, 2] [1, 2] = 0 := by decide +kernel
/-- a linear score is additive over flat positions -/
example : ElemAdditive 2 (fun z => 5 + 2 * z.getD 0 0 - 3 * z.getD 1 0) 5
    (fun k v => if k = 0 then 2 * v else -3 * v) := by
  intro z _
  simp [List.range, List.range.loop]; ring

end Xp.MuFid
