/-
  C16 — similar-example search returns exactly the k nearest cases.

  `TopK.knnOne` / `TopK.knnImpl` are the executable model of `KNN.kneighbors` /
  `SimilarExamples.explain` (batched running top-k; batch-size clamp, cardinality and flat index
  GENERATED from the source); `TopK.knnSpec` is the brute-force reference.
  All theorems hold for every dataset size, every batch size, every k, every distance key function
  and EVERY sort that returns a sorted permutation (the order of ties is not specified, so nothing
  is assumed about `tf.argsort` beyond sortedness).
-/
import XpModel.TopK
import XpProofs.Lemmas.TopK
import XpProofs.Lemmas.KnnIndex

namespace Xp.TopK
variable {γ : Type}

/-- the table column of case `c` at `(bi, p)` in `KNN.kneighbors` -/
def mkKnn (key : γ → Dist) : γ → Nat → Nat → Entry Idx := fun c bi p => ⟨key c, some (bi, p)⟩

/-- everything the loop sees: the `k` initial fills and one column per case -/
def knnSeen (k : Nat) (key : γ → Dist) (bsz : Nat) (cases : List γ) : List (Entry Idx) :=
  fills k ++ allE (mkKnn key) bsz cases

private theorem fills_sorted (k : Nat) : (fills k).Pairwise (fun a b => entryLe a b = true) := by
  unfold fills; rw [List.pairwise_replicate]; right; rfl

/-- **Selection invariant** — for any sort and any batch size the result of the loop is a sorted
    selection of the `k` smallest columns among the fills and all cases: nothing left out is
    smaller than anything returned. -/
theorem knn_topk {sort : List (Entry Idx) → List (Entry Idx)} (hsort : IsSort entryLe sort)
    (k bsz : Nat) (key : γ → Dist) (cases : List γ) :
    IsTopK entryLe k (knnSeen k key bsz cases) (knnOne sort k bsz key cases) := by
  unfold knnOne knnSeen allE
  exact run_isTopK entryLe_totalPre hsort _ (isTopK_init (fills_sorted k) (by simp [fills]))

/-- **Distances = the k smallest, sorted, padded with +inf** — for every batch size `bsz ≥ 1`
    (remainder batch, one batch, `k` larger than a batch) and every sort. -/
theorem knn_keys {sort : List (Entry Idx) → List (Entry Idx)} (hsort : IsSort entryLe sort)
    (k bsz : Nat) (hb : 0 < bsz) (key : γ → Dist) (cases : List γ) :
    (knnOne sort k bsz key cases).map (·.key) = smallestKeys k (cases.map key) := by
  have h := (knn_topk hsort k bsz key cases).keys_eq (fun e => e.key) dle dle_totalPre dle_antisymm
    (fun _ _ => rfl)
  rw [h]; unfold smallestKeys knnSeen
  congr 1
  apply mergeSort_congr_perm
  rw [List.map_append, map_allE (mkKnn key) (fun e => e.key) key (fun _ _ _ => rfl) bsz hb]
  have : (fills k).map (fun e => e.key) = List.replicate k none := by simp [fills]
  rw [this]
  exact List.perm_append_comm

/-- the effective batch size is positive on a non-empty dataset -/
theorem effBs_pos (bs : Option Nat) (hbs : ∀ b, bs = some b → 0 < b) (n : Nat) (hn : 0 < n) :
    0 < effBs bs n := by
  cases bs with
  | none => exact hn
  | some b =>
    have := hbs b rfl
    simp only [effBs, Gen.hzBatch]
    omega

/-- **C16 refinement** — the distances returned by the batched implementation model equal the
    brute-force reference, for every projection, distance, `k`, batch size (`None` or `≥ 1`),
    non-empty dataset, list of queries and every sort. The same `project` is applied to the query
    and to the cases (`projKey`). -/
theorem knn_impl_eq_spec {sort : List (Entry Idx) → List (Entry Idx)} (hsort : IsSort entryLe sort)
    (P : Proj) (dk : DistKind) (k : Nat) (bs : Option Nat) (hbs : ∀ b, bs = some b → 0 < b)
    (cases queries : List Sample) (hne : cases ≠ []) :
    (knnImpl sort P dk k bs cases queries).map (fun r => r.map (·.key)) = knnSpec P dk k cases queries := by
  unfold knnImpl knnSpec
  rw [List.map_map]
  apply List.map_congr_left
  intro q _
  exact knn_keys hsort k _ (effBs_pos bs hbs _ (List.length_pos_iff.mpr hne)) _ cases

/-- **Batch-size independence** — the returned distances do not depend on the batch size -/
theorem knn_bs_indep {sort : List (Entry Idx) → List (Entry Idx)} (hsort : IsSort entryLe sort)
    (P : Proj) (dk : DistKind) (k b : Nat) (hb : 0 < b) (cases queries : List Sample) (hne : cases ≠ []) :
    (knnImpl sort P dk k (some b) cases queries).map (fun r => r.map (·.key))
      = (knnImpl sort P dk k none cases queries).map (fun r => r.map (·.key)) := by
  rw [knn_impl_eq_spec hsort P dk k (some b) (by intro b' h; cases h; exact hb) cases queries hne,
      knn_impl_eq_spec hsort P dk k none (by intro b' h; cases h) cases queries hne]

/-- **Per-sample** — every query is searched independently of the other queries of the call -/
theorem knn_per_sample (sort : List (Entry Idx) → List (Entry Idx)) (P : Proj) (dk : DistKind) (k : Nat)
    (bs : Option Nat) (cases queries : List Sample) :
    knnImpl sort P dk k bs cases queries
      = queries.flatMap (fun q => knnImpl sort P dk k bs cases [q]) := by
  unfold knnImpl
  induction queries with
  | nil => rfl
  | cons q qs ih => simp only [List.map_cons, List.flatMap_cons, List.map_nil, List.singleton_append, ih]

/-- the returned distances are increasing -/
theorem knn_sorted {sort : List (Entry Idx) → List (Entry Idx)} (hsort : IsSort entryLe sort)
    (k bsz : Nat) (key : γ → Dist) (cases : List γ) :
    (knnOne sort k bsz key cases).Pairwise (fun a b => dle a.key b.key = true) :=
  (knn_topk hsort k bsz key cases).sorted

/-- exactly `k` columns are returned -/
theorem knn_length {sort : List (Entry Idx) → List (Entry Idx)} (hsort : IsSort entryLe sort)
    (k bsz : Nat) (key : γ → Dist) (cases : List γ) : (knnOne sort k bsz key cases).length = k := by
  have := (knn_topk hsort k bsz key cases).length_eq
  simp only [knnSeen, List.length_append, fills, List.length_replicate] at this
  omega

/-- **Returned pairs are consistent** — a returned column is either an initial fill
    (`(-1,-1)`, `+inf`) or carries the index `(bi, p)` of a case that `dataset_gather` finds at that
    index, together with the true distance of that case. -/
theorem knn_pairs_valid {sort : List (Entry Idx) → List (Entry Idx)} (hsort : IsSort entryLe sort)
    (k bsz : Nat) (key : γ → Dist) (cases : List γ) :
    ∀ e ∈ knnOne sort k bsz key cases,
      (e.val = none ∧ e.key = none) ∨
      ∃ bi p c, e.val = some (bi, p) ∧ gather (batches bsz cases) (some (bi, p)) = some c ∧ e.key = key c := by
  intro e he
  have hm := (knn_topk hsort k bsz key cases).mem he
  rcases List.mem_append.mp hm with h | h
  · left
    have := List.eq_of_mem_replicate h
    subst this; exact ⟨rfl, rfl⟩
  · right
    obtain ⟨bi, p, c, hg, rfl⟩ := (mem_allE _ _ _ _).mp h
    exact ⟨bi, p, c, rfl, hg, rfl⟩

/-- **Nearest** — a case whose index is not returned is at least as far as every returned column -/
theorem knn_nearest {sort : List (Entry Idx) → List (Entry Idx)} (hsort : IsSort entryLe sort)
    (k bsz : Nat) (key : γ → Dist) (cases : List γ) (bi p : Nat) (c : γ)
    (hg : gather (batches bsz cases) (some (bi, p)) = some c)
    (hnot : ∀ e ∈ knnOne sort k bsz key cases, e.val ≠ some (bi, p)) :
    ∀ r ∈ knnOne sort k bsz key cases, dle r.key (key c) = true := by
  have hx : mkKnn key c bi p ∈ knnSeen k key bsz cases :=
    List.mem_append_right _ ((mem_allE _ _ _ _).mpr ⟨bi, p, c, hg, rfl⟩)
  exact (knn_topk hsort k bsz key cases).nearest hx (fun hin => hnot _ hin rfl)

private theorem filterMap_val_allE (key : γ → Dist) (bsz : Nat) (cases : List γ) :
    (allE (mkKnn key) bsz cases).filterMap (·.val)
      = (allE (mkKnn key) bsz cases).map (fun e => e.val.getD (0, 0)) := by
  rw [← List.filterMap_eq_map]
  apply List.filterMap_congr
  intro e he
  obtain ⟨bi, p, c, _, rfl⟩ := (mem_allE _ _ _ _).mp he
  rfl

/-- **No case is returned twice** — the returned `(batch, position)` indices are pairwise distinct -/
theorem knn_distinct {sort : List (Entry Idx) → List (Entry Idx)} (hsort : IsSort entryLe sort)
    (k bsz : Nat) (key : γ → Dist) (cases : List γ) :
    ((knnOne sort k bsz key cases).filterMap (·.val)).Nodup := by
  apply (knn_topk hsort k bsz key cases).nodup_filterMap
  unfold knnSeen
  rw [List.filterMap_append]
  have : (fills k).filterMap (·.val) = [] := by
    apply List.filterMap_eq_nil_iff.mpr
    intro e he
    have := List.eq_of_mem_replicate he
    subst this; rfl
  rw [this, List.nil_append, filterMap_val_allE]
  exact allE_idx_nodup (mkKnn key) (fun e => e.val.getD (0, 0)) (fun _ _ _ => rfl) bsz cases

/-- **Number of finite slots** — exactly `min k (number of cases at finite distance)` of the `k`
    returned columns have a finite distance; the others are `+inf` -/
theorem knn_finite_count {sort : List (Entry Idx) → List (Entry Idx)} (hsort : IsSort entryLe sort)
    (k bsz : Nat) (hb : 0 < bsz) (key : γ → Dist) (cases : List γ) :
    List.countP (fun e => e.key.isSome) (knnOne sort k bsz key cases)
      = min k (List.countP (fun c => (key c).isSome) cases) := by
  have h := (knn_topk hsort k bsz key cases).countP_eq (fun e => e.key.isSome) (by
    intro a b hab hb'
    cases ha : a.key with
    | none =>
      have : dle none b.key = true := by rw [← ha]; exact hab
      rw [dle_top_left this] at hb'; cases hb'
    | some x => rfl)
  rw [h]; congr 1
  unfold knnSeen
  rw [List.countP_append]
  have h1 : List.countP (fun e : Entry Idx => e.key.isSome) (fills k) = 0 := by
    rw [List.countP_eq_zero]
    intro e he
    have := List.eq_of_mem_replicate he
    subst this; simp
  have h2 : List.countP (fun e : Entry Idx => e.key.isSome) (allE (mkKnn key) bsz cases)
      = List.countP (fun c => (key c).isSome) cases := by
    have hm := map_allE (mkKnn key) (fun e => e.key) key (fun _ _ _ => rfl) bsz hb cases
    have e1 : List.countP (fun e : Entry Idx => e.key.isSome) (allE (mkKnn key) bsz cases)
        = List.countP (fun d : Dist => d.isSome) ((allE (mkKnn key) bsz cases).map (fun e => e.key)) := by
      rw [List.countP_map]; rfl
    rw [e1, hm, List.countP_map]; rfl
  omega

/-- **Number of filled slots** — with finite distances, `min k N` slots are filled -/
theorem knn_filled_count {sort : List (Entry Idx) → List (Entry Idx)} (hsort : IsSort entryLe sort)
    (k bsz : Nat) (hb : 0 < bsz) (key : γ → Dist) (hfin : ∀ c, (key c).isSome = true) (cases : List γ) :
    List.countP (fun e => e.key.isSome) (knnOne sort k bsz key cases) = min k cases.length := by
  rw [knn_finite_count hsort k bsz hb key cases]
  congr 1
  rw [List.countP_eq_length]
  intro c _; exact hfin c

/-- **k ≤ N: every slot holds a real case** (no `(-1,-1)` index, no `+inf`) -/
theorem knn_all_real {sort : List (Entry Idx) → List (Entry Idx)} (hsort : IsSort entryLe sort)
    (k bsz : Nat) (hb : 0 < bsz) (key : γ → Dist) (hfin : ∀ c, (key c).isSome = true) (cases : List γ)
    (hk : k ≤ cases.length) :
    ∀ e ∈ knnOne sort k bsz key cases, ∃ bi p, e.val = some (bi, p) := by
  have hc := knn_filled_count hsort k bsz hb key hfin cases
  have hl := knn_length hsort k bsz key cases
  have hall : ∀ e ∈ knnOne sort k bsz key cases, e.key.isSome = true := by
    apply List.countP_eq_length.mp; omega
  intro e he
  rcases knn_pairs_valid hsort k bsz key cases e he with ⟨_, hk'⟩ | ⟨bi, p, _, hv, _, _⟩
  · have := hall e he; rw [hk'] at this; cases this
  · exact ⟨bi, p, hv⟩

-- ---------------------------------------------------------------------------------------------
-- generated index arithmetic: batch-size clamp, cardinality, flat index
-- ---------------------------------------------------------------------------------------------
/-- `min(batch_size, N)` (GENERATED from harmonize.py): the effective batch size -/
theorem hz_batch_spec (b n : Nat) : effBs (some b) n = min b n := by
  simp only [effBs, Gen.hzBatch]; omega

/-- the torch-tensor branch of harmonize.py computes the same clamp and cardinality -/
theorem hz_torch_same (b n : Int) :
    Gen.hzBatchTorch b n = Gen.hzBatch b n ∧ Gen.hzCardTorch n b = Gen.hzCard n b := ⟨rfl, rfl⟩

/-- the torch `DataLoader` branch (GENERATED): the loader's nominal batch size clamped to the size of the first batch
    it yields - which is `min(batch_size, N)` - is again the effective batch size `min(batch_size, N)`, so a loader with
    more room than cases is accepted like every other container -/
theorem hz_loader_spec (b n : Int) : Gen.hzBatchLoader b (min b n) = Gen.hzBatch b n := by
  simp only [Gen.hzBatchLoader, Gen.hzBatch]; omega

private theorem lt_ceil_iff (a s i : Int) (hs : 0 < s) : i < -(Int.fdiv (-a) s) ↔ i * s < a := by
  rw [Int.fdiv_eq_ediv_of_nonneg _ (le_of_lt hs)]
  have h1 : i < -((-a) / s) ↔ (-a) / s < -i := by constructor <;> intro h <;> linarith
  rw [h1, Int.ediv_lt_iff_lt_mul hs, neg_mul]
  constructor <;> intro h <;> linarith

/-- `ceil(N / batch_size)` (GENERATED from harmonize.py) is the number of batches of
    `dataset.batch(batch_size)`: the cardinality assertion of `sanitize_dataset` always holds for
    tensors -/
theorem hz_card_spec (bsz : Nat) (hb : 0 < bsz) (xs : List γ) :
    card xs.length bsz = (batches bsz xs).length := by
  have key : ∀ i : Nat, i < card xs.length bsz ↔ i < (batches bsz xs).length := by
    intro i
    rw [lt_length_batches bsz hb, card, Int.lt_toNat]
    unfold Gen.hzCard
    rw [lt_ceil_iff _ _ _ (by exact_mod_cast hb)]
    constructor <;> intro h
    · exact_mod_cast h
    · exact_mod_cast h
  rcases Nat.lt_trichotomy (card xs.length bsz) (batches bsz xs).length with h | h | h
  · exact absurd ((key _).mpr h) (lt_irrefl _)
  · exact h
  · exact absurd ((key _).mp h) (lt_irrefl _)

/-- **gather = flat row** — `dataset_gather` at `(bi, p)` returns the row of the unbatched data at
    the GENERATED flat index `bi * batch_size + p` (for positions inside the batch width) -/
theorem gather_flat_spec (b : Nat) (hb : 0 < b) (xs : List γ) (bi p : Nat) (hp : p < b) :
    gather (batches b xs) (some (bi, p)) = xs[(Gen.flatIndex bi b p).toNat]? := by
  rw [gather_batches b hb xs bi p hp]
  unfold Gen.flatIndex
  have : ((bi : Int) * (b : Int) + (p : Int)).toNat = bi * b + p := by
    have : ((bi : Int) * (b : Int) + (p : Int)) = ((bi * b + p : Nat) : Int) := by push_cast; rfl
    rw [this, Int.toNat_natCast]
  rw [this]

/-- every row `i` is reached from exactly the index `(i / b, i % b)` -/
theorem flat_index_inv (b i : Nat) :
    Gen.flatIndex ((i / b : Nat) : Int) (b : Int) ((i % b : Nat) : Int) = (i : Int) := by
  unfold Gen.flatIndex
  have : i / b * b + i % b = i := by rw [Nat.mul_comm]; exact Nat.div_add_mod i b
  exact_mod_cast this

/-- the flat index is injective on positions inside the batch width -/
theorem flat_index_inj (b bi p bi' p' : Nat) (hp : p < b) (hp' : p' < b)
    (h : Gen.flatIndex bi b p = Gen.flatIndex bi' b p') : bi = bi' ∧ p = p' := by
  unfold Gen.flatIndex at h
  have h' : bi * b + p = bi' * b + p' := by exact_mod_cast h
  have hb : 0 < b := by omega
  have d1 : (bi * b + p) / b = bi := by
    rw [Nat.mul_comm, Nat.mul_add_div hb, Nat.div_eq_of_lt hp, Nat.add_zero]
  have d2 : (bi' * b + p') / b = bi' := by
    rw [Nat.mul_comm, Nat.mul_add_div hb, Nat.div_eq_of_lt hp', Nat.add_zero]
  have e1 : bi = bi' := by rw [← d1, ← d2, h']
  subst e1
  exact ⟨rfl, by omega⟩

-- ---------------------------------------------------------------------------------------------
-- non-vacuity
-- ---------------------------------------------------------------------------------------------
-- the model's stable sort satisfies the sort hypothesis of every theorem above
example : IsSort (entryLe (β := Idx)) sortE := sortE_isSort

-- a concrete run: 5 one-dimensional cases with ties, k = 3, batches of 2 (remainder batch)
example : (knnOne sortE 3 2 (fun c : Rat => some (ratAbs (c - 1))) [3, 1, 0, 2, 1]).map
    (fun e => (e.key, e.val)) = [(some 0, some (0, 1)), (some 0, some (2, 0)), (some 1, some (1, 0))] := by
  decide +kernel

-- fewer cases than k: padded with +inf and the (-1,-1) index
example : (knnOne sortE 3 4 (fun c : Rat => some (ratAbs c)) [2, -1]).map (fun e => (e.key, e.val))
    = [(some 1, some (0, 1)), (some 2, some (0, 0)), (none, none)] := by
  decide +kernel

example : effBs (some 7) 5 = 5 ∧ card 5 2 = 3 ∧ flatOf 2 (some (2, 0)) = some 4 := by decide +kernel

/-! ### translation invariance of the search keys -/

private theorem diffAbs_translation (a b : List Rat) (c : Rat) :
    diffAbs (a.map (· + c)) (b.map (· + c)) = diffAbs a b := by
  unfold diffAbs
  induction a generalizing b with
  | nil => simp
  | cons u a ih =>
    cases b with
    | nil => simp
    | cons v b =>
      simp only [List.map_cons, List.zipWith_cons_cons]
      rw [ih b]
      congr 2
      ring

/-- every predefined distance except the cosine one is translation invariant: a common offset of the (projected) query and case
    changes no search key, hence neither the k nearest cases nor their order (the common-offset family of the correspondence
    check; a crossed-distance routine that expands `‖x‖² − 2⟨x,z⟩ + ‖z‖²` in float32 does not have this property) -/
theorem knn_key_translation (dk : DistKind) (a b : List Rat) (c : Rat) (hcos : dk ≠ .cos) :
    distKey dk (a.map (· + c)) (b.map (· + c)) = distKey dk a b := by
  cases dk with
  | cos => exact absurd rfl hcos
  | l1 => simp only [distKey, diffAbs_translation]
  | linf => simp only [distKey, diffAbs_translation]
  | lp p => simp only [distKey, diffAbs_translation]
  | wl1 w => simp only [distKey, diffAbs_translation]


end Xp.TopK
