/-
  C07 — Lime fits its interpretable model on exactly the (sample, score of the masked input) pairs it
  evaluated, weighted by κ(D²/width²); KernelShap draws coalitions of size 1..F−1 with
  P(k) ∝ (F−1)/(k(F−k)) and is exact on additive scores.

  `Lime.fitData` / `Lime.explainOne` are the executable model of `Lime.explain` (chunk loop, gather,
  `x·m + (1−m)·ref`, kernel, concat, fit, broadcast); `Lime.specTriples` / `Lime.maskedSpec` are the
  reference definition.  `LinReg.wlsFit` is the exact solver used by the driver.  Parameters
  (assumptions about TF / sklearn): the score is per-sample (`score zs = zs.map f`), `κ` stands for
  `exp(−·)`, the interpretable model `fit` is an arbitrary function (its result enters only through
  the minimiser hypotheses), the draws are inputs.
-/
import XpModel.Lime
import XpProofs.Lemmas.SqDist
import XpModel.LinReg
import XpProofs.Lemmas.Batching
import XpProofs.Lemmas.Vec
import XpProofs.Lemmas.Lime
import XpProofs.Lemmas.LinReg
import XpProofs.Lemmas.KernelShap

open Finset BigOperators
namespace Xp.Lime

/-- **num_features** (about the GENERATED `max + 1`): every segment id of the mapping is a valid
    column of the samples, and the largest id is the last column. -/
theorem lime_num_features_spec (mapping : List Nat) :
    numFeatures mapping = mapping.foldl max 0 + 1 ∧ ∀ j ∈ mapping, j < numFeatures mapping := by
  have h1 : numFeatures mapping = mapping.foldl max 0 + 1 := by
    unfold numFeatures Gen.limeNumFeatures
    simp only [Int.ofNat_eq_natCast]
    omega
  refine ⟨h1, ?_⟩
  rw [h1]
  have hle : ∀ (l : List Nat) (a j : Nat), (j ≤ a ∨ j ∈ l) → j ≤ l.foldl max a := by
    intro l
    induction l with
    | nil => intro a j h; rcases h with h | h; exact h; simp at h
    | cons b l ih =>
      intro a j h
      simp only [List.foldl_cons]
      apply ih
      rcases h with h | h
      · left; exact le_trans h (le_max_left a b)
      · rcases List.mem_cons.mp h with rfl | h
        · left; exact le_max_right a j
        · right; exact h
  intro j hj
  exact Nat.lt_succ_of_le (hle mapping 0 j (Or.inr hj))

/-- **Data flow (C07 main theorem, Lime part)** — for every chunk size (`batch_size = none` or any
    `b ≥ 1`), every per-sample score, kernel shape `κ(D²/width²)` and distance `d2`, every
    well-shaped input and all drawn BINARY samples: what is handed to `fit` is exactly, in order,
    the drawn sample, the score of the input masked by it and the kernel weight of that masked
    input; the model was queried on exactly these masked inputs. Nothing is dropped, duplicated or
    mis-paired across chunks. -/
theorem lime_dataflow (cfg : Cfg) (f : List Rat → Rat) (score : List (List Rat) → List Rat)
    (hscore : ∀ zs, score zs = zs.map f) (κ : Rat → Rat) (width : Rat)
    (d2 : List Rat → List Rat → Rat) (bs : Option Nat) (hbs : ∀ b, bs = some b → 0 < b)
    (nb : Nat) (hnb : 0 < nb) (x : List Rat) (hshape : x.length = cfg.mapping.length * cfg.c)
    (samples : List (List Rat)) (hbin : ∀ s ∈ samples, Binary s) :
    let d := fitData cfg score (expKernel κ width d2) (effBatch bs nb) x samples
    d.design = samples
      ∧ d.targets = samples.map (fun s => f (maskedSpec cfg x s))
      ∧ d.weights = samples.map (fun s => weightOf κ width (d2 x (maskedSpec cfg x s)))
      ∧ d.queries.flatten = samples.map (maskedSpec cfg x)
      ∧ List.zip d.design (List.zip d.targets d.weights) = specTriples cfg f κ width d2 x samples := by
  intro d
  have hb : 0 < effBatch bs nb := by
    cases bs with
    | none => exact hnb
    | some b => exact hbs b rfl
  obtain ⟨h1, h2, h3, h4⟩ := fitData_eq_map cfg f score hscore κ width d2 _ hb x samples
  have hg : ∀ s ∈ samples, applyMask cfg x (getMask cfg.mapping s) = maskedSpec cfg x s :=
    fun s hs => applyMask_eq_spec cfg x s hshape (hbin s hs)
  have e2 : d.targets = samples.map (fun s => f (maskedSpec cfg x s)) := by
    rw [h2]; apply List.map_congr_left; intro s hs; simp only [hg s hs]
  have e3 : d.weights = samples.map (fun s => weightOf κ width (d2 x (maskedSpec cfg x s))) := by
    rw [h3]; apply List.map_congr_left; intro s hs; simp only [hg s hs]
  have e4 : d.queries.flatten = samples.map (maskedSpec cfg x) := by
    rw [h4]; apply List.map_congr_left; intro s hs; simp only [hg s hs]
  refine ⟨h1, e2, e3, e4, ?_⟩
  rw [h1, e2, e3]
  unfold specTriples
  generalize samples = l
  induction l with
  | nil => rfl
  | cons a l ih => simp only [List.map_cons, List.zip_cons_cons, ih]

/-- **Batch-size independence** (exported for C03): with the same drawn samples the explanation is
    the same for `batch_size = b ≥ 1` and `batch_size = None`, whatever the interpretable model. -/
theorem lime_bs_indep (cfg : Cfg) (f : List Rat → Rat) (score : List (List Rat) → List Rat)
    (hscore : ∀ zs, score zs = zs.map f) (κ : Rat → Rat) (width : Rat)
    (d2 : List Rat → List Rat → Rat) (fit : List (List Rat) → List Rat → List Rat → List Rat)
    (b : Nat) (hb : 0 < b) (nb : Nat) (hnb : 0 < nb) (x : List Rat) (samples : List (List Rat)) :
    explainOne cfg score (expKernel κ width d2) fit (some b) nb x samples
      = explainOne cfg score (expKernel κ width d2) fit none nb x samples := by
  unfold explainOne
  obtain ⟨a1, a2, a3, _⟩ := fitData_eq_map cfg f score hscore κ width d2 b hb x samples
  obtain ⟨c1, c2, c3, _⟩ := fitData_eq_map cfg f score hscore κ width d2 nb hnb x samples
  simp only [effBatch]
  rw [a1, a2, a3, c1, c2, c3]

/-- **Explanation = fit on the reference triples, broadcast to the segments** (every batch size) -/
theorem lime_explain_eq_spec (cfg : Cfg) (f : List Rat → Rat) (score : List (List Rat) → List Rat)
    (hscore : ∀ zs, score zs = zs.map f) (κ : Rat → Rat) (width : Rat)
    (d2 : List Rat → List Rat → Rat) (fit : List (List Rat) → List Rat → List Rat → List Rat)
    (bs : Option Nat) (hbs : ∀ b, bs = some b → 0 < b) (nb : Nat) (hnb : 0 < nb) (x : List Rat)
    (hshape : x.length = cfg.mapping.length * cfg.c) (samples : List (List Rat))
    (hbin : ∀ s ∈ samples, Binary s) :
    explainOne cfg score (expKernel κ width d2) fit bs nb x samples
      = cfg.mapping.map fun j =>
          (fit samples (samples.map fun s => f (maskedSpec cfg x s))
            (samples.map fun s => weightOf κ width (d2 x (maskedSpec cfg x s)))).getD j 0 := by
  obtain ⟨h1, h2, h3, _, _⟩ :=
    lime_dataflow cfg f score hscore κ width d2 bs hbs nb hnb x hshape samples hbin
  unfold explainOne broadcast
  simp only [h1, h2, h3]

/-- no chunk handed to the model exceeds the batch size ("batch_size only bounds memory") -/
theorem lime_calls_le_bs (cfg : Cfg) (score : List (List Rat) → List Rat)
    (kern : List Rat → List (List Rat) → List Rat) (b : Nat) (x : List Rat)
    (samples : List (List Rat)) :
    ∀ q ∈ (fitData cfg score kern b x samples).queries, q.length ≤ b := by
  intro q hq
  simp only [fitData, List.mem_map] at hq
  obtain ⟨r, ⟨ch, hch, rfl⟩, rfl⟩ := hq
  simp only [evalChunk, List.length_map]
  exact (batch_len_le b samples ch hch).1

/-! ### weighted least squares -/

/-- **normal equations ⇒ minimiser** — ridge with diagonal penalty `p ≥ 0` (`p = α` on the
    coefficients, `0` on the intercept column; `α = 0` is ordinary least squares), weights `≥ 0`:
    a vector solving `(XᵀWX + diag p) b = XᵀW y` minimises `Σ_s w_s (y_s − ⟪b, X_s⟫)² + Σ_j p_j b_j²`. -/
theorem normal_eq_is_minimiser (n m : ℕ) (w : ℕ → ℚ) (X : ℕ → ℕ → ℚ) (y p b : ℕ → ℚ)
    (hw : ∀ s, 0 ≤ w s) (hp : ∀ j, 0 ≤ p j)
    (h : ∀ k ∈ range m,
      ∑ j ∈ range m, ((∑ s ∈ range n, w s * X s k * X s j) + (if k = j then p k else 0)) * b j
        = ∑ s ∈ range n, w s * X s k * y s) (b' : ℕ → ℚ) :
    LinReg.ploss n m w X y p b ≤ LinReg.ploss n m w X y p b' :=
  LinReg.ploss_minimiser n m w X y p b hw hp (LinReg.normalEq_of_matrix n m w X y p b h) b'

/-- **the driver's exact solver returns a minimiser of the documented objective**
    `Σ w_s (y_s − ⟪β, z_s⟫ − c)² + α‖β‖²` (list-level, what op "wls" computes) -/
theorem wls_solver_is_minimiser (alpha : ℚ) (halpha : 0 ≤ alpha) (F : ℕ) (Z : List (List ℚ))
    (y w bc : List ℚ) (hw : ∀ v ∈ w, 0 ≤ v) (h : LinReg.wlsFit alpha F Z y w = some bc)
    (bc' : List ℚ) :
    LinReg.loss alpha F Z y w bc ≤ LinReg.loss alpha F Z y w bc' :=
  LinReg.wlsFit_is_minimiser alpha halpha F Z y w bc hw h bc'

/-- **exactness on linear data**: positive weights, full column rank, exactly linear targets ⇒ every
    minimiser of the unpenalised weighted loss is the generating coefficient vector. -/
theorem ols_exact (n m : ℕ) (w : ℕ → ℚ) (hw : ∀ s ∈ range n, 0 < w s) (X : ℕ → ℕ → ℚ)
    (β y : ℕ → ℚ) (hy : ∀ s ∈ range n, y s = ∑ j ∈ range m, β j * X s j)
    (hr : LinReg.FullRank n m X) (b : ℕ → ℚ)
    (hmin : ∀ b', LinReg.ploss n m w X y (fun _ => 0) b ≤ LinReg.ploss n m w X y (fun _ => 0) b') :
    ∀ j ∈ range m, b j = β j :=
  LinReg.ols_exact_range n m w hw X β y hy hr b hmin

/-! ### KernelShap -/

/-- **coalitions have exactly k ∈ 1..F−1 active features** (distinct normal draws, drawn index
    `1 ≤ k < F`): `sample = vals > vals[argsortDesc vals [k]]` has exactly `k` ones. -/
theorem kshap_topk_count (vals : List ℚ) (hnd : vals.Nodup) (k : ℕ) (hk1 : 1 ≤ k)
    (hk : k < vals.length) :
    countOnes (kshapSample vals k) = k ∧ 1 ≤ countOnes (kshapSample vals k)
      ∧ countOnes (kshapSample vals k) ≤ vals.length - 1 ∧ Binary (kshapSample vals k)
      ∧ (kshapSample vals k).length = vals.length := by
  have h := kshapSample_count vals hnd k hk
  refine ⟨h, by omega, by omega, ?_, by simp [kshapSample]⟩
  intro v hv
  simp only [kshapSample, List.mem_map] at hv
  obtain ⟨a, _, rfl⟩ := hv
  split <;> simp

/-- **coalition-size distribution** (about the GENERATED numerator / denominator): index 0 has
    probability 0 (never drawn), and for `1 ≤ k < F` the unnormalised probability is
    `(F−1)/(k(F−k))` = Shapley kernel × number of coalitions of size `k`. -/
theorem kshap_probs (F : ℕ) (hF : 1 ≤ F) :
    kshapProbs F = (List.range F).map (probSpec F) ∧ probSpec F 0 = 0
      ∧ ∀ k, 1 ≤ k → k < F →
          probSpec F k = ((F : ℚ) - 1) / ((k : ℚ) * ((F : ℚ) - (k : ℚ)))
          ∧ probSpec F k = shapleyKernel F k * (Nat.choose F k : ℚ) ∧ 0 < probSpec F k := by
  refine ⟨kshapProbs_eq_spec F hF, by simp [probSpec], ?_⟩
  intro k hk hkF
  refine ⟨by unfold probSpec; rw [if_neg (by omega)], probSpec_eq_kernel_mul_choose F k hk hkF, ?_⟩
  unfold probSpec
  rw [if_neg (by omega)]
  have h1 : (0 : ℚ) < (k : ℚ) := by exact_mod_cast hk
  have h2 : (k : ℚ) < (F : ℚ) := by exact_mod_cast hkF
  have h3 : (1 : ℚ) ≤ (k : ℚ) := by exact_mod_cast hk
  apply div_pos <;> nlinarith

/-- **KernelShap is exact on additive scores.** Cells `i < P` with segment `seg i < F`, additive
    score `f z = Σ wt_i z_i + c0`, `n` drawn coalitions `S s` (any values), targets = scores of the
    masked inputs `x·m + (1−m)·ref`, positive weights, design `(S | 1)` of full column rank: every
    minimiser `b` of the weighted least-squares loss has `b_j = Σ_{i ∈ segment j} wt_i (x_i − ref_i)`
    (the Shapley value; `wt_j (x_j − ref_j)` for the identity map) and `Σ_j b_j = f x − f ref`. -/
theorem kshap_additive_exact (P F n : ℕ) (seg : ℕ → ℕ) (hseg : ∀ i ∈ range P, seg i < F)
    (wt x ref : ℕ → ℚ) (c0 : ℚ) (S : ℕ → ℕ → ℚ) (w : ℕ → ℚ) (hw : ∀ s ∈ range n, 0 < w s)
    (y : ℕ → ℚ)
    (hy : ∀ s ∈ range n,
      y s = (∑ i ∈ range P, wt i * (x i * S s (seg i) + (1 - S s (seg i)) * ref i)) + c0)
    (hr : LinReg.FullRank n (F + 1) fun s j => if j < F then S s j else 1)
    (b : ℕ → ℚ)
    (hmin : ∀ b', LinReg.ploss n (F + 1) w (fun s j => if j < F then S s j else 1) y (fun _ => 0) b
                ≤ LinReg.ploss n (F + 1) w (fun s j => if j < F then S s j else 1) y (fun _ => 0) b') :
    (∀ j ∈ range F, b j = ∑ i ∈ range P, if seg i = j then wt i * (x i - ref i) else 0)
      ∧ ∑ j ∈ range F, b j
          = ((∑ i ∈ range P, wt i * x i) + c0) - ((∑ i ∈ range P, wt i * ref i) + c0) := by
  have hlin : ∀ s ∈ range n, y s = ∑ j ∈ range (F + 1),
      addCoef P F seg wt x ref c0 j * (fun s j => if j < F then S s j else 1) s j := by
    intro s hs
    rw [hy s hs]
    exact additive_linear P F seg hseg wt x ref c0 (S s)
  have hb := LinReg.ols_exact_range n (F + 1) w hw _ (addCoef P F seg wt x ref c0) y hlin hr b hmin
  have hbj : ∀ j ∈ range F, b j = segValue P seg wt x ref j := by
    intro j hj
    have := hb j (mem_range.mpr (by have := mem_range.mp hj; omega))
    rw [this]; unfold addCoef; rw [if_pos (mem_range.mp hj)]
  refine ⟨hbj, ?_⟩
  rw [sum_congr rfl hbj, segValue_sum P F seg hseg wt x ref]
  ring

/-- **KernelShap on the executable model (end to end)**: additive score `⟪wt, z⟫ + c0`, positive
    kernel (KernelShap: constant 1), an interpretable model that returns a minimiser of the
    unpenalised weighted least-squares objective (assumption on sklearn `LinearRegression`), drawn
    samples whose design `(Z|1)` has full column rank: for EVERY batch size the explanation of each
    cell is the Shapley value of its segment, `Σ_{i ∈ segment} wt_i (x_i − ref_i)`. -/
theorem kshap_model_exact (cfg : Cfg) (wt : List ℚ) (c0 : ℚ)
    (score : List (List ℚ) → List ℚ) (hscore : ∀ zs, score zs = zs.map fun z => dot wt z + c0)
    (κ : ℚ → ℚ) (hκ : ∀ t, 0 < κ t) (width : ℚ) (d2 : List ℚ → List ℚ → ℚ)
    (fit : List (List ℚ) → List ℚ → List ℚ → List ℚ) (F : ℕ)
    (hfit : ∀ Z y w, (∀ v ∈ w, 0 ≤ v) →
      ∀ bc', LinReg.loss 0 F Z y w (fit Z y w) ≤ LinReg.loss 0 F Z y w bc')
    (bs : Option Nat) (hbs : ∀ b, bs = some b → 0 < b) (nb : Nat) (hnb : 0 < nb) (x : List ℚ)
    (hshape : x.length = cfg.mapping.length * cfg.c) (hwt : wt.length = x.length)
    (samples : List (List ℚ)) (hmap : ∀ j ∈ cfg.mapping, j < F)
    (hrank : LinReg.FullRank samples.length (F + 1) (LinReg.Xf F samples)) :
    explainOne cfg score (expKernel κ width d2) fit bs nb x samples
      = broadcast cfg.mapping (shapleySeg cfg wt x F) := by
  have hb : 0 < effBatch bs nb := by
    cases bs with
    | none => exact hnb
    | some b => exact hbs b rfl
  exact kshap_model_exact_core cfg wt c0 score hscore κ hκ width d2 fit F hfit _ hb x hshape hwt
    samples hmap hrank

/-- **efficiency on the executable model**: the segment Shapley values sum to
    `score(x) − score(all-reference input)` -/
theorem kshap_model_efficiency (cfg : Cfg) (wt : List ℚ) (c0 : ℚ) (x : List ℚ) (F : ℕ)
    (hshape : x.length = cfg.mapping.length * cfg.c) (hwt : wt.length = x.length)
    (hmap : ∀ j ∈ cfg.mapping, j < F) :
    sumQ (shapleySeg cfg wt x F)
      = (dot wt x + c0) - (dot wt (maskedSpec cfg x (List.replicate F 0)) + c0) := by
  have hseg : ∀ i ∈ range x.length, cfg.mapping.getD (i / cfg.c) 0 < F := by
    intro i hi
    have hk : i / cfg.c < cfg.mapping.length :=
      Nat.div_lt_of_lt_mul (by rw [Nat.mul_comm, ← hshape]; exact mem_range.mp hi)
    apply hmap
    rw [List.getD_eq_getElem?_getD, List.getElem?_eq_getElem hk]
    exact List.getElem_mem hk
  have h1 : sumQ (shapleySeg cfg wt x F)
      = ∑ j ∈ range F, segValue x.length (fun i => cfg.mapping.getD (i / cfg.c) 0)
          (fun i => wt.getD i 0) (fun i => x.getD i 0) (fun i => cfg.ref.getD (i % cfg.c) 0) j := by
    unfold shapleySeg segValue
    rw [LinReg.sumQ_range_map]
    apply sum_congr rfl; intro j _
    rw [LinReg.sumQ_range_map]
  rw [h1, segValue_sum _ F _ hseg, LinReg.dot_eq_sum, LinReg.dot_eq_sum, hwt]
  have h2 : ∑ i ∈ range x.length, wt.getD i 0 * (maskedSpec cfg x (List.replicate F 0)).getD i 0
      = ∑ i ∈ range x.length, wt.getD i 0 * cfg.ref.getD (i % cfg.c) 0 := by
    apply sum_congr rfl; intro i hi
    unfold maskedSpec
    rw [LinReg.getD_map_range _ _ i (mem_range.mp hi)]
    have : (List.replicate F (0 : ℚ)).getD (cfg.mapping.getD (i / cfg.c) 0) 0 = 0 := by
      rcases getD_mem_or_default (List.replicate F (0 : ℚ)) (cfg.mapping.getD (i / cfg.c) 0) with h | h
      · exact List.eq_of_mem_replicate h
      · exact h
    rw [this, if_neg (by norm_num)]
  rw [h2]; ring

/-! ### the cosine kernel: documented distance and regression witness -/

/-! ### translation invariance of the Euclidean kernel (large-offset family of the correspondence check) -/

/-- a common offset of the input and of the masked input changes no squared Euclidean distance ... -/
theorem lime_sqdist_translation (a b : List Rat) (c : Rat) :
    sqDist (a.map (· + c)) (b.map (· + c)) = sqDist a b := sqDist_translation a b c

/-- ... hence no kernel weight -/
theorem lime_weight_translation (κ : Rat → Rat) (width : Rat) (a b : List Rat) (c : Rat) :
    weightOf κ width (sqDist (a.map (· + c)) (b.map (· + c))) = weightOf κ width (sqDist a b) := by
  rw [sqDist_translation]

/-- over the rationals the expanded form `‖a‖² − 2⟨a,b⟩ + ‖b‖²` IS the squared distance: a float32 implementation that uses it
    differs from the documented kernel by rounding only - which is unbounded relative to `D²` when `a` and `b` share a large
    offset (the reason for the large-offset family of the correspondence check) -/
theorem lime_sqdist_expansion (a b : List Rat) (h : a.length = b.length) :
    sqDist a b = sqNorm a - 2 * dot a b + sqNorm b := sqDist_expansion a b h

/-- with the DOCUMENTED distance `1 − cos` a masked input equal to the (non-zero) input has
    distance 0, hence weight `κ 0` (= 1 for `κ = exp(−·)`) -/
theorem lime_cosine_identical (κ : ℚ → ℚ) (width na : ℚ) (a : List ℚ) (hna : na ≠ 0)
    (hn : na * na = sqNorm a) :
    weightOf κ width (cosDist na na a a * cosDist na na a a) = κ 0 := by
  unfold weightOf cosDist cosSim
  rw [if_neg (by simp [hna])]
  have : dot a a / (na * na) = 1 := by
    rw [hn]; unfold sqNorm
    exact div_self (by rw [show dot a a = sqNorm a from rfl, ← hn]; exact mul_ne_zero hna hna)
  rw [this]; simp

/-- **Witness of the repaired defect (D2)**: the pre-fix formula `1 + cos` gives a masked input
    equal to the input distance 2, i.e. weight `κ(4/width²)` instead of `κ 0`; so the predicate
    "weights = κ(D²/width²) with the documented D" separates the two formulas whenever
    `κ (4/width²) ≠ κ 0` (always, for `κ = exp(−·)`). -/
theorem lime_cosine_sign_witness (κ : ℚ → ℚ) (width na : ℚ) (a : List ℚ) (hna : na ≠ 0)
    (hn : na * na = sqNorm a) :
    weightOf κ width (cosDistOld na na a a * cosDistOld na na a a) = κ (4 / (width * width)) := by
  unfold weightOf cosDistOld cosSim
  rw [if_neg (by simp [hna])]
  have : dot a a / (na * na) = 1 := by
    rw [hn]; unfold sqNorm
    exact div_self (by rw [show dot a a = sqNorm a from rfl, ← hn]; exact mul_ne_zero hna hna)
  rw [this]; norm_num

/-! ### non-vacuity -/

-- a 2×3 image with 2 channels, 3 unequal segments, per-channel reference: hypotheses hold,
-- chunked evaluation (b = 2 over 3 samples) reproduces the per-sample masked inputs
example : (fitData ⟨2, [10, 20], [0, 2, 2, 1, 0, 0]⟩ (List.map fun z => z.getD 0 0 * z.getD 7 0)
    (expKernel id 1 sqDist) 2 [1, 2, 3, 4, 5, 6, 7, 8, 9, 10, 11, 12] [[1, 0, 1], [0, 1, 0], [1, 1, 0]]).targets
    = [20, 80, 8] := by decide +kernel
example : Binary [1, 0, 1] := by intro v hv; simp at hv; rcases hv with rfl | rfl | rfl <;> simp
example : countOnes (kshapSample [3, -1, 2, 5] 2) = 2 :=
  (kshap_topk_count [3, -1, 2, 5] (by norm_num) 2 (by norm_num) (by simp)).1
example : kshapProbs 4 = [0, 1, 3/4, 1] := by decide +kernel
-- KernelShap design for F = 3 (coalitions e1, e2, e3, e2+e3) has full column rank with the intercept
example : LinReg.FullRank 4 4 (fun s j => if j < 3 then
    (if s = j ∨ (s = 3 ∧ 1 ≤ j) then 1 else 0) else 1) := by
  intro v h j hj
  have h0 := h 0 (by simp); have h1 := h 1 (by simp); have h2 := h 2 (by simp); have h3 := h 3 (by simp)
  simp [sum_range_succ] at h0 h1 h2 h3
  have hj' : j = 0 ∨ j = 1 ∨ j = 2 ∨ j = 3 := by have := mem_range.mp hj; omega
  rcases hj' with rfl | rfl | rfl | rfl <;> linarith
-- the exact solver on a ridge problem: F = 1, alpha = 2, three samples
example : LinReg.wlsFit 2 1 [[1], [0], [1]] [3, 1, 5] [1, 1, 1] = some [3/4, 5/2] := by decide +kernel
-- witness instance: a = [3, 4], ‖a‖ = 5, width = 1: old formula gives κ 4, documented one κ 0
example : weightOf id 1 (cosDistOld 5 5 [3, 4] [3, 4] * cosDistOld 5 5 [3, 4] [3, 4]) = 4 := by
  decide +kernel
example : weightOf id 1 (cosDist 5 5 [3, 4] [3, 4] * cosDist 5 5 [3, 4] [3, 4]) = 0 := by
  decide +kernel

end Xp.Lime
