/-
  C08 — Sobol / HSIC designs and estimators compute the published sensitivity indices.

  Model: XpModel/Sobol.lean (replicated design, split_abc with the GENERATED slice bounds, the
  five estimators as coded, reference formulas), XpModel/Hsic.lean, XpModel/Gsa.lean.
  All theorems hold for every number of dimensions `d`, every design size `n` and all rational
  outputs.  Divisions of the code are `Option`-valued: `none` is the ZeroDivisionError / NaN of
  the implementation, and the guards (`2 ≤ n`, `varQ ya ≠ 0`) are explicit hypotheses.

  Remark on normalisations (recorded, not hidden): the module divides the centred second moment
  by `n - 1` everywhere (Janon: `1/(n-1) Σ (a²+c²)/2 − μ²`; Glen: covariance with `1/(n-1)`,
  variances with `1/n`).  The reference formulas below are the published ones with that
  normalisation; they differ from the papers' `1/n` versions by a factor `1 + O(1/n)`.
-/
import XpModel.Sobol
import XpProofs.Lemmas.Sobol
import XpModel.Hsic
import XpModel.Gsa
import XpProofs.Lemmas.Hsic

namespace Xp.Sobol

/-! ## replicated design -/

/-- **replicated_structure** — the matrix returned by every replicated sampler is
    `A ++ B ++ C_0 ++ … ++ C_{d-1}` where `C_i` is `A` with column `i` taken from `B`. -/
theorem replicated_structure (A B : List (List Rat)) (d : Nat) :
    design A B d = specDesign A B d := by
  unfold design specDesign buildReplicated
  rw [replC_eq, List.flatMap_def]

/-- index form: rows `< n` are `A`, rows `n..2n` are `B`, row `2n + i·n + a` is row `a` of `A`
    with its entry `i` replaced by `B[a][i]`. -/
theorem replicated_rows (A B : List (List Rat)) (d n : Nat) (hA : A.length = n) (hB : B.length = n) :
    (∀ a, a < n → (design A B d)[a]? = A[a]?) ∧
    (∀ a, a < n → (design A B d)[n + a]? = B[a]?) ∧
    (∀ i a, i < d → a < n →
      (design A B d)[2 * n + i * n + a]? =
        (A[a]?).bind fun ra => (B[a]?).map fun rb => ra.set i (rb.getD i 0)) := by
  rw [replicated_structure]
  unfold specDesign
  refine ⟨?_, ?_, ?_⟩
  · intro a ha
    rw [List.append_assoc, List.getElem?_append_left (by omega)]
  · intro a ha
    rw [List.getElem?_append_left (by simp; omega), List.getElem?_append_right (by omega)]
    congr 1; omega
  · intro i a hi ha
    rw [List.getElem?_append_right (by simp; omega)]
    have h1 : 2 * n + i * n + a - (A ++ B).length = i * n + a := by simp [hA, hB]; omega
    rw [h1, List.flatMap_def,
      getElem?_flatten_uniform _ n (by
        intro l hl
        obtain ⟨j, _, rfl⟩ := List.mem_map.mp hl
        rw [specBlock_length A B j (by omega), hA]) i a ha]
    simp only [List.getElem?_map, List.getElem?_range hi, Option.map_some, Option.bind_some]
    unfold specBlock
    rw [List.getElem?_zipWith]
    cases A[a]? <;> cases B[a]? <;> simp

/-- every entry of the design is an entry of `A` or of `B` (or the filler `0` of a ragged `B`,
    which cannot occur for rectangular input) -/
private theorem design_entries (P : Rat → Prop) (h0 : P 0) (A B : List (List Rat)) (d : Nat)
    (hA : ∀ r ∈ A, ∀ v ∈ r, P v) (hB : ∀ r ∈ B, ∀ v ∈ r, P v) :
    ∀ r ∈ design A B d, ∀ v ∈ r, P v := by
  rw [replicated_structure]
  unfold specDesign
  intro r hr v hv
  rcases List.mem_append.mp hr with hr | hr
  · rcases List.mem_append.mp hr with hr | hr
    · exact hA r hr v hv
    · exact hB r hr v hv
  · obtain ⟨i, _, hr⟩ := List.mem_flatMap.mp hr
    unfold specBlock at hr
    obtain ⟨k, hk, rfl⟩ := List.mem_iff_getElem.mp hr
    rw [List.getElem_zipWith] at hv
    rcases List.mem_or_eq_of_mem_set hv with hv | rfl
    · exact hA _ (List.getElem_mem _) v hv
    · by_cases hi : i < (B[k]'(by simp at hk; omega)).length
      · have : (B[k]'(by simp at hk; omega)).getD i 0 = (B[k]'(by simp at hk; omega))[i] := by
          simp [List.getD_eq_getElem?_getD, hi]
        rw [this]
        exact hB _ (List.getElem_mem _) _ (List.getElem_mem _)
      · have : (B[k]'(by simp at hk; omega)).getD i 0 = 0 := by
          simp only [List.getD_eq_getElem?_getD]
          rw [List.getElem?_eq_none (by omega)]; rfl
        rw [this]; exact h0

/-- **replicated_range** — if `A` and `B` have their values in `[0, 1]`, so has the design -/
theorem replicated_range (A B : List (List Rat)) (d : Nat)
    (hA : ∀ r ∈ A, ∀ v ∈ r, 0 ≤ v ∧ v ≤ 1) (hB : ∀ r ∈ B, ∀ v ∈ r, 0 ≤ v ∧ v ≤ 1) :
    ∀ r ∈ design A B d, ∀ v ∈ r, 0 ≤ v ∧ v ≤ 1 :=
  design_entries (fun v => 0 ≤ v ∧ v ≤ 1) ⟨le_refl 0, by norm_num⟩ A B d hA hB

/-- binary `A`, `B` give a binary design -/
theorem replicated_binary (A B : List (List Rat)) (d : Nat)
    (hA : ∀ r ∈ A, ∀ v ∈ r, v = 0 ∨ v = 1) (hB : ∀ r ∈ B, ∀ v ∈ r, v = 0 ∨ v = 1) :
    ∀ r ∈ design A B d, ∀ v ∈ r, v = 0 ∨ v = 1 :=
  design_entries (fun v => v = 0 ∨ v = 1) (Or.inl rfl) A B d hA hB

/-! ## split_abc (about the GENERATED slice bounds) -/

/-- **split_roundtrip** — splitting the concatenation `ya ++ yb ++ yc_0 ++ … ++ yc_{d-1}` with the
    source's slice bounds gives back the pieces.  Stops compiling if a bound changes meaning. -/
theorem split_roundtrip (ya yb : List α) (ycs : List (List α)) (n d : Nat)
    (ha : ya.length = n) (hb : yb.length = n) (hd : ycs.length = d) (hc : ∀ l ∈ ycs, l.length = n) :
    splitABC (ya ++ yb ++ ycs.flatten) n d = (ya, yb, ycs) := by
  unfold splitABC
  have e1 : Gen.splitALo (n : Int) = ((0 : Nat) : Int) := by simp [Gen.splitALo]
  have e2 : Gen.splitAHi (n : Int) = (n : Int) := by simp [Gen.splitAHi]
  have e3 : Gen.splitBLo (n : Int) = (n : Int) := by simp [Gen.splitBLo]
  have e4 : Gen.splitBHi (n : Int) = ((n + n : Nat) : Int) := by simp [Gen.splitBHi]; ring
  have e5 : ∀ i : Nat, Gen.splitCLo (n : Int) (i : Int) = ((n + n + n * i : Nat) : Int) := by
    intro i; simp [Gen.splitCLo]; ring
  have e6 : ∀ i : Nat, Gen.splitCHi (n : Int) (i : Int) = ((n + n + (n * i + n) : Nat) : Int) := by
    intro i; simp [Gen.splitCHi]; ring
  rw [e1, e2, e3, e4, slice_nat, slice_nat]
  simp only [e5, e6, slice_nat]
  subst ha
  refine Prod.ext ?_ (Prod.ext ?_ ?_)
  · simp only [List.drop_zero, List.append_assoc, List.take_left]
  · simp only [List.append_assoc]
    rw [List.take_length_add_append, List.drop_left, ← hb, List.take_left]
  · simp only
    apply List.ext_getElem (by simp [hd])
    intro i h1 h2
    simp only [List.getElem_map, List.getElem_range]
    have hab : (ya ++ yb).length = ya.length + ya.length := by simp [hb]
    rw [← hab, List.take_length_add_append, List.drop_length_add_append]
    exact drop_take_flatten_uniform ycs ya.length hc i h2

/-- outputs computed row by row on the design split into `f∘A`, `f∘B` and, for every `i`,
    `f∘C_i` -/
theorem split_design (f : List Rat → α) (A B : List (List Rat)) (n d : Nat)
    (hA : A.length = n) (hB : B.length = n) :
    splitABC ((design A B d).map f) n d
      = (A.map f, B.map f, (List.range d).map fun i => (specBlock A B i).map f) := by
  rw [replicated_structure]
  unfold specDesign
  have : (A ++ B ++ (List.range d).flatMap (specBlock A B)).map f
      = A.map f ++ B.map f ++ ((List.range d).map fun i => (specBlock A B i).map f).flatten := by
    simp only [List.map_append, List.flatMap_def, List.map_flatten, List.map_map]
    rfl
  rw [this]
  apply split_roundtrip _ _ _ n d (by simp [hA]) (by simp [hB]) (by simp)
  intro l hl
  obtain ⟨i, _, rfl⟩ := List.mem_map.mp hl
  simp [specBlock_length A B i (by omega), hA]

/-! ## the estimators equal their reference formulas -/

private theorem natCast_ne_zero_of_two_le {n : Nat} (h : 2 ≤ n) : (n : Rat) ≠ 0 := by
  have : (2 : Rat) ≤ (n : Rat) := by exact_mod_cast h
  intro e; linarith

/-- **jansen_formula** — for `n ≥ 2` outputs with non-zero variance the coded Jansen estimator is
    defined and equals `[1/(2n) Σ (f(A) − f(C_i))²] / V`. -/
theorem jansen_formula (n : Nat) (ya yc : List Rat) (hn : ya.length = n) (h2 : 2 ≤ n)
    (hv : varQ ya ≠ 0) : jansenOne n ya yc = some (jansenSpec ya yc) := by
  have hn0 := natCast_ne_zero_of_two_le h2
  unfold jansenOne jansenSpec
  rw [sampleVar_eq ya (by omega)]
  simp only [Option.bind_eq_bind, Option.bind_some]
  rw [qdiv_ne _ _ (by positivity), hn]
  congr 1; field_simp

/-- without variance (or with fewer than two design points) the code divides by zero: the model
    returns `none` (the implementation raises / returns NaN), it is never silently `0` -/
theorem jansen_undefined (n : Nat) (ya yc : List Rat) (h : ya.length < 2 ∨ varQ ya = 0 ∨ n = 0) :
    jansenOne n ya yc = none := by
  unfold jansenOne
  cases hs : sampleVar ya with
  | none => simp
  | some v =>
    obtain ⟨h2, hv, _⟩ := sampleVar_some hs
    simp only [Option.bind_eq_bind, Option.bind_some]
    rcases h with h | h | h
    · omega
    · rw [hv, h]; simp [qdiv]
    · subst h; simp [qdiv]

/-- **homma_formula** — `(V − U + f0²)/V = 1 − (U − f0²)/V` -/
theorem homma_formula (n : Nat) (ya yc : List Rat) (hn : ya.length = n) (h2 : 2 ≤ n)
    (hv : varQ ya ≠ 0) : hommaOne n ya yc = some (hommaSpec ya yc) := by
  have hn0 := natCast_ne_zero_of_two_le h2
  have hne : ya ≠ [] := by intro e; subst e; simp at hn; omega
  unfold hommaOne hommaSpec
  rw [sampleVar_eq ya (by omega), meanO_eq ya hne]
  simp only [Option.bind_eq_bind, Option.bind_some]
  rw [qdiv_ne _ _ hn0]
  simp only [Option.bind_some]
  rw [qdiv_ne _ _ hv, hn]
  congr 1; field_simp; ring

/-- **saltelli_formula** -/
theorem saltelli_formula (n : Nat) (ya yc : List Rat) (hn : ya.length = n) (h2 : 2 ≤ n)
    (hv : varQ ya ≠ 0) : saltelliOne n ya yc = some (saltelliSpec ya yc) := by
  have hn0 := natCast_ne_zero_of_two_le h2
  have hne : ya ≠ [] := by intro e; subst e; simp at hn; omega
  unfold saltelliOne saltelliSpec hommaSpec
  rw [sampleVar_eq ya (by omega), meanO_eq ya hne]
  simp only [Option.bind_eq_bind, Option.bind_some]
  rw [qdiv_ne _ _ hn0]
  simp only [Option.bind_some]
  rw [qdiv_ne _ _ hv, hn]
  simp only [Option.bind_some, Option.pure_def, Option.some.injEq]
  field_simp

/-- as coded, Homma and Saltelli are the same estimator -/
theorem homma_eq_saltelli (n : Nat) (ya yc : List Rat) (hn : ya.length = n) (h2 : 2 ≤ n)
    (hv : varQ ya ≠ 0) : hommaOne n ya yc = saltelliOne n ya yc := by
  rw [homma_formula n ya yc hn h2 hv, saltelli_formula n ya yc hn h2 hv]; rfl

/-- **janon_formula** -/
theorem janon_formula (n : Nat) (ya yc : List Rat) (hn : ya.length = n) (hc : yc.length = n)
    (h2 : 2 ≤ n) (hv : janonVar ya yc ≠ 0) : janonOne n ya yc = some (janonSpec ya yc) := by
  have hn0 := natCast_ne_zero_of_two_le h2
  have hn1 : (n : Rat) - 1 ≠ 0 := by
    have : (2 : Rat) ≤ (n : Rat) := by exact_mod_cast h2
    intro e; linarith
  unfold janonOne janonSpec
  rw [qdiv_ne _ _ hn0, qdiv_ne _ _ hn1]
  simp only [Option.bind_eq_bind, Option.bind_some]
  have s1 : sumQ (List.zipWith (· + ·) ya yc) = sumQ ya + sumQ yc := by
    have := sumQ_zipWith_add_fun id id ya yc (by omega)
    simpa using this
  have s2 : sumQ (List.zipWith (fun a c => sq a + sq c) ya yc) = sumQ (ya.map sq) + sumQ (yc.map sq) :=
    sumQ_zipWith_add_fun sq sq ya yc (by omega)
  rw [s1, s2]
  have e1 : 1 / (n : Rat) * (sumQ ya + sumQ yc) / 2 = (sumQ ya + sumQ yc) / (2 * (n : Rat)) := by
    field_simp
  have e2 : 1 / ((n : Rat) - 1) * (sumQ (ya.map sq) + sumQ (yc.map sq)) / 2
      = (sumQ (ya.map sq) + sumQ (yc.map sq)) / (2 * ((n : Rat) - 1)) := by field_simp
  rw [e1, e2]
  have hv' : (sumQ (ya.map sq) + sumQ (yc.map sq)) / (2 * ((n : Rat) - 1))
      - sq ((sumQ ya + sumQ yc) / (2 * (n : Rat))) ≠ 0 := by
    have := hv; unfold janonVar at this; rw [hn] at this; exact this
  rw [qdiv_ne _ _ hv', hn]
  simp only [Option.bind_some, Option.pure_def, Option.some.injEq]
  field_simp

/-- **glen_formula** — with `root` standing for `(var_a · var_c)^{1/2}` (square root is a
    parameter of the model) the coded Glen–Isaacs estimator is `1 − cov_{n-1}(f(A), f(C_i)) / root` -/
theorem glen_formula (n : Nat) (root : Rat) (ya yc : List Rat) (hn : ya.length = n)
    (hc : yc.length = n) (h2 : 2 ≤ n) (hr : root ≠ 0) :
    glenOne n root ya yc = some (glenSpec root ya yc) := by
  have hn1 : (n : Rat) - 1 ≠ 0 := by
    have : (2 : Rat) ≤ (n : Rat) := by exact_mod_cast h2
    intro e; linarith
  have hne : ya ≠ [] := by intro e; subst e; simp at hn; omega
  have hnc : yc ≠ [] := by intro e; subst e; simp at hc; omega
  unfold glenOne glenSpec
  rw [meanO_eq ya hne, meanO_eq yc hnc, qdiv_ne _ _ hn1]
  simp only [Option.bind_eq_bind, Option.bind_some]
  rw [qdiv_ne _ _ hr, hn]
  simp only [Option.bind_some, Option.pure_def, Option.some.injEq]
  field_simp

/-! ## properties of the default (Jansen) estimator -/

/-- **jansen_nonneg** — whenever the coded estimator returns a number it is non-negative
    (it returns one exactly when `n ≥ 2`, `n_design ≠ 0` and the variance is non-zero) -/
theorem jansen_nonneg (n : Nat) (ya yc : List Rat) (r : Rat) (h : jansenOne n ya yc = some r) :
    0 ≤ r := by
  unfold jansenOne at h
  cases hs : sampleVar ya with
  | none => simp [hs] at h
  | some v =>
    obtain ⟨_, _, hv0⟩ := sampleVar_some hs
    simp only [hs, Option.bind_eq_bind, Option.bind_some] at h
    obtain ⟨_, rfl⟩ := qdiv_some h
    exact div_nonneg (sumSqDiff_nonneg ya yc) (by positivity)

/-- existence form with the explicit guard `0 < var` -/
theorem jansen_defined_nonneg (n : Nat) (ya yc : List Rat) (hn : ya.length = n) (h2 : 2 ≤ n)
    (hv : 0 < varQ ya) : ∃ r, jansenOne n ya yc = some r ∧ 0 ≤ r :=
  ⟨_, jansen_formula n ya yc hn h2 (ne_of_gt hv), jansen_nonneg n ya yc _
    (jansen_formula n ya yc hn h2 (ne_of_gt hv))⟩

/-- **jansen_zero_inert** — if the outputs on `C_i` equal the outputs on `A` the index is exactly 0 -/
theorem jansen_zero_inert (n : Nat) (ya : List Rat) (r : Rat) (h : jansenOne n ya ya = some r) :
    r = 0 := by
  unfold jansenOne at h
  cases hs : sampleVar ya with
  | none => simp [hs] at h
  | some v =>
    simp only [hs, Option.bind_eq_bind, Option.bind_some] at h
    obtain ⟨_, rfl⟩ := qdiv_some h
    rw [sumSqDiff_self]; simp

/-- a score that ignores coordinate `i` has the same outputs on `C_i` as on `A` … -/
theorem inert_outputs (f : List Rat → Rat) (i : Nat) (hf : ∀ x v, f (x.set i v) = f x)
    (A B : List (List Rat)) (h : A.length = B.length) : (specBlock A B i).map f = A.map f := by
  unfold specBlock
  induction A generalizing B with
  | nil => simp
  | cons ra A ih =>
    cases B with
    | nil => simp at h
    | cons rb B =>
      simp only [List.zipWith_cons_cons, List.map_cons, hf]
      rw [ih B (by simpa using h)]

/-- … hence the Jansen index of dimension `i` computed from the outputs on the whole replicated
    design is exactly zero (for every design size and every other behaviour of `f`) -/
theorem jansen_zero_inert_design (f : List Rat → Rat) (A B : List (List Rat)) (n d i : Nat)
    (hA : A.length = n) (hB : B.length = n) (hi : i < d) (hf : ∀ x v, f (x.set i v) = f x)
    (r : Rat) (h : (estimate .jansen ((design A B d).map f) n d)[i]? = some (some r)) : r = 0 := by
  unfold estimate at h
  rw [split_design f A B n d hA hB] at h
  simp only [List.getElem?_map, List.getElem?_range hi, Option.map_some, estOne] at h
  rw [inert_outputs f i hf A B (by omega)] at h
  exact jansen_zero_inert n _ r (by simpa using h)

private theorem meanO_affine (a b : Rat) (ya : List Rat) :
    meanO (ya.map fun v => a * v + b) = (meanO ya).map fun m => a * m + b := by
  by_cases hne : ya = []
  · subst hne; simp [meanO_nil]
  · have hl : (ya.length : Rat) ≠ 0 := by
      have := List.length_pos_iff.mpr hne
      exact_mod_cast (by omega : ya.length ≠ 0)
    rw [meanO_eq ya hne, meanO_eq _ (by simpa using hne)]
    simp only [Option.map_some, Option.some.injEq, meanQ, List.length_map]
    rw [sumQ_map_add_const]; field_simp

private theorem sampleVar_affine (a b : Rat) (ya : List Rat) :
    sampleVar (ya.map fun v => a * v + b) = (sampleVar ya).map fun v => (a * a) * v := by
  unfold sampleVar
  rw [meanO_affine]
  cases hm : meanO ya with
  | none => simp
  | some mu =>
    simp only [Option.map_some, Option.bind_eq_bind, Option.bind_some, List.map_map, List.length_map]
    have : (fun v => sq (v - (a * mu + b))) ∘ (fun v => a * v + b) = fun v => (a * a) * sq (v - mu) := by
      funext v; simp only [Function.comp, sq]; ring
    rw [this, sumQ_map_mul_left]
    unfold qdiv
    by_cases hz : (ya.length : Rat) - 1 = 0
    · simp [hz]
    · simp only [hz, if_false, Option.map_some, Option.some.injEq]; ring

private theorem sumSqDiff_affine (a b : Rat) (ya yc : List Rat) :
    sumSqDiff (ya.map fun v => a * v + b) (yc.map fun v => a * v + b) = (a * a) * sumSqDiff ya yc := by
  unfold sumSqDiff
  rw [List.zipWith_map, ← sumQ_zipWith_mul_left]
  congr 2
  funext x y; simp only [sq]; ring

/-- **jansen_affine** — the Jansen index does not change under `y ↦ α·y + β`, `α ≠ 0` (including
    the undefined case: both sides are `none` together) -/
theorem jansen_affine (n : Nat) (ya yc : List Rat) (a b : Rat) (ha : a ≠ 0) :
    jansenOne n (ya.map fun v => a * v + b) (yc.map fun v => a * v + b) = jansenOne n ya yc := by
  unfold jansenOne
  rw [sampleVar_affine, sumSqDiff_affine]
  cases hs : sampleVar ya with
  | none => simp
  | some v =>
    simp only [Option.map_some, Option.bind_eq_bind, Option.bind_some]
    have : 2 * (n : Rat) * (a * a * v) = (a * a) * (2 * (n : Rat) * v) := by ring
    rw [this, qdiv_scale _ _ _ (mul_ne_zero ha ha)]

private theorem sumProd_scale (a : Rat) (ya yc : List Rat) :
    sumProd (ya.map fun v => a * v) (yc.map fun v => a * v) = (a * a) * sumProd ya yc := by
  unfold sumProd
  rw [List.zipWith_map, ← sumQ_zipWith_mul_left]
  congr 2
  funext x y; ring

private theorem scale_as_affine (a : Rat) : (fun v : Rat => a * v) = fun v => a * v + 0 := by
  funext v; ring

/-- **others_scale** — Homma / Saltelli / Janon are invariant under `y ↦ α·y`, `α ≠ 0`.
    (Shift invariance is NOT claimed for them: as coded they combine `μ_A²` with `Σ a·c`.) -/
theorem homma_scale (n : Nat) (ya yc : List Rat) (a : Rat) (ha : a ≠ 0) :
    hommaOne n (ya.map fun v => a * v) (yc.map fun v => a * v) = hommaOne n ya yc := by
  unfold hommaOne
  rw [sumProd_scale, scale_as_affine, meanO_affine, sampleVar_affine]
  cases hm : meanO ya with
  | none => simp
  | some mu =>
    cases hs : sampleVar ya with
    | none => simp
    | some v =>
      cases hq : qdiv 1 (n : Rat) with
      | none => simp
      | some inv =>
        simp only [Option.map_some, Option.bind_eq_bind, Option.bind_some]
        have : a * a * v - inv * (a * a * sumProd ya yc) + sq (a * mu + 0)
            = (a * a) * (v - inv * sumProd ya yc + sq mu) := by simp only [sq]; ring
        rw [this, qdiv_scale _ _ _ (mul_ne_zero ha ha)]

theorem saltelli_scale (n : Nat) (ya yc : List Rat) (a : Rat) (ha : a ≠ 0) :
    saltelliOne n (ya.map fun v => a * v) (yc.map fun v => a * v) = saltelliOne n ya yc := by
  unfold saltelliOne
  rw [sumProd_scale, scale_as_affine, meanO_affine, sampleVar_affine]
  cases hm : meanO ya with
  | none => simp
  | some mu =>
    cases hs : sampleVar ya with
    | none => simp
    | some v =>
      cases hq : qdiv 1 (n : Rat) with
      | none => simp
      | some inv =>
        simp only [Option.map_some, Option.bind_eq_bind, Option.bind_some]
        have : inv * (a * a * sumProd ya yc) - sq (a * mu + 0)
            = (a * a) * (inv * sumProd ya yc - sq mu) := by simp only [sq]; ring
        rw [this, qdiv_scale _ _ _ (mul_ne_zero ha ha)]

theorem janon_scale (n : Nat) (ya yc : List Rat) (a : Rat) (ha : a ≠ 0) :
    janonOne n (ya.map fun v => a * v) (yc.map fun v => a * v) = janonOne n ya yc := by
  unfold janonOne
  rw [sumProd_scale]
  cases hq : qdiv 1 (n : Rat) with
  | none => simp
  | some inv =>
    cases hq1 : qdiv 1 ((n : Rat) - 1) with
    | none => simp
    | some inv1 =>
      simp only [Option.bind_eq_bind, Option.bind_some]
      have s1 : sumQ (List.zipWith (· + ·) (ya.map fun v => a * v) (yc.map fun v => a * v))
          = a * sumQ (List.zipWith (· + ·) ya yc) := by
        rw [List.zipWith_map, ← sumQ_zipWith_mul_left]; congr 2; funext x y; ring
      have s2 : sumQ (List.zipWith (fun x c => sq x + sq c) (ya.map fun v => a * v) (yc.map fun v => a * v))
          = (a * a) * sumQ (List.zipWith (fun x c => sq x + sq c) ya yc) := by
        rw [List.zipWith_map, ← sumQ_zipWith_mul_left]; congr 2; funext x y; simp only [sq]; ring
      rw [s1, s2]
      generalize sumQ (List.zipWith (· + ·) ya yc) = S1
      generalize sumQ (List.zipWith (fun x c => sq x + sq c) ya yc) = S2
      generalize sumProd ya yc = P
      have e1 : inv * (a * a * P) - sq (inv * (a * S1) / 2) = (a * a) * (inv * P - sq (inv * S1 / 2)) := by
        simp only [sq]; ring
      have e2 : inv1 * (a * a * S2) / 2 - sq (inv * (a * S1) / 2)
          = (a * a) * (inv1 * S2 / 2 - sq (inv * S1 / 2)) := by simp only [sq]; ring
      rw [e1, e2, qdiv_scale _ _ _ (mul_ne_zero ha ha)]

end Xp.Sobol

/-! ## additive scores -/
namespace Xp.Sobol

private theorem sumQ_range_single_diff (d i : Nat) (hi : i < d) (F G : Nat → Rat)
    (hFG : ∀ j, j ≠ i → F j = G j) :
    sumQ ((List.range d).map F) - sumQ ((List.range d).map G) = F i - G i := by
  induction d with
  | zero => omega
  | succ d ih =>
    rw [List.range_succ, List.map_append, List.map_append, sumQ_append, sumQ_append]
    simp only [List.map_cons, List.map_nil, sumQ_cons, sumQ_nil, add_zero]
    by_cases hid : i = d
    · subst hid
      have : sumQ ((List.range i).map F) = sumQ ((List.range i).map G) := by
        congr 1
        apply List.map_congr_left
        intro j hj
        exact hFG j (by have := List.mem_range.mp hj; omega)
      rw [this]; ring
    · have := ih (by omega)
      rw [hFG d (fun e => hid e.symm)]
      linarith

private theorem addF_set (h : Nat → Rat → Rat) (d i : Nat) (hi : i < d) (ra : List Rat) (hra : i < ra.length)
    (v : Rat) : addF h d ra - addF h d (ra.set i v) = h i (ra.getD i 0) - h i v := by
  unfold addF
  rw [sumQ_range_single_diff d i hi (fun j => h j (ra.getD j 0)) (fun j => h j ((ra.set i v).getD j 0))]
  · simp [List.getD_eq_getElem?_getD, hra]
  · intro j hj
    simp [List.getD_eq_getElem?_getD, List.getElem?_set_ne (Ne.symm hj)]

/-- **jansen_additive_partial** — for an additive score the Jansen numerator of dimension `i`
    computed on the replicated design is `Σ_a (h_i(A_ai) − h_i(B_ai))²`: it depends on column `i`
    of `A` and `B` only.  Partial: the convergence of the estimators to the analytic indices as
    the design grows (a statement about QMC sequences) is NOT proved. -/
theorem jansen_additive_partial (h : Nat → Rat → Rat) (d i : Nat) (hi : i < d) (A B : List (List Rat))
    (hA : ∀ ra ∈ A, ra.length = d) (hlen : A.length = B.length) :
    sumSqDiff (A.map (addF h d)) ((specBlock A B i).map (addF h d))
      = sumQ (List.zipWith (fun ra rb => sq (h i (ra.getD i 0) - h i (rb.getD i 0))) A B) := by
  unfold sumSqDiff specBlock
  induction A generalizing B with
  | nil => simp
  | cons ra A ih =>
    cases B with
    | nil => simp at hlen
    | cons rb B =>
      simp only [List.map_cons, List.zipWith_cons_cons, sumQ_cons]
      rw [ih B (fun r hr => hA r (List.mem_cons_of_mem _ hr)) (by simpa using hlen),
        addF_set h d i hi ra (by rw [hA ra (List.mem_cons_self ..)]; exact hi)]

/-! ## non-vacuity: concrete instances meet the hypotheses and give non-trivial values -/

example : design [[1, 2], [3, 4]] [[5, 6], [7, 8]] 2
    = [[1, 2], [3, 4], [5, 6], [7, 8], [5, 2], [7, 4], [1, 6], [3, 8]] := by decide +kernel
example : splitABC [0, 1, 5, 5, 1, 1, 0, 3] 2 2 = ([0, 1], [5, 5], [[1, 1], [0, 3]]) := by decide +kernel
example : varQ [0, 1] ≠ 0 ∧ (2 : Nat) ≤ [(0 : Rat), 1].length := by decide +kernel
example : estimate .jansen [0, 1, 5, 5, 1, 1, 0, 3] 2 2 = [some (1 / 2), some 2] := by decide +kernel
example : estimate .homma [0, 1, 5, 5, 1, 1, 0, 3] 2 2 = [some (1 / 2), some (-3 / 2)] := by decide +kernel
example : estimate .janon [0, 1, 5, 5, 1, 1, 0, 3] 2 2 = [some (16 / 15), some (7 / 8)] := by decide +kernel
example : janonVar [0, 1] [1, 1] ≠ 0 := by decide +kernel
/-- zero variance on `A`: undefined, not `0` -/
example : estimate .jansen [1, 1, 5, 5, 1, 2, 0, 3] 2 2 = [none, none] := by decide +kernel

end Xp.Sobol

/-! ## HSIC -/
namespace Xp.Hsic
open Xp.Sobol (sq)

/-- the chunked computation over the mask dimensions is the plain map (any estimator batch size) -/
theorem rawScores_eq (kern : InKernel) (g n bsz : Nat) (hb : 0 < bsz) (ms L : List (List Rat)) :
    rawScores kern g n bsz ms L
      = (List.range (g * g)).map fun k => scoreImpl n (gramIn kern n (dimCol g ms k)) L := by
  unfold rawScores
  by_cases hg : g * g = 0
  · rw [hg]; simp [batched, batches]
  · apply batched_eq_map _ _ (fun _ => rfl)
    intro b hbe
    simp only [Option.some.injEq] at hbe
    subst hbe
    unfold effDimBatch
    split <;> omega

/-- **hsic_est_bs_indep** (exported to C03) — `estimator_batch_size` does not change the scores -/
theorem hsic_est_bs_indep (kern : InKernel) (g n b b' : Nat) (hb : 0 < b) (hb' : 0 < b')
    (ms L : List (List Rat)) : hsicImpl kern g n b ms L = hsicImpl kern g n b' ms L := by
  unfold hsicImpl
  rw [rawScores_eq kern g n b hb, rawScores_eq kern g n b' hb']

/-- **hsic_cell_alignment** — after `transpose → reshape → estimator → reshape → transpose`, entry
    `p` (row-major cell) of the returned map is `tr(H K_p H · H L H)/n` with `K_p` the Gram matrix
    of the values of mask cell `p` over the design -/
theorem hsic_cell_alignment (kern : InKernel) (g n bsz : Nat) (hb : 0 < bsz) (ms L : List (List Rat)) :
    hsicImpl kern g n bsz ms L = hsicSpec kern g n ms L := by
  unfold hsicImpl hsicSpec postProcess
  rw [rawScores_eq kern g n bsz hb]
  apply List.map_congr_left
  intro p hp
  have hp' := List.mem_range.mp hp
  obtain ⟨hk, hrt⟩ := cell_roundtrip g p hp'
  rw [getD_range_map (g * g) _ _ hk, scoreImpl_eq_scoreFn]
  apply scoreFn_congr
  intro a b ha hb'
  unfold gramIn dimCol
  rw [rd_tab n _ a b ha hb', hrt, getD_map_row, getD_map_row]

/-- **hsic_perm** — re-indexing the grid cells of every mask by `π` re-indexes the scores by `π` -/
theorem hsic_perm (kern : InKernel) (g n bsz : Nat) (hb : 0 < bsz) (ms L : List (List Rat))
    (π : Nat → Nat) (hπ : ∀ p, p < g * g → π p < g * g) :
    hsicImpl kern g n bsz (ms.map fun row => (List.range (g * g)).map fun q => row.getD (π q) 0) L
      = (List.range (g * g)).map fun p => (hsicImpl kern g n bsz ms L).getD (π p) 0 := by
  rw [hsic_cell_alignment kern g n bsz hb, hsic_cell_alignment kern g n bsz hb]
  unfold hsicSpec
  apply List.map_congr_left
  intro p hp
  have hp' := List.mem_range.mp hp
  rw [getD_range_map (g * g) _ _ (hπ p hp')]
  apply scoreFn_congr
  intro a b _ _
  have e : ∀ a, ((ms.map fun row => (List.range (g * g)).map fun q => row.getD (π q) 0).getD a []).getD p 0
      = (ms.getD a []).getD (π p) 0 := by
    intro a
    by_cases h : a < ms.length
    · simp [List.getD_eq_getElem?_getD, h, hp']
    · simp [List.getD_eq_getElem?_getD, List.getElem?_eq_none (by omega : ms.length ≤ a)]
  rw [e a, e b]

/-- **hsic_nonneg_partial** — for an input Gram matrix that is a non-negative combination of outer
    products (over ℚ this is equivalent to positive semi-definiteness, by the LDLᵀ factorisation;
    for the rbf and Sobolev input kernels it is a HYPOTHESIS) and a positive semi-definite output
    Gram matrix `L` (the rbf kernel of the scores: HYPOTHESIS, `exp` is not modelled), the raw
    score is non-negative.  Missing for a full-strength statement: PSD-ness of the rbf / Sobolev
    kernels themselves. -/
theorem hsic_nonneg_partial (n : Nat) (K L : List (List Rat)) (hK : OuterSum n (rd K))
    (hL : PSD n (rd L)) : 0 ≤ scoreImpl n K L := by
  rw [scoreImpl_eq_scoreFn]; exact scoreFn_nonneg n _ _ hK hL

/-- the binary ("Dirac") input kernel on a 0/1 column: `1 + ½ − (x−y)² = ½·1·1 + x·y + (1−x)(1−y)` -/
theorem binary_outerSum (n : Nat) (col : List Rat) (hbin : ∀ a, a < n → col.getD a 0 = 0 ∨ col.getD a 0 = 1) :
    OuterSum n (rd (gramIn .binary n col)) := by
  refine ⟨3, fun w => if w = 0 then 1 / 2 else 1,
    fun w a => if w = 0 then 1 else if w = 1 then col.getD a 0 else 1 - col.getD a 0, ?_, ?_⟩
  · intro w; show 0 ≤ (if w = 0 then (1 : Rat) / 2 else 1); split <;> norm_num
  · intro j k hj hk
    unfold gramIn
    rw [rd_tab n _ j k hj hk]
    simp only [InKernel.eval, kBinary, List.range_succ, List.range_zero, List.nil_append,
      List.cons_append, List.map_cons, List.map_nil, sumQ_cons, sumQ_nil]
    rcases hbin j hj with h1 | h1 <;> rcases hbin k hk with h2 | h2 <;> rw [h1, h2] <;> norm_num [Xp.Sobol.sq]

/-- **hsic_nonneg_binary** — with binary masks (the default `BinaryEstimator`) every raw score is
    non-negative, for every design size, provided the output Gram matrix is PSD -/
theorem hsic_nonneg_binary (g n bsz : Nat) (hb : 0 < bsz) (ms L : List (List Rat))
    (hbin : ∀ row ∈ ms, ∀ v ∈ row, v = 0 ∨ v = 1) (hL : PSD n (rd L)) :
    ∀ s ∈ hsicImpl .binary g n bsz ms L, 0 ≤ s := by
  unfold hsicImpl postProcess
  rw [rawScores_eq _ g n bsz hb]
  intro s hs
  obtain ⟨p, hp, rfl⟩ := List.mem_map.mp hs
  obtain ⟨hk, hrt⟩ := cell_roundtrip g p (List.mem_range.mp hp)
  rw [getD_range_map (g * g) _ _ hk]
  apply hsic_nonneg_partial n _ _ _ hL
  apply binary_outerSum
  intro a _
  unfold dimCol
  rw [getD_map_row, hrt]
  by_cases ha : a < ms.length
  · have hrow : ms.getD a [] ∈ ms := by
      simp [List.getD_eq_getElem?_getD, ha]
    generalize ms.getD a [] = row at hrow
    by_cases hq : p < row.length
    · apply hbin row hrow
      simp [List.getD_eq_getElem?_getD, hq]
    · left; simp [List.getD_eq_getElem?_getD, List.getElem?_eq_none (by omega : row.length ≤ p)]
  · left
    simp [List.getD_eq_getElem?_getD, List.getElem?_eq_none (by omega : ms.length ≤ a)]

/-- non-vacuity: the identity is a PSD output Gram matrix, binary masks exist, scores are positive -/
example : PSD 2 (rd [[1, 0], [0, 1]]) := by
  intro v
  simp only [List.range_succ, List.range_zero, List.nil_append, List.cons_append, List.map_cons,
    List.map_nil, sumQ_cons, sumQ_nil, rd]
  norm_num
  nlinarith [mul_self_nonneg (v 0), mul_self_nonneg (v 1)]
example : hsicImpl .binary 1 2 1 [[0], [1]] [[1, 0], [0, 1]] = [1 / 2] := by decide +kernel
example : hsicImpl .binary 2 3 2 [[0, 1, 1, 0], [1, 1, 0, 0], [0, 0, 1, 1]] [[1, 1 / 2, 0], [1 / 2, 1, 1 / 4], [0, 1 / 4, 1]]
    = [2 / 9, 4 / 9, 2 / 9, 4 / 9] := by decide +kernel

end Xp.Hsic

/-! ## attribution maps -/
namespace Xp.Gsa

/-- **gsa_map_is_estimator** — for every batch size the (pre-resize) Sobol / HSIC map of an input
    is the estimator applied to the scores of the inputs perturbed by the explainer's masks,
    in mask order -/
theorem gsa_map_is_estimator {ρ : Type} (est : List (List Rat) → List Rat → ρ) (bs : Option Nat)
    (hbs : ∀ b, bs = some b → 0 < b) (score : List Rat → Rat) (p : Perturb) (g h w c : Nat)
    (masks : List (List Rat)) (x : List Rat) :
    explainOne est bs score p g h w c masks x = specOne est score p g h w c masks x := by
  unfold explainOne specOne outputs query
  rw [batched_eq_map _ _ (fun _ => rfl) bs hbs]

/-- **gsa_bs_indep** (exported to C03) -/
theorem gsa_bs_indep {ρ : Type} (est : List (List Rat) → List Rat → ρ) (b : Nat) (hb : 0 < b)
    (score : List Rat → List Rat → Rat) (p : List Rat → Perturb) (g h w c : Nat)
    (masks : List (List Rat)) (xs ys : List (List Rat)) :
    explain est (some b) score p g h w c masks xs ys = explain est none score p g h w c masks xs ys := by
  unfold explain
  congr 1
  funext x y
  rw [gsa_map_is_estimator est (some b) (by intro b' h; cases h; exact hb),
      gsa_map_is_estimator est none (by intro b' h; cases h)]

/-- two positive batch sizes give the same maps (corollary).  History: before fix b9bc211 the
    implementation's `batch_size=None` did not realise the model's `none` (`batch_tensor(masks, None)`
    yielded single un-batched masks and a g-times too long output vector); the corpus case
    corpus/C08/gsa_batch_size_none.json keeps that input in every run. -/
theorem gsa_bs_indep_pos {ρ : Type} (est : List (List Rat) → List Rat → ρ) (b b' : Nat) (hb : 0 < b)
    (hb' : 0 < b') (score : List Rat → List Rat → Rat) (p : List Rat → Perturb) (g h w c : Nat)
    (masks : List (List Rat)) (xs ys : List (List Rat)) :
    explain est (some b) score p g h w c masks xs ys = explain est (some b') score p g h w c masks xs ys := by
  rw [gsa_bs_indep est b hb, gsa_bs_indep est b' hb']

/-- negation witness for the PRE-FIX behaviour of `batch_size=None` (before commit b9bc211): every
    single mask was paired with `g` repeated targets, so each score appeared `g` times in `outputs`
    (`repeatEach g`); already for `g = 2`, `n = 2` the estimator then sees a constant `A` block and
    returns NaN where the correct outputs give `[1/2, 2]`. -/
theorem gsa_prefix_batch_none_witness :
    Sobol.estimate .jansen (repeatEach 2 [0, 1, 5, 5, 1, 1, 0, 3]) 2 2 = [none, none] ∧
    Sobol.estimate .jansen [0, 1, 5, 5, 1, 1, 0, 3] 2 2 = [some (1 / 2), some 2] := by
  constructor <;> decide +kernel

/-- **gsa_per_sample** — the map of an input depends on that input and its target only -/
theorem gsa_per_sample {ρ : Type} (est : List (List Rat) → List Rat → ρ) (bs : Option Nat)
    (hbs : ∀ b, bs = some b → 0 < b) (score : List Rat → List Rat → Rat) (p : List Rat → Perturb)
    (g h w c : Nat) (masks : List (List Rat)) (xs ys : List (List Rat)) :
    explain est bs score p g h w c masks xs ys
      = List.zipWith (fun x y => specOne est (fun z => score z y) (p x) g h w c masks x) xs ys := by
  unfold explain
  congr 1
  funext x y
  exact gsa_map_is_estimator est bs hbs _ _ g h w c masks x

/-- the mask value seen by pixel `(r, col)` is the value of grid cell
    `(⌊(r+½)·g/H⌋, ⌊(col+½)·g/W⌋)` (clamped) — channel independent -/
theorem query_pixel (g h w c : Nat) (x m : List Rat) (k : Nat) (hk : k < x.length)
    (hkc : k / c < h * w) :
    (query .inpainting g h w c x m).getD k 0
      = x.getD k 0 * m.getD (nearestIdx g h (k / c / w) * g + nearestIdx g w (k / c % w)) 0 := by
  unfold query perturb upsample
  rw [getD_range_map _ _ _ hk]
  simp only []
  rw [getD_range_map _ _ _ hkc]
  ring

example : explainOne (fun _ o => Sobol.estimate .jansen o 2 1) (some 4)
      (fun z => z.getD 0 0 + 2 * z.getD 1 0) .inpainting 1 1 2 1 [[0], [1], [1 / 2], [1 / 4], [1], [1 / 2]] [3, 4]
    = specOne (fun _ o => Sobol.estimate .jansen o 2 1)
      (fun z => z.getD 0 0 + 2 * z.getD 1 0) .inpainting 1 1 2 1 [[0], [1], [1 / 2], [1 / 4], [1], [1 / 2]] [3, 4] := by
  decide +kernel

end Xp.Gsa
