/-
  C11 — wrapping a model changes no result.

  `Wrap.cfOrder` / `Wrap.clOrder` are the axis permutations that `numpy.moveaxis` builds from the axis
  lists GENERATED from xplique/wrappers/pytorch.py; `Wrap.call` is the model of `TorchWrapper.call`;
  `Wrap.inference` the model of the model-type dispatch + `predictions_one_hot_callable`.
  The theorems about index functions hold for every tensor size (index functions carry no bounds).
-/
import XpModel.Wrapper
import XpProofs.Lemmas.Wrapper

namespace Xp.Wrap
open Xp

/-- the permutations that `numpy.moveaxis` derives from the axis lists written in the source -/
theorem moveaxis_orders : cfOrder = [0, 3, 1, 2] ∧ clOrder = [0, 2, 3, 1] := by
  decide +kernel

/-- shapes: (N,H,W,C) ↦ (N,C,H,W) and back, for every N, H, W, C -/
theorem moveaxis_shape (N H W C : Nat) :
    transposeShape cfOrder [N, H, W, C] = [N, C, H, W] ∧
    transposeShape clOrder [N, C, H, W] = [N, H, W, C] := by
  rw [moveaxis_orders.1, moveaxis_orders.2]
  exact ⟨rfl, rfl⟩

/-- **Index law** — cell `(n, c, h, w)` of the tensor handed to the torch module is cell `(n, h, w, c)`
    of the channel-last input, and cell `(n, h, w, c)` of the gradient handed back is cell `(n, c, h, w)` of
    torch's gradient (H and W are not exchanged). -/
theorem moveaxis_index (t u : MIdx → Rat) (n c h w : Nat) :
    toChannelFirstF t [n, c, h, w] = t [n, h, w, c] ∧
    toChannelLastF u [n, h, w, c] = u [n, c, h, w] := by
  unfold toChannelFirstF toChannelLastF transposeF
  rw [moveaxis_orders.1, moveaxis_orders.2]
  exact ⟨rfl, rfl⟩

/-- **Inverse** — the two conversions are inverse to each other on every 4-D index -/
theorem moveaxis_inverse (t u : MIdx → Rat) (a b c d : Nat) :
    toChannelLastF (toChannelFirstF t) [a, b, c, d] = t [a, b, c, d] ∧
    toChannelFirstF (toChannelLastF u) [a, b, c, d] = u [a, b, c, d] := by
  unfold toChannelFirstF toChannelLastF transposeF
  rw [moveaxis_orders.1, moveaxis_orders.2]
  exact ⟨rfl, rfl⟩

/-- **Flat index law** — on row-major buffers `numpy.transpose` puts at the offset of `idx` (in the
    permuted shape) the cell of the source buffer at the offset of `srcIndex order idx` -/
theorem transposeFlat_get (order shape : List Nat) (data : List Rat) (idx : MIdx)
    (h : Valid (transposeShape order shape) idx) :
    (transposeFlat order shape data)[ravel (transposeShape order shape) idx]?
      = some (data.getD (ravel shape (srcIndex order idx)) 0) := by
  unfold transposeFlat
  rw [List.getElem?_map, (allIdx_ravel _ idx h).1]
  rfl

/-- **Flat index law for the two conversions** — on the row-major buffers actually exchanged with
    torch, for every N, H, W, C and every cell inside the box -/
theorem moveaxis_flat (N H W C : Nat) (data : List Rat) (n c h w : Nat)
    (hn : n < N) (hc : c < C) (hh : h < H) (hw : w < W) :
    (transposeFlat cfOrder [N, H, W, C] data)[ravel [N, C, H, W] [n, c, h, w]]?
        = some (data.getD (ravel [N, H, W, C] [n, h, w, c]) 0) ∧
    (transposeFlat clOrder [N, C, H, W] data)[ravel [N, H, W, C] [n, h, w, c]]?
        = some (data.getD (ravel [N, C, H, W] [n, c, h, w]) 0) := by
  constructor
  · have := transposeFlat_get cfOrder [N, H, W, C] data [n, c, h, w]
      (by rw [(moveaxis_shape N H W C).1]; exact ⟨hn, hc, hh, hw, trivial⟩)
    rw [(moveaxis_shape N H W C).1] at this
    rw [this, moveaxis_orders.1]; rfl
  · have := transposeFlat_get clOrder [N, C, H, W] data [n, h, w, c]
      (by rw [(moveaxis_shape N H W C).2]; exact ⟨hn, hh, hw, hc, trivial⟩)
    rw [(moveaxis_shape N H W C).2] at this
    rw [this, moveaxis_orders.2]; rfl

open Finset in
/-- **Wrapper gradient** — the layout permutation is orthogonal: its adjoint is its inverse.  For a score
    that is linear in the module's channel-first input with (torch) gradient `k`,
    `s(x) = ⟨x, k⟩_{NCHW}`, the score seen by the explainer as a function of the channel-last input `a` is
    `⟨a, toChannelLast k⟩_{NHWC}`: the tensor the wrapper returns (`moveaxis(k, [1,2,3], [3,1,2])`) is the
    exact gradient w.r.t. the channel-last input, for every N, H, W, C (H ≠ W included). -/
theorem wrapper_grad (N H W C : Nat) (a k : MIdx → Rat) :
    inner4 N C H W (toChannelFirstF a) k = inner4 N H W C a (toChannelLastF k) := by
  unfold inner4
  apply sum_congr rfl; intro n _
  have e : ∀ c h w, toChannelFirstF a [n, c, h, w] * k [n, c, h, w]
      = a [n, h, w, c] * toChannelLastF k [n, h, w, c] := by
    intro c h w
    rw [(moveaxis_index a k n c h w).1, (moveaxis_index a k n c h w).2]
  simp only [e]
  rw [sum_comm]
  apply sum_congr rfl; intro h _
  rw [sum_comm]

/-- the gradient tensor is determined by the linear functional it represents (so `wrapper_grad`
    identifies THE gradient): two tensors with the same inner product against every `a` agree on the box -/
theorem inner4_unique (d0 d1 d2 d3 : Nat) (g g' : MIdx → Rat)
    (h : ∀ a, inner4 d0 d1 d2 d3 a g = inner4 d0 d1 d2 d3 a g')
    (i j k l : Nat) (hi : i < d0) (hj : j < d1) (hk : k < d2) (hl : l < d3) :
    g [i, j, k, l] = g' [i, j, k, l] := by
  classical
  have key : ∀ t : MIdx → Rat,
      inner4 d0 d1 d2 d3 (fun idx => if idx = [i, j, k, l] then 1 else 0) t = t [i, j, k, l] := by
    intro t
    unfold inner4
    rw [Finset.sum_eq_single i, Finset.sum_eq_single j, Finset.sum_eq_single k, Finset.sum_eq_single l]
    · simp
    · intro b _ hb; simp [hb]
    · intro hh; exact absurd (Finset.mem_range.mpr hl) hh
    · intro b _ hb
      apply Finset.sum_eq_zero; intro x _; simp [hb]
    · intro hh; exact absurd (Finset.mem_range.mpr hk) hh
    · intro b _ hb
      apply Finset.sum_eq_zero; intro x _
      apply Finset.sum_eq_zero; intro y _; simp [hb]
    · intro hh; exact absurd (Finset.mem_range.mpr hj) hh
    · intro b _ hb
      apply Finset.sum_eq_zero; intro x _
      apply Finset.sum_eq_zero; intro y _
      apply Finset.sum_eq_zero; intro z _; simp [hb]
    · intro hh; exact absurd (Finset.mem_range.mpr hi) hh
  have := h (fun idx => if idx = [i, j, k, l] then 1 else 0)
  rwa [key g, key g'] at this

/-- **Conversion decision** — the wrapper converts to channel-first exactly when requested
    (`is_channel_first=True`) or, without request, when the module tree contains a `Conv2d`. -/
theorem conv_detection (flag : Option Bool) (kinds : List Bool) :
    channelFirst flag kinds = true ↔
      (flag = some true ∨ (flag = none ∧ ∃ m ∈ kinds, m = true)) := by
  cases flag with
  | none => simp [channelFirst, hasConvLayers_iff]
  | some b => cases b <;> simp [channelFirst]

/-- without conversion the wrapper hands the input through and the gradient back unchanged; with
    conversion both go through the two permutations of `moveaxis_index` -/
theorem call_layout (m : Module) (x : List Rat) (shape : List Nat) (up : List (List Rat)) :
    (call false m x shape).1 = m.fwd x shape ∧ (call false m x shape).2 up = m.vjp x shape up ∧
    (call true m x shape).1 = m.fwd (transposeFlat cfOrder shape x) (transposeShape cfOrder shape) ∧
    (call true m x shape).2 up
      = transposeFlat clOrder (transposeShape cfOrder shape)
          (m.vjp (transposeFlat cfOrder shape x) (transposeShape cfOrder shape) up) :=
  ⟨rfl, rfl, rfl, rfl⟩

/-! ### callable dispatch -/

/-- **Callable dispatch** — for each of the three call paths of `predictions_one_hot_callable`
    (tflite `invoke`, `predict_proba`, `__call__`; they differ only in how `pred` is obtained) the score of
    sample `n` is `Σ_c pred[n][c]·targets[n][c]`; a 1-D prediction `(N,)` of a single-output model gives
    `pred[n]·targets[n][0]`, for `N ≠ 1` (expand_dims) and `N = 1` (left as a row) alike, i.e. exactly what
    the same values returned as an `(N, 1)` array give. -/
theorem callable_dispatch (n : Nat) :
    (∀ rows ys, Aligned rows ys → oneHotCallable n (.mat rows) ys = List.zipWith dot rows ys) ∧
    (∀ v ys, v.length = n → ys.length = n → (∀ y ∈ ys, y.length = 1) →
        oneHotCallable n (.vec v) ys = List.zipWith (fun p y => p * y.getD 0 0) v ys ∧
        oneHotCallable n (.vec v) ys = oneHotCallable n (.mat (v.map fun p => [p])) ys) := by
  constructor
  · intro rows ys h
    unfold oneHotCallable normalise
    rw [scoresOf_eq_zipWith rows ys h.1, zipWith_rowScore_eq_dot rows ys h]
  · intro v ys hv hys hy
    have hmat : oneHotCallable n (.mat (v.map fun p => [p])) ys
        = List.zipWith (fun p y => p * y.getD 0 0) v ys := by
      unfold oneHotCallable normalise
      rw [scoresOf_eq_zipWith _ _ (by simp [hv, hys])]
      clear hv hys
      induction v generalizing ys with
      | nil => simp
      | cons p v ih =>
        cases ys with
        | nil => simp
        | cons y ys =>
          simp only [List.map_cons, List.zipWith_cons_cons]
          rw [ih ys (fun y' hy' => hy y' (List.mem_cons_of_mem _ hy'))]
          congr 1
          have hy1 := hy y List.mem_cons_self
          match y, hy1 with
          | [t], _ => simp [rowScore]
    refine ⟨?_, ?_⟩
    · by_cases h1 : n = 1
      · subst h1
        match v, ys, hv, hys, hy with
        | [p], [y], _, _, hy =>
          have hy1 := hy y List.mem_cons_self
          match y, hy1 with
          | [t], _ => simp [oneHotCallable, normalise, scoresOf, rowScore]
      · rw [← hmat]
        simp [oneHotCallable, normalise, h1]
    · by_cases h1 : n = 1
      · subst h1
        match v, ys, hv, hys with
        | [p], [y], _, _ => simp [oneHotCallable, normalise]
      · simp [oneHotCallable, normalise, h1]

/-- **Same result for every wrapping** — if the function returns the same `(N, C)` predictions whichever
    way it is handed over (Keras model, tf.Module, Keras layer, tflite interpreter, `predict_proba` object,
    plain callable), the inference function of black-box explainers and metrics returns the same scores. -/
theorem blackbox_same (w w' : Wrapping) (n : Nat) (rows ys : List (List Rat)) :
    inference w n (.mat rows) ys = inference w' n (.mat rows) ys := by
  have : ∀ w, inference w n (.mat rows) ys = scoresOf rows ys := by
    intro w; unfold inference; split <;> rfl
  rw [this w, this w']

/-- the model-type dispatch of `get_inference_function` -/
theorem dispatch_spec (w : Wrapping) :
    usesTfOperator w = true ↔ (w = .keras ∨ w = .tfModule ∨ w = .kerasLayer) := by
  cases w <;> simp [usesTfOperator]

/-- **Batching, 2-D predictions** — for a per-sample model the batched inference function gives, for every
    batch size, `Σ_c f(x)_c·y_c` per sample, whatever the wrapping. -/
theorem inference_bs_indep (w : Wrapping) (f1 : List Rat → List Rat) (bs : Option Nat)
    (hbs : ∀ b, bs = some b → 0 < b) (xys : List (List Rat × List Rat)) :
    batchInference w (fun xs => .mat (xs.map f1)) bs xys = xys.map fun xy => rowScore (f1 xy.1) xy.2 := by
  unfold batchInference
  apply batched_eq_map _ _ _ bs hbs
  intro chunk
  have : inference w chunk.length (.mat ((chunk.map (·.1)).map f1)) (chunk.map (·.2))
      = scoresOf ((chunk.map (·.1)).map f1) (chunk.map (·.2)) := by
    unfold inference; split <;> rfl
  rw [this, scoresOf_eq_zipWith _ _ (by simp)]
  exact zipWith_map_pairs f1 rowScore chunk

/-- **Batching, 1-D predictions** — a single-output model returning `(N,)` through the callable /
    `predict_proba` path gives `f(x)·y₀` per sample for every batch size, including a remainder batch of
    exactly one sample (where the `N ≠ 1` test skips the expand_dims). -/
theorem callable_1d_bs_indep (w : Wrapping) (hw : usesTfOperator w = false) (f1 : List Rat → Rat)
    (bs : Option Nat) (hbs : ∀ b, bs = some b → 0 < b) (xys : List (List Rat × List Rat))
    (hy : ∀ xy ∈ xys, xy.2.length = 1) :
    batchInference w (fun xs => .vec (xs.map f1)) bs xys = xys.map fun xy => f1 xy.1 * xy.2.getD 0 0 := by
  unfold batchInference
  apply batched_eq_map_of_forall (fun xy => xy.2.length = 1) _ _ _ bs hbs xys hy
  intro chunk hchunk
  have hinf : inference w chunk.length (.vec ((chunk.map (·.1)).map f1)) (chunk.map (·.2))
      = oneHotCallable chunk.length (.vec ((chunk.map (·.1)).map f1)) (chunk.map (·.2)) := by
    unfold inference; rw [hw]; rfl
  rw [hinf, ((callable_dispatch chunk.length).2 _ _ (by simp) (by simp) (by
    intro y hy'
    obtain ⟨xy, hxy, rfl⟩ := List.mem_map.mp hy'
    exact hchunk xy hxy)).1]
  exact zipWith_map_pairs f1 (fun p y => p * y.getD 0 0) chunk

-- non-vacuity
example : moveaxisOrder 4 [3, 1, 2] [1, 2, 3] = [0, 3, 1, 2] := by decide +kernel
example : transposeFlat cfOrder [1, 2, 3, 2] [0, 1, 2, 3, 4, 5, 6, 7, 8, 9, 10, 11]
    = [0, 2, 4, 6, 8, 10, 1, 3, 5, 7, 9, 11] := by decide +kernel
example : transposeFlat clOrder [1, 2, 2, 3] (transposeFlat cfOrder [1, 2, 3, 2] [0, 1, 2, 3, 4, 5, 6, 7, 8, 9, 10, 11])
    = [0, 1, 2, 3, 4, 5, 6, 7, 8, 9, 10, 11] := by decide +kernel
example : oneHotCallable 3 (.vec [1, 2, 3]) [[2], [2], [-1]] = [2, 4, -3]
    ∧ oneHotCallable 1 (.vec [5]) [[2]] = [10]
    ∧ oneHotCallable 2 (.mat [[1, 2], [3, 4]]) [[1, 0], [0, 1]] = [1, 4] := by decide +kernel
example : channelFirst none [false, true, false] = true ∧ channelFirst (some false) [true] = false := by
  decide

end Xp.Wrap
