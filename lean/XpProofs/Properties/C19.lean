/-
  C19 — feature-visualisation objectives combine linearly and without side effects.

  Model: XpModel/Objective.lean (heap of Objective objects, operators, compile, product,
  value rescaling of the image parametrisations).  The theorems are about the REPAIRED code
  (fix commits in /repo); the `Witness` theorems show that the behaviour before the fixes
  violates the property (they are what a regression of the fixes would re-introduce).
-/
import XpModel.Objective
import XpProofs.Lemmas.Vec
import Mathlib.Tactic.Ring
import Mathlib.Tactic.Linarith
import Mathlib.Tactic.FieldSimp
import Mathlib.Tactic.Positivity
import Mathlib.Algebra.Order.Field.Rat

namespace Xp.Obj

/-! ### operators are pure -/

theorem run_length (h : List ObjVal) (prog : List Stmt) : (run h prog).length = h.length + prog.length := by
  induction prog generalizing h with
  | nil => simp [run]
  | cons s prog ih =>
    simp only [run, List.foldl_cons] at ih ⊢
    rw [ih (step h s)]; simp [step]; omega

/-- **`+`, `-`, `*` do not modify their operands**: whatever expression-building program is run,
    every object that existed before still has the same sub-objectives and multipliers. -/
theorem operators_pure (h : List ObjVal) (prog : List Stmt) (i : Nat) (hi : i < h.length) :
    (run h prog)[i]? = h[i]? := by
  induction prog generalizing h with
  | nil => rfl
  | cons s prog ih =>
    simp only [run, List.foldl_cons] at ih ⊢
    rw [ih (step h s) (by simp [step]; omega)]
    simp [step, List.getElem?_append_left hi]

private theorem getD_run (h : List ObjVal) (prog : List Stmt) (i : Nat) (hi : i < h.length) :
    (run h prog).getD i [] = h.getD i [] := by
  simp [List.getD_eq_getElem?_getD, operators_pure h prog i hi]

/-- **building the same expression twice yields the same objective**: an operator applied to
    the same operands gives the same value, whatever was built in between. -/
theorem build_twice_same (h : List ObjVal) (prog : List Stmt) (s : Stmt) (hs : s.valid h.length = true) :
    opValue (run h prog) s = opValue h s := by
  cases s with
  | add i j =>
    simp only [Stmt.valid, Bool.and_eq_true, decide_eq_true_eq] at hs
    simp only [opValue]; rw [getD_run h prog i hs.1, getD_run h prog j hs.2]
  | sub i j =>
    simp only [Stmt.valid, Bool.and_eq_true, decide_eq_true_eq] at hs
    simp only [opValue]; rw [getD_run h prog i hs.1, getD_run h prog j hs.2]
  | mul i c =>
    simp only [Stmt.valid, decide_eq_true_eq] at hs
    simp only [opValue]; rw [getD_run h prog i hs]

/-! ### the compiled loss is linear -/

/-- reference: `Σ_k m_k · L a_k t_k` over the sub-objectives paired with their targets -/
def linSpec (L : Nat → Nat → Rat) : ObjVal → List Nat → Rat
  | [], _ => 0
  | _ :: _, [] => 0
  | (a, m) :: o, t :: c => m * L a t + linSpec L o c

private theorem lossGo_eq (L : Nat → Nat → Rat) (k : Nat) (o : ObjVal) (c : List Nat) (acc : Rat) :
    lossGo L k o c acc = acc + linSpec L o c := by
  induction o generalizing k c acc with
  | nil => simp [lossGo, linSpec]
  | cons p o ih =>
    obtain ⟨a, m⟩ := p
    cases c with
    | nil => simp [lossGo, linSpec]
    | cons t c => simp only [lossGo, linSpec]; rw [ih]; ring

/-- **compile** — the compiled objective of row/combination `c` is `Σ_i m_i · loss_i` -/
theorem compile_is_weighted_sum (o : ObjVal) (L : Nat → Nat → Rat) (c : List Nat) :
    lossAt o L c = linSpec L o c := by
  unfold lossAt; rw [lossGo_eq]; ring

theorem linSpec_append (L : Nat → Nat → Rat) (o1 o2 : ObjVal) (c : List Nat) :
    linSpec L (o1 ++ o2) c = linSpec L o1 (c.take o1.length) + linSpec L o2 (c.drop o1.length) := by
  induction o1 generalizing c with
  | nil => simp [linSpec]
  | cons p o1 ih =>
    obtain ⟨a, m⟩ := p
    cases c with
    | nil => cases o2 <;> simp [linSpec]
    | cons t c => simp only [List.cons_append, linSpec, List.length_cons, List.take_succ_cons,
        List.drop_succ_cons]; rw [ih]; ring

theorem linSpec_scale (L : Nat → Nat → Rat) (k : Rat) (o : ObjVal) (c : List Nat) :
    linSpec L (scale k o) c = k * linSpec L o c := by
  induction o generalizing c with
  | nil => simp [scale, linSpec]
  | cons p o ih =>
    obtain ⟨a, m⟩ := p
    cases c with
    | nil => simp [scale, linSpec]
    | cons t c =>
      have := ih c
      simp only [scale, List.map_cons, linSpec] at this ⊢
      rw [this]; ring

def leaves : Expr → Nat
  | .atom _ => 1
  | .add x y => leaves x + leaves y
  | .sub x y => leaves x + leaves y
  | .smul _ x => leaves x

/-- the linear combination denoted by an expression, evaluated on a combination of targets
    (one target per atom occurrence, left to right) -/
def evalLin (L : Nat → Nat → Rat) : Expr → List Nat → Rat
  | .atom _, [] => 0
  | .atom a, t :: _ => L a t
  | .add x y, c => evalLin L x (c.take (leaves x)) + evalLin L y (c.drop (leaves x))
  | .sub x y, c => evalLin L x (c.take (leaves x)) - evalLin L y (c.drop (leaves x))
  | .smul k x, c => k * evalLin L x c

theorem denote_length (e : Expr) : (denote e).length = leaves e := by
  induction e with
  | atom a => rfl
  | add x y ihx ihy => simp [denote, leaves, ihx, ihy]
  | sub x y ihx ihy => simp [denote, leaves, scale, ihx, ihy]
  | smul k x ih => simp [denote, leaves, scale, ih]

/-- **C19 main theorem (linearity)** — for every expression built with `+`, `-`, scalar `*`
    (any nesting, any real coefficients, repeated atoms) and every combination of targets, the
    compiled loss equals the same linear combination of the atoms' own losses. -/
theorem compile_linear (L : Nat → Nat → Rat) (e : Expr) (c : List Nat) :
    lossAt (denote e) L c = evalLin L e c := by
  rw [compile_is_weighted_sum]
  induction e generalizing c with
  | atom a => cases c <;> simp [denote, linSpec, evalLin]
  | add x y ihx ihy =>
    simp only [denote, evalLin]; rw [linSpec_append, denote_length, ihx, ihy]
  | sub x y ihx ihy =>
    simp only [denote, evalLin]; rw [linSpec_append, denote_length, linSpec_scale, ihx, ihy]; ring
  | smul k x ih =>
    simp only [denote, evalLin]; rw [linSpec_scale, ih]

/-! ### optimised inputs = Cartesian product of the targets -/

private theorem flatMap_blocks {α : Type} (n w : Nat) (f : Nat → List α) (hf : ∀ t, (f t).length = w)
    (r : Nat) (hr : r < n * w) :
    ((List.range n).flatMap f)[r]? = (f (r / w))[r % w]? := by
  induction n with
  | zero => simp at hr
  | succ n ih =>
    have hw : 0 < w := by
      rcases Nat.eq_zero_or_pos w with h | h
      · subst h; simp at hr
      · exact h
    have hlen : ((List.range n).flatMap f).length = n * w := by
      clear ih hr
      induction n with
      | zero => simp
      | succ n ihn => rw [List.range_succ, List.flatMap_append, List.length_append, ihn]; simp [hf]; ring
    rw [List.range_succ, List.flatMap_append]
    by_cases h : r < n * w
    · rw [List.getElem?_append_left (by omega)]; exact ih h
    · rw [List.getElem?_append_right (by omega)]
      simp only [List.flatMap_cons, List.flatMap_nil, List.append_nil, hlen]
      have h1 : r / w = n := by
        apply Nat.div_eq_of_lt_le
        · omega
        · rw [Nat.succ_mul] at hr ⊢; omega
      have h2 : r % w = r - n * w := by
        rw [Nat.mod_eq_sub_div_mul, h1]
      rw [h1, h2]

theorem product_length (ns : List Nat) : (product ns).length = prodN ns := by
  induction ns with
  | nil => rfl
  | cons n ns ih =>
    simp only [product, prodN]
    have : ∀ m, ((List.range m).flatMap fun t => (product ns).map fun rest => t :: rest).length = m * prodN ns := by
      intro m
      induction m with
      | zero => simp
      | succ m ihm => rw [List.range_succ, List.flatMap_append, List.length_append, ihm]; simp [ih]; ring
    exact this n

/-- **the optimised inputs are the Cartesian product of the sub-objectives' targets, in
    `itertools.product` order**: there are `Π n_i` of them and the `r`-th one targets the
    mixed-radix digits of `r` (last sub-objective varies fastest). -/
theorem product_names_masks (ns : List Nat) (r : Nat) (hr : r < prodN ns) :
    (product ns)[r]? = some (digits ns r) := by
  induction ns generalizing r with
  | nil => simp [prodN] at hr; subst hr; rfl
  | cons n ns ih =>
    simp only [product, digits, prodN] at hr ⊢
    rw [flatMap_blocks n (prodN ns) _ (by intro t; simp [product_length]) r hr]
    have hw : 0 < prodN ns := by
      rcases Nat.eq_zero_or_pos (prodN ns) with h | h
      · rw [h] at hr; simp at hr
      · exact h
    simp [ih (r % prodN ns) (Nat.mod_lt _ hw)]

/-! ### image parametrisations stay inside the requested range -/

private theorem foldl_min_le (xs : List Rat) (x : Rat) :
    xs.foldl ratMin x ≤ x ∧ (∀ v ∈ xs, xs.foldl ratMin x ≤ v) ∧ (xs.foldl ratMin x = x ∨ xs.foldl ratMin x ∈ xs) := by
  induction xs generalizing x with
  | nil => simp
  | cons y ys ih =>
    simp only [List.foldl_cons]
    obtain ⟨h1, h2, h3⟩ := ih (ratMin x y)
    have hm1 : ratMin x y ≤ x := by unfold ratMin; split <;> linarith
    have hm2 : ratMin x y ≤ y := by unfold ratMin; split <;> linarith
    refine ⟨le_trans h1 hm1, ?_, ?_⟩
    · intro v hv
      rcases List.mem_cons.mp hv with rfl | hv
      · exact le_trans h1 hm2
      · exact h2 v hv
    · rcases h3 with h3 | h3
      · by_cases hxy : x ≤ y
        · left; rw [h3]; simp [ratMin, hxy]
        · right; rw [h3]; simp [ratMin, hxy]
      · right; exact List.mem_cons_of_mem _ h3

private theorem foldl_max_ge (xs : List Rat) (x : Rat) :
    x ≤ xs.foldl ratMax x ∧ (∀ v ∈ xs, v ≤ xs.foldl ratMax x) ∧ (xs.foldl ratMax x = x ∨ xs.foldl ratMax x ∈ xs) := by
  induction xs generalizing x with
  | nil => simp
  | cons y ys ih =>
    simp only [List.foldl_cons]
    obtain ⟨h1, h2, h3⟩ := ih (ratMax x y)
    have hm1 : x ≤ ratMax x y := by unfold ratMax; split <;> linarith
    have hm2 : y ≤ ratMax x y := by unfold ratMax; split <;> linarith
    refine ⟨le_trans hm1 h1, ?_, ?_⟩
    · intro v hv
      rcases List.mem_cons.mp hv with rfl | hv
      · exact le_trans hm2 h1
      · exact h2 v hv
    · rcases h3 with h3 | h3
      · by_cases hxy : x ≤ y
        · right; rw [h3]; simp [ratMax, hxy]
        · left; rw [h3]; simp [ratMax, hxy]
      · right; exact List.mem_cons_of_mem _ h3

/-- **value range** — whatever the normaliser produced (sigmoid, clip, a callable), the rescaled
    image lies inside `[lo, hi]` and attains both bounds (the code divides by `max − min`; a
    constant image is the `none` branch = NaN in the implementation). -/
theorem valid_range (lo hi : Rat) (hlh : lo < hi) (img out : List Rat) (h : toValid lo hi img = some out) :
    (∀ v ∈ out, lo ≤ v ∧ v ≤ hi) ∧ lo ∈ out ∧ hi ∈ out ∧ out.length = img.length := by
  cases img with
  | nil => simp [toValid, listMin] at h
  | cons x xs =>
    simp only [toValid, listMin, listMax] at h
    split at h
    · simp at h
    · rename_i hne
      obtain ⟨a1, a2, a3⟩ := foldl_min_le xs x
      obtain ⟨b1, b2, b3⟩ := foldl_max_ge xs x
      set mn := xs.foldl ratMin x with hmn
      set mx := xs.foldl ratMax x with hmx
      have hle : mn ≤ mx := le_trans a1 b1
      have hpos : 0 < mx - mn := lt_of_le_of_ne (by linarith) (Ne.symm hne)
      have hmn_mem : mn ∈ x :: xs := by
        rcases a3 with h3 | h3
        · rw [h3]; exact List.mem_cons_self
        · exact List.mem_cons_of_mem _ h3
      have hmx_mem : mx ∈ x :: xs := by
        rcases b3 with h3 | h3
        · rw [h3]; exact List.mem_cons_self
        · exact List.mem_cons_of_mem _ h3
      injection h with h
      subst h
      refine ⟨?_, ?_, ?_, by simp⟩
      · intro v hv
        obtain ⟨u, hu, rfl⟩ := List.mem_map.mp hv
        have hu1 : mn ≤ u := by
          rcases List.mem_cons.mp hu with rfl | hu
          · exact a1
          · exact a2 u hu
        have hu2 : u ≤ mx := by
          rcases List.mem_cons.mp hu with rfl | hu
          · exact b1
          · exact b2 u hu
        have hfrac0 : 0 ≤ (u - mn) / (mx - mn) := div_nonneg (by linarith) (le_of_lt hpos)
        have hfrac1 : (u - mn) / (mx - mn) ≤ 1 := by rw [div_le_one hpos]; linarith
        constructor
        · nlinarith
        · nlinarith
      · exact List.mem_map.mpr ⟨mn, hmn_mem, by simp⟩
      · refine List.mem_map.mpr ⟨mx, hmx_mem, ?_⟩
        rw [div_self (ne_of_gt hpos)]; ring

/-- MaCo: `sigmoid · (hi − lo) + lo` is strictly inside the range (only `0 < σ < 1` is used) -/
theorem maco_range (lo hi s : Rat) (hlh : lo < hi) (h0 : 0 < s) (h1 : s < 1) :
    lo < macoTail lo hi s ∧ macoTail lo hi s < hi := by
  unfold macoTail; constructor <;> nlinarith

/-- **requested shape** — for every square size (odd or even) the inverse real FFT returns at
    least `s` columns, so the crop `[:, :s, :s, :]` yields exactly `(batch, s, s, channels)`. -/
theorem fft_shape (s : Nat) (hs : 0 < s) : s ≤ irfftWidth (fftCols s) := by
  unfold irfftWidth fftCols Gen.fftColsGen Gen.fftCutOff
  rw [Int.fdiv_eq_ediv_of_nonneg _ (by decide : (0 : Int) ≤ 2),
      Int.fmod_eq_emod_of_nonneg _ (by decide : (0 : Int) ≤ 2)]
  split <;> omega

/-- the generated column count is the documented `s/2 + 1 (+1 for odd s)` -/
theorem fft_cols_spec (s : Nat) : fftCols s = s / 2 + 1 + (if s % 2 = 1 then 1 else 0) := by
  unfold fftCols Gen.fftColsGen Gen.fftCutOff
  rw [Int.fdiv_eq_ediv_of_nonneg _ (by decide : (0 : Int) ≤ 2),
      Int.fmod_eq_emod_of_nonneg _ (by decide : (0 : Int) ≤ 2)]
  split <;> split <;> omega

/-! ### negation witnesses: the behaviour before the fix commits violates the property -/

/-- before the fix `2 * o` rescaled `o` itself (and returned it) -/
theorem Witness.mul_mutates : stepOld [[(0, 1)]] (.mul 0 2) = [[(0, 2)]] := by decide +kernel

/-- before the fix `a - b` negated the multipliers of `b` -/
theorem Witness.sub_mutates :
    (stepOld [[(0, 1)], [(1, 3)]] (.sub 0 1))[1]? = some [((1 : Nat), (-3 : Rat))] := by decide +kernel

/-- before the fix `compile` computed `((2·l₀ + … )·3 + …)·5`: multipliers `[2,3,5]` on unit
    losses gave 50 where the weighted sum is 10 -/
theorem Witness.compile_horner :
    lossAtOld [(0, 2), (1, 3), (2, 5)] (fun _ _ => 1) [0, 0, 0] = 50 ∧
    lossAt [(0, 2), (1, 3), (2, 5)] (fun _ _ => 1) [0, 0, 0] = 10 := by decide +kernel

/-- what the old `compile` did satisfy: it is right for a single sub-objective -/
theorem compile_old_partial (a : Nat) (m : Rat) (L : Nat → Nat → Rat) (t : Nat) :
    lossAtOld [(a, m)] L [t] = lossAt [(a, m)] L [t] := by
  simp [lossAtOld, lossAt, lossGoOld, lossGo]; ring

-- non-vacuity
example : product [2, 3] = [[0,0],[0,1],[0,2],[1,0],[1,1],[1,2]] := by decide
example : denote (.sub (.smul 2 (.atom 0)) (.smul 3 (.atom 1))) = [(0, 2), (1, -3)] := by decide +kernel
example : toValid (-1) 3 [1/2, 1/4, 3/4] = some [1, -1, 3] := by decide +kernel
example : run [[(0,1)],[(1,1)]] [.mul 0 2, .sub 2 1] = [[(0,1)],[(1,1)],[(0,2)],[(0,2),(1,-1)]] := by decide +kernel

end Xp.Obj
