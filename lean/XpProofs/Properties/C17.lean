/-
  C17 — counterfactual / semi-factual searches honour class constraints and are nearest.

  `TopK.filterKnnOne` / `cfImpl` model `FilterKNN.kneighbors` with the counterfactual filters,
  `TopK.kleorOne` models `BaseKLEORSearch.kneighbors` (NUN search, then ranking by distance to the
  NUN, GlobalSim's strict closer-than-NUN mask).  As for C16 every theorem holds for all dataset
  sizes, batch sizes, `k`, label assignments and every sort (tie order unspecified), except the two
  `…_stable` theorems, which are about the model's stable sort (ties: `tf.argsort` keeps the
  earlier column first, so the initial `(-1,-1)` columns win against masked cases).
-/
import XpModel.FilterKnn
import XpProofs.Lemmas.FilterKnn
import XpProofs.Properties.C16

namespace Xp.TopK
variable {γ : Type}

-- ---------------------------------------------------------------------------------------------
-- FilterKNN: NaiveCounterFactuals / LabelAwareCounterFactuals
-- ---------------------------------------------------------------------------------------------
/-- **Sound** — a returned column with a finite distance carries the index of an ADMISSIBLE case
    and that case's true distance -/
theorem filter_sound {sort : List (Entry Idx) → List (Entry Idx)} (hsort : IsSort entryLe sort)
    (k bsz : Nat) (key : γ → Dist) (adm : γ → Bool) (cases : List γ) :
    ∀ e ∈ filterKnnOne sort k bsz key adm cases, e.key ≠ none →
      ∃ bi p c, e.val = some (bi, p) ∧ gather (batches bsz cases) (some (bi, p)) = some c ∧
        adm c = true ∧ e.key = key c := by
  intro e he hne
  rcases knn_pairs_valid hsort k bsz _ cases e he with ⟨_, hk⟩ | ⟨bi, p, c, hv, hg, hk⟩
  · exact absurd hk hne
  · rw [hk] at hne
    obtain ⟨ha, hm⟩ := maskKey_ne_none hne
    exact ⟨bi, p, c, hv, hg, ha, by rw [hk, hm]⟩

/-- **Nearest** — an admissible case whose index is not returned is at least as far as every
    returned column -/
theorem filter_nearest {sort : List (Entry Idx) → List (Entry Idx)} (hsort : IsSort entryLe sort)
    (k bsz : Nat) (key : γ → Dist) (adm : γ → Bool) (cases : List γ) (bi p : Nat) (c : γ)
    (hg : gather (batches bsz cases) (some (bi, p)) = some c) (hadm : adm c = true)
    (hnot : ∀ e ∈ filterKnnOne sort k bsz key adm cases, e.val ≠ some (bi, p)) :
    ∀ r ∈ filterKnnOne sort k bsz key adm cases, dle r.key (key c) = true := by
  intro r hr
  have := knn_nearest hsort k bsz (fun c => maskKey (adm c) (key c)) cases bi p c hg hnot r hr
  simpa [hadm, maskKey_true] using this

/-- **Fill** — the number of slots with a finite distance is `min k (number of admissible cases)`;
    every other slot carries `+inf` (classes with fewer than `k` members, or none) -/
theorem filter_fill {sort : List (Entry Idx) → List (Entry Idx)} (hsort : IsSort entryLe sort)
    (k bsz : Nat) (hb : 0 < bsz) (key : γ → Dist) (adm : γ → Bool) (cases : List γ) :
    List.countP (fun e => e.key.isSome) (filterKnnOne sort k bsz key adm cases)
      = min k (List.countP (fun c => adm c && (key c).isSome) cases) := by
  unfold filterKnnOne
  rw [knn_finite_count hsort k bsz hb _ cases]
  congr 2
  funext c
  exact maskKey_isSome _ _

/-- distances of the filtered search = the `k` smallest distances of the admissible cases -/
theorem filter_keys {sort : List (Entry Idx) → List (Entry Idx)} (hsort : IsSort entryLe sort)
    (k bsz : Nat) (hb : 0 < bsz) (key : γ → Dist) (adm : γ → Bool) (cases : List γ) :
    (filterKnnOne sort k bsz key adm cases).map (·.key) = smallestKeys k ((cases.filter adm).map key) := by
  unfold filterKnnOne
  rw [knn_keys hsort k bsz hb _ cases, smallestKeys_masked]

/-- **C17 refinement (counterfactuals)** — for the naive and the label-aware filter, every
    projection, distance, `k`, batch size and sort: the distances returned by the batched
    implementation model are the reference distances (the `k` nearest admissible cases, padded
    with `+inf`) -/
theorem cf_impl_eq_spec {sort : List (Entry Idx) → List (Entry Idx)} (hsort : IsSort entryLe sort)
    (f : Filter) (P : Proj) (dk : DistKind) (k : Nat) (bs : Option Nat) (hbs : ∀ b, bs = some b → 0 < b)
    (cases queries : List Sample) (refs : List (List Rat)) (hne : cases ≠ []) :
    (cfImpl sort f P dk k bs cases queries refs).map (fun r => r.map (·.key))
      = cfSpec f P dk k cases queries refs := by
  unfold cfImpl cfSpec
  rw [List.map_zipWith]
  congr 1
  funext q r
  exact filter_keys hsort k _ (effBs_pos bs hbs _ (List.length_pos_iff.mpr hne)) _ _ cases

/-- the returned distances do not depend on the batch size -/
theorem filter_batching_indep {sort : List (Entry Idx) → List (Entry Idx)} (hsort : IsSort entryLe sort)
    (f : Filter) (P : Proj) (dk : DistKind) (k b : Nat) (hb : 0 < b)
    (cases queries : List Sample) (refs : List (List Rat)) (hne : cases ≠ []) :
    (cfImpl sort f P dk k (some b) cases queries refs).map (fun r => r.map (·.key))
      = (cfImpl sort f P dk k none cases queries refs).map (fun r => r.map (·.key)) := by
  rw [cf_impl_eq_spec hsort f P dk k (some b) (by intro b' h; cases h; exact hb) cases queries refs hne,
      cf_impl_eq_spec hsort f P dk k none (by intro b' h; cases h) cases queries refs hne]

/-- the filters are what the property says: naive = another class, label-aware = the requested class -/
theorem filter_classes (ref c : Nat) :
    (admissible .naive ref c = true ↔ ref ≠ c) ∧ (admissible .labelAware ref c = true ↔ ref = c) ∧
    (admissible .kleorSame ref c = true ↔ ref = c) ∧ (admissible .kleorNun ref c = true ↔ ref ≠ c) := by
  simp [admissible]

-- ---------------------------------------------------------------------------------------------
-- KLEOR
-- ---------------------------------------------------------------------------------------------
/-- the NUN column found by `_get_nuns` -/
def nunOf (sortI : List (Entry Idx) → List (Entry Idx)) (bsz : Nat) (dq : γ → Dist) (same : γ → Bool)
    (cases : List γ) : Entry Idx :=
  (filterKnnOne sortI 1 bsz dq (fun c => !same c) cases).headD ⟨none, none⟩

/-- the gathered NUN (`none`: the `inf` fill) -/
def nunCaseOf (sortI : List (Entry Idx) → List (Entry Idx)) (bsz : Nat) (dq : γ → Dist)
    (same : γ → Bool) (cases : List γ) : Option γ :=
  gather (batches bsz cases) (nunOf sortI bsz dq same cases).val

def dnOf (dist : γ → γ → Dist) (nunCase : Option γ) : γ → Dist := fun c =>
  match nunCase with
  | none => none
  | some v => dist v c

/-- the semi-factual candidates: same class as the query; GlobalSim: strictly closer than the NUN -/
def cand (glob : Bool) (dq : γ → Dist) (same : γ → Bool) (nunKey : Dist) (c : γ) : Bool :=
  same c && (!glob || dlt (dq c) nunKey)

private theorem kleorOne_nun (glob : Bool) (sortI : List (Entry Idx) → List (Entry Idx))
    (sortK : List KEntry → List KEntry) (k bsz : Nat) (dist : γ → γ → Dist) (dq : γ → Dist)
    (same : γ → Bool) (cases : List γ) :
    (kleorOne glob sortI sortK k bsz dist dq same cases).nun = nunOf sortI bsz dq same cases := rfl

private theorem kleorOne_res (glob : Bool) (sortI : List (Entry Idx) → List (Entry Idx))
    (sortK : List KEntry → List KEntry) (k bsz : Nat) (dist : γ → γ → Dist) (dq : γ → Dist)
    (same : γ → Bool) (cases : List γ) :
    (kleorOne glob sortI sortK k bsz dist dq same cases).res =
      run sortK k (kfills k) (allBatchEntries
        (kleorEntry glob dq (dnOf dist (nunCaseOf sortI bsz dq same cases)) same
          (nunOf sortI bsz dq same cases).key) bsz cases) := rfl

private theorem nun_singleton {sortI : List (Entry Idx) → List (Entry Idx)} (hsort : IsSort entryLe sortI)
    (bsz : Nat) (dq : γ → Dist) (same : γ → Bool) (cases : List γ) :
    filterKnnOne sortI 1 bsz dq (fun c => !same c) cases = [nunOf sortI bsz dq same cases] := by
  have hl : (filterKnnOne sortI 1 bsz dq (fun c => !same c) cases).length = 1 :=
    knn_length hsort 1 bsz _ cases
  obtain ⟨a, ha⟩ := List.length_eq_one_iff.mp hl
  unfold nunOf; rw [ha]; rfl

/-- **NUN** — the NUN's distance is the smallest distance of a case of another class (`+inf` when
    the dataset has no other class); no unlike case is closer; a finite NUN distance comes with the
    index of an unlike case at exactly that distance -/
theorem kleor_nun_spec {sortI : List (Entry Idx) → List (Entry Idx)} (hsort : IsSort entryLe sortI)
    (bsz : Nat) (hb : 0 < bsz) (dq : γ → Dist) (same : γ → Bool) (cases : List γ) :
    (nunOf sortI bsz dq same cases).key = nunSpecKey dq same cases ∧
    (∀ c ∈ cases, same c = false → dle (nunOf sortI bsz dq same cases).key (dq c) = true) ∧
    ((nunOf sortI bsz dq same cases).key ≠ none → ∃ bi p c,
        (nunOf sortI bsz dq same cases).val = some (bi, p) ∧
        gather (batches bsz cases) (some (bi, p)) = some c ∧ same c = false ∧
        (nunOf sortI bsz dq same cases).key = dq c) := by
  have hs := nun_singleton hsort bsz dq same cases
  have hmem : nunOf sortI bsz dq same cases ∈ filterKnnOne sortI 1 bsz dq (fun c => !same c) cases := by
    rw [hs]; exact List.mem_singleton.mpr rfl
  refine ⟨?_, ?_, ?_⟩
  · have hk := filter_keys hsort 1 bsz hb dq (fun c => !same c) cases
    rw [hs] at hk
    unfold nunSpecKey
    rw [← hk]; rfl
  · intro c hc hsame
    obtain ⟨bi, p, hg⟩ := exists_gather bsz hb cases c hc
    by_cases hv : (nunOf sortI bsz dq same cases).val = some (bi, p)
    · -- the NUN is this very case
      rcases knn_pairs_valid hsort 1 bsz _ cases _ hmem with ⟨hv', _⟩ | ⟨bi', p', c', hv', hg', hk'⟩
      · rw [hv'] at hv; cases hv
      · rw [hv'] at hv
        have hbp : (bi', p') = (bi, p) := Option.some.inj hv
        rw [hbp] at hg'
        rw [hg'] at hg
        have hcc : c' = c := Option.some.inj hg
        rw [hk', hcc]
        simp only [hsame, Bool.not_false, maskKey_true]
        exact dle_totalPre.refl _
    · have hnot : ∀ e ∈ filterKnnOne sortI 1 bsz dq (fun c => !same c) cases, e.val ≠ some (bi, p) := by
        intro e he; rw [hs] at he; rw [List.mem_singleton.mp he]; exact hv
      exact filter_nearest hsort 1 bsz dq (fun c => !same c) cases bi p c hg (by simp [hsame]) hnot _ hmem
  · intro hne
    obtain ⟨bi, p, c, hv, hg, ha, hk⟩ := filter_sound hsort 1 bsz dq (fun c => !same c) cases _ hmem hne
    exact ⟨bi, p, c, hv, hg, by simpa using ha, hk⟩

/-- the sort key of a KLEOR column: the distance to the NUN, masked unless the case is a candidate -/
private theorem kleorEntry_key (glob : Bool) (dq dn : γ → Dist) (same : γ → Bool) (nunKey : Dist)
    (c : γ) (bi p : Nat) :
    (kleorEntry glob dq dn same nunKey c bi p).key = maskKey (cand glob dq same nunKey c) (dn c) := by
  unfold kleorEntry cand
  cases hs : same c <;> cases glob <;> simp [maskKey, dlt, dle]

/-- the carried query distance of a KLEOR column -/
private theorem kleorEntry_carried (glob : Bool) (dq dn : γ → Dist) (same : γ → Bool) (nunKey : Dist)
    (c : γ) (bi p : Nat) :
    (kleorEntry glob dq dn same nunKey c bi p).val
      = (maskKey (cand glob dq same nunKey c) (dq c), some (bi, p)) := by
  unfold kleorEntry cand
  cases hs : same c <;> cases glob <;> simp [maskKey, dlt, dle]

/-- everything the KLEOR loop sees -/
def kleorSeen (glob : Bool) (k : Nat) (dq dn : γ → Dist) (same : γ → Bool) (nunKey : Dist) (bsz : Nat)
    (cases : List γ) : List KEntry :=
  kfills k ++ allE (kleorEntry glob dq dn same nunKey) bsz cases

/-- the KLEOR loop (for ANY NUN distance / NUN vector handed to it) -/
def kleorRun (glob : Bool) (sortK : List KEntry → List KEntry) (k bsz : Nat) (dq dn : γ → Dist)
    (same : γ → Bool) (nunKey : Dist) (cases : List γ) : List KEntry :=
  run sortK k (kfills k) (allBatchEntries (kleorEntry glob dq dn same nunKey) bsz cases)

theorem kleor_topk {sortK : List KEntry → List KEntry} (hsort : IsSort entryLe sortK) (glob : Bool)
    (k bsz : Nat) (dq dn : γ → Dist) (same : γ → Bool) (nunKey : Dist) (cases : List γ) :
    IsTopK entryLe k (kleorSeen glob k dq dn same nunKey bsz cases)
      (kleorRun glob sortK k bsz dq dn same nunKey cases) := by
  unfold kleorRun kleorSeen allE
  refine run_isTopK entryLe_totalPre hsort _ (isTopK_init ?_ (by simp [kfills]))
  unfold kfills; rw [List.pairwise_replicate]; right; rfl

/-- **SimMiss / GlobalSim, soundness** — a returned column with a finite distance-to-NUN is a case
    of the query's class (GlobalSim: STRICTLY closer to the query than the NUN), its key is its
    distance to the NUN and the distance reported along with it is its true distance to the query -/
theorem kleor_sound {sortK : List KEntry → List KEntry} (hsort : IsSort entryLe sortK) (glob : Bool)
    (k bsz : Nat) (dq dn : γ → Dist) (same : γ → Bool) (nunKey : Dist) (cases : List γ) :
    ∀ e ∈ kleorRun glob sortK k bsz dq dn same nunKey cases, e.key ≠ none →
      ∃ bi p c, e.val.2 = some (bi, p) ∧ gather (batches bsz cases) (some (bi, p)) = some c ∧
        same c = true ∧ (glob = true → dlt (dq c) nunKey = true) ∧ e.key = dn c ∧ e.val.1 = dq c := by
  intro e he hne
  have hm := (kleor_topk hsort glob k bsz dq dn same nunKey cases).mem he
  rcases List.mem_append.mp hm with h | h
  · have := List.eq_of_mem_replicate h
    subst this; exact absurd rfl hne
  · obtain ⟨bi, p, c, hg, rfl⟩ := (mem_allE _ _ _ _).mp h
    rw [kleorEntry_key] at hne
    obtain ⟨hc, hm'⟩ := maskKey_ne_none hne
    refine ⟨bi, p, c, by rw [kleorEntry_carried], hg, ?_, ?_, by rw [kleorEntry_key, hm'], ?_⟩
    · unfold cand at hc; simp only [Bool.and_eq_true] at hc; exact hc.1
    · intro hgl
      unfold cand at hc; simp only [Bool.and_eq_true, hgl, Bool.not_true, Bool.false_or] at hc; exact hc.2
    · rw [kleorEntry_carried, hc]; rfl

/-- GlobalSim is strict: a case at exactly the NUN's distance from the query is never returned -/
theorem kleor_globalsim_strict {sortK : List KEntry → List KEntry} (hsort : IsSort entryLe sortK)
    (k bsz : Nat) (dq dn : γ → Dist) (same : γ → Bool) (nunKey : Dist) (cases : List γ) :
    ∀ e ∈ kleorRun true sortK k bsz dq dn same nunKey cases, e.key ≠ none → e.val.1 ≠ nunKey := by
  intro e he hne
  obtain ⟨_, _, c, _, _, _, hlt, _, hq⟩ := kleor_sound hsort true k bsz dq dn same nunKey cases e he hne
  rw [hq]
  intro heq
  have := hlt rfl
  rw [heq] at this
  simp [dlt, dle_totalPre.refl] at this

/-- **SimMiss / GlobalSim, nearest to the NUN** — a candidate whose index is not returned is at
    least as far from the NUN as every returned column -/
theorem kleor_nearest {sortK : List KEntry → List KEntry} (hsort : IsSort entryLe sortK) (glob : Bool)
    (k bsz : Nat) (dq dn : γ → Dist) (same : γ → Bool) (nunKey : Dist) (cases : List γ)
    (bi p : Nat) (c : γ) (hg : gather (batches bsz cases) (some (bi, p)) = some c)
    (hc : cand glob dq same nunKey c = true)
    (hnot : ∀ e ∈ kleorRun glob sortK k bsz dq dn same nunKey cases, e.val.2 ≠ some (bi, p)) :
    ∀ r ∈ kleorRun glob sortK k bsz dq dn same nunKey cases, dle r.key (dn c) = true := by
  have hx : kleorEntry glob dq dn same nunKey c bi p ∈ kleorSeen glob k dq dn same nunKey bsz cases :=
    List.mem_append_right _ ((mem_allE _ _ _ _).mpr ⟨bi, p, c, hg, rfl⟩)
  intro r hr
  have := (kleor_topk hsort glob k bsz dq dn same nunKey cases).nearest hx
    (fun hin => hnot _ hin (by rw [kleorEntry_carried])) r hr
  unfold entryLe at this
  rw [kleorEntry_key, hc, maskKey_true] at this
  exact this

/-- **SimMiss / GlobalSim, keys** — the returned distances to the NUN are the `k` smallest among the
    candidates, sorted, padded with `+inf`; independent of the batch size -/
theorem kleor_keys {sortK : List KEntry → List KEntry} (hsort : IsSort entryLe sortK) (glob : Bool)
    (k bsz : Nat) (hb : 0 < bsz) (dq dn : γ → Dist) (same : γ → Bool) (nunKey : Dist) (cases : List γ) :
    (kleorRun glob sortK k bsz dq dn same nunKey cases).map (·.key)
      = smallestKeys k ((cases.filter (cand glob dq same nunKey)).map dn) := by
  have h := (kleor_topk hsort glob k bsz dq dn same nunKey cases).keys_eq (fun e => e.key) dle
    dle_totalPre dle_antisymm (fun _ _ => rfl)
  rw [h, ← smallestKeys_masked]
  unfold smallestKeys kleorSeen
  congr 1
  apply mergeSort_congr_perm
  rw [List.map_append, map_allE (kleorEntry glob dq dn same nunKey) (fun e => e.key)
    (fun c => maskKey (cand glob dq same nunKey c) (dn c)) (fun c bi p => kleorEntry_key ..) bsz hb]
  have : (kfills k).map (fun e => e.key) = List.replicate k none := by simp [kfills]
  rw [this]
  exact List.perm_append_comm

/-- **Unfilled slots** — when a NUN exists and distances are finite, a column whose key is `+inf`
    also reports an infinite distance to the query -/
theorem kleor_unfilled {sortK : List KEntry → List KEntry} (hsort : IsSort entryLe sortK) (glob : Bool)
    (k bsz : Nat) (dq dn : γ → Dist) (hdn : ∀ c, (dn c).isSome = true) (same : γ → Bool) (nunKey : Dist)
    (cases : List γ) :
    ∀ e ∈ kleorRun glob sortK k bsz dq dn same nunKey cases, e.key = none → e.val.1 = none := by
  intro e he hk
  have hm := (kleor_topk hsort glob k bsz dq dn same nunKey cases).mem he
  rcases List.mem_append.mp hm with h | h
  · have := List.eq_of_mem_replicate h
    subst this; rfl
  · obtain ⟨bi, p, c, _, rfl⟩ := (mem_allE _ _ _ _).mp h
    rw [kleorEntry_key] at hk
    rw [kleorEntry_carried]
    cases hc : cand glob dq same nunKey c
    · rfl
    · rw [hc, maskKey_true] at hk
      have := hdn c; rw [hk] at this; cases this

/-- with the model's stable sort a table whose new columns all have key `+inf` is left unchanged -/
private theorem run_sortE_all_top {β : Type} (k : Nat) (init : List (Entry β)) (hlen : init.length = k)
    (hinit : ∀ e ∈ init, e.key = none) (bs : List (List (Entry β)))
    (hbs : ∀ b ∈ bs, ∀ e ∈ b, e.key = none) : run sortE k init bs = init := by
  induction bs with
  | nil => rfl
  | cons b bs ih =>
    have hstep : step sortE k init b = init := by
      unfold step sortE
      rw [insSort_of_sorted]
      · rw [List.take_append_of_le_length (by omega), List.take_of_length_le (by omega)]
      · apply List.pairwise_of_forall_mem_list
        intro x _ y hy
        have hyk : y.key = none := by
          rcases List.mem_append.mp hy with h | h
          · exact hinit y h
          · exact hbs b List.mem_cons_self y h
        unfold entryLe; rw [hyk]; exact dle_top _
    show run sortE k (step sortE k init b) bs = init
    rw [hstep]
    exact ih (fun b' hb' => hbs b' (List.mem_cons_of_mem _ hb'))

/-- **No NUN (stable sort)** — when no NUN was found (the gathered NUN is the `inf` fill) every
    slot stays the initial `(+inf, +inf, (-1,-1))` column -/
theorem kleor_no_nun_stable (glob : Bool) (k bsz : Nat) (dq : γ → Dist) (same : γ → Bool)
    (nunKey : Dist) (cases : List γ) :
    kleorRun glob sortE k bsz dq (fun _ => none) same nunKey cases = kfills k := by
  unfold kleorRun
  apply run_sortE_all_top k (kfills k) (by simp [kfills])
  · intro e he; rw [List.eq_of_mem_replicate he]
  · intro b hb e he
    have : e ∈ allE (kleorEntry glob dq (fun _ => none) same nunKey) bsz cases :=
      List.mem_flatten.mpr ⟨b, hb, he⟩
    obtain ⟨bi, p, c, _, rfl⟩ := (mem_allE _ _ _ _).mp this
    rw [kleorEntry_key]; cases cand glob dq same nunKey c <;> rfl

/-- **NUN search (stable sort)** — when no unlike case is at a finite distance the NUN index is
    the `(-1,-1)` fill (so the gathered NUN is the `inf` fill) -/
theorem kleor_nun_stable (bsz : Nat) (hb : 0 < bsz) (dq : γ → Dist) (same : γ → Bool) (cases : List γ)
    (h : (nunOf sortE bsz dq same cases).key = none) : (nunOf sortE bsz dq same cases).val = none := by
  have hspec := kleor_nun_spec (sortE_isSort) bsz hb dq same cases
  have hall : ∀ c ∈ cases, maskKey (!same c) (dq c) = none := by
    intro c hc
    cases hs : same c
    · have := hspec.2.1 c hc hs
      rw [h] at this
      simp only [Bool.not_false, maskKey_true]
      exact dle_top_left this
    · rfl
  have hrun : filterKnnOne sortE 1 bsz dq (fun c => !same c) cases = fills 1 := by
    unfold filterKnnOne knnOne
    apply run_sortE_all_top 1 (fills 1) (by simp [fills])
    · intro e he; rw [List.eq_of_mem_replicate he]
    · intro b hb' e he
      have : e ∈ allE (mkKnn fun c => maskKey (!same c) (dq c)) bsz cases :=
        List.mem_flatten.mpr ⟨b, hb', he⟩
      obtain ⟨bi, p, c, hg, rfl⟩ := (mem_allE _ _ _ _).mp this
      exact hall c (mem_of_gather bsz hb cases bi p c hg)
  unfold nunOf; rw [hrun]; rfl

/-- **C17 refinement (KLEOR)** — for every sort of the main loop, batch size, `k` and label
    assignment: the distances-to-NUN returned by `kleorOne` are the reference
    (`kleorSpecKeys` relative to the NUN that the NUN search gathered), provided the NUN search
    returns the `(-1,-1)` index when it finds nothing (`hnun`; true for the stable sort:
    `kleor_nun_stable`). -/
theorem kleor_impl_eq_spec {sortI : List (Entry Idx) → List (Entry Idx)} {sortK : List KEntry → List KEntry}
    (hsortI : IsSort entryLe sortI) (hsortK : IsSort entryLe sortK) (glob : Bool) (k bsz : Nat)
    (hb : 0 < bsz) (dist : γ → γ → Dist) (dq : γ → Dist) (same : γ → Bool) (cases : List γ)
    (hnun : (nunOf sortI bsz dq same cases).key = none → (nunOf sortI bsz dq same cases).val = none) :
    (kleorOne glob sortI sortK k bsz dist dq same cases).res.map (·.key)
      = kleorSpecKeys glob k dist dq same cases (nunCaseOf sortI bsz dq same cases) := by
  rw [kleorOne_res]
  have hk := kleor_keys hsortK glob k bsz hb dq (dnOf dist (nunCaseOf sortI bsz dq same cases)) same
    (nunOf sortI bsz dq same cases).key cases
  unfold kleorRun at hk
  rw [hk]
  unfold kleorSpecKeys
  cases hv : nunCaseOf sortI bsz dq same cases with
  | none =>
    rw [smallestKeys_filter]
    have : ((cases.filter (cand glob dq same (nunOf sortI bsz dq same cases).key)).map
        (dnOf dist none)).filter (fun x : Dist => x.isSome) = [] := by
      rw [List.filter_eq_nil_iff]; intro a ha
      obtain ⟨_, _, rfl⟩ := List.mem_map.mp ha
      simp [dnOf]
    rw [this]
    unfold smallestKeys
    rw [List.nil_append, List.mergeSort_of_pairwise, List.take_replicate, Nat.min_self]
    rw [List.pairwise_replicate]; right; rfl
  | some v =>
    -- the NUN index is real, hence (hnun) its distance is finite, hence it is the distance of `v`
    have hval : (nunOf sortI bsz dq same cases).val ≠ none := by
      intro hn; unfold nunCaseOf at hv; rw [hn] at hv; cases hv
    have hkey : (nunOf sortI bsz dq same cases).key ≠ none := fun hn => hval (hnun hn)
    obtain ⟨bi, p, c, hvl, hg, _, hkc⟩ := (kleor_nun_spec hsortI bsz hb dq same cases).2.2 hkey
    have hcv : c = v := by
      unfold nunCaseOf at hv; rw [hvl, hg] at hv; exact Option.some.inj hv
    rw [hkc, hcv]
    rfl

/-- **Per-sample (KLEOR)** — every query is searched independently of the other queries -/
theorem kleor_per_sample (glob : Bool) (sortI : List (Entry Idx) → List (Entry Idx))
    (sortK : List KEntry → List KEntry) (P : Proj) (dk : DistKind) (k : Nat) (bs : Option Nat)
    (cases queries : List Sample) :
    kleorImpl glob sortI sortK P dk k bs cases queries
      = queries.flatMap (fun q => kleorImpl glob sortI sortK P dk k bs cases [q]) := by
  unfold kleorImpl
  induction queries with
  | nil => rfl
  | cons q qs ih => simp only [List.map_cons, List.flatMap_cons, List.map_nil, List.singleton_append, ih]

-- ---------------------------------------------------------------------------------------------
-- non-vacuity
-- ---------------------------------------------------------------------------------------------
-- 1-D cases with classes; query at 0 of class 0
private def exCases : List (Rat × Nat) := [(1, 0), (2, 1), (-1, 0), (3, 0), (-2, 1), (1, 1)]
private def exDq : Rat × Nat → Dist := fun c => some (ratAbs c.1)
private def exDist : Rat × Nat → Rat × Nat → Dist := fun a b => some (ratAbs (a.1 - b.1))

-- naive counterfactuals of class 0, k = 4, batches of 4: three unlike cases, one unfilled slot
example : (filterKnnOne sortE 4 4 exDq (fun c => c.2 != 0) exCases).map (fun e => (e.key, e.val))
    = [(some 1, some (1, 1)), (some 2, some (0, 1)), (some 2, some (1, 0)), (none, none)] := by
  decide +kernel

-- KLEOR: NUN = (1, class 1) at distance 1; SimMiss ranks the class-0 cases by distance to it;
-- GlobalSim keeps only cases strictly closer than 1 to the query: none (the cases at exactly 1 are excluded)
example : (kleorOne false sortE sortE 2 4 exDist exDq (fun c => c.2 == 0) exCases).nun.val = some (1, 1) := by
  decide +kernel
example : ((kleorOne false sortE sortE 2 4 exDist exDq (fun c => c.2 == 0) exCases).res.map
    fun e => (e.key, e.val.1)) = [(some 0, some 1), (some 2, some 1)] := by
  decide +kernel
example : ((kleorOne true sortE sortE 2 4 exDist exDq (fun c => c.2 == 0) exCases).res.map
    fun e => (e.key, e.val.1)) = [(none, none), (none, none)] := by
  decide +kernel
-- the hypothesis of kleor_impl_eq_spec holds for the stable sort
example (bsz : Nat) (hb : 0 < bsz) (dq : Rat × Nat → Dist) (same : Rat × Nat → Bool) (cs : List (Rat × Nat)) :
    (nunOf sortE bsz dq same cs).key = none → (nunOf sortE bsz dq same cs).val = none :=
  kleor_nun_stable bsz hb dq same cs

end Xp.TopK
