/-
  C10 — DeconvNet / GuidedBackprop / Grad-CAM(++) implement their published rules.

  `Net.overrideRelu`, `Net.forward`, `Net.backward`, `Net.explain` are the executable model of
  model_override.py + DeconvNet / GuidedBackprop; `Net.specBackward` is the published procedure stated
  on the ORIGINAL network.  `GradCam.explain` is the model of GradCAM.explain (before the resize),
  `GradCam.specCam` the documented formula.  All theorems hold for every depth, width, weight,
  ReLU parameter, input, target, number of samples and batch size.
-/
import XpModel.ReluNet
import XpModel.GradCam
import XpProofs.Lemmas.ReluNet
import XpProofs.Lemmas.GradCam

namespace Xp.Net

/-- the forward model of a standard ReLU (`max_value = None`, `threshold = 0`, `negative_slope = 0`) is `max(z, 0)` -/
theorem kerasRelu_standard (z : Rat) : kerasRelu none 0 0 z = ratMax z 0 := by
  unfold kerasRelu ratMax relu
  by_cases h : (0 : Rat) < z
  · have : ¬ z ≤ 0 := not_le.mpr h
    simp [h, this]
  · have : z ≤ 0 := not_lt.mp h
    simp [h, this]

/-- **Forward unchanged** — for every ReLU variant (any `max_value`, `threshold`, `negative_slope`), fused
    or layer, the overridden clone computes the same outputs as the original, for every policy. -/
theorem override_forward_id (r : Rule) (net : List Layer) (x : Vec) :
    forward (overrideRelu r net) x = forward net x := by
  induction net generalizing x with
  | nil => rfl
  | cons l ls ih =>
    show forward (overrideLayer r l :: overrideRelu r ls) x = forward (l :: ls) x
    rw [forward_cons, forward_cons, layerFwd_override r l, ih]

namespace Witness
/-- the override as it was BEFORE repair commit af667d4: a ReLU layer's `negative_slope` was not handed to
    the policy (`relu_policy(max_value, threshold)`) -/
def overrideLayerPreFix (r : Rule) : Layer → Layer
  | .reluLayer maxv thr _ => .policyLayer r maxv thr 0
  | l => overrideLayer r l

/-- defect witness (fixed by af667d4): with the slope dropped the forward pass of
    `Model(inp, ReLU(negative_slope=0.5)(inp))` changes on `x = [-2, 1]`: `[-1, 1]` became `[0, 1]` -/
theorem prefix_override_changes_forward :
    forward ([Layer.reluLayer none 0 (1/2)].map (overrideLayerPreFix .deconv)) [-2, 1] = [0, 1] ∧
    forward [Layer.reluLayer none 0 (1/2)] [-2, 1] = [-1, 1] ∧
    forward (overrideRelu .deconv [Layer.reluLayer none 0 (1/2)]) [-2, 1] = [-1, 1] := by
  decide +kernel
end Witness

/-- **Only ReLUs are touched** — the override keeps the number and order of layers; a layer that is
    neither a fused relu nor a ReLU layer is returned unchanged; a fused relu keeps its kernel and bias and
    gets the policy with default arguments; a ReLU layer gets the policy with its own `max_value`,
    `threshold` and `negative_slope`. -/
theorem override_only_relu (r : Rule) (net : List Layer) :
    (overrideRelu r net).length = net.length ∧
    (∀ (i : Nat) l, net[i]? = some l → (overrideRelu r net)[i]? = some (overrideLayer r l)) ∧
    (∀ l, ¬ IsReluUnit l → overrideLayer r l = l) ∧
    (∀ W b, overrideLayer r (.dense W b .relu) = .dense W b (.policy r)) ∧
    (overrideLayer r (.activation .relu) = .activation (.policy r)) ∧
    (∀ m t s, overrideLayer r (.reluLayer m t s) = .policyLayer r m t s) := by
  refine ⟨by simp [overrideRelu], ?_, ?_, fun _ _ => rfl, rfl, fun _ _ _ => rfl⟩
  · intro i l h
    simp [overrideRelu, List.getElem?_map, h]
  · intro l hl
    cases l with
    | dense W b a =>
      cases a with
      | relu => exact absurd (Or.inl rfl) hl
      | linear => rfl
      | policy r' => rfl
      | other f f' => rfl
    | activation a =>
      cases a with
      | relu => exact absurd (Or.inl rfl) hl
      | linear => rfl
      | policy r' => rfl
      | other f f' => rfl
    | reluLayer m t s => exact absurd (Or.inr rfl) hl
    | policyLayer r' m t s => rfl

/-- a network without any ReLU unit is returned as it is: true gradients everywhere -/
theorem override_no_relu_id (r : Rule) (net : List Layer) (h : ∀ l ∈ net, ¬ IsReluUnit l) :
    overrideRelu r net = net := by
  unfold overrideRelu
  conv => rhs; rw [← List.map_id net]
  apply List.map_congr_left
  intro l hl
  exact (override_only_relu r net).2.2.1 l (h l hl)

/-- back-propagation through the overridden clone = the published procedure on the original network
    (policy-generic form; `deconv_backward` and `guided_backward` are its two instances) -/
theorem override_backward_eq_spec (r : Rule) (net : List Layer) (x up : Vec) :
    backward (overrideRelu r net) x up = specBackward r net x up := by
  induction net generalizing x with
  | nil => rfl
  | cons l ls ih =>
    show layerVJP (overrideLayer r l) x
        (backward (overrideRelu r ls) (layerFwd (overrideLayer r l) x) up) = _
    rw [specBackward_cons, layerFwd_override r l, ih, layerVJP_override]

/-- **DeconvNet** — the gradient of the overridden clone is the vector-Jacobian product in which every
    ReLU unit (fused, `Activation('relu')`, ReLU layer) maps the incoming gradient `g ↦ max(g, 0)` and every
    other layer uses its true derivative; pre-activations are those of the ORIGINAL network. -/
theorem deconv_backward (net : List Layer) (x up : Vec) :
    backward (overrideRelu .deconv net) x up = specBackward .deconv net x up ∧
    (∀ z g, published .deconv z g = ratMax g 0) :=
  ⟨override_backward_eq_spec .deconv net x up, fun _ _ => rfl⟩

/-- **GuidedBackprop** — same with `g ↦ g` if `g > 0` and the unit's pre-activation `z > 0`, else `0`. -/
theorem guided_backward (net : List Layer) (x up : Vec) :
    backward (overrideRelu .guided net) x up = specBackward .guided net x up ∧
    (∀ z g, published .guided z g = if 0 < z ∧ 0 < g then g else 0) :=
  ⟨override_backward_eq_spec .guided net x up, fun _ _ => rfl⟩

/-- the published rules never let a negative gradient through, and GuidedBackprop lets nothing through a
    unit that is not active -/
theorem published_nonneg (z g : Rat) :
    0 ≤ published .deconv z g ∧ 0 ≤ published .guided z g ∧ (z ≤ 0 → published .guided z g = 0) := by
  refine ⟨?_, ?_, ?_⟩
  · show 0 ≤ ratMax g 0
    unfold ratMax; split <;> [exact le_refl _; exact le_of_lt (not_le.mp ‹_›)]
  · show 0 ≤ (if 0 < z ∧ 0 < g then g else 0)
    split
    · exact le_of_lt (‹0 < z ∧ 0 < g›).2
    · exact le_refl _
  · intro hz
    show (if 0 < z ∧ 0 < g then g else 0) = 0
    have : ¬ (0 < z ∧ 0 < g) := fun h => absurd h.1 (not_lt.mpr hz)
    simp [this]

/-- **The user's model is not altered** — in the model the override is a pure function: it returns a new
    list and the argument is (trivially) the same value afterwards.  On the implementation this clause is
    CHECKED by the harness (outputs, weights, activations and `call` attributes before / after). -/
theorem override_pure (r : Rule) (net : List Layer) :
    (fun n => (overrideRelu r n, n)) net = (overrideRelu r net, net) := rfl

/-- **Batching** — DeconvNet / GuidedBackprop explain each sample on its own, for every batch size -/
theorem deconvnet_per_sample (r : Rule) (bs : Option Nat) (hbs : ∀ b, bs = some b → 0 < b)
    (net : List Layer) (xys : List (Vec × Vec)) :
    explain r bs net xys = xys.map fun xy => backward (overrideRelu r net) xy.1 xy.2 := by
  unfold explain
  exact batched_eq_map _ _ (fun _ => rfl) bs hbs xys

theorem deconvnet_bs_indep (r : Rule) (b : Nat) (hb : 0 < b) (net : List Layer)
    (xys : List (Vec × Vec)) : explain r (some b) net xys = explain r none net xys := by
  rw [deconvnet_per_sample r (some b) (by intro b' h; cases h; exact hb),
      deconvnet_per_sample r none (by intro b' h; cases h)]

/-- **DeconvNet / GuidedBackprop main theorem** — the explanation is the published procedure on the
    original network for every sample and every batch size. -/
theorem deconvnet_eq_published (r : Rule) (bs : Option Nat) (hbs : ∀ b, bs = some b → 0 < b)
    (net : List Layer) (xys : List (Vec × Vec)) :
    explain r bs net xys = xys.map fun xy => specBackward r net xy.1 xy.2 := by
  rw [deconvnet_per_sample r bs hbs]
  apply List.map_congr_left
  intro xy _
  exact override_backward_eq_spec r net xy.1 xy.2

-- non-vacuity: a network with a fused relu, a thresholded / clipped / leaky ReLU layer and a standard
-- ReLU layer; forward is unchanged, DeconvNet / GuidedBackprop / the true gradient all differ.
private def exNet : List Layer :=
  [.dense [[1, -1], [2, 1]] [0, 1] .relu, .reluLayer (some 2) (1/2) (1/4),
   .dense [[1, -2], [-1, 1]] [0, 0] .linear, .reluLayer none 0 0]

example : forward exNet [1, 1] = [1, 0] ∧ forward (overrideRelu .guided exNet) [1, 1] = [1, 0]
    ∧ forward exNet [1, -1] = [0, 1/8] ∧ forward (overrideRelu .deconv exNet) [1, -1] = [0, 1/8] := by
  decide +kernel
example : backward exNet [1, 1] [1, 1] = [1, -1]
    ∧ backward (overrideRelu .deconv exNet) [1, 1] [1, 1] = [0, 0]
    ∧ backward (overrideRelu .guided exNet) [1, 1] [1, 1] = [1, 2]
    ∧ specBackward .guided exNet [1, 1] [1, 1] = [1, 2] := by
  decide +kernel

end Xp.Net

namespace Xp.GradCam
open Xp

/-- the weighted sum written by the code (`reduce_sum(A * w, -1)` then `tf.nn.relu`) is the indexed
    formula `max(0, Σ_k w_k A_k[p])` -/
private theorem applyWeights_eq (K : Nat) (wf : Nat → Rat) (A : Maps) :
    applyWeights ((List.range K).map wf) A
      = A.map fun row => ratMax 0 (sumQ ((List.range K).map fun k => wf k * row.getD k 0)) := by
  unfold applyWeights
  apply List.map_congr_left
  intro row _
  rw [sumQ_zipWith_getD, Net.relu_eq_ratMax, ratMax_zero_comm, List.length_map, List.length_range]
  congr 2
  apply List.map_congr_left
  intro k hk
  have hk' : k < K := List.mem_range.mp hk
  simp [List.getD_eq_getElem?_getD, hk']

private theorem weights_eq (m : Method) (K : Nat) (s : Sample) :
    weights m K s = (List.range K).map (specWeight m s) := by
  cases m with
  | gradcam =>
    show weightsGC K s = _
    unfold weightsGC
    apply List.map_congr_left; intro k _
    exact meanQ_chan' s.G k
  | gradcampp eps =>
    show weightsPP eps K s = _
    unfold weightsPP
    apply List.map_congr_left; intro k _
    show meanQ ((chan s.G k).map fun g => g * g / ppDen eps (meanQ (chan s.A k)) g * relu g) = specWeightPP eps s k
    rw [meanQ_chan s.G k, meanQ_chan' s.A k]
    unfold specWeightPP
    congr 2
    apply List.map_congr_left; intro row _
    rw [ppDen_eq, Net.relu_eq_ratMax]

/-- **Grad-CAM / Grad-CAM++ refinement** — for every number of channels, feature-map size, number of
    samples and batch size, `GradCAM.explain` (before the resize) returns for each sample
    `max(0, Σ_k w_k·A_k)` with the documented weights of the method. -/
theorem gradcam_impl_eq_spec (m : Method) (K : Nat) (bs : Option Nat) (hbs : ∀ b, bs = some b → 0 < b)
    (samples : List Sample) : explain m K bs samples = samples.map (specCam m K) := by
  unfold explain
  apply batched_eq_map _ _ _ bs hbs
  intro chunk
  unfold camBatch
  apply List.map_congr_left; intro s _
  rw [weights_eq, applyWeights_eq]
  rfl

/-- **Grad-CAM** — weights are the spatial means of the gradients (`w_k · Z = Σ_p G_k[p]`, `Z` = number of
    feature-map positions) and the map is non-negative. -/
theorem gradcam_spec (K : Nat) (bs : Option Nat) (hbs : ∀ b, bs = some b → 0 < b) (samples : List Sample) :
    explain .gradcam K bs samples = samples.map (specCam .gradcam K) ∧
    (∀ s k, 0 < s.G.length → specWeight .gradcam s k * (s.G.length : Rat) = sumQ (s.G.map fun row => row.getD k 0)) ∧
    (∀ s ∈ samples, ∀ v ∈ specCam .gradcam K s, 0 ≤ v) := by
  refine ⟨gradcam_impl_eq_spec .gradcam K bs hbs samples, ?_, ?_⟩
  · intro s k hpos
    show specWeightGC s k * _ = _
    unfold specWeightGC
    have : (s.G.length : Rat) ≠ 0 := by exact_mod_cast (Nat.pos_iff_ne_zero.mp hpos)
    field_simp
  · intro s _ v hv
    simp only [specCam, List.mem_map] at hv
    obtain ⟨row, _, rfl⟩ := hv
    unfold ratMax; split <;> [assumption; exact le_refl _]

/-- the guarded Grad-CAM++ denominator is never zero (`ε ≠ 0`): no division by zero, no NaN -/
theorem gradcampp_den_ne_zero (eps avg g : Rat) (heps : eps ≠ 0) : ppDen eps avg g ≠ 0 := by
  unfold ppDen
  by_cases h : 2 * (g * g) + g * g * g * avg = 0
  · simp [h, heps]
  · simp [h]

/-- **Grad-CAM++** — weights are `mean_spatial(α · relu G)` with `α = G² / den'`,
    `den = 2G² + G³·mean_spatial(A_k)`, `den' = den + [den = 0]·ε ≠ 0`; the map is non-negative. -/
theorem gradcampp_spec (eps : Rat) (heps : eps ≠ 0) (K : Nat) (bs : Option Nat)
    (hbs : ∀ b, bs = some b → 0 < b) (samples : List Sample) :
    explain (.gradcampp eps) K bs samples = samples.map (specCam (.gradcampp eps) K) ∧
    (∀ avg g, ppDen eps avg g ≠ 0 ∧
        ppDen eps avg g = (2 * g ^ 2 + g ^ 3 * avg) + (if 2 * g ^ 2 + g ^ 3 * avg = 0 then eps else 0) ∧
        specAlpha eps avg g = g ^ 2 / ppDen eps avg g) ∧
    (∀ s ∈ samples, ∀ v ∈ specCam (.gradcampp eps) K s, 0 ≤ v) := by
  refine ⟨gradcam_impl_eq_spec _ K bs hbs samples, ?_, ?_⟩
  · intro avg g
    refine ⟨gradcampp_den_ne_zero eps avg g heps, ?_, ?_⟩
    · unfold ppDen
      have e : 2 * (g * g) + g * g * g * avg = 2 * g ^ 2 + g ^ 3 * avg := by ring
      simp only [e]
      split <;> simp
    · rw [← ppDen_eq]; ring
  · intro s _ v hv
    simp only [specCam, List.mem_map] at hv
    obtain ⟨row, _, rfl⟩ := hv
    unfold ratMax; split <;> [assumption; exact le_refl _]

/-- Grad-CAM++ weights are non-negative when the chosen layer's activations are (e.g. a conv layer with a
    fused relu): every `α` is then a quotient of non-negative numbers. -/
theorem gradcampp_weight_nonneg (eps : Rat) (s : Sample) (k : Nat)
    (hA : ∀ row ∈ s.A, 0 ≤ row.getD k 0) : 0 ≤ specWeight (.gradcampp eps) s k := by
  show 0 ≤ specWeightPP eps s k
  unfold specWeightPP
  have habar : 0 ≤ sumQ (s.A.map fun row => row.getD k 0) / (s.A.length : Rat) := by
    apply div_nonneg _ (Nat.cast_nonneg _)
    apply sumQ_nonneg
    intro v hv
    obtain ⟨row, hrow, rfl⟩ := List.mem_map.mp hv
    exact hA row hrow
  apply div_nonneg _ (Nat.cast_nonneg _)
  apply sumQ_nonneg
  intro v hv
  obtain ⟨row, _, rfl⟩ := List.mem_map.mp hv
  generalize row.getD k 0 = g
  generalize sumQ (s.A.map fun row => row.getD k 0) / (s.A.length : Rat) = abar at habar
  unfold ratMax
  by_cases hg : g ≤ 0
  · simp [hg]
  · have hg' : 0 < g := not_le.mp hg
    simp only [hg, if_false]
    apply mul_nonneg _ (le_of_lt hg')
    unfold specAlpha
    have hden : 0 < 2 * g ^ 2 + g ^ 3 * abar := by positivity
    have hne : 2 * g ^ 2 + g ^ 3 * abar ≠ 0 := ne_of_gt hden
    show 0 ≤ (if 2 * g ^ 2 + g ^ 3 * abar = 0 then g ^ 2 / eps else g ^ 2 / (2 * g ^ 2 + g ^ 3 * abar))
    rw [if_neg hne]
    exact div_nonneg (sq_nonneg g) (le_of_lt hden)

/-- **Batching** (exported for C03): the maps do not depend on the batch size -/
theorem gradcam_bs_indep (m : Method) (K : Nat) (b : Nat) (hb : 0 < b) (samples : List Sample) :
    explain m K (some b) samples = explain m K none samples := by
  rw [gradcam_impl_eq_spec m K (some b) (by intro b' h; cases h; exact hb),
      gradcam_impl_eq_spec m K none (by intro b' h; cases h)]

theorem gradcam_per_sample (m : Method) (K : Nat) (bs : Option Nat) (hbs : ∀ b, bs = some b → 0 < b)
    (samples : List Sample) :
    explain m K bs samples = samples.map fun s => applyWeights (weights m K s) s.A := by
  unfold explain
  exact batched_eq_map _ _ (fun _ => rfl) bs hbs samples

/-- **Default layer** — without `conv_layer` Grad-CAM reads the LAST layer that has a `filters`
    attribute: the chosen index carries `filters` and no later layer does; there is no choice iff no
    layer has `filters`. -/
theorem gradcam_default_layer (fl : List Bool) :
    (∀ i, defaultConv fl = some i ↔
        (i < fl.length ∧ fl.getD i false = true ∧ ∀ j, i < j → j < fl.length → fl.getD j false = false)) ∧
    (defaultConv fl = none ↔ ∀ j, j < fl.length → fl.getD j false = false) :=
  find_range_reverse fl.length fun i => fl.getD i false

/-- `conv_layer` given as an `int` follows Python list indexing (negative indices from the end) -/
theorem gradcam_index_layer (n : Nat) (i : Int) (k : Nat) :
    pyIndex n i = some k ↔
      ((0 ≤ i ∧ i = (k : Int) ∧ k < n) ∨ (i < 0 ∧ -(n : Int) ≤ i ∧ (k : Int) = (n : Int) + i)) := by
  unfold pyIndex
  by_cases h0 : 0 ≤ i
  · by_cases h1 : i < n
    · simp only [h0, h1, if_true, Option.some.injEq]
      constructor
      · intro h; left; refine ⟨?_, ?_, ?_⟩ <;> first | trivial | omega
      · rintro (⟨_, h, _⟩ | ⟨h, _⟩) <;> omega
    · simp only [h0, h1, if_true, if_false]
      constructor
      · intro h; cases h
      · rintro (⟨_, h, _⟩ | ⟨h, _⟩) <;> omega
  · by_cases h1 : -(n : Int) ≤ i
    · simp only [h0, h1, if_true, if_false, Option.some.injEq]
      constructor
      · intro h; right; refine ⟨?_, ?_, ?_⟩ <;> first | trivial | omega
      · rintro (⟨h, _⟩ | ⟨_, _, h⟩) <;> omega
    · simp only [h0, h1, if_false]
      constructor
      · intro h; cases h
      · rintro (⟨h, _⟩ | ⟨_, h, _⟩) <;> omega

-- non-vacuity: two samples, two channels, batch size 1; the Grad-CAM++ example hits the `den = 0` guard
-- with a non-zero numerator (G = 1, mean A = -2), where the weight is 1/(2ε)
example : explain .gradcam 2 (some 1) [⟨[[1,2],[3,-1]], [[1,-1],[3,-1]]⟩, ⟨[[1,0],[0,1]], [[2,0],[0,2]]⟩]
    = [[0, 7], [1, 1]] := by decide +kernel
example : explain (.gradcampp (1/10000)) 2 none [⟨[[1,2],[3,-1]], [[1,-1],[3,-1]]⟩, ⟨[[1,0],[-5,1]], [[1,0],[0,2]]⟩]
    = [[5/16, 15/16], [5000, 0]] := by decide +kernel
example : defaultConv [false, true, false, true, false] = some 3 ∧ pyIndex 5 (-2) = some 3
    ∧ byName ["in", "c1", "c2"] "c2" = some 2 := by decide +kernel

end Xp.GradCam
