/-
  C01 — gradient attributions equal the analytic gradient statistics.

  `GS.saliencyImpl`, `GS.gradInputImpl`, `GS.gsImpl` are the executable models of
  Saliency / GradientInput / GradientStatistic.explain (SmoothGrad, SquareGrad, VarGrad); the
  scalar batch arithmetic inside `gsImpl` is GENERATED from the source.  `g` (the gradient of the
  explained score, as delivered by TensorFlow autodiff) and the noisy copies `it.pt k` of every
  input are parameters.  All theorems hold for every number of inputs, every dimension, every
  `nb_samples`, every noise realisation and every batch size (`none` or any positive integer).
  Hypothesis `PerSample op g`: the gradient of a sample does not depend on the rest of its batch.
-/
import XpModel.GradStat
import XpProofs.Lemmas.GradStat

namespace Xp.GS

/-! ### the generated scalar arithmetic -/

/-- `min(batch_size, nb_samples)` -/
theorem gs_pbs_spec (b nb : Nat) : (Gen.gsPbs (b : Int) (nb : Int)).toNat = min b nb := by
  unfold Gen.gsPbs; omega

/-- `max(1, batch_size // perturbation_batch_size)` is the floor quotient, at least 1 -/
theorem gs_ibs_spec (b p : Nat) : (Gen.gsIbs (b : Int) (p : Int)).toNat = max 1 (b / p) := by
  unfold Gen.gsIbs
  rw [Int.fdiv_eq_ediv_of_nonneg _ (Int.natCast_nonneg p)]
  have : ((b : Int) / (p : Int)) = ((b / p : Nat) : Int) := by norm_cast
  rw [this]; omega

/-- `len(inputs) * nb_samples` -/
theorem gs_default_bs_spec (n nb : Nat) : (Gen.gsDefaultBs (n : Int) (nb : Int)).toNat = n * nb := by
  show ((n : Int) * (nb : Int)).toNat = n * nb
  rw [← Nat.cast_mul]; exact Int.toNat_natCast _

/-- the chunk sizes of the `while` loop (generated `min(pbs, nb − tot)`) are those of the
    reference loop `chunkSizes` -/
theorem gs_chunks_eq_chunkSizes (pbs nb : Nat) (hp : 0 < pbs) :
    (chunks pbs nb).map (·.2) = chunkSizes pbs nb := by
  unfold chunks
  rw [chunksAux_sizes pbs nb hp nb 0 (by omega)]; simp

/-- **exactly `nb_samples` noisy copies per input**: the chunk sizes add up to `nb` … -/
theorem gs_uses_exactly_nb (pbs nb : Nat) (hp : 0 < pbs) : ((chunks pbs nb).map (·.2)).sum = nb := by
  rw [gs_chunks_eq_chunkSizes pbs nb hp, chunkSizes_sum pbs nb hp]

/-- … and the draws used are `0, 1, …, nb−1`, each exactly once, in order -/
theorem gs_draw_indices (pbs nb : Nat) (hp : 0 < pbs) :
    (chunks pbs nb).flatMap (fun tc => (List.range tc.2).map (tc.1 + ·)) = List.range nb :=
  chunks_flat pbs nb hp

/-- every chunk is non-empty and at most `perturbation_batch_size` long -/
theorem gs_chunk_bounds (pbs nb : Nat) (hp : 0 < pbs) : ∀ tc ∈ chunks pbs nb, 0 < tc.2 ∧ tc.2 ≤ pbs :=
  chunksAux_pos pbs nb hp nb 0

/-- "batch_size only bounds memory": a `_perturb_samples` call never creates more than
    `batch_size` points (`inputs_batch_size · perturbation_batch_size ≤ batch_size`) -/
theorem gs_points_per_call_le_bs (b n nb : Nat) (hb : 0 < b) (hnb : 0 < nb) :
    ibsOf (some b) n nb * pbsOf (some b) n nb ≤ b := by
  unfold ibsOf pbsOf effBs
  rw [gs_pbs_spec, gs_ibs_spec]
  have hp : 0 < min b nb := by omega
  have hle : min b nb ≤ b := by omega
  have h1 : 1 ≤ b / min b nb := (Nat.one_le_div_iff hp).mpr hle
  rw [Nat.max_eq_right h1]
  exact Nat.div_mul_le_self b (min b nb)

private theorem eff_pos (bs : Option Nat) (hbs : ∀ b, bs = some b → 0 < b) (n nb : Nat) (hn : 0 < n)
    (hnb : 0 < nb) : 0 < effBs bs n nb := by
  cases bs with
  | none =>
    show 0 < Gen.gsDefaultBs (n : Int) (nb : Int)
    unfold Gen.gsDefaultBs
    have h1 : (0 : Int) < n := by exact_mod_cast hn
    have h2 : (0 : Int) < nb := by exact_mod_cast hnb
    exact Int.mul_pos h1 h2
  | some b => show (0 : Int) < (b : Int); exact_mod_cast hbs b rfl

private theorem pbs_pos (bs : Option Nat) (n nb : Nat) (he : 0 < effBs bs n nb) (hnb : 0 < nb) :
    0 < pbsOf bs n nb := by
  unfold pbsOf Gen.gsPbs; omega

private theorem ibs_pos (bs : Option Nat) (n nb : Nat) : 0 < ibsOf bs n nb := by
  unfold ibsOf Gen.gsIbs; omega

/-- alignment of inputs, labels and gradients: regrouping (`reshape (n, c, …)`) a sample-major
    repetition (`tf.repeat(axis=0)` / `repeat_labels`) mapped through any per-sample function
    gives, for every sample, its own `c` values -/
theorem regroup_repeatEach {α β : Type} (c : Nat) (hc : 0 < c) (f : α → β) (xs : List α) :
    regroup c ((repeatEach c xs).map f) = xs.map fun x => List.replicate c (f x) := by
  unfold regroup repeatEach
  rw [List.map_flatMap, batches_flatMap_len c hc _ xs (by intro a _; simp)]
  simp

/-! ### Saliency and GradientInput -/

/-- **Saliency = |∂s/∂x|** for every batch size -/
theorem saliency_spec (op : GradOp) (g : Vec → Vec → Vec) (hop : PerSample op g) (bs : Option Nat)
    (hbs : ∀ b, bs = some b → 0 < b) (xs ys : List Vec) :
    saliencyImpl op bs xs ys = saliencySpec g xs ys := by
  unfold saliencyImpl saliencySpec
  rw [batched_eq_map op (fun py => g py.1 py.2) (fun l => hop l) bs hbs, List.map_map,
    ← List.map_uncurry_zip_eq_zipWith]
  apply List.map_congr_left; intro py _; rfl

/-- **GradientInput = x · ∂s/∂x** for every batch size -/
theorem gradinput_spec (op : GradOp) (g : Vec → Vec → Vec) (hop : PerSample op g) (bs : Option Nat)
    (hbs : ∀ b, bs = some b → 0 < b) (xs ys : List Vec) :
    gradInputImpl op bs xs ys = gradInputSpec g xs ys := by
  unfold gradInputImpl gradInputSpec
  rw [batched_eq_map op (fun py => g py.1 py.2) (fun l => hop l) bs hbs]
  induction xs generalizing ys with
  | nil => simp
  | cons x xs ih =>
    cases ys with
    | nil => simp
    | cons y ys =>
      simp only [List.zip_cons_cons, List.map_cons, List.zipWith_cons_cons, ih]
      congr 1
      unfold vmul
      induction (g x y) generalizing x with
      | nil => simp
      | cons a l ihl =>
        cases x with
        | nil => simp
        | cons b x => simp [ihl, mul_comm]

theorem saliency_bs_indep (op : GradOp) (g : Vec → Vec → Vec) (hop : PerSample op g) (b : Nat) (hb : 0 < b)
    (xs ys : List Vec) : saliencyImpl op (some b) xs ys = saliencyImpl op none xs ys := by
  rw [saliency_spec op g hop (some b) (by intro b' h; cases h; exact hb),
      saliency_spec op g hop none (by intro b' h; cases h)]

theorem gradinput_bs_indep (op : GradOp) (g : Vec → Vec → Vec) (hop : PerSample op g) (b : Nat) (hb : 0 < b)
    (xs ys : List Vec) : gradInputImpl op (some b) xs ys = gradInputImpl op none xs ys := by
  rw [gradinput_spec op g hop (some b) (by intro b' h; cases h; exact hb),
      gradinput_spec op g hop none (by intro b' h; cases h)]

/-! ### SmoothGrad / SquareGrad / VarGrad -/

private theorem finalRow_eq (g : Vec → Vec → Vec) (k : Kind) (D nb : Nat) (hnb : 1 ≤ nb)
    (hvar : k = .var → 2 ≤ nb) (it : Item) :
    finalRow k nb
      ((List.range D).map fun d => sumQ ((List.range nb).map fun j => (g (it.pt j) it.y).getD d 0))
      ((List.range D).map fun d => sumQ ((List.range nb).map fun j =>
        (g (it.pt j) it.y).getD d 0 * (g (it.pt j) it.y).getD d 0))
      = specOne g k D nb it := by
  rw [specOne_flat]
  cases k with
  | smooth =>
    simp only [finalRow, List.map_map]
    apply List.map_congr_left; intro d _
    simp [meanQ]
  | square =>
    simp only [finalRow, List.map_map]
    apply List.map_congr_left; intro d _
    simp only [meanQ, List.length_map, List.length_range]
    rfl
  | var =>
    simp only [finalRow]
    rw [zipWith_map_map_self]
    apply List.map_congr_left; intro d _
    have h := var_identity ((List.range nb).map fun j => (g (it.pt j) it.y).getD d 0) nb (hvar rfl) (by simp)
    have e : ((List.range nb).map fun j => (g (it.pt j) it.y).getD d 0).map (fun a => a * a)
        = (List.range nb).map (fun j => (g (it.pt j) it.y).getD d 0 * (g (it.pt j) it.y).getD d 0) := by
      rw [List.map_map]; rfl
    rw [e] at h
    exact h

/-- running sums of one input after the whole loop -/
private def sumOf (g : Vec → Vec → Vec) (D nb : Nat) (it : Item) : Vec :=
  (List.range D).map fun d => sumQ ((List.range nb).map fun j => (g (it.pt j) it.y).getD d 0)
private def sqSumOf (g : Vec → Vec → Vec) (D nb : Nat) (it : Item) : Vec :=
  (List.range D).map fun d => sumQ ((List.range nb).map fun j =>
    (g (it.pt j) it.y).getD d 0 * (g (it.pt j) it.y).getD d 0)

/-- state of the online statistic after the `while` loop on one input batch: the counter is
    exactly `nb`, the running sums are the sums over the `nb` noisy copies of each input -/
private theorem fold_state (op : GradOp) (g : Vec → Vec → Vec) (hop : PerSample op g)
    (D bsz pbs nb : Nat) (hb : 0 < bsz) (hp : 0 < pbs) (batch : List Item) :
    (chunks pbs nb).foldl (step op D bsz batch) (St.init batch.length D)
      = ⟨nb, batch.map (sumOf g D nb), batch.map (sqSumOf g D nb)⟩ := by
  have hstep : (chunks pbs nb).foldl (step op D bsz batch) (St.init batch.length D)
      = (chunks pbs nb).foldl (fun st tc => St.update D st tc.2 (batch.map fun it =>
          (List.range tc.2).map fun k => g (it.pt (tc.1 + k)) it.y)) (St.init batch.length D) := by
    apply List.foldl_ext
    intro st tc htc
    exact step_eq op g hop D bsz hb batch st tc (gs_chunk_bounds pbs nb hp tc htc).1
  rw [hstep]
  have hinit : St.init batch.length D = ⟨0, batch.map (fun _ => vzero D), batch.map (fun _ => vzero D)⟩ := by
    simp [St.init, List.map_const']
  rw [hinit, fold_update, gs_uses_exactly_nb pbs nb hp]
  have hs : ∀ it : Item, (chunks pbs nb).foldl (fun acc tc => vadd acc (colSum D
        ((List.range tc.2).map fun k => g (it.pt (tc.1 + k)) it.y))) (vzero D) = sumOf g D nb it := by
    intro it
    exact item_fold D pbs nb hp (fun d j => (g (it.pt j) it.y).getD d 0)
      (fun tc => (List.range tc.2).map fun k => g (it.pt (tc.1 + k)) it.y) colSum
      (by intro tc; simp only [colSum, List.map_map]; rfl)
  have hs2 : ∀ it : Item, (chunks pbs nb).foldl (fun acc tc => vadd acc (colSqSum D
        ((List.range tc.2).map fun k => g (it.pt (tc.1 + k)) it.y))) (vzero D) = sqSumOf g D nb it := by
    intro it
    exact item_fold D pbs nb hp (fun d j => (g (it.pt j) it.y).getD d 0 * (g (it.pt j) it.y).getD d 0)
      (fun tc => (List.range tc.2).map fun k => g (it.pt (tc.1 + k)) it.y) colSqSum
      (by intro tc; simp only [colSqSum, List.map_map]; rfl)
  simp only [hs, hs2, Nat.zero_add]

/-- one input batch of `GradientStatistic.explain` = the per-input statistics of its members -/
private theorem batchRun_eq (op : GradOp) (g : Vec → Vec → Vec) (hop : PerSample op g) (k : Kind)
    (D bsz pbs nb : Nat) (hb : 0 < bsz) (hp : 0 < pbs) (hnb : 1 ≤ nb) (hvar : k = .var → 2 ≤ nb)
    (batch : List Item) :
    batchRun op k D bsz pbs nb batch = some (batch.map (specOne g k D nb)) := by
  unfold batchRun
  rw [fold_state op g hop D bsz pbs nb hb hp batch]
  unfold St.final
  have h0 : nb ≠ 0 := by omega
  have hv : ¬ (k = Kind.var ∧ nb < 2) := by
    rintro ⟨h1, h2⟩; have := hvar h1; omega
  simp only [h0, hv, if_false]
  rw [zipWith_map_map_self]
  congr 1
  apply List.map_congr_left; intro it _
  exact finalRow_eq g k D nb hnb hvar it

/-- **C01 main theorem (SmoothGrad family)** — for every batch size (`none` or positive), every
    number of inputs, `nb ≥ 1` (`nb ≥ 2` for VarGrad), dimension and noise realisation, the model of
    `GradientStatistic.explain` returns, input by input and coordinate by coordinate, the statistic
    of the gradients at exactly the `nb` noisy copies of that input (`gsSpec = items.map specOne`:
    this is also the per-sample statement used by C03). -/
theorem gs_impl_eq_spec (op : GradOp) (g : Vec → Vec → Vec) (hop : PerSample op g) (k : Kind) (D : Nat)
    (bs : Option Nat) (hbs : ∀ b, bs = some b → 0 < b) (nb : Nat) (hnb : 1 ≤ nb)
    (hvar : k = .var → 2 ≤ nb) (items : List Item) :
    gsImpl op k D bs nb items = some (gsSpec g k D nb items) := by
  unfold gsImpl gsSpec
  by_cases hi : items = []
  · subst hi; simp [batches_nil, allSome]
  · have hn : 0 < items.length := List.length_pos_iff.mpr hi
    have he := eff_pos bs hbs items.length nb hn (by omega)
    have hp := pbs_pos bs items.length nb he (by omega)
    have hib := ibs_pos bs items.length nb
    have hb : 0 < (effBs bs items.length nb).toNat := by omega
    simp only
    have : (batches (ibsOf bs items.length nb) items).map
          (batchRun op k D (effBs bs items.length nb).toNat (pbsOf bs items.length nb) nb)
        = (batches (ibsOf bs items.length nb) items).map (fun b => some (b.map (specOne g k D nb))) := by
      apply List.map_congr_left; intro b _
      exact batchRun_eq op g hop k D _ _ nb hb hp hnb hvar b
    rw [this, allSome_map_some, Option.map_some, ← List.flatMap_def,
      flatMap_batches_map _ hib]

/-- per-sample form: the explanation of a list of inputs is the list of the explanations of
    each input on its own (whatever the batch size) -/
theorem gs_per_sample (op : GradOp) (g : Vec → Vec → Vec) (hop : PerSample op g) (k : Kind) (D : Nat)
    (bs : Option Nat) (hbs : ∀ b, bs = some b → 0 < b) (nb : Nat) (hnb : 1 ≤ nb)
    (hvar : k = .var → 2 ≤ nb) (items : List Item) :
    gsImpl op k D bs nb items = some (items.map (specOne g k D nb)) :=
  gs_impl_eq_spec op g hop k D bs hbs nb hnb hvar items

/-- **batch-size independence** of SmoothGrad / SquareGrad / VarGrad (same noisy copies) -/
theorem gs_bs_indep (op : GradOp) (g : Vec → Vec → Vec) (hop : PerSample op g) (k : Kind) (D : Nat)
    (b : Nat) (hb : 0 < b) (nb : Nat) (hnb : 1 ≤ nb) (hvar : k = .var → 2 ≤ nb) (items : List Item) :
    gsImpl op k D (some b) nb items = gsImpl op k D none nb items := by
  rw [gs_impl_eq_spec op g hop k D (some b) (by intro b' h; cases h; exact hb) nb hnb hvar,
      gs_impl_eq_spec op g hop k D none (by intro b' h; cases h) nb hnb hvar]

/-- SmoothGrad: coordinate `d` of input `it` is the mean over its `nb` noisy copies of `∂s/∂x_d` -/
theorem smoothgrad_eq_mean (op : GradOp) (g : Vec → Vec → Vec) (hop : PerSample op g) (D : Nat)
    (bs : Option Nat) (hbs : ∀ b, bs = some b → 0 < b) (nb : Nat) (hnb : 1 ≤ nb) (items : List Item) :
    gsImpl op .smooth D bs nb items = some (items.map fun it => (List.range D).map fun d =>
      meanQ ((List.range nb).map fun j => (g (it.pt j) it.y).getD d 0)) := by
  rw [gs_impl_eq_spec op g hop .smooth D bs hbs nb hnb (by intro h; cases h) items, gsSpec]
  congr 1; apply List.map_congr_left; intro it _; rw [specOne_flat]

/-- SquareGrad: mean of the squared gradients -/
theorem squaregrad_eq_meansq (op : GradOp) (g : Vec → Vec → Vec) (hop : PerSample op g) (D : Nat)
    (bs : Option Nat) (hbs : ∀ b, bs = some b → 0 < b) (nb : Nat) (hnb : 1 ≤ nb) (items : List Item) :
    gsImpl op .square D bs nb items = some (items.map fun it => (List.range D).map fun d =>
      meanQ (((List.range nb).map fun j => (g (it.pt j) it.y).getD d 0).map fun a => a * a)) := by
  rw [gs_impl_eq_spec op g hop .square D bs hbs nb hnb (by intro h; cases h) items, gsSpec]
  congr 1; apply List.map_congr_left; intro it _; rw [specOne_flat]

/-- VarGrad: unbiased sample variance `Σ (g_j − ḡ)² / (nb − 1)`, for `nb ≥ 2` -/
theorem vargrad_eq_unbiased (op : GradOp) (g : Vec → Vec → Vec) (hop : PerSample op g) (D : Nat)
    (bs : Option Nat) (hbs : ∀ b, bs = some b → 0 < b) (nb : Nat) (hnb : 2 ≤ nb) (items : List Item) :
    gsImpl op .var D bs nb items = some (items.map fun it => (List.range D).map fun d =>
      let col := (List.range nb).map fun j => (g (it.pt j) it.y).getD d 0
      sumQ (col.map fun a => (a - meanQ col) * (a - meanQ col)) / ((nb : Rat) - 1)) := by
  rw [gs_impl_eq_spec op g hop .var D bs hbs nb (by omega) (fun _ => hnb) items, gsSpec]
  congr 1; apply List.map_congr_left; intro it _; rw [specOne_flat]

/-- VarGrad with a single sample is undefined (the code asserts `_elements_counter >= 2`) -/
theorem vargrad_one_sample_undefined (op : GradOp) (g : Vec → Vec → Vec) (hop : PerSample op g) (D : Nat)
    (bs : Option Nat) (hbs : ∀ b, bs = some b → 0 < b) (items : List Item) (hi : items ≠ []) :
    gsImpl op .var D bs 1 items = none := by
  unfold gsImpl
  have hn : 0 < items.length := List.length_pos_iff.mpr hi
  have he := eff_pos bs hbs items.length 1 hn (by omega)
  have hp := pbs_pos bs items.length 1 he (by omega)
  have hib := ibs_pos bs items.length 1
  have hb : 0 < (effBs bs items.length 1).toNat := by omega
  simp only
  have hne : ¬ (ibsOf bs items.length 1 = 0 ∨ items = []) := by
    rintro (h | h)
    · omega
    · exact hi h
  rw [batches, dif_neg hne, List.map_cons]
  have : batchRun op .var D (effBs bs items.length 1).toNat (pbsOf bs items.length 1) 1
      (items.take (ibsOf bs items.length 1)) = none := by
    unfold batchRun
    rw [fold_state op g hop D _ _ 1 hb hp]
    simp [St.final]
  rw [this]
  rfl

/-! ### channel reducer (`_harmonize_channel_dimension`) -/

/-- `reducer = None` keeps the channels -/
theorem reducer_none_unchanged (lay : Layout) (v : Vec) : harmonize none lay v = v := by
  cases lay <;> rfl

/-- tabular data and time series are never reduced; neither are single-channel images -/
theorem reducer_only_images (r : Option Reducer) (v : Vec) :
    harmonize r .tab v = v ∧ harmonize r .ts v = v ∧ harmonize r (.img 1) v = v := by
  refine ⟨rfl, rfl, ?_⟩
  cases r <;> simp [harmonize]

private theorem take_eq_range_getD (c : Nat) (v : Vec) (h : c ≤ v.length) :
    v.take c = (List.range c).map fun k => v.getD k 0 := by
  apply List.ext_getElem (by simp [h])
  intro i h1 h2
  have hi : i < c := by simpa using h2
  have hv : i < v.length := by omega
  simp [List.getD_eq_getElem?_getD, List.getElem?_eq_getElem hv]

private theorem batches_eq_pixels (c : Nat) (hc : 0 < c) : ∀ (p : Nat) (v : Vec), v.length = p * c →
    batches c v = (List.range p).map fun i => (List.range c).map fun k => v.getD (i * c + k) 0 := by
  intro p
  induction p with
  | zero => intro v h; have : v = [] := List.eq_nil_of_length_eq_zero (by simpa using h)
            subst this; simp [batches_nil]
  | succ p ih =>
    intro v h
    have hlen : c ≤ v.length := by rw [h]; exact Nat.le_mul_of_pos_left c (Nat.succ_pos p)
    have hne : ¬ (c = 0 ∨ v = []) := by
      rintro (h0 | h0)
      · omega
      · subst h0; simp at hlen; omega
    rw [batches, dif_neg hne, ih (v.drop c) (by rw [List.length_drop, h, Nat.succ_mul]; omega),
      List.range_succ_eq_map, List.map_cons, List.map_map, take_eq_range_getD c v hlen]
    congr 1
    · simp
    · apply List.map_congr_left; intro i _
      apply List.map_congr_left; intro k _
      simp only [Function.comp, List.getD_eq_getElem?_getD, List.getElem?_drop]
      congr 2
      rw [Nat.succ_mul]; omega

/-- **reducer clause** — for an image with `C ≠ 1` channels the explanation of pixel `p` is the
    requested reduction of that pixel's `C` channel values (entries `p·C … p·C + C − 1`) -/
theorem reducer_spec (r : Reducer) (c p : Nat) (hc : 0 < c) (hc1 : c ≠ 1) (v : Vec) (hv : v.length = p * c) :
    harmonize (some r) (.img c) v = reducePixels r c v := by
  unfold harmonize reducePixels
  simp only [hc1, ne_eq, not_false_eq_true, if_true]
  rw [batches_eq_pixels c hc p v hv, hv, Nat.mul_div_cancel p hc, List.map_map]
  rfl

private theorem foldl_ratMin_le (l : List Rat) (i : Rat) :
    l.foldl ratMin i ≤ i ∧ (∀ a ∈ l, l.foldl ratMin i ≤ a) ∧ (l.foldl ratMin i = i ∨ l.foldl ratMin i ∈ l) := by
  induction l generalizing i with
  | nil => simp
  | cons a l ih =>
    simp only [List.foldl_cons, List.mem_cons]
    obtain ⟨h1, h2, h3⟩ := ih (ratMin i a)
    have hm : ratMin i a ≤ i ∧ ratMin i a ≤ a ∧ (ratMin i a = i ∨ ratMin i a = a) := by
      unfold ratMin; split <;> rename_i h
      · exact ⟨le_refl _, h, Or.inl rfl⟩
      · exact ⟨le_of_lt (not_le.mp h), le_refl _, Or.inr rfl⟩
    refine ⟨le_trans h1 hm.1, ?_, ?_⟩
    · rintro b (rfl | hb)
      · exact le_trans h1 hm.2.1
      · exact h2 b hb
    · rcases h3 with h3 | h3
      · rcases hm.2.2 with h4 | h4
        · left; rw [h3, h4]
        · right; left; rw [h3, h4]
      · right; right; exact h3

private theorem foldl_ratMax_ge (l : List Rat) (i : Rat) :
    i ≤ l.foldl ratMax i ∧ (∀ a ∈ l, a ≤ l.foldl ratMax i) ∧ (l.foldl ratMax i = i ∨ l.foldl ratMax i ∈ l) := by
  induction l generalizing i with
  | nil => simp
  | cons a l ih =>
    simp only [List.foldl_cons, List.mem_cons]
    obtain ⟨h1, h2, h3⟩ := ih (ratMax i a)
    have hm : i ≤ ratMax i a ∧ a ≤ ratMax i a ∧ (ratMax i a = i ∨ ratMax i a = a) := by
      unfold ratMax; split <;> rename_i h
      · exact ⟨h, le_refl _, Or.inr rfl⟩
      · exact ⟨le_refl _, le_of_lt (not_le.mp h), Or.inl rfl⟩
    refine ⟨le_trans hm.1 h1, ?_, ?_⟩
    · rintro b (rfl | hb)
      · exact le_trans hm.2.1 h1
      · exact h2 b hb
    · rcases h3 with h3 | h3
      · rcases hm.2.2 with h4 | h4
        · left; rw [h3, h4]
        · right; left; rw [h3, h4]
      · right; right; exact h3

/-- the `min` / `max` reducers return an element of the pixel's channel values that bounds all of
    them; `sum` is the sum and `mean` the sum divided by the number of channels -/
theorem red_characterisation (l : List Rat) (hl : l ≠ []) :
    (red .min l ∈ l ∧ ∀ a ∈ l, red .min l ≤ a) ∧ (red .max l ∈ l ∧ ∀ a ∈ l, a ≤ red .max l)
      ∧ red .sum l = sumQ l ∧ red .mean l = sumQ l / (l.length : Rat) := by
  cases l with
  | nil => exact absurd rfl hl
  | cons a t =>
    refine ⟨?_, ?_, rfl, rfl⟩
    · obtain ⟨h1, h2, h3⟩ := foldl_ratMin_le (a :: t) a
      refine ⟨?_, h2⟩
      rcases h3 with h3 | h3
      · show List.foldl ratMin a (a :: t) ∈ a :: t
        rw [h3]; simp
      · exact h3
    · obtain ⟨h1, h2, h3⟩ := foldl_ratMax_ge (a :: t) a
      refine ⟨?_, h2⟩
      rcases h3 with h3 | h3
      · show List.foldl ratMax a (a :: t) ∈ a :: t
        rw [h3]; simp
      · exact h3

/-! ### non-vacuity -/

/-- the per-sample hypothesis is met by the operator of any per-sample gradient -/
example (g : Vec → Vec → Vec) : PerSample (gradMap g) g := fun _ => rfl

-- score s(x) = y₀ · (x₀² + 3 x₁): gradient (2 x₀ y₀, 3 y₀); three noisy copies, batch size 2 < nb
example : gsImpl (gradMap fun p y => [2 * p.getD 0 0 * y.getD 0 0, 3 * y.getD 0 0]) .var 2 (some 2) 3
    [{ pt := fun k => [(k : Rat), 1], y := [2] }, { pt := fun k => [1 - (k : Rat) / 2, 0], y := [1] }]
    = some [[16, 0], [1, 0]] := by decide +kernel
example : gsImpl (gradMap fun p y => [2 * p.getD 0 0 * y.getD 0 0, 3 * y.getD 0 0]) .smooth 2 none 3
    [{ pt := fun k => [(k : Rat), 1], y := [2] }] = some [[4, 6]] := by decide +kernel
example : chunks 3 8 = [(0, 3), (3, 3), (6, 2)] := by decide +kernel
example : harmonize (some .max) (.img 2) [1, 5, -2, -3] = [5, -2] := by decide +kernel

end Xp.GS
