/-
  C18 — prototype selection (ProtoGreedy / MMDCritic / ProtoDash) is batching-independent and
  maximises its stated objective.

  `ProtoSel.run (cfgOf K n b meth inv eps) m` is the executable model of
  `ProtoGreedySearch.__init__` (triangular traversal of the kernel matrix, padded tables, greedy loop
  with mask, per-batch `tf.argmax`, strict `>` across batches, method-specific objectives and weight
  updates) on a dataset of `n` cases cut into batches of `b`; `specRun` / `greedySpec` / `objSpec` / `mu`
  are the batch-free reference definitions.  The kernel `K` (values of `kernel_fn`, e.g. through `exp`)
  and `inv` (`tf.linalg.inv`) are parameters; the only hypothesis on `K` is symmetry, none on `inv`.
  All theorems hold for every dataset size, every batch size `b ≥ 1` and every number of prototypes.
-/
import XpModel.ProtoSel
import XpProofs.Lemmas.ProtoArgmax
import XpProofs.Lemmas.ProtoTri
import XpProofs.Lemmas.ProtoGreedy
import XpProofs.Lemmas.ProtoRun
import XpProofs.Lemmas.ProtoSpec
import XpProofs.Lemmas.SqDist

namespace Xp.ProtoSel

/-- **Column means by the triangular traversal** — for a symmetric kernel and ANY partition of the
    dataset into batches (any sizes, remainder batch, one batch), traversing only the lower block
    triangle and re-using the stored row sums yields, for every case `j`, the sum of the whole kernel
    column `Σ_i K i j`; the diagonal values and the number of samples are right too. -/
theorem colmeans_triangular (K : Kern) (hsym : ∀ i j, K i j = K j i) (bt : List (List Nat)) :
    (triangular K bt).colSums = bt.map (fun colB => colB.map fun j => sumQ (bt.flatten.map fun i => K i j)) ∧
    (triangular K bt).diag = bt.map (fun colB => colB.map fun j => K j j) ∧
    (triangular K bt).nb = bt.flatten.length := by
  obtain ⟨h1, h2, h3⟩ := triangular_spec K bt hsym
  refine ⟨h1, ?_, h3⟩
  rw [h2]
  apply List.map_congr_left
  intro l _
  exact diagBlock_self K l

/-- **Tables** — in the padded `(n_batches, batch_size)` tables `kernel_col_means` / `kernel_diag`
    of a dataset of `n` rows cut into batches of `b`, the cell `(bi, p)` of a real case holds the mean
    of the full kernel column, resp. the kernel diagonal, of dataset row `bi * b + p` — which is the
    flat index computed by the GENERATED `Gen.flatIndex`. -/
theorem diag_spec (K : Kern) (hsym : ∀ i j, K i j = K j i) (n b : Nat) (hb : 0 < b) (bi p : Nat)
    (hbi : bi < (batches b (List.range n)).length)
    (hp : p < ((batches b (List.range n)).getD bi []).length) :
    p < b ∧ bi * b + p < n ∧
    Gen.flatIndex (bi : Int) (b : Int) (p : Int) = ((bi * b + p : Nat) : Int) ∧
    get2 (colMeansTable K b (batches b (List.range n))) bi p = mu K (List.range n) (bi * b + p) ∧
    get2 (diagTable K b (batches b (List.range n))) bi p = K (bi * b + p) (bi * b + p) := by
  obtain ⟨h1, h2, h3⟩ := batches_range_pos n b hb bi p hp
  obtain ⟨t1, t2⟩ := tables_spec K hsym b (batches b (List.range n)) bi p hbi hp
  rw [h1, flatten_batches b hb] at t1
  rw [h1] at t2
  refine ⟨h2, h3, ?_, t1, t2⟩
  unfold Gen.flatIndex
  push_cast
  ring

/-- padding cells are never candidates: every candidate position of a step is a real case -/
theorem candidates_are_cases (c : Cfg) (st : Sel) : ∀ q ∈ positions c st, validPos c q :=
  positions_valid c st

/-- the state reached by the model after `k` selection steps -/
abbrev reached (K : Kern) (n b : Nat) (meth : Method) (inv : List (List Rat) → List (List Rat)) (eps : Rat)
    (m k : Nat) : Sel :=
  runFrom (cfgOf K n b meth inv eps) (initSel (cfgOf K n b meth inv eps) m) k

/-- **Per-batch objective = documented objective from the full kernel matrix** — at every reachable
    state of the loop and for every real position `(bi, p)`, the objective computed by
    `_compute_batch_objectives` from the tables, the incrementally built selection kernel and the
    candidate–selection kernel is the reference objective `objSpec` of dataset row `bi * b + p` given
    the cases selected so far. -/
theorem objective_spec (K : Kern) (hsym : ∀ i j, K i j = K j i) (n b : Nat) (hb : 0 < b) (meth : Method)
    (inv : List (List Rat) → List (List Rat)) (eps : Rat) (m k bi p : Nat)
    (hbi : bi < (batches b (List.range n)).length)
    (hp : p < ((batches b (List.range n)).getD bi []).length) :
    (evalCand (cfgOf K n b meth inv eps) (reached K n b meth inv eps m k) bi
        ((batches b (List.range n)).getD bi []) p).obj
      = objSpec meth inv eps K (List.range n) (reached K n b meth inv eps m k).cases (bi * b + p) := by
  have hc := cfgOf_ok K hsym n b hb meth inv eps
  have hinv := (runFrom_spec _ hc _ (initSel_inv (cfgOf K n b meth inv eps) m) k).2
  have := evalCand_obj (cfgOf K n b meth inv eps) hc _ hinv (bi, p) ⟨hbi, hp⟩
  have hflat : (cfgOf K n b meth inv eps).bt.flatten = List.range n := flatten_batches b hb _
  rw [hflat] at this
  have hphi : phi (cfgOf K n b meth inv eps) (bi, p) = bi * b + p := (batches_range_pos n b hb bi p hp).1
  rw [hphi] at this
  exact this

/-- **MMD-critic objective** — the value computed by `MMDCriticSearch._compute_batch_objectives`
    for the candidate at position `(bi, p)` is `2 μ_x − (K_xx + 2 Σ_{s∈S} K_sx) / (|S| + 1)` with
    `x = bi * b + p`, `S` the cases selected so far and `μ` the dense column mean of the FULL kernel. -/
theorem mmd_objective_spec (K : Kern) (hsym : ∀ i j, K i j = K j i) (n b : Nat) (hb : 0 < b)
    (inv : List (List Rat) → List (List Rat)) (eps : Rat) (m k bi p : Nat)
    (hbi : bi < (batches b (List.range n)).length)
    (hp : p < ((batches b (List.range n)).getD bi []).length) :
    let S := (reached K n b .mmd inv eps m k).cases
    let x := bi * b + p
    (evalCand (cfgOf K n b .mmd inv eps) (reached K n b .mmd inv eps m k) bi
        ((batches b (List.range n)).getD bi []) p).obj
      = 2 * (sumQ ((List.range n).map fun i => K i x) / (n : Rat))
        - (K x x + 2 * sumQ (S.map fun s => K s x)) / ((S.length : Rat) + 1) := by
  intro S x
  rw [objective_spec K hsym n b hb .mmd inv eps m k bi p hbi hp]
  simp [objSpec, mmdSpec, mu, S, x]

/-- **ProtoGreedy objective** — the value computed by `ProtoGreedySearch._compute_batch_objectives`
    (kernel of `S ∪ {x}` assembled by `tf.concat`s from the incremental selection kernel) is
    `wᵀμ − ½ wᵀ K w` on `T = S ∪ {x}` for `w = max((K_T + eps I)⁻¹ μ_T, 0)`, everything taken from the
    FULL kernel matrix. -/
theorem protogreedy_objective_spec (K : Kern) (hsym : ∀ i j, K i j = K j i) (n b : Nat) (hb : 0 < b)
    (inv : List (List Rat) → List (List Rat)) (eps : Rat) (m k bi p : Nat)
    (hbi : bi < (batches b (List.range n)).length)
    (hp : p < ((batches b (List.range n)).getD bi []).length) :
    let T := (reached K n b .greedy inv eps m k).cases ++ [bi * b + p]
    let muT := T.map (mu K (List.range n))
    let w := (matVec (inv (addEps eps (subMat K T))) muT).map relu
    (evalCand (cfgOf K n b .greedy inv eps) (reached K n b .greedy inv eps m k) bi
        ((batches b (List.range n)).getD bi []) p).obj
      = dot w muT - (1/2 : Rat) * dot w (matVec (subMat K T) w) := by
  intro T muT w
  rw [objective_spec K hsym n b hb .greedy inv eps m k bi p hbi hp]
  rfl

/-- **ProtoDash objective as coded** — `μ_x − Σ_{s∈S} K_xs μ_s` (only its first step, `μ_x`, is
    fixed by the property; see `protodash_first`). -/
theorem protodash_objective_spec (K : Kern) (hsym : ∀ i j, K i j = K j i) (n b : Nat) (hb : 0 < b)
    (inv : List (List Rat) → List (List Rat)) (eps : Rat) (m k bi p : Nat)
    (hbi : bi < (batches b (List.range n)).length)
    (hp : p < ((batches b (List.range n)).getD bi []).length) :
    let S := (reached K n b .dash inv eps m k).cases
    let x := bi * b + p
    (evalCand (cfgOf K n b .dash inv eps) (reached K n b .dash inv eps m k) bi
        ((batches b (List.range n)).getD bi []) p).obj
      = mu K (List.range n) x - sumQ (S.map fun s => K x s * mu K (List.range n) s) := by
  intro S x
  rw [objective_spec K hsym n b hb .dash inv eps m k bi p hbi hp]
  rfl

/-- **Refinement** — for every batch size the selected cases (in selection order) and the raw weight
    vector of the model of the implementation are those of the batch-free reference run, and the
    selected cases are the greedy first-arg-max selection of the documented objective. -/
theorem greedy_impl_eq_spec (K : Kern) (hsym : ∀ i j, K i j = K j i) (n b : Nat) (hb : 0 < b)
    (meth : Method) (inv : List (List Rat) → List (List Rat)) (eps : Rat) (m : Nat) :
    ((run (cfgOf K n b meth inv eps) m).cases, (run (cfgOf K n b meth inv eps) m).w)
        = specRun meth inv eps K (List.range n) m ∧
    (run (cfgOf K n b meth inv eps) m).cases = greedySpec (objSpec meth inv eps K (List.range n)) (List.range n) m := by
  have hc := cfgOf_ok K hsym n b hb meth inv eps
  obtain ⟨h1, _⟩ := run_spec (cfgOf K n b meth inv eps) hc m
  have hflat : (cfgOf K n b meth inv eps).bt.flatten = List.range n := flatten_batches b hb _
  rw [hflat] at h1
  refine ⟨h1, ?_⟩
  have := congrArg Prod.fst h1
  simp only at this
  rw [this]
  exact specRunFrom_fst meth inv eps K (List.range n) _ m

/-- **Batching independence** — selection, selection order and weights (raw and normalised) do not
    depend on the batch size. -/
theorem proto_batching_indep (K : Kern) (hsym : ∀ i j, K i j = K j i) (n b b' : Nat) (hb : 0 < b)
    (hb' : 0 < b') (meth : Method) (inv : List (List Rat) → List (List Rat)) (eps : Rat) (m : Nat) :
    (run (cfgOf K n b meth inv eps) m).cases = (run (cfgOf K n b' meth inv eps) m).cases ∧
    (run (cfgOf K n b meth inv eps) m).w = (run (cfgOf K n b' meth inv eps) m).w ∧
    normalize (run (cfgOf K n b meth inv eps) m).w = normalize (run (cfgOf K n b' meth inv eps) m).w := by
  have h1 := (greedy_impl_eq_spec K hsym n b hb meth inv eps m).1
  have h2 := (greedy_impl_eq_spec K hsym n b' hb' meth inv eps m).1
  have h := h1.trans h2.symm
  have hc := congrArg Prod.fst h
  have hw := congrArg Prod.snd h
  simp only at hc hw
  exact ⟨hc, hw, by rw [hw]⟩

open Xp.Lime in
/-- translation invariance: for a kernel that is a function of the squared Euclidean distance (the default rbf), adding a common
    offset to every case changes no kernel value, hence neither the selected prototypes, their order nor their weights -/
theorem proto_translation_invariant (κ : Rat → Rat) (pts : Nat → List Rat) (c : Rat) (n b : Nat) (meth : Method)
    (inv : List (List Rat) → List (List Rat)) (eps : Rat) (m : Nat) :
    run (cfgOf (fun i j => κ (sqDist ((pts i).map (· + c)) ((pts j).map (· + c)))) n b meth inv eps) m
      = run (cfgOf (fun i j => κ (sqDist (pts i) (pts j))) n b meth inv eps) m := by
  simp only [sqDist_translation]

/-- `batch_size = None` (one batch holding everything) is the special case `b = n` -/
theorem proto_bs_indep (K : Kern) (hsym : ∀ i j, K i j = K j i) (n b : Nat) (hn : 0 < n) (hb : 0 < b)
    (meth : Method) (inv : List (List Rat) → List (List Rat)) (eps : Rat) (m : Nat) :
    (run (cfgOf K n b meth inv eps) m).cases = (run (cfgOf K n (effBatch none n) meth inv eps) m).cases ∧
    (run (cfgOf K n b meth inv eps) m).w = (run (cfgOf K n (effBatch none n) meth inv eps) m).w :=
  let h := proto_batching_indep K hsym n b n hb hn meth inv eps m
  ⟨h.1, h.2.1⟩

/-- **Reported indices** — the `(batch, position)` pairs stored in `prototypes_indices` are real
    positions, and the flat index `batch * batch_size + position` (the GENERATED `Gen.flatIndex`) of the
    `t`-th pair is the `t`-th selected dataset row. -/
theorem proto_indices_flat (K : Kern) (hsym : ∀ i j, K i j = K j i) (n b : Nat) (hb : 0 < b)
    (meth : Method) (inv : List (List Rat) → List (List Rat)) (eps : Rat) (m : Nat) :
    (run (cfgOf K n b meth inv eps) m).idx.map (fun q => Gen.flatIndex (q.1 : Int) (b : Int) (q.2 : Int))
      = (run (cfgOf K n b meth inv eps) m).cases.map Int.ofNat ∧
    ∀ q ∈ (run (cfgOf K n b meth inv eps) m).idx, q.2 < b ∧ q.1 * b + q.2 < n := by
  have hc := cfgOf_ok K hsym n b hb meth inv eps
  obtain ⟨_, hinv⟩ := run_spec (cfgOf K n b meth inv eps) hc m
  constructor
  · rw [hinv.cases_eq, List.map_map]
    apply List.map_congr_left
    intro q hq
    have hv := hinv.valid q hq
    have := (batches_range_pos n b hb q.1 q.2 hv.2).1
    simp only [Function.comp]
    have hphi : phi (cfgOf K n b meth inv eps) q = q.1 * b + q.2 := this
    rw [hphi]
    unfold Gen.flatIndex
    simp only [Int.ofNat_eq_natCast]
    push_cast
    ring
  · intro q hq
    have hv := hinv.valid q hq
    have := batches_range_pos n b hb q.1 q.2 hv.2
    exact ⟨this.2.1, this.2.2⟩

/-- **Greedy arg-max** — as long as fewer than `n` cases are selected, step `m + 1` of the model of
    the implementation (any batch size) appends the FIRST maximiser, in dataset order, of the
    documented objective over the cases not selected yet. -/
theorem greedy_argmax (K : Kern) (hsym : ∀ i j, K i j = K j i) (n b : Nat) (hb : 0 < b)
    (meth : Method) (inv : List (List Rat) → List (List Rat)) (eps : Rat) (m : Nat) (hm : m < n) :
    let S := (run (cfgOf K n b meth inv eps) m).cases
    let obj := objSpec meth inv eps K (List.range n) S
    ∃ c, (run (cfgOf K n b meth inv eps) (m + 1)).cases = S ++ [c] ∧ c < n ∧ c ∉ S ∧
      (∀ y, y < n → y ∉ S → obj y ≤ obj c) ∧ (∀ y, y < c → y ∉ S → obj y < obj c) := by
  intro S obj
  have h1 := (greedy_impl_eq_spec K hsym n b hb meth inv eps m).2
  have h2 := (greedy_impl_eq_spec K hsym n b hb meth inv eps (m + 1)).2
  obtain ⟨c, hc1, hc2, hc3, hc4, hc5⟩ := greedySpec_argmax (objSpec meth inv eps K (List.range n)) n m hm
  refine ⟨c, ?_, hc2, ?_, ?_, ?_⟩
  · show (run (cfgOf K n b meth inv eps) (m + 1)).cases = (run (cfgOf K n b meth inv eps) m).cases ++ [c]
    rw [h2, h1, hc1]
  · show c ∉ (run (cfgOf K n b meth inv eps) m).cases
    rw [h1]; exact hc3
  · show ∀ y, y < n → y ∉ (run (cfgOf K n b meth inv eps) m).cases →
      objSpec meth inv eps K (List.range n) (run (cfgOf K n b meth inv eps) m).cases y ≤
      objSpec meth inv eps K (List.range n) (run (cfgOf K n b meth inv eps) m).cases c
    rw [h1]; exact hc4
  · show ∀ y, y < c → y ∉ (run (cfgOf K n b meth inv eps) m).cases →
      objSpec meth inv eps K (List.range n) (run (cfgOf K n b meth inv eps) m).cases y <
      objSpec meth inv eps K (List.range n) (run (cfgOf K n b meth inv eps) m).cases c
    rw [h1]; exact hc5

/-- **Distinct cases** — for `nb_prototypes ≤ n` the selected dataset rows are pairwise distinct, lie in
    the dataset, and there are exactly `nb_prototypes` of them (and of the reported index pairs). -/
theorem selected_distinct (K : Kern) (hsym : ∀ i j, K i j = K j i) (n b : Nat) (hb : 0 < b)
    (meth : Method) (inv : List (List Rat) → List (List Rat)) (eps : Rat) (m : Nat) (hm : m ≤ n) :
    (run (cfgOf K n b meth inv eps) m).cases.Nodup ∧
    (run (cfgOf K n b meth inv eps) m).cases.length = m ∧
    (∀ c ∈ (run (cfgOf K n b meth inv eps) m).cases, c < n) ∧
    (run (cfgOf K n b meth inv eps) m).idx.Nodup ∧
    (run (cfgOf K n b meth inv eps) m).idx.length = m := by
  have h1 := (greedy_impl_eq_spec K hsym n b hb meth inv eps m).2
  obtain ⟨f1, f2, f3⟩ := greedySpec_facts (objSpec meth inv eps K (List.range n)) (List.range n)
    List.nodup_range m (by simpa using hm)
  have hc := cfgOf_ok K hsym n b hb meth inv eps
  obtain ⟨_, hinv⟩ := run_spec (cfgOf K n b meth inv eps) hc m
  rw [← h1] at f1 f2 f3
  refine ⟨f1, f2, fun c hc => List.mem_range.mp (f3 c hc), ?_, ?_⟩
  · have := f1
    rw [hinv.cases_eq] at this
    exact List.Nodup.of_map _ this
  · have := f2
    rw [hinv.cases_eq, List.length_map] at this
    exact this

/-- **ProtoDash first pick** — for every batch size and every `nb_prototypes ≥ 1`, the first selected
    case is the FIRST case of the dataset with the largest mean kernel value. -/
theorem protodash_first (K : Kern) (hsym : ∀ i j, K i j = K j i) (n b : Nat) (hn : 0 < n) (hb : 0 < b)
    (inv : List (List Rat) → List (List Rat)) (eps : Rat) (m : Nat) (hm : 1 ≤ m) :
    ∃ c, (run (cfgOf K n b .dash inv eps) m).cases.head? = some c ∧ c < n ∧
      (∀ y, y < n → mu K (List.range n) y ≤ mu K (List.range n) c) ∧
      (∀ y, y < c → mu K (List.range n) y < mu K (List.range n) c) := by
  have h1 := (greedy_impl_eq_spec K hsym n b hb .dash inv eps m).2
  obtain ⟨c, hc1, hc2, _, hc4, hc5⟩ := greedySpec_argmax (objSpec .dash inv eps K (List.range n)) n 0 hn
  have hobj : ∀ y, objSpec .dash inv eps K (List.range n) [] y = mu K (List.range n) y := by
    intro y; simp [objSpec, dashSpec]
  have hpre := greedySpec_prefix (objSpec .dash inv eps K (List.range n)) (List.range n) 1 m hm
  refine ⟨c, ?_, hc2, ?_, ?_⟩
  · rw [h1]
    obtain ⟨t, ht⟩ := hpre
    rw [← ht, hc1]
    simp [greedySpec]
  · intro y hy
    have := hc4 y hy (by simp [greedySpec])
    simpa [greedySpec, hobj] using this
  · intro y hy
    have := hc5 y hy (by simp [greedySpec])
    simpa [greedySpec, hobj] using this

/-- **Weights on the simplex** — every raw weight is non-negative (for the three methods, any batch
    size, any `inv`), and whenever the final normalisation is defined (`Σ w ≠ 0`; otherwise the code
    divides 0 by 0) the returned weights are non-negative, as many as the raw ones, and sum to one. -/
theorem weights_simplex (K : Kern) (hsym : ∀ i j, K i j = K j i) (n b : Nat) (hb : 0 < b)
    (meth : Method) (inv : List (List Rat) → List (List Rat)) (eps : Rat) (m : Nat) :
    (∀ v ∈ (run (cfgOf K n b meth inv eps) m).w, 0 ≤ v) ∧
    ∀ w', normalize (run (cfgOf K n b meth inv eps) m).w = some w' →
      (∀ v ∈ w', 0 ≤ v) ∧ sumQ w' = 1 ∧ w'.length = (run (cfgOf K n b meth inv eps) m).w.length := by
  have h1 := (greedy_impl_eq_spec K hsym n b hb meth inv eps m).1
  have hw : (run (cfgOf K n b meth inv eps) m).w = (specRun meth inv eps K (List.range n) m).2 := by
    rw [← h1]
  have hnn : ∀ v ∈ (run (cfgOf K n b meth inv eps) m).w, 0 ≤ v := by
    rw [hw]
    apply specRunFrom_nonneg
    intro v hv
    simp only [List.mem_replicate] at hv
    rw [hv.2]
  exact ⟨hnn, fun w' h => normalize_simplex _ w' hnn h⟩

/-- **MMD-critic weights** — for `1 ≤ nb_prototypes ≤ n` every prototype gets the weight
    `1 / nb_prototypes` (for every batch size). -/
theorem mmd_weights_uniform (K : Kern) (hsym : ∀ i j, K i j = K j i) (n b : Nat) (hb : 0 < b)
    (inv : List (List Rat) → List (List Rat)) (eps : Rat) (m : Nat) (hm1 : 1 ≤ m) (hm : m ≤ n) :
    normalize (run (cfgOf K n b .mmd inv eps) m).w = some (List.replicate m (1 / (m : Rat))) := by
  have h1 := (greedy_impl_eq_spec K hsym n b hb .mmd inv eps m).1
  have hw : (run (cfgOf K n b .mmd inv eps) m).w = List.replicate m 1 := by
    have := congrArg Prod.snd h1
    simp only at this
    rw [this]
    have h2 := mmd_weights_run inv eps K n m m (le_refl m) hm
    simpa [specRun] using h2
  rw [hw]
  unfold normalize
  have hsum : sumQ (List.replicate m (1 : Rat)) = (m : Rat) := by
    clear hw h1 hm hm1
    induction m with
    | zero => simp
    | succ m ih => rw [List.replicate_succ, sumQ_cons, ih]; push_cast; ring
  simp only [hsum]
  have hm0 : (m : Rat) ≠ 0 := by
    have : (0 : Rat) < m := by exact_mod_cast hm1
    exact ne_of_gt this
  rw [if_neg hm0]
  simp

/-- **ProtoGreedy weights** — for `1 ≤ nb_prototypes ≤ n`, if `inv` returns a matrix with as many rows
    as its argument (true of a matrix inverse), the raw weights are the documented optimal weights
    `max((K_S + eps I)⁻¹ μ_S, 0)` of the final selection `S`, from the full kernel matrix. -/
theorem protogreedy_weights (K : Kern) (hsym : ∀ i j, K i j = K j i) (n b : Nat) (hb : 0 < b)
    (inv : List (List Rat) → List (List Rat)) (hinv : ∀ M, (inv M).length = M.length) (eps : Rat)
    (m : Nat) (hm1 : 1 ≤ m) (hm : m ≤ n) :
    (run (cfgOf K n b .greedy inv eps) m).w
      = pgSpecWeights inv eps K (List.range n) (run (cfgOf K n b .greedy inv eps) m).cases := by
  have h1 := (greedy_impl_eq_spec K hsym n b hb .greedy inv eps m).1
  have hc := congrArg Prod.fst h1
  have hw := congrArg Prod.snd h1
  simp only at hc hw
  rw [hw, hc]
  have := (pg_weights_run inv hinv eps K n m m (le_refl m) hm).2 (by omega)
  simpa [specRun] using this

/-- the flat index computed by `format_search_output` (GENERATED `Gen.flatIndex`) inverts the
    `(batch, position)` pair under which `KNN` (batch size `bs > 0`) reports the `t`-th prototype -/
theorem flat_index_roundtrip (bs t : Nat) (hbs : 0 < bs) :
    (Gen.flatIndex ((knnPair bs t).1 : Int) (bs : Int) ((knnPair bs t).2 : Int)).toNat = t := by
  unfold Gen.flatIndex knnPair
  have : ((t / bs : Nat) : Int) * (bs : Int) + ((t % bs : Nat) : Int) = (t : Int) := by
    have := Nat.div_add_mod t bs
    rw [Nat.mul_comm] at this
    exact_mod_cast this
  simp only [this, Int.toNat_natCast]

/-- **Local explanations: index translation** — `format_search_output` turns the `(batch, position)`
    pairs under which `KNN` (batch size `bs ≥ 1`, run over the list of prototypes) reports the `k`
    nearest prototypes into exactly the dataset indices and labels of those prototypes. -/
theorem local_spec (bs k : Nat) (hbs : 0 < bs) (protoIdx : List (Nat × Nat)) (labels dist : List Rat) :
    localExplain bs k protoIdx labels dist
      = (kNearest dist k).map fun d => (d.1, protoIdx.getD d.2 (0, 0), labels.getD d.2 0) := by
  unfold localExplain formatOutput
  simp only [List.map_map]
  rw [← List.map_id (kNearest dist k)]
  simp only [List.map_map, List.zipWith_map_left, List.zipWith_map_right]
  rw [List.zipWith_self] 
  apply List.map_congr_left
  intro d _
  simp only [Function.comp, id]
  rw [flat_index_roundtrip bs d.2 hbs]

/-- **Local explanations: the k nearest** — the positions returned by the model of the local search are
    the length-`k` prefix of a distance-sorted permutation of ALL prototypes; in particular no
    prototype left out is closer than a returned one. -/
theorem local_nearest (dist : List Rat) (k : Nat) :
    ∃ full : List (Rat × Nat), full.Perm dist.zipIdx ∧ full.Pairwise (fun a b => a.1 ≤ b.1) ∧
      kNearest dist k = full.take k ∧
      ∀ a ∈ kNearest dist k, ∀ c ∈ full.drop k, a.1 ≤ c.1 := by
  obtain ⟨full, h1, h2, h3⟩ := kNearest_spec dist k
  refine ⟨full, h1, h2, h3, ?_⟩
  intro a ha c hc
  rw [h3] at ha
  have := h2
  rw [← List.take_append_drop k full, List.pairwise_append] at this
  exact this.2.2 a ha c hc

/-! ### non-vacuity: a concrete symmetric kernel, several batchings -/

/-- `k(i, j) = 1 / (1 + (i - j)²)` on the row numbers -/
def exK : Kern := fun i j => 1 / (1 + (((i : Int) - (j : Int)) * ((i : Int) - (j : Int)) : Int))

example : ∀ i j, exK i j = exK j i := by
  intro i j
  unfold exK
  congr 2
  push_cast
  ring

example : (run (cfgOf exK 5 2 .mmd (fun M => M) 0) 3).cases = [2, 0, 4] := by decide +kernel
example : (run (cfgOf exK 5 2 .mmd (fun M => M) 0) 3).idx = [(1, 0), (0, 0), (2, 0)] := by decide +kernel
example : (run (cfgOf exK 5 5 .mmd (fun M => M) 0) 3).cases = (run (cfgOf exK 5 1 .mmd (fun M => M) 0) 3).cases := by
  decide +kernel
example : (triangular exK (batches 2 (List.range 5))).nb = 5 := by decide +kernel
example : greedySpec (objSpec .dash (fun M => M) 0 exK (List.range 5)) (List.range 5) 2 = [2, 0] := by
  decide +kernel
example : kNearest [3, 1, 2, 1] 2 = [(1, 1), (1, 3)] := by decide +kernel
example : localExplain 2 2 [(0, 1), (2, 0), (1, 1)] [10, 20, 30] [5, 1, 3] = [(1, (2, 0), 20), (3, (1, 1), 30)] := by
  decide +kernel

end Xp.ProtoSel
