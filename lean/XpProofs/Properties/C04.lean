/-
  C04 — Integrated Gradients: straight path, trapezoid, completeness.

  `IG.igImpl` is the executable model of `IntegratedGradients.explain` (the number of inputs per
  batch is GENERATED from the source); `IG.specOne` is the reference definition of the property:
  `(x − baseline) ·` trapezoidal average of the score gradients at the `steps` equally spaced
  points of the segment from the constant baseline to `x`.  `g` (the gradient of the explained
  score as delivered by TensorFlow autodiff) is a parameter.  Theorems hold for every number of
  inputs, dimension, `steps ≥ 2`, baseline value and batch size (`none` or any positive integer,
  in particular `batch_size < steps`).
-/
import XpModel.IG
import XpProofs.Lemmas.IG
import Mathlib.Algebra.Order.Field.Basic
import Mathlib.Tactic.Positivity
import XpProofs.Lemmas.IGSmooth

namespace Xp.IG

/-! ### the generated scalar arithmetic -/

/-- `max(batch_size // steps, 1)`: the floor quotient, at least one input per batch -/
theorem ig_inputs_per_batch_spec (b steps : Nat) :
    (Gen.igInputsPerBatch (b : Int) (steps : Int)).toNat = max (b / steps) 1 := by
  unfold Gen.igInputsPerBatch
  rw [Int.fdiv_eq_ediv_of_nonneg _ (Int.natCast_nonneg steps)]
  have : ((b : Int) / (steps : Int)) = ((b / steps : Nat) : Int) := by norm_cast
  rw [this]; omega

/-- `len(inputs)` -/
theorem ig_default_bs_spec (n : Nat) : (Gen.igDefaultBs (n : Int)).toNat = n := by
  unfold Gen.igDefaultBs; simp

/-- "batch_size only bounds memory": one batch never holds more than `max(batch_size, steps)`
    interpolated points (one whole path when `batch_size < steps`) -/
theorem ig_points_per_batch_le (b steps n : Nat) : perBatch (some b) steps n * steps ≤ max b steps := by
  unfold perBatch effBs
  rw [ig_inputs_per_batch_spec]
  rcases Nat.lt_or_ge (b / steps) 1 with h | h
  · rw [Nat.max_eq_right (by omega)]; omega
  · rw [Nat.max_eq_left h]
    exact le_trans (Nat.div_mul_le_self b steps) (le_max_left _ _)

private theorem perBatch_pos (bs : Option Nat) (steps n : Nat) : 0 < perBatch bs steps n := by
  unfold perBatch Gen.igInputsPerBatch; omega

/-! ### straight path and label alignment -/

/-- the path starts at the baseline and ends at the input (end points included) -/
theorem ig_endpoints (steps : Nat) (hs : 2 ≤ steps) (b : Rat) (x : Vec) :
    interp steps b x 0 = x.map (fun _ => b) ∧ interp steps b x (steps - 1) = x := by
  have h2 : (2 : Rat) ≤ (steps : Rat) := by exact_mod_cast hs
  have hne : (steps : Rat) - 1 ≠ 0 := by linarith
  constructor
  · unfold interp alpha; simp
  · unfold interp alpha
    have : ((steps - 1 : Nat) : Rat) = (steps : Rat) - 1 := by
      rw [Nat.cast_sub (by omega)]; simp
    rw [this, div_self hne]
    conv_rhs => rw [← List.map_id x]
    apply List.map_congr_left; intro xi _; simp

/-- the nodes are equally spaced: consecutive points differ by `(x − b) / (steps − 1)` -/
theorem ig_equally_spaced (steps : Nat) (b : Rat) (x : Vec) (j : Nat) :
    List.zipWith (· - ·) (interp steps b x (j + 1)) (interp steps b x j)
      = x.map fun xi => (xi - b) / ((steps : Rat) - 1) := by
  unfold interp alpha
  rw [zipWith_map_map_self]
  apply List.map_congr_left; intro xi _
  push_cast; ring

/-- `repeat_labels` is aligned with the interpolation order: every point of the path of input
    `x_n` is evaluated with the target `y_n` -/
theorem ig_labels_aligned (steps : Nat) (b : Rat) (batch : List (Vec × Vec)) :
    (pathPoints steps b (batch.map (·.1))).zip (repeatEach steps (batch.map (·.2)))
      = batch.flatMap fun xy => (List.range steps).map fun j => (interp steps b xy.1 j, xy.2) := by
  unfold pathPoints
  rw [List.flatMap_map,
    zip_flatMap_repeatEach steps (fun xy : Vec × Vec => (List.range steps).map (interp steps b xy.1))
      (fun xy => xy.2) batch (by intro a _; simp)]
  simp only [List.map_map]; rfl

/-! ### refinement -/

private theorem one_eq_spec (g : Vec → Vec → Vec) (steps : Nat) (hs : 1 ≤ steps) (b : Rat) (x y : Vec) :
    vmul (x.map (· - b)) (trapzVec x.length ((List.range steps).map fun j => g (interp steps b x j) y))
      = specOne g steps b x y := by
  rw [specOne_flat]
  unfold vmul
  rw [trapzVec_range, map_eq_range_getD x (· - b), zipWith_map_map_self]
  apply List.map_congr_left; intro d _
  have : ((steps - 1 : Nat) : Rat) = (steps : Rat) - 1 := by
    rw [Nat.cast_sub hs]; simp
  rw [this]; ring

/-- **C04 main theorem** — for every batch size (`none` or positive, including
    `batch_size < steps`), every `steps ≥ 2`, baseline value, number of inputs and dimension, the
    model of `IntegratedGradients.explain` returns for each input `(x − b) ·` the trapezoidal
    average of the gradients at the `steps` equally spaced points of the segment from the baseline
    to `x` (`igSpec = zipWith specOne`: also the per-sample statement used by C03). -/
theorem ig_impl_eq_spec (op : GradOp) (g : Vec → Vec → Vec) (hop : PerSample op g) (steps : Nat)
    (hs : 2 ≤ steps) (b : Rat) (bs : Option Nat) (hbs : ∀ b', bs = some b' → 0 < b') (xs ys : List Vec) :
    igImpl op steps b bs xs ys = some (igSpec g steps b xs ys) := by
  unfold igImpl igSpec
  rw [if_neg (by omega)]
  apply congrArg some
  by_cases hx : xs = []
  · subst hx; simp [batches_nil]
  · have hn : 0 < xs.length := List.length_pos_iff.mpr hx
    have hb : 0 < (effBs bs xs.length).toNat := by
      cases bs with
      | none => show 0 < (Gen.igDefaultBs (xs.length : Int)).toNat
                rw [ig_default_bs_spec]; exact hn
      | some b' => show 0 < ((b' : Int)).toNat; simp; exact hbs b' rfl
    have hcongr : (batches (perBatch bs steps xs.length) (xs.zip ys)).flatMap
          (batchRun op steps b (effBs bs xs.length).toNat)
        = (batches (perBatch bs steps xs.length) (xs.zip ys)).flatMap (fun ch => ch.map fun xy =>
            vmul (xy.1.map (· - b))
              (trapzVec xy.1.length ((List.range steps).map fun j => g (interp steps b xy.1 j) xy.2))) := by
      apply List.flatMap_congr; intro ch _
      exact batchRun_eq op g hop steps b _ hb (by omega) ch
    rw [hcongr, flatMap_batches_map _ (perBatch_pos bs steps xs.length),
      ← List.map_uncurry_zip_eq_zipWith]
    apply List.map_congr_left; intro xy _
    exact one_eq_spec g steps (by omega) b xy.1 xy.2

/-- per-sample form -/
theorem ig_per_sample (op : GradOp) (g : Vec → Vec → Vec) (hop : PerSample op g) (steps : Nat)
    (hs : 2 ≤ steps) (b : Rat) (bs : Option Nat) (hbs : ∀ b', bs = some b' → 0 < b') (xs ys : List Vec) :
    igImpl op steps b bs xs ys = some (List.zipWith (specOne g steps b) xs ys) :=
  ig_impl_eq_spec op g hop steps hs b bs hbs xs ys

/-- **batch-size independence**, in particular for `batch_size < steps` -/
theorem ig_bs_indep (op : GradOp) (g : Vec → Vec → Vec) (hop : PerSample op g) (steps : Nat)
    (hs : 2 ≤ steps) (b : Rat) (b' : Nat) (hb : 0 < b') (xs ys : List Vec) :
    igImpl op steps b (some b') xs ys = igImpl op steps b none xs ys := by
  rw [ig_impl_eq_spec op g hop steps hs b (some b') (by intro c h; cases h; exact hb),
      ig_impl_eq_spec op g hop steps hs b none (by intro c h; cases h)]

/-- `steps < 2`: the mean over zero trapezoids is undefined (NaN in the code) -/
theorem ig_steps_lt_two_undefined (op : GradOp) (steps : Nat) (hs : steps < 2) (b : Rat) (bs : Option Nat)
    (xs ys : List Vec) : igImpl op steps b bs xs ys = none := by
  unfold igImpl; rw [if_pos hs]

/-! ### completeness -/

open Finset in
/-- the attributions of one input sum to the trapezoid rule applied to the directional
    derivative `j ↦ ⟨x − b, g(point_j)⟩` (any gradient function) -/
theorem ig_sum_eq_trapz (g : Vec → Vec → Vec) (steps : Nat) (b : Rat) (x y : Vec) :
    sumQ (specOne g steps b x y)
      = (∑ j ∈ range (steps - 1), (dirDeriv g steps b x y j + dirDeriv g steps b x y (j + 1)))
          / ((steps : Rat) - 1) / 2 := by
  rw [specOne_flat]
  unfold dirDeriv
  simp only [sumQ_range]
  have h1 : ∀ d ∈ range x.length,
      (x.getD d 0 - b) * ((∑ j ∈ range (steps - 1), ((g (interp steps b x j) y).getD d 0
          + (g (interp steps b x (j + 1)) y).getD d 0)) / ((steps : Rat) - 1) / 2)
      = (∑ j ∈ range (steps - 1), ((x.getD d 0 - b) * (g (interp steps b x j) y).getD d 0
          + (x.getD d 0 - b) * (g (interp steps b x (j + 1)) y).getD d 0)) / ((steps : Rat) - 1) / 2 := by
    intro d _
    rw [mul_div_assoc', mul_div_assoc', Finset.mul_sum]
    congr 2
    apply Finset.sum_congr rfl; intro j _; ring
  rw [Finset.sum_congr rfl h1, ← Finset.sum_div, ← Finset.sum_div, Finset.sum_comm]
  congr 2
  apply Finset.sum_congr rfl; intro j _
  rw [Finset.sum_add_distrib]

open Finset in
/-- **completeness for scores at most quadratic along the path** — if `φ(t) = score(b + t(x−b))`
    is `a t² + c t + d`, i.e. the directional derivative at node `j` is `φ'(α_j) = 2 a α_j + c`,
    then the attributions sum to `φ 1 − φ 0 = score(x) − score(baseline)` EXACTLY, for every
    `steps ≥ 2`. -/
theorem ig_complete_quadratic (g : Vec → Vec → Vec) (steps : Nat) (hs : 2 ≤ steps) (b : Rat) (x y : Vec)
    (φ : Rat → Rat) (a c d0 : Rat) (hφ : ∀ t, φ t = a * t ^ 2 + c * t + d0)
    (hdir : ∀ j, j < steps → dirDeriv g steps b x y j = 2 * a * alpha steps j + c) :
    sumQ (specOne g steps b x y) = φ 1 - φ 0 := by
  rw [ig_sum_eq_trapz, hφ 1, hφ 0]
  obtain ⟨m, rfl⟩ : ∃ m, steps = m + 1 := ⟨steps - 1, by omega⟩
  have hm : 1 ≤ m := by omega
  have hm' : (m : ℚ) ≠ 0 := by exact_mod_cast (by omega : m ≠ 0)
  have hcast : ((m + 1 : ℕ) : ℚ) - 1 = (m : ℚ) := by push_cast; ring
  have h1 : ∀ j ∈ range (m + 1 - 1), dirDeriv g (m + 1) b x y j + dirDeriv g (m + 1) b x y (j + 1)
      = (2 * a / m) * ((2 * j + 1 : ℕ) : ℚ) + 2 * c := by
    intro j hj
    have hj' : j < m := by simpa using hj
    rw [hdir j (by omega), hdir (j + 1) (by omega)]
    unfold alpha; rw [hcast]; push_cast; field_simp; ring
  rw [sum_congr rfl h1, sum_add_distrib, ← mul_sum, Nat.add_sub_cancel, sum_odd, sum_const, card_range, hcast]
  simp only [nsmul_eq_mul]
  field_simp
  ring

open Finset in
/-- **cubic gap formula** (what is proved of "the gap shrinks as steps grows": polynomials of
    degree ≤ 3 along the path; general smooth models need real analysis and are NOT covered) —
    if `φ(t) = a₃ t³ + a t² + c t + d` then the completeness gap is exactly
    `a₃ / (2 (steps − 1)²)`. -/
theorem ig_gap_cubic_partial (g : Vec → Vec → Vec) (steps : Nat) (hs : 2 ≤ steps) (b : Rat) (x y : Vec)
    (φ : Rat → Rat) (a3 a c d0 : Rat) (hφ : ∀ t, φ t = a3 * t ^ 3 + a * t ^ 2 + c * t + d0)
    (hdir : ∀ j, j < steps →
      dirDeriv g steps b x y j = 3 * a3 * alpha steps j ^ 2 + 2 * a * alpha steps j + c) :
    sumQ (specOne g steps b x y) - (φ 1 - φ 0) = a3 / (2 * ((steps : Rat) - 1) ^ 2) := by
  rw [ig_sum_eq_trapz, hφ 1, hφ 0]
  obtain ⟨m, rfl⟩ : ∃ m, steps = m + 1 := ⟨steps - 1, by omega⟩
  have hm : 1 ≤ m := by omega
  have hm' : (m : ℚ) ≠ 0 := by exact_mod_cast (by omega : m ≠ 0)
  have hcast : ((m + 1 : ℕ) : ℚ) - 1 = (m : ℚ) := by push_cast; ring
  have h1 : ∀ j ∈ range (m + 1 - 1), dirDeriv g (m + 1) b x y j + dirDeriv g (m + 1) b x y (j + 1)
      = (3 * a3 / (m : ℚ) ^ 2) * (((j : ℚ)) ^ 2 + ((j : ℚ) + 1) ^ 2)
        + ((2 * a / m) * ((2 * j + 1 : ℕ) : ℚ) + 2 * c) := by
    intro j hj
    have hj' : j < m := by simpa using hj
    rw [hdir j (by omega), hdir (j + 1) (by omega)]
    unfold alpha; rw [hcast]; push_cast; field_simp; ring
  rw [sum_congr rfl h1, sum_add_distrib, sum_add_distrib, ← mul_sum, ← mul_sum, Nat.add_sub_cancel,
    sum_odd, sum_sq_pairs, sum_const, card_range, hcast]
  simp only [nsmul_eq_mul]
  field_simp
  ring

/-- for a cubic the absolute gap strictly decreases when `steps` grows -/
theorem ig_gap_cubic_strict_anti (a3 : Rat) (h3 : a3 ≠ 0) (s1 s2 : Nat) (h1 : 2 ≤ s1) (h12 : s1 < s2) :
    |a3 / (2 * ((s2 : Rat) - 1) ^ 2)| < |a3 / (2 * ((s1 : Rat) - 1) ^ 2)| := by
  have e1 : (1 : Rat) ≤ (s1 : Rat) - 1 := by
    have : (2 : Rat) ≤ (s1 : Rat) := by exact_mod_cast h1
    linarith
  have e2 : (s1 : Rat) - 1 < (s2 : Rat) - 1 := by
    have : (s1 : Rat) < (s2 : Rat) := by exact_mod_cast h12
    linarith
  have p1 : (0 : Rat) < 2 * ((s1 : Rat) - 1) ^ 2 := by positivity
  have p2 : (0 : Rat) < 2 * ((s2 : Rat) - 1) ^ 2 := by
    have : (0 : Rat) < (s2 : Rat) - 1 := by linarith
    positivity
  rw [abs_div, abs_div, abs_of_pos p1, abs_of_pos p2]
  apply div_lt_div_of_pos_left (abs_pos.mpr h3) p1
  have : ((s1 : Rat) - 1) ^ 2 < ((s2 : Rat) - 1) ^ 2 :=
    pow_lt_pow_left₀ e2 (by linarith) (by norm_num)
  linarith

open Finset

/-! ### smooth models: the completeness gap is O(1/(steps−1)²) and vanishes as `steps` grows

  The clause "for smooth models the completeness gap shrinks as steps grows" at full strength: `ψ` is the derivative of the
  score along the straight path (a C² real function on [0,1], i.e. the score is C³ along the path), `K` bounds `|ψ''|`.
  The rational model is related to the reals through the casts; the analysis is Mathlib's trapezoidal-rule error bound. -/

theorem ig_gap_smooth (g : Vec → Vec → Vec) (steps : Nat) (hs : 2 ≤ steps) (b : Rat) (x y : Vec)
    (ψ : ℝ → ℝ) (hc : ContDiffOn ℝ 2 ψ (Set.uIcc (0 : ℝ) 1)) (K : ℝ)
    (hK : ∀ t, |iteratedDerivWithin 2 ψ (Set.uIcc (0 : ℝ) 1) t| ≤ K)
    (hdir : ∀ j, j < steps → ((dirDeriv g steps b x y j : ℚ) : ℝ) = ψ ((alpha steps j : ℚ) : ℝ)) :
    |((sumQ (specOne g steps b x y) : ℚ) : ℝ) - ∫ t in (0 : ℝ)..1, ψ t|
      ≤ K / (12 * ((steps : ℝ) - 1) ^ 2) := by
  obtain ⟨n, rfl⟩ : ∃ n, steps = n + 2 := ⟨steps - 2, by omega⟩
  rw [ig_sum_eq_trapz]
  have hcast : ((n + 2 : ℕ) : ℝ) - 1 = ((n + 1 : ℕ) : ℝ) := by push_cast; ring
  have hal : ∀ j : ℕ, ((alpha (n + 2) j : ℚ) : ℝ) = (j : ℝ) / ((n + 1 : ℕ) : ℝ) := by
    intro j; unfold alpha; push_cast; congr 1; ring
  have hsum : ((∑ j ∈ range (n + 2 - 1), (dirDeriv g (n + 2) b x y j + dirDeriv g (n + 2) b x y (j + 1)) : ℚ) : ℝ)
      = ∑ j ∈ range (n + 1), (ψ ((j : ℝ) / ((n + 1 : ℕ) : ℝ)) + ψ (((j + 1 : ℕ) : ℝ) / ((n + 1 : ℕ) : ℝ))) := by
    rw [show n + 2 - 1 = n + 1 by omega]
    push_cast
    apply sum_congr rfl
    intro j hj
    have hj' : j < n + 1 := by simpa using hj
    rw [hdir j (by omega), hdir (j + 1) (by omega), hal, hal]
    push_cast; rfl
  rw [Rat.cast_div, Rat.cast_div, hsum]
  have := Xp.IGSmooth.trapz_gap_real ψ n hc K hK
  push_cast at this ⊢
  rw [show ((n : ℝ) + 2 - 1) = (n : ℝ) + 1 by ring]
  exact this

/-- completeness for smooth models: with `ψ = φ'` the derivative of the score along the path, the attributions sum to
    `φ 1 − φ 0 = score(x) − score(baseline)` up to `K / (12 (steps−1)²)`, `K` a bound on `|ψ''| = |φ'''|` on the path -/
theorem ig_gap_smooth_completeness (g : Vec → Vec → Vec) (steps : Nat) (hs : 2 ≤ steps) (b : Rat) (x y : Vec)
    (φ ψ : ℝ → ℝ) (hφ : ∀ t ∈ Set.uIcc (0 : ℝ) 1, HasDerivAt φ (ψ t) t)
    (hc : ContDiffOn ℝ 2 ψ (Set.uIcc (0 : ℝ) 1)) (K : ℝ)
    (hK : ∀ t, |iteratedDerivWithin 2 ψ (Set.uIcc (0 : ℝ) 1) t| ≤ K)
    (hdir : ∀ j, j < steps → ((dirDeriv g steps b x y j : ℚ) : ℝ) = ψ ((alpha steps j : ℚ) : ℝ)) :
    |((sumQ (specOne g steps b x y) : ℚ) : ℝ) - (φ 1 - φ 0)| ≤ K / (12 * ((steps : ℝ) - 1) ^ 2) := by
  rw [← intervalIntegral.integral_eq_sub_of_hasDerivAt hφ (hc.continuousOn.intervalIntegrable)]
  exact ig_gap_smooth g steps hs b x y ψ hc K hK hdir

/-- the bound vanishes as `steps` grows -/
theorem ig_gap_bound_vanishes (K ε : ℝ) (hε : 0 < ε) :
    ∃ S : ℕ, ∀ steps : ℕ, S ≤ steps → K / (12 * ((steps : ℝ) - 1) ^ 2) < ε := by
  obtain ⟨S, hS⟩ := exists_nat_gt (K / (12 * ε))
  refine ⟨S + 2, fun steps h => ?_⟩
  have h1 : (S : ℝ) + 2 ≤ (steps : ℝ) := by exact_mod_cast h
  have hS0 : (0 : ℝ) ≤ (S : ℝ) := Nat.cast_nonneg S
  have h2 : (1 : ℝ) ≤ (steps : ℝ) - 1 := by linarith
  have h3 : (steps : ℝ) - 1 ≤ ((steps : ℝ) - 1) ^ 2 := by nlinarith
  have hpos : (0 : ℝ) < 12 * ((steps : ℝ) - 1) ^ 2 := by positivity
  rw [div_lt_iff₀ hpos]
  have h4 : K < 12 * ε * (S : ℝ) := by
    have := (div_lt_iff₀ (by positivity : (0 : ℝ) < 12 * ε)).mp hS
    linarith
  have h5 : (S : ℝ) ≤ ((steps : ℝ) - 1) ^ 2 := by linarith
  nlinarith


/-! ### every input scale -/

private theorem interp_scale (steps : Nat) (b s : Rat) (hs : s ≠ 0) (x : Vec) (j : Nat) :
    (interp steps (b * s) (x.map (· * s)) j).map (· / s) = interp steps b x j := by
  unfold interp
  rw [List.map_map, List.map_map]
  apply List.map_congr_left; intro xi _
  simp only [Function.comp]
  field_simp

private theorem sumQ_map_mul_right (l : List Nat) (f : Nat → Rat) (c : Rat) :
    sumQ (l.map fun j => f j * c) = sumQ (l.map f) * c := by
  induction l with
  | nil => simp
  | cons a l ih => simp only [List.map_cons, sumQ, ih]; ring

/-- scale covariance: explaining the score `p ↦ S(p / s)` (gradient `(1/s) ∇S(p / s)`) at the input `x·s` with the baseline
    `b·s` gives exactly the attributions of `S` at `x` with baseline `b`, for every `s ≠ 0` however small or large: the
    attribution is `(x − baseline) ·` trapezoid at every magnitude of the inputs (no threshold below which a feature counts as
    equal to the baseline) -/
theorem ig_scale_covariant (g : Vec → Vec → Vec) (steps : Nat) (b s : Rat) (hs : s ≠ 0) (x y : Vec) :
    specOne (fun p t => (g (p.map (· / s)) t).map (· / s)) steps (b * s) (x.map (· * s)) y = specOne g steps b x y := by
  rw [specOne_flat, specOne_flat, List.length_map]
  apply List.map_congr_left; intro d hd
  have hd' : d < x.length := List.mem_range.mp hd
  simp only [interp_scale steps b s hs]
  have hx : (x.map (· * s)).getD d 0 = x.getD d 0 * s := by
    simp [List.getD_eq_getElem?_getD, hd']
  have hg : ∀ v : Vec, (v.map (· / s)).getD d 0 = v.getD d 0 / s := by
    intro v
    by_cases h : d < v.length
    · simp [List.getD_eq_getElem?_getD, h]
    · simp [List.getD_eq_getElem?_getD, h]
  rw [hx]
  simp only [hg]
  have : (fun j => (g (interp steps b x j) y).getD d 0 / s + (g (interp steps b x (j + 1)) y).getD d 0 / s)
       = fun j => ((g (interp steps b x j) y).getD d 0 + (g (interp steps b x (j + 1)) y).getD d 0) * (1 / s) := by
    funext j; ring
  rw [this, sumQ_map_mul_right]
  field_simp


/-! ### non-vacuity -/

-- scale covariance on a concrete score (Σ x_d², s = 2^-10): same attributions as at scale one
example : specOne (fun p t => ((fun q _ => q.map (2 * ·)) (p.map (· / (1 / 1024))) t).map (· / (1 / 1024))) 3
      (1 * (1 / 1024)) ([1, 3].map (· * (1 / 1024))) []
    = specOne (fun q _ => q.map (2 * ·)) 3 1 [1, 3] [] := by decide +kernel


-- a non-constant C² derivative along the path (score Σ x_d², ψ(t) = 8t + 4, K = 0) meets the hypotheses of `ig_gap_smooth`
example : ∃ (ψ : ℝ → ℝ) (K : ℝ), ContDiffOn ℝ 2 ψ (Set.uIcc (0 : ℝ) 1)
    ∧ (∀ t, |iteratedDerivWithin 2 ψ (Set.uIcc (0 : ℝ) 1) t| ≤ K)
    ∧ ∀ j, j < 5 → ((dirDeriv (fun p _ => p.map (2 * ·)) 5 1 [1, 3] [] j : ℚ) : ℝ) = ψ ((alpha 5 j : ℚ) : ℝ) := by
  refine ⟨fun t => 8 * t + 4, 0, by fun_prop, ?_, ?_⟩
  · intro t
    by_cases ht : t ∈ Set.uIcc (0 : ℝ) 1
    · have hu : UniqueDiffOn ℝ (Set.uIcc (0 : ℝ) 1) := uniqueDiffOn_uIcc (by norm_num)
      rw [iteratedDerivWithin_eq_iteratedDeriv hu (by fun_prop) ht]
      simp [iteratedDeriv_succ]
    · rw [iteratedDerivWithin_succ, derivWithin_zero_of_notMem_closure (by rwa [Set.uIcc, closure_Icc])]
      simp
  · intro j _
    simp [dirDeriv, interp, alpha, List.range_succ, sumQ]
    ring


-- score Σ x_d² (gradient 2x), baseline 1, x = (1, 3): φ(t) = 4 t² + 4 t + 2 along the path
example : ∀ j, j < 5 → dirDeriv (fun p _ => p.map (2 * ·)) 5 1 [1, 3] [] j = 2 * 4 * alpha 5 j + 4 := by
  intro j _
  simp [dirDeriv, interp, alpha, List.range_succ]
  ring
example : sumQ (specOne (fun p _ => p.map (2 * ·)) 5 1 [1, 3] []) = (4 * 1 ^ 2 + 4 * 1 + 2) - 2 := by
  decide +kernel
example : igImpl (gradMap fun p _ => p.map (2 * ·)) 3 1 (some 2) [[1, 3], [0, 2]] [[], []]
    = some [[0, 8], [-1, 3]] := by decide +kernel
example : (Gen.igInputsPerBatch 2 3).toNat = 1 ∧ (Gen.igInputsPerBatch 7 3).toNat = 2 := by decide

end Xp.IG
