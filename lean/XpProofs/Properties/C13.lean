/-
  C13 — explainers and metrics are reusable: results do not depend on call history.

  Model: XpModel/History.lean — the state machines of every field mutated after construction.
  Theorems are invariants by induction over arbitrary call / construction histories.
-/
import XpModel.History
import XpProofs.Lemmas.Vec

namespace Xp.Hist

/-! ### Occlusion: tuple-isation is idempotent, so every call of a history sees the same geometry -/

theorem tuple_idem (p : PSize) : p.tuple.tuple = p.tuple := by cases p <;> rfl

theorem occl_call_idempotent (s : Occl) (b : Bool) : (s.call b).call b = s.call b := by
  cases b <;> simp [Occl.call, tuple_idem]

/-- **history independence (Occlusion)** — after any number of earlier calls on inputs of the same
    kind, a call works with the same patch geometry as the first call on a fresh object. -/
theorem occl_history_independent (s : Occl) (b : Bool) (hist : List Bool) (h : ∀ x ∈ hist, x = b) :
    (hist.foldl Occl.call s).effective b = s.effective b := by
  induction hist generalizing s with
  | nil => rfl
  | cons x hist ih =>
    have hx : x = b := h x List.mem_cons_self
    subst hx
    simp only [List.foldl_cons]
    rw [ih (s.call x) (fun y hy => h y (List.mem_cons_of_mem _ hy))]
    exact occl_call_idempotent s x

/-! ### Lime / KernelShap: defaults are chosen once and are a function of the input kind -/

theorem lime_call_idempotent (s : Lime) (k : DKind) : (s.call k).call k = s.call k := by
  cases s with
  | mk r m => cases r <;> cases m <;> cases k <;> rfl

/-- **history independence (Lime / KernelShap)** — reference value and mapping used by a call are
    those a fresh object would use, after any history of calls on the same input kind. -/
theorem lime_history_independent (s : Lime) (k : DKind) (hist : List DKind) (h : ∀ x ∈ hist, x = k) :
    (hist.foldl Lime.call s).call k = s.call k := by
  induction hist generalizing s with
  | nil => rfl
  | cons x hist ih =>
    have hx : x = k := h x List.mem_cons_self
    subst hx
    simp only [List.foldl_cons]
    rw [ih (s.call x) (fun y hy => h y (List.mem_cons_of_mem _ hy))]
    exact lime_call_idempotent s x

/-- user-supplied values are never overwritten -/
theorem lime_user_values_kept (r : RefVal) (m : MapFn) (k : DKind) :
    ({ ref := some r, map := some m } : Lime).call k = { ref := some r, map := some m } := rfl

/-! ### SmoothGrad family: the running statistic is reset before every use -/

/-- the value returned for an input batch does not depend on the state left by earlier calls -/
theorem online_reset (st : Stat) (o o' : Online) (chunks : List (List Rat)) :
    gsBatch st o chunks = gsBatch st o' chunks := rfl

private theorem gsCall_go (st : Stat) (o : Online) (pre : List Rat) (bs : List (List (List Rat))) :
    (bs.foldl (fun (acc : Online × List Rat) b =>
      let r := gsBatch st acc.1 b; (r.1, acc.2 ++ [r.2])) (o, pre)).2
      = pre ++ bs.map (fun b => (gsBatch st Online.reset b).2) := by
  induction bs generalizing o pre with
  | nil => simp
  | cons b bs ih =>
    simp only [List.foldl_cons, List.map_cons]
    rw [ih]
    simp [List.append_assoc, online_reset st o Online.reset b]

/-- **history independence (SmoothGrad / SquareGrad / VarGrad)** — whatever state earlier calls
    left in the object, a call returns for each input batch the statistic of that batch's own
    gradients only. -/
theorem gs_history_independent (st : Stat) (o : Online) (bs : List (List (List Rat))) :
    (gsCall st o bs).2 = bs.map (fun b => (gsBatch st Online.reset b).2) := by
  unfold gsCall; rw [gsCall_go]; simp

private theorem online_fold (chunks : List (List Rat)) (o : Online) :
    chunks.foldl Online.update o =
      { cnt := o.cnt + chunks.flatten.length, sum := o.sum + sumQ chunks.flatten,
        sq := o.sq + sumQ (chunks.flatten.map fun g => g * g) } := by
  induction chunks generalizing o with
  | nil => simp
  | cons c cs ih =>
    simp only [List.foldl_cons, List.flatten_cons, List.length_append, List.map_append]
    rw [ih]
    simp only [Online.update, sumQ_append]
    congr 1
    · omega
    · ring
    · ring

/-- the accumulated statistic is that of all gradients of the batch, however they were chunked -/
theorem online_is_statistic_of_batch (chunks : List (List Rat)) :
    chunks.foldl Online.update Online.reset =
      { cnt := chunks.flatten.length, sum := sumQ chunks.flatten,
        sq := sumQ (chunks.flatten.map fun g => g * g) } := by
  rw [online_fold]; simp [Online.reset]

/-! ### the class-level model cache -/

private theorem lookup_some_key (c : Cache) (hc : c.WF) (k : Nat × Nat) (r : ModelRef)
    (h : c.lookup k = some r) : r.key = k := by
  unfold Cache.lookup at h
  cases hf : c.find? (fun e => e.1 = k) with
  | none => simp [hf] at h
  | some e =>
    simp [hf] at h
    subst h
    have hmem := List.mem_of_find?_eq_some hf
    have hk := List.find?_some hf
    simp at hk
    rw [hc e hmem, hk]

/-- the model an explainer stores has the input and output tensors of the model it was given -/
theorem construct_sound (c : Cache) (hc : c.WF) (m : ModelRef) : (construct c m).2.key = m.key := by
  unfold construct
  cases h : c.lookup m.key with
  | none => rfl
  | some r => exact lookup_some_key c hc m.key r h

theorem construct_wf (c : Cache) (hc : c.WF) (m : ModelRef) : (construct c m).1.WF := by
  unfold construct
  cases h : c.lookup m.key with
  | none =>
    intro e he
    rcases List.mem_append.mp he with he | he
    · exact hc e he
    · simp at he; subst he; rfl
  | some r => exact hc

/-- an entry, once cached, is never replaced -/
theorem construct_preserves_lookup (c : Cache) (m : ModelRef) (k : Nat × Nat) (r : ModelRef)
    (h : c.lookup k = some r) : (construct c m).1.lookup k = some r := by
  unfold construct
  cases hm : c.lookup m.key with
  | some r' => exact h
  | none =>
    unfold Cache.lookup at h ⊢
    cases hf : c.find? (fun e => e.1 = k) with
    | none => simp [hf] at h
    | some e =>
      simp [hf] at h
      simp [List.find?_append, hf, h]

private theorem constructAll_go (c : Cache) (hc : c.WF) (pre : List ModelRef) (ms : List ModelRef) :
    let r := ms.foldl (fun (acc : Cache × List ModelRef) m =>
      let r := construct acc.1 m; (r.1, acc.2 ++ [r.2])) (c, pre)
    r.1.WF ∧ r.2.length = pre.length + ms.length ∧ r.2.take pre.length = pre ∧
      ∀ i (hi : i < ms.length), (r.2[pre.length + i]?).map ModelRef.key = some (ms[i]).key := by
  induction ms generalizing c pre with
  | nil => simp [hc]
  | cons m ms ih =>
    simp only [List.foldl_cons]
    obtain ⟨h1, h2, h3, h4⟩ := ih (construct c m).1 (construct_wf c hc m) (pre ++ [(construct c m).2])
    refine ⟨h1, ?_, ?_, ?_⟩
    · rw [h2]; simp; omega
    · have := congrArg (List.take pre.length) h3
      simp [List.take_take] at this
      simpa [Nat.min_eq_left] using this
    · intro i hi
      cases i with
      | zero =>
        have hl : (pre ++ [(construct c m).2]).length = pre.length + 1 := by simp
        have := congrArg (fun l => l[pre.length]?) h3
        simp only [List.getElem?_take, hl] at this
        simp at this
        simp [this, construct_sound c hc m]
      | succ i =>
        have := h4 i (by simpa using hi)
        simp only [List.length_append, List.length_singleton] at this
        rw [show pre.length + (i + 1) = pre.length + 1 + i by omega]
        simpa using this

/-- **cache soundness** — after ANY sequence of explainer constructions (same or other models, in
    any order), the i-th explainer's `model` has the (input, output) tensors of the i-th model. -/
theorem cache_sound (c : Cache) (hc : c.WF) (ms : List ModelRef) (i : Nat) (hi : i < ms.length) :
    ((constructAll c ms).2[i]?).map ModelRef.key = some (ms[i]).key := by
  have := (constructAll_go c hc [] ms).2.2.2 i hi
  simpa [constructAll] using this

/-- **isolation** — constructing further explainers never changes what earlier explainers hold -/
theorem cache_isolation (c : Cache) (hc : c.WF) (ms ms' : List ModelRef) :
    (constructAll c (ms ++ ms')).2.take ms.length = (constructAll c ms).2 := by
  unfold constructAll
  rw [List.foldl_append]
  set r := ms.foldl (fun (acc : Cache × List ModelRef) m =>
      let r := construct acc.1 m; (r.1, acc.2 ++ [r.2])) (c, []) with hr
  have h0 := constructAll_go c hc [] ms
  have h1 := constructAll_go r.1 h0.1 r.2 ms'
  have hlen : r.2.length = ms.length := by simpa using h0.2.1
  rw [← hlen]
  exact h1.2.2.1

-- non-vacuity
example : (Occl.mk (.scalar 3) (.pair 2 1)).effective true = ⟨.pair 3 3, .pair 2 1⟩ := by decide
example : (constructAll [] [⟨1, 10, 11⟩, ⟨2, 20, 21⟩, ⟨3, 10, 11⟩]).2 = [⟨1, 10, 11⟩, ⟨2, 20, 21⟩, ⟨1, 10, 11⟩] := by
  decide
example : Cache.WF [] := by intro e he; cases he
example : (gsCall .smooth ⟨7, 5, 3⟩ [[[1, 2], [3]], [[4]]]).2 = [2, 4] := by decide +kernel

/-! ### override_relu_gradient: clone + re-route is a frame-preserving heap operation -/

theorem setRule1_length (r : Rule) (h : Heap) (i : Nat) : (setRule1 r h i).length = h.length := by
  unfold setRule1; split
  · split <;> simp
  · rfl

theorem setRule1_frame (r : Rule) (h : Heap) (i j : Nat) (hne : j ≠ i) : (setRule1 r h i)[j]? = h[j]? := by
  unfold setRule1; split
  · split
    · rw [List.getElem?_set_ne (by omega)]
    · rfl
  · rfl

theorem setRule_length (h : Heap) (ids : List Nat) (r : Rule) : (setRule h ids r).length = h.length := by
  unfold setRule
  induction ids generalizing h with
  | nil => rfl
  | cons i ids ih => simp only [List.foldl_cons]; rw [ih, setRule1_length]

theorem setRule_frame (h : Heap) (ids : List Nat) (r : Rule) (j : Nat) (hj : j ∉ ids) :
    (setRule h ids r)[j]? = h[j]? := by
  unfold setRule
  induction ids generalizing h with
  | nil => rfl
  | cons i ids ih =>
    simp only [List.foldl_cons]
    rw [ih _ (fun hm => hj (List.mem_cons_of_mem _ hm)), setRule1_frame]
    intro e; exact hj (e ▸ List.mem_cons_self)

/-- what re-routing does to one object -/
def reroute (r : Rule) (l : LayerObj) : LayerObj := if l.relu then { l with rule := r } else l

theorem setRule1_at (r : Rule) (h : Heap) (i : Nat) : (setRule1 r h i)[i]? = (h[i]?).map (reroute r) := by
  unfold setRule1 reroute
  cases hh : h[i]? with
  | none => simpa using hh
  | some l =>
    simp only [Option.map_some]
    split
    · have hi : i < h.length := by
        rcases List.getElem?_eq_some_iff.mp hh with ⟨hi, _⟩; exact hi
      simp [List.getElem?_set_self hi]
    · simp [hh]

theorem setRule_at (h : Heap) (ids : List Nat) (r : Rule) (hnd : ids.Nodup) (j : Nat) (hj : j ∈ ids) :
    (setRule h ids r)[j]? = (h[j]?).map (reroute r) := by
  induction ids generalizing h with
  | nil => cases hj
  | cons i ids ih =>
    rw [List.nodup_cons] at hnd
    have hstep : setRule h (i :: ids) r = setRule (setRule1 r h i) ids r := rfl
    rw [hstep]
    by_cases hji : j = i
    · subst hji
      rw [setRule_frame _ _ _ _ hnd.1, setRule1_at]
    · have hj' : j ∈ ids := by
        cases hj with
        | head => exact absurd rfl hji
        | tail _ h' => exact h'
      rw [ih _ hnd.2 hj', setRule1_frame _ _ _ _ hji]

/-- **the clone's sites** — object k of the clone is the copy of the model's k-th layer, re-routed to the requested
    rule when (and only when) it is a ReLU site -/
theorem clone_site (h : Heap) (m : LModel) (r : Rule) (k : Nat) (hk : k < m.length) :
    (overrideClone h m r).1[h.length + k]? = some (reroute r (h[m[k]]?.getD default)) := by
  unfold overrideClone
  simp only
  rw [setRule_at _ _ _ (by simp [cloneModel, List.nodup_range']) _ (by simp [cloneModel, List.mem_range'_1]; omega)]
  simp [cloneModel, hk]

/-- clone_model allocates only fresh identities -/
theorem clone_fresh (h : Heap) (m : LModel) : ∀ i ∈ (cloneModel h m).2, h.length ≤ i := by
  intro i hi
  simp only [cloneModel, List.mem_range'_1] at hi
  omega

theorem overrideClone_length (h : Heap) (m : LModel) (r : Rule) :
    (overrideClone h m r).1.length = h.length + m.length := by
  simp [overrideClone, setRule_length, cloneModel]

/-- **frame** — `override_relu_gradient` leaves every object that existed before the call untouched -/
theorem override_frame (h : Heap) (m : LModel) (r : Rule) (j : Nat) (hj : j < h.length) :
    (overrideClone h m r).1[j]? = h[j]? := by
  unfold overrideClone
  simp only
  rw [setRule_frame]
  · simp [cloneModel, List.getElem?_append_left hj]
  · intro hm
    have := clone_fresh h m j hm
    omega

/-- the clone shares no layer object with the model it was made from -/
theorem override_shares_nothing (h : Heap) (m : LModel) (r : Rule) (hm : ∀ i ∈ m, i < h.length) :
    ∀ i ∈ (overrideClone h m r).2, i ∉ m := by
  intro i hi hmem
  have := clone_fresh h m i hi
  have := hm i hmem
  omega

theorem overrideAll_go (h : Heap) (acc : List LModel) (steps : List (LModel × Rule)) :
    let r := steps.foldl (fun (a : Heap × List LModel) s =>
      let r := overrideClone a.1 s.1 s.2; (r.1, a.2 ++ [r.2])) (h, acc)
    h.length ≤ r.1.length ∧ ∀ j, j < h.length → r.1[j]? = h[j]? := by
  induction steps generalizing h acc with
  | nil => exact ⟨Nat.le_refl _, fun _ _ => rfl⟩
  | cons s steps ih =>
    simp only [List.foldl_cons]
    have h1 := ih (overrideClone h s.1 s.2).1 (acc ++ [(overrideClone h s.1 s.2).2])
    have hl := overrideClone_length h s.1 s.2
    refine ⟨Nat.le_trans (by omega) h1.1, fun j hj => ?_⟩
    exact (h1.2 j (by omega)).trans (override_frame h s.1 s.2 j hj)

/-- **history frame** — after ANY sequence of DeconvNet / GuidedBackprop constructions (on any models, with any
    rules) every object that existed before is unchanged -/
theorem overrideAll_frame (h : Heap) (steps : List (LModel × Rule)) (j : Nat) (hj : j < h.length) :
    (overrideAll h steps).1[j]? = h[j]? := (overrideAll_go h [] steps).2 j hj

theorem rulesOf_congr (h h' : Heap) (m : LModel) (hh : ∀ i ∈ m, h'[i]? = h[i]?) : rulesOf h' m = rulesOf h m := by
  unfold rulesOf
  congr 1
  apply List.filterMap_congr
  intro i hi; exact hh i hi

/-- **the user's model is never modified** — its ReLU sites route to the same rules after any construction history -/
theorem user_model_untouched (h : Heap) (m : LModel) (steps : List (LModel × Rule)) (hm : ∀ i ∈ m, i < h.length) :
    rulesOf (overrideAll h steps).1 m = rulesOf h m :=
  rulesOf_congr _ _ _ fun i hi => overrideAll_frame h steps i (hm i hi)

theorem overrideAll_append (h : Heap) (s1 s2 : List (LModel × Rule)) :
    (overrideAll h (s1 ++ s2)).1 = (overrideAll (overrideAll h s1).1 s2).1 := by
  unfold overrideAll
  rw [List.foldl_append]
  generalize (List.foldl (fun (a : Heap × List LModel) s =>
      let r := overrideClone a.1 s.1 s.2; (r.1, a.2 ++ [r.2])) (h, []) s1) = r
  obtain ⟨h1, acc⟩ := r
  suffices ∀ (a b : List LModel) (g : Heap),
      (List.foldl (fun (a : Heap × List LModel) s =>
        let r := overrideClone a.1 s.1 s.2; (r.1, a.2 ++ [r.2])) (g, a) s2).1 =
      (List.foldl (fun (a : Heap × List LModel) s =>
        let r := overrideClone a.1 s.1 s.2; (r.1, a.2 ++ [r.2])) (g, b) s2).1 from this _ _ _
  induction s2 with
  | nil => intros; rfl
  | cons s s2 ih => intro a b g; simp only [List.foldl_cons]; exact ih _ _ _

/-- **an explainer created earlier is unaffected by explainers created later**: the clone made by a construction
    keeps its rules whatever is constructed afterwards -/
theorem earlier_explainer_unaffected (h : Heap) (m : LModel) (r : Rule) (later : List (LModel × Rule)) :
    let c := overrideClone h m r
    rulesOf (overrideAll c.1 later).1 c.2 = rulesOf c.1 c.2 := by
  intro c
  apply rulesOf_congr
  intro i hi
  apply overrideAll_frame
  have hl : c.1.length = h.length + m.length := overrideClone_length h m r
  have : i ∈ List.range' h.length m.length := hi
  rw [List.mem_range'_1] at this
  omega

/-- the seeded / tempting variant (sharing the weight-less ReLU layers with the clone) violates the property -/
theorem Witness.shared_override_changes_user :
    ∃ (h : Heap) (m : LModel) (r : Rule), rulesOf (overrideShared h m r).1 m ≠ rulesOf h m :=
  ⟨[⟨true, .plain⟩], [0], .guided, by decide⟩

-- non-vacuity: a model with two ReLU sites, a DeconvNet then a GuidedBackprop built on it
example : rulesOf (overrideAll [⟨false, .plain⟩, ⟨true, .plain⟩, ⟨true, .plain⟩] [([0, 1, 2], .deconv), ([0, 1, 2], .guided)]).1
    [0, 1, 2] = [.plain, .plain] := by decide
example : (overrideAll [⟨false, .plain⟩, ⟨true, .plain⟩, ⟨true, .plain⟩] [([0, 1, 2], .deconv), ([0, 1, 2], .guided)]).2
    = [[3, 4, 5], [6, 7, 8]] := by decide
example : rulesOf (overrideAll [⟨false, .plain⟩, ⟨true, .plain⟩, ⟨true, .plain⟩] [([0, 1, 2], .deconv), ([0, 1, 2], .guided)]).1
    [3, 4, 5] = [.deconv, .deconv] := by decide

end Xp.Hist
