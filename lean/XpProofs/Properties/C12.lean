/-
  C12 — common API contract: shapes and input containers.

  Model: XpModel/Shapes.lean (shape calculus of the 16 `explain` methods following the code,
  and `tensor_sanitize`).  dtype float32, finiteness and value identity across containers are
  checked on the implementation by the harness (predicates), not theorems.
-/
import XpModel.Shapes
import XpProofs.Lemmas.Batching

namespace Xp.Shp

private theorem bcast_one_left (w : Nat) : bcast [1] [w] = some [w] := by
  unfold bcast; simp only [List.reverse_cons, List.reverse_nil, List.nil_append, bcastRev]
  by_cases h : 1 = w
  · subst h; simp
  · simp [h]

private theorem bcast_ts (t w : Nat) : bcast [t, 1] [t, w] = some [t, w] := by
  unfold bcast
  simp only [List.reverse_cons, List.reverse_nil, List.nil_append, List.cons_append, bcastRev]
  by_cases h : 1 = w
  · subst h; simp
  · simp [h]

private theorem bcast_self3 (a b c : Nat) : bcast [a, b, c] [a, b, c] = some [a, b, c] := by
  unfold bcast
  simp [bcastRev]

/-- **documented shapes** — for every method, every data kind it supports, every N and every
    H, W, T, C (no bound), `explain` with the default channel reducer returns `(N,W)` for tabular
    data, `(N,T,W)` for time series and `(N,H,W,1)` for images. -/
theorem explain_shape (m : Method) (k : Kind) (n : Nat) (hs : supported m k = true) :
    explainShape m true n k = some (documented n k) := by
  cases m <;> cases k <;> simp_all [explainShape, documented, supported, Kind.input, harmonize,
    bcast_one_left, bcast_ts, bcast_self3] <;> (try split) <;> simp_all

/-- with `reducer=None` gradient-based methods keep the channel axis -/
theorem explain_shape_no_reducer (m : Method) (n h w c : Nat) (hm : m.gradientBased = true) :
    explainShape m false n (.img h w c) = some [n, h, w, c] := by
  cases m <;> simp_all [Method.gradientBased, explainShape, Kind.input, harmonize]

/-- unsupported combinations are rejected by the model as by the code -/
theorem unsupported_none (m : Method) (k : Kind) (n : Nat) (hs : supported m k = false) :
    explainShape m true n k = none := by
  cases m <;> cases k <;> simp_all [explainShape, supported]

/-- **containers** — arrays / tensors, unbatched datasets and datasets batched with ANY batch size
    `b ≥ 1` (remainder batch included) hand the same samples, in the same order, to the explainer -/
theorem sanitize_values (samples : List Nat) (c : Container)
    (hc : match c with
      | .array => True
      | .dataset none _ => True
      | .dataset (some b) wrapped => 0 < b ∧ wrapped = false) :
    sanitize samples c = samples.map fun s => [s] := by
  cases c with
  | array => rfl
  | dataset b wrapped =>
    cases b with
    | none => rfl
    | some b =>
      obtain ⟨hb, hw⟩ := hc
      subst hw
      simp only [sanitize, flatten_batches b hb]

/-- **witness (known finding D5)**: a batched dataset wrapped by `prefetch` / `map` is not
    un-batched: 5 samples batched by 2 arrive as 3 rows -/
theorem Witness.dataset_wrapper :
    (sanitize [0, 1, 2, 3, 4] (.dataset (some 2) true)).length = 3 ∧
    (sanitize [0, 1, 2, 3, 4] (.dataset (some 2) false)).length = 5 := by decide +kernel

-- non-vacuity
example : explainShape .rise true 3 (.ts 5 1) = some [3, 5, 1] := by decide
example : explainShape .saliency true 2 (.img 4 6 3) = some [2, 4, 6, 1] := by decide
example : supported .gradCAM (.tab 4) = false := by decide

end Xp.Shp
