/-
  C20 — CRAFT factors are non-negative, consistent, and importances are Sobol indices.

  Model: XpModel/Craft.lean.  The feature extractor, the head's class logit and sklearn's NMF are
  parameters; the NMF hypothesis `NmfOk` ("non-negative, one row per input row, `transform` acts
  row-wise") is re-validated by the harness on every case.  Everything holds for all image sizes,
  patch sizes, numbers of concepts, design sizes and batch sizes.
-/
import XpModel.Craft
import XpProofs.Lemmas.Craft
import XpProofs.Properties.C08

namespace Xp.Craft
open Xp.Sobol

/-! ## patches -/

/-- the generated stride expression `int(patch_size * 0.80)` is `⌊4p/5⌋` -/
theorem craft_stride (p : Nat) : stride p = 4 * p / 5 := by
  unfold stride Gen.craftStride
  rw [Int.fdiv_eq_ediv_of_nonneg _ (by norm_num)]
  omega

/-- **craft_shapes (crops)** — `#crops = N · windows(H) · windows(W)` (also for `H ≠ W`) -/
theorem craft_patch_count (c h w p : Nat) (imgs : List (List Rat)) :
    (extractPatches c h w p imgs).length
      = imgs.length * (nWin h p (stride p) * nWin w p (stride p)) := by
  unfold extractPatches
  apply length_flatMap_uniform
  intro img _
  unfold patchesOf
  exact length_flatMap_const _ _ _

/-- every crop has `C · p · p` values -/
theorem craft_patch_size (c h w p : Nat) (imgs : List (List Rat)) :
    ∀ q ∈ extractPatches c h w p imgs, q.length = c * p * p := by
  intro q hq
  unfold extractPatches patchesOf at hq
  obtain ⟨img, _, hq⟩ := List.mem_flatMap.mp hq
  obtain ⟨wr, _, hq⟩ := List.mem_flatMap.mp hq
  obtain ⟨wc, _, rfl⟩ := List.mem_map.mp hq
  simp

/-! ## NMF hypothesis and the factors -/

/-- what CRAFT assumes of sklearn's NMF with `r` components -/
structure NmfOk (nmf : Nmf) (r : Nat) : Prop where
  u_rows : ∀ A, (nmf.fitTransform A).1.length = A.length
  w_rows : ∀ A, (nmf.fitTransform A).2.length = r
  u_nonneg : ∀ A, ∀ row ∈ (nmf.fitTransform A).1, ∀ v ∈ row, 0 ≤ v
  w_nonneg : ∀ A, ∀ row ∈ (nmf.fitTransform A).2, ∀ v ∈ row, 0 ≤ v
  row_len : ∀ a, (nmf.row a).length = r
  row_nonneg : ∀ a, ∀ v ∈ nmf.row a, 0 ≤ v

/-- **craft_shapes / nonneg_factors_partial (fit, 2-D activations)** — under the NMF hypothesis:
    one row of `U` per crop, one row of `W` per concept, both non-negative, for every batch size.
    Partial: NMF itself (sklearn) is the hypothesis `NmfOk`. -/
theorem fit2_factors_partial (nmf : Nmf) (r : Nat) (hn : NmfOk nmf r) (act : List Rat → List Rat)
    (bs : Nat) (hb : 0 < bs) (c h w p : Nat) (imgs : List (List Rat)) :
    let (crops, u, wbank) := fit2 nmf act bs c h w p imgs
    crops.length = imgs.length * (nWin h p (stride p) * nWin w p (stride p)) ∧
    u.length = crops.length ∧ wbank.length = r ∧
    (∀ row ∈ u, ∀ v ∈ row, 0 ≤ v) ∧ (∀ row ∈ wbank, ∀ v ∈ row, 0 ≤ v) := by
  unfold fit2
  simp only []
  rw [batchInference_eq_map act bs hb]
  refine ⟨craft_patch_count c h w p imgs, ?_, hn.w_rows _, hn.u_nonneg _, hn.w_nonneg _⟩
  rw [hn.u_rows, List.length_map]

/-- the same with 4-D activations (average pooling before the factorisation) -/
theorem fit4_factors_partial (nmf : Nmf) (r : Nat) (hn : NmfOk nmf r) (act : List Rat → List (List Rat))
    (nc bs : Nat) (hb : 0 < bs) (c h w p : Nat) (imgs : List (List Rat)) :
    let (crops, u, wbank) := fit4 nmf act nc bs c h w p imgs
    crops.length = imgs.length * (nWin h p (stride p) * nWin w p (stride p)) ∧
    u.length = crops.length ∧ wbank.length = r ∧
    (∀ row ∈ u, ∀ v ∈ row, 0 ≤ v) ∧ (∀ row ∈ wbank, ∀ v ∈ row, 0 ≤ v) := by
  unfold fit4
  simp only []
  rw [batchInference_eq_map act bs hb]
  refine ⟨craft_patch_count c h w p imgs, ?_, hn.w_rows _, hn.u_nonneg _, hn.w_nonneg _⟩
  rw [hn.u_rows, List.length_map, List.length_map]

/-! ## transform -/

/-- **transform (2-D)** — one coefficient row per input: the NMF coefficients of its activation -/
theorem transform2_rows (nmf : Nmf) (act : List Rat → List Rat) (bs : Nat) (hb : 0 < bs)
    (inputs : List (List Rat)) :
    transform2 nmf act bs inputs = inputs.map fun x => nmf.row (act x) := by
  unfold transform2
  rw [batchInference_eq_map act bs hb, List.map_map]; rfl

/-- **transform_reshape (4-D)** — reshaping to 2-D, transforming and reshaping back gives, for
    every input and location, the NMF coefficients of the activation at that location -/
theorem transform_reshape (nmf : Nmf) (act : List Rat → List (List Rat)) (bs hw : Nat) (hb : 0 < bs)
    (hhw : 0 < hw) (inputs : List (List Rat)) (hact : ∀ x ∈ inputs, (act x).length = hw) :
    transform4 nmf act bs hw inputs = inputs.map fun x => (act x).map nmf.row := by
  unfold transform4 regroup
  simp only []
  rw [batchInference_eq_map act bs hb, ← map_flatten', batches_flatten_uniform _ hw hhw, List.map_map]
  · rfl
  · intro l hl
    obtain ⟨l', hl', rfl⟩ := List.mem_map.mp hl
    obtain ⟨x, hx, rfl⟩ := List.mem_map.mp hl'
    rw [List.length_map]; exact hact x hx

/-- **transform_bs_indep** — `transform` does not depend on the batch size (2-D and 4-D) -/
theorem transform_bs_indep (nmf : Nmf) (act : List Rat → List Rat) (b b' : Nat) (hb : 0 < b)
    (hb' : 0 < b') (inputs : List (List Rat)) :
    transform2 nmf act b inputs = transform2 nmf act b' inputs := by
  rw [transform2_rows nmf act b hb, transform2_rows nmf act b' hb']

theorem transform4_bs_indep (nmf : Nmf) (act : List Rat → List (List Rat)) (b b' hw : Nat)
    (hb : 0 < b) (hb' : 0 < b') (inputs : List (List Rat)) :
    transform4 nmf act b hw inputs = transform4 nmf act b' hw inputs := by
  unfold transform4
  simp only []
  rw [batchInference_eq_map act b hb, batchInference_eq_map act b' hb']

/-- the coefficients returned by `transform` are non-negative (NMF hypothesis) -/
theorem transform_nonneg_partial (nmf : Nmf) (r : Nat) (hn : NmfOk nmf r) (act : List Rat → List Rat)
    (bs : Nat) (hb : 0 < bs) (inputs : List (List Rat)) :
    ∀ row ∈ transform2 nmf act bs inputs, row.length = r ∧ ∀ v ∈ row, 0 ≤ v := by
  rw [transform2_rows nmf act bs hb]
  intro row hrow
  obtain ⟨x, _, rfl⟩ := List.mem_map.mp hrow
  exact ⟨hn.row_len _, hn.row_nonneg _⟩

/-! ## importances -/

/-- **importance_is_jansen (2-D)** — for every batch size `estimate_importance` is the mean over
    the inputs of the Jansen total-order indices of `m ↦ logit((u ⊙ m) W)` on the design `masks` -/
theorem importance_is_jansen (logit : List Rat → Rat) (bs n r : Nat) (hb : 0 < bs)
    (wbank masks coeffs : List (List Rat)) :
    importance2 logit bs n r wbank masks coeffs = importanceSpec2 logit n r wbank masks coeffs := by
  unfold importance2 importanceSpec2 sobolOfMasked
  congr 1
  apply List.map_congr_left
  intro u _
  rw [batchInference_eq_map logit bs hb, List.map_map]; rfl

/-- **importance_is_jansen (4-D)** -/
theorem importance4_is_jansen (logit : List (List Rat) → Rat) (bs n r : Nat) (hb : 0 < bs)
    (wbank masks : List (List Rat)) (coeffs : List (List (List Rat))) :
    importance4 logit bs n r wbank masks coeffs = importanceSpec4 logit n r wbank masks coeffs := by
  unfold importance4 importanceSpec4 sobolOfMasked
  congr 1
  apply List.map_congr_left
  intro u _
  rw [batchInference_eq_map logit bs hb, List.map_map]; rfl

private theorem estimate_jansen_nonneg (ys : List Rat) (n d j : Nat) (v : Rat)
    (h : (estimate .jansen ys n d).getD j none = some v) : 0 ≤ v := by
  unfold estimate at h
  simp only [estOne] at h
  by_cases hj : j < ((splitABC ys n d).2.2.map (jansenOne n (splitABC ys n d).1)).length
  · rw [List.getD_eq_getElem?_getD, List.getElem?_eq_getElem hj] at h
    simp only [List.getElem_map, Option.getD_some] at h
    exact jansen_nonneg n _ _ v h
  · rw [List.getD_eq_getElem?_getD, List.getElem?_eq_none (Nat.le_of_not_lt hj)] at h
    simp at h

private theorem colMeanO_some {r : Nat} {rows : List (List (Option Rat))} {j : Nat} {s : Rat}
    (h : (colMeanO r rows)[j]? = some (some s)) :
    rows ≠ [] ∧ ∃ t, sumO (rows.map fun row => row.getD j none) = some t ∧ s = t / (rows.length : Rat) := by
  unfold colMeanO at h
  by_cases hj : j < r
  · rw [List.getElem?_map, List.getElem?_range hj] at h
    simp only [Option.map_some, Option.some.injEq] at h
    by_cases hr : rows = []
    · simp [hr] at h
    · rw [if_neg hr] at h
      cases hs : sumO (rows.map fun row => row.getD j none) with
      | none => rw [hs] at h; simp at h
      | some t =>
        rw [hs] at h
        simp only [Option.map_some, Option.some.injEq] at h
        exact ⟨hr, t, rfl, h.symm⟩
  · rw [List.getElem?_eq_none (by simp; omega)] at h
    simp at h

/-- **importance_nonneg** — every importance that is defined (no zero-variance input) is `≥ 0` -/
theorem importance_nonneg (logit : List Rat → Rat) (bs n r : Nat) (hb : 0 < bs)
    (wbank masks coeffs : List (List Rat)) (j : Nat) (s : Rat)
    (h : (importance2 logit bs n r wbank masks coeffs)[j]? = some (some s)) : 0 ≤ s := by
  rw [importance_is_jansen logit bs n r hb] at h
  unfold importanceSpec2 at h
  obtain ⟨_, t, ht, rfl⟩ := colMeanO_some h
  apply div_nonneg _ (by positivity)
  apply (sumO_some ht).2 (fun x => 0 ≤ x) (le_refl 0) (fun a b ha hb => add_nonneg ha hb)
  intro v hv
  obtain ⟨row, hrow, hv⟩ := List.mem_map.mp hv
  obtain ⟨u, _, rfl⟩ := List.mem_map.mp hrow
  exact estimate_jansen_nonneg _ n r j v hv

theorem importance4_nonneg (logit : List (List Rat) → Rat) (bs n r : Nat) (hb : 0 < bs)
    (wbank masks : List (List Rat)) (coeffs : List (List (List Rat))) (j : Nat) (s : Rat)
    (h : (importance4 logit bs n r wbank masks coeffs)[j]? = some (some s)) : 0 ≤ s := by
  rw [importance4_is_jansen logit bs n r hb] at h
  unfold importanceSpec4 at h
  obtain ⟨_, t, ht, rfl⟩ := colMeanO_some h
  apply div_nonneg _ (by positivity)
  apply (sumO_some ht).2 (fun x => 0 ≤ x) (le_refl 0) (fun a b ha hb => add_nonneg ha hb)
  intro v hv
  obtain ⟨row, hrow, hv⟩ := List.mem_map.mp hv
  obtain ⟨u, _, rfl⟩ := List.mem_map.mp hrow
  exact estimate_jansen_nonneg _ n r j v hv

/-- the Jansen estimator applied to affinely rescaled outputs -/
theorem estimate_jansen_affine (ys : List Rat) (n d : Nat) (a b : Rat) (ha : a ≠ 0) :
    estimate .jansen (ys.map fun v => a * v + b) n d = estimate .jansen ys n d := by
  unfold estimate splitABC
  simp only [map_slice, List.map_map, estOne]
  apply List.map_congr_left
  intro i _
  simp only [Function.comp]
  exact jansen_affine n _ _ a b ha

/-- **importance_affine** — replacing the logit by `α·logit + β`, `α ≠ 0` (in particular every
    positive rescaling) does not change the importances, for every batch size -/
theorem importance_affine (logit : List Rat → Rat) (bs n r : Nat) (hb : 0 < bs)
    (wbank masks coeffs : List (List Rat)) (a b : Rat) (ha : a ≠ 0) :
    importance2 (fun z => a * logit z + b) bs n r wbank masks coeffs
      = importance2 logit bs n r wbank masks coeffs := by
  rw [importance_is_jansen _ bs n r hb, importance_is_jansen _ bs n r hb]
  unfold importanceSpec2 sobolOfMasked
  congr 1
  apply List.map_congr_left
  intro u _
  rw [← estimate_jansen_affine (masks.map fun m => logit (recon wbank u m)) n r a b ha, List.map_map]
  rfl

theorem importance4_affine (logit : List (List Rat) → Rat) (bs n r : Nat) (hb : 0 < bs)
    (wbank masks : List (List Rat)) (coeffs : List (List (List Rat))) (a b : Rat) (ha : a ≠ 0) :
    importance4 (fun z => a * logit z + b) bs n r wbank masks coeffs
      = importance4 logit bs n r wbank masks coeffs := by
  rw [importance4_is_jansen _ bs n r hb, importance4_is_jansen _ bs n r hb]
  unfold importanceSpec4 sobolOfMasked
  congr 1
  apply List.map_congr_left
  intro u _
  rw [← estimate_jansen_affine (masks.map fun m => logit (u.map fun x => recon wbank x m)) n r a b ha,
    List.map_map]
  rfl

/-- **importance_zero_ignored** — on a replicated design, a concept whose mask value never changes
    the class logit of any input has importance exactly 0 (whenever the importance is defined) -/
theorem importance_zero_ignored (logit : List Rat → Rat) (bs n r i : Nat) (hb : 0 < bs) (hi : i < r)
    (wbank A B coeffs : List (List Rat)) (hA : A.length = n) (hB : B.length = n)
    (hig : ∀ u ∈ coeffs, ∀ m v, logit (recon wbank u (m.set i v)) = logit (recon wbank u m))
    (s : Rat) (h : (importance2 logit bs n r wbank (design A B r) coeffs)[i]? = some (some s)) : s = 0 := by
  rw [importance_is_jansen logit bs n r hb] at h
  unfold importanceSpec2 at h
  obtain ⟨_, t, ht, rfl⟩ := colMeanO_some h
  have : t = 0 := by
    apply (sumO_some ht).2 (fun x => x = 0) rfl (fun a b ha hb => by rw [ha, hb]; ring)
    intro v hv
    obtain ⟨row, hrow, hv⟩ := List.mem_map.mp hv
    obtain ⟨u, hu, rfl⟩ := List.mem_map.mp hrow
    unfold sobolOfMasked at hv
    apply jansen_zero_inert_design (fun m => logit (recon wbank u m)) A B n r i hA hB hi (hig u hu) v
    generalize estimate .jansen ((design A B r).map fun m => logit (recon wbank u m)) n r = l at hv
    by_cases hl : i < l.length
    · rw [List.getD_eq_getElem?_getD, List.getElem?_eq_getElem hl] at hv
      rw [List.getElem?_eq_getElem hl]; simpa using hv
    · rw [List.getD_eq_getElem?_getD, List.getElem?_eq_none (by omega)] at hv
      simp at hv
  rw [this]; simp

/-- **importance_zero_ignored (4-D)** -/
theorem importance4_zero_ignored (logit : List (List Rat) → Rat) (bs n r i : Nat) (hb : 0 < bs) (hi : i < r)
    (wbank A B : List (List Rat)) (coeffs : List (List (List Rat))) (hA : A.length = n) (hB : B.length = n)
    (hig : ∀ locs ∈ coeffs, ∀ m v,
      logit (locs.map fun u => recon wbank u (m.set i v)) = logit (locs.map fun u => recon wbank u m))
    (s : Rat) (h : (importance4 logit bs n r wbank (design A B r) coeffs)[i]? = some (some s)) : s = 0 := by
  rw [importance4_is_jansen logit bs n r hb] at h
  unfold importanceSpec4 at h
  obtain ⟨_, t, ht, rfl⟩ := colMeanO_some h
  have : t = 0 := by
    apply (sumO_some ht).2 (fun x => x = 0) rfl (fun a b ha hb => by rw [ha, hb]; ring)
    intro v hv
    obtain ⟨row, hrow, hv⟩ := List.mem_map.mp hv
    obtain ⟨locs, hu, rfl⟩ := List.mem_map.mp hrow
    unfold sobolOfMasked at hv
    apply jansen_zero_inert_design (fun m => logit (locs.map fun u => recon wbank u m)) A B n r i hA hB hi
      (hig locs hu) v
    generalize estimate .jansen ((design A B r).map fun m => logit (locs.map fun u => recon wbank u m)) n r = l at hv
    by_cases hl : i < l.length
    · rw [List.getD_eq_getElem?_getD, List.getElem?_eq_getElem hl] at hv
      rw [List.getElem?_eq_getElem hl]; simpa using hv
    · rw [List.getD_eq_getElem?_getD, List.getElem?_eq_none (by omega)] at hv
      simp at hv
  rw [this]; simp

/-! ## non-vacuity -/

/-- a (degenerate) factoriser satisfying the NMF hypothesis: the hypothesis is satisfiable -/
example : NmfOk { fitTransform := fun A => (A.map fun _ => [1, 0], [[1], [2]]), row := fun _ => [0, 1] } 2 where
  u_rows := by intro A; simp
  w_rows := by intro A; simp
  u_nonneg := by
    intro A row hrow v hv
    obtain ⟨_, _, rfl⟩ := List.mem_map.mp hrow
    simp at hv; rcases hv with rfl | rfl <;> norm_num
  w_nonneg := by
    intro A row hrow v hv
    simp at hrow; rcases hrow with rfl | rfl <;> simp at hv <;> subst hv <;> norm_num
  row_len := by intro a; simp
  row_nonneg := by intro a v hv; simp at hv; rcases hv with rfl | rfl <;> norm_num

example : extractPatches 1 3 4 2 [[1, 2, 3, 4, 5, 6, 7, 8, 9, 10, 11, 12]]
    = [[1, 2, 5, 6], [2, 3, 6, 7], [3, 4, 7, 8], [5, 6, 9, 10], [6, 7, 10, 11], [7, 8, 11, 12]] := by
  decide +kernel
example : chunkLens 3 7 = [3, 3, 1] := by decide +kernel
example : importance2 (fun a => a.getD 0 0 + 3 * a.getD 1 0) 2 2 2 [[1, 0], [0, 1]]
    (design [[0, 1 / 2], [1, 1 / 4]] [[1 / 2, 1], [1 / 4, 0]] 2) [[1, 1], [2, 1]]
    = [some (377 / 100), some (117 / 10)] := by decide +kernel
/-- a head that ignores concept 1 (`logit` reads coordinate 0 of the reconstruction, `W` diagonal) -/
example : importance2 (fun a => a.getD 0 0) 2 2 2 [[1, 0], [0, 1]]
    (design [[0, 1 / 2], [1, 1 / 4]] [[1 / 2, 1], [1 / 4, 0]] 2) [[1, 1], [2, 1]] = [some (13 / 32), some 0] := by
  decide +kernel

end Xp.Craft
