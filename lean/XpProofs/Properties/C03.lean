/-
  C03 — batching is transparent: batch_size never changes a deterministic result.

  General theorems about the batching structures of the code (operator batching, chunked
  accumulation, the per-sample consequence: permuting / subsetting / duplicating the inputs
  permutes / subsets / duplicates the explanations), plus the method-specific `*_bs_indep`
  theorems proved with each method's model (Occlusion here; the other methods' theorems live in
  their own property files and are re-exported at the end of this file as they are built).
-/
import XpModel.Basic
import XpProofs.Lemmas.Batching
import XpProofs.Lemmas.Vec
import XpProofs.Lemmas.OcclBatch
import Mathlib.Data.List.Perm.Basic

namespace Xp.C03
variable {α β : Type}

/-- an operator that scores each sample on its own (inference mode: no cross-sample coupling) -/
def PerSample (op : List α → List β) (f : α → β) : Prop := ∀ xs, op xs = xs.map f

/-- **operator batching** — `batch_predictions` / `operator_batching`: for every batch size
    (`None` or any `b ≥ 1`, dividing N or not, larger than N or not) the concatenated per-batch
    results are the per-sample results -/
theorem batched_any_bs (op : List α → List β) (f : α → β) (h : PerSample op f) (bs : Option Nat)
    (hb : ∀ b, bs = some b → 0 < b) (xs : List α) : batched op bs xs = xs.map f :=
  batched_eq_map op f h bs hb xs

/-- two batch sizes give the same result -/
theorem batched_bs_indep (op : List α → List β) (f : α → β) (h : PerSample op f) (b b' : Nat)
    (hb : 0 < b) (hb' : 0 < b') (xs : List α) : batched op (some b) xs = batched op (some b') xs := by
  rw [batched_any_bs op f h (some b) (by intro c hc; cases hc; exact hb),
      batched_any_bs op f h (some b') (by intro c hc; cases hc; exact hb')]

/-- **only bounds memory** — no chunk handed to the model exceeds the batch size, none is empty,
    and together they are exactly the inputs in order -/
theorem calls_le_bs (b : Nat) (hb : 0 < b) (xs : List α) :
    (∀ c ∈ batches b xs, c.length ≤ b ∧ 0 < c.length) ∧ (batches b xs).flatten = xs :=
  ⟨batch_len_le b xs, flatten_batches b hb xs⟩

/-- **permuting the inputs permutes the explanations** (same permutation) -/
theorem per_sample_perm (op : List α → List β) (f : α → β) (h : PerSample op f) (bs : Option Nat)
    (hb : ∀ b, bs = some b → 0 < b) (xs ys : List α) (hp : xs.Perm ys) :
    (batched op bs xs).Perm (batched op bs ys) := by
  rw [batched_any_bs op f h bs hb, batched_any_bs op f h bs hb]; exact hp.map f

/-- **subsetting the inputs subsets the explanations** -/
theorem per_sample_sublist (op : List α → List β) (f : α → β) (h : PerSample op f) (bs : Option Nat)
    (hb : ∀ b, bs = some b → 0 < b) (xs ys : List α) (hs : xs.Sublist ys) :
    (batched op bs xs).Sublist (batched op bs ys) := by
  rw [batched_any_bs op f h bs hb, batched_any_bs op f h bs hb]; exact hs.map f

/-- **duplicating an input duplicates its explanation** -/
theorem per_sample_dup (op : List α → List β) (f : α → β) (h : PerSample op f) (bs : Option Nat)
    (hb : ∀ b, bs = some b → 0 < b) (x : α) (n : Nat) :
    batched op bs (List.replicate n x) = List.replicate n (f x) := by
  rw [batched_any_bs op f h bs hb]; simp

/-- the explanation of a sample does not depend on its neighbours in the call -/
theorem per_sample_position (op : List α → List β) (f : α → β) (h : PerSample op f) (bs : Option Nat)
    (hb : ∀ b, bs = some b → 0 < b) (pre post : List α) (x : α) :
    (batched op bs (pre ++ x :: post))[pre.length]? = some (f x) := by
  rw [batched_any_bs op f h bs hb]; simp

/-- **chunked accumulation** (Occlusion sensitivities, RISE numerator / denominator, online
    statistics): summing per-chunk column sums over ANY chunking equals the column sums over the
    whole list -/
theorem accumulate_any_chunking {μ : Type} (n b : Nat) (hb : 0 < b) (h : Nat → μ → Rat) (ms : List μ) :
    (batches b ms).foldl (fun a ch => vadd a ((List.range n).map fun k => sumQ (ch.map (h k)))) (vzero n)
      = (List.range n).map fun k => sumQ (ms.map (h k)) := by
  rw [foldl_vadd_chunks n h _ _ (vzero_length n), flatten_batches b hb]
  apply List.map_congr_left; intro k _; rw [vzero_getD, zero_add]

/-- the `while total < nb_samples` loop of GradientStatistic / MuFidelity draws exactly
    `nb_samples` perturbations in chunks of at most `perturbation_batch_size` -/
theorem chunk_loop_exact (pbs nb : Nat) (h : 0 < pbs) :
    (chunkSizes pbs nb).sum = nb ∧ ∀ c ∈ chunkSizes pbs nb, 0 < c ∧ c ≤ pbs :=
  ⟨chunkSizes_sum pbs nb h, chunkSizes_le pbs nb⟩

/-- Occlusion (model of C06): every batch size gives the `None` result — for ANY mask geometry
    (this does not depend on the anchor arithmetic) -/
theorem occlusion_bs_indep (g : Occl.Geom) (f : List Rat → List Rat → Rat) (v : Rat)
    (b : Nat) (hb : 0 < b) (xs ys : List (List Rat)) :
    Occl.explain g f v (some b) xs ys = Occl.explain g f v none xs ys := by
  unfold Occl.explain
  by_cases hx : xs = []
  · subst hx; simp
  · have hn : 0 < effBatch none xs.length := List.length_pos_iff.mpr hx
    show List.zipWith (fun x y => Occl.explainOne g (fun z => f z y) v b x) xs ys
       = List.zipWith (fun x y => Occl.explainOne g (fun z => f z y) v (effBatch none xs.length) x) xs ys
    congr 1
    funext x y
    exact Occl.explainOne_bs_indep g _ v b _ hb hn x

-- non-vacuity
example : PerSample (fun xs : List Nat => xs.map (· + 1)) (· + 1) := fun _ => rfl
example : batched (fun xs : List Nat => xs.map (· * 2)) (some 2) [1, 2, 3, 4, 5] = [2, 4, 6, 8, 10] := by
  decide +kernel

end Xp.C03
