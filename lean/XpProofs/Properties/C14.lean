/-
  C14 — Deletion / Insertion follow the documented curve, and only the ranking matters.

  `Causal.detailedImpl` / `aucImpl` model `CausalFidelity.detailed_evaluate` / `evaluate`
  (feature-count arithmetic GENERATED from the source); `detailedSpec`, `curveSpec`, `trapzSpec`
  are the reference definitions.  All statements hold for every number of samples, feature
  count, channel count, score function, step list and batch size.

  Parameters standing for library behaviour (hypotheses, see each theorem):
  * `op` — the batched operator is per-sample (`hop : ∀ b, op b = b.map …`);
  * `sort` — NumPy's argsort: any procedure whose result depends on the keys only through the
    comparisons (`rank_only` needs nothing else), resp. any correct sort (`SortOK`) for
    `endpoint_end`, `duality`; tie order is left unspecified;
  * the step counts — NumPy's `linspace(.., dtype=int32)` output is a parameter `steps`; its
    idealisation `linspaceFloor` is shown to be evenly spaced (`steps_spacing`), the harness
    judges the observed counts with `stepsOk` (`stepsOk_sound`).
-/
import XpModel.Causal
import XpProofs.Lemmas.Batching
import XpProofs.Lemmas.Vec
import XpProofs.Lemmas.Causal

namespace Xp.Causal
open List

/-! ### generated feature-count arithmetic (translator lane) -/

/-- `max_nb_perturbed = ⌊p · F⌋` for `p = pn / pd`: it is the natural-number quotient, i.e. the
    unique `M` with `M · pd ≤ F · pn < (M + 1) · pd`. About the GENERATED `Gen.causalMaxNb`. -/
theorem causal_max_nb_spec (nf pn pd : Nat) (hpd : 0 < pd) :
    maxNb nf pn pd = nf * pn / pd ∧
    maxNb nf pn pd * pd ≤ nf * pn ∧ nf * pn < (maxNb nf pn pd + 1) * pd := by
  have h : maxNb nf pn pd = nf * pn / pd := by
    unfold maxNb Gen.causalMaxNb
    rw [Int.fdiv_eq_ediv_of_nonneg _ (by exact_mod_cast hpd.le)]
    have : ((nf : Int) * (pn : Int)) / (pd : Int) = ((nf * pn / pd : Nat) : Int) := by push_cast; rfl
    rw [this]; exact Int.toNat_natCast _
  refine ⟨h, ?_, ?_⟩
  · rw [h]; exact Nat.div_mul_le_self _ _
  · rw [h, Nat.mul_comm (nf * pn / pd + 1) pd]; exact Nat.lt_mul_div_succ _ hpd

/-- with `max_percentage ≤ 1` at most all features are perturbed -/
theorem causal_max_nb_le (nf pn pd : Nat) (hpd : 0 < pd) (hp : pn ≤ pd) : maxNb nf pn pd ≤ nf := by
  rw [(causal_max_nb_spec nf pn pd hpd).1]
  calc nf * pn / pd ≤ nf * pd / pd := Nat.div_le_div_right (Nat.mul_le_mul_left nf hp)
    _ = nf := Nat.mul_div_cancel nf hpd

/-- the `steps == -1` rule: `-1` means "one step per perturbed feature", any other (non-negative)
    value is kept. About the GENERATED `Gen.causalSteps`. -/
theorem causal_steps_rule (M : Nat) :
    nbSteps (-1) M = M ∧ ∀ s : Nat, nbSteps (s : Int) M = s := by
  constructor
  · simp [nbSteps, Gen.causalSteps]
  · intro s
    have : ¬ ((s : Int) = -1) := by omega
    simp [nbSteps, Gen.causalSteps, this]

/-- the source asks NumPy for `S + 1` points from `0` to `max_nb_perturbed` (GENERATED arguments) -/
theorem causal_lin_args (M S : Nat) :
    linArgs M S = (0, (M : Int), (S : Int) + 1) ∧ linspaceOf (linArgs M S) = linspaceFloor M S := by
  have h : linArgs M S = (0, (M : Int), (S : Int) + 1) := by
    simp [linArgs, Gen.causalLinStart, Gen.causalLinStop, Gen.causalLinNum]
  refine ⟨h, ?_⟩
  rw [h]
  unfold linspaceOf
  have h1 : (1 : Int) ≤ (S : Int) + 1 := by omega
  have h2 : ((S : Int) + 1).toNat - 1 = S := by omega
  simp [h1, h2]

/-! ### step counts -/

/-- **steps_spacing** — the idealised step counts `⌊j·M/S⌋` are `S+1` values running from `0` to
    `M`, non-decreasing, each within one unit below the exact position `j·M/S`
    (`k_j·S ≤ j·M < (k_j+1)·S`), and they pass the executable test applied to the observed keys. -/
theorem steps_spacing (M S : Nat) (hS : 0 < S) :
    (linspaceFloor M S).length = S + 1 ∧
    (linspaceFloor M S).getD 0 1 = 0 ∧ (linspaceFloor M S).getD S (M + 1) = M ∧
    (∀ j, j ≤ S → (linspaceFloor M S).getD j 0 * S ≤ j * M ∧ j * M < ((linspaceFloor M S).getD j 0 + 1) * S) ∧
    (∀ j, j < S → (linspaceFloor M S).getD j 0 ≤ (linspaceFloor M S).getD (j + 1) 0) ∧
    stepsOk M S (linspaceFloor M S) = true := by
  have hb : ∀ j, j ≤ S → (linspaceFloor M S).getD j 0 * S ≤ j * M ∧
      j * M < ((linspaceFloor M S).getD j 0 + 1) * S := by
    intro j hj
    rw [linspaceFloor_getD M S j 0 hj]
    exact ⟨Nat.div_mul_le_self _ _, by rw [Nat.mul_comm _ S]; exact Nat.lt_mul_div_succ _ hS⟩
  have hm : ∀ j, j < S → (linspaceFloor M S).getD j 0 ≤ (linspaceFloor M S).getD (j + 1) 0 := by
    intro j hj
    rw [linspaceFloor_getD M S j 0 hj.le, linspaceFloor_getD M S (j + 1) 0 hj]
    exact Nat.div_le_div_right (Nat.mul_le_mul_right M (Nat.le_succ j))
  have h0 : (linspaceFloor M S).getD 0 1 = 0 := by
    rw [linspaceFloor_getD M S 0 1 (Nat.zero_le _)]; simp
  have hl : (linspaceFloor M S).getD S (M + 1) = M := by
    rw [linspaceFloor_getD M S S _ le_rfl]; exact Nat.mul_div_cancel_left M hS
  refine ⟨linspaceFloor_length M S, h0, hl, hb, hm, ?_⟩
  unfold stepsOk
  simp only [Bool.and_eq_true, Bool.or_eq_true, beq_iff_eq, List.all_eq_true, List.mem_range,
    decide_eq_true_eq]
  exact ⟨⟨⟨⟨linspaceFloor_length M S, h0⟩, Or.inr hl⟩,
    fun j hj => ⟨(hb j (by omega)).1, (hb j (by omega)).2.le⟩⟩, hm⟩

/-- what passing `stepsOk` means for an observed list of step counts -/
theorem stepsOk_sound (M S : Nat) (ks : List Nat) (h : stepsOk M S ks = true) :
    ks.length = S + 1 ∧ ks.getD 0 1 = 0 ∧ (0 < S → ks.getD S (M + 1) = M) ∧
    (∀ j, j ≤ S → ks.getD j 0 * S ≤ j * M ∧ j * M ≤ (ks.getD j 0 + 1) * S) ∧
    (∀ j, j < S → ks.getD j 0 ≤ ks.getD (j + 1) 0) := by
  unfold stepsOk at h
  simp only [Bool.and_eq_true, Bool.or_eq_true, beq_iff_eq, List.all_eq_true, List.mem_range,
    decide_eq_true_eq] at h
  obtain ⟨⟨⟨⟨h1, h2⟩, h3⟩, h4⟩, h5⟩ := h
  refine ⟨h1, h2, ?_, fun j hj => h4 j (by omega), h5⟩
  intro hS
  rcases h3 with h3 | h3
  · omega
  · exact h3

/-! ### the curve -/

/-- one point of the curve: flipping by row assignment and batched inference (any batch size)
    give the mean score of the samples whose `k` highest-ranked features come from `end_` -/
theorem causal_point_spec (op : List (List Rat × List Rat) → List Rat) (g : List Rat → List Rat → Rat)
    (hop : ∀ b, op b = b.map fun p => g p.1 p.2) (bs : Option Nat) (hbs : ∀ b, bs = some b → 0 < b)
    (ss : List Sample) (k : Nat) : pointImpl op bs ss k = curveSpec g ss k := by
  unfold pointImpl curveSpec
  rw [batched_eq_map op (fun p => g p.1 p.2) hop bs hbs, List.map_map]
  congr 1
  apply List.map_congr_left
  intro s _
  simp only [Function.comp, flipImpl_eq_flipSpec]

/-- **causal_curve_spec** — `detailed_evaluate` (model) returns, for every list of step counts
    (so for `steps = -1`, `steps > features`, repeated counts …), every batch size and every
    per-sample operator, the dict `first occurrences of the counts ↦ reference curve value`. -/
theorem causal_curve_spec (op : List (List Rat × List Rat) → List Rat) (g : List Rat → List Rat → Rat)
    (hop : ∀ b, op b = b.map fun p => g p.1 p.2) (bs : Option Nat) (hbs : ∀ b, bs = some b → 0 < b)
    (ss : List Sample) (steps : List Nat) :
    detailedImpl op bs ss steps = detailedSpec g ss steps := by
  unfold detailedImpl detailedSpec
  have : (fun (d : List (Nat × Rat)) k => dictInsert d k (pointImpl op bs ss k))
      = fun d k => dictInsert d k (curveSpec g ss k) := by
    funext d k; rw [causal_point_spec op g hop bs hbs]
  rw [this, dict_loop]

/-- the result does not depend on the batch size (exported to C03) -/
theorem causal_bs_indep (op : List (List Rat × List Rat) → List Rat) (g : List Rat → List Rat → Rat)
    (hop : ∀ b, op b = b.map fun p => g p.1 p.2) (b : Nat) (hb : 0 < b)
    (ss : List Sample) (steps : List Nat) :
    detailedImpl op (some b) ss steps = detailedImpl op none ss steps := by
  rw [causal_curve_spec op g hop (some b) (by intro b' h; cases h; exact hb),
      causal_curve_spec op g hop none (by intro b' h; cases h)]

/-- every sample contributes separately: the curve value is the mean of per-sample scores -/
theorem causal_per_sample (g : List Rat → List Rat → Rat) (ss : List Sample) (k : Nat) :
    curveSpec g ss k * (ss.length : Rat)
      = sumQ (ss.map fun s => g (flipSpec s.start s.end_ (s.order.take k)).flatten s.y) := by
  unfold curveSpec meanQ
  by_cases h : ss = []
  · subst h; simp
  · have : ((ss.map fun s => g (flipSpec s.start s.end_ (s.order.take k)).flatten s.y).length : Rat) ≠ 0 := by
      simpa using h
    rw [List.length_map] at this ⊢
    field_simp

/-- **auc_trapezoid** — `evaluate` is the composite trapezoidal mean of the curve values
    (end points weighted ½, divided by the number of intervals); a one-point curve has no area. -/
theorem auc_trapezoid (vals : List Rat) :
    (2 ≤ vals.length → aucImpl vals = some (trapzSpec vals)) ∧ (vals.length ≤ 1 → aucImpl vals = none) := by
  constructor
  · intro h
    unfold aucImpl
    have hl := pairs_length vals
    simp only [hl]
    rw [if_neg (by omega)]
    congr 1
    cases vals with
    | nil => simp at h
    | cons a l =>
      unfold meanQ trapzSpec
      rw [hl, pairs_sum a l]
      have h1 : (((a :: l).length - 1 : Nat) : Rat) = ((a :: l).length : Rat) - 1 := by
        rw [Nat.cast_sub (by omega)]; simp
      have h2 : ((a :: l).length : Rat) - 1 ≠ 0 := by
        have : (2 : Rat) ≤ ((a :: l).length : Rat) := by exact_mod_cast h
        linarith
      rw [h1]
      simp only [List.headD_cons]
      field_simp
      ring
  · intro h
    unfold aucImpl
    simp only [pairs_length vals]
    rw [if_pos (by omega)]

/-! ### only the ranking matters -/

/-- **rank_only** — a strictly monotone transformation of a sample's feature scores leaves its
    ranking unchanged, for ANY sorting procedure (a comparison sort sees the keys only through
    `leIdx`, which is unchanged; ties stay ties) … -/
theorem rank_only (sort : (Nat → Nat → Bool) → List Nat → List Nat) (φ : Rat → Rat) (hφ : StrictMono φ)
    (e : List Rat) : argsortDescWith sort (e.map φ) = argsortDescWith sort e := by
  unfold argsortDescWith
  rw [leIdx_map φ hφ, List.length_map]

/-- … hence the whole metric (dict and AUC) is unchanged (explanations without channel axis, or
    after the channel mean) -/
theorem rank_only_metric (sort : (Nat → Nat → Bool) → List Nat → List Nat) (φ : Rat → Rat)
    (hφ : StrictMono φ) (deletion : Bool) (c : Nat) (xs bases es ys : List (List Rat))
    (op : List (List Rat × List Rat) → List Rat) (bs : Option Nat) (steps : List Nat) :
    detailedImpl op bs (mkSamples sort deletion c none xs bases (es.map (List.map φ)) ys) steps
      = detailedImpl op bs (mkSamples sort deletion c none xs bases es ys) steps := by
  have : mkSamples sort deletion c none xs bases (es.map (List.map φ)) ys
      = mkSamples sort deletion c none xs bases es ys := by
    unfold mkSamples
    rw [List.zip_map_left, List.zipWith_map_right]
    congr 1
    funext p q
    obtain ⟨x, b⟩ := p
    obtain ⟨e, y⟩ := q
    simp [rank_only sort φ hφ]
  rw [this]

/-! ### end points -/

/-- **endpoints (start)** — at count 0 the curve is the mean score of the start state
    (original inputs for Deletion, baselines for Insertion) -/
theorem endpoint_start (g : List Rat → List Rat → Rat) (ss : List Sample) :
    curveSpec g ss 0 = meanQ (ss.map fun s => g s.start.flatten s.y) := by
  unfold curveSpec
  simp [flipSpec_nil]

/-- **endpoints (end)** — when all `F` features are perturbed (`max_percentage = 1`) the last point
    is the mean score of the end state, whatever the ranking (any permutation of the features) -/
theorem endpoint_end (g : List Rat → List Rat → Rat) (F : Nat) (ss : List Sample)
    (h : ∀ s ∈ ss, s.start.length = F ∧ s.end_.length = F ∧ s.order.Perm (List.range F)) :
    curveSpec g ss F = meanQ (ss.map fun s => g s.end_.flatten s.y) := by
  unfold curveSpec
  congr 1
  apply List.map_congr_left
  intro s hs
  obtain ⟨h1, h2, h3⟩ := h s hs
  have hlen : s.order.length = F := by rw [h3.length_eq, List.length_range]
  rw [List.take_of_length_le (by omega),
    flipSpec_all s.start s.end_ s.order (h1.trans h2.symm)
      (fun i hi => h3.mem_iff.mpr (List.mem_range.mpr (h1 ▸ hi)))]

/-! ### duality -/

/-- **duality** — for tie-free explanations and any correct sort, Insertion with `e` at feature
    count `c` equals Deletion with `-e` at feature count `F - c` (stated on feature counts, i.e.
    dict keys), for every score and baseline. `cases` lists `(x rows, baseline rows, e, y)`. -/
theorem duality (sort : (Nat → Nat → Bool) → List Nat → List Nat) (hsort : SortOK sort)
    (g : List Rat → List Rat → Rat) (F : Nat)
    (cases : List (List (List Rat) × List (List Rat) × List Rat × List Rat))
    (h : ∀ q ∈ cases, q.1.length = F ∧ q.2.1.length = F ∧ q.2.2.1.length = F ∧ q.2.2.1.Nodup)
    (c : Nat) (hc : c ≤ F) :
    curveSpec g (cases.map fun q =>
        { start := q.2.1, end_ := q.1, order := argsortDescWith sort q.2.2.1, y := q.2.2.2 : Sample }) c
      = curveSpec g (cases.map fun q =>
        { start := q.1, end_ := q.2.1, order := argsortDescWith sort (q.2.2.1.map fun v => -v),
          y := q.2.2.2 : Sample }) (F - c) := by
  unfold curveSpec
  rw [List.map_map, List.map_map]
  congr 1
  apply List.map_congr_left
  intro q hq
  obtain ⟨h1, h2, h3, h4⟩ := h q hq
  simp only [Function.comp]
  rw [argsort_neg sort hsort _ h4,
    flip_dual F c q.1 q.2.1 _ h1 h2 (h3 ▸ argsort_perm sort hsort q.2.2.1) hc]

/-! ### additive scores: exact attributions are optimal -/

/-- **additive_optimal (Deletion)** — score additive over features, features ranked by decreasing
    exact attribution `a_i = g_i(x_i) − g_i(base_i)` (ties in any order): after deleting the first
    `k` features the score is ≤ the score reached by ANY other ordering `σ`, for every `k`. -/
theorem additive_optimal_deletion (F C : Nat) (f : List Rat → Rat) (c0 : Rat) (gi : Nat → List Rat → Rat)
    (hadd : FeatAdditive F C f c0 gi) (x base : List (List Rat)) (hx : x.length = F) (hb : base.length = F)
    (hxu : ∀ r ∈ x, r.length = C) (hbu : ∀ r ∈ base, r.length = C)
    (o σ : List Nat) (ho : o.Perm (List.range F)) (hσ : σ.Perm (List.range F))
    (hsorted : o.Pairwise fun i j =>
      gi i (x.getD i []) - gi i (base.getD i []) ≥ gi j (x.getD j []) - gi j (base.getD j [])) (k : Nat) :
    f (flipSpec x base (o.take k)).flatten ≤ f (flipSpec x base (σ.take k)).flatten := by
  have hnd : ∀ l : List Nat, l.Perm (List.range F) → (l.take k).Nodup ∧ ∀ i ∈ l.take k, i < F := fun l hl =>
    ⟨(hl.nodup_iff.mpr List.nodup_range).sublist (List.take_sublist k l),
     fun i hi => List.mem_range.mp (hl.subset (List.mem_of_mem_take hi))⟩
  rw [score_flip F C f c0 gi hadd x base hx hb hxu hbu _ (hnd o ho).1 (hnd o ho).2,
      score_flip F C f c0 gi hadd x base hx hb hxu hbu _ (hnd σ hσ).1 (hnd σ hσ).2]
  have := topk_sum_ge (fun i => gi i (x.getD i []) - gi i (base.getD i [])) F o σ ho hσ hsorted k
  linarith

/-- **additive_optimal (Insertion)** — symmetric statement: inserting the `k` features with the
    largest exact attributions onto the baseline gives a score ≥ that of any other ordering. -/
theorem additive_optimal_insertion (F C : Nat) (f : List Rat → Rat) (c0 : Rat) (gi : Nat → List Rat → Rat)
    (hadd : FeatAdditive F C f c0 gi) (x base : List (List Rat)) (hx : x.length = F) (hb : base.length = F)
    (hxu : ∀ r ∈ x, r.length = C) (hbu : ∀ r ∈ base, r.length = C)
    (o σ : List Nat) (ho : o.Perm (List.range F)) (hσ : σ.Perm (List.range F))
    (hsorted : o.Pairwise fun i j =>
      gi i (x.getD i []) - gi i (base.getD i []) ≥ gi j (x.getD j []) - gi j (base.getD j [])) (k : Nat) :
    f (flipSpec base x (σ.take k)).flatten ≤ f (flipSpec base x (o.take k)).flatten := by
  have hnd : ∀ l : List Nat, l.Perm (List.range F) → (l.take k).Nodup ∧ ∀ i ∈ l.take k, i < F := fun l hl =>
    ⟨(hl.nodup_iff.mpr List.nodup_range).sublist (List.take_sublist k l),
     fun i hi => List.mem_range.mp (hl.subset (List.mem_of_mem_take hi))⟩
  rw [score_flip F C f c0 gi hadd base x hb hx hbu hxu _ (hnd o ho).1 (hnd o ho).2,
      score_flip F C f c0 gi hadd base x hb hx hbu hxu _ (hnd σ hσ).1 (hnd σ hσ).2]
  have := topk_sum_ge (fun i => gi i (x.getD i []) - gi i (base.getD i [])) F o σ ho hσ hsorted k
  have e1 : ∀ l : List Nat, (l.map fun i => gi i (base.getD i []) - gi i (x.getD i [])).sum
      = - (l.map fun i => gi i (x.getD i []) - gi i (base.getD i [])).sum := by
    intro l
    induction l with
    | nil => simp
    | cons a l ih => simp only [List.map_cons, List.sum_cons, ih]; ring
  rw [e1, e1]
  linarith

/-- pointwise order of per-sample scores carries over to the curve (mean over samples) -/
theorem curve_mono (g : List Rat → List Rat → Rat) (ss ss' : List Sample) (k k' : Nat)
    (hlen : ss.length = ss'.length)
    (h : ∀ p ∈ ss.zip ss', g (flipSpec p.1.start p.1.end_ (p.1.order.take k)).flatten p.1.y
            ≤ g (flipSpec p.2.start p.2.end_ (p.2.order.take k')).flatten p.2.y) :
    curveSpec g ss k ≤ curveSpec g ss' k' := by
  unfold curveSpec meanQ
  simp only [List.length_map, hlen]
  apply div_le_div_of_nonneg_right _ (by positivity)
  induction ss generalizing ss' with
  | nil => cases ss' with
    | nil => simp
    | cons _ _ => simp at hlen
  | cons s ss ih => cases ss' with
    | nil => simp at hlen
    | cons s' ss' =>
      simp only [List.map_cons, sumQ_cons]
      have h1 := h (s, s') (by simp)
      have h2 := ih ss' (by simpa using hlen) (fun p hp => h p (by simp [hp]))
      linarith

/-- **additive_optimal (metric level)** — `ss` and `ss'` hold the same samples (same start / end
    states and labels) with different rankings; every sample's score is feature-additive and the
    rankings in `ss` are by decreasing exact attribution of the start→end change
    (`g_i(start_i) − g_i(end_i)`: Deletion with `e = w·(x − base)`). Then at EVERY feature count the
    curve of `ss` lies below the curve of `ss'` (any other orderings), hence so does the AUC. -/
theorem additive_optimal_curve (F C : Nat) (g : List Rat → List Rat → Rat) (ss ss' : List Sample)
    (hlen : ss.length = ss'.length)
    (h : ∀ p ∈ ss.zip ss', p.1.start = p.2.start ∧ p.1.end_ = p.2.end_ ∧ p.1.y = p.2.y ∧
      p.1.start.length = F ∧ p.1.end_.length = F ∧
      (∀ r ∈ p.1.start, r.length = C) ∧ (∀ r ∈ p.1.end_, r.length = C) ∧
      p.1.order.Perm (List.range F) ∧ p.2.order.Perm (List.range F) ∧
      ∃ c0 gi, FeatAdditive F C (fun z => g z p.1.y) c0 gi ∧
        p.1.order.Pairwise fun i j =>
          gi i (p.1.start.getD i []) - gi i (p.1.end_.getD i []) ≥
          gi j (p.1.start.getD j []) - gi j (p.1.end_.getD j []))
    (k : Nat) : curveSpec g ss k ≤ curveSpec g ss' k := by
  apply curve_mono g ss ss' k k hlen
  intro p hp
  obtain ⟨h1, h2, h3, h4, h5, h6, h7, h8, h9, c0, gi, hadd, hsorted⟩ := h p hp
  rw [← h1, ← h2, ← h3]
  exact additive_optimal_deletion F C (fun z => g z p.1.y) c0 gi hadd p.1.start p.1.end_ h4 h5 h6 h7
    p.1.order p.2.order h8 h9 hsorted k

private theorem mem_zip_swap {α : Type} : ∀ (l1 l2 : List α) (a b : α), (a, b) ∈ l1.zip l2 → (b, a) ∈ l2.zip l1
  | [], _, _, _, h => by simp at h
  | _ :: _, [], _, _, h => by simp at h
  | x :: l1, y :: l2, a, b, h => by
    simp only [List.zip_cons_cons, List.mem_cons, Prod.mk.injEq] at h ⊢
    rcases h with ⟨h1, h2⟩ | h
    · exact Or.inl ⟨h2, h1⟩
    · exact Or.inr (mem_zip_swap l1 l2 a b h)

/-- mirror statement (Insertion with `e = w·(x − base)`: rankings by decreasing `g_i(end_i) − g_i(start_i)`):
    the curve of `ss` lies above the curve of any other orderings at every feature count -/
theorem additive_optimal_curve_ins (F C : Nat) (g : List Rat → List Rat → Rat) (ss ss' : List Sample)
    (hlen : ss.length = ss'.length)
    (h : ∀ p ∈ ss.zip ss', p.1.start = p.2.start ∧ p.1.end_ = p.2.end_ ∧ p.1.y = p.2.y ∧
      p.1.start.length = F ∧ p.1.end_.length = F ∧
      (∀ r ∈ p.1.start, r.length = C) ∧ (∀ r ∈ p.1.end_, r.length = C) ∧
      p.1.order.Perm (List.range F) ∧ p.2.order.Perm (List.range F) ∧
      ∃ c0 gi, FeatAdditive F C (fun z => g z p.1.y) c0 gi ∧
        p.1.order.Pairwise fun i j =>
          gi i (p.1.end_.getD i []) - gi i (p.1.start.getD i []) ≥
          gi j (p.1.end_.getD j []) - gi j (p.1.start.getD j []))
    (k : Nat) : curveSpec g ss' k ≤ curveSpec g ss k := by
  apply curve_mono g ss' ss k k hlen.symm
  intro p hp
  have hp' : (p.2, p.1) ∈ ss.zip ss' := by
    exact mem_zip_swap ss' ss p.1 p.2 hp
  obtain ⟨h1, h2, h3, h4, h5, h6, h7, h8, h9, c0, gi, hadd, hsorted⟩ := h (p.2, p.1) hp'
  simp only at h1 h2 h3 h4 h5 h6 h7 h8 h9 hadd hsorted
  rw [← h1, ← h2, ← h3]
  exact additive_optimal_insertion F C (fun z => g z p.2.y) c0 gi hadd p.2.end_ p.2.start h5 h4 h7 h6
    p.2.order p.1.order h8 h9 hsorted k

/-! ### channels -/

/-- **channels_together** — in the re-flattened perturbed input, flat position `k` belongs to
    feature `k / C`; it holds the `end_` value iff that feature was selected: all `C` channels of
    a pixel are replaced together, never a single channel. -/
theorem channels_together (C : Nat) (hC : 0 < C) (s e : List (List Rat)) (ids : List Nat)
    (hlen : s.length = e.length) (hs : ∀ r ∈ s, r.length = C) (he : ∀ r ∈ e, r.length = C)
    (k : Nat) (hk : k < s.length * C) :
    (flipSpec s e ids).flatten.getD k 0
      = if ids.contains (k / C) then e.flatten.getD k 0 else s.flatten.getD k 0 := by
  have hkC : k / C < s.length := by
    rw [Nat.div_lt_iff_lt_mul hC]; exact hk
  have hrows := flipSpec_uniform C s e ids hlen hs he
  rw [flatten_getD_uniform C hC _ hrows, flatten_getD_uniform C hC e he, flatten_getD_uniform C hC s hs,
    flipSpec_getD s e ids (k / C) hkC]
  by_cases hc : k / C ∈ ids <;> simp [hc]

/-- explanations without channel axis and with a channel axis of size 1 are treated alike -/
theorem channel_axis_one (sort : (Nat → Nat → Bool) → List Nat → List Nat) (deletion : Bool) (c : Nat)
    (xs bases es ys : List (List Rat)) :
    mkSamples sort deletion c (some 1) xs bases es ys = mkSamples sort deletion c none xs bases es ys := by
  unfold mkSamples
  simp only [chanMean_one]

/-! ### non-vacuity -/

example : SortOK (fun le l => l.mergeSort le) := mergeSort_ok
example : StrictMono (fun x : Rat => 2 * x + 1) := fun a b h => by simp only; linarith
example : ([3, -1, 7, 0] : List Rat).Nodup := by decide +kernel
example : argsortDesc ([3, -1, 7, 0].map fun v => -v) = (argsortDesc [3, -1, 7, 0]).reverse :=
  argsort_neg _ mergeSort_ok _ (by decide +kernel)
example : linspaceFloor 7 3 = [0, 2, 4, 7] ∧ stepsOk 2 98 (linspaceFloor 2 98) = true := by decide +kernel
example : dedupKeys (linspaceFloor 2 5) = [0, 1, 2] := by decide +kernel
/-- a linear score is feature-additive (2 features × 1 channel) -/
example : FeatAdditive 2 1 (fun z => 5 + 2 * z.getD 0 0 + 3 * z.getD 1 0) 5
    (fun i r => if i = 0 then 2 * r.getD 0 0 else 3 * r.getD 0 0) := by
  intro rows hl hu
  match rows, hl, hu with
  | [r0, r1], _, hu =>
    have h0 : r0.length = 1 := hu r0 (by simp)
    have h1 : r1.length = 1 := hu r1 (by simp)
    match r0, r1, h0, h1 with
    | [a], [b], _, _ => simp [List.range, List.range.loop]; ring
example : aucImpl [4, 2, 1] = some (9 / 4) ∧ trapzSpec [4, 2, 1] = 9 / 4 := by decide +kernel
example : flipSpec [[1, 1], [2, 2], [3, 3]] [[0, 0], [0, 0], [0, 0]] ([2, 0, 1].take 2)
    = [[0, 0], [2, 2], [0, 0]] := by decide +kernel

end Xp.Causal
