/-
  C02 — the explained function is the one selected by operator / output_layer / targets.

  Model: XpModel/Operators.lean.  Decision logic of operator resolution and of output_layer
  (REPAIRED constructor; `Witness.output_layer_ignored` shows the pre-fix behaviour violates the
  property), and the algebra of the built-in task operators (segmentation zone mean, IoU, D-RISE).
-/
import XpModel.Operators
import XpProofs.Lemmas.Vec
import XpProofs.Lemmas.MinMax
import Mathlib.Tactic.Ring
import Mathlib.Tactic.Linarith
import Mathlib.Tactic.Positivity
import Mathlib.Tactic.FieldSimp
import Mathlib.Algebra.Order.Field.Rat

namespace Xp.Op

/-! ### operator resolution -/

/-- **documented aliases** — every task name resolves to its documented operator -/
theorem resolve_table :
    resolve (.name "classification") = .predictions ∧
    resolve (.name "regression") = .predictions ∧
    resolve (.name "semantic segmentation") = .segmentation ∧
    resolve (.name "object detection") = .detection true true ∧
    resolve (.name "object detection box position") = .detection false false ∧
    resolve (.name "object detection box proba") = .detection true false ∧
    resolve (.name "object detection box class") = .detection false true ∧
    resolve .none = .predictions := by decide

/-- a Tasks member and its name select the same operator -/
theorem resolve_task_eq_name (s : String) (t : Task) (h : fromString s = some t) :
    resolve (.name s) = resolve (.task t) := by simp [resolve, h]

/-- any other name is rejected -/
theorem resolve_unknown_name (s : String) (h : fromString s = none) : resolve (.name s) = .error := by
  simp [resolve, h]

/-- a custom callable is used as is iff it takes at least the three arguments (f, x, y) -/
theorem resolve_custom (id n : Nat) : resolve (.custom id n) = (if 3 ≤ n then .custom id else .error) := by
  by_cases h : n < 3
  · have h' : ¬ 3 ≤ n := by omega
    simp [resolve, h, h']
  · have h' : 3 ≤ n := by omega
    simp [resolve, h, h']

/-- **black-box methods and metrics**: as soon as an operator is given it is the one scored,
    whatever the kind of model object -/
theorem dispatch_operator_given (k : ModelKind) (a : OpArg) (h : a ≠ .none) :
    inferenceOf k a = .op (resolve a) := by
  cases a <;> first | exact absurd rfl h | rfl

/-- default: TF-callable models are scored with `Σ model(x)·targets`, anything else through the
    NumPy one-hot path (same formula on `predict_proba` / `__call__` outputs, see C11) -/
theorem dispatch_default (k : ModelKind) :
    inferenceOf k .none = (match k with
      | .keras | .tfModule | .layer | .torchWrapper => .op .predictions
      | _ => .oneHotCallable) := by cases k <;> rfl

/-- **white-box methods**: the differentiated function is the resolved operator; without an
    operator gradients exist for Keras models (and the torch wrapper) only -/
theorem gradient_operator_given (k : ModelKind) (a : OpArg) (h : a ≠ .none) :
    gradientOf k a = some (resolve a) := by
  cases a <;> first | exact absurd rfl h | rfl

/-! ### output_layer -/

theorem findLayer_nonneg (names : List String) (i : Nat) (h : i < names.length) :
    findLayer names (.byIndex i) = some i := by
  simp [findLayer, h]

/-- Python negative indexing: `-k` is the k-th layer from the end -/
theorem findLayer_neg (names : List String) (k : Nat) (h1 : 1 ≤ k) (h2 : k ≤ names.length) :
    findLayer names (.byIndex (-(k : Int))) = some (names.length - k) := by
  unfold findLayer
  have h3 : ¬ (0 ≤ -(k : Int) ∧ -(k : Int) < (names.length : Int)) := by omega
  have h4 : -(names.length : Int) ≤ -(k : Int) ∧ -(k : Int) < 0 := by omega
  simp only [h3, h4, if_false, if_true, and_self]
  congr 1; omega

theorem findLayer_name (names : List String) (s : String) (i : Nat)
    (h : findLayer names (.byName s) = some i) : names[i]? = some s := by
  simp only [findLayer] at h
  have := List.findIdx?_eq_some_iff_getElem.mp h
  obtain ⟨hi, hp, _⟩ := this
  simp at hp
  simp [List.getElem?_eq_getElem hi, hp]

private theorem foldl_take_succ {α : Type} (layers : List (α → α)) (l : Nat) (x : α) (f : α → α)
    (h : layers[l]? = some f) : forward (layers.take (l + 1)) x = f (forward (layers.take l) x) := by
  unfold forward
  rw [List.take_add_one, h]; simp [List.foldl_append]

/-- **output_layer (repaired constructor)** — a white-box explainer built with `output_layer = L`
    explains exactly the model truncated at layer `L` (given by name, index or negative index):
    its output is the activation of layer `L`, layers after `L` play no role. -/
theorem whitebox_truncates {α : Type} (names : List String) (layers : List (α → α)) (r : LayerRef)
    (l : Nat) (h : findLayer names r = some l) :
    explainedLayers names layers (some r) = some (layers.take (l + 1)) := by
  simp [explainedLayers, h]

theorem whitebox_truncated_forward {α : Type} (layers : List (α → α)) (l : Nat) (f : α → α) (x : α)
    (h : layers[l]? = some f) : forward (layers.take (l + 1)) x = f (forward (layers.take l) x) :=
  foldl_take_succ layers l x f h

/-- without `output_layer` the full model is explained -/
theorem whitebox_default {α : Type} (names : List String) (layers : List (α → α)) :
    explainedLayers names layers none = some layers := rfl

/-- **witness**: the constructor before the fix explained the FULL model although a layer was
    requested: layers `[(+1), (*2)]`, `output_layer = 0`, input `1` gave `4` where the truncated
    model gives `2`. -/
theorem Witness.output_layer_ignored :
    ((explainedLayersOld ["a", "b"] [(· + 1), (· * 2)] (some (.byIndex 0))).map (forward · (1 : Nat))) = some 4 ∧
    ((explainedLayers ["a", "b"] [(· + 1), (· * 2)] (some (.byIndex 0))).map (forward · (1 : Nat))) = some 2 := by
  decide

/-- what the old constructor did satisfy: correct when no layer is requested -/
theorem whitebox_old_partial {α : Type} (names : List String) (layers : List (α → α)) :
    explainedLayersOld names layers none = explainedLayers names layers none := rfl

/-! ### semantic segmentation: mean prediction over the target zone -/

/-- sum of the predictions over the cells where the target is 1 -/
def zoneSum : List Rat → List Rat → Rat
  | p :: ps, t :: ts => (if t = 1 then p else 0) + zoneSum ps ts
  | _, _ => 0

private theorem dot_zone (pred t : List Rat) (ht : ∀ v ∈ t, v = 0 ∨ v = 1) : dot pred t = zoneSum pred t := by
  unfold dot
  induction pred generalizing t with
  | nil => simp [zoneSum]
  | cons p ps ih =>
    cases t with
    | nil => simp [zoneSum]
    | cons v vs =>
      simp only [List.zipWith_cons_cons, sumQ_cons, zoneSum]
      rw [ih vs (fun w hw => ht w (List.mem_cons_of_mem _ hw))]
      rcases ht v List.mem_cons_self with h | h <;> subst h <;> simp

/-- **semantic segmentation** — for a 0/1 target mask the score is the mean prediction over the
    target zone (the zone must be non-empty, else the implementation divides 0 by 0) -/
theorem seg_is_zone_mean (pred t : List Rat) (ht : ∀ v ∈ t, v = 0 ∨ v = 1) (hne : countNonzero t ≠ 0) :
    segScore pred t = some (zoneSum pred t / (countNonzero t : Rat)) := by
  unfold segScore; rw [if_neg hne, dot_zone pred t ht]

theorem seg_empty_zone (pred t : List Rat) (h : countNonzero t = 0) : segScore pred t = none := by
  unfold segScore; rw [if_pos h]

/-! ### IoU -/

theorem inter_nonneg (a b : Box) : 0 ≤ inter a b := by
  unfold inter; rw [ratMax_eq, ratMax_eq]
  exact mul_nonneg (le_max_right _ _) (le_max_right _ _)

theorem inter_comm (a b : Box) : inter a b = inter b a := by
  unfold inter; simp only [ratMax_eq, ratMin_eq, min_comm, max_comm]

private theorem seg_le (a1 a2 b1 b2 : Rat) (ha : a1 ≤ a2) :
    max (min a2 b2 - max a1 b1) 0 ≤ a2 - a1 := by
  apply max_le
  · have := min_le_left a2 b2; have := le_max_left a1 b1; linarith
  · linarith

private theorem seg_nonneg (a1 a2 b1 b2 : Rat) : 0 ≤ max (min a2 b2 - max a1 b1) 0 := le_max_right _ _

theorem inter_le_area_left (a b : Box) (ha : a.wf) : inter a b ≤ a.area := by
  unfold inter Box.area; rw [ratMax_eq, ratMax_eq, ratMin_eq, ratMin_eq, ratMax_eq, ratMax_eq]
  exact mul_le_mul (seg_le _ _ _ _ ha.1) (seg_le _ _ _ _ ha.2) (seg_nonneg _ _ _ _) (by linarith [ha.1])

theorem inter_le_area_right (a b : Box) (hb : b.wf) : inter a b ≤ b.area := by
  rw [inter_comm]; exact inter_le_area_left b a hb

/-- **IoU bounds** — for well-formed boxes the score lies in `[0, 1)` -/
theorem iou_bounds (ε : Rat) (hε : 0 < ε) (a b : Box) (ha : a.wf) (hb : b.wf) :
    0 ≤ boxIoU ε a b ∧ boxIoU ε a b < 1 := by
  unfold boxIoU
  have h0 := inter_nonneg a b
  have h1 := inter_le_area_left a b ha
  have h2 := inter_le_area_right a b hb
  have hden : 0 < a.area + b.area - inter a b + ε := by linarith
  constructor
  · exact div_nonneg h0 (le_of_lt hden)
  · rw [div_lt_one hden]; linarith

theorem iou_symm (ε : Rat) (a b : Box) : boxIoU ε a b = boxIoU ε b a := by
  unfold boxIoU; rw [inter_comm a b]; ring_nf

/-- boxes separated along x do not overlap: IoU = 0 -/
theorem iou_disjoint (ε : Rat) (a b : Box) (h : a.x2 ≤ b.x1) : boxIoU ε a b = 0 := by
  unfold boxIoU inter
  have : ratMax (ratMin a.x2 b.x2 - ratMax a.x1 b.x1) 0 = 0 := by
    rw [ratMax_eq, ratMin_eq, ratMax_eq]
    apply max_eq_right
    have := min_le_left a.x2 b.x2; have := le_max_right a.x1 b.x1; linarith
  rw [this]; simp

theorem iou_self (ε : Rat) (a : Box) (ha : a.wf) : boxIoU ε a a = a.area / (a.area + ε) := by
  have : inter a a = a.area := by
    unfold inter Box.area
    simp only [ratMax_eq, ratMin_eq, min_self, max_self]
    rw [max_eq_left (by linarith [ha.1]), max_eq_left (by linarith [ha.2])]
  unfold boxIoU; rw [this]; ring_nf

/-! ### D-RISE score and its documented variants -/

/-- dropping the objectness factor = objectness ≡ 1 -/
theorem drise_drop_prob (ε : Rat) (ic : Bool) (r p : Obj) :
    pairScore ε false ic r p = pairScore ε true ic r { p with prob := 1 } := by
  simp [pairScore, classScore]

/-- dropping both factors leaves the IoU alone ("box position" variant) -/
theorem drise_box_position (ε : Rat) (r p : Obj) : pairScore ε false false r p = boxIoU ε r.box p.box := by
  simp [pairScore]

/-- full score: IoU × objectness × class cosine -/
theorem drise_full (ε : Rat) (r p : Obj) :
    pairScore ε true true r p = boxIoU ε r.box p.box * p.prob * (dot r.cls p.cls / (p.nrm * r.nrm + ε)) := by
  simp [pairScore, classScore]

/-- one reference box: the score is the best pair score -/
theorem drise_single_ref (ε : Rat) (ip ic : Bool) (r : Obj) (p : Obj) (ps : List Obj) :
    driseScore ε ip ic [r] (p :: ps) = some (((p :: ps).map (pairScore ε ip ic r)).tail.foldl ratMax (pairScore ε ip ic r p)) := by
  simp [driseScore, maxList, sumQ]

/-- several reference boxes: the mean of their best pair scores -/
theorem drise_mean_of_max (ε : Rat) (ip ic : Bool) (refs preds : List Obj) (hp : preds ≠ []) (hr : refs ≠ []) :
    driseScore ε ip ic refs preds
      = some (sumQ (refs.map fun r => (maxList (preds.map (pairScore ε ip ic r))).getD 0) / (refs.length : Rat)) := by
  simp [driseScore, hp, hr]

/-- no predicted box: score 0 (as the code) -/
theorem drise_no_prediction (ε : Rat) (ip ic : Bool) (refs : List Obj) : driseScore ε ip ic refs [] = some 0 := by
  simp [driseScore]

-- non-vacuity
example : (Box.mk 0 0 2 2).wf ∧ (Box.mk 1 1 3 3).wf := by simp [Box.wf]
example : boxIoU (1/10000) ⟨0, 0, 2, 2⟩ ⟨1, 1, 3, 3⟩ = 1 / (7 + 1/10000) := by decide +kernel
example : segScore [1/2, 1/4, 3/4, 1] [1, 0, 1, 0] = some (5/8) := by decide +kernel
example : findLayer ["in", "logits", "sm"] (.byIndex (-2)) = some 1 := by decide
example : findLayer ["in", "logits", "sm"] (.byName "logits") = some 1 := by decide

end Xp.Op
