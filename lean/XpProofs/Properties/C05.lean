/-
  C05 — perturbation attributions are spatially aligned with what the model uses.

  Deterministic core: index alignment of every stage between "perturbed cell" and "reported cell"
  (nearest-neighbour upsampling, GSA mask layout, Sobol / HSIC post-processing, Lime gather /
  broadcast), exact zeros of Occlusion and of Jansen's estimator on ignored cells, and the
  arg-max-inside-a-rectangle law of Occlusion.  The bilinear / crop-window alignment of RISE is
  `rise_upsample_convex`, `rise_crop_is_window`, `rise_mask_range` in Properties/C09.
  The statistical shell (largest value inside the region for RISE, HSIC, Lime and, after the bicubic
  resize, Sobol) is NOT claimed here; it is evaluated on the implementation by the harness.
-/
import XpModel.Align
import XpModel.Occlusion
import XpProofs.Lemmas.Align
import XpProofs.Properties.C06

namespace Xp.Align

/-! ### nearest-neighbour upsampling -/

/-- **Rows with rows, columns with columns** — pixel `(i, j)` of the `H × W` upsampled mask reads grid
    cell `(nn H gh i, nn W gw j)`: image height is paired with grid rows, width with grid columns. -/
theorem nn_rows_cols (gh gw H W : Nat) (grid : List Rat) (i j : Nat) (hi : i < H) (hj : j < W) :
    (upNN gh gw H W grid).getD (i * W + j) 0 = grid.getD (nn H gh i * gw + nn W gw j) 0 := by
  unfold upNN cellOf
  rw [getD_range_map _ _ _ (rm_lt i j H W hi hj)]
  obtain ⟨h1, h2⟩ := rm_divmod i j W hj
  rw [h1, h2]

/-- the source index is a valid grid index -/
theorem nn_lt (out g i : Nat) (hg : 0 < g) : nn out g i < g := by
  unfold nn; omega

private theorem nn_step (H g i : Nat) (hH : 0 < H) (hgH : g ≤ H) : nn H g (i + 1) ≤ nn H g i + 1 := by
  unfold nn
  have h1 : (2 * (i + 1) + 1) * g ≤ (2 * i + 1) * g + 2 * H := by
    have : (2 * (i + 1) + 1) * g = (2 * i + 1) * g + 2 * g := by ring
    omega
  have h2 : (2 * (i + 1) + 1) * g / (2 * H) ≤ ((2 * i + 1) * g + 2 * H) / (2 * H) := Nat.div_le_div_right h1
  rw [Nat.add_div_right _ (by omega : 0 < 2 * H)] at h2
  omega

/-- **Order preserved, every grid cell visible** — for `g ≤ H` the index map is monotone (no flip) and
    onto `0 .. g-1` (no offset: the first pixel reads cell 0, the last reads cell `g-1`). -/
theorem nn_monotone_surj (H g : Nat) (hg : 0 < g) (hgH : g ≤ H) :
    Monotone (nn H g) ∧ nn H g 0 = 0 ∧ nn H g (H - 1) = g - 1 ∧ ∀ r, r < g → ∃ i, i < H ∧ nn H g i = r := by
  have hH : 0 < H := by omega
  have hmono : Monotone (nn H g) := by
    intro i j hij
    unfold nn
    have : (2 * i + 1) * g / (2 * H) ≤ (2 * j + 1) * g / (2 * H) :=
      Nat.div_le_div_right (Nat.mul_le_mul_right _ (by omega))
    omega
  have h0 : nn H g 0 = 0 := by
    unfold nn
    have : (2 * 0 + 1) * g / (2 * H) = 0 := Nat.div_eq_of_lt (by omega)
    omega
  have hlast : nn H g (H - 1) = g - 1 := by
    unfold nn
    have h1 : (g - 1) * (2 * H) ≤ (2 * (H - 1) + 1) * g := by
      have e1 : 2 * (H - 1) + 1 = 2 * H - 1 := by omega
      rw [e1, Nat.sub_mul, Nat.sub_mul, Nat.one_mul, Nat.one_mul]
      have : g * (2 * H) = 2 * H * g := Nat.mul_comm _ _
      omega
    have h2 : g - 1 ≤ (2 * (H - 1) + 1) * g / (2 * H) := (Nat.le_div_iff_mul_le (by omega)).mpr h1
    omega
  refine ⟨hmono, h0, hlast, ?_⟩
  intro r hr
  obtain ⟨i, hi, e⟩ := nat_ivt (nn H g) (fun i => nn_step H g i hH hgH) (H - 1) r (by omega) (by omega)
  exact ⟨i, by omega, e⟩

/-- the perturbed value of flat position `k` depends on the design row only through the grid cell of
    its pixel (all three perturbation functions are pointwise) -/
theorem gsa_pixel_reads_cell (pf : Pert) (g H W chan : Nat) (x x0 row : List Rat) (k : Nat)
    (hk : k < x.length) (hp : k / chan < H * W) :
    (perturb pf g H W chan x x0 row).getD k 0
      = pf.apply (x.getD k 0) (x0.getD k 0) (row.getD (cellOf g g H W (k / chan)) 0) := by
  unfold perturb upNN
  rw [getD_range_map _ _ _ hk, getD_range_map _ _ _ hp]

/-! ### Sobol / HSIC layouts -/

/-- **Sobol** — column `r·g + c` of the design IS mask cell `(r, c)` (the reshape keeps the flat order)
    and `post_process` reports index `r·g + c` at grid cell `(r, c)`: no transposition. -/
theorem sobol_cell_alignment (g : Nat) (stis : List Rat) (a r c : Nat) (hr : r < g) (hc : c < g) :
    maskIdx g a r c = designIdx g a (r * g + c) ∧
    (sobolPost g stis).getD (r * g + c) 0 = stis.getD (r * g + c) 0 := by
  constructor
  · unfold maskIdx designIdx; ring
  · unfold sobolPost
    rw [getD_range_map _ _ _ (rm_lt r c g g hr hc)]

/-- **HSIC dimension of a cell** — after the all-axes transpose and the reshape `(g², 1, n, 1)`, the
    `n` samples of dimension `c·g + r` are the values of mask cell `(r, c)` (column-major order). -/
theorem hsic_dim_of_cell (n g : Nat) (masks : List Rat) (a r c : Nat) (ha : a < n) (hr : r < g) (hc : c < g) :
    (hsicX1 n g masks).getD (hsicDim g r c * n + a) 0 = masks.getD (maskIdx g a r c) 0 := by
  unfold hsicX1 hsicDim
  have hlt : c * g + r < g * g := rm_lt c r g g hc hr
  rw [getD_range_map _ _ _ (rm_lt (c * g + r) a (g * g) n hlt ha)]
  obtain ⟨h1, h2⟩ := rm_divmod (c * g + r) a n ha
  obtain ⟨h3, h4⟩ := rm_divmod c r g hr
  simp only [h1, h2, h3, h4]

/-- **HSIC post-processing undoes it** — the reported grid cell `(r, c)` holds the score of dimension
    `hsicDim g r c`, i.e. of the dimension whose samples are mask cell `(r, c)`. -/
theorem hsic_cell_alignment (g : Nat) (score : List Rat) (r c : Nat) (hr : r < g) (hc : c < g) :
    (hsicPost g score).getD (r * g + c) 0 = score.getD (hsicDim g r c) 0 := by
  unfold hsicPost hsicDim
  rw [getD_range_map _ _ _ (rm_lt r c g g hr hc)]
  obtain ⟨h1, h2⟩ := rm_divmod r c g hc
  rw [h1, h2]

/-- Sobol's reshape applied to HSIC's scores would report the transposed cell: the explicit
    transpose in `HsicEstimator.post_process` is necessary (and a transpose in Sobol's would be wrong) -/
theorem hsic_needs_transpose (g : Nat) (score : List Rat) (r c : Nat) (hr : r < g) (hc : c < g) :
    (sobolPost g score).getD (r * g + c) 0 = score.getD (hsicDim g c r) 0 := by
  unfold sobolPost hsicDim
  rw [getD_range_map _ _ _ (rm_lt r c g g hr hc)]

/-! ### Lime / KernelShap -/

/-- **Same mapping both ways** — pixel `p` is perturbed according to the sample bit of its own segment
    `mapping p`, and receives the coefficient of that same segment. -/
theorem lime_mask_broadcast (sample coef : List Rat) (mapping : List Nat) (p : Nat) (hp : p < mapping.length) :
    (limeMask sample mapping).getD p 0 = sample.getD (mapping[p]) 0 ∧
    (limeBroadcast coef mapping).getD p 0 = coef.getD (mapping[p]) 0 := by
  unfold limeMask limeBroadcast
  simp [List.getD_eq_getElem?_getD, hp]

/-- **The numbering of the segments is immaterial** — renumber the segments by any map `π` (column-major, reversed, shuffled
    ids ...) and permute the interpretable sample / the coefficient vector accordingly: every pixel is perturbed and reported
    exactly as before.  In particular the ids need not follow the raster scan. -/
theorem lime_renumbering (π : Nat → Nat) (sample sample' coef coef' : List Rat) (mapping : List Nat)
    (hs : ∀ f ∈ mapping, sample'.getD (π f) 0 = sample.getD f 0)
    (hc : ∀ f ∈ mapping, coef'.getD (π f) 0 = coef.getD f 0) :
    limeMask sample' (mapping.map π) = limeMask sample mapping ∧
    limeBroadcast coef' (mapping.map π) = limeBroadcast coef mapping := by
  unfold limeMask limeBroadcast
  rw [List.map_map, List.map_map]
  exact ⟨List.map_congr_left fun f hf => by simpa using hs f hf, List.map_congr_left fun f hf => by simpa using hc f hf⟩

/-- a pixel whose segment is kept (`sample = 1`) is untouched, one whose segment is dropped gets `ref` -/
theorem lime_apply_cell (chan : Nat) (x ref sample : List Rat) (mapping : List Nat) (k : Nat)
    (hk : k < x.length) (hp : k / chan < mapping.length) :
    (sample.getD (mapping[k / chan]) 0 = 1 →
        (limeApply chan x (limeMask sample mapping) ref).getD k 0 = x.getD k 0) ∧
    (sample.getD (mapping[k / chan]) 0 = 0 →
        (limeApply chan x (limeMask sample mapping) ref).getD k 0 = ref.getD (k % chan) 0) := by
  unfold limeApply
  rw [getD_range_map _ _ _ hk, (lime_mask_broadcast sample [] mapping _ hp).1]
  constructor <;> intro h <;> rw [h] <;> ring

/-! ### Occlusion: exact zeros and arg-max inside a rectangle -/

open Occl in
private theorem occlude_getD_uncovered (g : Geom) (x : List Rat) (m : List Bool) (v : Rat) (j : Nat)
    (h : m.getD (j / g.chan) false = false) : (occlude g x m v).getD j 0 = x.getD j 0 := by
  unfold occlude
  by_cases hj : j < x.length
  · rw [getD_range_map _ _ _ hj, h]; simp
  · rw [getD_range_map_ge _ _ _ (by omega), getD_ge x j (by omega)]

open Occl in
private theorem occlude_length (g : Geom) (x : List Rat) (m : List Bool) (v : Rat) :
    (occlude g x m v).length = x.length := by simp [occlude]

open Occl in
/-- **Exact zero (general)** — if the score reads only the positions `R` and every patch covering
    feature cell `k` misses `R`, the Occlusion attribution of `k` is exactly `0`
    (every geometry, every batch size). -/
theorem occl_zero_outside (g : Geom) (hs : g.StridePos) (f : List Rat → Rat) (v : Rat) (b : Nat) (hb : 0 < b)
    (x : List Rat) (R : Nat → Prop) (hdep : DependsOnlyOn f R) (k : Nat) (hk : k < g.nfeat)
    (hmiss : ∀ m ∈ specMasks g, m.getD k false = true → ∀ j, R j → m.getD (j / g.chan) false = false) :
    (explainOne g f v b x).getD k 0 = 0 := by
  rw [occl_one_eq_spec g hs f v b hb x]
  unfold specOne
  rw [getD_range_map _ _ _ hk]
  apply sumQ_map_eq_zero
  intro m hm
  obtain ⟨hm1, hm2⟩ := List.mem_filter.mp hm
  have : f x = f (occlude g x m v) :=
    hdep x (occlude g x m v) (occlude_length g x m v).symm
      (fun j hj => (occlude_getD_uncovered g x m v j (hmiss m hm1 hm2 j hj)).symm)
  rw [this]; ring

open Occl in
/-- shape of the masks of an image geometry: one axis-aligned patch `[ax, ax+pa) × [ay, ay+pb)` -/
private theorem mask_two_mem (a b c pa pb sa sb : Nat) (m : List Bool)
    (hm : m ∈ specMasks (.two a b c pa pb sa sb)) :
    ∃ ax ay, ∀ cell, m.getD cell false = true ↔
      (cell < a * b ∧ ax ≤ cell / b ∧ cell / b < ax + pa ∧ ay ≤ cell % b ∧ cell % b < ay + pb) := by
  simp only [specMasks, List.mem_flatMap, List.mem_map] at hm
  obtain ⟨ax, _, ay, _, rfl⟩ := hm
  refine ⟨ax, ay, fun cell => ?_⟩
  by_cases hc : cell < a * b
  · simp only [List.getD_eq_getElem?_getD, List.getElem?_map, List.getElem?_range hc, Option.map_some,
      Option.getD_some, Bool.and_eq_true, decide_eq_true_eq]
    constructor
    · rintro ⟨⟨h1, h2⟩, h3, h4⟩; exact ⟨hc, h1, h2, h3, h4⟩
    · rintro ⟨_, h1, h2, h3, h4⟩; exact ⟨⟨h1, h2⟩, h3, h4⟩
  · have : ((List.range (a * b)).map fun k =>
        (decide (ax ≤ k / b) && decide (k / b < ax + pa)) && (decide (ay ≤ k % b) && decide (k % b < ay + pb)))[cell]? = none :=
      List.getElem?_eq_none (by simp; omega)
    simp only [List.getD_eq_getElem?_getD, this, Option.getD_none]
    constructor
    · intro h; cases h
    · rintro ⟨h, _⟩; exact absurd h hc

open Occl in
/-- **Exact zero outside (images)** — score reading only the rectangle rows `[r0, r1)` × columns
    `[c0, c1)`; a cell `(i, j)` farther than a patch from the rectangle along one axis gets exactly `0`. -/
theorem occl_zero_far (a b c pa pb sa sb : Nat) (hs : 0 < sa ∧ 0 < sb) (f : List Rat → Rat) (v : Rat)
    (bsz : Nat) (hb : 0 < bsz) (x : List Rat) (r0 r1 c0 c1 : Nat)
    (hdep : DependsOnlyOn f (inRect b c r0 r1 c0 c1)) (i j : Nat) (hi : i < a) (hj : j < b)
    (hfar : i + pa ≤ r0 ∨ r1 + pa ≤ i + 1 ∨ j + pb ≤ c0 ∨ c1 + pb ≤ j + 1) :
    (explainOne (.two a b c pa pb sa sb) f v bsz x).getD (i * b + j) 0 = 0 := by
  apply occl_zero_outside (.two a b c pa pb sa sb) hs f v bsz hb x _ hdep (i * b + j) (rm_lt i j a b hi hj)
  intro m hm hcov q hq
  obtain ⟨ax, ay, hchar⟩ := mask_two_mem a b c pa pb sa sb m hm
  obtain ⟨h1, h2⟩ := rm_divmod i j b hj
  have hc := (hchar (i * b + j)).mp hcov
  rw [h1, h2] at hc
  by_contra hne
  have hq2 := (hchar (q / (Geom.two a b c pa pb sa sb).chan)).mp (by simpa using hne)
  simp only [Geom.chan] at hq2
  unfold inRect at hq
  omega

open Occl in
/-- **Arg-max inside the rectangle** — score non-decreasing in (and reading only) the rectangle,
    occlusion value not above the input there: the attribution of ANY cell `(i, j)` is at most that
    of its nearest cell inside the rectangle, so the largest attribution is attained inside it. -/
theorem occl_max_in_rect (a b c pa pb sa sb : Nat) (hs : 0 < sa ∧ 0 < sb) (f : List Rat → Rat) (v : Rat)
    (bsz : Nat) (hb : 0 < bsz) (x : List Rat) (r0 r1 c0 c1 : Nat)
    (hr : r0 < r1) (hc : c0 < c1) (hra : r1 ≤ a) (hcb : c1 ≤ b)
    (hmono : MonoOn f (inRect b c r0 r1 c0 c1) x.length)
    (hv : ∀ q, inRect b c r0 r1 c0 c1 q → v ≤ x.getD q 0)
    (i j : Nat) (hi : i < a) (hj : j < b) :
    (explainOne (.two a b c pa pb sa sb) f v bsz x).getD (i * b + j) 0
      ≤ (explainOne (.two a b c pa pb sa sb) f v bsz x).getD
          (clampN i r0 (r1 - 1) * b + clampN j c0 (c1 - 1)) 0 := by
  have hi' : clampN i r0 (r1 - 1) < a := by unfold clampN; omega
  have hj' : clampN j c0 (c1 - 1) < b := by unfold clampN; omega
  rw [occl_one_eq_spec (.two a b c pa pb sa sb) hs f v bsz hb x]
  unfold specOne
  simp only [Geom.nfeat]
  rw [getD_range_map _ _ _ (rm_lt i j a b hi hj), getD_range_map _ _ _ (rm_lt _ _ a b hi' hj')]
  -- occluding never raises the score
  have hle : ∀ m : List Bool, f (occlude (.two a b c pa pb sa sb) x m v) ≤ f x := by
    intro m
    apply hmono _ _ (occlude_length _ x m v) rfl
    intro q hq
    by_cases hcv : m.getD (q / (Geom.two a b c pa pb sa sb).chan) false = true
    · unfold occlude
      by_cases hql : q < x.length
      · rw [getD_range_map _ _ _ hql, hcv]; simpa using hv q hq
      · rw [getD_range_map_ge _ _ _ (by omega), getD_ge x q (by omega)]
    · rw [occlude_getD_uncovered _ x m v q (by simpa using hcv)]
  apply sumQ_filter_le
  · intro m _; linarith [hle m]
  · intro m hm hcov
    obtain ⟨ax, ay, hchar⟩ := mask_two_mem a b c pa pb sa sb m hm
    obtain ⟨h1, h2⟩ := rm_divmod i j b hj
    obtain ⟨h3, h4⟩ := rm_divmod (clampN i r0 (r1 - 1)) (clampN j c0 (c1 - 1)) b hj'
    have hcv := (hchar (i * b + j)).mp hcov
    rw [h1, h2] at hcv
    by_cases hmeet : ∃ q, inRect b c r0 r1 c0 c1 q ∧ m.getD (q / c) false = true
    · right
      obtain ⟨q, hq, hqm⟩ := hmeet
      have hq2 := (hchar (q / c)).mp hqm
      unfold inRect at hq
      apply (hchar _).mpr
      rw [h3, h4]
      refine ⟨rm_lt _ _ a b hi' hj', ?_, ?_, ?_, ?_⟩ <;> unfold clampN <;> omega
    · left
      have hge : f x ≤ f (occlude (.two a b c pa pb sa sb) x m v) := by
        apply hmono _ _ rfl (occlude_length _ x m v)
        intro q hq
        have : m.getD (q / (Geom.two a b c pa pb sa sb).chan) false = false := by
          by_contra hne
          exact hmeet ⟨q, hq, by simpa [Geom.chan] using hne⟩
        rw [occlude_getD_uncovered _ x m v q this]
      linarith [hle m]

/-! ### Sobol: exact zero of Jansen's index on ignored cells (before upsampling) -/

private theorem jansenNum_self (F : List Rat → Rat) (G : List Rat → List Rat → Rat)
    (hG : ∀ ra rb, G ra rb = F ra) (A B : List (List Rat)) :
    jansenNum (A.map F) (List.zipWith G A B) = 0 := by
  unfold jansenNum
  induction A generalizing B with
  | nil => simp
  | cons ra A ih =>
    cases B with
    | nil => simp
    | cons rb B =>
      simp only [List.map_cons, List.zipWith_cons_cons, sumQ_cons, hG, sub_self, mul_zero, zero_add]
      exact ih B

/-- replacing the value of design column `i` does not change what the score sees when no pixel of
    the relevant positions `R` reads grid cell `i` -/
private theorem perturb_inert (pf : Pert) (g H W chan : Nat) (f : List Rat → Rat) (x x0 : List Rat)
    (R : Nat → Prop) (hdep : DependsOnlyOn f R) (i : Nat)
    (hinert : ∀ k, R k → cellOf g g H W (k / chan) ≠ i) (ra rb : List Rat) :
    f (perturb pf g H W chan x x0 (replaceCol ra rb i)) = f (perturb pf g H W chan x x0 ra) := by
  apply hdep
  · simp [perturb]
  · intro k hk
    unfold perturb upNN replaceCol
    by_cases hkl : k < x.length
    · rw [getD_range_map _ _ _ hkl, getD_range_map _ _ _ hkl]
      by_cases hp : k / chan < H * W
      · rw [getD_range_map _ _ _ hp, getD_range_map _ _ _ hp]
        have hne := hinert k hk
        simp only [List.getD_eq_getElem?_getD]
        rw [List.getElem?_set_ne (fun e => hne e.symm)]
      · rw [getD_range_map_ge _ _ _ (by omega), getD_range_map_ge _ _ _ (by omega)]
    · rw [getD_range_map_ge _ _ _ (by omega), getD_range_map_ge _ _ _ (by omega)]

/-- **Sobol assigns zero to ignored cells before upsampling** — if no position read by the score lies
    in a pixel of grid cell `i`, Jansen's total-order index of dimension `i` is exactly `0` whenever it is
    defined (`none` = zero output variance = NaN in the code); every perturbation function, design,
    grid and image size. -/
theorem sobol_zero_inert (pf : Pert) (g H W chan : Nat) (f : List Rat → Rat) (x x0 : List Rat)
    (A B : List (List Rat)) (i : Nat) (R : Nat → Prop) (hdep : DependsOnlyOn f R)
    (hinert : ∀ k, R k → cellOf g g H W (k / chan) ≠ i) :
    sobolIndex pf g H W chan f x x0 A B i = none ∨ sobolIndex pf g H W chan f x x0 A B i = some 0 := by
  unfold sobolIndex jansen
  rw [jansenNum_self _ _ (perturb_inert pf g H W chan f x x0 R hdep i hinert) A B]
  simp only
  split
  · left; rfl
  · right; simp

/-- **Arg-max cell (partial)** — a grid cell with a non-zero Jansen index contains a pixel position read
    by the score; in particular the arg-max cell of the pre-resize Sobol map meets the region whenever
    the map is not identically zero.  MISSING for the full property clause: the bicubic
    `tf.image.resize` of the grid is not modelled, so nothing is proved about the arg-max PIXEL of the
    returned map (evaluated on the implementation by the harness instead). -/
theorem sobol_argmax_cell_partial (pf : Pert) (g H W chan : Nat) (f : List Rat → Rat) (x x0 : List Rat)
    (A B : List (List Rat)) (i : Nat) (R : Nat → Prop) (hdep : DependsOnlyOn f R) (s : Rat)
    (hs : sobolIndex pf g H W chan f x x0 A B i = some s) (hne : s ≠ 0) :
    ∃ k, R k ∧ cellOf g g H W (k / chan) = i := by
  by_contra hno
  have hinert : ∀ k, R k → cellOf g g H W (k / chan) ≠ i := fun k hk e => hno ⟨k, hk, e⟩
  rcases sobol_zero_inert pf g H W chan f x x0 A B i R hdep hinert with h | h
  · rw [h] at hs; cases hs
  · rw [h] at hs; cases hs; exact hne rfl

-- non-vacuity: concrete instances
example : (List.range 10).map (nn 10 3) = [0, 0, 0, 1, 1, 1, 1, 2, 2, 2] := by decide
example : (List.range 6).map (nn 6 3) = [0, 0, 1, 1, 2, 2] := by decide
example : (List.range 6).map (cellOf 2 3 2 3) = [0, 1, 2, 3, 4, 5] := by decide
example : hsicPost 2 [10, 20, 30, 40] = [10, 30, 20, 40] := by decide +kernel
example : hsicX1 2 2 [1, 2, 3, 4, 5, 6, 7, 8] = [1, 5, 3, 7, 2, 6, 4, 8] := by decide +kernel
example : DependsOnlyOn (fun z => z.getD 0 0 + 2 * z.getD 1 0) (fun j => j < 2) := by
  intro z z' _ h; simp only [h 0 (by omega), h 1 (by omega)]
example : MonoOn (fun z => z.getD 0 0 + 2 * z.getD 1 0) (fun j => j < 2) 4 := by
  intro z z' _ _ h; have := h 0 (by omega); have := h 1 (by omega); simp only; linarith
example : inRect 10 3 0 2 7 10 (1 * 30 + 8 * 3 + 2) := by unfold inRect; omega

end Xp.Align
