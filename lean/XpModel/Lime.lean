/-
  Executable model of xplique/attributions/lime.py (Lime.explain, _get_masks, _apply_masks,
  _get_exp_kernel_func, _broadcast_explanation) and xplique/attributions/kernel_shap.py
  (_get_probs_nb_selected_feature, the top-k thresholding of _kernel_shap_pertub_func).

  Parameters of the model (trusted base): the random draws (binary samples / normal values /
  coalition sizes), the score function, `κ = exp(−·)`, the Euclidean norms used by the cosine
  kernel, and the interpretable model's `fit` (sklearn).
-/
import XpModel.Basic
import XpModel.Gen.Arith
namespace Xp.Lime

/-- geometry of one explained input: `c` trailing channels (1 and no channel axis for tabular
    data / time series), per-channel reference value, segment id of every cell (row-major) -/
structure Cfg where
  c : Nat
  ref : List Rat
  mapping : List Nat

/-- `num_features = tf.reduce_max(mapping) + tf.ones(1)` (scalar part from the GENERATED file) -/
def numFeatures (mapping : List Nat) : Nat :=
  (Gen.limeNumFeatures (Int.ofNat (mapping.foldl max 0))).toNat

/-- `_get_masks`: `tf.gather(interpret_samples, mapping, axis=1)` for one sample -/
def getMask (mapping : List Nat) (sample : List Rat) : List Rat :=
  mapping.map fun j => sample.getD j 0

/-- `_apply_masks` for one mask: `x * m + (1 − m) * ref`, the mask repeated over the channel
    axis, `ref` reshaped to `(1,1,1,C)` (images) or `(1, 1…)` (one value) -/
def applyMask (cfg : Cfg) (x m : List Rat) : List Rat :=
  (List.range x.length).map fun i =>
    x.getD i 0 * m.getD (i / cfg.c) 0 + (1 - m.getD (i / cfg.c) 0) * cfg.ref.getD (i % cfg.c) 0

/-- squared Euclidean distance `tf.norm(a − b)**2` (idealised: `sqrt(s)² = s`) -/
def sqDist (a b : List Rat) : Rat := sumQ (List.zipWith (fun u v => (u - v) * (u - v)) a b)

def sqNorm (a : List Rat) : Rat := dot a a

/-- cosine of the angle as keras computes it: `Σ l2_normalize(a)·l2_normalize(b)`; a zero
    vector normalises to the zero vector. `na`, `nb` are the Euclidean norms (parameters). -/
def cosSim (na nb : Rat) (a b : List Rat) : Rat :=
  if na = 0 ∨ nb = 0 then 0 else dot a b / (na * nb)

/-- DOCUMENTED cosine distance `1 − cos` (the source writes `1.0 + cosine_similarity(..)` where
    keras' `cosine_similarity` is the loss `−cos`) -/
def cosDist (na nb : Rat) (a b : List Rat) : Rat := 1 - cosSim na nb a b

/-- the formula of the tree before fix 6d841e5: `1.0 − cosine_similarity(..)` = `1 + cos` -/
def cosDistOld (na nb : Rat) (a b : List Rat) : Rat := 1 + cosSim na nb a b

/-- `exp(−1.0 * D² / width²)` with `κ t = exp(−t)` a parameter -/
def weightOf (κ : Rat → Rat) (width : Rat) (d2 : Rat) : Rat := κ (d2 / (width * width))

/-- the similarity kernel applied to one chunk: a per-row computation (`axis=1`) -/
def expKernel (κ : Rat → Rat) (width : Rat) (d2 : List Rat → List Rat → Rat)
    (x : List Rat) (pert : List (List Rat)) : List Rat :=
  pert.map fun z => weightOf κ width (d2 x z)

/-- body of the `for int_samples in Dataset(interpret_samples).batch(batch_size)` loop:
    (perturbed samples handed to the model, their scores, their similarities) -/
def evalChunk (cfg : Cfg) (score : List (List Rat) → List Rat)
    (kern : List Rat → List (List Rat) → List Rat) (x : List Rat) (chunk : List (List Rat)) :
    List (List Rat) × List Rat × List Rat :=
  let masks := chunk.map (getMask cfg.mapping)
  let pert := masks.map (applyMask cfg x)
  (pert, score pert, kern x pert)

/-- what `explain` hands to `interpretable_model.fit`, plus the batches sent to the model -/
structure FitArgs where
  design : List (List Rat)
  targets : List Rat
  weights : List Rat
  queries : List (List (List Rat))

/-- the chunk loop followed by the two `tf.concat`s; `b` is `batch_size or nb_samples` -/
def fitData (cfg : Cfg) (score : List (List Rat) → List Rat)
    (kern : List Rat → List (List Rat) → List Rat) (b : Nat) (x : List Rat)
    (samples : List (List Rat)) : FitArgs :=
  let per := (batches b samples).map (evalChunk cfg score kern x)
  { design := samples
    targets := (per.map fun r => r.2.1).flatten
    weights := (per.map fun r => r.2.2).flatten
    queries := per.map fun r => r.1 }

/-- `_broadcast_explanation`: `tf.gather(coef_, mapping)` -/
def broadcast (mapping : List Nat) (coef : List Rat) : List Rat := mapping.map fun j => coef.getD j 0

/-- explanation of ONE input: fit on the data above, broadcast `coef_` to the cells.
    `fit design targets weights` is the interpretable model (parameter). -/
def explainOne (cfg : Cfg) (score : List (List Rat) → List Rat)
    (kern : List Rat → List (List Rat) → List Rat)
    (fit : List (List Rat) → List Rat → List Rat → List Rat)
    (bs : Option Nat) (nb : Nat) (x : List Rat) (samples : List (List Rat)) : List Rat :=
  let d := fitData cfg score kern (effBatch bs nb) x samples
  broadcast cfg.mapping (fit d.design d.targets d.weights)

/-! ### Spec: the property's reference definition, per drawn sample, no chunking -/

/-- the input masked according to a binary sample: cells of an active segment keep their value,
    the others take the reference value of their channel -/
def maskedSpec (cfg : Cfg) (x s : List Rat) : List Rat :=
  (List.range x.length).map fun i =>
    if s.getD (cfg.mapping.getD (i / cfg.c) 0) 0 = 1 then x.getD i 0 else cfg.ref.getD (i % cfg.c) 0

/-- the (sample, target, weight) triples the surrogate must be fitted on -/
def specTriples (cfg : Cfg) (f : List Rat → Rat) (κ : Rat → Rat) (width : Rat)
    (d2 : List Rat → List Rat → Rat) (x : List Rat) (samples : List (List Rat)) :
    List (List Rat × Rat × Rat) :=
  samples.map fun s =>
    let z := maskedSpec cfg x s
    (s, f z, weightOf κ width (d2 x z))

def Binary (s : List Rat) : Prop := ∀ v ∈ s, v = 0 ∨ v = 1

/-- closed form of the property for additive scores `f z = Σ_i wt_i z_i + const`: the Shapley
    value of segment `j` is `Σ_{cells i of segment j} wt_i (x_i − ref_i)` -/
def shapleySeg (cfg : Cfg) (wt x : List Rat) (F : Nat) : List Rat :=
  (List.range F).map fun j =>
    sumQ ((List.range x.length).map fun i =>
      if cfg.mapping.getD (i / cfg.c) 0 = j then wt.getD i 0 * (x.getD i 0 - cfg.ref.getD (i % cfg.c) 0)
      else 0)

/-! ### KernelShap -/

/-- `_get_probs_nb_selected_feature`: `[0] ++ [(F−1)/(k(F−k)) for k in 1..F−1]`, numerator and
    denominator from the GENERATED file -/
def kshapProbs (F : Nat) : List Rat :=
  0 :: ((List.range (F - 1)).map fun i =>
    ((Gen.kshapProbNum (Int.ofNat F) : Int) : Rat) /
      ((Gen.kshapProbDen (Int.ofNat (i + 1)) (Int.ofNat F) : Int) : Rat))

/-- reference: P(k) ∝ (F−1)/(k(F−k)) for 1 ≤ k ≤ F−1, 0 for k = 0 -/
def probSpec (F k : Nat) : Rat :=
  if k = 0 then 0 else ((F : Rat) - 1) / ((k : Rat) * ((F : Rat) - (k : Rat)))

/-- `tf.argsort(vals, direction='DESCENDING')`: indices sorted by decreasing value -/
def argsortDesc (vals : List Rat) : List Nat :=
  (List.range vals.length).mergeSort fun i j => decide (vals.getD j 0 ≤ vals.getD i 0)

/-- the top-k thresholding of `_kernel_shap_pertub_func` for one row: `k` is the drawn index,
    `threshold_idx = idx_sorted[k]`, `threshold = vals[threshold_idx]`, `sample = vals > threshold` -/
def kshapSample (vals : List Rat) (k : Nat) : List Rat :=
  let thrIdx := (argsortDesc vals).getD k 0
  let thr := vals.getD thrIdx 0
  vals.map fun v => if thr < v then 1 else 0

def countOnes (s : List Rat) : Nat := (s.filter fun v => v = 1).length

end Xp.Lime
