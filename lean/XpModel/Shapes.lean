/-
  Shape calculus of the 16 attribution methods' `explain` (following the code: expand_dims,
  channel reduce, zeros(...), broadcasting `+`, stack, resize) and the container handling of
  xplique/commons/data_conversion.py (tensor_sanitize).
-/
import XpModel.Basic
namespace Xp.Shp

inductive Kind where
  | tab (w : Nat)
  | ts (t w : Nat)
  | img (h w c : Nat)

/-- shape of a batch of `n` samples -/
def Kind.input (n : Nat) : Kind → List Nat
  | .tab w => [n, w]
  | .ts t w => [n, t, w]
  | .img h w c => [n, h, w, c]

/-- the documented explanation shape -/
def documented (n : Nat) : Kind → List Nat
  | .tab w => [n, w]
  | .ts t w => [n, t, w]
  | .img h w _ => [n, h, w, 1]

inductive Method where
  | saliency | gradientInput | integratedGradients | smoothGrad | squareGrad | varGrad
  | deconvNet | guidedBackprop | gradCAM | gradCAMPP
  | occlusion | rise | lime | kernelShap | sobol | hsic
  deriving DecidableEq, Repr

def Method.gradientBased : Method → Bool
  | .saliency | .gradientInput | .integratedGradients | .smoothGrad | .squareGrad | .varGrad
  | .deconvNet | .guidedBackprop => true
  | _ => false

/-- data kinds a method accepts -/
def supported : Method → Kind → Bool
  | .gradCAM, .img _ _ _ => true
  | .gradCAMPP, .img _ _ _ => true
  | .gradCAM, _ => false
  | .gradCAMPP, _ => false
  | .sobol, .img _ _ _ => true
  | .hsic, .img _ _ _ => true
  | .sobol, _ => false
  | .hsic, _ => false
  | _, _ => true

/-- NumPy / TensorFlow broadcasting of two shapes (`none` = incompatible) -/
def bcastRev : List Nat → List Nat → Option (List Nat)
  | [], ys => some ys
  | xs, [] => some xs
  | x :: xs, y :: ys =>
    match bcastRev xs ys with
    | none => none
    | some r => if x = y then some (x :: r) else if x = 1 then some (y :: r)
                else if y = 1 then some (x :: r) else none

def bcast (a b : List Nat) : Option (List Nat) := (bcastRev a.reverse b.reverse).map List.reverse

/-- `_harmonize_channel_dimension` (reducer given or `None`) applied to an explanation shape -/
def harmonize (reducer : Bool) (inputRank : Nat) (e : List Nat) : List Nat :=
  let e := if e.length = 3 ∧ inputRank = 4 then e ++ [1] else e
  if e.length = 4 ∧ e.getLast? ≠ some 1 ∧ reducer then e.dropLast ++ [1] else e

/-- shape returned by `explain` for `n` inputs of kind `k`; `reducer = false` models `reducer=None` -/
def explainShape (m : Method) (reducer : Bool) (n : Nat) (k : Kind) : Option (List Nat) :=
  let inp := k.input n
  match m with
  | .saliency | .gradientInput | .integratedGradients | .smoothGrad | .squareGrad | .varGrad
  | .deconvNet | .guidedBackprop =>
      -- gradients have the input's shape; (IG / statistics reduce over their extra axis first)
      some (harmonize reducer inp.length inp)
  | .gradCAM | .gradCAMPP =>
      match k with
      | .img h w _ => some [n, h, w, 1]        -- cams (n,h',w') → expand_dims(-1) → resize to (h,w)
      | _ => none
  | .occlusion =>
      match k with
      | .tab w => some [n, w]                   -- masks.shape[1:] = (w)
      | .ts t w => some [n, t, w]
      | .img h w _ =>                           -- maps (n,h,w); rank 3 and input rank 4 → expand
          some ([n, h, w] ++ [1])
  | .rise =>
      -- zeros((*x.shape[:-1], 1)) + reduce_sum(pred * masks, 0)   then [newaxis] and concat
      let single := inp.drop 1
      let acc := single.dropLast ++ [1]
      let masks := match k with
        | .tab w => [w]
        | .ts t w => [t, w]
        | .img h w _ => [h, w, 1]
      (bcast acc masks).map fun s => n :: s
  | .lime | .kernelShap =>
      -- gather(coef_, mapping): the mapping has the spatial shape; stack; expand for images
      match k with
      | .tab w => some [n, w]
      | .ts t w => some [n, t, w]
      | .img h w _ => some ([n, h, w] ++ [1])
  | .sobol | .hsic =>
      match k with
      | .img h w _ => some [n, h, w, 1]        -- estimator map (g,g,1) → resize (h,w) → [newaxis]
      | _ => none

/-! ### containers (tensor_sanitize) -/

inductive Container where
  | array                                 -- np.ndarray / tf.Tensor of any real dtype
  | dataset (batch : Option Nat) (wrapped : Bool)
      -- tf.data dataset of (input, target) pairs; `batch = some b` when `.batch(b)` was applied;
      -- `wrapped` when a further transformation (prefetch / map …) hides the `_batch_size` attribute

/-- the list of samples `tensor_sanitize` hands to the explainer, as lists of sample ids:
    each element of the result is one "row" of the tensor built by `tf.cast(list, float32)` -/
def sanitize (samples : List Nat) : Container → List (List Nat)
  | .array => samples.map fun s => [s]
  | .dataset none _ => samples.map fun s => [s]
  | .dataset (some b) false => (batches b samples).flatten.map fun s => [s]   -- unbatch()
  | .dataset (some b) true => batches b samples                               -- NOT un-batched

end Xp.Shp
