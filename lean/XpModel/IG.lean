/-
  Executable model of xplique/attributions/integrated_gradients.py
  (IntegratedGradients.explain, _get_baseline, _get_interpolated_points, _average_gradients)
  and of `repeat_labels` (xplique/commons/tf_operations.py).
  The number of inputs per batch comes from the GENERATED file Gen/Arith.lean.

  Parameter of the model (not modelled): the gradient operator `op` (TensorFlow autodiff).
  `tf.linspace(0, 1, steps)` is modelled by what it denotes, `alpha j = j / (steps - 1)`.
-/
import XpModel.Basic
import XpModel.Reducer
import XpModel.Gen.Arith
namespace Xp.IG

/-- `tf.linspace(0.0, 1.0, steps)[j]` -/
def alpha (steps j : Nat) : Rat := (j : Rat) / ((steps : Rat) - 1)

/-- `baseline + alpha * (x - baseline)` with the constant baseline `ones(shape) * b` -/
def interp (steps : Nat) (b : Rat) (x : Vec) (j : Nat) : Vec :=
  x.map fun xi => b + alpha steps j * (xi - b)

/-- `_get_interpolated_points` for a batch: `(n_b, steps, …)` reshaped to `(n_b*steps, …)`,
    i.e. the whole path of the first input, then the path of the second, … -/
def pathPoints (steps : Nat) (b : Rat) (xb : List Vec) : List Vec :=
  xb.flatMap fun x => (List.range steps).map (interp steps b x)

/-- `_average_gradients` for one input: `mean_j (g_j + g_{j+1}) * 0.5` over the `steps-1`
    consecutive pairs (`gradients[:, :-1] + gradients[:, 1:]`), coordinate by coordinate -/
def trapzVec (D : Nat) (gs : List Vec) : Vec :=
  let pairs := gs.dropLast.zip gs.tail
  (List.range D).map fun d =>
    sumQ (pairs.map fun ab => ab.1.getD d 0 + ab.2.getD d 0) / (pairs.length : Rat) * (1 / 2)

/-- one input batch of `IntegratedGradients.explain` -/
def batchRun (op : GradOp) (steps : Nat) (b : Rat) (bsz : Nat) (batch : List (Vec × Vec)) : List Vec :=
  let pts := pathPoints steps b (batch.map (·.1))
  let reps := repeatEach steps (batch.map (·.2))                 -- repeat_labels(y_batch, steps)
  let grads := batched op (some bsz) (pts.zip reps)               -- batch_gradient(…, batch_size)
  let groups := regroup steps grads                               -- reshape (-1, steps, …)
  List.zipWith (fun xy gs => vmul (xy.1.map (· - b)) (trapzVec xy.1.length gs)) batch groups

/-- `self.batch_size or len(inputs)` -/
def effBs (bs : Option Nat) (n : Nat) : Int :=
  match bs with
  | some b => (b : Int)
  | none => Gen.igDefaultBs (n : Int)

/-- inputs per batch `max(batch_size // steps, 1)` (generated expression) -/
def perBatch (bs : Option Nat) (steps n : Nat) : Nat :=
  (Gen.igInputsPerBatch (effBs bs n) (steps : Int)).toNat

/-- `IntegratedGradients.explain` before the channel reducer; `none` when `steps < 2`
    (the mean over zero trapezoids is NaN) -/
def igImpl (op : GradOp) (steps : Nat) (b : Rat) (bs : Option Nat) (xs ys : List Vec) :
    Option (List Vec) :=
  if steps < 2 then none else
    let bsz := (effBs bs xs.length).toNat
    some ((batches (perBatch bs steps xs.length) (xs.zip ys)).flatMap (batchRun op steps b bsz))

/-- number of inputs handed to the successive `_get_interpolated_points` calls -/
def callSizes (bs : Option Nat) (steps n : Nat) : List Nat :=
  (batches (perBatch bs steps n) (List.range n)).map List.length

/-! ### Spec -/

/-- reference definition for one input: `(x − b) ·` trapezoidal average of the gradients at the
    `steps` equally spaced points of the segment from the baseline to `x` -/
def specOne (g : Vec → Vec → Vec) (steps : Nat) (b : Rat) (x y : Vec) : Vec :=
  let G := (List.range steps).map fun j => g (interp steps b x j) y    -- gradients at the path nodes
  (List.range x.length).map fun d =>
    (x.getD d 0 - b) *
      (sumQ ((List.range (steps - 1)).map fun j => (G.getD j []).getD d 0 + (G.getD (j + 1) []).getD d 0)
        / ((steps : Rat) - 1) / 2)

def igSpec (g : Vec → Vec → Vec) (steps : Nat) (b : Rat) (xs ys : List Vec) : List Vec :=
  List.zipWith (specOne g steps b) xs ys

/-- completeness gap of one input for a score `f`: `Σ_d ig_d − (f x − f baseline)` -/
def gap (f : Vec → Rat) (ig x : Vec) (b : Rat) : Rat :=
  sumQ ig - (f x - f (x.map fun _ => b))

/-- leading coefficient of a cubic `φ` from four values (third finite difference / 6) -/
def cubicLead (φ : Rat → Rat) : Rat := (φ 3 - 3 * φ 2 + 3 * φ 1 - φ 0) / 6

end Xp.IG
