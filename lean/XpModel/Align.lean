/-
  Executable model of the spatial data flow of the perturbation explainers (C05):

  * GSA (Sobol / HSIC): `gsa_attribution_method.py` (`masks = sampler(g², n).reshape(-1, g, g, 1)`,
    nearest-neighbour upsampling to `(H, W)`, pointwise perturbation functions of `perturbations.py`),
    `sobol_estimators.py:post_process` (reshape), `hsic_estimators.py:estimator` (all-axes transpose,
    reshape `(g², 1, n, 1)`) and `post_process` (reshape + transpose `(1, 0, 2)`), Jansen's estimator;
  * Lime / KernelShap: `lime.py:_get_masks`, `_apply_masks`, `_broadcast_explanation` (gather by the mapping).

  Tensors are flat row-major lists; every function is an index computation.
-/
import XpModel.Basic
namespace Xp.Align

/-- nearest-neighbour source index of `tf.image.resize(method="nearest")` (half-pixel centres):
    `min(⌊(i + ½)·inn/out⌋, inn − 1)` -/
def nn (out inn i : Nat) : Nat := min (((2 * i + 1) * inn) / (2 * out)) (inn - 1)

/-- grid cell (row-major index in the `gh × gw` grid) read by spatial pixel `p` of an `H × W` image:
    image rows go with grid rows, image columns with grid columns -/
def cellOf (gh gw H W p : Nat) : Nat := nn H gh (p / W) * gw + nn W gw (p % W)

/-- `tf.image.resize(masks, (H, W), "nearest")` of one row-major `gh × gw` grid -/
def upNN (gh gw H W : Nat) (grid : List Rat) : List Rat :=
  (List.range (H * W)).map fun p => grid.getD (cellOf gh gw H W p) 0

/-- the pointwise perturbation functions of perturbations.py -/
inductive Pert where
  | inpainting            -- x·m + (1 − m)·0
  | blurring              -- x·m + (1 − m)·x0,  x0 = cv2.blur(x) (a parameter)
  | amplitude (sigma : Rat)   -- x·(m − ½)·σ

def Pert.apply : Pert → Rat → Rat → Rat → Rat
  | .inpainting, x, _, m => x * m + (1 - m) * 0
  | .blurring, x, x0, m => x * m + (1 - m) * x0
  | .amplitude s, x, _, m => x * (m - 1 / 2) * s

/-- perturbed input for one design row: the row IS the `g × g` mask (reshape keeps the flat order),
    upsampled by nearest neighbour and applied to every channel of the pixel -/
def perturb (pf : Pert) (g H W chan : Nat) (x x0 row : List Rat) : List Rat :=
  let up := upNN g g H W row
  (List.range x.length).map fun k => pf.apply (x.getD k 0) (x0.getD k 0) (up.getD (k / chan) 0)

/-- flat index of `(a, r, c, 0)` in the mask tensor of shape `(n, g, g, 1)` -/
def maskIdx (g a r c : Nat) : Nat := ((a * g + r) * g + c) * 1 + 0

/-- flat index of `(a, d)` in the design matrix of shape `(n, g²)` -/
def designIdx (g a d : Nat) : Nat := a * (g * g) + d

/-- `SobolEstimator.post_process`: `stis.reshape(g, g, 1)` — the flat order is kept -/
def sobolPost (g : Nat) (stis : List Rat) : List Rat := (List.range (g * g)).map fun k => stis.getD k 0

/-- index of the HSIC "dimension" holding the samples of mask cell `(r, c)` -/
def hsicDim (g r c : Nat) : Nat := c * g + r

/-- `tf.reshape(tf.transpose(masks), (g², 1, n, 1))` for masks of shape `(n, g, g, 1)`:
    the transposed tensor has shape `(1, g, g, n)` and entry `(0, c, r, a) = masks (a, r, c, 0)` -/
def hsicX1 (n g : Nat) (masks : List Rat) : List Rat :=
  (List.range (g * g * n)).map fun k =>
    let a := k % n
    let r := (k / n) % g
    let c := (k / n) / g
    masks.getD (maskIdx g a r c) 0

/-- `HsicEstimator.post_process`: `np.transpose(score.reshape(g, g, 1), (1, 0, 2))`:
    result `(r, c) = reshaped (c, r) = score[c·g + r]` -/
def hsicPost (g : Nat) (score : List Rat) : List Rat :=
  (List.range (g * g)).map fun k => score.getD ((k % g) * g + k / g) 0

/-! ### Jansen's total-order estimator (as coded) for the zero-on-inert-cells clause -/

def jansenNum (yA yC : List Rat) : Rat := sumQ (List.zipWith (fun a c => (a - c) * (a - c)) yA yC)

def variance (yA : List Rat) : Rat :=
  sumQ (yA.map fun v => (v - meanQ yA) * (v - meanQ yA)) / ((yA.length : Rat) - 1)

/-- `Σ (A − C_i)² / (2 n var)`; `none` = division by zero (constant `A` outputs) -/
def jansen (yA yC : List Rat) : Option Rat :=
  let d := 2 * (yA.length : Rat) * variance yA
  if d = 0 then none else some (jansenNum yA yC / d)

/-- row `a` of the replicated block `C_i`: row `A_a` with column `i` replaced by `B_a,i` -/
def replaceCol (rowA rowB : List Rat) (i : Nat) : List Rat := rowA.set i (rowB.getD i 0)

/-- Jansen index of dimension `i` for the score `f` of the perturbed inputs -/
def sobolIndex (pf : Pert) (g H W chan : Nat) (f : List Rat → Rat) (x x0 : List Rat)
    (A B : List (List Rat)) (i : Nat) : Option Rat :=
  jansen (A.map fun ra => f (perturb pf g H W chan x x0 ra))
         (List.zipWith (fun ra rb => f (perturb pf g H W chan x x0 (replaceCol ra rb i))) A B)

/-! ### hypotheses on the score used by the alignment theorems -/

/-- the score reads only the flat input positions satisfying `R` -/
def DependsOnlyOn (f : List Rat → Rat) (R : Nat → Prop) : Prop :=
  ∀ z z' : List Rat, z.length = z'.length → (∀ j, R j → z.getD j 0 = z'.getD j 0) → f z = f z'

/-- the score is non-decreasing in the positions satisfying `R` and ignores the others
    (inputs of length `n`) -/
def MonoOn (f : List Rat → Rat) (R : Nat → Prop) (n : Nat) : Prop :=
  ∀ z z' : List Rat, z.length = n → z'.length = n → (∀ j, R j → z.getD j 0 ≤ z'.getD j 0) → f z ≤ f z'

/-- flat position `j` of an `(A, b, c)` image lies in the rectangle rows `[r0, r1)`, columns `[c0, c1)`
    (all channels) -/
def inRect (b c r0 r1 c0 c1 : Nat) (j : Nat) : Prop :=
  r0 ≤ (j / c) / b ∧ (j / c) / b < r1 ∧ c0 ≤ (j / c) % b ∧ (j / c) % b < c1

/-- nearest index of `i` inside `[lo, hi]` -/
def clampN (i lo hi : Nat) : Nat := max lo (min i hi)

/-! ### Lime / KernelShap -/

/-- `tf.gather(interpret_samples, mapping, axis=1)` for one sample -/
def limeMask (sample : List Rat) (mapping : List Nat) : List Rat := mapping.map fun f => sample.getD f 0

/-- `_apply_masks`: `x·m + (1 − m)·ref`, mask repeated over channels, `ref` per channel -/
def limeApply (chan : Nat) (x mask ref : List Rat) : List Rat :=
  (List.range x.length).map fun k =>
    x.getD k 0 * mask.getD (k / chan) 0 + (1 - mask.getD (k / chan) 0) * ref.getD (k % chan) 0

/-- `_broadcast_explanation`: `tf.gather(explanation, mapping, axis=0)` -/
def limeBroadcast (coef : List Rat) (mapping : List Nat) : List Rat := mapping.map fun f => coef.getD f 0

/-- `num_features = max(mapping) + 1` -/
def numFeatures (mapping : List Nat) : Nat := mapping.foldl max 0 + 1

end Xp.Align
