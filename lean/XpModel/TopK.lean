/-
  Executable model of the batched running top-k search of
  xplique/example_based/search_methods/knn.py (KNN.kneighbors, _crossed_distances_fn),
  search_methods/common.py (distances), datasets_operations/harmonize.py (batch size clamp,
  cardinality), datasets_operations/tf_dataset_operations.py (dataset_gather),
  projections/base.py (Projection.project / project_dataset) and
  similar_examples.py / base_example_method.py (explain = project, search, gather).

  The scalar index arithmetic (`min(batch_size, N)`, `ceil(N / batch_size)`,
  `idx[...,0] * batch_size + idx[...,1]`) comes from the GENERATED file Gen/Arith.lean.
-/
import XpModel.Basic
import XpModel.Gen.Arith
namespace Xp.TopK

/-- a distance value; `none` is `+inf` (the fill value of the running top-k and the value of a
    masked distance) -/
abbrev Dist := Option Rat

/-- `a ≤ b` on distances, `+inf` being the largest value -/
def dle : Dist → Dist → Bool
  | _, none => true
  | none, some _ => false
  | some x, some y => decide (x ≤ y)

/-- strict `a < b` (`tf.less`); `inf < inf` is false -/
def dlt (a b : Dist) : Bool := !(dle b a)

/-- `(batch, position)` index of a case; `none` is the initial `(-1, -1)` -/
abbrev Idx := Option (Nat × Nat)

/-- one column of the `(n, k + bs)` tables of `kneighbors`: the sort key and what is gathered
    along with it (the index pair; for KLEOR also the carried query distance) -/
structure Entry (β : Type) where
  key : Dist
  val : β

def entryLe {β : Type} (a b : Entry β) : Bool := dle a.key b.key

variable {α γ β : Type}

/-- insert `x` before the first element that is not smaller (so `x` precedes its equals) -/
def insertBy (le : α → α → Bool) (x : α) : List α → List α
  | [] => [x]
  | y :: ys => if le x y then x :: y :: ys else y :: insertBy le x ys

/-- stable insertion sort (structural recursion: reducible by the kernel) -/
def insSort (le : α → α → Bool) : List α → List α
  | [] => []
  | x :: xs => insertBy le x (insSort le xs)

/-- `tf.argsort` (stable, ascending) followed by `tf.gather`: a stable sort by key -/
def sortE (l : List (Entry β)) : List (Entry β) := insSort entryLe l

/-- one loop iteration: `concat([best, new])`, sort, keep the first `k` -/
def step (sort : List α → List α) (k : Nat) (best new : List α) : List α :=
  (sort (best ++ new)).take k

/-- the whole loop over the batches -/
def run (sort : List α → List α) (k : Nat) (init : List α) (bs : List (List α)) : List α :=
  bs.foldl (step sort k) init

/-- entries contributed by batch number `bi`: position `p` of the batch gets index `(bi, p)`
    (`batch_indices[:, :current_bs]` stacked with the batch index) -/
def batchEntries (mk : γ → Nat → Nat → Entry β) (bi : Nat) (batch : List γ) : List (Entry β) :=
  batch.zipIdx.map fun cp => mk cp.1 bi cp.2

/-- `for batch_index, cases in enumerate(dataset)` -/
def allBatchEntries (mk : γ → Nat → Nat → Entry β) (bsz : Nat) (cases : List γ) :
    List (List (Entry β)) :=
  (batches bsz cases).zipIdx.map fun bb => batchEntries mk bb.2 bb.1

/-- the initial tables: `k` columns `(+inf, (-1, -1))` -/
def fills (k : Nat) : List (Entry Idx) := List.replicate k ⟨none, none⟩

/-- `KNN.kneighbors` for one query; `key c` is the distance of the (projected) query to case `c` -/
def knnOne (sort : List (Entry Idx) → List (Entry Idx)) (k bsz : Nat) (key : γ → Dist)
    (cases : List γ) : List (Entry Idx) :=
  run sort k (fills k) (allBatchEntries (fun c bi p => ⟨key c, some (bi, p)⟩) bsz cases)

/-- `harmonize_datasets`: `batch_size = min(batch_size, N)` (`None`: one batch); a batched or
    unbatched `tf.data` dataset ends up with the same first-batch size -/
def effBs (bs : Option Nat) (n : Nat) : Nat :=
  match bs with
  | none => n
  | some b => (Gen.hzBatch (b : Int) (n : Int)).toNat

/-- `cardinality = math.ceil(N / batch_size)` -/
def card (n bsz : Nat) : Nat := (Gen.hzCard (n : Int) (bsz : Int)).toNat

/-- `dataset_gather`: the element at `(batch, position)`; `none` = the fill (`inf` / `-1`) left
    where no batch matches (index `(-1, -1)` or out of range) -/
def gather (bs : List (List γ)) : Idx → Option γ
  | none => none
  | some (b, p) => (bs[b]?).bind (·[p]?)

/-- flattened index `idx[..., 0] * batch_size + idx[..., 1]` -/
def flatOf (bsz : Nat) : Idx → Option Int
  | none => none
  | some (b, p) => some (Gen.flatIndex (b : Int) (bsz : Int) (p : Int))

-- ---------------------------------------------------------------------------------------------
-- distances (search_methods/common.py)
-- ---------------------------------------------------------------------------------------------
def powQ (x : Rat) : Nat → Rat
  | 0 => 1
  | n + 1 => x * powQ x n

def maxQ : List Rat → Rat
  | [] => 0
  | x :: xs => ratMax x (maxQ xs)

/-- supported distances. The model value is an exact order-equivalent KEY of the distance:
    `lp p` returns `Σ |a-b|^p` (the distance is its `p`-th root), `cos` returns
    `-sign(a·b) (a·b)² / (|a|²|b|²)` (the distance is `1 + sign(key) sqrt |key|`); the others
    return the distance itself -/
inductive DistKind where
  | l1
  | linf
  | lp (p : Nat)
  | wl1 (w : List Rat)
  | cos

def diffAbs (a b : List Rat) : List Rat := List.zipWith (fun x y => ratAbs (x - y)) a b

def distKey : DistKind → List Rat → List Rat → Dist
  | .l1, a, b => some (sumQ (diffAbs a b))
  | .linf, a, b => some (maxQ (diffAbs a b))
  | .lp p, a, b => some (sumQ ((diffAbs a b).map fun d => powQ d p))
  | .wl1 w, a, b => some (sumQ (List.zipWith (· * ·) (diffAbs a b) w))
  | .cos, a, b =>
    let ab := dot a b
    let n := dot a a * dot b b
    if n = 0 then none else some (-(if 0 ≤ ab then 1 else -1) * (ab * ab) / n)

-- ---------------------------------------------------------------------------------------------
-- projection (projections/base.py)
-- ---------------------------------------------------------------------------------------------
/-- `x · A` for a matrix given by its rows -/
def vecMat (x : List Rat) (A : List (List Rat)) : List Rat :=
  match A with
  | [] => []
  | r0 :: _ => (List.zipWith vscale x A).foldl vadd (vzero r0.length)

/-- `Projection(get_weights, space_projection)`: an integer linear space projection on the
    flattened sample (or none), then weights: none (ones), a constant tensor, or a function of the
    targets `t · B` -/
structure Proj where
  space : Option (List (List Rat))
  wconst : Option (List Rat)
  wtarget : Option (List (List Rat))

/-- `Projection.project`: `weights * space_projection(inputs)` -/
def project (P : Proj) (x t : List Rat) : List Rat :=
  let z := match P.space with
    | none => x
    | some A => vecMat x A
  match P.wconst, P.wtarget with
  | some w, _ => List.zipWith (· * ·) w z
  | none, some B => List.zipWith (· * ·) (vecMat t B) z
  | none, none => z

/-- a sample with its target row -/
abbrev Sample := List Rat × List Rat

/-- distance key between the PROJECTED query and the PROJECTED case — one and the same `project` -/
def projKey (P : Proj) (dk : DistKind) (q : Sample) (c : Sample) : Dist :=
  distKey dk (project P q.1 q.2) (project P c.1 c.2)

/-- `SimilarExamples.explain` search part (Impl): for every query the `k` table columns -/
def knnImpl (sort : List (Entry Idx) → List (Entry Idx)) (P : Proj) (dk : DistKind) (k : Nat)
    (bs : Option Nat) (cases : List Sample) (queries : List Sample) : List (List (Entry Idx)) :=
  queries.map fun q => knnOne sort k (effBs bs cases.length) (projKey P dk q) cases

-- ---------------------------------------------------------------------------------------------
-- Spec: brute force, no batches
-- ---------------------------------------------------------------------------------------------
/-- the `k` smallest keys in increasing order, padded with `+inf` when there are fewer than `k` -/
def smallestKeys (k : Nat) (keys : List Dist) : List Dist :=
  ((keys ++ List.replicate k none).mergeSort dle).take k

/-- reference: distances of the `k` nearest cases of each query in the projected space -/
def knnSpec (P : Proj) (dk : DistKind) (k : Nat) (cases : List Sample) (queries : List Sample) :
    List (List Dist) :=
  queries.map fun q => smallestKeys k (cases.map (projKey P dk q))

end Xp.TopK
