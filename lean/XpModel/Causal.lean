/-
  Executable model of xplique/metrics/fidelity.py : CausalFidelity (Deletion / Insertion)
  `__init__` (feature count, max_nb_perturbed, steps == -1 rule: GENERATED arithmetic),
  `detailed_evaluate` (channel mean, argsort descending, cumulative replacement of whole
  feature rows, batched inference, dict of means) and `evaluate` (trapezoid).

  One sample is held as in the code: `inputs_flatten[n]` = list of `F` rows of `C` channel values
  (`C = 1` when the input has no channel axis); the score is applied to the re-flattened rows.
  NumPy's sort and `np.linspace(.., dtype=int32)` are parameters of the `Impl` side.
-/
import XpModel.Basic
import XpModel.Gen.Arith
namespace Xp.Causal

/-- `np.mean(explanations, -1)` of an explanation with `c` trailing channels -/
def chanMean (c : Nat) (e : List Rat) : List Rat := (batches c e).map meanQ

/-- `≤` on optional values, `none` (index out of range) below everything: total and transitive -/
def optLe : Option Rat → Option Rat → Bool
  | none, _ => true
  | some _, none => false
  | some a, some b => decide (a ≤ b)

/-- comparison of two feature indices through the explanation values -/
def leIdx (e : List Rat) (i j : Nat) : Bool := optLe e[i]? e[j]?

/-- `np.argsort(e)[::-1]` for a comparison sort `sort` (NumPy's: a parameter; tie order unspecified) -/
def argsortDescWith (sort : (Nat → Nat → Bool) → List Nat → List Nat) (e : List Rat) : List Nat :=
  (sort (leIdx e) (List.range e.length)).reverse

/-- the instance used by the executable model: stable merge sort -/
def argsortDesc (e : List Rat) : List Nat :=
  argsortDescWith (fun le l => l.mergeSort le) e

/-- `x.reshape((F, C))` -/
def toRows (c : Nat) (x : List Rat) : List (List Rat) := batches c x

/-- Impl: `batch_inputs = start.copy(); batch_inputs[ids] = end[ids]` (row assignment, one id at a time) -/
def flipImpl (start end_ : List (List Rat)) (ids : List Nat) : List (List Rat) :=
  ids.foldl (fun acc i => acc.set i (end_.getD i [])) start

/-- Spec: feature `i` is taken from `end_` iff it is one of the selected features -/
def flipSpec (start end_ : List (List Rat)) (ids : List Nat) : List (List Rat) :=
  (List.range start.length).map fun i => if ids.contains i then end_.getD i [] else start.getD i []

/-- `max_nb_perturbed` from the generated expression (`p = pn / pd` symbolic rational) -/
def maxNb (nf pn pd : Nat) : Nat := (Gen.causalMaxNb nf pn pd).toNat

/-- effective `steps` after the `steps == -1` rule (generated) -/
def nbSteps (steps : Int) (maxnb : Nat) : Nat := (Gen.causalSteps steps maxnb).toNat

/-- arguments of `np.linspace(start, stop, num, dtype=int32)` as written in the source (generated) -/
def linArgs (maxnb steps : Nat) : Int × Int × Int :=
  (Gen.causalLinStart maxnb steps, Gen.causalLinStop maxnb steps, Gen.causalLinNum maxnb steps)

/-- what `np.linspace(0, M, S + 1, dtype=int32)` denotes: `⌊j·M/S⌋`, `j = 0..S` -/
def linspaceFloor (M S : Nat) : List Nat := (List.range (S + 1)).map fun j => j * M / S

/-- idealised linspace for arbitrary integer arguments (only `start = 0` occurs) -/
def linspaceOf (a : Int × Int × Int) : List Nat :=
  if a.1 = 0 ∧ 1 ≤ a.2.2 then linspaceFloor a.2.1.toNat (a.2.2.toNat - 1) else []

/-- "evenly spaced from 0 to M in S steps", as demanded of the observed step counts:
    `S+1` values, first 0, last `M`, non-decreasing, and `⌈jM/S⌉ − 1 ≤ k_j ≤ ⌊jM/S⌋`
    (written multiplicatively: `k_j·S ≤ j·M ≤ (k_j+1)·S`). -/
def stepsOk (M S : Nat) (ks : List Nat) : Bool :=
  ks.length == S + 1 && ks.getD 0 1 == 0 && (S == 0 || ks.getD S (M + 1) == M) &&
  (List.range (S + 1)).all (fun j => ks.getD j 0 * S ≤ j * M && j * M ≤ (ks.getD j 0 + 1) * S) &&
  (List.range S).all (fun j => ks.getD j 0 ≤ ks.getD (j + 1) 0)

/-- Python dict assignment `d[k] = v`: overwrite in place or append -/
def dictInsert (d : List (Nat × Rat)) (k : Nat) (v : Rat) : List (Nat × Rat) :=
  if d.any (fun p => p.1 == k) then d.map (fun p => if p.1 == k then (k, v) else p)
  else d ++ [(k, v)]

structure Sample where
  start : List (List Rat)      -- rows (F × C): inputs for deletion, baselines for insertion
  end_  : List (List Rat)
  order : List Nat             -- most important features first
  y     : List Rat

/-- Impl: one step of the loop of `detailed_evaluate`: flip the `k` first ranked features of every
    sample, re-flatten, batched inference with `batch_size`, `np.mean` -/
def pointImpl (op : List (List Rat × List Rat) → List Rat) (bs : Option Nat)
    (ss : List Sample) (k : Nat) : Rat :=
  meanQ (batched op bs (ss.map fun s => ((flipImpl s.start s.end_ (s.order.take k)).flatten, s.y)))

/-- Impl: `detailed_evaluate`: the dict built over the (observed) step counts -/
def detailedImpl (op : List (List Rat × List Rat) → List Rat) (bs : Option Nat)
    (ss : List Sample) (steps : List Nat) : List (Nat × Rat) :=
  steps.foldl (fun d k => dictInsert d k (pointImpl op bs ss k)) []

/-- Impl: `evaluate`: `np.mean(v[:-1] + v[1:]) * 0.5`; a single point gives NaN (`none`) -/
def aucImpl (vals : List Rat) : Option Rat :=
  let pairs := List.zipWith (· + ·) vals.dropLast vals.tail
  if pairs.length = 0 then none else some (meanQ pairs * (1 / 2))

/-- Spec: value of the curve at feature count `k`: mean over samples of the score of the sample in
    which exactly the `k` highest-ranked features come from `end_` -/
def curveSpec (g : List Rat → List Rat → Rat) (ss : List Sample) (k : Nat) : Rat :=
  meanQ (ss.map fun s => g (flipSpec s.start s.end_ (s.order.take k)).flatten s.y)

/-- Spec: first occurrences of the step counts, in order -/
def dedupKeys : List Nat → List Nat
  | [] => []
  | k :: ks => k :: (dedupKeys ks).filter (· != k)

def detailedSpec (g : List Rat → List Rat → Rat) (ss : List Sample) (steps : List Nat) : List (Nat × Rat) :=
  (dedupKeys steps).map fun k => (k, curveSpec g ss k)

/-- Spec: composite trapezoidal rule on equally spaced nodes, normalised by the number of
    intervals: `(v_0/2 + v_1 + … + v_{L-2} + v_{L-1}/2) / (L − 1)` -/
def trapzSpec (vals : List Rat) : Rat :=
  (sumQ vals - (vals.headD 0 + vals.getLastD 0) / 2) / ((vals.length : Rat) - 1)

/-- building the samples of a call: `mode`, channel mean of 4-D explanations, ranking -/
def mkSamples (sort : (Nat → Nat → Bool) → List Nat → List Nat) (deletion : Bool) (c : Nat)
    (ce : Option Nat) (xs bases es ys : List (List Rat)) : List Sample :=
  (List.zipWith (fun (x, b) (e, y) =>
      let e' := match ce with
        | none => e
        | some c' => chanMean c' e
      let xr := toRows c x
      let br := toRows c b
      { start := if deletion then xr else br, end_ := if deletion then br else xr,
        order := argsortDescWith sort e', y := y : Sample })
    (xs.zip bases) (es.zip ys))

end Xp.Causal
