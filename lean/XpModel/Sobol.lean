/-
  Executable model of
    xplique/attributions/global_sensitivity_analysis/replicated_designs.py (build_replicated_design,
      the `np.concatenate([A, B, C])` of every replicated sampler),
    xplique/attributions/global_sensitivity_analysis/sobol_estimators.py (split_abc and the five
      total-order estimators),
  and the reference (published) formulas they are compared with.

  Division: every division of the code is `qdiv` (`none` = ZeroDivisionError / NaN / inf), so a
  zero variance or `nb_design ≤ 1` can never make a statement true through `x / 0 = 0`.
  The slice bounds of `split_abc` come from the GENERATED file Gen/Arith.lean.
-/
import XpModel.Basic
import XpModel.Gen.Arith
namespace Xp.Sobol

variable {α : Type}

/-! ### replicated design -/

/-- `M[:, i]` (missing cells read as 0; never happens on rectangular input) -/
def colOf (M : List (List Rat)) (i : Nat) : List Rat := M.map fun r => r.getD i 0

/-- `C[:, i] = v` on one copy: row `a` gets `v[a]` at column `i` -/
def assignCol (M : List (List Rat)) (i : Nat) (v : List Rat) : List (List Rat) :=
  List.zipWith (fun row x => row.set i x) M v

/-- `replication_c = np.array([A.copy() for _ in range(d)])` then
    `for i in range(len(replication_c)): replication_c[i, :, i] = B[:, i]` (state passing) -/
def replC (A B : List (List Rat)) (d : Nat) : List (List (List Rat)) :=
  (List.range d).foldl (fun C i => C.modify i fun M => assignCol M i (colOf B i)) (List.replicate d A)

/-- `build_replicated_design`: the `d` blocks stacked (`reshape((-1, d))`) -/
def buildReplicated (A B : List (List Rat)) (d : Nat) : List (List Rat) := (replC A B d).flatten

/-- `np.concatenate([sampling_a, sampling_b, replicated_c], 0)` -/
def design (A B : List (List Rat)) (d : Nat) : List (List Rat) := A ++ B ++ buildReplicated A B d

/-- Reference: block `i` is `A` whose column `i` comes from `B` -/
def specBlock (A B : List (List Rat)) (i : Nat) : List (List Rat) :=
  List.zipWith (fun ra rb => ra.set i (rb.getD i 0)) A B

def specDesign (A B : List (List Rat)) (d : Nat) : List (List Rat) :=
  A ++ B ++ (List.range d).flatMap (specBlock A B)

/-! ### split_abc -/

/-- Python index normalisation of a slice bound on a sequence of length `len` -/
def pyIdx (len : Nat) (i : Int) : Nat := if i < 0 then (i + len).toNat else min i.toNat len

/-- `xs[lo:hi]` with Python semantics (negative bounds count from the end, everything is clamped) -/
def slice (xs : List α) (lo hi : Int) : List α :=
  (xs.take (pyIdx xs.length hi)).drop (pyIdx xs.length lo)

/-- `split_abc(outputs, nb_design, nb_dim)` with the source's slice bounds -/
def splitABC (ys : List α) (n d : Nat) : List α × List α × List (List α) :=
  (slice ys (Gen.splitALo n) (Gen.splitAHi n),
   slice ys (Gen.splitBLo n) (Gen.splitBHi n),
   (List.range d).map fun (i : Nat) => slice ys (Gen.splitCLo n i) (Gen.splitCHi n i))

/-! ### estimators, literally as coded -/

def qdiv (a b : Rat) : Option Rat := if b = 0 then none else some (a / b)

def sq (x : Rat) : Rat := x * x

/-- `np.mean(xs)` -/
def meanO (xs : List Rat) : Option Rat := qdiv (sumQ xs) (xs.length : Rat)

/-- `np.sum([(v - mu_a)**2 for v in sampling_a]) / (len(sampling_a) - 1)` -/
def sampleVar (ya : List Rat) : Option Rat := do
  let mu ← meanO ya
  qdiv (sumQ (ya.map fun v => sq (v - mu))) ((ya.length : Rat) - 1)

/-- `np.sum(a * c)` -/
def sumProd (a c : List Rat) : Rat := sumQ (List.zipWith (· * ·) a c)

/-- `np.sum((a - c)**2.0)` -/
def sumSqDiff (a c : List Rat) : Rat := sumQ (List.zipWith (fun x y => sq (x - y)) a c)

/-- JansenEstimator.__call__, one dimension -/
def jansenOne (n : Nat) (ya yc : List Rat) : Option Rat := do
  let var ← sampleVar ya
  qdiv (sumSqDiff ya yc) (2 * (n : Rat) * var)

/-- HommaEstimator.__call__, one dimension -/
def hommaOne (n : Nat) (ya yc : List Rat) : Option Rat := do
  let mu ← meanO ya
  let var ← sampleVar ya
  let inv ← qdiv 1 (n : Rat)
  qdiv (var - inv * sumProd ya yc + sq mu) var

/-- SaltelliEstimator.__call__, one dimension -/
def saltelliOne (n : Nat) (ya yc : List Rat) : Option Rat := do
  let mu ← meanO ya
  let var ← sampleVar ya
  let inv ← qdiv 1 (n : Rat)
  let q ← qdiv (inv * sumProd ya yc - sq mu) var
  pure (1 - q)

/-- JanonEstimator.__call__, one dimension -/
def janonOne (n : Nat) (ya yc : List Rat) : Option Rat := do
  let inv ← qdiv 1 (n : Rat)
  let inv1 ← qdiv 1 ((n : Rat) - 1)
  let mu := inv * sumQ (List.zipWith (· + ·) ya yc) / 2
  let var := inv1 * sumQ (List.zipWith (fun a c => sq a + sq c) ya yc) / 2 - sq mu
  let q ← qdiv (inv * sumProd ya yc - sq mu) var
  pure (1 - q)

/-- `np.var(xs)` (population variance) -/
def popVar (xs : List Rat) : Option Rat := do
  let mu ← meanO xs
  meanO (xs.map fun v => sq (v - mu))

/-- Glen-Isaacs, one dimension: the radicand `var_a * var_c[i]` whose square root the code takes -/
def glenRadicand (ya yc : List Rat) : Option Rat := do
  let va ← popVar ya
  let vc ← popVar yc
  pure (va * vc)

/-- GlenEstimator.__call__, one dimension; `root` is the value of `(var_a * var_c[i])**0.5`
    (square root is a parameter of the model) -/
def glenOne (n : Nat) (root : Rat) (ya yc : List Rat) : Option Rat := do
  let mua ← meanO ya
  let muc ← meanO yc
  let inv1 ← qdiv 1 ((n : Rat) - 1)
  let cov := inv1 * sumQ (List.zipWith (fun a c => (a - mua) * (c - muc)) ya yc)
  let q ← qdiv cov root
  pure (1 - q)

inductive Kind where
  | jansen | homma | janon | saltelli
  deriving DecidableEq, Repr

def estOne : Kind → Nat → List Rat → List Rat → Option Rat
  | .jansen => jansenOne
  | .homma => hommaOne
  | .janon => janonOne
  | .saltelli => saltelliOne

/-- `Estimator.__call__(masks, outputs, nb_design)` before `post_process` (which only casts and
    reshapes): split the outputs, one index per dimension -/
def estimate (k : Kind) (ys : List Rat) (n d : Nat) : List (Option Rat) :=
  let (ya, _, ycs) := splitABC ys n d
  ycs.map (estOne k n ya)

/-! ### reference formulas (written from the cited papers; the variance normalisation `n - 1`
    of the module is kept, see the remark in Properties/C08.lean) -/

/-- unbiased sample variance of the outputs on `A` -/
def varQ (ya : List Rat) : Rat :=
  sumQ (ya.map fun v => sq (v - meanQ ya)) / ((ya.length : Rat) - 1)

/-- Jansen (1999) / Saltelli et al. (2010, Table 2 (f)):
    `ST_i = [ 1/(2N) Σ_j (f(A)_j − f(A_B^(i))_j)² ] / V(Y)` -/
def jansenSpec (ya yc : List Rat) : Rat :=
  (sumSqDiff ya yc / (2 * (ya.length : Rat))) / varQ ya

/-- Homma & Saltelli (1996): `ST_i = 1 − (U_{~i} − f0²) / V`, `U_{~i} = 1/N Σ_j f(A)_j f(A_B^(i))_j` -/
def hommaSpec (ya yc : List Rat) : Rat :=
  1 - (sumProd ya yc / (ya.length : Rat) - sq (meanQ ya)) / varQ ya

/-- Saltelli (The Primer): the same quantity, `ST_i = 1 − (1/N Σ f(A) f(A_B^(i)) − f0²) / V` -/
def saltelliSpec (ya yc : List Rat) : Rat := hommaSpec ya yc

/-- Janon et al. (2014), `T_N`: mean and second moment pooled over `Y` and `Y'` -/
def janonSpec (ya yc : List Rat) : Rat :=
  let n : Rat := ya.length
  let mu := (sumQ ya + sumQ yc) / (2 * n)
  let m2 := (sumQ (ya.map sq) + sumQ (yc.map sq)) / (2 * (n - 1))
  1 - (sumProd ya yc / n - sq mu) / (m2 - sq mu)

/-- Glen & Isaacs (2012): one minus the correlation-type ratio of `f(A)` and `f(A_B^(i))` -/
def glenSpec (root : Rat) (ya yc : List Rat) : Rat :=
  let n : Rat := ya.length
  1 - (sumQ (List.zipWith (fun a c => (a - meanQ ya) * (c - meanQ yc)) ya yc) / (n - 1)) / root

/-- pooled variance used by the Janon estimator (its definedness guard) -/
def janonVar (ya yc : List Rat) : Rat :=
  let n : Rat := ya.length
  (sumQ (ya.map sq) + sumQ (yc.map sq)) / (2 * (n - 1)) - sq ((sumQ ya + sumQ yc) / (2 * n))

/-- an additive score `f(x) = Σ_j h_j(x_j)` on `d` coordinates -/
def addF (h : Nat → Rat → Rat) (d : Nat) (x : List Rat) : Rat :=
  sumQ ((List.range d).map fun j => h j (x.getD j 0))

end Xp.Sobol
