/-
  Executable model of xplique/attributions/occlusion.py (Occlusion.explain, _get_masks,
  _apply_masks, _compute_sensitivity).  The scalar anchor arithmetic comes from the
  GENERATED file Gen/Arith.lean, so this model follows the source.
-/
import XpModel.Basic
import XpModel.Gen.Arith
namespace Xp.Occl

/-- `[x * stride for x in range(0, nb)]` with the generated count / multiplier expressions -/
def anchorsOf (nb : Int → Int → Int → Int) (mul : Int → Int → Int) (dim p s : Nat) : List Int :=
  (List.range (nb dim p s).toNat).map fun (i : Nat) => mul (Int.ofNat i) (Int.ofNat s)

def anchorsTab := anchorsOf Gen.occlNbAnchorsTab Gen.occlAnchorTab
def anchorsX := anchorsOf Gen.occlNbAnchorsX Gen.occlAnchorX
def anchorsY := anchorsOf Gen.occlNbAnchorsY Gen.occlAnchorY

/-- numpy slice `mask[a : a + p] = 1` on an axis of length `dim`, for `a ≥ 0` -/
def inSlice (a : Int) (p : Nat) (i : Nat) : Bool := a ≤ (i : Int) && (i : Int) < a + (p : Int)

/-- geometry of one sample: tabular `(W)` or two masked axes `(A, B)` with `C` trailing channels
    (`C = 1` and no channel axis for time series `(T, W)`) -/
inductive Geom where
  | tab (w p s : Nat)
  | two (a b c pa pb sa sb : Nat)

def Geom.nfeat : Geom → Nat
  | .tab w _ _ => w
  | .two a b _ _ _ _ _ => a * b

def Geom.nflat : Geom → Nat
  | .tab w _ _ => w
  | .two a b c _ _ _ _ => a * b * c

/-- the boolean masks over the feature cells (row-major over `(A, B)`), in the order of the code:
    x anchors outer loop, y anchors inner loop -/
def masks : Geom → List (List Bool)
  | .tab w p s => (anchorsTab w p s).map fun a => (List.range w).map (inSlice a p)
  | .two a b _ pa pb sa sb =>
      (anchorsX a pa sa).flatMap fun ax => (anchorsY b pb sb).map fun ay =>
        (List.range (a * b)).map fun k => inSlice ax pa (k / b) && inSlice ay pb (k % b)

/-- channels per feature cell -/
def Geom.chan : Geom → Nat
  | .tab _ _ _ => 1
  | .two _ _ c _ _ _ _ => c

/-- `_apply_masks`: `x * (1 - m) + m * v`, the mask repeated over the channel axis -/
def applyMask (g : Geom) (x : List Rat) (m : List Bool) (v : Rat) : List Rat :=
  (List.range x.length).map fun k =>
    let xv := x.getD k 0
    if m.getD (k / g.chan) false then xv * 0 + 1 * v else xv * 1 + 0 * v

/-- `_compute_sensitivity` for one chunk of masks: `Σ_m (base − score_m) · m` -/
def sensChunk (nfeat : Nat) (base : Rat) (chunk : List (List Bool × Rat)) : List Rat :=
  (List.range nfeat).map fun k =>
    sumQ (chunk.map fun (m, sc) => (base - sc) * (if m.getD k false then 1 else 0))

/-- Occlusion map of ONE input: masks processed by chunks of `b`, sensitivities accumulated -/
def explainOne (g : Geom) (f : List Rat → Rat) (v : Rat) (b : Nat) (x : List Rat) : List Rat :=
  let base := f x
  (batches b (masks g)).foldl
    (fun acc chunk => vadd acc (sensChunk g.nfeat base (chunk.map fun m => (m, f (applyMask g x m v)))))
    (vzero g.nfeat)

/-- `Occlusion.explain`: `batch_size or len(inputs)`; base scores are computed by batched
    inference (a per-sample map), then each input is processed on its own. -/
def explain (g : Geom) (f : List Rat → List Rat → Rat) (v : Rat) (bs : Option Nat)
    (xs : List (List Rat)) (ys : List (List Rat)) : List (List Rat) :=
  let b := effBatch bs xs.length
  List.zipWith (fun x y => explainOne g (fun z => f z y) v b x) xs ys

/-- Reference definition (Spec): for feature cell `k`, the sum over all patches covering it of
    `score(x) − score(x with the patch set to v)`; patches are anchored at multiples of the
    stride and lie fully inside the input. Written independently of the generated arithmetic. -/
def specAnchors (dim p s : Nat) : List Nat :=
  (List.range (dim + 1)).filter fun a => a % s = 0 && a + p ≤ dim

def specMasks : Geom → List (List Bool)
  | .tab w p s => (specAnchors w p s).map fun a => (List.range w).map fun i => a ≤ i && i < a + p
  | .two a b _ pa pb sa sb =>
      (specAnchors a pa sa).flatMap fun ax => (specAnchors b pb sb).map fun ay =>
        (List.range (a * b)).map fun k =>
          (ax ≤ k / b && k / b < ax + pa) && (ay ≤ k % b && k % b < ay + pb)

def occlude (g : Geom) (x : List Rat) (m : List Bool) (v : Rat) : List Rat :=
  (List.range x.length).map fun k => if m.getD (k / g.chan) false then v else x.getD k 0

def specOne (g : Geom) (f : List Rat → Rat) (v : Rat) (x : List Rat) : List Rat :=
  (List.range g.nfeat).map fun k =>
    sumQ (((specMasks g).filter fun m => m.getD k false).map fun m => f x - f (occlude g x m v))

end Xp.Occl
