/-
  Import-free executable model: shared list / batching primitives.
  Mirrors xplique/commons/tf_operations.py (batch_tensor, repeat_labels),
  xplique/commons/operators_operations.py (batch_predictions / operator_batching)
  and the `while total < nb_samples` chunk loop of GradientStatistic / MuFidelity.
-/
namespace Xp

variable {α β : Type}

/-- `tf.data.Dataset.from_tensor_slices(xs).batch(b)`: chunks of size `b`, last one possibly shorter.
    (`b = 0` is rejected by TensorFlow; modelled as no batch at all.) -/
def batches (b : Nat) (xs : List α) : List (List α) :=
  if h : b = 0 ∨ xs = [] then [] else
    xs.take b :: batches b (xs.drop b)
termination_by xs.length
decreasing_by
  have : xs ≠ [] := fun e => h (Or.inr e)
  have := List.length_pos_iff.mpr this
  simp only [List.length_drop]; omega

/-- `batch_size or len(inputs)`: `none` means one batch holding everything. -/
def effBatch (bs : Option Nat) (n : Nat) : Nat :=
  match bs with
  | none => n
  | some b => b

/-- operator batching: apply `op` per batch and concatenate (`batch_predictions`). -/
def batched (op : List α → List β) (bs : Option Nat) (xs : List α) : List β :=
  match bs with
  | none => op xs
  | some b => ((batches b xs).map op).flatten

/-- chunk sizes produced by the `while total < nb` loop of GradientStatistic / MuFidelity -/
def chunkSizes (pbs nb : Nat) : List Nat :=
  if h : pbs = 0 ∨ nb = 0 then [] else
    let c := min pbs nb
    c :: chunkSizes pbs (nb - c)
termination_by nb
decreasing_by omega

def sumQ : List Rat → Rat
  | [] => 0
  | x :: xs => x + sumQ xs

/-- `tf.repeat(xs, c, axis=0)` / `repeat_labels`: sample-major repetition -/
def repeatEach (c : Nat) (xs : List α) : List α := xs.flatMap (List.replicate c)

/-- inverse regrouping `reshape (n, c, …)` of a sample-major list -/
def regroup (c : Nat) (xs : List α) : List (List α) := batches c xs

/-- pointwise sum of two vectors (broadcast-free `+` on equal shapes) -/
def vadd (a b : List Rat) : List Rat := List.zipWith (· + ·) a b

def vzero (n : Nat) : List Rat := List.replicate n 0

def vscale (c : Rat) (a : List Rat) : List Rat := a.map (c * ·)

def dot (a b : List Rat) : Rat := sumQ (List.zipWith (· * ·) a b)

def meanQ (xs : List Rat) : Rat := sumQ xs / (xs.length : Rat)

def ratMax (a b : Rat) : Rat := if a ≤ b then b else a
def ratMin (a b : Rat) : Rat := if a ≤ b then a else b
def ratAbs (a : Rat) : Rat := if 0 ≤ a then a else -a
def relu (a : Rat) : Rat := if 0 ≤ a then a else 0

end Xp
