/-
  State machines of exactly the fields that explainer / metric objects mutate after construction
  (found by scanning every `self.x = …` outside `__init__` in xplique/attributions and
  xplique/metrics):
    Occlusion.patch_size / patch_stride      (tuple-ised on the first rank>2 call)
    Lime.ref_value / map_to_interpret_space  (defaults chosen from the first input, kept afterwards)
    SmoothGrad / SquareGrad / VarGrad online statistic (counter, sum, square sum)
    BlackBoxExplainer._cache_models          (class-level cache keyed by (id(input), id(output)))
-/
import XpModel.Basic
namespace Xp.Hist

/-! ### Occlusion -/

inductive PSize where
  | scalar (p : Nat)
  | pair (a b : Nat)
  deriving DecidableEq, Repr

def PSize.tuple : PSize → PSize
  | .scalar p => .pair p p
  | .pair a b => .pair a b

structure Occl where
  patch : PSize
  stride : PSize
  deriving DecidableEq, Repr

/-- `explain`: `if is_image: tuple-ise patch_size and patch_stride` (rank > 2 inputs) -/
def Occl.call (s : Occl) (rankGt2 : Bool) : Occl :=
  if rankGt2 then { patch := s.patch.tuple, stride := s.stride.tuple } else s

/-- the geometry a call works with (what `_get_masks` receives) -/
def Occl.effective (s : Occl) (rankGt2 : Bool) : Occl := s.call rankGt2

/-! ### Lime / KernelShap -/

inductive DKind where
  | tab | ts | rgb | grey | other
  deriving DecidableEq, Repr

/-- default reference value / mapping chosen from the input kind (`none` = left unset) -/
inductive RefVal where
  | zeros1 | grey3 | zerosC | user (id : Nat)
  deriving DecidableEq, Repr
inductive MapFn where
  | tabMap | tsMap | quickshift | felzenszwalb | user (id : Nat)
  deriving DecidableEq, Repr

def defaultRef : DKind → Option RefVal
  | .tab => some .zeros1 | .ts => some .zeros1 | .rgb => some .grey3 | .grey => some .zerosC | .other => none
def defaultMap : DKind → Option MapFn
  | .tab => some .tabMap | .ts => some .tsMap | .rgb => some .quickshift | .grey => some .felzenszwalb
  | .other => none

structure Lime where
  ref : Option RefVal
  map : Option MapFn
  deriving DecidableEq, Repr

/-- `_set_shape_dependant_parameters`: fills what is still `None` -/
def Lime.call (s : Lime) (k : DKind) : Lime :=
  { ref := match s.ref with | some r => some r | none => defaultRef k,
    map := match s.map with | some m => some m | none => defaultMap k }

/-! ### online statistics of the SmoothGrad family -/

structure Online where
  cnt : Nat := 0
  sum : Rat := 0
  sq : Rat := 0
  deriving DecidableEq, Repr

def Online.reset : Online := {}
def Online.update (o : Online) (chunk : List Rat) : Online :=
  { cnt := o.cnt + chunk.length, sum := o.sum + sumQ chunk, sq := o.sq + sumQ (chunk.map fun g => g * g) }

inductive Stat where
  | smooth | square | var
  deriving DecidableEq, Repr

def Online.final (st : Stat) (o : Online) : Rat :=
  match st with
  | .smooth => o.sum / o.cnt
  | .square => o.sq / o.cnt
  | .var => (o.cnt : Rat) / ((o.cnt : Rat) - 1) * (o.sq / o.cnt - (o.sum / o.cnt) * (o.sum / o.cnt))

/-- one input batch of `explain`: reset, accumulate the gradient chunks, read the final value.
    Returns the new object state and the value. (One scalar gradient coordinate is modelled; the
    code does the same per coordinate.) -/
def gsBatch (st : Stat) (o : Online) (chunks : List (List Rat)) : Online × Rat :=
  let o' := chunks.foldl Online.update (let _ := o; Online.reset)
  (o', o'.final st)

/-- a whole `explain` call = several input batches; a history = several calls -/
def gsCall (st : Stat) (o : Online) (batchesOfChunks : List (List (List Rat))) : Online × List Rat :=
  batchesOfChunks.foldl (fun (acc : Online × List Rat) b =>
    let r := gsBatch st acc.1 b; (r.1, acc.2 ++ [r.2])) (o, [])

/-! ### the class-level model cache -/

/-- a model object: its identity and the identities of its input / output tensors -/
structure ModelRef where
  id : Nat
  inp : Nat
  out : Nat
  deriving DecidableEq, Repr

abbrev Cache := List ((Nat × Nat) × ModelRef)

def ModelRef.key (m : ModelRef) : Nat × Nat := (m.inp, m.out)

def Cache.lookup (c : Cache) (k : Nat × Nat) : Option ModelRef :=
  (c.find? fun e => e.1 = k).map (·.2)

/-- `BlackBoxExplainer.__init__` for a Keras model: returns the new cache and `self.model` -/
def construct (c : Cache) (m : ModelRef) : Cache × ModelRef :=
  match c.lookup m.key with
  | some r => (c, r)
  | none => (c ++ [(m.key, m)], m)

/-- building explainers for a list of models; returns the final cache and every `self.model` -/
def constructAll (c : Cache) (ms : List ModelRef) : Cache × List ModelRef :=
  ms.foldl (fun (acc : Cache × List ModelRef) m =>
    let r := construct acc.1 m; (r.1, acc.2 ++ [r.2])) (c, [])

def Cache.WF (c : Cache) : Prop := ∀ e ∈ c, e.2.key = e.1

/-! ### layer objects: `override_relu_gradient` clones the model and re-routes the clone's ReLU sites -/

/-- back-propagation rule a ReLU site currently routes to -/
inductive Rule | plain | deconv | guided
  deriving DecidableEq, Repr, Inhabited

/-- a layer object: is it a standard ReLU site (ReLU layer or fused relu activation), and its current rule -/
structure LayerObj where
  relu : Bool
  rule : Rule
  deriving DecidableEq, Repr, Inhabited

/-- the heap of live layer objects; the position is the object identity -/
abbrev Heap := List LayerObj

/-- a Keras model: the identities of its layers, in order -/
abbrev LModel := List Nat

/-- `clone_model`: a fresh copy of every layer is allocated at the end of the heap -/
def cloneModel (h : Heap) (m : LModel) : Heap × LModel :=
  (h ++ m.map (fun i => h[i]?.getD default), List.range' h.length m.length)

/-- re-route one object if it is a ReLU site -/
def setRule1 (r : Rule) (h : Heap) (i : Nat) : Heap :=
  match h[i]? with
  | some l => if l.relu then h.set i { l with rule := r } else h
  | none => h

def setRule (h : Heap) (ids : List Nat) (r : Rule) : Heap := ids.foldl (setRule1 r) h

/-- `override_relu_gradient(model, policy)`: clone, then re-route the CLONE's ReLU sites; returns the clone -/
def overrideClone (h : Heap) (m : LModel) (r : Rule) : Heap × LModel :=
  let c := cloneModel h m
  (setRule c.1 c.2 r, c.2)

/-- successive DeconvNet / GuidedBackprop constructions on (possibly different) user models -/
def overrideAll (h : Heap) (steps : List (LModel × Rule)) : Heap × List LModel :=
  steps.foldl (fun (acc : Heap × List LModel) s =>
    let r := overrideClone acc.1 s.1 s.2; (r.1, acc.2 ++ [r.2])) (h, [])

/-- the rules of a model's ReLU sites as currently routed -/
def rulesOf (h : Heap) (m : LModel) : List Rule :=
  (m.filterMap fun i => h[i]?).filterMap fun l => if l.relu then some l.rule else none

/-- a variant that shares the "stateless" (ReLU) layer objects between the model and its clone - NOT the code -/
def overrideShared (h : Heap) (m : LModel) (r : Rule) : Heap × LModel :=
  (setRule h m r, m)

end Xp.Hist
