/-
  Executable model of xplique/attributions/rise.py (Rise.explain, _get_masks shapes, _apply_masks).

  * the upsample size expressions come from the GENERATED file Gen/Arith.lean
    (`int(H * (1.0 + 1.0 / h))` rationalised by the translator), so the model follows the source;
  * `tf.image.resize` (bilinear, half-pixel centres, no antialias) is modelled by two taps per axis
    (`tapLo`, `tapHi`, `frac`) — a library model tied by correspondence only;
  * `tf.image.random_crop` is a parameter: one offset `(dy, dx)` per chunk of masks;
  * `tf.random.uniform(...) < p` is a parameter: the binary grids are inputs of the model.
-/
import XpModel.Basic
import XpModel.Gen.Arith
namespace Xp.Rise

/-! ### bilinear resize along one axis: output index `i` of `out` reads input cells of `inn` -/

/-- numerator of the source coordinate `(i + 1/2) * inn / out - 1/2` over the denominator `2 * out` -/
def srcNum (out inn i : Nat) : Int := ((2 * i + 1 : Nat) : Int) * (inn : Int) - (out : Int)

/-- `floor` of the source coordinate (Int `/` rounds towards −∞ for a positive divisor) -/
def srcFloor (out inn i : Nat) : Int := srcNum out inn i / ((2 * out : Nat) : Int)

/-- fractional part of the source coordinate = interpolation weight of the upper tap -/
def frac (out inn i : Nat) : Rat :=
  ((srcNum out inn i % ((2 * out : Nat) : Int) : Int) : Rat) / ((2 * out : Nat) : Rat)

/-- clamp a (possibly negative / too large) cell index into `0 .. inn-1` -/
def clampIdx (inn : Nat) (z : Int) : Nat := min z.toNat (inn - 1)

def tapLo (out inn i : Nat) : Nat := clampIdx inn (srcFloor out inn i)
def tapHi (out inn i : Nat) : Nat := clampIdx inn (srcFloor out inn i + 1)

/-- TensorFlow's `a + (b - a) * t` -/
def lerp (t a b : Rat) : Rat := a + (b - a) * t

/-- bilinear upsample of the `h × w` grid `g` (index function) to `H' × W'`, value at `(i, j)`:
    rows of the output read rows of the grid (`H'` with `h`), columns read columns (`W'` with `w`) -/
def up2 (H' W' h w : Nat) (g : Nat → Nat → Rat) (i j : Nat) : Rat :=
  let top := lerp (frac W' w j) (g (tapLo H' h i) (tapLo W' w j)) (g (tapLo H' h i) (tapHi W' w j))
  let bot := lerp (frac W' w j) (g (tapHi H' h i) (tapLo W' w j)) (g (tapHi H' h i) (tapHi W' w j))
  lerp (frac H' h i) top bot

/-! ### data kinds -/

/-- one sample: tabular `(W)`; time series `(T, W)` with grid `(t, W)`; image `(H, W, C)` with grid `(h, w)` -/
inductive Kind where
  | tab (W : Nat)
  | ts (T W t : Nat)
  | img (H W C h w : Nat)

/-- number of attributed cells (the map has the input's spatial shape) -/
def Kind.nfeat : Kind → Nat
  | .tab W => W
  | .ts T W _ => T * W
  | .img H W _ _ _ => H * W

/-- trailing channels sharing one mask value -/
def Kind.chan : Kind → Nat
  | .tab _ => 1
  | .ts _ _ _ => 1
  | .img _ _ C _ _ => C

def Kind.nflat (k : Kind) : Nat := k.nfeat * k.chan

/-- shape of one binary grid returned by `_get_masks` (without the sample axis and the trailing 1) -/
def Kind.gridShape : Kind → Nat × Nat
  | .tab W => (1, W)
  | .ts _ W t => (t, W)
  | .img _ _ _ h w => (h, w)

/-- `upsampled_size` of `_apply_masks` (generated expressions); tabular data is not resized -/
def Kind.upSize : Kind → Nat × Nat
  | .tab W => (1, W)
  | .ts T W t => ((Gen.riseUpTsT T W t W).toNat, (Gen.riseUpTsW T W t W).toNat)
  | .img H W _ h w => ((Gen.riseUpImgH H W h w).toNat, (Gen.riseUpImgW H W h w).toNat)

/-- spatial extent `(rows, columns)` of the map -/
def Kind.extent : Kind → Nat × Nat
  | .tab W => (1, W)
  | .ts T W _ => (T, W)
  | .img H W _ _ _ => (H, W)

/-- largest admissible crop offset per axis (`tf.image.random_crop` draws in `0 .. limit`) -/
def Kind.offLimit (k : Kind) : Nat × Nat :=
  (k.upSize.1 - k.extent.1, k.upSize.2 - k.extent.2)

/-- the whole upsampled mask (before the crop), row-major `upSize.1 × upSize.2` -/
def upsampled (k : Kind) (grid : List Rat) : List Rat :=
  match k with
  | .tab W => (List.range W).map fun p => grid.getD p 0
  | _ =>
    let (gh, gw) := k.gridShape
    let (uh, uw) := k.upSize
    (List.range (uh * uw)).map fun p =>
      up2 uh uw gh gw (fun r c => grid.getD (r * gw + c) 0) (p / uw) (p % uw)

/-- the mask applied to the input: crop window of the upsampled grid at offset `(dy, dx)`,
    row-major over the input's spatial cells (`masks` of `_apply_masks`) -/
def applied (k : Kind) (grid : List Rat) (off : Nat × Nat) : List Rat :=
  match k with
  | .tab W => (List.range W).map fun p => grid.getD p 0
  | _ =>
    let (gh, gw) := k.gridShape
    let (uh, uw) := k.upSize
    let wd := k.extent.2
    (List.range k.nfeat).map fun p =>
      up2 uh uw gh gw (fun r c => grid.getD (r * gw + c) 0) (p / wd + off.1) (p % wd + off.2)

/-- `masked_input = masks * x + (1 - masks) * mask_value`, the mask broadcast over the channels -/
def maskedInput (chan : Nat) (x m : List Rat) (v : Rat) : List Rat :=
  (List.range x.length).map fun k =>
    m.getD (k / chan) 0 * x.getD k 0 + (1 - m.getD (k / chan) 0) * v

/-! ### accumulation over chunks of masks (Impl) -/

/-- `tf.reduce_sum(predictions * masks_upsampled, 0)` of one chunk -/
def chunkNum (nfeat : Nat) (ch : List (List Rat × Rat)) : List Rat :=
  (List.range nfeat).map fun p => sumQ (ch.map fun ms => ms.2 * ms.1.getD p 0)

/-- `tf.reduce_sum(masks_upsampled, 0)` of one chunk -/
def chunkDen (nfeat : Nat) (ch : List (List Rat × Rat)) : List Rat :=
  (List.range nfeat).map fun p => sumQ (ch.map fun ms => ms.1.getD p 0)

/-- `none` = division by zero (NaN / inf) -/
def divOpt (n d : Rat) : Option Rat := if d = 0 then none else some (n / d)

/-- `rise_nominator / (rise_denominator + EPSILON)` -/
def finish (eps : Rat) (st : List Rat × List Rat) : List (Option Rat) :=
  List.zipWith (fun n d => divOpt n (d + eps)) st.1 st.2

/-- one accumulation step (`+=` on numerator and denominator) -/
def accStep (nfeat : Nat) (st : List Rat × List Rat) (ch : List (List Rat × Rat)) : List Rat × List Rat :=
  (vadd st.1 (chunkNum nfeat ch), vadd st.2 (chunkDen nfeat ch))

/-- RISE map of ONE input from the applied masks paired with the scores of the masked inputs,
    processed by chunks of `b` -/
def explainPairs (nfeat : Nat) (eps : Rat) (b : Nat) (pairs : List (List Rat × Rat)) : List (Option Rat) :=
  finish eps ((batches b pairs).foldl (accStep nfeat) (vzero nfeat, vzero nfeat))

/-- masks of one chunk (one crop offset for the whole chunk) with the scores of the masked inputs -/
def chunkPairs (k : Kind) (f : List Rat → Rat) (v : Rat) (x : List Rat)
    (co : List (List Rat) × (Nat × Nat)) : List (List Rat × Rat) :=
  co.1.map fun g => let m := applied k g co.2; (m, f (maskedInput k.chan x m v))

/-- RISE map of ONE input as in the code: binary grids in chunks of `b`, each chunk upsampled and
    cropped at its own offset, masked inputs scored by `f`, sums accumulated -/
def explainOne (k : Kind) (f : List Rat → Rat) (v eps : Rat) (b : Nat)
    (grids : List (List Rat)) (offs : List (Nat × Nat)) (x : List Rat) : List (Option Rat) :=
  finish eps (((batches b grids).zip offs).foldl
    (fun st co => accStep k.nfeat st (chunkPairs k f v x co)) (vzero k.nfeat, vzero k.nfeat))

/-- all masks applied to one input, in evaluation order -/
def appliedAll (k : Kind) (b : Nat) (grids : List (List Rat)) (offs : List (Nat × Nat)) : List (List Rat) :=
  (((batches b grids).zip offs).map fun co => co.1.map fun g => applied k g co.2).flatten

/-- `Rise.explain`: `batch_size or nb_samples`; the same binary grids for every input, fresh crop
    offsets per (input, chunk) -/
def explain (k : Kind) (f : List Rat → List Rat → Rat) (v eps : Rat) (bs : Option Nat)
    (grids : List (List Rat)) (xs ys : List (List Rat)) (offss : List (List (Nat × Nat))) :
    List (List (Option Rat)) :=
  let b := effBatch bs grids.length
  List.zipWith (fun xy offs => explainOne k (fun z => f z xy.2) v eps b grids offs xy.1) (xs.zip ys) offss

/-! ### Spec: the property's reference definition -/

/-- `map p = Σ_k score_k · mask_k p / (Σ_k mask_k p + ε)` over the evaluated (mask, score) pairs -/
def specPairs (nfeat : Nat) (eps : Rat) (pairs : List (List Rat × Rat)) : List (Option Rat) :=
  (List.range nfeat).map fun p =>
    divOpt (sumQ (pairs.map fun ms => ms.2 * ms.1.getD p 0)) (sumQ (pairs.map fun ms => ms.1.getD p 0) + eps)

/-- the same with the scores given by a score function on the masked inputs -/
def specMasks (nfeat chan : Nat) (f : List Rat → Rat) (v eps : Rat) (x : List Rat)
    (masks : List (List Rat)) : List (Option Rat) :=
  specPairs nfeat eps (masks.map fun m => (m, f (maskedInput chan x m v)))

/-- `den p / (den p + ε)` — the factor by which a constant score is shrunk -/
def ratio (eps : Rat) (pairs : List (List Rat × Rat)) (p : Nat) : Rat :=
  sumQ (pairs.map fun ms => ms.1.getD p 0) / (sumQ (pairs.map fun ms => ms.1.getD p 0) + eps)

/-- value of the reference map at cell `p` (when the denominator is not zero) -/
def mapVal (eps : Rat) (pairs : List (List Rat × Rat)) (p : Nat) : Rat :=
  sumQ (pairs.map fun ms => ms.2 * ms.1.getD p 0) / (sumQ (pairs.map fun ms => ms.1.getD p 0) + eps)

/-- recovery of a mask value from an observed masked value (`x ≠ v`) -/
def recover (x v q : Rat) : Rat := (q - v) / (x - v)

end Xp.Rise
