/-
  Executable model of xplique/features_visualizations/objectives.py (Objective.__add__, __sub__,
  __mul__, compile) and of the value rescaling of preconditioning.py (to_valid_rgb /
  to_valid_grayscale / maco_image_parametrization) and fft_2d_freq's shape arithmetic.

  An `Objective` object is the ordered list of its sub-objectives; each sub-objective is an
  `atom` (layer + loss function + list of targets/masks, identified by a number) with a
  multiplier.  Python object identity and mutation are modelled by a heap (`List ObjVal`,
  index = object id) on which the three operators act.
-/
import XpModel.Basic
import XpModel.Gen.Arith
namespace Xp.Obj

/-- (atom id, multiplier) in sub-objective order -/
abbrev ObjVal := List (Nat × Rat)

def scale (c : Rat) (o : ObjVal) : ObjVal := o.map fun (a, m) => (a, m * c)

inductive Stmt where
  | add (i j : Nat)
  | sub (i j : Nat)
  | mul (i : Nat) (c : Rat)      -- `o * c` and `c * o` (`__rmul__` delegates to `__mul__`)

/-- value produced by an operator from the operand VALUES (the repaired code: new objects) -/
def opValue (h : List ObjVal) : Stmt → ObjVal
  | .add i j => h.getD i [] ++ h.getD j []
  | .sub i j => h.getD i [] ++ scale (-1) (h.getD j [])     -- `self + term * -1.0`
  | .mul i c => scale c (h.getD i [])

/-- one operator application: allocates the result, writes nothing else -/
def step (h : List ObjVal) (s : Stmt) : List ObjVal := h ++ [opValue h s]

def run (h : List ObjVal) (prog : List Stmt) : List ObjVal := prog.foldl step h

def Stmt.valid (n : Nat) : Stmt → Bool
  | .add i j => i < n && j < n
  | .sub i j => i < n && j < n
  | .mul i _ => i < n

/-- The behaviour BEFORE the fix commits (kept for the negation witnesses only):
    `-` negates the right operand in place, `*` rescales and returns `self`. -/
def stepOld (h : List ObjVal) : Stmt → List ObjVal
  | .add i j => h ++ [h.getD i [] ++ h.getD j []]
  | .sub i j =>
      let h' := h.set j (scale (-1) (h.getD j []))
      h' ++ [h'.getD i [] ++ h'.getD j []]
  | .mul i c => h.set i (scale c (h.getD i []))

/-- expressions over atoms -/
inductive Expr where
  | atom (a : Nat)
  | add (x y : Expr)
  | sub (x y : Expr)
  | smul (c : Rat) (x : Expr)

/-- the Objective value built by evaluating the expression with the (repaired) operators -/
def denote : Expr → ObjVal
  | .atom a => [(a, 1)]
  | .add x y => denote x ++ denote y
  | .sub x y => denote x ++ scale (-1) (denote y)
  | .smul c x => scale c (denote x)

/-- `itertools.product(*[range(n) for n in ns])`: lexicographic, last index fastest -/
def product : List Nat → List (List Nat)
  | [] => [[]]
  | n :: ns => (List.range n).flatMap fun t => (product ns).map fun rest => t :: rest

/-- mixed-radix digits of `r` for radices `ns` (most significant first) -/
def prodN : List Nat → Nat
  | [] => 1
  | n :: ns => n * prodN ns

def digits : List Nat → Nat → List Nat
  | [], _ => []
  | _ :: ns, r => (r / prodN ns) :: digits ns (r % prodN ns)

/-- `objective_function` row `r` for one combination of targets:
    `loss += multipliers[i] * funcs[i](outputs[i], masks[i])`, starting from `0.0`.
    `L a t` = loss function of atom `a` evaluated on its target `t` (for this row). -/
def lossGo (L : Nat → Nat → Rat) : Nat → ObjVal → List Nat → Rat → Rat
  | _, [], _, acc => acc
  | _, _ :: _, [], acc => acc
  | k, (a, m) :: o, t :: c, acc => lossGo L (k + 1) o c (acc + m * L a t)

def lossAt (o : ObjVal) (L : Nat → Nat → Rat) (combo : List Nat) : Rat := lossGo L 0 o combo 0

/-- the behaviour before the fix: `loss += f_i; loss *= m_i` -/
def lossGoOld (L : Nat → Nat → Rat) : Nat → ObjVal → List Nat → Rat → Rat
  | _, [], _, acc => acc
  | _, _ :: _, [], acc => acc
  | k, (a, m) :: o, t :: c, acc => lossGoOld L (k + 1) o c ((acc + L a t) * m)

def lossAtOld (o : ObjVal) (L : Nat → Nat → Rat) (combo : List Nat) : Rat := lossGoOld L 0 o combo 0

/-- `compile`: one optimised input per combination of the sub-objectives' targets;
    `nT a` = number of targets of atom `a`; `L r k t` = loss table of row `r`. -/
def compileLoss (o : ObjVal) (nT : Nat → Nat) (L : Nat → Nat → Nat → Rat) : List Rat :=
  (product (o.map fun (a, _) => nT a)).zipIdx.map fun (combo, r) => lossAt o (L r) combo

def joinNames : List String → String
  | [] => ""
  | [x] => x
  | x :: xs => x ++ " & " ++ joinNames xs

def compileNames (o : ObjVal) (names : Nat → Nat → String) (nT : Nat → Nat) : List String :=
  (product (o.map fun (a, _) => nT a)).map fun combo =>
    joinNames ((List.zip o combo).map fun ((a, _), t) => names a t)

/-! ### image parametrisations -/

def listMin : List Rat → Option Rat
  | [] => none
  | x :: xs => some (xs.foldl ratMin x)
def listMax : List Rat → Option Rat
  | [] => none
  | x :: xs => some (xs.foldl ratMax x)

/-- rescaling tail of `to_valid_rgb` / `to_valid_grayscale` on the normalised pixel values of ONE
    image: `(v − min) / max(v − min) · (hi − lo) + lo`; `none` when the image is constant (0/0). -/
def toValid (lo hi : Rat) (img : List Rat) : Option (List Rat) :=
  match listMin img, listMax img with
  | some mn, some mx =>
      if mx - mn = 0 then none
      else some (img.map fun v => (v - mn) / (mx - mn) * (hi - lo) + lo)
  | _, _ => none

/-- `maco_image_parametrization` tail: `sigmoid(v) · (hi − lo) + lo` with `s = sigmoid(v)` -/
def macoTail (lo hi s : Rat) : Rat := s * (hi - lo) + lo

/-- number of frequency columns kept by `fft_2d_freq` (and below: the width `irfft2d` gives back);
    uses the arithmetic GENERATED from `fft_2d_freq` (`cut_off = int(width % 2 == 1)`,
    slice bound `width//2+1+cut_off`) -/
def fftCols (w : Nat) : Nat := (Gen.fftColsGen (w : Int) (Gen.fftCutOff (w : Int))).toNat
def irfftWidth (cols : Nat) : Nat := 2 * (cols - 1)

end Xp.Obj
