/-
  Score functions known to both sides of the correspondence: a "model" with `nc` outputs,
  each an integer/rational-coefficient polynomial of degree ≤ 3 of the flattened input;
  the explained score is `Σ_c y_c · out_c(x)` (the default `predictions_operator`).
-/
import XpModel.Basic
namespace Xp

structure PolyOut where
  const : Rat
  lin   : List Rat
  quad  : List (Nat × Nat × Rat)
  cub   : List (Nat × Nat × Nat × Rat) := []

def PolyOut.eval (p : PolyOut) (x : List Rat) : Rat :=
  p.const + dot p.lin x
    + sumQ (p.quad.map fun (i, j, q) => q * x.getD i 0 * x.getD j 0)
    + sumQ (p.cub.map fun (i, j, k, q) => q * x.getD i 0 * x.getD j 0 * x.getD k 0)

/-- ∂out/∂x_k -/
def PolyOut.grad (p : PolyOut) (x : List Rat) : List Rat :=
  (List.range x.length).map fun k =>
    p.lin.getD k 0
      + sumQ (p.quad.map fun (i, j, q) =>
          (if i = k then q * x.getD j 0 else 0) + (if j = k then q * x.getD i 0 else 0))
      + sumQ (p.cub.map fun (i, j, l, q) =>
          (if i = k then q * x.getD j 0 * x.getD l 0 else 0)
          + (if j = k then q * x.getD i 0 * x.getD l 0 else 0)
          + (if l = k then q * x.getD i 0 * x.getD j 0 else 0))

/-- explained score `Σ_c y_c · out_c(x)` -/
def polyScore (ps : List PolyOut) (x y : List Rat) : Rat :=
  sumQ (List.zipWith (fun p yc => yc * p.eval x) ps y)

/-- gradient of the explained score w.r.t. the input -/
def polyScoreGrad (ps : List PolyOut) (x y : List Rat) : List Rat :=
  (List.zipWith (fun p yc => vscale yc (p.grad x)) ps y).foldl vadd (vzero x.length)

end Xp
