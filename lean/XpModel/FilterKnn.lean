/-
  Executable model of the filtered searches:
  xplique/example_based/search_methods/knn.py (FilterKNN.kneighbors / _crossed_distances_fn),
  xplique/example_based/counterfactuals.py (NaiveCounterFactuals.filter_fn,
  LabelAwareCounterFactuals.filter_fn / explain),
  xplique/example_based/search_methods/kleor.py (BaseKLEORSearch.kneighbors, _filter_fn,
  _filter_fn_nun, _get_nuns, KLEORGlobalSimSearch._additional_filtering) and
  xplique/example_based/semifactuals.py.
-/
import XpModel.TopK
namespace Xp.TopK

variable {γ : Type}

/-- `tf.argmax(row, axis=-1)`: index of the FIRST maximal value -/
def argmaxAux : List Rat → Nat → Nat → Rat → Nat
  | [], _, best, _ => best
  | x :: xs, i, best, bv => if bv < x then argmaxAux xs (i + 1) i x else argmaxAux xs (i + 1) best bv

def argmax : List Rat → Nat
  | [] => 0
  | x :: xs => argmaxAux xs 1 0 x

/-- `tf.where(mask, distance, fill_value)` -/
def maskKey (m : Bool) (d : Dist) : Dist := if m then d else none

/-- the admissibility filters, on arg-max classes: `ref` is the class of the query's target row
    (naive, KLEOR) or of the requested `cf_expected_classes` row (label-aware) -/
inductive Filter where
  | naive        -- tf.not_equal(predicted_labels, label_targets)
  | labelAware   -- tf.equal(cf_label_targets, cases_predicted_labels)
  | kleorSame    -- BaseKLEORSearch._filter_fn:     equal
  | kleorNun     -- BaseKLEORSearch._filter_fn_nun: not_equal

def admissible : Filter → Nat → Nat → Bool
  | .naive, ref, c => ref != c
  | .labelAware, ref, c => ref == c
  | .kleorSame, ref, c => ref == c
  | .kleorNun, ref, c => ref != c

/-- `FilterKNN.kneighbors` for one query: the running top-k on masked distances; a masked case
    keeps its `(batch, position)` index but its key is `+inf` -/
def filterKnnOne (sort : List (Entry Idx) → List (Entry Idx)) (k bsz : Nat) (key : γ → Dist)
    (adm : γ → Bool) (cases : List γ) : List (Entry Idx) :=
  knnOne sort k bsz (fun c => maskKey (adm c) (key c)) cases

/-- case with its target row -/
def caseClass (c : Sample) : Nat := argmax c.2

/-- counterfactual search (Impl). `refs` are the rows whose arg-max is compared with the cases'
    classes: the queries' targets (naive) or `cf_expected_classes` (label-aware); the projection
    always uses the queries' own targets. -/
def cfImpl (sort : List (Entry Idx) → List (Entry Idx)) (f : Filter) (P : Proj) (dk : DistKind)
    (k : Nat) (bs : Option Nat) (cases : List Sample) (queries : List Sample)
    (refs : List (List Rat)) : List (List (Entry Idx)) :=
  List.zipWith (fun q r =>
      filterKnnOne sort k (effBs bs cases.length) (projKey P dk q)
        (fun c => admissible f (argmax r) (caseClass c)) cases)
    queries refs

/-- reference (Spec): keys of the admissible cases only, `k` smallest, padded with `+inf` -/
def cfSpec (f : Filter) (P : Proj) (dk : DistKind) (k : Nat) (cases : List Sample)
    (queries : List Sample) (refs : List (List Rat)) : List (List Dist) :=
  List.zipWith (fun q r =>
      smallestKeys k ((cases.filter fun c => admissible f (argmax r) (caseClass c)).map (projKey P dk q)))
    queries refs

-- ---------------------------------------------------------------------------------------------
-- KLEOR
-- ---------------------------------------------------------------------------------------------
/-- KLEOR table column: key = (masked) distance to the NUN, carried = (masked) distance to the
    query, and the index pair -/
abbrev KEntry := Entry (Dist × Idx)

def kfills (k : Nat) : List KEntry := List.replicate k ⟨none, (none, none)⟩

structure KleorOut where
  nun : Entry Idx              -- NUN distance to the query and its index
  res : List KEntry

/-- the table column of case `c` in the KLEOR loop. `dq c` / `dn c` are the (unmasked) distances of
    `c` to the query / to the NUN (`dn = +inf` when there is no NUN: the gathered NUN is the `inf`
    fill), `same c` the `_filter_fn` mask, `nunKey` the NUN's distance to the query.
    GlobalSim (`glob`) additionally masks with `tf.less(input_sf, nuns_input)` (strict). -/
def kleorEntry (glob : Bool) (dq dn : γ → Dist) (same : γ → Bool) (nunKey : Dist)
    (c : γ) (bi p : Nat) : KEntry :=
  let dnm := maskKey (same c) (dn c)
  let dqm := maskKey (same c) (dq c)
  let m2 := !glob || dlt dqm nunKey
  ⟨maskKey m2 dnm, (maskKey m2 dqm, some (bi, p))⟩

/-- `BaseKLEORSearch.kneighbors` for one query -/
def kleorOne (glob : Bool) (sortI : List (Entry Idx) → List (Entry Idx))
    (sortK : List KEntry → List KEntry) (k bsz : Nat) (dist : γ → γ → Dist) (dq : γ → Dist)
    (same : γ → Bool) (cases : List γ) : KleorOut :=
  -- _get_nuns: FilterKNN with k = 1 and the not_equal filter, then dataset_gather
  let nunRes := filterKnnOne sortI 1 bsz dq (fun c => !same c) cases
  let nun : Entry Idx := nunRes.headD ⟨none, none⟩
  let nunCase : Option γ := gather (batches bsz cases) nun.val
  let dn : γ → Dist := fun c => match nunCase with
    | none => none
    | some v => dist v c
  { nun := nun
    res := run sortK k (kfills k) (allBatchEntries (kleorEntry glob dq dn same nun.key) bsz cases) }

/-- projected sample: the projected vector and the arg-max class of its target row -/
abbrev PCase := List Rat × Nat

def kleorImpl (glob : Bool) (sortI : List (Entry Idx) → List (Entry Idx))
    (sortK : List KEntry → List KEntry) (P : Proj) (dk : DistKind) (k : Nat) (bs : Option Nat)
    (cases : List Sample) (queries : List Sample) : List KleorOut :=
  let pc : List PCase := cases.map fun c => (project P c.1 c.2, caseClass c)
  queries.map fun q =>
    let pq := project P q.1 q.2
    let qc := argmax q.2
    kleorOne glob sortI sortK k (effBs bs cases.length) (fun a b => distKey dk a.1 b.1)
      (fun c => distKey dk pq c.1) (fun c => c.2 == qc) pc

/-- reference (Spec) relative to a given NUN (row number `r` of the dataset; ties between
    equidistant unlike neighbours are not ordered by the property): among the cases of the query's
    class (GlobalSim: strictly closer to the query than the NUN), the `k` smallest distances to the
    NUN -/
def kleorSpecKeys (glob : Bool) (k : Nat) (dist : γ → γ → Dist) (dq : γ → Dist) (same : γ → Bool)
    (cases : List γ) (nunCase : Option γ) : List Dist :=
  match nunCase with
  | none => List.replicate k none
  | some v =>
    smallestKeys k ((cases.filter fun c => same c && (!glob || dlt (dq c) (dq v))).map (dist v))

/-- reference NUN distance: the smallest distance of a case of another class (`+inf` if none) -/
def nunSpecKey (dq : γ → Dist) (same : γ → Bool) (cases : List γ) : Dist :=
  (smallestKeys 1 ((cases.filter fun c => !same c).map dq)).headD none

end Xp.TopK
