/-
  Score functions known to both sides of the C01 / C04 correspondence, with their analytic
  gradients: polynomial outputs (XpModel/Poly.lean) and a one-hidden-layer ReLU network
  `out = W · relu(A x + b) + c` (the functional Keras model `Flatten → Dense(relu) → Dense`).
  The explained score is `Σ_c y_c · out_c(x)` (the default `predictions_operator`).
-/
import XpModel.Basic
import XpModel.Poly
import XpModel.Reducer
namespace Xp

structure ReluNet where
  A : List Vec      -- h rows of length D
  b : Vec           -- h
  W : List Vec      -- nc rows of length h
  c : Vec           -- nc

def ReluNet.pre (n : ReluNet) (x : Vec) : Vec := List.zipWith (fun a bk => dot a x + bk) n.A n.b

def ReluNet.out (n : ReluNet) (x : Vec) : Vec :=
  let h := (n.pre x).map relu
  List.zipWith (fun w cc => dot w h + cc) n.W n.c

def ReluNet.score (n : ReluNet) (x y : Vec) : Rat := dot (n.out x) y

/-- gradient of the score; the derivative of `relu` at 0 is 0 (TensorFlow's `ReluGrad`: `z > 0`):
    `Σ_k [z_k > 0] · (Σ_c y_c W_ck) · A_k` -/
def ReluNet.grad (n : ReluNet) (x y : Vec) : Vec :=
  let act := (n.pre x).map fun z => if 0 < z then (1 : Rat) else 0
  let wy : Vec := (List.zipWith (fun w yc => vscale yc w) n.W y).foldl vadd (vzero act.length)
  let coef := List.zipWith (· * ·) act wy
  (List.zipWith (fun a ck => vscale ck a) n.A coef).foldl vadd (vzero x.length)

/-- same value as `polyScoreGrad`, computed term by term into an array (linear in the number of
    terms; the driver cross-checks it against `polyScoreGrad` on the first point of every op) -/
def polyScoreGradFast (ps : List PolyOut) (x y : Vec) : Vec :=
  let xa := x.toArray
  let step (acc : Array Rat) (py : PolyOut × Rat) : Array Rat :=
    let (p, yc) := py
    let acc := (List.range xa.size).foldl (fun a k => a.modify k (· + yc * p.lin.getD k 0)) acc
    let acc := p.quad.foldl (fun a (t : Nat × Nat × Rat) =>
      let (i, j, q) := t
      (a.modify i (· + yc * (q * xa.getD j 0))).modify j (· + yc * (q * xa.getD i 0))) acc
    p.cub.foldl (fun a (t : Nat × Nat × Nat × Rat) =>
      let (i, j, l, q) := t
      ((a.modify i (· + yc * (q * xa.getD j 0 * xa.getD l 0))).modify j
          (· + yc * (q * xa.getD i 0 * xa.getD l 0))).modify l (· + yc * (q * xa.getD i 0 * xa.getD j 0))) acc
  ((ps.zip y).foldl step (Array.replicate xa.size 0)).toList

inductive Score where
  | poly (ps : List PolyOut)
  | relu (n : ReluNet)

def Score.eval : Score → Vec → Vec → Rat
  | .poly ps, x, y => polyScore ps x y
  | .relu n, x, y => n.score x y

def Score.grad : Score → Vec → Vec → Vec
  | .poly ps, x, y => polyScoreGradFast ps x y
  | .relu n, x, y => n.grad x y

def PolyOut.abs (p : PolyOut) : PolyOut :=
  { const := ratAbs p.const, lin := p.lin.map ratAbs,
    quad := p.quad.map fun (i, j, q) => (i, j, ratAbs q),
    cub := p.cub.map fun (i, j, k, q) => (i, j, k, ratAbs q) }

def ReluNet.abs (n : ReluNet) : ReluNet :=
  { A := n.A.map (·.map ratAbs), b := n.b.map ratAbs, W := n.W.map (·.map ratAbs), c := n.c.map ratAbs }

/-- magnitude budget `Σ |terms|` of every gradient coordinate at a point (float32 forward-error
    bounds of the tolerance lane are proportional to it): the same formula with absolute values -/
def Score.absGrad : Score → Vec → Vec → Vec
  | .poly ps, x, y => polyScoreGradFast (ps.map PolyOut.abs) (x.map ratAbs) (y.map ratAbs)
  | .relu n, x, y => n.abs.grad (x.map ratAbs) (y.map ratAbs)

/-- magnitude budget of the score value -/
def Score.absEval : Score → Vec → Vec → Rat
  | .poly ps, x, y => polyScore (ps.map PolyOut.abs) (x.map ratAbs) (y.map ratAbs)
  | .relu n, x, y => n.abs.score (x.map ratAbs) (y.map ratAbs)

/-- reference gradient (`polyScoreGrad` of XpModel/Poly.lean) for the driver's self-check -/
def Score.gradRef : Score → Vec → Vec → Vec
  | .poly ps, x, y => polyScoreGrad ps x y
  | .relu n, x, y => n.grad x y

def maxAbs (l : List Rat) : Rat := (l.map ratAbs).foldl ratMax 0

/-- smallest |pre-activation| over the given evaluation points (`none` for polynomials): the
    harness skips inexact-lane cases that evaluate a ReLU closer to its kink than float32 resolves -/
def Score.kink : Score → List Vec → Option Rat
  | .poly _, _ => none
  | .relu n, pts =>
    let zs := pts.flatMap fun p => (n.pre p).map ratAbs
    match zs with
    | [] => none
    | z :: r => some (r.foldl ratMin z)

end Xp
