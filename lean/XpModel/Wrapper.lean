/-
  Executable model of xplique/wrappers/pytorch.py (TorchWrapper.__init__ channel decision,
  _has_conv_layers, np_img_to_torch, call / grad) and of xplique/commons/callable_operations.py
  (predictions_one_hot_callable) + the model-type dispatch of
  xplique/commons/operators_operations.py (get_inference_function).

  The torch module (forward and autograd) is a PARAMETER; what is modelled is the layout conversion
  around it (np.moveaxis as an index permutation of row-major tensors), the decision when to convert,
  and the prediction-shape normalisation of the callable path.
-/
import XpModel.Basic
import XpModel.Gen.Arith
namespace Xp.Wrap

abbrev MIdx := List Nat

/-! ### numpy.moveaxis / numpy.transpose -/

def insertAt (l : List Nat) (i v : Nat) : List Nat := l.take i ++ v :: l.drop i

/-- lexicographic order on `(dest, src)` pairs: Python's `sorted(zip(destination, source))` -/
def pairLe (a b : Nat × Nat) : Bool := a.1 < b.1 || (a.1 == b.1 && a.2 ≤ b.2)

/-- the axis permutation built by `numpy.moveaxis(a, source, destination)`:
    `order = [n for n in range(a.ndim) if n not in source]`;
    `for dest, src in sorted(zip(destination, source)): order.insert(dest, src)` -/
def insertSorted (p : Nat × Nat) : List (Nat × Nat) → List (Nat × Nat)
  | [] => [p]
  | q :: qs => if pairLe p q then p :: q :: qs else q :: insertSorted p qs

def sortPairs (l : List (Nat × Nat)) : List (Nat × Nat) := l.foldr insertSorted []

def moveaxisOrder (ndim : Nat) (src dst : List Nat) : List Nat :=
  let base := (List.range ndim).filter fun n => !src.contains n
  (sortPairs (List.zip dst src)).foldl (fun o p => insertAt o p.1 p.2) base

/-- `numpy.transpose(a, order)`: `out.shape[i] = a.shape[order[i]]` -/
def transposeShape (order shape : List Nat) : List Nat := order.map fun a => shape.getD a 0

/-- `out[idx] = a[src]` with `src[order[i]] = idx[i]` -/
def srcIndex (order : List Nat) (idx : MIdx) : MIdx :=
  (List.range order.length).map fun a => idx.getD (order.idxOf a) 0

/-- tensors as index functions (no bounds: all sizes at once) -/
def transposeF (order : List Nat) (t : MIdx → Rat) : MIdx → Rat := fun idx => t (srcIndex order idx)

/-- number of cells -/
def size : List Nat → Nat
  | [] => 1
  | d :: ds => d * size ds

/-- row-major offset of a multi-index -/
def ravel : List Nat → MIdx → Nat
  | _ :: ds, i :: is => i * size ds + ravel ds is
  | _, _ => 0

/-- all multi-indices of a shape in row-major order -/
def allIdx : List Nat → List MIdx
  | [] => [[]]
  | d :: ds => (List.range d).flatMap fun i => (allIdx ds).map (i :: ·)

/-- `numpy.transpose` on a row-major flat tensor -/
def transposeFlat (order shape : List Nat) (data : List Rat) : List Rat :=
  (allIdx (transposeShape order shape)).map fun idx => data.getD (ravel shape (srcIndex order idx)) 0

/-- the axis lists written in the source, extracted by the translator lane -/
def inSrc : List Nat := [Gen.twInSrc0 0, Gen.twInSrc1 0, Gen.twInSrc2 0].map Int.toNat
def inDst : List Nat := [Gen.twInDst0 0, Gen.twInDst1 0, Gen.twInDst2 0].map Int.toNat
def outSrc : List Nat := [Gen.twOutSrc0 0, Gen.twOutSrc1 0, Gen.twOutSrc2 0].map Int.toNat
def outDst : List Nat := [Gen.twOutDst0 0, Gen.twOutDst1 0, Gen.twOutDst2 0].map Int.toNat

/-- `np.moveaxis(np_inputs, [3, 1, 2], [1, 2, 3])` of `np_img_to_torch`: (N,H,W,C) → (N,C,H,W) -/
def cfOrder : List Nat := moveaxisOrder 4 inSrc inDst
/-- `np.moveaxis(dx_np, [1, 2, 3], [3, 1, 2])` of `call.grad`: (N,C,H,W) → (N,H,W,C) -/
def clOrder : List Nat := moveaxisOrder 4 outSrc outDst

def toChannelFirstF := transposeF cfOrder
def toChannelLastF := transposeF clOrder

/-! ### TorchWrapper -/

/-- `_has_conv_layers`: `for module in self.model.modules(): if isinstance(module, nn.Conv2d): …; break`
    over the flattened module tree (one flag per module: is it a Conv2d) -/
def hasConvLayers : List Bool → Bool
  | [] => false
  | m :: ms => if m then true else hasConvLayers ms

/-- `self.channel_first`: `_has_conv_layers()` when `is_channel_first is None`, else the flag -/
def channelFirst (flag : Option Bool) (isConv2d : List Bool) : Bool :=
  match flag with
  | none => hasConvLayers isConv2d
  | some b => b

/-- the torch module: forward and `torch.autograd.backward(outputs, grad_tensors=upstream)` → `input.grad`,
    both on flat row-major tensors with their shape -/
structure Module where
  fwd : List Rat → List Nat → List (List Rat)
  vjp : List Rat → List Nat → List (List Rat) → List Rat

/-- `np_img_to_torch` -/
def npImgToTorch (cf : Bool) (x : List Rat) (shape : List Nat) : List Rat × List Nat :=
  if cf then (transposeFlat cfOrder shape x, transposeShape cfOrder shape) else (x, shape)

/-- `TorchWrapper.call`: outputs and the custom gradient function -/
def call (cf : Bool) (m : Module) (x : List Rat) (shape : List Nat) :
    List (List Rat) × (List (List Rat) → List Rat) :=
  let (xt, st) := npImgToTorch cf x shape
  (m.fwd xt st, fun up =>
    let g := m.vjp xt st up
    if cf then transposeFlat clOrder st g else g)

/-! ### predictions_one_hot_callable and the model-type dispatch -/

/-- what a black-box model returns for a batch: a 2-D array `(N, C)` or a 1-D array -/
inductive Pred where
  | mat (rows : List (List Rat))
  | vec (v : List Rat)

/-- `if inputs.shape[0] != 1: if len(pred.shape) == 1: pred = tf.expand_dims(pred, axis=1)`;
    a 1-D prediction for a single input stays a row -/
def normalise (n : Nat) : Pred → List (List Rat)
  | .mat rows => rows
  | .vec v => if n ≠ 1 then v.map fun p => [p] else [v]

/-- one row of `tf.reduce_sum(pred * targets, axis=-1)` with NumPy broadcasting of a length-1 row -/
def rowScore (row y : List Rat) : Rat :=
  match row, y with
  | [p], y => sumQ (y.map (p * ·))
  | row, [t] => sumQ (row.map (· * t))
  | row, y => sumQ (List.zipWith (· * ·) row y)

def scoresOf (rows ys : List (List Rat)) : List Rat :=
  match rows, ys with
  | [r], ys => ys.map (rowScore r)          -- a single prediction row broadcast over the targets
  | rows, ys => List.zipWith rowScore rows ys

/-- `predictions_one_hot_callable(model, inputs, targets)` after the model was called -/
def oneHotCallable (n : Nat) (pred : Pred) (ys : List (List Rat)) : List Rat :=
  scoresOf (normalise n pred) ys

/-- how the user hands the function over -/
inductive Wrapping where
  | keras | tfModule | kerasLayer | tflite | predictProba | callable
  deriving DecidableEq, Repr

/-- `get_inference_function(model, operator=None)`: `True` = `predictions_operator` (TensorFlow path),
    `False` = `predictions_one_hot_callable` -/
def usesTfOperator : Wrapping → Bool
  | .keras | .tfModule | .kerasLayer => true
  | _ => false

/-- `predictions_operator`: `tf.reduce_sum(model(inputs) * targets, axis=-1)` -/
def predictionsOperator (pred : Pred) (ys : List (List Rat)) : List Rat :=
  match pred with
  | .mat rows => scoresOf rows ys
  | .vec v => scoresOf [v] ys               -- (N,) * (N, C) broadcasts the vector as ONE row

/-- inference function of a black-box explainer / metric for a model given as `w` whose call on the
    batch returned `pred` -/
def inference (w : Wrapping) (n : Nat) (pred : Pred) (ys : List (List Rat)) : List Rat :=
  if usesTfOperator w then predictionsOperator pred ys else oneHotCallable n pred ys

/-- batched inference: `operator_batching` with a model `f` called once per batch -/
def batchInference (w : Wrapping) (f : List (List Rat) → Pred) (bs : Option Nat)
    (xys : List (List Rat × List Rat)) : List Rat :=
  batched (fun chunk => inference w chunk.length (f (chunk.map (·.1))) (chunk.map (·.2))) bs xys

end Xp.Wrap
