/-
  Executable model of the operator machinery:
  xplique/commons/operators_operations.py (Tasks.from_string, get_operator, get_inference_function,
  get_gradient_functions), xplique/commons/operators.py (predictions / semantic segmentation /
  object detection operators), xplique/utils_functions/object_detection.py (_box_iou,
  _format_objects), xplique/commons/model_override.py (find_layer) and the white-box constructor
  of xplique/attributions/base.py (output_layer truncation).
-/
import XpModel.Basic
namespace Xp.Op

/-! ### which operator is explained (decision logic) -/

inductive Task where
  | classification | regression | segmentation
  | detection | detectionBoxPosition | detectionBoxProba | detectionBoxClass
  deriving DecidableEq, Repr

/-- the `operator` argument as the user may give it -/
inductive OpArg where
  | none                      -- operator=None
  | name (s : String)         -- a task name
  | task (t : Task)           -- a member of the Tasks enum (its value)
  | custom (id nargs : Nat)   -- any other callable, with its number of positional arguments
  | notCallable

/-- the function actually used to score -/
inductive Resolved where
  | predictions                                   -- Σ model(x)·targets
  | segmentation
  | detection (inclProb inclClass : Bool)
  | custom (id : Nat)
  | error
  deriving DecidableEq, Repr

def taskOp : Task → Resolved
  | .classification => .predictions
  | .regression => .predictions
  | .segmentation => .segmentation
  | .detection => .detection true true
  | .detectionBoxPosition => .detection false false
  | .detectionBoxProba => .detection true false
  | .detectionBoxClass => .detection false true

/-- `Tasks.from_string` (an unknown name fails the assertion) -/
def fromString (s : String) : Option Task :=
  if s = "classification" then some .classification
  else if s = "regression" then some .regression
  else if s = "semantic segmentation" then some .segmentation
  else if s = "object detection" then some .detection
  else if s = "object detection box position" then some .detectionBoxPosition
  else if s = "object detection box proba" then some .detectionBoxProba
  else if s = "object detection box class" then some .detectionBoxClass
  else none

/-- `get_operator` -/
def resolve : OpArg → Resolved
  | .none => .predictions
  | .name s => match fromString s with
    | some t => taskOp t
    | none => .error
  | .task t => taskOp t
  | .custom id nargs => if nargs < 3 then .error else .custom id
  | .notCallable => .error

inductive ModelKind where
  | keras | tfModule | layer | torchWrapper | callable | predictProba | tflite
  deriving DecidableEq

/-- what `get_inference_function` scores with: `none` result = NumPy-callable prediction path -/
inductive Inference where
  | op (r : Resolved)         -- operator applied to the model as a TF callable
  | oneHotCallable            -- predictions_one_hot_callable (tflite / predict_proba / __call__ on numpy)
  deriving DecidableEq

def inferenceOf (k : ModelKind) (a : OpArg) : Inference :=
  match a with
  | .none =>
    match k with
    | .keras | .tfModule | .layer | .torchWrapper => .op .predictions
    | _ => .oneHotCallable
  | a => .op (resolve a)

/-- whether gradients are available (`get_gradient_functions`) and of which operator -/
def gradientOf (k : ModelKind) (a : OpArg) : Option Resolved :=
  match a with
  | .none => match k with
    | .keras | .torchWrapper => some .predictions
    | _ => none
  | a => some (resolve a)

/-! ### find_layer / output_layer -/

inductive LayerRef where
  | byName (s : String)
  | byIndex (i : Int)

/-- `model.get_layer(name)` / `model.layers[i]` with Python negative indexing; `none` = raises -/
def findLayer (names : List String) : LayerRef → Option Nat
  | .byName s => names.findIdx? (· = s)
  | .byIndex i =>
    let n : Int := names.length
    if 0 ≤ i ∧ i < n then some i.toNat
    else if -n ≤ i ∧ i < 0 then some (n + i).toNat
    else none

/-- a network is a list of layers; truncating at layer `L` keeps layers `0..L` -/
def forward {α : Type} (layers : List (α → α)) (x : α) : α := layers.foldl (fun a f => f a) x

/-- the model a white-box explainer explains (REPAIRED constructor): truncated at `output_layer` -/
def explainedLayers {α : Type} (names : List String) (layers : List (α → α)) :
    Option LayerRef → Option (List (α → α))
  | none => some layers
  | some r => (findLayer names r).map fun l => layers.take (l + 1)

/-- the constructor before the fix: `output_layer` resolved but `self.model` stays the full model -/
def explainedLayersOld {α : Type} (names : List String) (layers : List (α → α)) :
    Option LayerRef → Option (List (α → α))
  | none => some layers
  | some r => (findLayer names r).map fun _ => layers

/-! ### semantic segmentation operator -/

def countNonzero (t : List Rat) : Nat := (t.filter (· ≠ 0)).length

/-- `Σ(pred·t) / #{t ≠ 0}`; `none` when the target mask is empty (0/0 = NaN) -/
def segScore (pred t : List Rat) : Option Rat :=
  if countNonzero t = 0 then none else some (dot pred t / (countNonzero t : Rat))

/-! ### object detection operator (D-RISE) -/

structure Box where
  x1 : Rat
  y1 : Rat
  x2 : Rat
  y2 : Rat

def Box.area (b : Box) : Rat := (b.x2 - b.x1) * (b.y2 - b.y1)
def Box.wf (b : Box) : Prop := b.x1 ≤ b.x2 ∧ b.y1 ≤ b.y2

def inter (a b : Box) : Rat :=
  ratMax (ratMin a.x2 b.x2 - ratMax a.x1 b.x1) 0 * ratMax (ratMin a.y2 b.y2 - ratMax a.y1 b.y1) 0

/-- `_box_iou` with its `+ ε` in the denominator -/
def boxIoU (ε : Rat) (a b : Box) : Rat := inter a b / (a.area + b.area - inter a b + ε)

/-- one detected / reference object: box, objectness, class vector, and the Euclidean norm of the
    class vector (`tf.norm`, supplied by the caller: square roots are not rational) -/
structure Obj where
  box : Box
  prob : Rat
  cls : List Rat
  nrm : Rat

def classScore (ε : Rat) (ref pred : Obj) : Rat := dot ref.cls pred.cls / (pred.nrm * ref.nrm + ε)

def pairScore (ε : Rat) (inclProb inclClass : Bool) (ref pred : Obj) : Rat :=
  boxIoU ε ref.box pred.box * (if inclProb then pred.prob else 1)
    * (if inclClass then classScore ε ref pred else 1)

def maxList : List Rat → Option Rat
  | [] => none
  | x :: xs => some (xs.foldl ratMax x)

/-- score of one image: mean over the reference boxes of the best predicted box;
    no predicted object → 0 (as the code), no reference → `none` (mean of nothing) -/
def driseScore (ε : Rat) (inclProb inclClass : Bool) (refs preds : List Obj) : Option Rat :=
  if preds = [] then some 0
  else if refs = [] then none
  else
    let best := refs.map fun r => (maxList (preds.map (pairScore ε inclProb inclClass r))).getD 0
    some (sumQ best / (best.length : Rat))

end Xp.Op
