/-
  Import-free executable model: what every white-box explainer does around its `explain` method.
  Mirrors xplique/attributions/base.py (`WhiteBoxExplainer._set_channel_reducer`,
  `_harmonize_channel_dimension`) and the gradient plumbing of
  xplique/commons/operators_operations.py (`get_gradient_of_operator`, `operator_batching`).

  A sample is its row-major flattening `List Rat`; for an image `(H, W, C)` the channel index is
  the fastest one, so pixel `p` owns the entries `p*C … p*C + C-1`.
-/
import XpModel.Basic
namespace Xp

abbrev Vec := List Rat

/-- the gradient function handed to the explainers (`self.batch_gradient` before batching):
    takes a batch of (point, target) pairs, returns one gradient per pair.  TensorFlow autodiff
    is a parameter of the model. -/
abbrev GradOp := List (Vec × Vec) → List Vec

/-- the operator of a per-sample gradient `g` (what `GradientTape` delivers for a model in
    inference mode: the gradient of a sample does not depend on the rest of the batch) -/
def gradMap (g : Vec → Vec → Vec) : GradOp := fun l => l.map fun py => g py.1 py.2

/-- per-sample hypothesis of all batching theorems -/
def PerSample (op : GradOp) (g : Vec → Vec → Vec) : Prop := ∀ l, op l = gradMap g l

inductive Reducer where
  | min | max | mean | sum
  deriving DecidableEq, Repr

/-- `tf.reduce_<r>` of one pixel's channel values -/
def red : Reducer → List Rat → Rat
  | .min, l => l.foldl ratMin (l.headD 0)
  | .max, l => l.foldl ratMax (l.headD 0)
  | .mean, l => sumQ l / (l.length : Rat)
  | .sum, l => sumQ l

/-- data kind: tabular `(W)`, time series `(T, W)`, image `(H, W, C)` -/
inductive Layout where
  | tab | ts | img (c : Nat)
  deriving DecidableEq, Repr

/-- `_harmonize_channel_dimension` on one flattened explanation: only 4-D explanations whose last
    axis is not 1 are reduced over that axis (`keepdims=True`); `reducer=None` installs the identity. -/
def harmonize (r : Option Reducer) (lay : Layout) (v : Vec) : Vec :=
  match lay, r with
  | .img c, some r => if c ≠ 1 then (batches c v).map (red r) else v
  | _, _ => v

/-- reference form of the channel reduction, by pixel index (independent of `batches`) -/
def reducePixels (r : Reducer) (c : Nat) (v : Vec) : Vec :=
  (List.range (v.length / c)).map fun p => red r ((List.range c).map fun k => v.getD (p * c + k) 0)

def vmul (a b : Vec) : Vec := List.zipWith (· * ·) a b

/-- `List (Option α)` all defined → the list of values (the `tf.concat` of per-batch results,
    undefined as soon as one batch result is NaN / an assertion fails) -/
def allSome {α : Type} : List (Option α) → Option (List α)
  | [] => some []
  | none :: _ => none
  | some a :: l => match allSome l with
    | none => none
    | some r => some (a :: r)

end Xp
