/-
  Executable model of xplique/metrics/fidelity.py : MuFidelity
  (`__init__` batch arithmetic and `evaluate`'s chunk loop: GENERATED; `_perturb_samples`'
  degradation; prediction drops, summed attributions; Spearman as rank-covariance triple) and of
  xplique/metrics/stability.py : AverageStability.

  Randomness is a parameter: the subset masks drawn by `_perturb_samples` (one draw per
  (input batch, chunk), shared by the samples of the input batch) and the noise masks of
  AverageStability are inputs of the model.  `sqrt` never appears: the correlation is returned
  as `(cov, var_x, var_y)` of the average ranks.
-/
import XpModel.Basic
import XpModel.Gen.Arith
namespace Xp.MuFid

/-- the `while total < nb_samples` loop with the generated chunk expression; `fuel` bounds the
    number of iterations (each chunk has ≥ 1 element when `pbs ≥ 1`) -/
def chunkLoop (pbs nb : Int) : Nat → Int → List Int
  | 0, _ => []
  | fuel + 1, tot =>
    if tot < nb then
      let c := Gen.mufChunk pbs nb tot
      c :: chunkLoop pbs nb fuel (tot + c)
    else []

/-- `self.batch_size or len(inputs) * nb_samples` -/
def effBs (bs : Option Nat) (n nb : Nat) : Nat :=
  match bs with
  | none => n * nb
  | some b => b

/-- perturbation batch size, inputs batch size (generated expressions) -/
def pbsOf (bsEff nb : Nat) : Nat := (Gen.mufPbs bsEff nb).toNat
def ibsOf (bsEff nb : Nat) : Nat := (Gen.mufIbs bsEff (Gen.mufPbs bsEff nb)).toNat

/-- sizes of the successive `_perturb_samples` calls for one input batch -/
def chunksOf (bsEff nb : Nat) : List Nat :=
  (chunkLoop (Gen.mufPbs bsEff nb) nb nb 0).map Int.toNat

/-- `x * m + (1 - m) * base`, the mask cell of flat position `k` being `k / c`
    (`c` trailing channels share one mask cell; `c = 1` for tabular data and time series) -/
def degrade (c : Nat) (x base m : List Rat) : List Rat :=
  (List.range x.length).map fun k =>
    x.getD k 0 * m.getD (k / c) 0 + (1 - m.getD (k / c) 0) * base.getD k 0

/-- `reduce_sum(phi * (1 - m))`; `cp` channels of `phi` per mask cell (1 unless phi is 4-D with C > 1) -/
def attrOf (cp : Nat) (phi m : List Rat) : Rat :=
  sumQ ((List.range phi.length).map fun k => phi.getD k 0 * (1 - m.getD (k / cp) 0))

/-- `phi.reshape(F, C).sum(-1)`: attributions of a mask cell summed over its `C` channels -/
def cellSum (F C : Nat) (phi : List Rat) : List Rat :=
  (List.range F).map fun i => sumQ ((List.range C).map fun ch => phi.getD (i * C + ch) 0)

structure Sample where
  x    : List Rat
  base : List Rat      -- baseline values (constant or `baseline_mode(x)`), same layout as `x`
  y    : List Rat
  phi  : List Rat

structure Geo where
  c  : Nat             -- channels of x per mask cell
  cp : Nat             -- channels of phi per mask cell

/-- Impl: one pass of the inner loop for one input batch and one drawn mask chunk: the degraded
    inputs are laid out sample-major (`reshape(-1, …)` of `(n, nbp, …)`), the labels repeated,
    inference is batched with `batch_size`, the result reshaped to `(n, nbp)` -/
def chunkStep (g : Geo) (op : List (List Rat × List Rat) → List Rat) (bs : Option Nat)
    (batch : List (Sample × Rat)) (masks : List (List Rat)) : List (List (Rat × Rat)) :=
  let degraded := batch.flatMap fun (s, _) => masks.map fun m => (degrade g.c s.x s.base m, s.y)
  let pp := regroup masks.length (batched op bs degraded)
  List.zipWith (fun (s, bp) row =>
      List.zipWith (fun p m => (bp - p, attrOf g.cp s.phi m)) row masks) batch pp

/-- Impl: `evaluate` up to the correlation: per sample the list of `(pred, attr)` pairs.
    `draws[b][j]` = masks returned by the `j`-th `_perturb_samples` call for input batch `b`. -/
def pairsImpl (g : Geo) (op : List (List Rat × List Rat) → List Rat) (bs : Option Nat) (nb : Nat)
    (ss : List Sample) (draws : List (List (List (List Rat)))) : List (List (Rat × Rat)) :=
  let bsEff := effBs bs ss.length nb
  let basePreds := batched op (some bsEff) (ss.map fun s => (s.x, s.y))
  let ibatches := batches (ibsOf bsEff nb) (ss.zip basePreds)
  (List.zipWith (fun batch chunks =>
      chunks.foldl (fun acc ms => List.zipWith (· ++ ·) acc (chunkStep g op (some bsEff) batch ms))
        (batch.map fun _ => [])) ibatches draws).flatten

/-- Spec: sample `n` is correlated over exactly the masks applied to it: drop of ITS score when the
    subset is set to ITS baseline, against the sum of ITS attributions over the subset -/
def pairsOne (g : Geo) (f : List Rat → List Rat → Rat) (s : Sample) (masks : List (List Rat)) :
    List (Rat × Rat) :=
  masks.map fun m => (f s.x s.y - f (degrade g.c s.x s.base m) s.y, attrOf g.cp s.phi m)

/-- Spec for a whole call: the samples are cut into input batches of `ibs`; the samples of batch `b`
    see exactly the masks drawn for `b` (all its chunks, in order) -/
def pairsSpec (g : Geo) (f : List Rat → List Rat → Rat) (ibs : Nat) (ss : List Sample)
    (draws : List (List (List (List Rat)))) : List (List (Rat × Rat)) :=
  (List.zipWith (fun batch chunks => batch.map fun s => pairsOne g f s chunks.flatten)
    (batches ibs ss) draws).flatten

/-- average ranks (ties share the mean of their positions), as `scipy.stats.rankdata` -/
def avgRanks (xs : List Rat) : List Rat :=
  xs.map fun x => (xs.countP (fun z => decide (z < x)) : Rat)
                    + ((xs.countP (fun z => decide (z = x)) : Rat) + 1) / 2

/-- centred second moments of two equally long lists: `(Σ(a-ā)(b-b̄), Σ(a-ā)², Σ(b-b̄)²)` -/
def covTriple (a b : List Rat) : Rat × Rat × Rat :=
  let ma := meanQ a
  let mb := meanQ b
  (sumQ (List.zipWith (fun u v => (u - ma) * (v - mb)) a b),
   sumQ (a.map fun u => (u - ma) * (u - ma)),
   sumQ (b.map fun v => (v - mb) * (v - mb)))

/-- Spearman's correlation of the pairs as rank-covariance triple; `ρ = cov / √(vx·vy)` -/
def rankTriple (ps : List (Rat × Rat)) : Rat × Rat × Rat :=
  covTriple (avgRanks (ps.map Prod.fst)) (avgRanks (ps.map Prod.snd))

/-- `ρ²` with the sign of `ρ`, `none` when a variance vanishes (`spearmanr` returns NaN, which
    the metric reports as 0) -/
def rhoSq (t : Rat × Rat × Rat) : Option (Bool × Rat) :=
  if t.2.1 * t.2.2 = 0 then none else some (decide (0 ≤ t.1), t.1 * t.1 / (t.2.1 * t.2.2))

/-! AverageStability -/

/-- `inp + self.noisy_masks` -/
def neighbors (x : List Rat) (noise : List (List Rat)) : List (List Rat) := noise.map (vadd x)

/-- Impl: `evaluate`: per sample, the explainer is called ONCE on all its neighbours, the distances
    to the base explanation are averaged, then averaged over samples -/
def stabImpl (expl : List (List Rat) → List (List Rat) → List (List Rat))
    (dist : List Rat → List Rat → Rat) (noise : List (List Rat))
    (ss : List (List Rat × List Rat × List Rat)) : Rat :=
  meanQ (ss.map fun (x, y, phi) =>
    meanQ ((expl (neighbors x noise) (List.replicate noise.length y)).map fun pn => dist pn phi))

def l1 (a b : List Rat) : Rat := sumQ ((List.zipWith (· - ·) a b).map ratAbs)
def l2sq (a b : List Rat) : Rat := sumQ ((List.zipWith (· - ·) a b).map fun d => d * d)
def linf (a b : List Rat) : Rat := ((List.zipWith (· - ·) a b).map ratAbs).foldl ratMax 0

/-- a nearest-neighbour up-sampled grid mask is constant on the pre-images of the grid cells:
    `src i = min ⌊(i + ½)·g / n⌋ (g − 1)` (TensorFlow `resize(method="nearest")`, half-pixel centres) -/
def nnSrc (g n i : Nat) : Nat := min ((2 * i + 1) * g / (2 * n)) (g - 1)

/-- is the `(h, w)` mask (row-major) the nearest-neighbour resize of SOME `(gh, gw)` grid? -/
def gridConsistent (gh gw h w : Nat) (m : List Rat) : Bool :=
  (List.range (h * w)).all fun k =>
    (List.range (h * w)).all fun k' =>
      !(nnSrc gh h (k / w) == nnSrc gh h (k' / w) && nnSrc gw w (k % w) == nnSrc gw w (k' % w))
        || m.getD k 0 == m.getD k' 0

end Xp.MuFid
