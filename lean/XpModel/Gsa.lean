/-
  Executable model of xplique/attributions/global_sensitivity_analysis/gsa_attribution_method.py
  (GSABaseAttributionMethod.explain, _batch_perturbations) and perturbations.py
  (inpainting, blurring, amplitude), up to (and excluding) the final bicubic `tf.image.resize`
  of the `g × g` index map, which the harness applies to the model's map with the same TF call.
-/
import XpModel.Basic
namespace Xp.Gsa

/-- source index of output index `i` for `tf.image.resize(..., method="nearest")`
    (half-pixel centres): `min(floor((i + 1/2) · inSize / outSize), inSize - 1)` -/
def nearestIdx (inSize outSize i : Nat) : Nat := min (((2 * i + 1) * inSize) / (2 * outSize)) (inSize - 1)

/-- `tf.image.resize(masks, (H, W), "nearest")` of one `g × g` mask (flat row-major) -/
def upsample (g h w : Nat) (m : List Rat) : List Rat :=
  (List.range (h * w)).map fun k => m.getD (nearestIdx g h (k / w) * g + nearestIdx g w (k % w)) 0

inductive Perturb where
  /-- `x * m + (1 - m) * 0` -/
  | inpainting
  /-- `x * m + (1 - m) * x0`, `x0 = cv2.blur(x)` is a parameter -/
  | blurring (x0 : List Rat)
  /-- `x * (m - 0.5) * sigma` (as coded) -/
  | amplitude (sigma : Rat)

/-- perturbed input for one upsampled mask; `x` is flat `(H, W, C)`, the mask value of a pixel is
    shared by its `c` channels -/
def perturb (p : Perturb) (c : Nat) (x um : List Rat) : List Rat :=
  (List.range x.length).map fun k =>
    let m := um.getD (k / c) 0
    let xv := x.getD k 0
    match p with
    | .inpainting => xv * m + (1 - m) * 0
    | .blurring x0 => xv * m + (1 - m) * x0.getD k 0
    | .amplitude s => xv * (m - 1 / 2) * s

/-- the query sent to the model for one low-resolution mask -/
def query (p : Perturb) (g h w c : Nat) (x m : List Rat) : List Rat :=
  perturb p c x (upsample g h w m)

/-- outputs for all design points: masks handed on by chunks of `batch_size`, scores concatenated -/
def outputs (bs : Option Nat) (score : List Rat → Rat) (p : Perturb) (g h w c : Nat) (x : List Rat)
    (masks : List (List Rat)) : List Rat :=
  batched (fun ms => ms.map fun m => score (query p g h w c x m)) bs masks

/-- `explain` for one input, before the final resize: `estimator(masks, outputs, nb_design)` -/
def explainOne {ρ : Type} (est : List (List Rat) → List Rat → ρ) (bs : Option Nat)
    (score : List Rat → Rat) (p : Perturb) (g h w c : Nat) (masks : List (List Rat)) (x : List Rat) : ρ :=
  est masks (outputs bs score p g h w c x masks)

/-- `explain`: inputs are processed one at a time with their own target -/
def explain {ρ : Type} (est : List (List Rat) → List Rat → ρ) (bs : Option Nat)
    (score : List Rat → List Rat → Rat) (p : List Rat → Perturb) (g h w c : Nat)
    (masks : List (List Rat)) (xs ys : List (List Rat)) : List ρ :=
  List.zipWith (fun x y => explainOne est bs (fun z => score z y) (p x) g h w c masks x) xs ys

/-- Reference: the estimator applied to the scores of the inputs perturbed by the masks -/
def specOne {ρ : Type} (est : List (List Rat) → List Rat → ρ) (score : List Rat → Rat) (p : Perturb)
    (g h w c : Nat) (masks : List (List Rat)) (x : List Rat) : ρ :=
  est masks (masks.map fun m => score (perturb p c x (upsample g h w m)))

end Xp.Gsa
