/-
  Executable model of xplique/attributions/grad_cam.py (GradCAM.__init__ layer choice, explain's batch
  loop, _compute_weights, _apply_weights) and grad_cam_pp.py (GradCAMPP._compute_weights).

  One sample = feature maps `A` and their gradients `G = ∂score/∂A` (delivered by TensorFlow autodiff,
  a parameter of the model), both stored position-major: `A[p][k]`, `p < H'·W'` (row-major over the
  feature-map grid), `k < K` channels.  The bicubic resize that follows is a TensorFlow primitive applied
  by the harness to the model's output.
-/
import XpModel.Basic
namespace Xp.GradCam

abbrev Maps := List (List Rat)

structure Sample where
  A : Maps
  G : Maps

/-- channel `k` of a position-major map -/
def chan (M : Maps) (k : Nat) : List Rat := M.map (·.getD k 0)

/-- `GradCAM._compute_weights`: `tf.reduce_mean(G, axis=(1, 2))`, one weight per channel -/
def weightsGC (K : Nat) (s : Sample) : List Rat :=
  (List.range K).map fun k => meanQ (chan s.G k)

/-- `GradCAMPP._compute_weights` with `eps = GradCAMPP.EPSILON`:
    `den = 2·G² + G³·mean(A_k)`, `den += [den == 0]·eps`, `w_k = mean(G²/den · relu(G))` -/
def ppDen (eps avg g : Rat) : Rat :=
  let den := 2 * (g * g) + (g * g * g) * avg
  den + (if den = 0 then 1 else 0) * eps

def weightsPP (eps : Rat) (K : Nat) (s : Sample) : List Rat :=
  (List.range K).map fun k =>
    let avg := meanQ (chan s.A k)
    meanQ ((chan s.G k).map fun g => (g * g) / ppDen eps avg g * relu g)

/-- `GradCAM._apply_weights`: `tf.nn.relu(tf.reduce_sum(A * w, axis=-1))` -/
def applyWeights (w : List Rat) (A : Maps) : List Rat :=
  A.map fun row => relu (sumQ (List.zipWith (· * ·) row w))

/-- the two methods differ only by the weight function -/
inductive Method where
  | gradcam
  | gradcampp (eps : Rat)

def weights (m : Method) (K : Nat) (s : Sample) : List Rat :=
  match m with
  | .gradcam => weightsGC K s
  | .gradcampp eps => weightsPP eps K s

/-- one batch of the loop of `GradCAM.explain` (all tensor ops act per sample along axis 0) -/
def camBatch (m : Method) (K : Nat) (chunk : List Sample) : List (List Rat) :=
  chunk.map fun s => applyWeights (weights m K s) s.A

/-- `GradCAM.explain` before the resize: `batch_size or len(inputs)`, batches concatenated -/
def explain (m : Method) (K : Nat) (bs : Option Nat) (samples : List Sample) : List (List Rat) :=
  batched (camBatch m K) bs samples

/-! ### Reference definition (Spec) -/

/-- documented Grad-CAM weight: `w_k = (1/Z) Σ_p ∂score/∂A_k[p]` -/
def specWeightGC (s : Sample) (k : Nat) : Rat :=
  sumQ (s.G.map fun row => row.getD k 0) / (s.G.length : Rat)

/-- Grad-CAM++ weight: `w_k = (1/Z) Σ_p α_k[p] · relu(G_k[p])`, `α = G² / (2G² + G³·Ā_k)` with the
    `den == 0 → den + ε` guard -/
def specAlpha (eps abar g : Rat) : Rat :=
  let den := 2 * g ^ 2 + g ^ 3 * abar
  if den = 0 then g ^ 2 / eps else g ^ 2 / den

def specWeightPP (eps : Rat) (s : Sample) (k : Nat) : Rat :=
  let abar := sumQ (s.A.map fun row => row.getD k 0) / (s.A.length : Rat)
  sumQ (s.G.map fun row => specAlpha eps abar (row.getD k 0) * ratMax (row.getD k 0) 0) / (s.G.length : Rat)

def specWeight (m : Method) (s : Sample) (k : Nat) : Rat :=
  match m with
  | .gradcam => specWeightGC s k
  | .gradcampp eps => specWeightPP eps s k

/-- `φ[p] = max(0, Σ_k w_k · A_k[p])` -/
def specCam (m : Method) (K : Nat) (s : Sample) : List Rat :=
  s.A.map fun row => ratMax 0 (sumQ ((List.range K).map fun k => specWeight m s k * row.getD k 0))

/-! ### Layer choice (`GradCAM.__init__`, `find_layer`) -/

/-- `next(layer for layer in model.layers[::-1] if hasattr(layer, 'filters'))` as an index into
    `model.layers` (`none` = StopIteration) -/
def defaultConv (hasFilters : List Bool) : Option Nat :=
  (List.range hasFilters.length).reverse.find? fun i => hasFilters.getD i false

/-- `model.layers[i]` for a Python `int` (negative indices count from the end; out of range = IndexError) -/
def pyIndex (n : Nat) (i : Int) : Option Nat :=
  if 0 ≤ i then (if i < n then some i.toNat else none)
  else (if -(n : Int) ≤ i then some (i + n).toNat else none)

/-- `model.get_layer(name)`: the first layer with that name (`none` = ValueError) -/
def byName (names : List String) (s : String) : Option Nat := names.findIdx? (· = s)

inductive LayerRef where
  | default
  | index (i : Int)
  | name (s : String)

/-- which layer's output Grad-CAM reads -/
def chooseLayer (names : List String) (hasFilters : List Bool) : LayerRef → Option Nat
  | .default => defaultConv hasFilters
  | .index i => pyIndex names.length i
  | .name s => byName names s

end Xp.GradCam
