/-
  Executable model of xplique/attributions/global_sensitivity_analysis/hsic_estimators.py
  (HsicEstimator.estimator / __call__ / post_process) and kernels.py (binary, sobolev; rbf through
  a parameter, `exp` is never modelled).

  The output Gram matrix `L` (rbf kernel of the scores with the median as width) is an INPUT of
  the model; the harness computes it with the implementation's own `output_kernel_func`.
-/
import XpModel.Basic
import XpModel.Sobol
namespace Xp.Hsic
open Xp.Sobol (sq)

/-- an `n × n` tensor given by its entries -/
def tab (n : Nat) (f : Nat → Nat → Rat) : List (List Rat) :=
  (List.range n).map fun j => (List.range n).map (f j)

/-- read entry `(j, k)` -/
def rd (t : List (List Rat)) (j k : Nat) : Rat := (t.getD j []).getD k 0

/-- `tf.einsum("jk,kl->jl", A, B)` on `n × n` operands -/
def mm (n : Nat) (A B : List (List Rat)) : List (List Rat) :=
  tab n fun j l => sumQ ((List.range n).map fun k => rd A j k * rd B k l)

/-- `H = tf.eye(n) - tf.ones((n, n)) / n` -/
def centering (n : Nat) : List (List Rat) :=
  tab n fun j k => (if j = k then 1 else 0) - 1 / (n : Rat)

/-- one dimension of `HsicEstimator.estimator`:
    `HK = H·K; HL = H·L; Kc = HK·H; Lc = HL·H; score = Σ_{jk} Kc[j,k]·Lc[k,j] / n` -/
def scoreImpl (n : Nat) (K L : List (List Rat)) : Rat :=
  let H := centering n
  let HK := mm n H K
  let HL := mm n H L
  let Kc := mm n HK H
  let Lc := mm n HL H
  sumQ ((List.range n).map fun j => sumQ ((List.range n).map fun k => rd Kc j k * rd Lc k j)) / (n : Rat)

def ratAbs' (a : Rat) : Rat := if 0 ≤ a then a else -a

/-- `kernels.binary`: `0.5 - (X - Y)**2` -/
def kBinary (x y : Rat) : Rat := 1 / 2 - sq (x - y)

/-- `kernels.sobolev`: `B2(|x-y|)/2 + B1(|x|)·B1(|y|)`, `B2(t) = t² - t + 1/6`, `B1(t) = t - 1/2` -/
def kSobolev (x y : Rat) : Rat :=
  let xx := ratAbs' (x - y)
  (sq xx - xx + 1 / 6) / 2 + (ratAbs' x - 1 / 2) * (ratAbs' y - 1 / 2)

/-- input kernels; for `rbf` the radial profile `κ(x - y) = exp(-(x-y)²/(2·width²))` is a parameter -/
inductive InKernel where
  | binary
  | sobolev
  | rbf (κ : Rat → Rat)

def InKernel.eval : InKernel → Rat → Rat → Rat
  | .binary, x, y => kBinary x y
  | .sobolev, x, y => kSobolev x y
  | .rbf κ, x, y => κ (x - y)

/-- `K = reduce_prod(1 + input_kernel(x1, x2), axis=1)` for one mask dimension (the reduced axis
    has size one) -/
def gramIn (kern : InKernel) (n : Nat) (col : List Rat) : List (List Rat) :=
  tab n fun a b => 1 + kern.eval (col.getD a 0) (col.getD b 0)

/-- `X = tf.transpose(masks); X1 = tf.reshape(X, (nb_dim, 1, nb_design, 1))`: the all-axes
    transpose of `(n, g, g, 1)` masks puts cell `(r, c)` at dimension `c·g + r`; the samples of
    dimension `k` are `masks[a, k % g, k / g]`  (`ms`: one flat row-major `g·g` row per sample) -/
def dimCol (g : Nat) (ms : List (List Rat)) (k : Nat) : List Rat :=
  ms.map fun row => row.getD ((k % g) * g + k / g) 0

/-- `batch_size = nb_dim if nb_dim <= self.batch_size else self.batch_size` -/
def effDimBatch (bsz nbDim : Nat) : Nat := if nbDim > bsz then bsz else nbDim

/-- scores of the dimensions, computed by chunks of `effDimBatch` dimensions and concatenated -/
def rawScores (kern : InKernel) (g n bsz : Nat) (ms : List (List Rat)) (L : List (List Rat)) : List Rat :=
  batched (fun ks => ks.map fun k => scoreImpl n (gramIn kern n (dimCol g ms k)) L)
    (some (effDimBatch bsz (g * g))) (List.range (g * g))

/-- `post_process`: `score.reshape((g, g, 1))` then `np.transpose(axes=(1, 0, 2))`, flat row-major -/
def postProcess (g : Nat) (scores : List Rat) : List Rat :=
  (List.range (g * g)).map fun p => scores.getD ((p % g) * g + p / g) 0

/-- `HsicEstimator.__call__(masks, outputs, nb_design)` given the output Gram matrix -/
def hsicImpl (kern : InKernel) (g n bsz : Nat) (ms : List (List Rat)) (L : List (List Rat)) : List Rat :=
  postProcess g (rawScores kern g n bsz ms L)

/-! ### reference -/

def mmF (n : Nat) (A B : Nat → Nat → Rat) : Nat → Nat → Rat :=
  fun j l => sumQ ((List.range n).map fun k => A j k * B k l)

def Hf (n : Nat) : Nat → Nat → Rat := fun j k => (if j = k then 1 else 0) - 1 / (n : Rat)

/-- `tr(H K H · H L H) / n` on entry functions -/
def scoreFn (n : Nat) (K L : Nat → Nat → Rat) : Rat :=
  let Kc := mmF n (mmF n (Hf n) K) (Hf n)
  let Lc := mmF n (mmF n (Hf n) L) (Hf n)
  sumQ ((List.range n).map fun j => sumQ ((List.range n).map fun k => Kc j k * Lc k j)) / (n : Rat)

/-- Reference: cell `p` (row-major) of the map is the HSIC score between the values of mask cell
    `p` over the design and the outputs -/
def hsicSpec (kern : InKernel) (g n : Nat) (ms : List (List Rat)) (L : List (List Rat)) : List Rat :=
  (List.range (g * g)).map fun p =>
    scoreFn n (fun a b => 1 + kern.eval ((ms.getD a []).getD p 0) ((ms.getD b []).getD p 0)) (rd L)

end Xp.Hsic
