/-
  Executable model of xplique/concepts/craft.py (BaseCraft.fit / transform / estimate_importance)
  and craft_torch.py (_batch_inference, CraftTorch._extract_patches / _latent_predict /
  _logit_predict).

  Parameters of the model (never modelled): the feature extractor `act` (includes the bilinear
  resize of the crops), the head's class logit `logit`, and sklearn's NMF (`fitTransform`,
  `nmfRow` = `transform` on one row).  The chunk arithmetic of `_batch_inference` and the patch
  stride come from the GENERATED file Gen/Arith.lean; the Jansen estimator is the C08 model.
-/
import XpModel.Basic
import XpModel.Sobol
import XpModel.Gen.Arith
namespace Xp.Craft
open Xp.Sobol

variable {α β : Type}

/-- `_batch_inference`: `nb_batchs = ceil(len/bs)`, `start_ids = [i*bs …]`,
    `results.append(model(dataset[i:i+bs]))`, `torch.cat(results)` -/
def batchInference (op : List α → List β) (bs : Nat) (ds : List α) : List β :=
  (List.range (Gen.craftNbBatches (ds.length : Int) (bs : Int)).toNat).flatMap fun (i : Nat) =>
    let s := Gen.craftStart (i : Int) (bs : Int)
    op (slice ds (Gen.craftBatchLo s (bs : Int)) (Gen.craftBatchHi s (bs : Int)))

/-- the chunk lengths handed to the model -/
def chunkLens (bs len : Nat) : List Nat :=
  batchInference (fun (c : List Unit) => [c.length]) bs (List.replicate len ())

/-- `strides = int(self.patch_size * 0.80)` -/
def stride (p : Nat) : Nat := (Gen.craftStride (p : Int)).toNat

/-- number of windows of `torch.nn.functional.unfold` along one axis (`p ≤ dim`, `s > 0`) -/
def nWin (dim p s : Nat) : Nat := (dim - p) / s + 1

/-- `unfold(...).transpose(1, 2).view(-1, C, p, p)` of one `(C, H, W)` image (flat row-major):
    windows row-major, each patch `(C, p, p)` row-major -/
def patchesOf (c h w p : Nat) (img : List Rat) : List (List Rat) :=
  let s := stride p
  (List.range (nWin h p s)).flatMap fun wr => (List.range (nWin w p s)).map fun wc =>
    (List.range (c * p * p)).map fun k =>
      img.getD ((k / (p * p)) * h * w + (wr * s + (k % (p * p)) / p) * w + (wc * s + k % p)) 0

def extractPatches (c h w p : Nat) (imgs : List (List Rat)) : List (List Rat) :=
  imgs.flatMap (patchesOf c h w p)

/-- `torch.mean(activations, dim=(1, 2))` of one sample given as its list of location vectors -/
def pool (nc : Nat) (locs : List (List Rat)) : List Rat :=
  (List.range nc).map fun ch => sumQ (locs.map fun v => v.getD ch 0) / (locs.length : Rat)

/-- sklearn's NMF seen from CRAFT -/
structure Nmf where
  /-- `reducer.fit_transform(A)` and `reducer.components_` -/
  fitTransform : List (List Rat) → List (List Rat) × List (List Rat)
  /-- `reducer.transform` on one row (row-wise action is a hypothesis, re-validated by the harness) -/
  row : List Rat → List Rat

/-- `fit` with 2-D activations: crops, `U`, `W` -/
def fit2 (nmf : Nmf) (act : List Rat → List Rat) (bs c h w p : Nat) (imgs : List (List Rat)) :
    List (List Rat) × List (List Rat) × List (List Rat) :=
  let crops := extractPatches c h w p imgs
  let acts := batchInference (fun b => b.map act) bs crops
  let (u, wbank) := nmf.fitTransform acts
  (crops, u, wbank)

/-- `fit` with 4-D activations `(N, H', W', C')`: average pooling before the factorisation -/
def fit4 (nmf : Nmf) (act : List Rat → List (List Rat)) (nc bs c h w p : Nat) (imgs : List (List Rat)) :
    List (List Rat) × List (List Rat) × List (List Rat) :=
  let crops := extractPatches c h w p imgs
  let acts := (batchInference (fun b => b.map act) bs crops).map (pool nc)
  let (u, wbank) := nmf.fitTransform acts
  (crops, u, wbank)

/-- `transform`, 2-D activations -/
def transform2 (nmf : Nmf) (act : List Rat → List Rat) (bs : Nat) (inputs : List (List Rat)) :
    List (List Rat) :=
  (batchInference (fun b => b.map act) bs inputs).map nmf.row

/-- `transform`, 4-D activations: `reshape(-1, C)`, `reducer.transform`, `reshape(N, H', W', R)`;
    `hw` is the number of locations per sample -/
def transform4 (nmf : Nmf) (act : List Rat → List (List Rat)) (bs hw : Nat) (inputs : List (List Rat)) :
    List (List (List Rat)) :=
  let acts := batchInference (fun b => b.map act) bs inputs
  regroup hw (acts.flatten.map nmf.row)

/-- `u @ W` for one coefficient row -/
def vecMat (u : List Rat) (wbank : List (List Rat)) : List Rat :=
  (List.zipWith (fun x row => vscale x row) u wbank).foldl vadd (vzero (wbank.headD []).length)

/-- `(coeff * mask) @ W` -/
def recon (wbank : List (List Rat)) (u m : List Rat) : List Rat :=
  vecMat (List.zipWith (· * ·) u m) wbank

/-- sum of possibly undefined numbers (NaN propagates) -/
def sumO : List (Option Rat) → Option Rat
  | [] => some 0
  | x :: xs => do
    let v ← x
    let s ← sumO xs
    pure (v + s)

/-- mean over the inputs of the per-input indices (`np.mean(importances, 0)`); NaN propagates -/
def colMeanO (r : Nat) (rows : List (List (Option Rat))) : List (Option Rat) :=
  (List.range r).map fun j =>
    if rows = [] then none else
    (sumO (rows.map fun row => row.getD j none)).map fun s => s / (rows.length : Rat)

/-- `estimate_importance`, 2-D coefficients: for every input the class logits of the masked
    reconstructions (computed by `_batch_inference`) go through the Jansen estimator -/
def importance2 (logit : List Rat → Rat) (bs n r : Nat) (wbank masks : List (List Rat))
    (coeffs : List (List Rat)) : List (Option Rat) :=
  colMeanO r (coeffs.map fun u =>
    estimate .jansen (batchInference (fun b => b.map logit) bs (masks.map (recon wbank u))) n r)

/-- `estimate_importance`, 4-D coefficients `(H', W', R)` per input: the mask of a concept is
    applied at every location -/
def importance4 (logit : List (List Rat) → Rat) (bs n r : Nat) (wbank masks : List (List Rat))
    (coeffs : List (List (List Rat))) : List (Option Rat) :=
  colMeanO r (coeffs.map fun locs =>
    estimate .jansen (batchInference (fun b => b.map logit) bs
      (masks.map fun m => locs.map fun u => recon wbank u m)) n r)

/-! ### reference -/

/-- total Sobol (Jansen) indices of `score ∘ mask` on the replicated design `masks` -/
def sobolOfMasked (score : List Rat → Rat) (n r : Nat) (masks : List (List Rat)) : List (Option Rat) :=
  estimate .jansen (masks.map score) n r

def importanceSpec2 (logit : List Rat → Rat) (n r : Nat) (wbank masks coeffs : List (List Rat)) :
    List (Option Rat) :=
  colMeanO r (coeffs.map fun u => sobolOfMasked (fun m => logit (recon wbank u m)) n r masks)

def importanceSpec4 (logit : List (List Rat) → Rat) (n r : Nat) (wbank masks : List (List Rat))
    (coeffs : List (List (List Rat))) : List (Option Rat) :=
  colMeanO r (coeffs.map fun locs =>
    sobolOfMasked (fun m => logit (locs.map fun u => recon wbank u m)) n r masks)

end Xp.Craft
