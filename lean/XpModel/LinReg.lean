/-
  Weighted (ridge) least squares with an unpenalised intercept, as the documented objective of
  sklearn `Ridge(alpha).fit(Z, y, sample_weight=w)` / `LinearRegression().fit(...)` (alpha = 0):
      minimise  Σ_s w_s (y_s − ⟪β, z_s⟫ − c)² + alpha ‖β‖²
  solved exactly: normal equations + Gaussian elimination over `Rat`, the solution is CHECKED
  against the equations before it is returned.
-/
import XpModel.Basic
namespace Xp.LinReg

/-- entry `j` of the augmented design row `(z | 1)` of width `F + 1` -/
def aug (F : Nat) (z : List Rat) (j : Nat) : Rat := if j < F then z.getD j 0 else 1

/-- `(Z|1)ᵀ W (Z|1) + alpha · diag(1,…,1,0)` -/
def normalMatrix (alpha : Rat) (F : Nat) (Z : List (List Rat)) (w : List Rat) : List (List Rat) :=
  (List.range (F + 1)).map fun j => (List.range (F + 1)).map fun k =>
    sumQ ((List.range Z.length).map fun s =>
      w.getD s 0 * aug F (Z.getD s []) j * aug F (Z.getD s []) k)
    + (if j = k ∧ j < F then alpha else 0)

/-- `(Z|1)ᵀ W y` -/
def normalRhs (F : Nat) (Z : List (List Rat)) (w y : List Rat) : List Rat :=
  (List.range (F + 1)).map fun j =>
    sumQ ((List.range Z.length).map fun s => w.getD s 0 * aug F (Z.getD s []) j * y.getD s 0)

def matVec (A : List (List Rat)) (v : List Rat) : List Rat := A.map fun r => dot r v

/-- Gaussian elimination on augmented rows `[a_1 … a_n | b]`, `n` unknowns; `none` = no pivot
    (singular system) -/
def solveAug : Nat → List (List Rat) → Option (List Rat)
  | 0, _ => some []
  | n + 1, rows =>
    let (nz, z) := rows.partition fun r => r.headD 0 != 0
    match nz with
    | [] => none
    | p :: others =>
      let p0 := p.headD 0
      let pt := p.tail.map (· / p0)
      let elim := (others ++ z).map fun r => List.zipWith (fun a b => a - r.headD 0 * b) r.tail pt
      match solveAug n elim with
      | none => none
      | some xs => some ((pt.getD n 0 - dot (pt.take n) xs) :: xs)

/-- solve `A v = b` (square); the candidate is returned only if it satisfies the equations -/
def solveChecked (A : List (List Rat)) (b : List Rat) : Option (List Rat) :=
  match solveAug b.length (List.zipWith (fun r bi => r ++ [bi]) A b) with
  | none => none
  | some v => if matVec A v = b then some v else none

/-- weighted ridge fit: `some (β_0 … β_{F−1}, c)` or `none` when the normal matrix is singular -/
def wlsFit (alpha : Rat) (F : Nat) (Z : List (List Rat)) (y w : List Rat) : Option (List Rat) :=
  solveChecked (normalMatrix alpha F Z w) (normalRhs F Z w y)

/-- the objective (for reporting / tests) -/
def loss (alpha : Rat) (F : Nat) (Z : List (List Rat)) (y w : List Rat) (bc : List Rat) : Rat :=
  sumQ ((List.range Z.length).map fun s =>
    let r := y.getD s 0 - sumQ ((List.range (F + 1)).map fun j => bc.getD j 0 * aug F (Z.getD s []) j)
    w.getD s 0 * (r * r))
  + alpha * sumQ ((List.range F).map fun j => bc.getD j 0 * bc.getD j 0)

end Xp.LinReg
