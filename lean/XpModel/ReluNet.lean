/-
  Executable model of xplique/commons/model_override.py (guided_relu_policy, deconv_relu_policy,
  open_relu_policy, has_relu_activation, is_relu, override_relu_gradient) and of
  DeconvNet.explain / GuidedBackprop.explain (attributions/deconvnet.py, guided_backpropagation.py)
  on a layer-list network.

  A network is a list of layers acting on flat vectors:
    dense W b act      any affine layer (Dense, or a convolution given by its matrix) with a fused activation
    activation act     tf.keras.layers.Activation(act) / any element-wise layer
    reluLayer m t s    tf.keras.layers.ReLU(max_value = m, threshold = t, negative_slope = s)
    policyLayer r m t s  a ReLU layer whose `call` was replaced by `relu_policy(m, t, s)` (output of the override)
  `forward` is the Keras forward pass, `backward` the vector-Jacobian product that TensorFlow's
  autodiff delivers (true derivative for ordinary units, the `tf.custom_gradient` rule for policy units).
-/
import XpModel.Basic
namespace Xp.Net

abbrev Vec := List Rat
abbrev Mat := List (List Rat)

/-- the three policies of model_override.py -/
inductive Rule where
  | deconv | guided | openRelu
  deriving DecidableEq, Repr

/-- Keras `ReLU(max_value, negative_slope, threshold)` on a scalar (keras/src/activations `ReLU.static_call`):
    `x·[x > threshold]` (STRICT), clipped to `[0, max_value]` when `max_value` is given, minus
    `negative_slope · relu(threshold − x)`. -/
def kerasRelu (maxv : Option Rat) (thr slope z : Rat) : Rat :=
  let p := if thr < z then z else 0
  let c := match maxv with
    | none => p
    | some m => ratMin (ratMax p 0) m
  c - slope * relu (thr - z)

/-- derivative of `kerasRelu` as delivered by TensorFlow (observed: 0 at `z = thr`, 1 at `z = max_value`
    except `max_value = 6` which runs the relu6 kernel (0 at `z = 6`; the harness never compares that tie);
    the leaky branch is `tf.nn.leaky_relu` when neither max_value nor threshold is set).  Only used for the
    un-overridden network (rule-free baseline); no theorem about overridden networks depends on it. -/
def kerasReluGrad (maxv : Option Rat) (thr slope z : Rat) : Rat :=
  let pos : Rat := if thr < z then (match maxv with | none => 1 | some m => if z ≤ m then 1 else 0) else 0
  let neg : Rat :=
    if slope = 0 then 0
    else if maxv = none ∧ thr = 0 then (if 0 < z then 0 else slope)
    else (if z < thr then slope else 0)
  pos + neg

/-- activation functions attached to a layer -/
inductive Act where
  | linear
  | relu                        -- `tf.nn.relu` / `tf.keras.activations.relu`: what `has_relu_activation` detects
  | policy (r : Rule)           -- `relu_policy()` with default arguments, installed by the override
  | other (f f' : Rat → Rat)    -- any other activation with its derivative (relu6, leaky relu, ...)

inductive Layer where
  | dense (W : Mat) (b : Vec) (a : Act)
  | activation (a : Act)
  | reluLayer (maxv : Option Rat) (thr slope : Rat)
  | policyLayer (r : Rule) (maxv : Option Rat) (thr slope : Rat)

/-- the `grad_func` of the three policies: `tf.nn.relu(grads)`, `tf.nn.relu(grads) * cast(inputs > 0)`, `grads` -/
def ruleVJP : Rule → Rat → Rat → Rat
  | .deconv, _, g => relu g
  | .guided, z, g => relu g * (if 0 < z then 1 else 0)
  | .openRelu, _, g => g

def actFwd : Act → Rat → Rat
  | .linear, z => z
  | .relu, z => kerasRelu none 0 0 z
  | .policy _, z => kerasRelu none 0 0 z
  | .other f _, z => f z

def actVJP : Act → Rat → Rat → Rat
  | .linear, _, g => g
  | .relu, z, g => kerasReluGrad none 0 0 z * g
  | .policy r, z, g => ruleVJP r z g
  | .other _ f', z, g => f' z * g

/-- column `j` of a kernel stored as in Keras: `W : in × out` -/
def col (W : Mat) (j : Nat) : Vec := W.map (·.getD j 0)

/-- `x @ W + b` -/
def affine (W : Mat) (b : Vec) (x : Vec) : Vec :=
  (List.range b.length).map fun j => dot x (col W j) + b.getD j 0

def layerFwd : Layer → Vec → Vec
  | .dense W b a, x => (affine W b x).map (actFwd a)
  | .activation a, x => x.map (actFwd a)
  | .reluLayer maxv thr s, x => x.map (kerasRelu maxv thr s)
  | .policyLayer _ maxv thr s, x => x.map (kerasRelu maxv thr s)

def forward (net : List Layer) (x : Vec) : Vec := net.foldl (fun h l => layerFwd l h) x

/-- vector-Jacobian product of one layer at input `x` for the incoming gradient `g` -/
def layerVJP : Layer → Vec → Vec → Vec
  | .dense W b a, x, g =>
      let gz := List.zipWith (fun z gg => actVJP a z gg) (affine W b x) g
      W.map fun row => dot row gz
  | .activation a, x, g => List.zipWith (fun z gg => actVJP a z gg) x g
  | .reluLayer maxv thr s, x, g => List.zipWith (fun z gg => kerasReluGrad maxv thr s z * gg) x g
  | .policyLayer r _ _ _, x, g => List.zipWith (fun z gg => ruleVJP r z gg) x g

/-- reverse-mode pass: gradient of `Σ_c up_c · forward(net, x)_c` w.r.t. `x` -/
def backward : List Layer → Vec → Vec → Vec
  | [], _, up => up
  | l :: ls, x, up => layerVJP l x (backward ls (layerFwd l x) up)

/-- `has_relu_activation(layer)` -/
def hasReluActivation : Layer → Bool
  | .dense _ _ .relu => true
  | .activation .relu => true
  | _ => false

/-- `is_relu(layer)`: `isinstance(layer, tf.keras.layers.ReLU)` -/
def isRelu : Layer → Bool
  | .reluLayer _ _ _ => true
  | _ => false

/-- one iteration of the loop of `override_relu_gradient`:
    `if has_relu_activation(layer): layer.activation = relu_policy()`
    `elif is_relu(layer): layer.call = relu_policy(layer.max_value, layer.threshold, layer.negative_slope)` -/
def overrideLayer (r : Rule) : Layer → Layer
  | .dense W b .relu => .dense W b (.policy r)
  | .activation .relu => .activation (.policy r)
  | .reluLayer maxv thr s => .policyLayer r maxv thr s
  | l => l

/-- `override_relu_gradient(model, relu_policy)`: a NEW list (the clone), the argument is not touched -/
def overrideRelu (r : Rule) (net : List Layer) : List Layer := net.map (overrideLayer r)

/-- `DeconvNet.explain` / `GuidedBackprop.explain` for tabular inputs and real-valued targets:
    `batch_gradient(overridden model, inputs, targets, batch_size)` with the default operator
    `Σ_c f(x)_c · y_c` (so the upstream gradient is `y`). -/
def explain (r : Rule) (bs : Option Nat) (net : List Layer) (xys : List (Vec × Vec)) : List Vec :=
  batched (fun chunk => chunk.map fun (x, y) => backward (overrideRelu r net) x y) bs xys

/-! ### Reference definition (Spec): the published rules, stated on the ORIGINAL network -/

/-- published local rules at a ReLU unit with pre-activation `z` for the incoming gradient `g`:
    DeconvNet keeps positive incoming gradients; GuidedBackprop keeps positive incoming gradients at
    positive activations -/
def published : Rule → Rat → Rat → Rat
  | .deconv, _, g => ratMax g 0
  | .guided, z, g => if 0 < z ∧ 0 < g then g else 0
  | .openRelu, _, g => g

/-- inputs of the successive layers in the ORIGINAL network: `[x, l₀ x, l₁ (l₀ x), …]` -/
def layerInputs : List Layer → Vec → List Vec
  | [], _ => []
  | l :: ls, x => x :: layerInputs ls (layerFwd l x)

/-- one backward step of the published procedure: ReLU units (fused, `Activation('relu')`, ReLU layers)
    use the published rule, everything else its true derivative.  For ReLU layers with `max_value` /
    `threshold` / `negative_slope` the property text fixes only the forward pass; the reference takes the
    same local rule on the layer's input (gate `z > 0`). -/
def specLayerVJP (r : Rule) : Layer → Vec → Vec → Vec
  | .dense W b .relu, x, g =>
      let gz := List.zipWith (published r) (affine W b x) g
      W.map fun row => dot row gz
  | .activation .relu, x, g => List.zipWith (published r) x g
  | .reluLayer _ _ _, x, g => List.zipWith (published r) x g
  | l, x, g => layerVJP l x g

def specBackward (r : Rule) (net : List Layer) (x up : Vec) : Vec :=
  (List.zip net (layerInputs net x)).foldr (fun (l, xin) g => specLayerVJP r l xin g) up

end Xp.Net
