/-
  Executable model of
    xplique/attributions/saliency.py            (Saliency.explain)
    xplique/attributions/gradient_input.py      (GradientInput.explain)
    xplique/attributions/gradient_statistics/*  (GradientStatistic.explain, _perturb_samples,
                                                 SmoothGrad / SquareGrad / VarGrad online statistics)
  The scalar batch arithmetic comes from the GENERATED file Gen/Arith.lean.

  Parameters of the model (not modelled): the gradient operator `op` (TensorFlow autodiff of the
  explained score) and the noisy points: input `i` comes with `pt : Nat → Vec`, `pt k` being its
  k-th noisy copy in drawing order (`x + noise_k`, observed by the harness).
-/
import XpModel.Basic
import XpModel.Reducer
import XpModel.Gen.Arith
namespace Xp.GS

/-! ### Saliency and GradientInput -/

/-- `Saliency.explain`: `tf.abs(batch_gradient(model, inputs, targets, batch_size))` -/
def saliencyImpl (op : GradOp) (bs : Option Nat) (xs ys : List Vec) : List Vec :=
  (batched op bs (xs.zip ys)).map fun gr => gr.map ratAbs

/-- `GradientInput.explain`: `tf.multiply(gradients, inputs)` -/
def gradInputImpl (op : GradOp) (bs : Option Nat) (xs ys : List Vec) : List Vec :=
  List.zipWith vmul (batched op bs (xs.zip ys)) xs

def saliencySpec (g : Vec → Vec → Vec) (xs ys : List Vec) : List Vec :=
  List.zipWith (fun x y => (g x y).map ratAbs) xs ys

def gradInputSpec (g : Vec → Vec → Vec) (xs ys : List Vec) : List Vec :=
  List.zipWith (fun x y => List.zipWith (fun gi xi => xi * gi) (g x y) x) xs ys

/-! ### SmoothGrad / SquareGrad / VarGrad -/

inductive Kind where
  | smooth | square | var
  deriving DecidableEq, Repr

/-- one input of `GradientStatistic.explain`: its noisy copies in drawing order, and its target -/
structure Item where
  pt : Nat → Vec
  y : Vec

/-- the `while total_perturbed_samples < nb_samples` loop: list of (offset, chunk size), with the
    generated chunk expression.  `fuel = nb` iterations suffice when every chunk is ≥ 1. -/
def chunksAux (pbs nb : Nat) : Nat → Nat → List (Nat × Nat)
  | 0, _ => []
  | fuel + 1, tot =>
    if tot < nb then
      let c := (Gen.gsChunk (pbs : Int) (nb : Int) (tot : Int)).toNat
      (tot, c) :: chunksAux pbs nb fuel (tot + c)
    else []

def chunks (pbs nb : Nat) : List (Nat × Nat) := chunksAux pbs nb nb 0

/-- `tf.reduce_sum(elements, axis=1)` for one input: column sums of its group of gradients -/
def colSum (D : Nat) (vs : List Vec) : Vec :=
  (List.range D).map fun d => sumQ (vs.map fun v => v.getD d 0)

/-- `tf.reduce_sum(elements**2, axis=1)` for one input -/
def colSqSum (D : Nat) (vs : List Vec) : Vec :=
  (List.range D).map fun d => sumQ (vs.map fun v => v.getD d 0 * v.getD d 0)

/-- online statistic of one input batch: `_elements_counter`, `_actual_sum`, `_actual_square_sum`
    (one row per input of the batch).  SmoothGrad keeps only the sum, SquareGrad only the square
    sum, VarGrad both; the unused field is simply not read by `final`. -/
structure St where
  cnt : Nat
  s : List Vec
  s2 : List Vec

/-- `_initialize_online_statistic` (the scalar `0` broadcasts to zeros on the first `+=`) -/
def St.init (n D : Nat) : St := ⟨0, List.replicate n (vzero D), List.replicate n (vzero D)⟩

/-- `_update_online_statistic(elements)` with `elements` of shape `(n_b, c, D)` -/
def St.update (D : Nat) (st : St) (c : Nat) (groups : List (List Vec)) : St :=
  ⟨st.cnt + c,
   List.zipWith vadd st.s (groups.map (colSum D)),
   List.zipWith vadd st.s2 (groups.map (colSqSum D))⟩

/-- `_get_online_statistic_final_value` for one input; `none` = division by zero / failed assertion -/
def finalRow (k : Kind) (cnt : Nat) (s s2 : Vec) : Vec :=
  match k with
  | .smooth => s.map fun a => a / (cnt : Rat)
  | .square => s2.map fun a => a / (cnt : Rat)
  | .var => List.zipWith (fun a b =>
      ((cnt : Rat) / ((cnt : Rat) - 1)) * (b / (cnt : Rat) - (a / (cnt : Rat)) * (a / (cnt : Rat)))) s s2

def St.final (k : Kind) (st : St) : Option (List Vec) :=
  if st.cnt = 0 then none                       -- `sum / 0`
  else if k = .var ∧ st.cnt < 2 then none       -- `assert self._elements_counter >= 2`
  else some (List.zipWith (finalRow k st.cnt) st.s st.s2)

/-- `_perturb_samples(x_batch, c, noise)`: `tf.repeat(axis=0)` (sample-major) plus noise — the
    copies `tot … tot+c-1` of every input of the batch, input after input -/
def pertPoints (batch : List Item) (tot c : Nat) : List Vec :=
  batch.flatMap fun it => (List.range c).map fun k => it.pt (tot + k)

/-- one iteration of the while loop on one input batch -/
def step (op : GradOp) (D bsz : Nat) (batch : List Item) (st : St) (tc : Nat × Nat) : St :=
  let pts := pertPoints batch tc.1 tc.2
  let reps := repeatEach tc.2 (batch.map (·.y))               -- repeat_labels(y_batch, c)
  let grads := batched op (some bsz) (pts.zip reps)            -- batch_gradient(…, batch_size)
  let groups := regroup tc.2 grads                             -- reshape (n_b, c, …)
  st.update D tc.2 groups

/-- one input batch: reset, loop over perturbation chunks, final value -/
def batchRun (op : GradOp) (k : Kind) (D bsz pbs nb : Nat) (batch : List Item) : Option (List Vec) :=
  ((chunks pbs nb).foldl (step op D bsz batch) (St.init batch.length D)).final k

/-- effective batch size `self.batch_size or (len(inputs) * self.nb_samples)` -/
def effBs (bs : Option Nat) (n nb : Nat) : Int :=
  match bs with
  | some b => (b : Int)
  | none => Gen.gsDefaultBs (n : Int) (nb : Int)

def pbsOf (bs : Option Nat) (n nb : Nat) : Nat := (Gen.gsPbs (effBs bs n nb) (nb : Int)).toNat
def ibsOf (bs : Option Nat) (n nb : Nat) : Nat := (Gen.gsIbs (effBs bs n nb) (pbsOf bs n nb : Int)).toNat

/-- `GradientStatistic.explain` (before the channel reducer) -/
def gsImpl (op : GradOp) (k : Kind) (D : Nat) (bs : Option Nat) (nb : Nat) (items : List Item) :
    Option (List Vec) :=
  let bsz := (effBs bs items.length nb).toNat
  let pbs := pbsOf bs items.length nb
  let ibs := ibsOf bs items.length nb
  (allSome ((batches ibs items).map (batchRun op k D bsz pbs nb))).map List.flatten

/-- shapes `(n_b, c)` of the successive `_perturb_samples` calls -/
def callShapes (bs : Option Nat) (nb n : Nat) : List (Nat × Nat) :=
  let pbs := pbsOf bs n nb
  let ibs := ibsOf bs n nb
  (batches ibs (List.range n)).flatMap fun b => (chunks pbs nb).map fun tc => (b.length, tc.2)

/-! ### Spec: the statistics of the property text, per input and per coordinate -/

def specOne (g : Vec → Vec → Vec) (k : Kind) (D nb : Nat) (it : Item) : Vec :=
  let G := (List.range nb).map fun j => g (it.pt j) it.y        -- the gradients at the nb noisy copies
  (List.range D).map fun d =>
    let col := G.map fun v => v.getD d 0                         -- their d-th coordinates
    match k with
    | .smooth => meanQ col
    | .square => meanQ (col.map fun a => a * a)
    | .var => sumQ (col.map fun a => (a - meanQ col) * (a - meanQ col)) / ((nb : Rat) - 1)

def gsSpec (g : Vec → Vec → Vec) (k : Kind) (D nb : Nat) (items : List Item) : List Vec :=
  items.map (specOne g k D nb)

end Xp.GS
