/-
  Executable model of the prototype searches
    xplique/example_based/search_methods/proto_greedy_search.py  (ProtoGreedySearch)
    xplique/example_based/search_methods/mmd_critic_search.py    (MMDCriticSearch)
    xplique/example_based/search_methods/proto_dash_search.py    (ProtoDashSearch)
  and of the index translation of xplique/example_based/prototypes.py (format_search_output).

  The kernel is a parameter `K i j = kernel_fn(x_i, x_j)` on dataset row numbers (`exp` never
  appears here: rbf values are supplied).  The dataset is a list of batches of row numbers
  (`batches b (range n)` for the real thing).  `tf.linalg.inv` is a parameter `inv`.

  Impl side: `triangular` (the literal lower-triangular batch traversal of
  `__set_kernel_matrix_column_means_and_diagonal`), padded `(n_batches, batch_size)` tables,
  the greedy loop of `find_global_prototypes` with `mask_of_selected`, per-batch `tf.argmax`
  (first maximiser) and the strict `>` across batches, the three `_compute_batch_objectives`,
  `_update_selection_weights`, the final weight normalisation.
  Spec side: column means / objectives from the full kernel matrix, `greedySpec`.
-/
import XpModel.Basic
import XpModel.Gen.Arith
namespace Xp.ProtoSel

abbrev Kern := Nat → Nat → Rat

/-! ### 1. kernel column means and diagonal: the triangular traversal (Impl) -/

/-- `tf.reduce_sum(batch_kernel, axis=0)` for `batch_kernel = kernel_fn(rows, cols)` : one value per column case -/
def colSumBlock (K : Kern) (rows cols : List Nat) : List Rat :=
  cols.map fun j => sumQ (rows.map fun i => K i j)

/-- `tf.reduce_sum(batch_kernel, axis=1)` : one value per row case -/
def rowSumBlock (K : Kern) (rows cols : List Nat) : List Rat :=
  rows.map fun i => sumQ (cols.map fun j => K i j)

/-- `tf.linalg.diag_part(batch_kernel)` -/
def diagBlock (K : Kern) (rows cols : List Nat) : List Rat := List.zipWith K rows cols

/-- state of the inner loop over row batches -/
structure Inner where
  cs : List Rat               -- batch_col_sums
  rs : List (List Rat)        -- row_sums (python list, one entry per batch; entry 0 is a placeholder)
  dg : List (List Rat)        -- diag
deriving Repr

/-- one iteration of `for batch_row_index, batch_row_cases in enumerate(self.cases_dataset)` -/
def innerStep (K : Kern) (ci : Nat) (colB : List Nat) (st : Inner) (x : List Nat × Nat) : Inner :=
  let rowB := x.1
  let ri := x.2
  if ci > ri then st                                      -- batches above the diagonal: `continue`
  else
    let cs1 := vadd st.cs (colSumBlock K rowB colB)
    if ci = ri then
      { cs := vadd cs1 (st.rs.getD ri []), rs := st.rs, dg := st.dg ++ [diagBlock K rowB colB] }
    else
      let cur := rowSumBlock K rowB colB
      { cs := cs1,
        rs := if ci = 0 then st.rs ++ [cur] else st.rs.set ri (vadd (st.rs.getD ri []) cur),
        dg := st.dg }

structure Outer where
  colSums : List (List Rat)
  diag : List (List Rat)
  rs : List (List Rat)
  nb : Nat                    -- nb_samples
deriving Repr

/-- one iteration of `for batch_col_index, batch_col_cases in enumerate(self.cases_dataset)` -/
def outerStep (K : Kern) (bt : List (List Nat)) (st : Outer) (x : List Nat × Nat) : Outer :=
  let colB := x.1
  let ci := x.2
  let r := bt.zipIdx.foldl (innerStep K ci colB) { cs := vzero colB.length, rs := st.rs, dg := st.diag }
  { colSums := st.colSums ++ [r.cs], diag := r.dg, rs := r.rs, nb := st.nb + colB.length }

/-- `row_sums = [0]`: the scalar placeholder of the first batch, modelled as a zero vector of
    the first batch's length (it is only ever added to that batch's column sums). -/
def triangular (K : Kern) (bt : List (List Nat)) : Outer :=
  bt.zipIdx.foldl (outerStep K bt)
    { colSums := [], diag := [], rs := [vzero (bt.headD []).length], nb := 0 }

/-- `tf.pad(v, [[0, batch_size - len(v)]])` -/
def padTo (b : Nat) (v : List Rat) : List Rat := v ++ List.replicate (b - v.length) 0

/-- only the last batch is padded (`col_sums[-1] = tf.pad(col_sums[-1], …)`) -/
def padLast (b : Nat) (t : List (List Rat)) : List (List Rat) :=
  match t.getLast? with
  | none => []
  | some l => t.dropLast ++ [padTo b l]

/-- `self.kernel_col_means`: `tf.stack(col_sums) / nb_samples`, shape `(n_batches, batch_size)` -/
def colMeansTable (K : Kern) (b : Nat) (bt : List (List Nat)) : List (List Rat) :=
  let o := triangular K bt
  (padLast b o.colSums).map fun row => row.map fun v => v / (o.nb : Rat)

/-- `self.kernel_diag`, shape `(n_batches, batch_size)` -/
def diagTable (K : Kern) (b : Nat) (bt : List (List Nat)) : List (List Rat) :=
  padLast b (triangular K bt).diag

/-! ### 2. arg-max primitives -/

variable {α : Type}

/-- keep the incumbent unless the newcomer is STRICTLY better (`if batch_best > best`);
    `none` is the initial `-inf` -/
def pickBetter (f : α → Rat) (best : Option α) (x : α) : Option α :=
  match best with
  | none => some x
  | some b => if f b < f x then some x else some b

/-- a batch's winner `r` (`none`: the batch had no candidate, `continue`) meets the incumbent -/
def absorb (f : α → Rat) (best : Option α) (r : Option α) : Option α :=
  match r with
  | none => best
  | some x => pickBetter f best x

/-- `tf.argmax`: the FIRST element carrying the maximal value -/
def firstArgmax (f : α → Rat) (l : List α) : Option α := l.foldl (pickBetter f) none

/-! ### 3. the three `_compute_batch_objectives` and the weight update (Impl) -/

inductive Method where
  | mmd | greedy | dash
deriving DecidableEq, Repr

def matVec (m : List (List Rat)) (v : List Rat) : List Rat := m.map fun row => dot row v

/-- `wᵀ M w` (`tf.einsum("bs,bsp,bp->b", w, K, w)`) -/
def quadForm (m : List (List Rat)) (w : List Rat) : Rat := dot w (matVec m w)

/-- `M + eps * tf.eye(n)` -/
def addEps (eps : Rat) (m : List (List Rat)) : List (List Rat) :=
  m.zipIdx.map fun (row, i) => row.zipIdx.map fun (v, j) => if i = j then v + eps else v

/-- the `(|S|+1, |S|+1)` kernel matrix of `S ∪ {c}` assembled by the `tf.concat`s of
    ProtoGreedySearch._compute_batch_objectives -/
def extendKernel (ss : List (List Rat)) (candSel : List Rat) (dgc : Rat) : List (List Rat) :=
  List.zipWith (fun row v => row ++ [v]) (ss ++ [candSel]) (candSel ++ [dgc])

/-- optimal-weights objective shared by ProtoGreedy: `w = max((K + eps I)⁻¹ μ, 0)`,
    value `wᵀμ − ½ wᵀ K w` -/
def pgWeightsOf (inv : List (List Rat) → List (List Rat)) (eps : Rat) (km : List (List Rat))
    (mu : List Rat) : List Rat :=
  (matVec (inv (addEps eps km)) mu).map relu

def pgValue (km : List (List Rat)) (mu w : List Rat) : Rat :=
  dot w mu - (1/2 : Rat) * quadForm km w

/-- `_compute_batch_objectives` for ONE candidate.  `candSel = none` is the code's
    `candidates_selection_kernel is None` (nothing selected yet). -/
def batchObjective (meth : Method) (inv : List (List Rat) → List (List Rat)) (eps : Rat)
    (dgc cmc : Rat) (selMeans : List Rat) (candSel : Option (List Rat)) (ss : List (List Rat)) :
    Rat × Option (List Rat) :=
  match meth with
  | .mmd =>
    let sum1 := 2 * cmc
    match candSel with
    | none => (sum1 - dgc / 1, some (List.replicate 1 1))
    | some cs =>
      let ext := selMeans.length + 1
      (sum1 - (dgc + 2 * sumQ cs) / (ext : Rat), some (List.replicate ext 1))
  | .greedy =>
    let km := match candSel with
      | none => [[dgc]]
      | some cs => extendKernel ss cs dgc
    let mu := selMeans ++ [cmc]
    let w := pgWeightsOf inv eps km mu
    (pgValue km mu w, some w)
  | .dash =>
    match candSel with
    | none => (cmc, none)
    | some cs => (cmc - dot cs selMeans, none)

/-- `ProtoDashSearch._update_selection_weights` (non-exact branch); `means`, `ss` already contain
    the new prototype, `w` is the full `prototypes_weights` vector -/
def dashUpdate (inv : List (List Rat) → List (List Rat)) (eps : Rat) (w means : List Rat)
    (ss : List (List Rat)) (bestObj : Rat) : List Rat :=
  let s := means.length
  if bestObj ≤ 0 then w.set (s - 1) 0
  else (pgWeightsOf inv eps ss means) ++ w.drop s

/-! ### 4. the greedy loop of `find_global_prototypes` (Impl) -/

structure Cfg where
  K : Kern
  b : Nat                         -- batch size
  bt : List (List Nat)            -- the dataset: batches of row numbers
  cm : List (List Rat)            -- kernel_col_means (n_batches, b)
  dg : List (List Rat)            -- kernel_diag (n_batches, b)
  meth : Method
  inv : List (List Rat) → List (List Rat)
  eps : Rat

def get2 (t : List (List Rat)) (i j : Nat) : Rat := (t.getD i []).getD j 0
def getB (t : List (List Bool)) (i j : Nat) : Bool := (t.getD i []).getD j false
def set2 (t : List (List Bool)) (i j : Nat) : List (List Bool) := t.set i ((t.getD i []).set j true)

/-- variables living across selection steps -/
structure Sel where
  mask : List (List Bool)         -- mask_of_selected (n_batches, b)
  idx : List (Nat × Nat)          -- prototypes_indices rows (batch, position)
  cases : List Nat                -- dataset rows of self.prototypes
  means : List Rat                -- selection_kernel_col_means[:s]
  ss : List (List Rat)            -- selection_selection_kernel[:s, :s]
  w : List Rat                    -- prototypes_weights
  objs : List Rat                 -- best_objective of each step (observability only)
deriving Repr

structure Cand where
  obj : Rat
  bi : Nat
  p : Nat
  w : Option (List Rat)
deriving Repr

/-- positions `p` of `tf.range(batch_size)[candidates_batch_mask]` -/
def candPositions (mask : List (List Bool)) (b bi len : Nat) : List Nat :=
  (List.range b).filter fun p => !(getB mask bi p) && decide (p < len)

/-- evaluation of one candidate position of batch `bi` -/
def evalCand (c : Cfg) (st : Sel) (bi : Nat) (cases : List Nat) (p : Nat) : Cand :=
  let x := cases.getD p 0
  let candSel := if st.cases.length > 0 then some (st.cases.map fun q => c.K x q) else none
  let r := batchObjective c.meth c.inv c.eps (get2 c.dg bi p) (get2 c.cm bi p) st.means candSel st.ss
  { obj := r.1, bi := bi, p := p, w := r.2 }

/-- best candidate of one batch, `none` = "no candidates in the batch, skipping" -/
def batchBest (c : Cfg) (st : Sel) (bi : Nat) (cases : List Nat) : Option Cand :=
  firstArgmax (·.obj) ((candPositions st.mask c.b bi cases.length).map (evalCand c st bi cases))

/-- `for batch_index, cases in enumerate(self.cases_dataset)` with `if batch_best > best` -/
def stepBest (c : Cfg) (st : Sel) : Option Cand :=
  c.bt.zipIdx.foldl (fun best x => absorb (·.obj) best (batchBest c st x.2 x.1)) none

/-- "update the selected prototypes" -/
def update (c : Cfg) (st : Sel) (cd : Cand) : Sel :=
  let s := st.cases.length
  let x := (c.bt.getD cd.bi []).getD cd.p 0
  let dgx := get2 c.dg cd.bi cd.p
  let newSel := st.cases.map fun q => c.K x q           -- samples_selection_kernel[best, :s]
  let ss' := (List.zipWith (fun row v => row ++ [v]) st.ss newSel) ++ [newSel ++ [dgx]]
  let means' := st.means ++ [get2 c.cm cd.bi cd.p]
  let w' := match c.meth with
    | .dash => dashUpdate c.inv c.eps st.w means' ss' cd.obj
    | _ => match cd.w with
      | some bw => bw ++ st.w.drop (s + 1)
      | none => st.w
  { mask := set2 st.mask cd.bi cd.p, idx := st.idx ++ [(cd.bi, cd.p)], cases := st.cases ++ [x],
    means := means', ss := ss', w := w', objs := st.objs ++ [cd.obj] }

/-- one pass of `for nb_selected in range(nb_prototypes)`.  (With no candidate left the code would
    re-use stale variables and fail its final assertion; `nb_prototypes ≤ N` is required.) -/
def step (c : Cfg) (st : Sel) : Sel :=
  match stepBest c st with
  | none => st
  | some cd => update c st cd

def initSel (c : Cfg) (m : Nat) : Sel :=
  { mask := List.replicate c.bt.length (List.replicate c.b false), idx := [], cases := [],
    means := [], ss := [], w := List.replicate m 0, objs := [] }

def runFrom (c : Cfg) (st : Sel) : Nat → Sel
  | 0 => st
  | k + 1 => step c (runFrom c st k)

def run (c : Cfg) (m : Nat) : Sel := runFrom c (initSel c m) m

/-- `prototypes_weights / tf.reduce_sum(prototypes_weights)`; `none` = 0/0 -/
def normalize (w : List Rat) : Option (List Rat) :=
  let s := sumQ w
  if s = 0 then none else some (w.map fun v => v / s)

/-- the configuration of the real search: batches of `b` consecutive rows, tables from the traversal -/
def cfgOf (K : Kern) (n b : Nat) (meth : Method) (inv : List (List Rat) → List (List Rat)) (eps : Rat) : Cfg :=
  let bt := batches b (List.range n)
  { K := K, b := b, bt := bt, cm := colMeansTable K b bt, dg := diagTable K b bt,
    meth := meth, inv := inv, eps := eps }

/-! ### 5. reference definitions (Spec) -/

/-- mean kernel value of case `j` over the dataset `U` -/
def mu (K : Kern) (U : List Nat) (j : Nat) : Rat := sumQ (U.map fun i => K i j) / (U.length : Rat)

def subMat (K : Kern) (T : List Nat) : List (List Rat) := T.map fun i => T.map fun j => K i j

/-- MMD-critic: `2 μ_c − (K_cc + 2 Σ_{s∈S} K_sc) / (|S|+1)` -/
def mmdSpec (K : Kern) (U S : List Nat) (c : Nat) : Rat :=
  2 * mu K U c - (K c c + 2 * sumQ (S.map fun s => K s c)) / ((S.length : Rat) + 1)

/-- ProtoGreedy: `max_w wᵀμ − ½wᵀKw` on `S ∪ {c}` with `w = max((K + eps I)⁻¹μ, 0)` -/
def pgSpecWeights (inv : List (List Rat) → List (List Rat)) (eps : Rat) (K : Kern) (U T : List Nat) : List Rat :=
  pgWeightsOf inv eps (subMat K T) (T.map (mu K U))

def pgSpec (inv : List (List Rat) → List (List Rat)) (eps : Rat) (K : Kern) (U S : List Nat) (c : Nat) : Rat :=
  let T := S ++ [c]
  pgValue (subMat K T) (T.map (mu K U)) (pgSpecWeights inv eps K U T)

/-- ProtoDash as coded: `μ_c − Σ_{s∈S} K_cs μ_s` (first step: `μ_c`) -/
def dashSpec (K : Kern) (U S : List Nat) (c : Nat) : Rat :=
  mu K U c - sumQ (S.map fun s => K c s * mu K U s)

def objSpec (meth : Method) (inv : List (List Rat) → List (List Rat)) (eps : Rat) (K : Kern)
    (U S : List Nat) (c : Nat) : Rat :=
  match meth with
  | .mmd => mmdSpec K U S c
  | .greedy => pgSpec inv eps K U S c
  | .dash => dashSpec K U S c

/-- greedy selection: at each step the FIRST maximiser, in dataset order, of the objective over
    the cases not selected yet -/
def greedySpec (obj : List Nat → Nat → Rat) (U : List Nat) : Nat → List Nat
  | 0 => []
  | m + 1 =>
    let S := greedySpec obj U m
    match firstArgmax (obj S) (U.filter fun c => !(S.contains c)) with
    | none => S
    | some c => S ++ [c]

/-- `prototypes_weights` after the case `x` joins the selection `S` (batch-free reference):
    MMD-critic: all ones; ProtoGreedy: the optimal weights of `S ∪ {x}`; ProtoDash: as coded -/
def weightsStep (meth : Method) (inv : List (List Rat) → List (List Rat)) (eps : Rat) (K : Kern)
    (U S : List Nat) (x : Nat) (w : List Rat) : List Rat :=
  let T := S ++ [x]
  match meth with
  | .mmd => List.replicate T.length 1 ++ w.drop T.length
  | .greedy => pgSpecWeights inv eps K U T ++ w.drop T.length
  | .dash => dashUpdate inv eps w (T.map (mu K U)) (subMat K T) (dashSpec K U S x)

/-- one reference selection step on (selection, weights) -/
def specStep (meth : Method) (inv : List (List Rat) → List (List Rat)) (eps : Rat) (K : Kern)
    (U : List Nat) (st : List Nat × List Rat) : List Nat × List Rat :=
  match firstArgmax (objSpec meth inv eps K U st.1) (U.filter fun c => !(st.1.contains c)) with
  | none => st
  | some x => (st.1 ++ [x], weightsStep meth inv eps K U st.1 x st.2)

def specRunFrom (meth : Method) (inv : List (List Rat) → List (List Rat)) (eps : Rat) (K : Kern)
    (U : List Nat) (st : List Nat × List Rat) : Nat → List Nat × List Rat
  | 0 => st
  | k + 1 => specStep meth inv eps K U (specRunFrom meth inv eps K U st k)

/-- reference run: no batches, no tables, no mask -/
def specRun (meth : Method) (inv : List (List Rat) → List (List Rat)) (eps : Rat) (K : Kern)
    (U : List Nat) (m : Nat) : List Nat × List Rat :=
  specRunFrom meth inv eps K U ([], List.replicate m 0) m

/-! ### 6. local explanations: index translation of `Prototypes.format_search_output` -/

/-- the `(batch, position)` pair under which `KNN` (batch size `bs`) reports the `t`-th prototype -/
def knnPair (bs t : Nat) : Nat × Nat := (t / bs, t % bs)

/-- insertion of `(d, t)` into a list sorted by `d` (stable: after equal keys) -/
def insertBy (x : Rat × Nat) : List (Rat × Nat) → List (Rat × Nat)
  | [] => [x]
  | y :: ys => if x.1 < y.1 then x :: y :: ys else y :: insertBy x ys

/-- positions of the `k` nearest prototypes given the distances `dist[t]` (what `KNN` returns,
    up to the order of exactly equal distances) -/
def kNearest (dist : List Rat) (k : Nat) : List (Rat × Nat) :=
  ((dist.zipIdx).foldl (fun acc x => insertBy x acc) []).take k

/-- `format_search_output`: `flatten_indices = idx[:, :, 0] * batch_size + idx[:, :, 1]`, then
    `tf.gather(prototypes_indices / prototypes_labels, flatten_indices)` -/
def formatOutput (bs : Nat) (protoIdx : List (Nat × Nat)) (labels : List Rat)
    (knnOut : List (Nat × Nat)) : List ((Nat × Nat) × Rat) :=
  knnOut.map fun (bq, pq) =>
    let t := (Gen.flatIndex (bq : Int) (bs : Int) (pq : Int)).toNat
    (protoIdx.getD t (0, 0), labels.getD t 0)

def localExplain (bs k : Nat) (protoIdx : List (Nat × Nat)) (labels dist : List Rat) :
    List (Rat × (Nat × Nat) × Rat) :=
  let near := kNearest dist k
  List.zipWith (fun d r => (d.1, r)) near (formatOutput bs protoIdx labels (near.map fun d => knnPair bs d.2))

end Xp.ProtoSel
