/-
  JSON-lines driver of the executable model: one op per input line, one answer per line.
  Malformed input is answered with {"err": ...}; nothing is defaulted.
-/
import XpDriver.Proto
import XpDriver.C02
import XpDriver.C06
import XpDriver.C12
import XpDriver.C13
import XpDriver.C19
import XpDriver.C07
import XpDriver.C08
import XpDriver.C20
import XpDriver.C09
import XpDriver.C05
import XpDriver.C16
import XpDriver.C17
import XpDriver.C01
import XpDriver.C04
import XpDriver.C14
import XpDriver.C15
import XpDriver.C18
import XpDriver.C10
import XpDriver.C11
open Lean Xp Xp.Proto

def dispatch (op : String) (j : Json) : R Json :=
  match op with
  | "ping" => pure (Json.str "pong")
  | "op_resolve" => Ops.opResolve j
  | "find_layer" => Ops.findLayerOp j
  | "seg_score" => Ops.segScoreOp j
  | "drise" => Ops.driseOp j
  | "occl" => Ops.occl j
  | "explain_shape" => Ops.explainShapeOp j
  | "sanitize" => Ops.sanitizeOp j
  | "hist_occl" => Ops.histOccl j
  | "hist_lime" => Ops.histLime j
  | "hist_cache" => Ops.histCache j
  | "hist_override" => Ops.histOverride j
  | "hist_gs" => Ops.histGs j
  | "obj_run" => Ops.objRun j
  | "obj_compile" => Ops.objCompile j
  | "to_valid" => Ops.toValidOp j
  | "lime_data" => Ops.limeData j
  | "lime_rows" => Ops.limeRows j
  | "wls" => Ops.wls j
  | "kshap_probs" => Ops.kshapProbs j
  | "kshap_sample" => Ops.kshapSample j
  | "sobol_design" => Ops.sobolDesign j
  | "sobol_est" => Ops.sobolEst j
  | "sobol_glen" => Ops.sobolGlen j
  | "hsic" => Ops.hsic j
  | "gsa" => Ops.gsa j
  | "craft_patches" => Ops.craftPatches j
  | "craft_chunks" => Ops.craftChunks j
  | "craft_importance" => Ops.craftImportance j
  | "rise_up" => Ops.riseUp j
  | "rise_grid" => Ops.riseGrid j
  | "rise_spec" => Ops.riseSpec j
  | "align_gsa" => Ops.alignGsa j
  | "align_post" => Ops.alignPost j
  | "align_sobol" => Ops.alignSobol j
  | "align_lime" => Ops.alignLime j
  | "knn" => Ops.knn j
  | "gather" => Ops.gatherOp j
  | "cf" => Ops.cf j
  | "kleor" => Ops.kleor j
  | "c01" => Ops.c01 j
  | "c04" => Ops.c04 j
  | "causal" => Ops.causal j
  | "mufid" => Ops.mufid j
  | "spearman" => Ops.spearman j
  | "gridmask" => Ops.gridmask j
  | "stab" => Ops.stab j
  | "proto_run" => Ops.protoRun j
  | "proto_objs" => Ops.protoObjs j
  | "proto_local" => Ops.protoLocal j
  | "relunet" => Ops.relunet j
  | "gradcam" => Ops.gradcam j
  | "gradcam_layer" => Ops.gradcamLayer j
  | "tw_call" => Ops.twCall j
  | "bb_scores" => Ops.bbScores j
  | _ => throw "bad-op"

def step (line : String) : String :=
  match Json.parse line with
  | .error _ => "{\"err\":\"bad-json\"}"
  | .ok j =>
    match (do let op ← getStr j "op"; dispatch op j : R Json) with
    | .ok r => (Json.mkObj [("ok", r)]).compress
    | .error e => (Json.mkObj [("err", Json.str e)]).compress

partial def loop (hin : IO.FS.Stream) (hout : IO.FS.Stream) : IO Unit := do
  let line ← hin.getLine
  if line.isEmpty then return ()
  hout.putStrLn (step line)
  hout.flush
  loop hin hout

def main : IO Unit := do loop (← IO.getStdin) (← IO.getStdout)
