import XpDriver.Proto
import XpModel.Sobol
import XpModel.Hsic
import XpModel.Gsa
open Lean Xp Xp.Proto
namespace Xp.Ops

def optRatsJ (l : List (Option Rat)) : Json := Json.arr (l.map optRatJ).toArray

def rectangular (m : List (List Rat)) (cols : Nat) : Bool := m.all fun r => r.length == cols

/-- op "sobol_design": `np.concatenate([A, B, build_replicated_design(A, B)])` and the reference -/
def sobolDesign (j : Json) : R Json := do
  let a ← getRatMat j "A"
  let b ← getRatMat j "B"
  let d ← getNat j "d"
  if a.length != b.length then throw "bad-shape"
  if !(rectangular a d && rectangular b d) then throw "bad-shape"
  pure (Json.mkObj [("impl", ratMatJ (Sobol.design a b d)), ("spec", ratMatJ (Sobol.specDesign a b d))])

def kindOfStr (s : String) : R Sobol.Kind :=
  match s with
  | "jansen" => pure .jansen
  | "homma" => pure .homma
  | "janon" => pure .janon
  | "saltelli" => pure .saltelli
  | _ => throw "bad-op"

/-- reference value with its definedness guard (`none` when the published formula divides by 0) -/
def specGuarded (k : Sobol.Kind) (n : Nat) (ya yc : List Rat) : Option Rat :=
  if ya.length != n || yc.length != n || n < 2 then none else
  match k with
  | .jansen => if Sobol.varQ ya == 0 then none else some (Sobol.jansenSpec ya yc)
  | .homma => if Sobol.varQ ya == 0 then none else some (Sobol.hommaSpec ya yc)
  | .saltelli => if Sobol.varQ ya == 0 then none else some (Sobol.saltelliSpec ya yc)
  | .janon =>
    let nn : Rat := n
    let mu := (sumQ ya + sumQ yc) / (2 * nn)
    let m2 := (sumQ (ya.map Sobol.sq) + sumQ (yc.map Sobol.sq)) / (2 * (nn - 1))
    if m2 - Sobol.sq mu == 0 then none else some (Sobol.janonSpec ya yc)

/-- op "sobol_est": the estimator as coded (with the generated slice bounds) and the reference
    formula evaluated on the reference split -/
def sobolEst (j : Json) : R Json := do
  let k ← kindOfStr (← getStr j "kind")
  let ys ← getRats j "ys"
  let n ← getNat j "n"
  let d ← getNat j "d"
  if n == 0 then throw "bad-op"
  if ys.length != n * (d + 2) then throw "bad-shape"
  let impl := Sobol.estimate k ys n d
  let ya := ys.take n
  let spec := (List.range d).map fun i => specGuarded k n ya ((ys.drop (2 * n + i * n)).take n)
  pure (Json.mkObj [("impl", optRatsJ impl), ("spec", optRatsJ spec)])

/-- op "sobol_glen": without "roots" returns the radicands `var_a·var_c[i]`; with "roots" (the
    values of their square roots, computed by the harness) returns the estimator and the reference -/
def sobolGlen (j : Json) : R Json := do
  let ys ← getRats j "ys"
  let n ← getNat j "n"
  let d ← getNat j "d"
  if n == 0 then throw "bad-op"
  if ys.length != n * (d + 2) then throw "bad-shape"
  let (ya, _, ycs) := Sobol.splitABC ys n d
  match fldOpt j "roots" with
  | none => pure (Json.mkObj [("radicands", optRatsJ (ycs.map (Sobol.glenRadicand ya)))])
  | some r =>
    let roots ← listOf ratOfJson r
    if roots.length != d then throw "bad-shape"
    let impl := List.zipWith (fun root yc => Sobol.glenOne n root ya yc) roots ycs
    let ya' := ys.take n
    let spec := (List.range d).map fun i =>
      let root := roots.getD i 0
      if n < 2 || root == 0 then none else some (Sobol.glenSpec root ya' ((ys.drop (2 * n + i * n)).take n))
    pure (Json.mkObj [("impl", optRatsJ impl), ("spec", optRatsJ spec)])

/-- rbf profile given as a finite table `[[d, κ(d)], …]`; every difference that occurs must be present -/
def kappaOfTable (tbl : List (Rat × Rat)) (d : Rat) : Rat :=
  match tbl.find? (fun p => p.1 == d) with
  | some p => p.2
  | none => 0

def kernelOfJson (j : Json) (ms : List (List Rat)) : R Hsic.InKernel := do
  let k ← getStr j "kernel"
  match k with
  | "binary" => pure .binary
  | "sobolev" => pure .sobolev
  | "rbf" =>
    let tbl ← listOf (fun t => do
      let a ← t.getArr?
      match a.toList with
      | [d, v] => pure ((← ratOfJson d), (← ratOfJson v))
      | _ => throw "kappa entry must be [d, value]") (← fld j "kappa")
    -- all differences of values of one mask cell must be tabulated
    let ncell := (ms.headD []).length
    for p in List.range ncell do
      let col := ms.map fun r => r.getD p 0
      for x in col do
        for y in col do
          if !(tbl.any fun q => q.1 == x - y) then throw "kappa table incomplete"
    pure (.rbf (kappaOfTable tbl))
  | _ => throw "bad-op"

/-- op "hsic": `HsicEstimator.__call__` given the output Gram matrix `L` -/
def hsic (j : Json) : R Json := do
  let g ← getNat j "g"
  let n ← getNat j "n"
  let bsz ← getNat j "bsz"
  let ms ← getRatMat j "masks"
  let l ← getRatMat j "L"
  if n == 0 || g == 0 || bsz == 0 then throw "bad-op"
  if ms.length != n || !(rectangular ms (g * g)) then throw "bad-shape"
  if l.length != n || !(rectangular l n) then throw "bad-shape"
  let kern ← kernelOfJson j ms
  let impl := Hsic.hsicImpl kern g n bsz ms l
  let withSpec ← match fldOpt j "spec" with
    | some (Json.bool true) => pure true
    | _ => pure false
  let base := [("impl", ratsJ impl), ("raw", ratsJ (Hsic.rawScores kern g n bsz ms l))]
  if withSpec then
    pure (Json.mkObj (base ++ [("spec", ratsJ (Hsic.hsicSpec kern g n ms l))]))
  else pure (Json.mkObj base)

def perturbOfJson (j : Json) (nflat : Nat) : R Gsa.Perturb := do
  let k ← getStr j "perturbation"
  match k with
  | "inpainting" => pure .inpainting
  | "blurring" =>
    let x0 ← getRats j "x0"
    if x0.length != nflat then throw "bad-shape"
    pure (.blurring x0)
  | "amplitude" => pure (.amplitude (← getRat j "sigma"))
  | _ => throw "bad-op"

/-- op "gsa": queries and outputs of `GSABaseAttributionMethod.explain` for one input
    (polynomial score, target `y`), and the pre-resize Sobol map when "est" is given -/
def gsa (j : Json) : R Json := do
  let g ← getNat j "g"
  let h ← getNat j "h"
  let w ← getNat j "w"
  let c ← getNat j "c"
  let x ← getRats j "x"
  let y ← getRats j "y"
  let masks ← getRatMat j "masks"
  let ps ← getPolys j "polys"
  let bs ← getOptNat j "bs"
  if bs == some 0 || g == 0 || c == 0 then throw "bad-op"
  if x.length != h * w * c then throw "bad-shape"
  if !(rectangular masks (g * g)) then throw "bad-shape"
  let p ← perturbOfJson j x.length
  let score := fun z => polyScore ps z y
  let outs := Gsa.outputs bs score p g h w c x masks
  let specOuts := masks.map fun m => score (Gsa.perturb p c x (Gsa.upsample g h w m))
  let wantQ ← match fldOpt j "queries" with
    | some (Json.bool true) => pure true
    | _ => pure false
  let mut fields := [("outputs", ratsJ outs), ("spec_outputs", ratsJ specOuts)]
  if wantQ then
    fields := fields ++ [("queries", ratMatJ (masks.map (Gsa.query p g h w c x)))]
  match fldOpt j "est" with
  | none => pure (Json.mkObj fields)
  | some e =>
    let k ← kindOfStr (← e.getStr?)
    let n ← getNat j "n"
    if n == 0 then throw "bad-op"
    if masks.length != n * (g * g + 2) then throw "bad-shape"
    let est := fun (_ : List (List Rat)) (o : List Rat) => Sobol.estimate k o n (g * g)
    let impl := Gsa.explainOne est bs score p g h w c masks x
    let spec := Gsa.specOne est score p g h w c masks x
    pure (Json.mkObj (fields ++ [("impl", optRatsJ impl), ("spec", optRatsJ spec)]))

end Xp.Ops
