import XpDriver.Proto
import XpModel.Occlusion
open Lean Xp Xp.Proto
namespace Xp.Ops

def geomOfJson (j : Json) : R Occl.Geom := do
  let kind ← getStr j "kind"
  if kind == "tab" then
    pure (.tab (← getNat j "w") (← getNat j "p") (← getNat j "s"))
  else if kind == "two" then
    pure (.two (← getNat j "a") (← getNat j "b") (← getNat j "c")
      (← getNat j "pa") (← getNat j "pb") (← getNat j "sa") (← getNat j "sb"))
  else throw "bad-op"

/-- op "occl": Occlusion implementation model and reference spec on polynomial scores -/
def occl (j : Json) : R Json := do
  let g ← geomOfJson (← fld j "geom")
  let ps ← getPolys j "polys"
  let v ← getRat j "v"
  let bs ← getOptNat j "bs"
  let xs ← getRatMat j "xs"
  let ys ← getRatMat j "ys"
  if bs == some 0 then throw "bad-op"
  if xs.any (fun x => x.length != g.nflat) then throw "bad-shape"
  let f := polyScore ps
  let impl := Occl.explain g f v bs xs ys
  let spec := List.zipWith (fun x y => Occl.specOne g (fun z => f z y) v x) xs ys
  let nmasks := (Occl.masks g).length
  pure (Json.mkObj [("impl", ratMatJ impl), ("spec", ratMatJ spec),
                    ("nmasks", Json.num (JsonNumber.fromNat nmasks))])

end Xp.Ops
