import XpDriver.Proto
import XpModel.Shapes
open Lean Xp Xp.Proto Xp.Shp
namespace Xp.Ops

def methodOfString (s : String) : R Method :=
  match s with
  | "Saliency" => pure .saliency | "GradientInput" => pure .gradientInput
  | "IntegratedGradients" => pure .integratedGradients | "SmoothGrad" => pure .smoothGrad
  | "SquareGrad" => pure .squareGrad | "VarGrad" => pure .varGrad
  | "DeconvNet" => pure .deconvNet | "GuidedBackprop" => pure .guidedBackprop
  | "GradCAM" => pure .gradCAM | "GradCAMPP" => pure .gradCAMPP
  | "Occlusion" => pure .occlusion | "Rise" => pure .rise | "Lime" => pure .lime
  | "KernelShap" => pure .kernelShap | "Sobol" => pure .sobol | "Hsic" => pure .hsic
  | _ => throw "bad-op"

def kindOfJson (j : Json) : R Kind := do
  match (← getStr j "k") with
  | "tab" => pure (.tab (← getNat j "w"))
  | "ts" => pure (.ts (← getNat j "t") (← getNat j "w"))
  | "img" => pure (.img (← getNat j "h") (← getNat j "w") (← getNat j "c"))
  | _ => throw "bad-op"

/-- op "explain_shape" -/
def explainShapeOp (j : Json) : R Json := do
  let m ← methodOfString (← getStr j "method")
  let k ← kindOfJson (← fld j "kind")
  let n ← getNat j "n"
  let red ← getBool j "reducer"
  let sup := supported m k
  let shape := match explainShape m red n k with
    | some s => natsJ s
    | none => Json.null
  pure (Json.mkObj [("supported", Json.bool sup), ("shape", shape), ("documented", natsJ (documented n k))])

/-- op "sanitize": number of rows and row sizes produced by tensor_sanitize for a container -/
def sanitizeOp (j : Json) : R Json := do
  let n ← getNat j "n"
  let c ← fld j "container"
  let cont ← match (← getStr c "kind") with
    | "array" => pure Container.array
    | "dataset" => do
        let b ← getOptNat c "batch"
        if b == some 0 then throw "bad-op"
        pure (Container.dataset b (← getBool c "wrapped"))
    | _ => throw "bad-op"
  let rows := sanitize (List.range n) cont
  pure (Json.arr (rows.map natsJ).toArray)

end Xp.Ops
