import XpDriver.Proto
import XpModel.GradStat
import XpModel.ScoreC01
open Lean Xp Xp.Proto
namespace Xp.Ops

def scoreOfJson (j : Json) : R Score := do
  let kind ← getStr j "kind"
  if kind == "poly" then
    pure (.poly (← getPolys j "polys"))
  else if kind == "relu" then
    pure (.relu { A := (← getRatMat j "A"), b := (← getRats j "b"),
                  W := (← getRatMat j "W"), c := (← getRats j "c") })
  else throw "bad-op"

def layoutOfJson (j : Json) : R Layout := do
  let kind ← getStr j "kind"
  if kind == "tab" then pure .tab
  else if kind == "ts" then pure .ts
  else if kind == "img" then pure (.img (← getNat j "c"))
  else throw "bad-op"

def reducerOfJson (j : Json) (k : String) : R (Option Reducer) :=
  match fldOpt j k with
  | none => pure none
  | some v => do
    let s ← v.getStr?
    if s == "min" then pure (some .min)
    else if s == "max" then pure (some .max)
    else if s == "mean" then pure (some .mean)
    else if s == "sum" then pure (some .sum)
    else throw "bad-op"

/-- reference post-processing of the property text: images with C ≠ 1 are reduced over the
    channel axis with the requested reducer, everything else is unchanged -/
def specHarmonize (r : Option Reducer) (lay : Layout) (v : Vec) : Vec :=
  match lay, r with
  | .img c, some r => if c = 1 then v else reducePixels r c v
  | _, _ => v

def optMatJ : Option (List Vec) → Json
  | none => Json.null
  | some m => ratMatJ m

def pairsJ (l : List (Nat × Nat)) : Json :=
  Json.arr (l.map fun p => natsJ [p.1, p.2]).toArray

/-- op "c01": Saliency / GradientInput / SmoothGrad / SquareGrad / VarGrad, model and spec -/
def c01 (j : Json) : R Json := do
  let method ← getStr j "method"
  let sc ← scoreOfJson (← fld j "score")
  let lay ← layoutOfJson (← fld j "lay")
  let r ← reducerOfJson j "reducer"
  let bs ← getOptNat j "bs"
  let d ← getNat j "D"
  let xs ← getRatMat j "xs"
  let ys ← getRatMat j "ys"
  if bs == some 0 then throw "bad-op"
  if xs.length != ys.length then throw "bad-shape"
  if xs.any (fun x => x.length != d) then throw "bad-shape"
  match lay with
  | .img c => if c == 0 || d % c != 0 then throw "bad-shape"
  | _ => pure ()
  let g := sc.grad
  let op := gradMap g
  match xs, ys with
  | x :: _, y :: _ => if sc.grad x y != sc.gradRef x y then throw "internal: fast gradient differs from polyScoreGrad"
  | _, _ => pure ()
  if method == "saliency" || method == "gradinput" then
    let raw := if method == "saliency" then GS.saliencyImpl op bs xs ys else GS.gradInputImpl op bs xs ys
    let spec := if method == "saliency" then GS.saliencySpec g xs ys else GS.gradInputSpec g xs ys
    pure (Json.mkObj [("impl", ratMatJ (raw.map (harmonize r lay))), ("raw", ratMatJ raw),
                      ("spec", ratMatJ (spec.map (specHarmonize r lay))), ("calls", pairsJ []),
                      ("mag", Json.null), ("kink", optRatJ (sc.kink xs)),
                      ("bud", ratJ (maxAbs (List.zipWith sc.absGrad xs ys).flatten))])
  else
    let k ← (if method == "smooth" then pure GS.Kind.smooth
             else if method == "square" then pure GS.Kind.square
             else if method == "var" then pure GS.Kind.var
             else throw "bad-op" : R GS.Kind)
    let nb ← getNat j "nb"
    let pts ← getRatTen3 j "pts"
    if pts.length != xs.length then throw "bad-shape"
    if pts.any (fun p => p.length != nb || p.any (fun v => v.length != d)) then throw "bad-shape"
    let items : List GS.Item := List.zipWith (fun p y => { pt := fun k => p.getD k [], y := y }) pts ys
    let raw := GS.gsImpl op k d bs nb items
    let specOk := nb ≥ 1 && !(k == GS.Kind.var && nb < 2)
    let spec : Option (List Vec) := if specOk then some (GS.gsSpec g k d nb items) else none
    pure (Json.mkObj [("impl", optMatJ (raw.map (·.map (harmonize r lay)))), ("raw", optMatJ raw),
                      ("spec", optMatJ (spec.map (·.map (specHarmonize r lay)))),
                      ("calls", pairsJ (GS.callShapes bs nb xs.length)),
                      ("mag", ratJ (((GS.gsSpec g .square d nb items).flatten.map ratAbs).foldl ratMax 0)),
                      ("kink", optRatJ (sc.kink pts.flatten)),
                      ("bud", ratJ (maxAbs (List.zipWith (fun p y => (p.map fun v => sc.absGrad v y).flatten) pts ys).flatten))])

end Xp.Ops
