import XpDriver.Proto
import XpModel.History
open Lean Xp Xp.Proto Xp.Hist
namespace Xp.Ops

def psizeOfJson (j : Json) : R PSize :=
  match j with
  | .arr a => match a.toList with
    | [x, y] => do pure (.pair (← natOfJson x) (← natOfJson y))
    | _ => throw "bad-op"
  | v => do pure (.scalar (← natOfJson v))

def psizeJ : PSize → Json
  | .scalar p => Json.num (JsonNumber.fromNat p)
  | .pair a b => natsJ [a, b]

/-- op "hist_occl": patch_size / patch_stride after each call of a history -/
def histOccl (j : Json) : R Json := do
  let s0 : Occl := { patch := (← psizeOfJson (← fld j "patch")), stride := (← psizeOfJson (← fld j "stride")) }
  let calls ← listOf boolOfJson (← fld j "calls")
  let states := (calls.foldl (fun (acc : Occl × List Occl) b =>
    let s := acc.1.call b; (s, acc.2 ++ [s])) (s0, [])).2
  pure (Json.arr (states.map fun s => Json.mkObj [("patch", psizeJ s.patch), ("stride", psizeJ s.stride)]).toArray)

def dkindOfString (s : String) : R DKind :=
  match s with
  | "tab" => pure .tab | "ts" => pure .ts | "rgb" => pure .rgb | "grey" => pure .grey | "other" => pure .other
  | _ => throw "bad-op"

def refJ : Option RefVal → Json
  | none => Json.null
  | some .zeros1 => Json.str "zeros1" | some .grey3 => Json.str "grey3" | some .zerosC => Json.str "zerosC"
  | some (.user _) => Json.str "user"
def mapJ : Option MapFn → Json
  | none => Json.null
  | some .tabMap => Json.str "tab" | some .tsMap => Json.str "ts" | some .quickshift => Json.str "quickshift"
  | some .felzenszwalb => Json.str "felzenszwalb" | some (.user _) => Json.str "user"

/-- op "hist_lime": ref_value / map_to_interpret_space after each call of a history -/
def histLime (j : Json) : R Json := do
  let ref0 : Option RefVal := if (← getBool j "user_ref") then some (.user 0) else none
  let map0 : Option MapFn := if (← getBool j "user_map") then some (.user 0) else none
  let calls ← listOf (fun v => do dkindOfString (← v.getStr?)) (← fld j "calls")
  let states := (calls.foldl (fun (acc : Hist.Lime × List Hist.Lime) k =>
    let s := acc.1.call k; (s, acc.2 ++ [s])) (({ ref := ref0, map := map0 } : Hist.Lime), [])).2
  pure (Json.arr (states.map fun s => Json.mkObj [("ref", refJ s.ref), ("map", mapJ s.map)]).toArray)

/-- op "hist_cache": ids of the models stored by successive explainer constructions -/
def histCache (j : Json) : R Json := do
  let ms ← listOf (fun v => do
    pure ({ id := (← getNat v "id"), inp := (← getNat v "inp"), out := (← getNat v "out") } : ModelRef)) (← fld j "models")
  let r := constructAll [] ms
  pure (natsJ (r.2.map (·.id)))

/-- op "hist_gs": values returned by successive SmoothGrad-family calls from a given initial state -/
def histGs (j : Json) : R Json := do
  let st ← match (← getStr j "stat") with
    | "smooth" => pure Stat.smooth | "square" => pure Stat.square | "var" => pure Stat.var
    | _ => throw "bad-op"
  let calls ← listOf (listOf (listOf ratOfJson)) (← fld j "batches")
  pure (ratsJ (gsCall st { cnt := 3, sum := 7, sq := 11 } calls).2)

def ruleOfString (s : String) : R Rule :=
  match s with
  | "plain" => pure .plain | "deconv" => pure .deconv | "guided" => pure .guided
  | _ => throw "bad-op"
def ruleJ : Rule → Json
  | .plain => Json.str "plain" | .deconv => Json.str "deconv" | .guided => Json.str "guided"

/-- op "hist_override": the user's model has one layer object per entry of "relu" (all routed to the plain rule);
"steps" are the rules of successive DeconvNet / GuidedBackprop constructions on it. Returns, at the end of the history,
the number of layer objects each clone shares with the user's model, the rules of the user's ReLU sites and the rules
of every clone's ReLU sites -/
def histOverride (j : Json) : R Json := do
  let relu ← listOf boolOfJson (← fld j "relu")
  let steps ← listOf (fun v => do ruleOfString (← v.getStr?)) (← fld j "steps")
  let h0 : Heap := relu.map fun b => { relu := b, rule := .plain }
  let m : LModel := List.range relu.length
  let r := overrideAll h0 (steps.map fun s => (m, s))
  pure (Json.mkObj [
    ("shared", natsJ (r.2.map fun c => (c.filter fun i => m.contains i).length)),
    ("shared_relu", natsJ (r.2.map fun c => (c.filter fun i => m.contains i && (h0[i]?.getD default).relu).length)),
    ("user_rules", Json.arr ((rulesOf r.1 m).map ruleJ).toArray),
    ("clone_rules", Json.arr (r.2.map fun c => Json.arr ((rulesOf r.1 c).map ruleJ).toArray).toArray)])

end Xp.Ops
