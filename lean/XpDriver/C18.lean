import XpDriver.Proto
import XpModel.ProtoSel
open Lean Xp Xp.Proto
namespace Xp.Ops
open Xp.ProtoSel

/-- exact Gauss-Jordan inverse over `Rat` (`none` = singular / not square) -/
def gaussInvAux (n : Nat) : Nat → Nat → Array (Array Rat) → Option (Array (Array Rat))
  | 0, _, a => some a
  | fuel + 1, col, a =>
    -- find a pivot row
    match (List.range n).find? (fun r => r ≥ col && (a.getD r #[]).getD col 0 != 0) with
    | none => none
    | some pr =>
      let a := if pr = col then a else
        let rp := a.getD pr #[]; let rc := a.getD col #[]
        (a.set! pr rc).set! col rp
      let prow := a.getD col #[]
      let pv := prow.getD col 0
      let prow := prow.map (· / pv)
      let a := a.set! col prow
      let a := (List.range n).foldl (fun (a : Array (Array Rat)) r =>
        if r = col then a else
          let row := a.getD r #[]
          let f := row.getD col 0
          if f = 0 then a else
            a.set! r ((List.range (2 * n)).toArray.map fun j => row.getD j 0 - f * prow.getD j 0)) a
      gaussInvAux n fuel (col + 1) a

def gaussInv (m : List (List Rat)) : Option (List (List Rat)) :=
  let n := m.length
  if m.any (fun r => r.length != n) then none else
  let aug : Array (Array Rat) := (m.zipIdx.map fun (row, i) =>
    (row ++ (List.range n).map fun j => if i = j then (1 : Rat) else 0).toArray).toArray
  match gaussInvAux n n 0 aug with
  | none => none
  | some a => some (a.toList.map fun row => (row.toList.drop n))

/-- the inverse handed to the model; a singular matrix yields `[]` (the caller reports it) -/
def invOrEmpty (m : List (List Rat)) : List (List Rat) := (gaussInv m).getD []

def methOfJson (j : Json) : R Method := do
  let s ← getStr j "meth"
  if s == "mmd" then pure .mmd else if s == "greedy" then pure .greedy
  else if s == "dash" then pure .dash else throw "bad-op"

def sqDist (a b : List Rat) : Rat := sumQ (List.zipWith (fun x y => (x - y) * (x - y)) a b)
def l1Dist (a b : List Rat) : Rat := sumQ (List.zipWith (fun x y => ratAbs (x - y)) a b)
def linfDist (a b : List Rat) : Rat := (List.zipWith (fun x y => ratAbs (x - y)) a b).foldl ratMax 0

/-- kernel value between two points for the rational kernels known to both sides -/
def kernPoint (kind : String) (a b : List Rat) : R Rat :=
  if kind == "lin" then pure (dot a b + 1)
  else if kind == "rat" then pure (1 / (1 + sqDist a b))
  else throw "bad-op"

/-- kernel on row numbers: supplied matrix (`rbf` through the harness) or computed from `X` -/
def kernOfJson (j : Json) (n : Nat) : R Kern := do
  let kind ← getStr j "kernel"
  let mat ← if kind == "matrix" then getRatMat j "K"
    else do
      let xs ← getRatMat j "X"
      if xs.length != n then throw "bad-shape"
      xs.mapM fun a => xs.mapM fun b => kernPoint kind a b
  if mat.length != n || mat.any (fun r => r.length != n) then throw "bad-shape"
  let arr := (mat.map List.toArray).toArray
  pure fun i j => (arr.getD i #[]).getD j 0

def pairsJ18 (l : List (Nat × Nat)) : Json :=
  Json.arr (l.map fun (a, b) => natsJ [a, b]).toArray

def optRatsJ18 : Option (List Rat) → Json
  | none => Json.null
  | some l => ratsJ l

/-- op "proto_run": tables, greedy loop (Impl, batch size `b`) and the reference selection (Spec) -/
def protoRun (j : Json) : R Json := do
  let n ← getNat j "n"
  let b ← getNat j "b"
  let m ← getNat j "m"
  let eps ← getRat j "eps"
  let meth ← methOfJson j
  if b == 0 || n == 0 || m == 0 || m > n then throw "bad-op"
  let K ← kernOfJson j n
  let c := cfgOf K n b meth invOrEmpty eps
  let tri := triangular K c.bt
  let r := run c m
  let U := List.range n
  let spec := greedySpec (objSpec meth invOrEmpty eps K U) U m
  let specR := specRun meth invOrEmpty eps K U m
  pure (Json.mkObj [
    ("cm", ratMatJ c.cm), ("dg", ratMatJ c.dg), ("nb", Json.num (JsonNumber.fromNat tri.nb)),
    ("mu", ratsJ (U.map (mu K U))),
    ("kdiag", ratsJ (U.map fun i => K i i)),
    ("idx", pairsJ18 r.idx), ("cases", natsJ r.cases), ("w_raw", ratsJ r.w),
    ("w", optRatsJ18 (normalize r.w)), ("objs", ratsJ r.objs),
    ("spec_cases", natsJ spec),
    ("spec_run_cases", natsJ specR.1), ("spec_w_raw", ratsJ specR.2), ("spec_w", optRatsJ18 (normalize specR.2))])

/-- magnitude of the terms of the documented objective (forward-error budget of the float code) -/
def objMagnitude (meth : Method) (eps : Rat) (K : Kern) (U S : List Nat) (c : Nat) : Rat :=
  let amu := fun j => sumQ (U.map fun i => ratAbs (K i j)) / (U.length : Rat)
  match meth with
  | .mmd => 2 * amu c + (ratAbs (K c c) + 2 * sumQ (S.map fun s => ratAbs (K s c))) / ((S.length : Rat) + 1)
  | .dash => amu c + sumQ (S.map fun s => ratAbs (K c s) * amu s)
  | .greedy =>
    let T := S ++ [c]
    let w := pgSpecWeights invOrEmpty eps K U T
    let muT := T.map amu
    sumQ (List.zipWith (fun a b => ratAbs a * b) w muT)
      + (1/2 : Rat) * sumQ ((subMat K T).zipIdx.map fun (row, i) =>
          sumQ (row.zipIdx.map fun (v, k) => ratAbs (w.getD i 0 * v * w.getD k 0)))

/-- op "proto_objs": for every prefix of the given selection, the documented objective of every
    candidate (dataset order) computed from the FULL kernel matrix, with its magnitude budget;
    plus the reference weights of the complete selection. -/
def protoObjs (j : Json) : R Json := do
  let n ← getNat j "n"
  let eps ← getRat j "eps"
  let meth ← methOfJson j
  let sel ← getNats j "sel"
  if n == 0 || sel.any (· ≥ n) then throw "bad-op"
  let K ← kernOfJson j n
  let U := List.range n
  let steps := (List.range sel.length).map fun t =>
    let S := sel.take t
    let cands := U.filter fun c => !(S.contains c)
    Json.arr (cands.map fun c =>
      Json.arr #[Json.num (JsonNumber.fromNat c), ratJ (objSpec meth invOrEmpty eps K U S c),
                 ratJ (objMagnitude meth eps K U S c)]).toArray
  let wspec := match meth with
    | .mmd => List.replicate sel.length 1
    | _ => pgSpecWeights invOrEmpty eps K U sel   -- ProtoDash: what the last non-skipped update computes
  -- weights obtained by following the GIVEN selection order with the reference weight update
  let wf := (List.range sel.length).foldl
    (fun w t => weightsStep meth invOrEmpty eps K U (sel.take t) (sel.getD t 0) w) (List.replicate sel.length 0)
  let picked := (List.range sel.length).map fun t => objSpec meth invOrEmpty eps K U (sel.take t) (sel.getD t 0)
  pure (Json.mkObj [("steps", Json.arr steps.toArray), ("w_raw", ratsJ wspec),
                    ("w", optRatsJ18 (normalize wspec)), ("w_forced_raw", ratsJ wf),
                    ("w_forced", optRatsJ18 (normalize wf)), ("picked_objs", ratsJ picked)])

/-- op "proto_local": the `k` nearest prototypes of every query with the dataset indices and labels
    of those prototypes (`format_search_output`). Distances are pre-root exact values. -/
def protoLocal (j : Json) : R Json := do
  let bs ← getNat j "bs"
  let k ← getNat j "k"
  let pidx ← getNatMat j "proto_idx"
  let labels ← getRats j "labels"
  let kind ← getStr j "dist"
  if bs == 0 || k == 0 || pidx.any (·.length != 2) || labels.length != pidx.length then throw "bad-op"
  let protoIdx := pidx.map fun r => (r.getD 0 0, r.getD 1 0)
  let dmat ← if kind == "matrix" then getRatMat j "D" else do
    let ps ← getRatMat j "P"
    let qs ← getRatMat j "Q"
    if ps.length != pidx.length then throw "bad-shape"
    qs.mapM fun q => ps.mapM fun p =>
      if kind == "l1" then pure (l1Dist q p)
      else if kind == "linf" then pure (linfDist q p)
      else if kind == "l2sq" then pure (sqDist q p)
      else if kind == "kern_lin" || kind == "kern_rat" then do
        let kn := if kind == "kern_lin" then "lin" else "rat"
        pure ((← kernPoint kn q q) - 2 * (← kernPoint kn q p) + (← kernPoint kn p p))
      else throw "bad-op"
  if dmat.any (·.length != pidx.length) then throw "bad-shape"
  let out := dmat.map fun dist =>
    Json.arr ((localExplain bs k protoIdx labels dist).map fun (d, (bi, p), lab) =>
      Json.arr #[ratJ d, Json.num (JsonNumber.fromNat bi), Json.num (JsonNumber.fromNat p), ratJ lab]).toArray
  pure (Json.mkObj [("res", Json.arr out.toArray), ("D", ratMatJ dmat)])

end Xp.Ops
