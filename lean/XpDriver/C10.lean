import XpDriver.Proto
import XpModel.ReluNet
import XpModel.GradCam
open Lean Xp Xp.Proto
namespace Xp.Ops

def ruleOfStr (s : String) : R Net.Rule :=
  if s == "deconv" then pure .deconv
  else if s == "guided" then pure .guided
  else if s == "open" then pure .openRelu
  else throw "bad-op"

/-- activations: "linear" | "relu" | {"name":"leaky","slope":q} | {"name":"relu6"} -/
def actOfJson (j : Json) : R Net.Act :=
  match j with
  | .str "linear" => pure .linear
  | .str "relu" => pure .relu
  | _ => do
    let name ← getStr j "name"
    if name == "leaky" then
      let s ← getRat j "slope"
      pure (.other (fun z => if 0 < z then z else s * z) (fun z => if 0 < z then 1 else s))
    else if name == "relu6" then
      pure (.other (fun z => ratMin (ratMax z 0) 6) (fun z => if 0 < z ∧ z < 6 then 1 else 0))
    else throw "bad-op"

def optRat (j : Json) (k : String) : R (Option Rat) :=
  match fldOpt j k with
  | none => pure none
  | some v => do pure (some (← ratOfJson v))

def layerOfJson (j : Json) : R Net.Layer := do
  let kind ← getStr j "kind"
  if kind == "dense" then
    let W ← getRatMat j "W"
    let b ← getRats j "b"
    if W.any (fun row => row.length != b.length) then throw "bad-shape"
    pure (.dense W b (← actOfJson (← fld j "act")))
  else if kind == "act" then
    pure (.activation (← actOfJson (← fld j "act")))
  else if kind == "relu" then
    pure (.reluLayer (← optRat j "max") (← getRat j "thr") (← getRat j "slope"))
  else throw "bad-op"

/-- op "relunet": forward of the network and of its overridden clone, true gradient, DeconvNet /
    GuidedBackprop implementation model (batched) and the published-rule spec on the original network -/
def relunet (j : Json) : R Json := do
  let net ← listOf layerOfJson (← fld j "layers")
  let r ← ruleOfStr (← getStr j "rule")
  let bs ← getOptNat j "bs"
  let xs ← getRatMat j "xs"
  let ys ← getRatMat j "ys"
  if bs == some 0 then throw "bad-op"
  if xs.length != ys.length then throw "bad-shape"
  let xys := List.zip xs ys
  let fwd := xs.map (Net.forward net)
  let fwdO := xs.map (Net.forward (Net.overrideRelu r net))
  let tru := xys.map fun (x, y) => Net.backward net x y
  let impl := Net.explain r bs net xys
  let spec := xys.map fun (x, y) => Net.specBackward r net x y
  let nrelu := (net.filter fun l => Net.hasReluActivation l || Net.isRelu l).length
  pure (Json.mkObj [("forward", ratMatJ fwd), ("forward_override", ratMatJ fwdO),
                    ("true_grad", ratMatJ tru), ("impl", ratMatJ impl), ("spec", ratMatJ spec),
                    ("nrelu", Json.num (JsonNumber.fromNat nrelu))])

def sampleOfJson (j : Json) : R GradCam.Sample := do
  pure { A := (← getRatMat j "A"), G := (← getRatMat j "G") }

def methodOfJson (j : Json) : R GradCam.Method := do
  let m ← getStr j "method"
  if m == "gradcam" then pure .gradcam
  else if m == "gradcampp" then pure (.gradcampp (← getRat j "eps"))
  else throw "bad-op"

/-- op "gradcam": weights and maps (before the resize), implementation model and spec -/
def gradcam (j : Json) : R Json := do
  let m ← methodOfJson j
  let K ← getNat j "K"
  let bs ← getOptNat j "bs"
  if bs == some 0 then throw "bad-op"
  let samples ← listOf sampleOfJson (← fld j "samples")
  if samples.any (fun s => s.A.length != s.G.length || s.A.length == 0
      || s.A.any (fun row => row.length != K) || s.G.any (fun row => row.length != K)) then throw "bad-shape"
  pure (Json.mkObj [("impl", ratMatJ (GradCam.explain m K bs samples)),
                    ("spec", ratMatJ (samples.map (GradCam.specCam m K))),
                    ("weights", ratMatJ (samples.map (GradCam.weights m K)))])

/-- op "gradcam_layer": index of the layer Grad-CAM reads (null = the constructor raises) -/
def gradcamLayer (j : Json) : R Json := do
  let names ← listOf (fun v => v.getStr?) (← fld j "names")
  let fl ← listOf boolOfJson (← fld j "has_filters")
  if names.length != fl.length then throw "bad-shape"
  let ref ← fld j "ref"
  let lr : GradCam.LayerRef ← match ref with
    | .null => pure .default
    | .str s => pure (.name s)
    | v => do pure (.index (← intOfJson v))
  match GradCam.chooseLayer names fl lr with
  | none => pure Json.null
  | some i => pure (Json.num (JsonNumber.fromNat i))

end Xp.Ops
