import XpDriver.Proto
import XpModel.Operators
open Lean Xp Xp.Proto Xp.Op
namespace Xp.Ops

def taskOfString (s : String) : R Task :=
  match s with
  | "CLASSIFICATION" => pure .classification
  | "REGRESSION" => pure .regression
  | "SEMANTIC_SEGMENTATION" => pure .segmentation
  | "OBJECT_DETECTION" => pure .detection
  | "OBJECT_DETECTION_BOX_POSITION" => pure .detectionBoxPosition
  | "OBJECT_DETECTION_BOX_PROBA" => pure .detectionBoxProba
  | "OBJECT_DETECTION_BOX_CLASS" => pure .detectionBoxClass
  | _ => throw "bad-op"

def opArgOfJson (j : Json) : R OpArg := do
  let kind ← getStr j "kind"
  match kind with
  | "none" => pure .none
  | "name" => pure (.name (← getStr j "name"))
  | "task" => pure (.task (← taskOfString (← getStr j "task")))
  | "custom" => pure (.custom (← getNat j "id") (← getNat j "nargs"))
  | "notcallable" => pure .notCallable
  | _ => throw "bad-op"

def resolvedJ : Resolved → Json
  | .predictions => Json.str "predictions"
  | .segmentation => Json.str "segmentation"
  | .detection p c => Json.str s!"detection:{if p then 1 else 0}:{if c then 1 else 0}"
  | .custom id => Json.str s!"custom:{id}"
  | .error => Json.str "error"

def modelKindOfString (s : String) : R ModelKind :=
  match s with
  | "keras" => pure .keras
  | "tfModule" => pure .tfModule
  | "layer" => pure .layer
  | "torchWrapper" => pure .torchWrapper
  | "callable" => pure .callable
  | "predictProba" => pure .predictProba
  | "tflite" => pure .tflite
  | _ => throw "bad-op"

/-- op "op_resolve": get_operator / get_inference_function / get_gradient_functions decisions -/
def opResolve (j : Json) : R Json := do
  let a ← opArgOfJson (← fld j "arg")
  let k ← modelKindOfString (← getStr j "model")
  let inf := match inferenceOf k a with
    | .op r => resolvedJ r
    | .oneHotCallable => Json.str "one-hot-callable"
  let grad := match gradientOf k a with
    | some r => resolvedJ r
    | none => Json.str "no-gradient"
  pure (Json.mkObj [("resolved", resolvedJ (resolve a)), ("inference", inf), ("gradient", grad)])

/-- op "find_layer" -/
def findLayerOp (j : Json) : R Json := do
  let names ← listOf (fun v => v.getStr?) (← fld j "names")
  let r ← match fldOpt j "name" with
    | some v => do pure (LayerRef.byName (← v.getStr?))
    | none => do pure (LayerRef.byIndex (← getInt j "index"))
  match findLayer names r with
  | some i => pure (Json.num (JsonNumber.fromNat i))
  | none => pure Json.null

/-- op "seg_score" -/
def segScoreOp (j : Json) : R Json := do
  pure (optRatJ (segScore (← getRats j "pred") (← getRats j "t")))

def objOfJson (j : Json) : R Obj := do
  let b ← getRats j "box"
  match b with
  | [x1, y1, x2, y2] =>
    pure { box := ⟨x1, y1, x2, y2⟩, prob := (← getRat j "prob"), cls := (← getRats j "cls"), nrm := (← getRat j "nrm") }
  | _ => throw "bad-op"

/-- op "drise": object detection operator score of one image, plus all pair IoUs -/
def driseOp (j : Json) : R Json := do
  let ε ← getRat j "eps"
  let ip ← getBool j "incl_prob"
  let ic ← getBool j "incl_class"
  let refs ← listOf objOfJson (← fld j "refs")
  let preds ← listOf objOfJson (← fld j "preds")
  let ious := refs.map fun r => preds.map fun p => boxIoU ε r.box p.box
  pure (Json.mkObj [("score", optRatJ (driseScore ε ip ic refs preds)), ("iou", ratMatJ ious)])

end Xp.Ops
