import XpDriver.Proto
import XpModel.Align
open Lean Xp Xp.Proto
namespace Xp.Ops

def pertOfJson (j : Json) : R Align.Pert := do
  let pf ← getStr j "pf"
  if pf == "inpainting" then pure .inpainting
  else if pf == "blurring" then pure .blurring
  else if pf == "amplitude" then pure (.amplitude (← getRat j "sigma"))
  else throw "bad-op"

def optRatsJ05 (l : List (Option Rat)) : Json := Json.arr (l.map optRatJ).toArray

/-- op "align_gsa": perturbed inputs of the GSA explainers from the public design `explainer.masks`
    (nearest-neighbour upsampling + pointwise perturbation) and the grid cell read by every pixel -/
def alignGsa (j : Json) : R Json := do
  let g ← getNat j "g"
  let H ← getNat j "H"
  let W ← getNat j "W"
  let C ← getNat j "C"
  let pf ← pertOfJson j
  let x ← getRats j "x"
  let x0 ← getRats j "x0"
  let rows ← getRatMat j "rows"
  if g == 0 || C == 0 then throw "bad-op"
  if x.length != H * W * C || x0.length != x.length then throw "bad-shape"
  if rows.any (fun r => r.length != g * g) then throw "bad-shape"
  pure (Json.mkObj [("pert", ratMatJ (rows.map (Align.perturb pf g H W C x x0))),
                    ("cells", natsJ ((List.range (H * W)).map (Align.cellOf g g H W)))])

/-- op "align_post": layout of the estimators' `post_process` and the HSIC dimension of every cell -/
def alignPost (j : Json) : R Json := do
  let g ← getNat j "g"
  let scores ← getRats j "scores"
  if scores.length != g * g then throw "bad-shape"
  pure (Json.mkObj [("sobol", ratsJ (Align.sobolPost g scores)), ("hsic", ratsJ (Align.hsicPost g scores)),
                    ("hsic_dims", natsJ ((List.range (g * g)).map fun k => Align.hsicDim g (k / g) (k % g)))])

/-- op "align_sobol": Jansen total-order indices of every grid cell for a polynomial score, from the
    A and B blocks of the replicated design (the C blocks are rebuilt by the model) -/
def alignSobol (j : Json) : R Json := do
  let g ← getNat j "g"
  let H ← getNat j "H"
  let W ← getNat j "W"
  let C ← getNat j "C"
  let pf ← pertOfJson j
  let x ← getRats j "x"
  let x0 ← getRats j "x0"
  let A ← getRatMat j "A"
  let B ← getRatMat j "B"
  let ps ← getPolys j "polys"
  let y ← getRats j "y"
  if g == 0 || C == 0 then throw "bad-op"
  if x.length != H * W * C || x0.length != x.length || A.length != B.length then throw "bad-shape"
  if (A ++ B).any (fun r => r.length != g * g) then throw "bad-shape"
  let f := fun z => polyScore ps z y
  pure (Json.mkObj [("stis", optRatsJ05 ((List.range (g * g)).map fun i =>
      Align.sobolIndex pf g H W C f x x0 A B i))])

/-- op "align_lime": masked inputs of Lime / KernelShap from the logged interpretable samples and the
    mapping; broadcast of the coefficients back to the pixels -/
def alignLime (j : Json) : R Json := do
  let chan ← getNat j "chan"
  let x ← getRats j "x"
  let ref ← getRats j "ref"
  let mapping ← getNats j "mapping"
  let samples ← getRatMat j "samples"
  let coef ← getRats j "coef"
  if chan == 0 || ref.length != chan || x.length != mapping.length * chan then throw "bad-shape"
  let nf := Align.numFeatures mapping
  if samples.any (fun s => s.length != nf) then throw "bad-shape"
  pure (Json.mkObj [("pert", ratMatJ (samples.map fun s => Align.limeApply chan x (Align.limeMask s mapping) ref)),
                    ("bcast", ratsJ (Align.limeBroadcast coef mapping)),
                    ("numfeat", Json.num (JsonNumber.fromNat nf))])

end Xp.Ops
