/-
  JSON-lines protocol helpers of the model driver.  Numbers are exact: a rational is either
  a JSON integer or a string "num/den"; nothing is ever parsed as a float.
-/
import Lean.Data.Json
import XpModel.Poly
open Lean
namespace Xp.Proto

abbrev R := Except String

def ratOfJson (j : Json) : R Rat :=
  match j with
  | .num n => if n.exponent == 0 then pure (n.mantissa : Rat) else throw "non-integer JSON number"
  | .str s =>
    match s.splitOn "/" with
    | [a, b] =>
      match a.toInt?, b.toNat? with
      | some x, some y => if y == 0 then throw "zero denominator" else pure ((x : Rat) / (y : Rat))
      | _, _ => throw s!"bad rational {s}"
    | [a] => match a.toInt? with
      | some x => pure (x : Rat)
      | none => throw s!"bad rational {s}"
    | _ => throw s!"bad rational {s}"
  | _ => throw "rational expected"

def listOf (f : Json → R α) (j : Json) : R (List α) := do
  let arr ← j.getArr?
  arr.toList.mapM f

def natOfJson (j : Json) : R Nat := j.getNat?
def intOfJson (j : Json) : R Int := j.getInt?
def boolOfJson (j : Json) : R Bool := j.getBool?

def fld (j : Json) (k : String) : R Json := j.getObjVal? k
def fldOpt (j : Json) (k : String) : Option Json :=
  match j.getObjVal? k with
  | .ok .null => none
  | .ok v => some v
  | .error _ => none

def getRat (j : Json) (k : String) : R Rat := do ratOfJson (← fld j k)
def getNat (j : Json) (k : String) : R Nat := do natOfJson (← fld j k)
def getInt (j : Json) (k : String) : R Int := do intOfJson (← fld j k)
def getStr (j : Json) (k : String) : R String := do (← fld j k).getStr?
def getBool (j : Json) (k : String) : R Bool := do (← fld j k).getBool?
def getRats (j : Json) (k : String) : R (List Rat) := do listOf ratOfJson (← fld j k)
def getRatMat (j : Json) (k : String) : R (List (List Rat)) := do listOf (listOf ratOfJson) (← fld j k)
def getRatTen3 (j : Json) (k : String) : R (List (List (List Rat))) := do
  listOf (listOf (listOf ratOfJson)) (← fld j k)
def getNats (j : Json) (k : String) : R (List Nat) := do listOf natOfJson (← fld j k)
def getInts (j : Json) (k : String) : R (List Int) := do listOf intOfJson (← fld j k)
def getNatMat (j : Json) (k : String) : R (List (List Nat)) := do listOf (listOf natOfJson) (← fld j k)
def getBoolMat (j : Json) (k : String) : R (List (List Bool)) := do
  listOf (listOf (fun v => do pure ((← natOfJson v) != 0))) (← fld j k)
/-- `null` or absent ↦ `none` -/
def getOptNat (j : Json) (k : String) : R (Option Nat) :=
  match fldOpt j k with
  | none => pure none
  | some v => do pure (some (← natOfJson v))

def ratJ (r : Rat) : Json :=
  if r.den == 1 then Json.num (JsonNumber.fromInt r.num) else Json.str s!"{r.num}/{r.den}"
def ratsJ (l : List Rat) : Json := Json.arr (l.map ratJ).toArray
def ratMatJ (l : List (List Rat)) : Json := Json.arr (l.map ratsJ).toArray
def natsJ (l : List Nat) : Json := Json.arr (l.map fun n => Json.num (JsonNumber.fromNat n)).toArray
def intsJ (l : List Int) : Json := Json.arr (l.map fun n => Json.num (JsonNumber.fromInt n)).toArray
def optRatJ : Option Rat → Json
  | none => Json.null
  | some r => ratJ r

/-- polynomial outputs `[{const, lin, quad:[[i,j,q]], cub:[[i,j,k,q]]}]` -/
def polyOfJson (j : Json) : R PolyOut := do
  let const ← getRat j "const"
  let lin ← getRats j "lin"
  let quad ← listOf (fun t => do
      let a ← t.getArr?
      match a.toList with
      | [i, k, q] => pure ((← natOfJson i), (← natOfJson k), (← ratOfJson q))
      | _ => throw "quad term must be [i,j,q]") (← fld j "quad")
  let cub ← match fldOpt j "cub" with
    | none => pure []
    | some c => listOf (fun t => do
      let a ← t.getArr?
      match a.toList with
      | [i, k, l, q] => pure ((← natOfJson i), (← natOfJson k), (← natOfJson l), (← ratOfJson q))
      | _ => throw "cub term must be [i,j,k,q]") c
  pure { const, lin, quad, cub }

def getPolys (j : Json) (k : String) : R (List PolyOut) := do listOf polyOfJson (← fld j k)

end Xp.Proto
