import XpDriver.Proto
import XpDriver.C01
import XpModel.IG
import XpModel.ScoreC01
open Lean Xp Xp.Proto
namespace Xp.Ops

/-- op "c04": IntegratedGradients model, spec, completeness data -/
def c04 (j : Json) : R Json := do
  let sc ← scoreOfJson (← fld j "score")
  let lay ← layoutOfJson (← fld j "lay")
  let r ← reducerOfJson j "reducer"
  let bs ← getOptNat j "bs"
  let steps ← getNat j "steps"
  let b ← getRat j "b"
  let d ← getNat j "D"
  let xs ← getRatMat j "xs"
  let ys ← getRatMat j "ys"
  if bs == some 0 then throw "bad-op"
  if xs.length != ys.length then throw "bad-shape"
  if xs.any (fun x => x.length != d) then throw "bad-shape"
  match lay with
  | .img c => if c == 0 || d % c != 0 then throw "bad-shape"
  | _ => pure ()
  let g := sc.grad
  let op := gradMap g
  match xs, ys with
  | x :: _, y :: _ => if sc.grad x y != sc.gradRef x y then throw "internal: fast gradient differs from polyScoreGrad"
  | _, _ => pure ()
  let raw := IG.igImpl op steps b bs xs ys
  let specRaw : Option (List Vec) := if steps < 2 then none else some (IG.igSpec g steps b xs ys)
  -- completeness data per input (from the Spec side): f x − f baseline, leading cubic coefficient
  -- of φ(t) = f(baseline + t (x − baseline)) and the predicted trapezoid gap a₃ / (2 (steps−1)²)
  let per := List.zipWith (fun x y =>
      let φ : Rat → Rat := fun t => sc.eval (x.map fun xi => b + t * (xi - b)) y
      let a3 := IG.cubicLead φ
      -- degree check: the 4th finite difference vanishes for a cubic
      let d4 := φ 4 - 4 * φ 3 + 6 * φ 2 - 4 * φ 1 + φ 0
      (φ 1 - φ 0, a3, a3 / (2 * (((steps : Rat) - 1) * ((steps : Rat) - 1))), d4)) xs ys
  pure (Json.mkObj [("impl", optMatJ (raw.map (·.map (harmonize r lay)))), ("raw", optMatJ raw),
                    ("spec", optMatJ (specRaw.map (·.map (specHarmonize r lay)))),
                    ("spec_raw", optMatJ specRaw),
                    ("path", Json.arr (xs.map fun x => ratMatJ ((List.range steps).map (IG.interp steps b x))).toArray),
                    ("kink", optRatJ (sc.kink (xs.flatMap fun x =>
                        ((List.range steps).filter fun j => j != 0 && j + 1 != steps).map (IG.interp steps b x)))),
                    ("bud", ratJ (maxAbs (List.zipWith (fun x y =>
                        sc.absGrad (x.map fun xi => ratMax (ratAbs xi) (ratAbs b)) y) xs ys).flatten)),
                    ("sbud", ratJ (maxAbs (List.zipWith (fun x y =>
                        sc.absEval (x.map fun xi => ratMax (ratAbs xi) (ratAbs b)) y) xs ys))),
                    ("sizes", natsJ (IG.callSizes bs steps xs.length)),
                    ("delta", ratsJ (per.map (·.1))), ("a3", ratsJ (per.map (·.2.1))),
                    ("gap_pred", ratsJ (per.map (·.2.2.1))), ("d4", ratsJ (per.map (·.2.2.2)))])

end Xp.Ops
