import XpDriver.Proto
import XpModel.MuFidelity
open Lean Xp Xp.Proto
namespace Xp.Ops

private def natJ' (n : Nat) : Json := Json.num (JsonNumber.fromNat n)

private def tripleJ (t : Rat × Rat × Rat) : Json := ratsJ [t.1, t.2.1, t.2.2]

private def rhoJ (t : Rat × Rat × Rat) : Json :=
  match MuFid.rhoSq t with
  | none => Json.null
  | some (pos, r2) => Json.arr #[Json.num (JsonNumber.fromInt (if pos then 1 else -1)), ratJ r2]

private def pairsJ15 (ps : List (List (Rat × Rat))) : Json :=
  Json.arr (ps.map fun l => ratMatJ (l.map fun (a, b) => [a, b])).toArray

/-- op "mufid": MuFidelity.evaluate up to the correlation, for the observed mask draws -/
def mufid (j : Json) : R Json := do
  let c ← getNat j "c"
  let cp ← getNat j "cp"
  let ps ← getPolys j "polys"
  let bs ← getOptNat j "bs"
  let nb ← getNat j "nb"
  let xs ← getRatMat j "xs"
  let bases ← getRatMat j "bases"
  let ys ← getRatMat j "ys"
  let phis ← getRatMat j "phis"
  let draws ← listOf (listOf (listOf (listOf ratOfJson))) (← fld j "draws")
  if bs == some 0 || c == 0 || cp == 0 || nb == 0 then throw "bad-op"
  let n := xs.length
  if bases.length != n || ys.length != n || phis.length != n then throw "bad-shape"
  if (xs.zip bases).any (fun (x, b) => x.length != b.length) then throw "bad-shape"
  let g : MuFid.Geo := { c := c, cp := cp }
  let f := polyScore ps
  let op : List (List Rat × List Rat) → List Rat := fun b => b.map fun (x, y) => f x y
  let ss : List MuFid.Sample :=
    List.zipWith (fun (x, b) (y, phi) => { x := x, base := b, y := y, phi := phi })
      (xs.zip bases) (ys.zip phis)
  let bsEff := MuFid.effBs bs n nb
  let ibs := MuFid.ibsOf bsEff nb
  let impl := MuFid.pairsImpl g op bs nb ss draws
  -- Spec: sample n of input batch b sees exactly the masks drawn for b (all chunks, in order)
  let spec := MuFid.pairsSpec g f ibs ss draws
  -- the model queries in the order the implementation sends them
  let queries : List (List Rat) :=
    ss.map (·.x) ++
    (List.zipWith (fun batch chunks => chunks.flatMap fun ms =>
        batch.flatMap fun s => ms.map fun m => MuFid.degrade c s.x s.base m) (batches ibs ss) draws).flatten
  let triples := spec.map MuFid.rankTriple
  pure (Json.mkObj [
    ("bs_eff", natJ' bsEff), ("pbs", natJ' (MuFid.pbsOf bsEff nb)), ("ibs", natJ' ibs),
    ("chunks", natsJ (MuFid.chunksOf bsEff nb)),
    ("nbatches", natJ' (batches ibs ss).length),
    ("impl", pairsJ15 impl), ("spec", pairsJ15 spec),
    ("queries", ratMatJ queries),
    ("triples", Json.arr (triples.map tripleJ).toArray),
    ("rho", Json.arr (triples.map rhoJ).toArray)])

/-- op "spearman": rank-covariance triple of two observed sequences -/
def spearman (j : Json) : R Json := do
  let a ← getRats j "a"
  let b ← getRats j "b"
  if a.length != b.length then throw "bad-shape"
  let t := MuFid.rankTriple (a.zip b)
  pure (Json.mkObj [("triple", tripleJ t), ("rho", rhoJ t),
                    ("ranks_a", ratsJ (MuFid.avgRanks a)), ("ranks_b", ratsJ (MuFid.avgRanks b))])

/-- op "gridmask": is each observed mask the nearest-neighbour resize of some grid? -/
def gridmask (j : Json) : R Json := do
  let gh ← getNat j "gh"
  let gw ← getNat j "gw"
  let h ← getNat j "h"
  let w ← getNat j "w"
  let ms ← getRatMat j "masks"
  if gh == 0 || gw == 0 || ms.any (fun m => m.length != h * w) then throw "bad-shape"
  pure (Json.arr (ms.map fun m => Json.bool (MuFid.gridConsistent gh gw h w m)).toArray)

/-- op "stab": AverageStability with the gradient of a polynomial score as explainer.
    `dist` ∈ l1 | l2sq | linf ; returns the neighbours, the (n, k) distance matrix, and the score
    (for l2 the harness applies the square root to the matrix entries and averages). -/
def stab (j : Json) : R Json := do
  let ps ← getPolys j "polys"
  let xs ← getRatMat j "xs"
  let ys ← getRatMat j "ys"
  let noise ← getRatMat j "noise"
  let phis ← getRatMat j "phis"
  let dk ← getStr j "dist"
  if xs.length != ys.length || xs.length != phis.length then throw "bad-shape"
  if noise.any (fun m => xs.any fun x => x.length != m.length) then throw "bad-shape"
  let dist ← match dk with
    | "l1" => pure MuFid.l1
    | "l2sq" => pure MuFid.l2sq
    | "linf" => pure MuFid.linf
    | _ => throw "bad-op"
  let expl : List (List Rat) → List (List Rat) → List (List Rat) :=
    fun nbrs labs => List.zipWith (polyScoreGrad ps) nbrs labs
  let ss := List.zipWith (fun x (y, p) => (x, y, p)) xs (ys.zip phis)
  let score := MuFid.stabImpl expl dist noise ss
  let mat := ss.map fun (x, y, phi) =>
    (expl (MuFid.neighbors x noise) (List.replicate noise.length y)).map fun pn => dist pn phi
  pure (Json.mkObj [("score", ratJ score), ("dists", ratMatJ mat),
                    ("neighbors", Json.arr (xs.map fun x => ratMatJ (MuFid.neighbors x noise)).toArray),
                    ("base_expl", ratMatJ (List.zipWith (polyScoreGrad ps) xs ys))])

end Xp.Ops
