import XpDriver.Proto
import XpModel.Objective
open Lean Xp Xp.Proto Xp.Obj
namespace Xp.Ops

def objValOfJson (j : Json) : R ObjVal :=
  listOf (fun p => do
    let a ← p.getArr?
    match a.toList with
    | [x, m] => pure ((← natOfJson x), (← ratOfJson m))
    | _ => throw "bad-op") j

def objValJ (o : ObjVal) : Json :=
  Json.arr (o.map fun (a, m) => Json.arr #[Json.num (JsonNumber.fromNat a), ratJ m]).toArray

def stmtOfJson (j : Json) : R Stmt := do
  let a ← j.getArr?
  match a.toList with
  | [Json.str "add", i, k] => pure (.add (← natOfJson i) (← natOfJson k))
  | [Json.str "sub", i, k] => pure (.sub (← natOfJson i) (← natOfJson k))
  | [Json.str "mul", i, c] => pure (.mul (← natOfJson i) (← ratOfJson c))
  | _ => throw "bad-op"

/-- op "obj_run": run an expression-building program on a heap of Objective objects -/
def objRun (j : Json) : R Json := do
  let heap ← listOf objValOfJson (← fld j "heap")
  let prog ← listOf stmtOfJson (← fld j "prog")
  -- reject references to objects that do not exist yet
  let mut n := heap.length
  for s in prog do
    if !(s.valid n) then throw "bad-ref"
    n := n + 1
  let h := run heap prog
  pure (Json.arr (h.map objValJ).toArray)

/-- op "obj_compile": compiled loss rows, combinations and names of one Objective -/
def objCompile (j : Json) : R Json := do
  let o ← objValOfJson (← fld j "obj")
  let nT ← getNats j "nT"
  let tab ← listOf (listOf (listOf ratOfJson)) (← fld j "L")     -- L[r][a][t]
  let names ← listOf (listOf (fun v => v.getStr?)) (← fld j "names")
  if o.any (fun (a, _) => a ≥ nT.length) then throw "bad-ref"
  let nTf := fun a => nT.getD a 0
  let Lf := fun r a t => ((tab.getD r []).getD a []).getD t 0
  let combos := product (o.map fun (a, _) => nTf a)
  if tab.length != combos.length then throw "bad-shape"
  let losses := compileLoss o nTf Lf
  let nm := compileNames o (fun a t => (names.getD a []).getD t "?") nTf
  pure (Json.mkObj [("loss", ratsJ losses),
                    ("combos", Json.arr (combos.map natsJ).toArray),
                    ("names", Json.arr (nm.map Json.str).toArray)])

/-- op "to_valid": rescaling tail of to_valid_rgb / to_valid_grayscale on one image -/
def toValidOp (j : Json) : R Json := do
  let lo ← getRat j "lo"
  let hi ← getRat j "hi"
  let img ← getRats j "img"
  match toValid lo hi img with
  | none => pure Json.null
  | some out => pure (ratsJ out)

end Xp.Ops
