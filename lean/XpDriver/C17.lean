import XpDriver.Proto
import XpDriver.C16
import XpModel.FilterKnn
open Lean Xp Xp.Proto Xp.TopK
namespace Xp.Ops

def boolsJ (l : List Bool) : Json := Json.arr (l.map fun b => natJ (if b then 1 else 0)).toArray
def distsJ (l : List Dist) : Json := Json.arr (l.map distJ).toArray

/-- op "cf": NaiveCounterFactuals / LabelAwareCounterFactuals — FilterKNN Impl, filtered
    brute-force Spec, unmasked keys, admissibility masks, case classes -/
def cf (j : Json) : R Json := do
  let s ← searchIn j
  let fs ← getStr j "filter"
  let f ← match fs with
    | "naive" => pure Filter.naive
    | "labelaware" => pure Filter.labelAware
    | _ => throw "bad-op"
  let refs ← getRatMat j "refs"
  if refs.length != s.queries.length || refs.any (fun r => r.isEmpty) then throw "bad-shape"
  if s.cases.any (fun c => c.2.isEmpty) then throw "bad-shape"
  let n := s.cases.length
  let bsz := effBs s.bs n
  let impl := cfImpl sortE f s.P s.dk s.k s.bs s.cases s.queries refs
  let spec := cfSpec f s.P s.dk s.k s.cases s.queries refs
  let keys := s.queries.map fun q => s.cases.map (projKey s.P s.dk q)
  let adm := refs.map fun r => s.cases.map fun c => admissible f (argmax r) (caseClass c)
  pure (Json.mkObj [
    ("bsz", natJ bsz), ("card", natJ (card n bsz)),
    ("impl", Json.arr (impl.map fun r => Json.arr (r.map entryJ).toArray).toArray),
    ("rows", Json.arr (impl.map fun r => Json.arr (r.map fun e => intJ (rowOf n bsz e.val)).toArray).toArray),
    ("spec", Json.arr (spec.map distsJ).toArray),
    ("keys", Json.arr (keys.map distsJ).toArray),
    ("adm", Json.arr (adm.map boolsJ).toArray),
    ("classes", natsJ (s.cases.map caseClass)),
    ("refclasses", natsJ (refs.map argmax))])

def kentryJ (e : KEntry) : Json := Json.arr (distJ e.key :: distJ e.val.1 :: idxJ e.val.2).toArray

/-- op "kleor": KLEORSimMiss / KLEORGlobalSim — Impl (its own NUN, stable sort) and, relative to
    the NUN rows given in "nun_rows" (the implementation's choice; `-1` = no NUN; absent = the
    model's own NUN), the Spec keys and the distances of every case to that NUN -/
def kleor (j : Json) : R Json := do
  let s ← searchIn j
  let glob ← getBool j "glob"
  if s.cases.any (fun c => c.2.isEmpty) then throw "bad-shape"
  let n := s.cases.length
  let bsz := effBs s.bs n
  let impl := kleorImpl glob sortE sortE s.P s.dk s.k s.bs s.cases s.queries
  let pc : List PCase := s.cases.map fun c => (project s.P c.1 c.2, caseClass c)
  let modelRows := impl.map fun o => rowOf n bsz o.nun.val
  let nunRows ← match fldOpt j "nun_rows" with
    | none => pure modelRows
    | some v => do
      let l ← listOf intOfJson v
      if l.length != s.queries.length || l.any (fun r => r < -1 || r ≥ (n : Int)) then throw "bad-shape"
      pure l
  let dist : PCase → PCase → Dist := fun a b => distKey s.dk a.1 b.1
  let per := List.zipWith (fun (q : Sample) (r : Int) =>
      let pq := project s.P q.1 q.2
      let qc := argmax q.2
      let dq : PCase → Dist := fun c => distKey s.dk pq c.1
      let same : PCase → Bool := fun c => c.2 == qc
      let nunCase : Option PCase := if r < 0 then none else pc[r.toNat]?
      let dn : List Dist := pc.map fun c => match nunCase with
        | none => none
        | some v => dist v c
      (pc.map dq, pc.map same, nunSpecKey dq same pc, dn,
        kleorSpecKeys glob s.k dist dq same pc nunCase)) s.queries nunRows
  pure (Json.mkObj [
    ("bsz", natJ bsz), ("card", natJ (card n bsz)),
    ("nun", Json.arr (impl.map fun o => entryJ o.nun).toArray),
    ("nun_row", intsJ modelRows),
    ("res", Json.arr (impl.map fun o => Json.arr (o.res.map kentryJ).toArray).toArray),
    ("rows", Json.arr (impl.map fun o => Json.arr (o.res.map fun e => intJ (rowOf n bsz e.val.2)).toArray).toArray),
    ("dq", Json.arr (per.map fun t => distsJ t.1).toArray),
    ("same", Json.arr (per.map fun t => boolsJ t.2.1).toArray),
    ("nun_spec", distsJ (per.map fun t => t.2.2.1)),
    ("dn", Json.arr (per.map fun t => distsJ t.2.2.2.1).toArray),
    ("spec", Json.arr (per.map fun t => distsJ t.2.2.2.2).toArray),
    ("classes", natsJ (s.cases.map caseClass)),
    ("qclasses", natsJ (s.queries.map fun q => argmax q.2))])

end Xp.Ops
