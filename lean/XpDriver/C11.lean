import XpDriver.Proto
import XpModel.Wrapper
open Lean Xp Xp.Proto
namespace Xp.Ops

def optBool (j : Json) (k : String) : R (Option Bool) :=
  match fldOpt j k with
  | none => pure none
  | some v => do pure (some (← boolOfJson v))

/-- op "tw_call": `TorchWrapper.call` around a torch module whose native results (`torch_out`,
    `torch_grad` in the module's own layout) are supplied by the harness -/
def twCall (j : Json) : R Json := do
  let x ← getRats j "x"
  let shape ← getNats j "shape"
  let flag ← optBool j "flag"
  let isConv ← listOf boolOfJson (← fld j "is_conv")
  let out ← getRatMat j "torch_out"
  let g ← getRats j "torch_grad"
  if x.length != Wrap.size shape then throw "bad-shape"
  let cf := Wrap.channelFirst flag isConv
  if cf && shape.length != 4 then throw "bad-shape"
  if g.length != x.length then throw "bad-shape"
  let m : Wrap.Module := { fwd := fun _ _ => out, vjp := fun _ _ _ => g }
  let (xt, st) := Wrap.npImgToTorch cf x shape
  let (o, gradFn) := Wrap.call cf m x shape
  pure (Json.mkObj [("channel_first", Json.bool cf), ("torch_input", ratsJ xt), ("torch_shape", natsJ st),
                    ("outputs", ratMatJ o), ("grad", ratsJ (gradFn out))])

def wrappingOfStr (s : String) : R Wrap.Wrapping :=
  match s with
  | "keras" => pure .keras
  | "tf_module" => pure .tfModule
  | "keras_layer" => pure .kerasLayer
  | "tflite" => pure .tflite
  | "predict_proba" => pure .predictProba
  | "callable" => pure .callable
  | _ => throw "bad-op"

/-- op "bb_scores": the (batched) inference function for per-sample predictions `rows` (one row per
    sample; `oned` = the model returns a 1-D array holding the first entry of each row) -/
def bbScores (j : Json) : R Json := do
  let w ← wrappingOfStr (← getStr j "wrapping")
  let rows ← getRatMat j "rows"
  let ys ← getRatMat j "ys"
  let oned ← getBool j "oned"
  let bs ← getOptNat j "bs"
  if bs == some 0 then throw "bad-op"
  if rows.length != ys.length then throw "bad-shape"
  let f : List (List Rat) → Wrap.Pred := fun xs =>
    if oned then .vec (xs.map (·.getD 0 0)) else .mat xs
  pure (Json.mkObj [("scores", ratsJ (Wrap.batchInference w f bs (List.zip rows ys))),
                    ("tf_path", Json.bool (Wrap.usesTfOperator w))])

end Xp.Ops
