import XpDriver.Proto
import XpModel.Causal
open Lean Xp Xp.Proto
namespace Xp.Ops

private def natJ14 (n : Nat) : Json := Json.num (JsonNumber.fromNat n)

/-- op "causal": Deletion / Insertion implementation model and reference spec on polynomial scores.
    `lin` = the step counts produced by NumPy's linspace for the arguments written in the source
    (observed by the harness); everything else is computed here. -/
def causal (j : Json) : R Json := do
  let deletion ← getBool j "deletion"
  let c ← getNat j "chan"
  let ce ← getOptNat j "ce"
  let ps ← getPolys j "polys"
  let bs ← getOptNat j "bs"
  let xs ← getRatMat j "xs"
  let bases ← getRatMat j "bases"
  let es ← getRatMat j "es"
  let ys ← getRatMat j "ys"
  let nf ← getNat j "nf"
  let pn ← getNat j "pn"
  let pd ← getNat j "pd"
  let steps ← getInt j "steps"
  let lin ← getNats j "lin"
  let wantOuts ← getBool j "want_outs"
  if bs == some 0 || c == 0 || pd == 0 || ce == some 0 then throw "bad-op"
  if xs.length != bases.length || xs.length != es.length || xs.length != ys.length then throw "bad-shape"
  if xs.any (fun x => x.length != nf * c) || bases.any (fun x => x.length != nf * c) then throw "bad-shape"
  let elen := match ce with
    | none => nf
    | some c' => nf * c'
  if es.any (fun e => e.length != elen) then throw "bad-shape"
  let M := Causal.maxNb nf pn pd
  let S := Causal.nbSteps steps M
  let args := Causal.linArgs M S
  let f := polyScore ps
  let op : List (List Rat × List Rat) → List Rat := fun b => b.map fun (x, y) => f x y
  let ss := Causal.mkSamples (fun le l => l.mergeSort le) deletion c ce xs bases es ys
  let impl := Causal.detailedImpl op bs ss lin
  let spec := Causal.detailedSpec f ss lin
  let vals := impl.map Prod.snd
  let auc := Causal.aucImpl vals
  let trapz : Option Rat := if vals.length ≥ 2 then some (Causal.trapzSpec (spec.map Prod.snd)) else none
  let outs : List (List (List Rat)) :=
    if wantOuts then
      (Causal.dedupKeys lin).map fun k => ss.map fun s =>
        let z := (Causal.flipSpec s.start s.end_ (s.order.take k)).flatten
        ps.map fun p => p.eval z
    else []
  pure (Json.mkObj [
    ("M", natJ14 M), ("S", natJ14 S),
    ("lin_args", intsJ [args.1, args.2.1, args.2.2]),
    ("ideal", natsJ (Causal.linspaceOf args)),
    ("steps_ok", Json.bool (Causal.stepsOk M S lin)),
    ("impl_keys", natsJ (impl.map Prod.fst)), ("impl_vals", ratsJ vals),
    ("spec_keys", natsJ (spec.map Prod.fst)), ("spec_vals", ratsJ (spec.map Prod.snd)),
    ("auc", optRatJ auc), ("trapz", optRatJ trapz),
    ("orders", Json.arr (ss.map fun s => natsJ s.order).toArray),
    ("outs", Json.arr (outs.map ratMatJ).toArray)])

end Xp.Ops
