import XpDriver.Proto
import XpModel.Lime
import XpModel.LinReg
open Lean Xp Xp.Proto
namespace Xp.Ops

private def natJ (n : Nat) : Json := Json.num (JsonNumber.fromNat n)

/-- a supplied Euclidean norm must be the (float) square root of the exact squared norm:
    `|n² − s| ≤ s · 2⁻⁴⁰`, `n ≥ 0` -/
private def normOk (n s : Rat) : Bool :=
  decide (0 ≤ n) && decide (ratAbs (n * n - s) * 1099511627776 ≤ s)

private def cfgOfJson (j : Json) : R Lime.Cfg := do
  let c ← getNat j "c"
  let ref ← getRats j "ref"
  let mapping ← getNats j "mapping"
  if c == 0 then throw "bad-op"
  if ref.length != c then throw "bad-shape"
  pure { c, ref, mapping }

/-- optional norms: `norm_x` and `norms` (aligned with the rows) -/
private def normTable (j : Json) (x : List Rat) (rows : List (List Rat)) :
    R (Option (List Rat → Rat)) := do
  match fldOpt j "norms" with
  | none => pure none
  | some _ =>
    let nx ← getRat j "norm_x"
    let ns ← getRats j "norms"
    if ns.length != rows.length then throw "bad-shape"
    if !(normOk nx (Lime.sqNorm x)) then throw "bad-norm"
    if !((rows.zip ns).all fun (r, n) => normOk n (Lime.sqNorm r)) then throw "bad-norm"
    let tbl := (x, nx) :: rows.zip ns
    pure (some fun z => match tbl.find? (fun p => p.1 == z) with
      | some p => p.2
      | none => 0)

private def cosD2 (norm : List Rat → Rat) (a b : List Rat) : Rat :=
  let d := Lime.cosDist (norm a) (norm b) a b
  d * d

private def cosD2Old (norm : List Rat → Rat) (a b : List Rat) : Rat :=
  let d := Lime.cosDistOld (norm a) (norm b) a b
  d * d

/-- op "lime_data": the chunked implementation model (masks, masked inputs handed to the score
    function chunk by chunk, targets, squared distances) and the per-sample reference Spec -/
def limeData (j : Json) : R Json := do
  let cfg ← cfgOfJson j
  let x ← getRats j "x"
  let samples ← getRatMat j "samples"
  let ps ← getPolys j "polys"
  let y ← getRats j "y"
  let bs ← getOptNat j "bs"
  let nb ← getNat j "nb"
  if bs == some 0 || nb == 0 then throw "bad-op"
  if x.length != cfg.mapping.length * cfg.c then throw "bad-shape"
  let nf := Lime.numFeatures cfg.mapping
  if samples.any (fun s => s.length != nf) then throw "bad-shape"
  let f := fun z => polyScore ps z y
  let score := fun (zs : List (List Rat)) => zs.map f
  let b := effBatch bs nb
  -- κ = id, width = 1: the "weights" slot carries D² itself
  let dE := Lime.fitData cfg score (Lime.expKernel id 1 Lime.sqDist) b x samples
  let rows := dE.queries.flatten
  let norm? ← normTable j x rows
  let masks := samples.map (Lime.getMask cfg.mapping)
  let spec := Lime.specTriples cfg f id 1 Lime.sqDist x samples
  let specRows := samples.map (Lime.maskedSpec cfg x)
  let base := [("num_features", natJ nf),
      ("chunks", natsJ (dE.queries.map List.length)),
      ("rows", ratMatJ rows), ("masks", ratMatJ masks), ("design", ratMatJ dE.design),
      ("targets", ratsJ dE.targets), ("d2", ratsJ dE.weights),
      ("dots", ratsJ (rows.map (dot x))), ("sqnorm_x", ratJ (Lime.sqNorm x)),
      ("sqnorms", ratsJ (rows.map Lime.sqNorm)),
      ("spec_rows", ratMatJ specRows), ("spec_targets", ratsJ (spec.map fun t => t.2.1)),
      ("spec_d2", ratsJ (spec.map fun t => t.2.2)),
      ("fx", ratJ (f x)), ("fref", ratJ (f (Lime.maskedSpec cfg x (List.replicate nf 0))))]
  let base ← match fldOpt j "additive_w" with
    | none => pure base
    | some _ => do
      let wt ← getRats j "additive_w"
      if wt.length != x.length then throw "bad-shape"
      let sh := Lime.shapleySeg cfg wt x nf
      pure (base ++ [("shapley", ratsJ sh), ("shapley_cells", ratsJ (Lime.broadcast cfg.mapping sh))])
  match norm? with
  | none => pure (Json.mkObj base)
  | some norm =>
    let dC := Lime.fitData cfg score (Lime.expKernel id 1 (cosD2 norm)) b x samples
    let specC := Lime.specTriples cfg f id 1 (cosD2 norm) x samples
    pure (Json.mkObj (base ++ [("cos_d2", ratsJ dC.weights),
      ("spec_cos_d2", ratsJ (specC.map fun t => t.2.2)),
      ("cos_d2_old", ratsJ (rows.map (cosD2Old norm x)))]))

/-- op "lime_rows": targets and squared distances of GIVEN rows (the recorded queries) -/
def limeRows (j : Json) : R Json := do
  let x ← getRats j "x"
  let rows ← getRatMat j "rows"
  let ps ← getPolys j "polys"
  let y ← getRats j "y"
  if rows.any (fun r => r.length != x.length) then throw "bad-shape"
  let norm? ← normTable j x rows
  let f := fun z => polyScore ps z y
  let base := [("targets", ratsJ (rows.map f)), ("d2", ratsJ (rows.map (Lime.sqDist x))),
      ("sqnorm_x", ratJ (Lime.sqNorm x)), ("sqnorms", ratsJ (rows.map Lime.sqNorm)),
      ("fx", ratJ (f x))]
  match norm? with
  | none => pure (Json.mkObj base)
  | some norm => pure (Json.mkObj (base ++ [("cos_d2", ratsJ (rows.map (cosD2 norm x)))]))

/-- op "wls": exact weighted ridge fit (checked solution of the normal equations) + broadcast -/
def wls (j : Json) : R Json := do
  let F ← getNat j "F"
  let alpha ← getRat j "alpha"
  let Z ← getRatMat j "design"
  let y ← getRats j "targets"
  let w ← getRats j "weights"
  let mapping ← getNats j "mapping"
  if Z.any (fun z => z.length != F) || y.length != Z.length || w.length != Z.length then throw "bad-shape"
  if alpha < 0 || w.any (· < 0) then throw "bad-op"
  match LinReg.wlsFit alpha F Z y w with
  | none => pure (Json.mkObj [("coef", Json.null), ("broadcast", Json.null)])
  | some bc =>
    pure (Json.mkObj [("coef", ratsJ (bc.take F)), ("intercept", ratJ (bc.getD F 0)),
      ("broadcast", ratsJ (Lime.broadcast mapping bc)),
      ("loss", ratJ (LinReg.loss alpha F Z y w bc))])

/-- op "kshap_probs": the coalition-size distribution, implementation model and reference -/
def kshapProbs (j : Json) : R Json := do
  let F ← getNat j "F"
  if F < 2 then throw "bad-op"
  pure (Json.mkObj [("impl", ratsJ (Lime.kshapProbs F)),
    ("spec", ratsJ ((List.range F).map (Lime.probSpec F)))])

/-- op "kshap_sample": the top-k thresholding on observed normal draws and drawn sizes -/
def kshapSample (j : Json) : R Json := do
  let vals ← getRatMat j "vals"
  let ks ← getNats j "ks"
  if ks.length != vals.length then throw "bad-shape"
  let out := List.zipWith Lime.kshapSample vals ks
  pure (Json.mkObj [("samples", ratMatJ out), ("counts", natsJ (out.map Lime.countOnes))])

end Xp.Ops
