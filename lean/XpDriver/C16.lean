import XpDriver.Proto
import XpModel.TopK
open Lean Xp Xp.Proto Xp.TopK
namespace Xp.Ops

def distJ : Dist → Json
  | none => Json.null
  | some r => ratJ r

def natJ (n : Nat) : Json := Json.num (JsonNumber.fromNat n)
def intJ (n : Int) : Json := Json.num (JsonNumber.fromInt n)

def idxJ : Idx → List Json
  | none => [intJ (-1), intJ (-1)]
  | some (b, p) => [natJ b, natJ p]

def entryJ (e : Entry Idx) : Json := Json.arr (distJ e.key :: idxJ e.val).toArray

def optMat (j : Json) (k : String) : R (Option (List (List Rat))) :=
  match fldOpt j k with
  | none => pure none
  | some v => do pure (some (← listOf (listOf ratOfJson) v))

def optVec (j : Json) (k : String) : R (Option (List Rat)) :=
  match fldOpt j k with
  | none => pure none
  | some v => do pure (some (← listOf ratOfJson v))

def projOfJson (j : Json) : R Proj := do
  let space ← optMat j "space"
  let wconst ← optVec j "wconst"
  let wtarget ← optMat j "wtarget"
  if wconst.isSome && wtarget.isSome then throw "bad-op"
  pure { space, wconst, wtarget }

def distKindOfJson (j : Json) : R DistKind := do
  let kind ← getStr j "kind"
  match kind with
  | "l1" => pure .l1
  | "linf" => pure .linf
  | "lp" => do
    let p ← getNat j "p"
    if p == 0 then throw "bad-op"
    pure (.lp p)
  | "wl1" => do pure (.wl1 (← getRats j "w"))
  | "cos" => pure .cos
  | _ => throw "bad-op"

/-- samples = rows zipped with their target rows (`null` targets: empty rows) -/
def samplesOfJson (j : Json) (kx kt : String) : R (List Sample) := do
  let xs ← getRatMat j kx
  match ← optMat j kt with
  | none => pure (xs.map fun x => (x, []))
  | some ts =>
    if ts.length != xs.length then throw "bad-shape"
    pure (List.zip xs ts)

structure SearchIn where
  cases : List Sample
  queries : List Sample
  P : Proj
  dk : DistKind
  k : Nat
  bs : Option Nat

/-- width of the projected space for an input of width `d` -/
def projWidth (P : Proj) (d : Nat) : R Nat :=
  match P.space with
  | none => pure d
  | some A =>
    if A.length != d then throw "bad-shape" else
    match A with
    | [] => throw "bad-shape"
    | r0 :: rest => if rest.any (fun r => r.length != r0.length) then throw "bad-shape" else pure r0.length

def searchIn (j : Json) : R SearchIn := do
  let cases ← samplesOfJson j "cases" "ctargets"
  let queries ← samplesOfJson j "queries" "qtargets"
  let P ← projOfJson (← fld j "proj")
  let dk ← distKindOfJson (← fld j "dist")
  let k ← getNat j "k"
  let bs ← getOptNat j "bs"
  if k == 0 || bs == some 0 then throw "bad-op"
  match cases with
  | [] => throw "bad-shape"
  | c0 :: _ =>
    let d := c0.1.length
    let nt := c0.2.length
    if (cases ++ queries).any (fun s => s.1.length != d || s.2.length != nt) then throw "bad-shape"
    let m ← projWidth P d
    match P.wconst with
    | some w => if w.length != m then throw "bad-shape"
    | none => pure ()
    match P.wtarget with
    | some B => if B.length != nt || B.any (fun r => r.length != m) || nt == 0 then throw "bad-shape"
    | none => pure ()
    match dk with
    | .wl1 w => if w.length != m then throw "bad-shape"
    | .cos =>
      if (cases ++ queries).any (fun s => let v := project P s.1 s.2; dot v v == 0) then throw "cos-undefined"
    | _ => pure ()
    pure { cases, queries, P, dk, k, bs }

/-- rows gathered by the model's `dataset_gather` from the batched list of row numbers -/
def rowOf (n bsz : Nat) (i : Idx) : Int :=
  match gather (batches bsz (List.range n)) i with
  | none => -1
  | some r => (r : Int)

def flatJ (bsz : Nat) (i : Idx) : Json :=
  match flatOf bsz i with
  | none => intJ (-1)
  | some f => intJ f

/-- op "knn": SimilarExamples search — batched Impl (stable sort), brute-force Spec, all keys -/
def knn (j : Json) : R Json := do
  let s ← searchIn j
  let n := s.cases.length
  let bsz := effBs s.bs n
  let impl := knnImpl sortE s.P s.dk s.k s.bs s.cases s.queries
  let spec := knnSpec s.P s.dk s.k s.cases s.queries
  let keys := s.queries.map fun q => s.cases.map (projKey s.P s.dk q)
  pure (Json.mkObj [
    ("bsz", natJ bsz), ("card", natJ (card n bsz)), ("nbatches", natJ (batches bsz s.cases).length),
    ("impl", Json.arr (impl.map fun r => Json.arr (r.map entryJ).toArray).toArray),
    ("rows", Json.arr (impl.map fun r => Json.arr (r.map fun e => intJ (rowOf n bsz e.val)).toArray).toArray),
    ("flat", Json.arr (impl.map fun r => Json.arr (r.map fun e => flatJ bsz e.val).toArray).toArray),
    ("spec", Json.arr (spec.map fun r => Json.arr (r.map distJ).toArray).toArray),
    ("keys", Json.arr (keys.map fun r => Json.arr (r.map distJ).toArray).toArray)])

def idxOfJson (j : Json) : R Idx := do
  let a ← j.getArr?
  match a.toList with
  | [b, p] => do
    let b ← intOfJson b
    let p ← intOfJson p
    if b == -1 && p == -1 then pure none
    else if b < 0 || p < 0 then throw "bad-index"
    else pure (some (b.toNat, p.toNat))
  | _ => throw "bad-index"

/-- op "gather": the model's `dataset_gather` (row number at `(batch, position)`, `-1` = fill) and
    the generated flat index, for indices returned by the implementation -/
def gatherOp (j : Json) : R Json := do
  let n ← getNat j "n"
  let bs ← getOptNat j "bs"
  if bs == some 0 then throw "bad-op"
  let bsz := effBs bs n
  let idx ← listOf idxOfJson (← fld j "idx")
  pure (Json.mkObj [
    ("bsz", natJ bsz), ("card", natJ (card n bsz)), ("nbatches", natJ (batches bsz (List.range n)).length),
    ("rows", Json.arr (idx.map fun i => intJ (rowOf n bsz i)).toArray),
    ("flat", Json.arr (idx.map fun i => flatJ bsz i).toArray)])

end Xp.Ops
