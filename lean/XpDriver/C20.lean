import XpDriver.Proto
import XpDriver.C08
import XpModel.Craft
open Lean Xp Xp.Proto
namespace Xp.Ops

/-- op "craft_patches": crops of `_extract_patches` for `(C, H, W)` images (flat row-major) -/
def craftPatches (j : Json) : R Json := do
  let c ← getNat j "c"
  let h ← getNat j "h"
  let w ← getNat j "w"
  let p ← getNat j "p"
  let imgs ← getRatMat j "imgs"
  if p == 0 || p > h || p > w || Craft.stride p == 0 then throw "bad-op"
  if imgs.any (fun i => i.length != c * h * w) then throw "bad-shape"
  let ps := Craft.extractPatches c h w p imgs
  pure (Json.mkObj [("patches", ratMatJ ps), ("stride", Json.num (JsonNumber.fromNat (Craft.stride p))),
    ("per_image", Json.num (JsonNumber.fromNat (Craft.nWin h p (Craft.stride p) * Craft.nWin w p (Craft.stride p))))])

/-- op "craft_chunks": sizes of the batches `_batch_inference` hands to the model -/
def craftChunks (j : Json) : R Json := do
  let bs ← getNat j "bs"
  let len ← getNat j "len"
  if bs == 0 then throw "bad-op"
  pure (Json.mkObj [("chunks", natsJ (Craft.chunkLens bs len))])

/-- op "craft_importance": `estimate_importance` on fitted `U`, `W`, the design and a polynomial
    head on the (pooled) activation -/
def craftImportance (j : Json) : R Json := do
  let n ← getNat j "n"
  let r ← getNat j "r"
  let bs ← getNat j "bs"
  let wbank ← getRatMat j "W"
  let masks ← getRatMat j "masks"
  let head ← polyOfJson (← fld j "head")
  if bs == 0 || n == 0 || r == 0 then throw "bad-op"
  if wbank.length != r || masks.length != n * (r + 2) || !(rectangular masks r) then throw "bad-shape"
  let nc := (wbank.headD []).length
  if !(rectangular wbank nc) || head.lin.length != nc then throw "bad-shape"
  let dim ← getNat j "dim"
  if dim == 2 then
    let u ← getRatMat j "U"
    if !(rectangular u r) then throw "bad-shape"
    let logit := fun a => head.eval a
    pure (Json.mkObj [("impl", optRatsJ (Craft.importance2 logit bs n r wbank masks u)),
                      ("spec", optRatsJ (Craft.importanceSpec2 logit n r wbank masks u))])
  else if dim == 4 then
    let u ← getRatTen3 j "U"
    if u.any (fun locs => !(rectangular locs r)) then throw "bad-shape"
    let logit := fun (locs : List (List Rat)) => head.eval (Craft.pool nc locs)
    pure (Json.mkObj [("impl", optRatsJ (Craft.importance4 logit bs n r wbank masks u)),
                      ("spec", optRatsJ (Craft.importanceSpec4 logit n r wbank masks u))])
  else throw "bad-op"

end Xp.Ops
