import XpDriver.Proto
import XpModel.Rise
open Lean Xp Xp.Proto
namespace Xp.Ops

def riseKindOfJson (j : Json) : R Rise.Kind := do
  let kind ← getStr j "kind"
  if kind == "tab" then
    pure (.tab (← getNat j "W"))
  else if kind == "ts" then
    pure (.ts (← getNat j "T") (← getNat j "W") (← getNat j "t"))
  else if kind == "img" then
    pure (.img (← getNat j "H") (← getNat j "W") (← getNat j "C") (← getNat j "h") (← getNat j "w"))
  else throw "bad-op"

def optRatsJ09 (l : List (Option Rat)) : Json := Json.arr (l.map optRatJ).toArray
def pairNatJ (p : Nat × Nat) : Json := natsJ [p.1, p.2]

def getNatPairs (j : Json) : R (List (Nat × Nat)) :=
  listOf (fun t => do
    match (← listOf natOfJson t) with
    | [a, b] => pure (a, b)
    | _ => throw "bad-op") j

/-- op "rise_up": upsample size (generated expressions), crop-offset limits and the full upsampled
    masks of the logged binary grids -/
def riseUp (j : Json) : R Json := do
  let k ← riseKindOfJson (← fld j "geom")
  let grids ← getRatMat j "grids"
  let (gh, gw) := k.gridShape
  if grids.any (fun g => g.length != gh * gw) then throw "bad-shape"
  pure (Json.mkObj [("upsize", pairNatJ k.upSize), ("offlimit", pairNatJ k.offLimit),
                    ("extent", pairNatJ k.extent),
                    ("ups", ratMatJ (grids.map (Rise.upsampled k)))])

/-- op "rise_grid": the implementation model `Rise.explain` from the logged grids and the crop
    offsets found by the harness; also returns the masks it applied -/
def riseGrid (j : Json) : R Json := do
  let k ← riseKindOfJson (← fld j "geom")
  let ps ← getPolys j "polys"
  let v ← getRat j "v"
  let eps ← getRat j "eps"
  let bs ← getOptNat j "bs"
  let grids ← getRatMat j "grids"
  let xs ← getRatMat j "xs"
  let ys ← getRatMat j "ys"
  let offss ← listOf getNatPairs (← fld j "offss")
  if bs == some 0 then throw "bad-op"
  let (gh, gw) := k.gridShape
  if grids.any (fun g => g.length != gh * gw) then throw "bad-shape"
  if xs.any (fun x => x.length != k.nflat) then throw "bad-shape"
  if xs.length != ys.length || xs.length != offss.length then throw "bad-shape"
  let (ly, lx) := k.offLimit
  if offss.any (fun offs => offs.any fun o => o.1 > ly || o.2 > lx) then throw "bad-offset"
  let b := effBatch bs grids.length
  let maps := Rise.explain k (polyScore ps) v eps bs grids xs ys offss
  let masks := offss.map fun offs => Rise.appliedAll k b grids offs
  pure (Json.mkObj [("maps", Json.arr (maps.map optRatsJ09).toArray),
                    ("masks", Json.arr (masks.map ratMatJ).toArray)])

/-- op "rise_spec": reference definition on the masks RECOVERED from the recorded queries and the
    scores of exactly these queries; the chunked accumulation on the same pairs; bounds -/
def riseSpec (j : Json) : R Json := do
  let nfeat ← getNat j "nfeat"
  let eps ← getRat j "eps"
  let bs ← getOptNat j "bs"
  let ps ← getPolys j "polys"
  let y ← getRats j "y"
  let masks ← getRatMat j "masks"
  let queries ← getRatMat j "queries"
  if bs == some 0 then throw "bad-op"
  if masks.length != queries.length then throw "bad-shape"
  if masks.any (fun m => m.length != nfeat) then throw "bad-shape"
  let scores := queries.map fun q => polyScore ps q y
  let pairs := masks.zip scores
  let b := effBatch bs masks.length
  let spec := Rise.specPairs nfeat eps pairs
  let impl := Rise.explainPairs nfeat eps b pairs
  let ratio := (List.range nfeat).map (Rise.ratio eps pairs)
  pure (Json.mkObj [("spec", optRatsJ09 spec), ("impl", optRatsJ09 impl), ("scores", ratsJ scores),
                    ("ratio", ratsJ ratio)])

end Xp.Ops
