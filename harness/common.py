"""Shared machinery of the correspondence harness (DESIGN 2.4-2.7).

Run with /venv/bin/python and PYTHONPATH=/repo (the real xplique code is imported in-process).
"""
import fcntl
import hashlib
import json
import os
import signal
import threading
import re
import subprocess
import sys
import time
from fractions import Fraction

import numpy as np

VERIF = os.path.dirname(os.path.dirname(os.path.abspath(__file__)))
LEAN = os.path.join(VERIF, "lean")
REPO = os.environ.get("XPLIQUE_REPO", "/repo")
ALLOWED_AXIOMS = {"propext", "Classical.choice", "Quot.sound"}
FORBIDDEN = re.compile(r"\b(sorry|admit|native_decide|bv_decide|implemented_by)\b|^\s*axiom\s|\bunsafe\s|maxHeartbeats\s+0")

TRUSTED_BASE = [
    "Lean 4.33 kernel; axioms allowed: propext, Classical.choice, Quot.sound (audited per theorem each run)",
    "correspondence harness (harness/*.py) and the AST translator harness/gen_arith.py",
    "TensorFlow / NumPy / PyTorch primitives (autodiff, tf.data batching order, RNGs, resize, linalg) are parameters of the model",
    "float32 rounding idealised in theorems (Rat); exact lane arranged by data, tolerance lane bounded",
]


class InfraError(Exception):
    """the machinery itself failed (exit 2) - never reported as a violation"""


# --------------------------------------------------------------------------------------
# exact numbers
# --------------------------------------------------------------------------------------
class ImplTimeout(Exception):
    """an implementation call exceeded its CPU-time budget"""


class NonFiniteValue(ValueError):
    """a NaN / inf reached an exact conversion (a value of the implementation that the model treats as a number)"""


def fr(v):
    """exact Fraction of a python / numpy scalar (floats are dyadic rationals)"""
    if isinstance(v, Fraction):
        return v
    if isinstance(v, (int, np.integer)):
        return Fraction(int(v))
    fv = float(v)
    if fv != fv or fv in (float("inf"), float("-inf")):
        raise NonFiniteValue(f"non-finite value {fv!r} where the model expects a number")
    return Fraction(fv)


def enc(v):
    """encode a scalar / nested array of numbers for the driver (exact)"""
    if isinstance(v, np.ndarray):
        return enc(v.tolist())
    if isinstance(v, (list, tuple)):
        return [enc(x) for x in v]
    if isinstance(v, (bool, np.bool_)):
        return 1 if v else 0
    f = fr(v)
    if f.denominator == 1:
        return int(f.numerator)
    return f"{f.numerator}/{f.denominator}"


def dec(j):
    """decode the driver's rationals (ints or "n/d" strings) into Fractions, recursively"""
    if isinstance(j, list):
        return [dec(x) for x in j]
    if isinstance(j, str):
        if "/" in j:
            a, b = j.split("/")
            return Fraction(int(a), int(b))
        return j
    if isinstance(j, bool) or j is None:
        return j
    if isinstance(j, int):
        return Fraction(j)
    if isinstance(j, dict):
        return {k: dec(v) for k, v in j.items()}
    raise InfraError(f"float in driver output: {j!r}")


def flat(x):
    out = []

    def rec(y):
        if isinstance(y, (list, tuple)):
            for z in y:
                rec(z)
        elif isinstance(y, np.ndarray):
            rec(y.tolist())
        else:
            out.append(y)
    rec(x)
    return out


def compare(impl, model, rtol=2e-5, atol=2e-6, scale=None):
    """Compare implementation values (floats) with model values (Fractions).

    Returns (status, maxdev) with status 'exact' | 'tol' | 'mismatch' | 'shape'.
    Exact equality of rationals is tried first; a deviation within the forward-error budget
    is float rounding (property statements say 'up to float32 rounding')."""
    a = flat(impl)
    b = flat(model)
    if len(a) != len(b):
        return "shape", float("inf")
    exact = True
    worst = 0.0
    mag = max([abs(float(v)) for v in b] + [1.0]) if scale is None else scale
    for u, v in zip(a, b):
        fu = float(u)
        if v is None:       # model says NaN / undefined
            if not (fu != fu or fu in (float("inf"), float("-inf"))):
                return "mismatch", float("inf")
            continue
        if fu != fu or fu in (float("inf"), float("-inf")):
            return "mismatch", float("inf")
        if Fraction(fu) == v:
            continue
        exact = False
        d = abs(fu - float(v))
        worst = max(worst, d)
        if d > atol * mag + rtol * max(abs(fu), abs(float(v))):
            return "mismatch", worst
    return ("exact" if exact else "tol"), worst


# --------------------------------------------------------------------------------------
# Lean driver client
# --------------------------------------------------------------------------------------
class Driver:
    def __init__(self):
        exe = os.path.join(LEAN, ".lake", "build", "bin", "xpdriver")
        if not os.path.exists(exe):
            raise InfraError("driver executable missing (run setup.sh / lean stage)")
        self.p = subprocess.Popen([exe], stdin=subprocess.PIPE, stdout=subprocess.PIPE,
                                  text=True, bufsize=1)
        self.calls = 0
        r = self.call({"op": "ping"})
        if r != "pong":
            raise InfraError("driver does not answer ping")

    def raw(self, obj):
        self.p.stdin.write(json.dumps(obj) + "\n")
        self.p.stdin.flush()
        line = self.p.stdout.readline()
        if not line:
            raise InfraError("driver died")
        self.calls += 1
        return json.loads(line)

    def call(self, obj):
        r = self.raw(obj)
        if "ok" in r:
            return dec(r["ok"])
        raise DriverErr(r.get("err", "?"))

    def close(self):
        try:
            self.p.stdin.close()
            self.p.wait(timeout=5)
        except Exception:
            self.p.kill()


class DriverErr(Exception):
    pass


# --------------------------------------------------------------------------------------
# Lean stage: regenerate Gen, build, grep, audit
# --------------------------------------------------------------------------------------
def _run(cmd, cwd=None, timeout=3000):
    p = subprocess.run(cmd, cwd=cwd, stdout=subprocess.PIPE, stderr=subprocess.STDOUT, text=True,
                       timeout=timeout)
    return p.returncode, p.stdout


def theorem_names(prop_id):
    """names of the property theorems (and count of non-vacuity examples) in Properties/<id>.lean"""
    path = os.path.join(LEAN, "XpProofs", "Properties", f"{prop_id}.lean")
    if not os.path.exists(path):
        return [], 0, path
    src = open(path).read()
    src_nc = re.sub(r"/-.*?-/", "", src, flags=re.S)
    src_nc = re.sub(r"--.*", "", src_nc)
    names = []
    ns = []
    for line in src_nc.splitlines():
        m = re.match(r"\s*namespace\s+(\S+)", line)
        if m:
            ns.append(m.group(1))
        m = re.match(r"\s*end\s+(\S+)", line)
        if m and ns and ns[-1] == m.group(1):
            ns.pop()
        m = re.match(r"\s*(?:protected\s+)?theorem\s+(\S+)", line)
        if m:
            names.append(".".join(ns + [m.group(1)]))
    examples = len(re.findall(r"^\s*example\b", src_nc, flags=re.M))
    return names, examples, path


def forbidden_tokens():
    hits = []
    for root, _, files in os.walk(LEAN):
        if ".lake" in root:
            continue
        for fn in files:
            if not fn.endswith(".lean"):
                continue
            p = os.path.join(root, fn)
            src = open(p).read()
            src_nc = re.sub(r"/-.*?-/", lambda m: "\n" * m.group(0).count("\n"), src, flags=re.S)
            for i, line in enumerate(src_nc.splitlines(), 1):
                line = re.sub(r"--.*", "", line)
                if FORBIDDEN.search(line):
                    hits.append(f"{os.path.relpath(p, LEAN)}:{i}: {line.strip()}")
    return hits


def _imports_closure(path, seen):
    if path in seen or not os.path.exists(path):
        return
    seen.add(path)
    for m in re.finditer(r"^import\s+(Xp(?:Model|Proofs|Driver)\.[\w.]+)", open(path).read(), flags=re.M):
        _imports_closure(os.path.join(LEAN, *m.group(1).split(".")) + ".lean", seen)


def gen_defs_used(prop_id):
    """names of the generated (translator lane) defs mentioned by the property file or anything it imports"""
    seen = set()
    _imports_closure(os.path.join(LEAN, "XpProofs", "Properties", f"{prop_id}.lean"), seen)
    used = set()
    for p in seen:
        if p.endswith(os.path.join("Gen", "Arith.lean")):
            continue
        used |= set(re.findall(r"Gen\.(\w+)", open(p).read()))
    return used


def lean_stage(prop_id, thorough=False):
    """Returns dict(obligations, discharged, broken=[...], gen_status, audit, build_log)."""
    t0 = time.time()
    lock = open(os.path.join(LEAN, ".build.lock"), "w")
    fcntl.flock(lock, fcntl.LOCK_EX)
    try:
        rc, out = _run([sys.executable, os.path.join(VERIF, "harness", "gen_arith.py")])
        if rc != 0:
            raise InfraError("gen_arith failed:\n" + out)
        gen = json.load(open(os.path.join(LEAN, "XpModel", "Gen", "status.json")))
        rc, out = _run(["lake", "build", "XpModel", "XpDriver", "xpdriver"], cwd=LEAN)
        if rc != 0:
            raise InfraError("model / driver build failed:\n" + out[-4000:])
        rc, out_p = _run(["lake", "build", f"XpProofs.Properties.{prop_id}"], cwd=LEAN)
        proofs_ok = rc == 0
    finally:
        fcntl.flock(lock, fcntl.LOCK_UN)
        lock.close()
    # generated defs this property's theorems / model (transitively) mention
    used = gen_defs_used(prop_id)
    gen_changed = sorted(k for k, v in gen.items() if v.get("changed") and k in used)
    res = {"gen_changed": gen_changed, "gen_used": sorted(used), "gen_status": {k: gen[k] for k in used if k in gen},
           "broken": [], "axioms": {}}
    names, examples, path = theorem_names(prop_id)
    if not names:
        raise InfraError(f"no property theorems found for {prop_id} ({path})")
    res["theorems"] = names
    res["examples"] = examples
    res["obligations"] = len(names) + examples
    hits = forbidden_tokens()
    if hits:
        raise InfraError("forbidden tokens in Lean sources:\n" + "\n".join(hits))
    if not proofs_ok:
        errs = [l for l in out_p.splitlines() if "error" in l][:20]
        if not gen_changed:
            raise InfraError("proof build failed although no generated def used by this property changed:\n" + "\n".join(errs))
        # a proof obligation broke because the source arithmetic changed
        res["broken"] = [f"lake build XpProofs.Properties.{prop_id} fails after regenerating {gen_changed}: " + " | ".join(errs[:6])]
        res["discharged"] = 0
        res["lean_wall_s"] = time.time() - t0
        return res
    if gen_changed:
        # proofs still build although a generated def differs from the reference translation
        # (e.g. algebraically equivalent rewrite, or not-extracted expression): for a not-extracted
        # expression the theorem is about the reference text, not about the source -> broken tie
        missing = [k for k in gen_changed if not gen[k].get("ok")]
        if missing:
            res["broken"] = [f"translator could not extract {missing} from the source (reference translation used)"]
    # axiom audit
    mod = f"XpProofs.Properties.{prop_id}"
    audit_src = f"import {mod}\n" + "\n".join(f"#print axioms {n}" for n in names) + "\n"
    tmp = os.path.join(LEAN, f".audit_{prop_id}_{os.getpid()}.lean")
    with open(tmp, "w") as f:
        f.write(audit_src)
    try:
        rc, out = _run(["lake", "env", "lean", tmp], cwd=LEAN)
    finally:
        os.remove(tmp)
    if rc != 0:
        raise InfraError("axiom audit failed:\n" + out[-3000:])
    text = " ".join(out.split())
    ok = 0
    for n in names:
        m = re.search(r"'" + re.escape(n) + r"' (does not depend on any axioms|depends on axioms: \[([^\]]*)\])", text)
        if not m:
            raise InfraError(f"audit: no axiom report for {n}")
        axs = [] if m.group(2) is None else [a.strip() for a in m.group(2).split(",")]
        res["axioms"][n] = axs
        if set(axs) <= ALLOWED_AXIOMS:
            ok += 1
        else:
            raise InfraError(f"theorem {n} depends on disallowed axioms {axs}")
    res["discharged"] = ok + examples
    if thorough:
        rc, out = _run(["lake", "env", "leanchecker", mod], cwd=LEAN, timeout=3000)
        res["leanchecker"] = "ok" if rc == 0 else "failed: " + out[-500:]
        if rc != 0:
            raise InfraError("leanchecker rejected " + mod + "\n" + out[-2000:])
    res["lean_wall_s"] = time.time() - t0
    return res


# --------------------------------------------------------------------------------------
# run context: counters, evidence, verdict
# --------------------------------------------------------------------------------------
class Ctx:
    def __init__(self, prop_id, tier, seed):
        self.prop = prop_id
        self.tier = tier
        self.seed = seed
        self.rng = np.random.default_rng(seed)
        self.t0 = time.time()
        self.evaluations = 0
        self.hashes = set()
        self.samples = []
        self.lanes = {"exact": 0, "tol": 0}
        self.stats = {}            # free-form distribution counters
        self.corr_failures = []    # (name, case, detail)
        self.prop_failures = []    # (clause, signature, case, detail)
        self.known_hits = {}
        self.driver = None
        self.known = load_known_findings(prop_id)
        self.lean = None
        self.budget_scale = 1

    # --- bookkeeping -----------------------------------------------------------------
    def count(self, key, sub=None, n=1):
        if sub is None:
            self.stats[key] = self.stats.get(key, 0) + n
        else:
            d = self.stats.setdefault(key, {})
            d[str(sub)] = d.get(str(sub), 0) + n

    def case(self, desc, nontrivial=True):
        """register one evaluated case (desc: small JSON-able descriptor)"""
        self.evaluations += 1
        if nontrivial:
            h = hashlib.sha1(json.dumps(desc, sort_keys=True, default=str).encode()).hexdigest()
            self.hashes.add(h)
        if len(self.samples) < 3:
            self.samples.append(desc)

    def check_corr(self, name, impl, model, case, **kw):
        """correspondence: implementation output vs executable Lean model"""
        st, dev = compare(impl, model, **kw)
        if st in ("exact", "tol"):
            self.lanes[st] += 1
            return True
        self.corr_failures.append((name, case, {"status": st, "maxdev": dev,
                                                "impl": summarize(impl), "model": summarize(model)}))
        return False

    def check_prop(self, clause, ok, case, detail=None, signature=None):
        """property predicate evaluated on the implementation"""
        if ok:
            return True
        sig = signature or clause
        for k in self.known:
            if k.get("clause") == clause and k.get("signature") == sig and k.get("status", "known") == "known":
                self.known_hits.setdefault((clause, sig), k)
                return False
        self.prop_failures.append((clause, sig, case, detail))
        return False

    def impl_call(self, case, fn, clause="implementation-raises", signature=None):
        """run implementation code on a VALID input; an exception is a property failure
        (the property promises a result), never a harness crash"""
        self.last_desc = case
        # a call that burns more CPU time than any valid case can need is a hang of the implementation (e.g. a loop whose
        # exit condition no longer becomes true): CPU time of this process, so a loaded machine cannot trigger it
        limit = float(os.environ.get("VERIF_CALL_CPU_LIMIT", "900"))
        armed = False
        if threading.current_thread() is threading.main_thread() and limit > 0:
            def _cpu(signum, frame):
                raise ImplTimeout(f"the call did not return within {limit:.0f} s of CPU time")
            signal.signal(signal.SIGVTALRM, _cpu)
            signal.setitimer(signal.ITIMER_VIRTUAL, limit)
            armed = True
        try:
            return True, fn()
        except Exception as e:  # noqa: BLE001
            self.check_prop(clause, False, case, {"exception": (type(e).__name__ + ": " + str(e))[:600]},
                            signature=signature)
            return False, None
        finally:
            if armed:
                signal.setitimer(signal.ITIMER_VIRTUAL, 0)

    def check_pred(self, clause, impl, spec, case, signature=None, **kw):
        st, dev = compare(impl, spec, **kw)
        ok = st in ("exact", "tol")
        return self.check_prop(clause, ok, case, {"status": st, "maxdev": dev,
                                                  "impl": summarize(impl), "spec": summarize(spec)},
                               signature=signature)

    # --- verdict ---------------------------------------------------------------------
    def finish(self, rule, extra=None):
        wall = time.time() - self.t0
        lean = self.lean or {}
        violations = 0
        lines = []
        os.makedirs(os.path.join(VERIF, "replays"), exist_ok=True)
        for (clause, sig), k in self.known_hits.items():
            lines.append(f"KNOWN-FINDING: property={self.prop} {k.get('what', clause + ' ' + sig)}")
        if self.prop_failures:
            clause, sig, case, detail = self.prop_failures[0]
            path = os.path.join("replays", f"{self.prop}-{self.seed}-{self.tier}.json")
            with open(os.path.join(VERIF, path), "w") as f:
                json.dump({"property": self.prop, "kind": "property-predicate-fails-on-implementation",
                           "clause": clause, "signature": sig, "case": case, "detail": detail,
                           "seed": self.seed, "tier": self.tier,
                           "other_failures": len(self.prop_failures) - 1,
                           "correspondence_failures": [c[0] for c in self.corr_failures[:5]],
                           "broken_obligations": lean.get("broken", [])}, f, indent=1, default=str)
            lines.append(f"VIOLATION property={self.prop} replay={path}")
            violations = len(self.prop_failures)
        elif self.corr_failures or lean.get("broken"):
            path = os.path.join("replays", f"{self.prop}-{self.seed}-{self.tier}.json")
            name = self.corr_failures[0][0] if self.corr_failures else "proof-obligation"
            with open(os.path.join(VERIF, path), "w") as f:
                json.dump({"property": self.prop, "kind": "broken-tie-no-failing-input",
                           "broken_obligations": lean.get("broken", []),
                           "correspondence": name,
                           "first_disagreement": (self.corr_failures[0][1:] if self.corr_failures else None),
                           "n_disagreements": len(self.corr_failures),
                           "note": "model and implementation disagree / a theorem about generated "
                                   "source arithmetic no longer checks, but no input violating the "
                                   "property itself was found within the search budget",
                           "seed": self.seed, "tier": self.tier}, f, indent=1, default=str)
            lines.append(f"VIOLATION property={self.prop} replay={path} no-failing-input-found")
            violations = max(1, len(self.corr_failures))
        cov = {
            "obligations": lean.get("obligations", 0),
            "discharged": lean.get("discharged", 0),
            "checker_cmd": "lake build XpProofs && lake env lean <#print axioms of every theorem in "
                           f"XpProofs/Properties/{self.prop}.lean>" + (" && lake env leanchecker" if self.tier == "thorough" else ""),
            "trusted_base": TRUSTED_BASE,
            "theorems": lean.get("theorems", []),
            "axioms": lean.get("axioms", {}),
            "generated_defs_changed": lean.get("gen_changed", []),
            "broken_obligations": lean.get("broken", []),
            "evaluations": self.evaluations,
            "distinct_nontrivial": len(self.hashes),
            "rule": rule,
            "samples": self.samples,
            "traces_validated_against_impl": self.lanes["exact"] + self.lanes["tol"],
            "lanes": self.lanes,
            "correspondence_failures": len(self.corr_failures),
            "property_failures": len(self.prop_failures),
            "property_failure_list": [{"clause": c, "signature": sg, "case": cs, "detail": dt}
                                      for (c, sg, cs, dt) in self.prop_failures[:8]],
            "correspondence_failure_list": [{"name": n_, "case": cs, "detail": dt}
                                            for (n_, cs, dt) in self.corr_failures[:8]],
            "known_findings_hit": [f"{c}|{s}" for (c, s) in self.known_hits],
            "distribution": self.stats,
            "driver_calls": self.driver.calls if self.driver else 0,
        }
        if extra:
            cov.update(extra)
        n_obl, n_dis = cov["obligations"], cov["discharged"]
        if not cov["discharged"]:
            # proofs did not build on this tree: nothing is discharged; fall back to the generic keys
            cov["obligations_total"] = cov.pop("obligations")
            cov["discharged_total"] = cov.pop("discharged")
        ev = {"property_id": self.prop, "tier": self.tier, "seed": int(self.seed), "level": "proof",
              "coverage": cov, "assumptions": TRUSTED_BASE, "wall_s": round(wall, 2),
              "violations": violations}
        os.makedirs(os.path.join(VERIF, "evidence"), exist_ok=True)
        # a --replay run describes one case: it must not overwrite the evidence of the last full check
        name = f"{self.prop}.replay.json" if getattr(self, "replay_mode", False) else f"{self.prop}.json"
        with open(os.path.join(VERIF, "evidence", name), "w") as f:
            json.dump(ev, f, indent=1, default=str)
        for l in lines:
            print(l, flush=True)
        print(f"[{self.prop}] tier={self.tier} seed={self.seed} obligations={n_obl} "
              f"discharged={n_dis} cases={self.evaluations} distinct={len(self.hashes)} "
              f"exact={self.lanes['exact']} tol={self.lanes['tol']} corr_fail={len(self.corr_failures)} "
              f"prop_fail={len(self.prop_failures)} wall={wall:.0f}s", flush=True)
        return 1 if violations else 0


def summarize(x, n=24):
    f = flat(x)
    return [str(v) if isinstance(v, Fraction) else (None if v is None else float(v)) for v in f[:n]] + \
        (["..."] if len(f) > n else [])


def load_known_findings(prop_id):
    p = os.path.join(VERIF, "known_findings.json")
    if not os.path.exists(p):
        return []
    data = json.load(open(p))
    return [k for k in data.get("findings", []) if k.get("property") == prop_id]


# --------------------------------------------------------------------------------------
# polynomial score models known to both sides
# --------------------------------------------------------------------------------------
class PolyModel:
    """nc outputs, each a polynomial of degree <= 3 of the flattened input with small integer
    coefficients; `__call__` evaluates in float64 on numpy input (exact on small-integer data)
    and records every batch it receives."""

    def __init__(self, rng, nflat, nc=2, quad=2, cub=0, coef=3, shape=None):
        self.nflat = nflat
        self.nc = nc
        self.shape = shape
        self.const = rng.integers(-coef, coef + 1, size=nc)
        self.lin = rng.integers(-coef, coef + 1, size=(nc, nflat))
        self.quad = [[(int(rng.integers(nflat)), int(rng.integers(nflat)), int(rng.integers(1, coef + 1)) * int(rng.choice([-1, 1])))
                      for _ in range(quad)] for _ in range(nc)]
        self.cub = [[(int(rng.integers(nflat)), int(rng.integers(nflat)), int(rng.integers(nflat)), int(rng.choice([-1, 1])))
                     for _ in range(cub)] for _ in range(nc)]
        self.calls = []   # batch sizes
        self.record = False
        self.queries = []

    def outputs(self, x):
        """x: (n, nflat) float64 -> (n, nc)"""
        out = np.zeros((x.shape[0], self.nc), dtype=np.float64)
        for c in range(self.nc):
            o = self.const[c] + x @ self.lin[c].astype(np.float64)
            for (i, j, q) in self.quad[c]:
                o = o + q * x[:, i] * x[:, j]
            for (i, j, k, q) in self.cub[c]:
                o = o + q * x[:, i] * x[:, j] * x[:, k]
            out[:, c] = o
        return out

    def __call__(self, x):
        x = np.asarray(x, dtype=np.float64)
        self.calls.append(int(x.shape[0]))
        xf = x.reshape(x.shape[0], -1)
        if self.record:
            self.queries.append(xf.copy())
        return self.outputs(xf).astype(np.float32)

    def tf_outputs(self, x):
        """same polynomial on a tf tensor (float32), differentiable"""
        import tensorflow as tf
        xf = tf.reshape(x, (tf.shape(x)[0], -1))
        outs = []
        for c in range(self.nc):
            o = self.const[c].astype(np.float32) + tf.linalg.matvec(xf, tf.constant(self.lin[c], tf.float32))
            for (i, j, q) in self.quad[c]:
                o = o + float(q) * xf[:, i] * xf[:, j]
            for (i, j, k, q) in self.cub[c]:
                o = o + float(q) * xf[:, i] * xf[:, j] * xf[:, k]
            outs.append(o)
        return tf.stack(outs, axis=1)

    def json(self):
        return [{"const": int(self.const[c]), "lin": [int(v) for v in self.lin[c]],
                 "quad": [[i, j, q] for (i, j, q) in self.quad[c]],
                 "cub": [[i, j, k, q] for (i, j, k, q) in self.cub[c]]} for c in range(self.nc)]


def small_ints(rng, shape, lo=-3, hi=3):
    return rng.integers(lo, hi + 1, size=shape).astype(np.float32)


def dyadic(rng, shape, lo=-8, hi=8, den=4):
    return (rng.integers(lo * den, hi * den + 1, size=shape) / den).astype(np.float32)


def quiet_tf():
    os.environ.setdefault("TF_CPP_MIN_LOG_LEVEL", "3")
    # oneDNN kernels give wrong / non-deterministic strided conv2d results on this CPU (TF 2.21)
    os.environ.setdefault("TF_ENABLE_ONEDNN_OPTS", "0")
    os.environ.setdefault("CUDA_VISIBLE_DEVICES", "")
    import warnings
    warnings.filterwarnings("ignore")
    import tensorflow as tf
    tf.get_logger().setLevel("ERROR")
    try:
        # the oneDNN (mkldnn) convolution kernels are also wrong / non-deterministic for some strided
        # geometries in PyTorch on this CPU (found by the C11 builder); conv is in the trusted base
        import torch
        torch.backends.mkldnn.enabled = False
    except Exception:  # noqa: BLE001
        pass
    return tf
