"""C11 - wrapping a model (TorchWrapper, callable, predict_proba) changes no result.

Part "wrap": torch modules (MLP; CNN with non-square inputs H != W, C in {1,3,4}, non-square kernels and
strides, nested containers; modules that need an explicit is_channel_first flag) - what the module receives,
the wrapper's outputs and its input gradients vs native torch forward / torch.autograd and vs the Lean model
`Wrap.call` (layout permutation + conversion decision); gradient-only white-box methods and black-box
methods / metrics through the wrapper vs native oracles.

Part "func": one integer-weight function handed over as Keras model, tf.Module, NumPy callable,
predict_proba object and (single output) 1-D-prediction variants; inference function vs the Lean model
`Wrap.batchInference`; black-box methods and metrics under the same seed must agree.

This check runs in its own process (TorchWrapper switches TensorFlow to eager mode globally).
"""
import json
import os
from fractions import Fraction

import numpy as np

from common import enc, VERIF

# oneDNN on this CPU computes BATCHED strided convolutions wrongly / non-deterministically, in TensorFlow and in
# PyTorch (nn.Conv2d(1, 2, (1, 2), stride=(1, 2)) on 16 inputs differs from the sample-by-sample result by O(1)).
# The convolution primitives are in the trusted base: run both libraries with their reference kernels.
os.environ.setdefault("TF_ENABLE_ONEDNN_OPTS", "0")       # this module is imported before TensorFlow


def _reference_kernels():
    import torch
    torch.backends.mkldnn.enabled = False

RULE = ("wrap part: case = (module kind in {mlp, cnn, nested cnn, cnn+flag, own-permute module with flag False, "
        "conv-free NCHW module with flag True}, input shape with H != W and C in {1,3,4}, non-square kernel / stride, "
        "integer weights, N, batch size); observes the tensor the module receives (forward pre-hook), wrapper outputs "
        "and tape gradients; compared with native torch on the harness's own transposition and with Lean Wrap.call; "
        "Saliency / GradientInput vs |g|, x*g of torch.autograd; IntegratedGradients / SmoothGrad through the wrapper vs "
        "through an independent harness bridge; a rotating subset of black-box methods and metrics through the wrapper "
        "vs a NumPy callable evaluating the module natively. func part: case = (tabular or image input, integer "
        "2-layer relu network, nc outputs, N, bs with remainder batches of one sample); five to seven wrappings of "
        "the same function; inference function vs Lean Wrap.batchInference and vs exact sum f(x)*y; a rotating subset "
        "of black-box methods / metrics under one seed must coincide over the wrappings. distinct = descriptor "
        "hash; non-trivial = gradients / explanations not constant")

ALL_BB = ["Occlusion", "Rise", "Sobol", "Hsic", "Deletion", "Insertion", "MuFidelity", "Lime", "KernelShap"]


def _seed(k):
    import tensorflow as tf
    import random
    tf.random.set_seed(k)
    tf.keras.utils.set_random_seed(k)
    np.random.seed(k)
    random.seed(k)


def _ints(rng, shape, lo=-2, hi=2):
    return rng.integers(lo, hi + 1, size=shape).astype("float32")


# --------------------------------------------------------------------------------------
# black-box methods / metrics with small budgets
# --------------------------------------------------------------------------------------
def run_bb(name, model, x, y, bs, image, expl_for_metrics):
    """returns a numpy array (explanations or a 1-element metric score)"""
    from xplique.attributions import (Occlusion, Rise, Lime, KernelShap, SobolAttributionMethod,
                                      HsicAttributionMethod)
    from xplique.metrics import Deletion, Insertion, MuFidelity
    _seed(1234)
    if name == "Occlusion":
        return Occlusion(model, batch_size=bs, patch_size=(min(2, x.shape[1]), min(2, x.shape[2])) if image else 1, patch_stride=1)(x, y).numpy()
    if name == "Rise":
        return Rise(model, batch_size=bs, nb_samples=12, grid_size=2)(x, y).numpy()
    if name == "Sobol":
        return SobolAttributionMethod(model, batch_size=bs, grid_size=2, nb_design=4)(x, y).numpy()
    if name == "Hsic":
        return HsicAttributionMethod(model, batch_size=bs, grid_size=2, nb_design=8)(x, y).numpy()
    if name == "Lime":
        return Lime(model, batch_size=bs, nb_samples=24)(x, y).numpy()
    if name == "KernelShap":
        return KernelShap(model, batch_size=bs, nb_samples=24)(x, y).numpy()
    if name == "Deletion":
        return np.array([Deletion(model, x, y, batch_size=bs, steps=3)(expl_for_metrics)], dtype=np.float64)
    if name == "Insertion":
        return np.array([Insertion(model, x, y, batch_size=bs, steps=3)(expl_for_metrics)], dtype=np.float64)
    if name == "MuFidelity":
        return np.array([MuFidelity(model, x, y, batch_size=bs, nb_samples=6, grid_size=2 if image else None,
                                    subset_percent=0.5)(expl_for_metrics)], dtype=np.float64)
    raise ValueError(name)


def bb_applicable(name, image):
    if name in ("Rise", "Sobol", "Hsic"):
        return image
    if name in ("Lime", "KernelShap"):
        return not image
    return True


def fracs(a):
    """reference values as exact rationals; NaN / inf become None (compare() then demands NaN / inf)"""
    return [Fraction(float(v)) if np.isfinite(v) else None for v in np.asarray(a, dtype=np.float64).reshape(-1)]


def pred_equal(ctx, clause, impl, ref, case, **kw):
    """property predicate `impl == ref` (ref: float array produced by the native / reference path)"""
    ref = np.asarray(ref, dtype=np.float64)
    fin = ref[np.isfinite(ref)]
    kw.setdefault("scale", max(1.0, float(np.abs(fin).max()) if fin.size else 1.0))
    return ctx.check_pred(clause, impl, fracs(ref), case, **kw)


# --------------------------------------------------------------------------------------
# wrap part
# --------------------------------------------------------------------------------------
def build_torch(d, rng):
    import torch
    from torch import nn
    import torch.nn.functional as F
    kind = d["kind"]
    nc = d["nc"]
    if kind == "mlp":
        D = d["in_shape"][0]
        net = nn.Sequential(nn.Linear(D, d["hidden"]), nn.ReLU(), nn.Linear(d["hidden"], nc))
    else:
        H, W, C = d["in_shape"]
        Fo, kh, kw, sh, sw = d["conv"]
        hp, wp = (H - kh) // sh + 1, (W - kw) // sw + 1
        if kind in ("cnn", "cnn_flag"):
            net = nn.Sequential(nn.Conv2d(C, Fo, (kh, kw), stride=(sh, sw)), nn.ReLU(), nn.Flatten(),
                                nn.Linear(Fo * hp * wp, nc))
        elif kind == "nested":
            class Block(nn.Module):
                def __init__(self):
                    super().__init__()
                    self.body = nn.Sequential(nn.Sequential(nn.Conv2d(C, Fo, (kh, kw), stride=(sh, sw))), nn.ReLU())

                def forward(self, x):
                    return self.body(x)

            class Net(nn.Module):
                def __init__(self):
                    super().__init__()
                    self.block = Block()
                    self.head = nn.Linear(Fo * hp * wp, nc)

                def forward(self, x):
                    return self.head(self.block(x).flatten(1))
            net = Net()
        elif kind == "own_permute":
            class Net(nn.Module):          # contains a Conv2d but expects channel-LAST inputs
                def __init__(self):
                    super().__init__()
                    self.c = nn.Conv2d(C, Fo, (kh, kw), stride=(sh, sw))
                    self.head = nn.Linear(Fo * hp * wp, nc)

                def forward(self, x):
                    return self.head(torch.relu(self.c(x.permute(0, 3, 1, 2))).flatten(1))
            net = Net()
        elif kind == "functional":
            class Net(nn.Module):          # no Conv2d module, but expects channel-FIRST inputs
                def __init__(self):
                    super().__init__()
                    self.w = nn.Parameter(torch.zeros(Fo, C, kh, kw))
                    self.head = nn.Linear(Fo * hp * wp, nc)

                def forward(self, x):
                    return self.head(torch.relu(F.conv2d(x, self.w, stride=(sh, sw))).flatten(1))
            net = Net()
        elif kind in ("param_dense", "param_conv"):
            # ONE user-defined class whose layers depend on a constructor argument (added after a seeded per-class
            # cache of the Conv2d inspection was missed)
            net = _param_class()(kind == "param_conv", C, Fo, kh, kw, sh, sw, hp, wp, H, W, nc)
        else:
            raise ValueError(kind)
    with torch.no_grad():
        for p in net.parameters():
            p.copy_(torch.tensor(_ints(rng, tuple(p.shape))))
    return net.eval()


_PARAM = {}


def _param_class():
    if "cls" not in _PARAM:
        import torch
        from torch import nn

        class Classifier(nn.Module):
            def __init__(self, use_conv, C, Fo, kh, kw, sh, sw, hp, wp, H, W, nc):
                super().__init__()
                self.use_conv = use_conv
                if use_conv:
                    self.body = nn.Conv2d(C, Fo, (kh, kw), stride=(sh, sw))
                    self.head = nn.Linear(Fo * hp * wp, nc)
                else:
                    self.body = nn.Flatten()
                    self.head = nn.Linear(H * W * C, nc)

            def forward(self, x):
                z = self.body(x)
                return self.head(torch.relu(z).flatten(1) if self.use_conv else z)
        _PARAM["cls"] = Classifier
    return _PARAM["cls"]


def run_wrap_case(ctx, d):
    import tensorflow as tf
    import torch
    from xplique.wrappers import TorchWrapper
    from xplique.attributions import (Saliency, GradientInput, IntegratedGradients, SmoothGrad, VarGrad,
                                      SquareGrad)
    rng = np.random.default_rng(d["case_seed"])
    net = build_torch(d, rng)
    flag = d["flag"]
    image = len(d["in_shape"]) == 3
    n, bs, nc = d["N"], d["bs"], d["nc"]
    x = _ints(rng, (n,) + tuple(d["in_shape"]))
    y = (rng.integers(-4, 5, size=(n, nc)) / 2).astype("float32")
    if not np.any(y):
        y[0, 0] = 1.0
    if d["kind"] == "param_dense":
        # a convolutional instance of the SAME class is wrapped first in the same process
        from xplique.wrappers import TorchWrapper as _TW
        ok, w0 = ctx.impl_call(dict(d, step="prelude"), lambda: _TW(build_torch(dict(d, kind="param_conv"), rng), "cpu"))
        if ok:
            ctx.check_prop("conversion-decision", bool(w0.channel_first), dict(d, step="prelude"), {"channel_first": bool(w0.channel_first)})
    seen = []
    net.register_forward_pre_hook(lambda m, inp: seen.append(inp[0].detach().cpu().numpy().copy()))
    ok, wr = ctx.impl_call(d, lambda: TorchWrapper(net, "cpu", is_channel_first=flag))
    if not ok:
        ctx.case(d, False)
        return
    kinds = [bool(isinstance(m, torch.nn.Conv2d)) for m in net.modules()]
    want_cf = bool(flag) if flag is not None else any(kinds)
    needs_cf = d["kind"] in ("cnn", "cnn_flag", "nested", "functional", "param_conv")
    ctx.count("wrap_kind", d["kind"])
    ctx.check_prop("conversion-decision", bool(wr.channel_first) == want_cf and want_cf == needs_cf, d,
                   {"channel_first": bool(wr.channel_first), "flag": flag, "has_conv2d": any(kinds)})
    # native torch on the harness's own transposition
    x_nat = np.ascontiguousarray(x.transpose(0, 3, 1, 2)) if needs_cf else x
    xt = torch.tensor(x_nat, requires_grad=True)
    out_n = net(xt)
    g_n, = torch.autograd.grad(out_n, xt, grad_outputs=torch.tensor(y))
    out_n = out_n.detach().numpy()
    g_n = g_n.numpy()
    g_cl = np.ascontiguousarray(g_n.transpose(0, 2, 3, 1)) if needs_cf else g_n
    seen.clear()

    def through_wrapper():
        o = wr(x).numpy()
        got = seen[-1]
        xtf = tf.constant(x)
        with tf.GradientTape() as tape:
            tape.watch(xtf)
            s = tf.reduce_sum(wr(xtf) * y, axis=-1)
        return o, got, tape.gradient(s, xtf).numpy()
    ok, r = ctx.impl_call(d, through_wrapper)
    if not ok:
        ctx.case(d, False)
        return
    out_w, got_in, g_w = r
    lm = ctx.driver.call({"op": "tw_call", "x": enc(x.reshape(-1)), "shape": [int(v) for v in x.shape],
                          "flag": flag, "is_conv": kinds, "torch_out": enc(out_n), "torch_grad": enc(g_n.reshape(-1))})
    ctx.check_corr("channel_first_decision", [1.0 if wr.channel_first else 0.0], [Fraction(1 if lm["channel_first"] else 0)], d)
    ctx.check_corr("np_img_to_torch_shape", list(got_in.shape), lm["torch_shape"], d)
    ctx.check_corr("np_img_to_torch", got_in.reshape(-1), lm["torch_input"], d)
    ctx.check_corr("wrapper_outputs", out_w.reshape(-1), [v for row in lm["outputs"] for v in row], d)
    ctx.check_corr("wrapper_gradient", g_w.reshape(-1), lm["grad"], d)
    ctx.check_prop("module-receives-native-layout", got_in.shape == x_nat.shape and np.array_equal(got_in, x_nat), d,
                   {"got_shape": list(got_in.shape), "want_shape": list(x_nat.shape)})
    pred_equal(ctx, "outputs-equal-native", out_w, out_n, d)
    ctx.check_prop("gradient-shape", g_w.shape == x.shape, d, {"got": list(g_w.shape)})
    if g_w.shape == x.shape:
        pred_equal(ctx, "input-gradient-equal-native", g_w, g_cl, d)
    # gradient-only white-box methods through the wrapper
    for name, fn, want in (("Saliency", lambda: Saliency(wr, batch_size=bs, reducer=None)(x, y).numpy(), np.abs(g_cl)),
                           ("GradientInput", lambda: GradientInput(wr, batch_size=bs, reducer=None)(x, y).numpy(), x * g_cl)):
        ok, e = ctx.impl_call(dict(d, method=name), fn)
        if ok:
            pred_equal(ctx, f"whitebox-{name}-equal-native", e, want, dict(d, method=name))

    # repeated gradients through ONE wrapper on the SAME tf.Tensor object, un-batched (added after a seeded change was
    # missed): every call must return the native gradient again (nothing accumulated / cached between calls)
    xtf_same = tf.constant(x)
    ytf_same = tf.constant(y)

    def repeated():
        sal = Saliency(wr, batch_size=None, reducer=None)
        outs = [sal(xtf_same, ytf_same).numpy() for _ in range(3)]
        gin = GradientInput(wr, batch_size=None, reducer=None)(xtf_same, ytf_same).numpy()
        return outs, gin
    ok, r = ctx.impl_call(dict(d, method="repeated-calls"), repeated)
    if ok:
        for i_, o_ in enumerate(r[0]):
            pred_equal(ctx, "whitebox-repeated-call-equal-native", o_, np.abs(g_cl), dict(d, method="Saliency", call=i_))
        pred_equal(ctx, "whitebox-repeated-call-equal-native", r[1], x * g_cl, dict(d, method="GradientInput", call=3))

    @tf.custom_gradient
    def bridge(z):                       # independent bridge written by the harness
        zt = torch.tensor(np.ascontiguousarray(z.numpy().transpose(0, 3, 1, 2)) if needs_cf else z.numpy(),
                          requires_grad=True)
        o = net(zt)

        def grad(up):
            gg, = torch.autograd.grad(o, zt, grad_outputs=torch.tensor(up.numpy()))
            gg = gg.numpy()
            return tf.constant(np.ascontiguousarray(gg.transpose(0, 2, 3, 1)) if needs_cf else gg)
        return tf.constant(o.detach().numpy()), grad

    def op(f, a, b):
        return tf.reduce_sum(f(a) * b, axis=-1)
    # steps = 5: the interpolation coefficients 0, 1/4, .., 1 are dyadic, so every pre-activation on the path is
    # exact in float32 and a ReLU kink hit exactly on the path (integer data!) is hit identically by both sides
    # (with steps = 4 the kernels chosen for differently strided inputs round 2/3 * x differently)
    wb = [("IntegratedGradients", lambda m, **kw: IntegratedGradients(m, batch_size=bs, steps=5, reducer=None, **kw)),
          ("SmoothGrad", lambda m, **kw: SmoothGrad(m, batch_size=bs, nb_samples=3, noise=0.5, reducer=None, **kw)),
          ("VarGrad", lambda m, **kw: VarGrad(m, batch_size=bs, nb_samples=3, noise=0.5, reducer=None, **kw)),
          ("SquareGrad", lambda m, **kw: SquareGrad(m, batch_size=bs, nb_samples=3, noise=0.5, reducer=None, **kw))]
    for name, mk in wb if ctx.tier == "thorough" else [wb[d["case_seed"] % 4]]:
        dd = dict(d, method=name)

        def both():
            _seed(77)
            a = mk(wr)(x, y).numpy()
            _seed(77)
            b = mk(bridge, operator=op)(x, y).numpy()
            return a, b
        ok, r = ctx.impl_call(dd, both)
        if ok:
            pred_equal(ctx, f"whitebox-{name}-equal-native", r[0], r[1], dd, rtol=1e-4)
    # black-box methods / metrics through the wrapper vs the module evaluated natively by a NumPy callable

    def fnp(z):
        z = np.asarray(z, dtype=np.float32)
        with torch.no_grad():
            return net(torch.tensor(np.ascontiguousarray(z.transpose(0, 3, 1, 2)) if needs_cf else z)).numpy()
    expl = _ints(rng, x.shape[:3] + (1,) if image else x.shape, -3, 3)
    names = [m for m in ALL_BB if bb_applicable(m, image)]
    if ctx.tier != "thorough":
        k = d["case_seed"] % len(names)
        names = [names[k], names[(k + 3) % len(names)]]
    for name in names:
        dd = dict(d, method=name)
        ok, r = ctx.impl_call(dd, lambda: (run_bb(name, wr, x, y, bs, image, expl), run_bb(name, fnp, x, y, bs, image, expl)))
        if ok:
            ctx.count("wrap_blackbox", name)
            pred_equal(ctx, f"blackbox-{name}-equal-native", r[0], r[1], dd, rtol=1e-4)
    ctx.count("wrap_bs", "none" if bs is None else ("lt" if bs < n else "ge"))
    ctx.case(d, bool(np.any(g_cl)) and len(set(g_cl.reshape(-1).tolist())) > 1)


def gen_wrap_cases(ctx):
    rng = ctx.rng
    thorough = ctx.tier == "thorough"
    ncases = (60 if thorough else 12) * ctx.budget_scale
    kinds = ["cnn", "nested", "mlp", "cnn_flag", "param_dense", "own_permute", "functional", "cnn", "param_conv"]
    cases = []
    for i in range(ncases):
        kind = kinds[i % len(kinds)]
        d = {"part": "wrap", "kind": kind, "nc": int(rng.integers(1, 4)), "N": int(rng.integers(1, 5)),
             "bs": [None, 1, 2, 3, 16][int(rng.integers(5))], "case_seed": int(rng.integers(1 << 31))}
        if kind == "mlp":
            d["in_shape"] = [int(rng.integers(2, 7))]
            d["hidden"] = int(rng.integers(2, 5))
            d["flag"] = None if rng.random() < 0.7 else False
        else:
            H, W = int(rng.integers(3, 7)), int(rng.integers(3, 7))
            if H == W:
                W += 1
            C = [1, 3, 4][int(rng.integers(3))]
            kh, kw = int(rng.integers(1, 4)), int(rng.integers(1, 4))
            if kh == kw:
                kw = kw % 3 + 1
            if rng.random() < 0.3:
                # "strip" images: one singleton spatial axis with C > 1 (added after a seeded reshape shortcut was missed)
                C = [3, 4, 2][int(rng.integers(3))]
                if rng.random() < 0.5:
                    H, kh = 1, 1
                else:
                    W, kw = 1, 1
            d["in_shape"] = [H, W, C]
            d["conv"] = [int(rng.integers(1, 4)), kh, kw, int(rng.integers(1, 3)), int(rng.integers(1, 3))]
            d["flag"] = {"cnn": None, "nested": None, "cnn_flag": True, "own_permute": False, "functional": True,
                         "param_dense": None, "param_conv": None}[kind]
        cases.append(d)
    return cases


# --------------------------------------------------------------------------------------
# func part
# --------------------------------------------------------------------------------------
def build_wrappings(tf, d, rng):
    shape = tuple(d["in_shape"])
    nflat = int(np.prod(shape))
    h, nc = d["hidden"], d["nc"]
    W1, b1 = _ints(rng, (nflat, h)), _ints(rng, (h,))
    W2, b2 = _ints(rng, (h, nc)), _ints(rng, (nc,))
    inp = tf.keras.Input(shape)
    z = tf.keras.layers.Flatten()(inp) if len(shape) > 1 else inp
    z = tf.keras.layers.Dense(h, activation="relu")(z)
    out = tf.keras.layers.Dense(nc)(z)
    keras = tf.keras.Model(inp, out)
    keras.set_weights([W1, b1, W2, b2])
    # a checkpoint-like sibling: same architecture, SAME NAME, same input / output shapes, other weights, explained by a
    # black-box method before `keras` is (added after a seeded name-keyed model cache was missed): the Keras route must still
    # explain `keras` itself
    from xplique.attributions import Occlusion
    decoy = tf.keras.models.clone_model(keras)
    decoy.set_weights([W1[::-1].copy(), b1 + 1, -W2, b2 - 1])
    try:
        Occlusion(decoy, batch_size=4)
    except Exception:  # noqa: BLE001
        pass
    keras._verif_sibling = decoy           # kept alive with the model

    class TFM(tf.Module):
        def __call__(self, a):
            a = tf.reshape(tf.cast(a, tf.float32), (-1, nflat))
            return tf.matmul(tf.nn.relu(tf.matmul(a, W1) + b1), W2) + b2

    def fnp(a):
        a = np.asarray(a, dtype=np.float32).reshape(-1, nflat)
        return (np.maximum(a @ W1 + b1, 0) @ W2 + b2).astype(np.float32)

    class PP:
        def predict_proba(self, a):
            return fnp(a)
    ws = [("keras", keras, False), ("tf_module", TFM(), False), ("callable", fnp, False), ("predict_proba", PP(), False)]
    if nc == 1:
        class PP1:
            def predict_proba(self, a):
                return fnp(a)[:, 0]
        ws += [("callable", lambda a: fnp(a)[:, 0], True), ("predict_proba", PP1(), True)]
    return ws, fnp


def run_func_case(ctx, d):
    import tensorflow as tf
    from xplique.commons.operators_operations import get_inference_function
    from xplique.commons.callable_operations import predictions_one_hot_callable
    rng = np.random.default_rng(d["case_seed"])
    ws, fnp = build_wrappings(tf, d, rng)
    image = len(d["in_shape"]) == 3
    n, bs, nc = d["N"], d["bs"], d["nc"]
    x = _ints(rng, (n,) + tuple(d["in_shape"]))
    y = (rng.integers(-4, 5, size=(n, nc)) / 2).astype("float32")
    if not np.any(y):
        y[0, 0] = 1.0
    rows = fnp(x).astype(np.float64)                 # exact on integer data
    exact_scores = [sum(Fraction(float(a)) * Fraction(float(b)) for a, b in zip(r, t)) for r, t in zip(rows, y)]
    expl = _ints(rng, x.shape[:3] + (1,) if image else x.shape, -3, 3)
    names = [m for m in ALL_BB if bb_applicable(m, image)]
    if ctx.tier != "thorough":
        k = d["case_seed"] % len(names)
        names = sorted({"Occlusion", names[k], names[(k + 2) % len(names)]})
    ref = {}
    for wname, model, oned in ws:
        dd = dict(d, wrapping=wname, oned=oned)
        ctx.count("func_wrapping", wname + ("-1d" if oned else ""))
        # the inference function itself
        def infer():
            inf, binf = get_inference_function(model)
            return (inf(model, tf.constant(x), tf.constant(y)).numpy(),
                    binf(model, tf.constant(x), tf.constant(y), bs).numpy(),
                    inf is predictions_one_hot_callable)
        ok, r = ctx.impl_call(dd, infer)
        if ok:
            lm = ctx.driver.call({"op": "bb_scores", "wrapping": wname, "rows": enc(rows), "ys": enc(y),
                                  "oned": oned, "bs": bs})
            lm1 = ctx.driver.call({"op": "bb_scores", "wrapping": wname, "rows": enc(rows), "ys": enc(y),
                                   "oned": oned, "bs": None})
            ctx.check_corr("inference_dispatch", [0.0 if r[2] else 1.0], [Fraction(1 if lm["tf_path"] else 0)], dd)
            ctx.check_corr("inference_function", r[0], lm1["scores"], dd)
            ctx.check_corr("batch_inference_function", r[1], lm["scores"], dd)
            ctx.check_pred("scores-equal-sum-f(x)*y", r[1], exact_scores, dd)
        for name in names:
            dm = dict(dd, method=name)
            ok, e = ctx.impl_call(dm, lambda: run_bb(name, model, x, y, bs, image, expl))
            if not ok:
                continue
            ctx.count("func_blackbox", name)
            if name not in ref:
                ref[name] = e
            else:
                ctx.check_prop("same-shape-over-wrappings", e.shape == ref[name].shape, dm,
                               {"got": list(e.shape), "ref": list(ref[name].shape)})
                if e.shape == ref[name].shape:
                    pred_equal(ctx, f"same-result-{name}", e, ref[name], dm, rtol=1e-4)
    ctx.count("func_bs", "none" if bs is None else ("remainder-1" if n % bs == 1 and n > 1 else ("lt" if bs < n else "ge")))
    ctx.count("func_input", "image" if image else "tabular")
    ctx.case(d, "Occlusion" in ref and len(set(np.round(ref["Occlusion"].reshape(-1), 5).tolist())) > 1)


def gen_func_cases(ctx):
    rng = ctx.rng
    thorough = ctx.tier == "thorough"
    ncases = (36 if thorough else 8) * ctx.budget_scale
    cases = []
    for i in range(ncases):
        image = i % 2 == 0
        if image:
            H, W = int(rng.integers(2, 6)), int(rng.integers(2, 6))
            if H == W:
                W += 1
            in_shape = [H, W, [1, 3][int(rng.integers(2))]]
        else:
            in_shape = [int(rng.integers(2, 7))]
        nc = 1 if i % 4 < 2 else int(rng.integers(2, 4))
        bs = [None, 1, 2, 3, 16][int(rng.integers(5))]
        n = int(rng.integers(1, 6))
        if i % 4 == 1:
            bs = int(rng.integers(2, 4))
        if bs in (2, 3) and (i % 4 == 1 or rng.random() < 0.5):
            n = bs + 1                                  # remainder batch of exactly one sample
        cases.append({"part": "func", "in_shape": in_shape, "hidden": int(rng.integers(2, 5)), "nc": nc, "N": n,
                      "bs": bs, "case_seed": int(rng.integers(1 << 31))})
    return cases


# --------------------------------------------------------------------------------------
def eager_probe():
    """results of a fixed Keras case; computed before any TorchWrapper exists and again afterwards"""
    import tensorflow as tf
    from xplique.attributions import Saliency, Occlusion
    rng = np.random.default_rng(4242)
    inp = tf.keras.Input((5,))
    out = tf.keras.layers.Dense(2)(tf.keras.layers.Dense(3, activation="relu")(inp))
    m = tf.keras.Model(inp, out)
    m.set_weights([_ints(rng, w.shape) for w in m.get_weights()])
    x, y = _ints(rng, (3, 5)), _ints(rng, (3, 2), -1, 1)
    return m, x, y, (lambda: (Saliency(m, batch_size=2)(x, y).numpy(), Occlusion(m, batch_size=2)(x, y).numpy()))


def corpus_cases():
    p = os.path.join(VERIF, "corpus", "C11")
    out = []
    if os.path.isdir(p):
        for fn in sorted(os.listdir(p)):
            if fn.endswith(".json"):
                out.append(json.load(open(os.path.join(p, fn))))
    return out


def run_eager_probe(ctx):
    """stand-alone form of the eager-switch clause (used by --replay)"""
    import tensorflow as tf
    import torch
    from xplique.wrappers import TorchWrapper
    _, _, _, probe = eager_probe()
    before = probe()
    TorchWrapper(torch.nn.Linear(2, 1).eval(), "cpu")
    after = probe()
    d = {"part": "eager-probe", "eager_after": bool(tf.config.functions_run_eagerly())}
    ctx.check_prop("eager-switch-changes-no-result", all(np.array_equal(a, b) for a, b in zip(before, after)), d)
    ctx.case(d, True)


def run_case(ctx, d):
    d = {k: v for k, v in d.items() if k not in ("method", "wrapping", "oned")}
    if d["part"] == "eager-probe":
        run_eager_probe(ctx)
    elif d["part"] == "wrap":
        run_wrap_case(ctx, d)
    else:
        run_func_case(ctx, d)


def run(ctx):
    import tensorflow as tf
    _reference_kernels()
    _, _, _, probe = eager_probe()
    eager_before = tf.config.functions_run_eagerly()
    before = probe()
    funcs = gen_func_cases(ctx)
    wraps = gen_wrap_cases(ctx)
    half = len(funcs) // 2
    for d in corpus_cases() + funcs[:half] + wraps + funcs[half:]:
        run_case(ctx, d)
    after = probe()
    d = {"part": "eager-probe", "eager_before": bool(eager_before), "eager_after": bool(tf.config.functions_run_eagerly())}
    ctx.check_prop("eager-switch-changes-no-result",
                   all(np.array_equal(a, b) for a, b in zip(before, after)), d)
    ctx.count("eager_mode_after_wrappers", str(d["eager_after"]))


def replay(ctx, r):
    _reference_kernels()
    run_case(ctx, r["case"] if "case" in r else r["first_disagreement"][0])
