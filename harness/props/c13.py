"""C13 - explainers and metrics are reusable: results do not depend on call history.

Implementation: random histories of explain / evaluate calls on ONE object (16 methods, 4 metrics),
interleaved with explainers built on other models (some created and garbage-collected in between).
Model: Lean Hist.* state machines (Occlusion geometry, Lime defaults, model cache).
"""
import gc
from fractions import Fraction

import numpy as np

RULE = ("cases = (method or metric, data kind, history of 1-4 (quick) / 1-8 (thorough) earlier calls with varying "
        "N / inputs / targets, interleaved constructions of explainers on other live or discarded models); the last "
        "call is compared with the same call on a FRESH object under the same seeds (methods are configured so that "
        "their random draws cannot change the result: noise 0, fixed perturbation function, additive model for "
        "KernelShap / MuFidelity), repeated for idempotence, inputs / targets / model weights are compared "
        "byte-wise before and after, mutated fields (Occlusion patch geometry, Lime defaults, the class-level "
        "model cache) are read back and compared with the Lean state machines; distinct = descriptor hash; "
        "non-trivial = history length >= 2 and the final result is not constant")

ATTR = ["Saliency", "GradientInput", "IntegratedGradients", "SmoothGrad", "SquareGrad", "VarGrad", "DeconvNet",
        "GuidedBackprop", "GradCAM", "GradCAMPP", "Occlusion", "Rise", "Lime", "KernelShap", "Sobol", "Hsic"]
METRICS = ["Deletion", "Insertion", "MuFidelity", "AverageStability"]
IMG_ONLY = {"GradCAM", "GradCAMPP", "Sobol", "Hsic"}
_KEEP = []       # models kept alive on purpose


def make_model(tf, kind, shape, seed, linear=False, name=None):
    rng = np.random.default_rng(seed)
    inp = tf.keras.Input(tuple(shape))
    if kind == "img" and not linear:
        c = tf.keras.layers.Conv2D(2, (2, 2), padding="same", activation="relu")(inp)
        f = tf.keras.layers.Flatten()(c)
    elif len(shape) > 1:
        f = tf.keras.layers.Flatten()(inp)
    else:
        f = inp
    if linear:
        out = tf.keras.layers.Dense(2)(f)
    else:
        h = tf.keras.layers.Dense(4, activation="tanh")(f)
        out = tf.keras.layers.Dense(2)(h)
    m = tf.keras.Model(inp, out, name=name) if name else tf.keras.Model(inp, out)
    for v in m.trainable_variables:
        v.assign((rng.integers(-4, 5, size=v.shape) / 4.0).astype(np.float32))
    return m


def lime_pertub(nf, ns):
    import tensorflow as tf
    nf = int(np.asarray(nf).reshape(-1)[0])
    r = np.random.RandomState(12345)
    s = (r.rand(int(ns), nf) < 0.5).astype(np.int32)
    s[0, :] = 1
    return tf.constant(s)


def build_attr(name, model, kind, cfg):
    from xplique import attributions as A
    if name in ("Saliency", "GradientInput", "DeconvNet", "GuidedBackprop", "GradCAM", "GradCAMPP"):
        return getattr(A, name)(model, batch_size=cfg["bs"])
    if name == "IntegratedGradients":
        return A.IntegratedGradients(model, batch_size=cfg["bs"], steps=3, baseline_value=0.25)
    if name in ("SmoothGrad", "SquareGrad", "VarGrad"):
        return getattr(A, name)(model, batch_size=cfg["bs"], nb_samples=3, noise=0.0)
    if name == "Occlusion":
        tup = lambda v: tuple(v) if isinstance(v, list) else v  # noqa: E731
        return A.Occlusion(model, batch_size=cfg["bs"], patch_size=tup(cfg["patch"]), patch_stride=tup(cfg["stride"]))
    if name == "Rise":
        # preservation 1.0: the draws cannot change the result; 0.5: the draws matter and are aligned between the used and the
        # fresh object by re-seeding TensorFlow before the compared calls (tf.random.set_seed resets the kernels' counters)
        return A.Rise(model, batch_size=cfg["bs"], nb_samples=5, grid_size=2, preservation_probability=cfg.get("rise_p", 1.0))
    if name == "Lime":
        return A.Lime(model, batch_size=cfg["bs"], nb_samples=12, pertub_func=lime_pertub)
    if name == "KernelShap":
        return A.KernelShap(model, batch_size=cfg["bs"], nb_samples=60)
    if name == "Sobol":
        return A.SobolAttributionMethod(model, grid_size=2, nb_design=4, batch_size=cfg["bs"])
    if name == "Hsic":
        return A.HsicAttributionMethod(model, grid_size=2, nb_design=8, batch_size=cfg["bs"])
    raise ValueError(name)


def occl_state(e):
    def conv(v):
        return [int(v[0]), int(v[1])] if isinstance(v, tuple) else int(v)
    return {"patch": conv(e.patch_size), "stride": conv(e.patch_stride)}


def lime_state(e):
    from xplique.attributions import Lime
    ref = e.ref_value
    if ref is None:
        r = None
    else:
        v = np.asarray(ref).reshape(-1)
        r = "zeros1" if (v.size == 1 and v[0] == 0) else ("grey3" if (v.size == 3 and np.all(v == 0.5)) else "user")
    mp = e.map_to_interpret_space
    names = {Lime._default_tab_map_to_interpret_space: "tab", Lime._default_time_series_map_to_interpret_space: "ts",
             Lime._default_image_map_to_interpret_space: "quickshift",
             Lime._default_2dimage_map_to_interpret_space: "felzenszwalb"}
    m = None if mp is None else names.get(mp, "user")
    return {"ref": r, "map": m}


def run_attr_case(ctx, d):
    import tensorflow as tf
    rng = np.random.default_rng(d["case_seed"])
    name, kind, shape = d["method"], d["kind"], tuple(d["shape"])
    linear = name == "KernelShap"
    model = make_model(tf, kind, shape, d["model_seed"], linear=linear)
    w0 = [w.copy() for w in model.get_weights()]
    cfg = d["cfg"]

    def data(n):
        x = (rng.integers(-4, 5, size=(n,) + shape) / 4.0).astype(np.float32) + 0.125
        y = np.eye(2, dtype=np.float32)[rng.integers(2, size=n)] * rng.choice([1.0, -1.0, 2.0])
        return x, y.astype(np.float32)

    same_buffer = bool(d.get("same_buffer"))
    if same_buffer:
        # every call passes THE SAME two NumPy objects, rewritten in place between the calls (a training-loop buffer): the
        # result may depend on the values held at call time only (added after a seeded identity-keyed conversion cache)
        d["history_N"] = [d["N"]] * len(d["history_N"])
        ctx.count("same_buffer_cases")
    calls = [data(n) for n in d["history_N"]]
    final = data(d["N"])
    xbuf = np.zeros_like(final[0])
    ybuf = np.zeros_like(final[1])

    def seeded(fn):
        tf.random.set_seed(d["case_seed"] % 991)
        np.random.seed(d["case_seed"] % 991)
        return fn()

    ok, obj = ctx.impl_call(d, lambda: seeded(lambda: build_attr(name, model, kind, cfg)), signature="construct")
    if not ok:
        ctx.case(d, False)
        return
    states = []
    others = []
    for i, (x, y) in enumerate(calls):
        xc, yc = x.copy(), y.copy()
        if same_buffer:
            xbuf[...] = x
            ybuf[...] = y
            x, y = xbuf, ybuf
        tf.random.set_seed(d["case_seed"] % 991 + 17 + i)      # earlier calls draw from OTHER random streams than the compared call
        ok, _ = ctx.impl_call(d, lambda: obj(x, y).numpy(), signature=f"history-call")
        if not ok:
            ctx.case(d, False)
            return
        ctx.check_prop("inputs-not-modified", bool(np.array_equal(x, xc) and np.array_equal(y, yc)), d, {"call": i})
        if name == "Occlusion":
            states.append(occl_state(obj))
        if name in ("Lime", "KernelShap"):
            states.append(lime_state(obj))
        # interleave explainers on other models (kept or discarded)
        if d["interleave"][i % len(d["interleave"])]:
            om = make_model(tf, kind, shape, 7000 + i + d["model_seed"])
            oe = build_attr("Saliency" if name in IMG_ONLY else "Occlusion", om, kind,
                            {"bs": 3, "patch": 1 if kind != "img" else 2, "stride": 1 if kind != "img" else 2})
            oe(x[:1], y[:1])
            if d["interleave"][(i + 1) % len(d["interleave"])]:
                others.append(om)
            else:
                del om, oe
                gc.collect()
    xf, yf = final
    if same_buffer:
        xbuf[...] = xf
        ybuf[...] = yf
        xh, yh = xbuf, ybuf
    else:
        xh, yh = xf, yf
    ok, r_hist = ctx.impl_call(d, lambda: seeded(lambda: obj(xh, yh).numpy()), signature="final-call")
    if not ok:
        ctx.case(d, False)
        return
    r_hist2 = seeded(lambda: obj(xh, yh).numpy())
    fresh = seeded(lambda: build_attr(name, model, kind, cfg))
    r_fresh = seeded(lambda: fresh(xf, yf).numpy())
    tol = dict(rtol=2e-4, atol=2e-5) if name in ("KernelShap",) else dict(rtol=1e-5, atol=1e-6)
    ctx.case(d, len(calls) >= 2 and float(np.ptp(r_fresh)) > 0)
    ctx.count("method", name)
    ctx.count("history_len", len(calls))
    ctx.check_prop("history-independent", r_hist.shape == r_fresh.shape and bool(np.allclose(r_hist, r_fresh, equal_nan=True, **tol)), d,
                   {"after_history": r_hist.reshape(-1)[:6].tolist(), "fresh": r_fresh.reshape(-1)[:6].tolist(),
                    "history_N": d["history_N"]}, signature="history:" + name)
    ctx.check_prop("idempotent", bool(np.allclose(r_hist, r_hist2, equal_nan=True, **tol)), d,
                   {"first": r_hist.reshape(-1)[:6].tolist(), "second": r_hist2.reshape(-1)[:6].tolist()})
    w1 = model.get_weights()
    ctx.check_prop("model-not-modified", all(np.array_equal(a, b) for a, b in zip(w0, w1)), d, {})
    # mutated fields vs the Lean state machines
    if name == "Occlusion":
        lean = ctx.driver.call({"op": "hist_occl", "patch": cfg["patch"], "stride": cfg["stride"],
                                "calls": [len(shape) > 1] * len(calls)})
        got = states
        want = [{"patch": p_(s["patch"]), "stride": p_(s["stride"])} for s in lean]
        if got == want:
            ctx.lanes["exact"] += 1
        else:
            ctx.corr_failures.append(("occl_state_machine", d, {"impl": got, "model": want}))
    if name in ("Lime", "KernelShap"):
        dk = {"tab": "tab", "ts": "ts"}.get(kind, "rgb" if shape[-1] == 3 else ("grey" if shape[-1] == 1 else "other"))
        lean = ctx.driver.call({"op": "hist_lime", "user_ref": False, "user_map": False, "calls": [dk] * len(calls)})
        want = [{"ref": ("zeros1" if s["ref"] == "zerosC" else s["ref"]), "map": s["map"]} for s in lean]
        if states == want:
            ctx.lanes["exact"] += 1
        else:
            ctx.corr_failures.append(("lime_state_machine", d, {"impl": states, "model": want}))
    del others


def p_(v):
    if isinstance(v, list):
        return [int(v[0]), int(v[1])]
    return int(v)


def run_metric_case(ctx, d):
    import tensorflow as tf
    from xplique import metrics as M
    from xplique.attributions import Saliency, GradientInput
    rng = np.random.default_rng(d["case_seed"])
    name, kind, shape = d["metric"], d["kind"], tuple(d["shape"])
    model = make_model(tf, kind, shape, d["model_seed"], linear=(name == "MuFidelity"))
    n = d["N"]
    x = (rng.integers(-4, 5, size=(n,) + shape) / 4.0).astype(np.float32) + 0.125
    y = np.eye(2, dtype=np.float32)[rng.integers(2, size=n)]
    xc, yc = x.copy(), y.copy()

    def seeded(fn):
        tf.random.set_seed(d["case_seed"] % 991)
        np.random.seed(d["case_seed"] % 991)
        return fn()

    def build():
        if name in ("Deletion", "Insertion"):
            return getattr(M, name)(model, x, y, batch_size=d["bs"], steps=4)
        if name == "MuFidelity":
            return M.MuFidelity(model, x, y, batch_size=d["bs"], nb_samples=8, grid_size=None if kind != "img" else 2,
                                subset_percent=0.4)
        return M.AverageStability(model, x, y, batch_size=d["bs"], nb_samples=3, radius=0.25)

    expl_shape = (n,) + (shape[:2] + (1,) if kind == "img" else shape)

    def arg(i):
        if name == "AverageStability":
            return [Saliency(model, batch_size=4), GradientInput(model, batch_size=4)][i % 2]
        if name == "MuFidelity":
            # exact attributions of the linear model: w_i * x_i (baseline 0) for the target class
            w = model.get_weights()[0]
            cls = np.argmax(y, 1)
            e = (x.reshape(n, -1) * w[:, cls].T).reshape((n,) + shape)
            if kind == "img":
                e = e.sum(-1, keepdims=True)
            return (e * [1.0, -1.0, 2.0][i % 3]).astype(np.float32)
        return (np.random.default_rng(d["case_seed"] + i).integers(-8, 9, size=expl_shape) / 8.0).astype(np.float32)

    ok, obj = ctx.impl_call(d, lambda: seeded(build), signature="construct")
    if not ok:
        ctx.case(d, False)
        return
    k = d["history_len"]
    for i in range(k):
        ok, _ = ctx.impl_call(d, lambda: obj(arg(i)), signature="history-call")
        if not ok:
            ctx.case(d, False)
            return
    a = arg(k)
    ok, r_hist = ctx.impl_call(d, lambda: seeded(lambda: float(obj(a))), signature="final-call")
    if not ok:
        ctx.case(d, False)
        return
    r_hist2 = seeded(lambda: float(obj(a)))
    fresh = seeded(build)
    r_fresh = seeded(lambda: float(fresh(a)))
    tol = dict(rtol=1e-4, atol=1e-5) if name == "MuFidelity" else dict(rtol=1e-5, atol=1e-6)
    ctx.case(d, k >= 2)
    ctx.count("metric", name)
    ctx.check_prop("history-independent", bool(np.isclose(r_hist, r_fresh, equal_nan=True, **tol)), d,
                   {"after_history": r_hist, "fresh": r_fresh}, signature="history:" + name)
    ctx.check_prop("idempotent", bool(np.isclose(r_hist, r_hist2, equal_nan=True, **tol)), d, {"first": r_hist, "second": r_hist2})
    ctx.check_prop("inputs-not-modified", bool(np.array_equal(x, xc) and np.array_equal(y, yc)), d, {})


def run_cache_case(ctx, d):
    """sequence of explainer constructions over several models (some are views of the same tensors)"""
    import tensorflow as tf
    from xplique.attributions import Saliency, Occlusion
    rng = np.random.default_rng(d["case_seed"])
    ctx.case(d, True)
    ctx.count("cache_sequences")
    models = []
    seq = []
    live = []
    for step in d["steps"]:
        if step == "new":
            # distinct models may carry the same user-given name (e.g. "classifier")
            m = make_model(tf, "tab", (4,), int(rng.integers(1 << 20)), name="net")
            models.append(m)
            live.append(m)
        elif step == "view" and models:
            base = models[int(rng.integers(len(models)))]
            m = tf.keras.Model(base.input, base.output)      # another object, same tensors
            models.append(m)
            live.append(m)
        elif step == "sibling" and models:
            base = models[int(rng.integers(len(models)))]
            lay = [l for l in base.layers if l.output is not base.output and hasattr(l, "units")]
            if not lay:
                continue
            m = tf.keras.Model(base.input, lay[-1].output)   # same input tensor, ANOTHER output tensor
            models.append(m)
            live.append(m)
        elif step == "drop" and models:
            t = make_model(tf, "tab", (4,), int(rng.integers(1 << 20)))
            Saliency(t)
            del t
            gc.collect()
            continue
        else:
            continue
    order = [int(i) for i in rng.integers(len(models), size=d["n_constructions"])] if models else []
    order += [i for i in range(len(models)) if i not in order]          # every model gets at least one explainer
    expl = []
    for i in order:
        cls = Saliency if rng.random() < 0.5 else Occlusion
        e = cls(models[i])
        expl.append(e)
        seq.append({"id": id(models[i]), "inp": id(models[i].input), "out": id(models[i].output)})
    lean = ctx.driver.call({"op": "hist_cache", "models": seq}) if seq else []
    for j, (i, e) in enumerate(zip(order, expl)):
        good = e.model.input is models[i].input and e.model.output is models[i].output
        ctx.check_prop("cache-sound", good, d, {"construction": j})
        # what the Lean cache model says this explainer holds (object identity)
        if int(lean[j]) == id(e.model):
            ctx.lanes["exact"] += 1
        else:
            # the process-wide cache may already hold an entry from an earlier case (still sound): compare keys only
            ctx.count("cache_entry_from_earlier_case")
    # results: an explainer built on a view equals the one built on the base
    x = rng.integers(-3, 4, size=(2, 4)).astype(np.float32)
    for i, e in zip(order, expl):
        if isinstance(e, Saliency):
            nout = int(models[i].output.shape[-1])
            y = np.eye(nout, dtype=np.float32)[[0, nout - 1]]
            # independent reference: |d sum(model(x) * y) / dx| straight from autodiff, no explainer, no cache
            xt = tf.constant(x)
            with tf.GradientTape() as tape:
                tape.watch(xt)
                sc = tf.reduce_sum(models[i](xt) * y, -1)
            ref = np.abs(tape.gradient(sc, xt).numpy())
            ok, got = ctx.impl_call(d, lambda: e(x, y).numpy(), signature="cache-explain")
            if ok:
                ctx.check_prop("cache-isolation", got.shape == ref.shape and bool(np.allclose(got, ref, rtol=1e-5, atol=1e-6)), d,
                               {"model": i, "got": got.reshape(-1)[:4].tolist(), "reference": ref.reshape(-1)[:4].tolist()})
    _KEEP.extend(live[-2:])
    del _KEEP[:-6]


def make_relu_model(tf, shape, seed):
    """ReLU *layers* / Activation('relu') layers (no weights) and a fused relu (added after a seeded clone that shared
    the weight-less layers with the user's model was missed)"""
    rng = np.random.default_rng(seed)
    inp = tf.keras.Input(tuple(shape))
    f = tf.keras.layers.Flatten()(inp) if len(shape) > 1 else inp
    h = tf.keras.layers.Dense(5)(f)
    h = tf.keras.layers.ReLU()(h)
    h = tf.keras.layers.Dense(4)(h)
    h = tf.keras.layers.Activation("relu")(h)
    h = tf.keras.layers.Dense(3, activation="relu")(h)
    out = tf.keras.layers.Dense(2)(h)
    m = tf.keras.Model(inp, out)
    for v in m.trainable_variables:
        v.assign((rng.integers(-4, 5, size=v.shape) / 4.0).astype(np.float32))
    return m


def _is_relu_site(tf, l):
    return bool(isinstance(l, tf.keras.layers.ReLU) or getattr(l, "activation", None) in (tf.nn.relu, tf.keras.activations.relu))


def run_override_case(ctx, d):
    """the user's model (and explainers made before / after on it) back-propagates as an untouched twin does, whatever
    DeconvNet / GuidedBackprop objects were built on it in between; new batch shapes force new traces"""
    import tensorflow as tf
    from xplique import attributions as A
    rng = np.random.default_rng(d["case_seed"])
    shape = tuple(d["shape"])
    model = make_relu_model(tf, shape, d["model_seed"])
    twin = make_relu_model(tf, shape, d["model_seed"])          # never given to xplique

    def data(n):
        x = (rng.integers(-4, 5, size=(n,) + shape) / 4.0).astype(np.float32) + 0.125
        y = np.eye(2, dtype=np.float32)[rng.integers(2, size=n)]
        return x, y

    def user_grad(m, x, y):
        xt = tf.constant(x)
        with tf.GradientTape() as t:
            t.watch(xt)
            s = tf.reduce_sum(m(xt) * y, -1)
        return t.gradient(s, xt).numpy()

    objs = {}
    sal_before = A.Saliency(model, batch_size=d["bs"])
    x0, y0 = data(d["Ns"][0])
    sal_before(x0, y0)
    for step, n in zip(d["steps"], d["Ns"][1:]):
        x, y = data(n)
        dd = dict(d, step=step, n=n)

        def do():
            if step not in objs:
                objs[step] = getattr(A, step)(model, batch_size=d["bs"])
            return objs[step](x, y).numpy()
        ok, got = ctx.impl_call(dd, do)
        if not ok:
            continue
        if step != "Saliency":
            # frame condition of the override: the explainer's (cloned) model owns none of the user's layer objects
            # (sharing layers the override never re-routes would be harmless; only ReLU sites count)
            shared = set(map(id, objs[step].model.layers)) & set(id(l) for l in model.layers if _is_relu_site(tf, l))
            ctx.check_prop("override-clone-shares-no-relu-site-object", not shared, dd, {"shared_relu_sites": len(shared)})
        want = getattr(A, step)(twin, batch_size=d["bs"])(x, y).numpy()
        ctx.check_prop("explainer-unaffected-by-later-explainers", got.shape == want.shape and bool(np.allclose(got, want, rtol=1e-5, atol=1e-6)),
                       dd, {"got": got.reshape(-1)[:6].tolist(), "want": want.reshape(-1)[:6].tolist()}, signature="override:" + step)
        gm, gt = user_grad(model, x, y), user_grad(twin, x, y)
        ctx.check_prop("user-model-backprop-unchanged", bool(np.allclose(gm, gt, rtol=1e-5, atol=1e-6)), dd,
                       {"got": gm.reshape(-1)[:6].tolist(), "want": gt.reshape(-1)[:6].tolist()})
    # ---- the Lean heap model of clone + re-route (Hist.overrideAll): shared layer objects and rules at the END ----
    built = [st for st in dict.fromkeys(d["steps"]) if st in objs and st != "Saliency"]
    if built:
        relu_flags = [_is_relu_site(tf, l) for l in model.layers]
        lm = ctx.driver.call({"op": "hist_override", "relu": relu_flags,
                              "steps": [{"DeconvNet": "deconv", "GuidedBackprop": "guided"}[st] for st in built]})
        shared = [len(set(map(id, objs[st].model.layers)) & set(id(l) for l in model.layers if _is_relu_site(tf, l))) for st in built]
        ctx.check_corr("override_shared_relu_site_objects", shared, [Fraction(v) for v in lm["shared_relu"]], d, rtol=0, atol=0)
        xr, yr = data(d["N_final"] + 2)                       # a batch shape nobody has traced yet
        ref = {"plain": user_grad(twin, xr, yr),
               "deconv": A.DeconvNet(twin, batch_size=None)(xr, yr).numpy(),
               "guided": A.GuidedBackprop(twin, batch_size=None)(xr, yr).numpy()}

        def rules_matching(g):
            return sorted(k for k, v in ref.items() if v.shape == g.shape and np.allclose(g, v, rtol=1e-5, atol=1e-6))
        got_user = rules_matching(user_grad(model, xr, yr))
        want_user = sorted(set(lm["user_rules"]))
        ctx.check_prop("user-model-rule-as-modelled", all(r in got_user for r in want_user), dict(d, step="end"),
                       {"matching_rules": got_user, "model": want_user})
        for st, rules in zip(built, lm["clone_rules"]):
            ok, g = ctx.impl_call(dict(d, step="end:" + st), lambda: objs[st](xr, yr).numpy())
            if ok:
                got = rules_matching(g)
                ctx.check_prop("explainer-rule-as-modelled", all(r in got for r in set(rules)), dict(d, step="end:" + st),
                               {"matching_rules": got, "model": sorted(set(rules))}, signature="override-rule:" + st)
    xn, yn = data(d["N_final"])
    for nm, ex in (("Saliency-created-before", sal_before), ("Saliency-created-after", A.Saliency(model, batch_size=d["bs"])),
                   ("GradientInput-created-after", A.GradientInput(model, batch_size=d["bs"]))):
        cls = A.GradientInput if nm.startswith("GradientInput") else A.Saliency
        ok, got = ctx.impl_call(dict(d, step=nm), lambda: ex(xn, yn).numpy())
        if ok:
            want = cls(twin, batch_size=d["bs"])(xn, yn).numpy()
            ctx.check_prop("explainer-unaffected-by-other-explainers", bool(np.allclose(got, want, rtol=1e-5, atol=1e-6)), dict(d, step=nm),
                           {"got": got.reshape(-1)[:6].tolist(), "want": want.reshape(-1)[:6].tolist()}, signature="override:" + nm)
    ctx.count("override_steps", len(d["steps"]))
    ctx.case(d, len(set(d["steps"])) >= 2)


def gen_cases(ctx):
    rng = ctx.rng
    thorough = ctx.tier == "thorough"
    hmax = 8 if thorough else 4
    cases = []
    reps = (4 if thorough else 1) * ctx.budget_scale
    shapes = {"tab": [(5,), (3,)], "ts": [(4, 3), (3, 2)], "img": [(5, 6, 3), (4, 5, 1), (6, 4, 3)]}
    for name in ATTR:
        for r in range(reps * 2):
            kind = "img" if name in IMG_ONLY else ["tab", "img", "ts"][(r + int(rng.integers(3))) % 3]
            shape = shapes[kind][int(rng.integers(len(shapes[kind])))]
            if name in ("Lime", "KernelShap") and kind == "img":
                shape = [s for s in shapes["img"] if s[2] in (1, 3)][int(rng.integers(3))]
            hl = int(rng.integers(1, hmax + 1))
            p = 2 if kind == "img" else 1
            if kind != "tab" and rng.random() < 0.5:
                patch, stride = [p, 1], p
            else:
                patch, stride = p, p
            cases.append({"type": "attr", "method": name, "kind": kind, "shape": list(shape), "model_seed": int(rng.integers(50)),
                          "history_N": [int(rng.integers(1, 5)) for _ in range(hl)], "N": int(rng.integers(1, 4)),
                          "interleave": [bool(b) for b in rng.integers(2, size=3)],
                          "cfg": {"bs": int(rng.choice([1, 2, 4, 16])), "patch": patch, "stride": stride},
                          "same_buffer": bool(r % 2 == 1), "case_seed": int(rng.integers(1 << 31))})
            if name == "Rise" and r % 2 == 0:
                cases[-1]["cfg"]["rise_p"] = 0.5
                # the first earlier call has another N than the compared call: Rise._get_masks is traced per input shape, and
                # within one trace the draws restart identically after every re-seeding whatever the seed value
                cases[-1]["history_N"] = [cases[-1]["N"] + 1] + cases[-1]["history_N"][1:]
    for name in METRICS:
        for r in range(reps * 2):
            kind = ["tab", "img", "ts"][r % 3] if name != "MuFidelity" else ["tab", "img"][r % 2]
            shape = shapes[kind][int(rng.integers(len(shapes[kind])))]
            cases.append({"type": "metric", "metric": name, "kind": kind, "shape": list(shape), "model_seed": int(rng.integers(50)),
                          "history_len": int(rng.integers(1, hmax + 1)), "N": int(rng.integers(2, 5)),
                          "bs": int(rng.choice([1, 3, 16])), "case_seed": int(rng.integers(1 << 31))})
    for _ in range(reps * 3):
        steps = [str(rng.choice(["new", "view", "sibling", "sibling", "drop"])) for _ in range(int(rng.integers(3, 8)))]
        steps[0] = "new"
        steps[1] = "new"
        cases.append({"type": "cache", "steps": steps, "n_constructions": int(rng.integers(3, 9)),
                      "case_seed": int(rng.integers(1 << 31))})
    shp = [(5,), (4, 3), (3, 4, 2)]
    for _ in range(reps * 3):
        k = int(rng.integers(2, 6))
        steps = [str(rng.choice(["DeconvNet", "GuidedBackprop", "Saliency"])) for _ in range(k)]
        steps[0], steps[1] = ("DeconvNet", "GuidedBackprop") if rng.random() < 0.5 else ("GuidedBackprop", "DeconvNet")
        cases.append({"type": "override", "shape": list(shp[int(rng.integers(3))]), "model_seed": int(rng.integers(50)),
                      "steps": steps, "Ns": [int(rng.integers(1, 6)) for _ in range(k + 1)], "N_final": int(rng.integers(6, 9)),
                      "bs": int(rng.choice([1, 2, 16])), "case_seed": int(rng.integers(1 << 31))})
    return cases


def run_case(ctx, d):
    {"attr": run_attr_case, "metric": run_metric_case, "cache": run_cache_case, "override": run_override_case}[d["type"]](ctx, d)


def run(ctx):
    for d in gen_cases(ctx):
        run_case(ctx, d)


def replay(ctx, r):
    run_case(ctx, r["case"] if "case" in r else r["first_disagreement"][0])
